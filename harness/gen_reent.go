package main

// Stream `reent` of channels rest / bal (C04): RE-ENTRANCY of every scoped control construct.
//
// Compiled code (instructions, loop records, function templates) is shared by all activations
// of a function. Whatever the VM keeps about "where the scope / data stack stood when this
// construct was entered" must therefore belong to the activation (the stacks themselves, the
// static counts in the instructions), never to the code. A program shows the difference only
// when the SAME construct is entered again, deeper, while an outer activation of it is still
// open, and the outer activation afterwards leaves the construct by a path whose clean-up
// depends on the bookkeeping: break/continue out of nested scopes, a tail call out of nested
// scopes, the end of a loop body (stack-mark), the end of a package.
//
// Families (all parameters drawn from g.Rng; counted in the evidence):
//   enum   the cross product {how the function calls itself} x {loop shape} x {break|continue}
//          x {order of recursive call and exit}, each with one `let` around the exit, depth 2
//   loop   random points of the full space: 10 ways of recursing (direct, mutual, two kinds of
//          closures, map, apply, macro, lazy thunk, eval, closure made inside the loop) x 7 loop
//          shapes (plain, labelled, nested + labelled exit, infix, infix labelled, range, macro that
//          expands to a loop) x exit (break|continue; innermost, own label, outer label) from
//          inside 0-3 nested let / letseq / newScope / package scopes x 6 syntactic positions of
//          the exit (cond arm, cond test, and-arm, let initialiser, array element, begin) x order
//          (recursive call before / in an earlier iteration than / after / inside the scopes of the
//          exit) x recursion depth 0-4 x declaration (defn, def+fn, func builder) x place of the
//          recursive call (loop body, init, test, increment clause)
//   walk   recursive tree walks over random nested array literals (depth <= 4) with exits at
//          negative leaves
//   tail   self TAIL calls out of nested scopes after a NON-tail self call in the same activation;
//          loops whose function ends in a tail call
//   mac    macros that expand to loops used in recursive functions, nested expansions, macro
//          functions that loop and recurse at expansion time, a macro that expands to itself
//   lazy   lazy parameters forced inside loops / nested scopes where the thunk re-enters the
//          function that forces it
//   pkg    package bodies and newScope / let bodies re-entered recursively, with exits
//   rnd    grammar-directed recursive functions: the `full` generator with the function being
//          defined callable (on a decreasing read-only counter) from anywhere in its own body
//   rep    any of the above served N times by one interpreter (the idle interpreter must not grow)

import (
	"fmt"
	"strings"
)

type reSpec struct {
	rec    int
	loop   int
	exit   string // break | continue
	target int    // 0 innermost loop, no label; 1 the loop's own label; 2 the outer loop's label
	wraps  []int  // scopes around the exit, outermost first
	pos    int    // syntactic position of the exit
	order  int
	depth  int
	ri, ei int
	again  bool // call a second time in a later text
	decl   int  // how the function is declared: defn | (def rf (fn …)) | func builder
	recAt  int  // where in the loop the recursive call sits: body | init | test | increment
}

var reDeclNames = []string{"defn", "def-fn", "func-builder"}
var reRecAtNames = []string{"body", "loop-init", "loop-test", "loop-increment"}

// self: a direct call of the function with argument m
func (s reSpec) self(m string) string {
	if s.decl == 2 {
		return "(rf dn:" + m + ")"
	}
	return "(rf " + m + ")"
}

var reRecNames = []string{"direct", "mutual", "closure-global", "closure-inline", "map", "apply", "macro", "lazy", "eval", "closure-in-loop"}
var reLoopNames = []string{"for", "for-labelled", "nested", "infix-for", "infix-labelled", "range", "macro-loop"}
var reWrapNames = []string{"let", "letseq", "newScope", "package"}
var rePosNames = []string{"cond-arm", "cond-test", "and-arm", "let-init", "array-elem", "begin"}
var reOrderNames = []string{"rec-then-exit", "rec-earlier-iteration", "exit-then-rec", "rec-inside-scopes"}

// reSetup: definitions a spec needs besides the function itself (first text)
func (s reSpec) setup() []string {
	out := []string{`(def tot 0)`}
	switch s.rec {
	case 1:
		out = append(out, `(defn rg2 [m] (let [z m] `+s.self("z")+`))`)
	case 2:
		out = append(out, `(def rh (fn [m] (newScope `+s.self("m")+`)))`)
	case 6:
		if s.decl == 2 {
			out = append(out, `(defmac rmac [a] ^(rf dn: ~a))`)
		} else {
			out = append(out, `(defmac rmac [a] ^(rf ~a))`)
		}
	case 7:
		out = append(out, `(defn rlz [#t] (let [u 1] (+ u (force #t))))`)
	}
	if s.loop == 6 {
		out = append(out, `(defmac rfor [k & body] ^(for [(def i 0) (< i ~k) (set i (+ i 1))] ~@body))`)
	}
	return out
}

func (s reSpec) call(arg string) string {
	switch s.rec {
	case 0:
		return s.self(arg)
	case 1:
		return "(rg2 " + arg + ")"
	case 2:
		return "(rh " + arg + ")"
	case 3:
		return "((fn [m] " + s.self("m") + ") " + arg + ")"
	case 4:
		return "(first (map (fn [m] " + s.self("m") + ") [" + arg + "]))"
	case 5:
		if s.decl == 2 {
			return s.self(arg) // named arguments do not go through apply
		}
		return "(apply rf [" + arg + "])"
	case 6:
		return "(rmac " + arg + ")"
	case 7:
		return "(rlz " + s.self(arg) + ")"
	case 8:
		if s.decl == 2 {
			return "(eval (quote " + s.self("0") + "))"
		}
		return "(eval (list (quote rf) " + arg + "))"
	default:
		return "(let [hk (fn [m] " + s.self("m") + ")] (hk " + arg + "))"
	}
}

func (s reSpec) infix() bool { return s.loop == 3 || s.loop == 4 }

func (s reSpec) exitForm() string {
	lab := ""
	switch s.target {
	case 1:
		lab = "lp"
	case 2:
		lab = "lo"
	}
	if lab == "" {
		return "(" + s.exit + ")"
	}
	return "(" + s.exit + " " + lab + ":)"
}

// exitStmt: the guarded exit in its syntactic position, wrapped in the scopes; `inner` (if any)
// is evaluated inside the scopes, just before the exit.
func (s reSpec) exitStmt(inner string) string {
	x := s.exitForm()
	guard := fmt.Sprintf("(== i %d)", s.ei)
	var e string
	if inner != "" {
		x = "(begin " + inner + " " + x + ")"
	}
	switch s.pos {
	case 0:
		e = fmt.Sprintf("(cond %s %s nil)", guard, x)
	case 1:
		e = fmt.Sprintf("(cond (and %s %s) 1 2)", guard, x)
	case 2:
		e = fmt.Sprintf("(and %s %s)", guard, x)
	case 3:
		e = fmt.Sprintf("(let [zi (cond %s %s 0)] zi)", guard, x)
	case 4:
		e = fmt.Sprintf("[1 (cond %s %s 2) 3]", guard, x)
	default:
		e = fmt.Sprintf("(cond %s (begin 1 %s) nil)", guard, x)
	}
	for k := len(s.wraps) - 1; k >= 0; k-- {
		switch s.wraps[k] {
		case 0:
			e = fmt.Sprintf("(let [w%d %d] %s)", k, k+1, e)
		case 1:
			e = fmt.Sprintf("(letseq [w%d 1 v%d (+ w%d 1)] %s)", k, k, k, e)
		case 2:
			e = fmt.Sprintf("(newScope %s)", e)
		default:
			e = fmt.Sprintf("(package \"rp%d\" (def Y%d 1) %s)", k, k, e)
		}
	}
	return e
}

func (s reSpec) fn() string {
	rec := func(guardI bool) string {
		g := "(> dn 0)"
		if guardI {
			g = fmt.Sprintf("(and (> dn 0) (== i %d))", s.ri)
		}
		return fmt.Sprintf("(cond %s %s nil)", g, s.call("(- dn 1)"))
	}
	acc := "(set tot (+ tot (+ 10 i)))"
	// the three clauses of an s-expression loop; the recursive call may sit in one of them
	// (it then runs while the loop's own scope and stack-mark are already in place)
	init, test, incr := "(def i 0)", "(< i 3)", "(set i (+ i 1))"
	recHere := rec(true)
	if s.recAt != 0 && s.loop <= 2 && s.order != 3 {
		recHere = "1"
		switch s.recAt {
		case 1:
			init = "(def i (begin (cond (> dn 0) " + s.call("(- dn 1)") + " nil) 0))"
		case 2:
			test = fmt.Sprintf("(< i (begin (cond (and (> dn 0) (== i %d)) %s nil) 3))", s.ri, s.call("(- dn 1)"))
		default:
			incr = fmt.Sprintf("(set i (+ i (begin (cond (and (> dn 0) (== i %d)) %s nil) 1)))", s.ri, s.call("(- dn 1)"))
		}
	}
	var stmts []string
	switch s.order {
	case 0:
		stmts = []string{recHere, s.exitStmt(""), acc}
	case 1:
		stmts = []string{acc, s.exitStmt(""), recHere}
	case 2:
		stmts = []string{s.exitStmt(""), acc, recHere}
	default:
		stmts = []string{acc, s.exitStmt(rec(false))}
	}
	body := strings.Join(stmts, " ")
	hdr := "[" + init + " " + test + " " + incr + "]"
	var loop string
	switch s.loop {
	case 0:
		loop = "(for " + hdr + " " + body + ")"
	case 1:
		loop = "(for lp: " + hdr + " " + body + ")"
	case 2:
		loop = "(for lo: [(def j 0) (< j 2) (set j (+ j 1))] (for lp: " + hdr + " " + body + ") (set tot (+ tot 100)))"
	case 3:
		loop = "{for i := 0; i < 3; i++ { " + strings.Join(stmts, "; ") + " }}"
	case 4:
		loop = "{lo: for j := 0; j < 2; j++ { lp: for i := 0; i < 3; i++ { " + strings.Join(stmts, "; ") + " }; tot += 100 }}"
	case 5:
		loop = "" // below
	default:
		loop = "(rfor 3 " + body + ")"
	}
	if s.loop == 5 {
		// the standard library's `range` macro is not hygienic: it binds `n` and `i` itself (i = the
		// index it iterates with); the body uses the key variable instead
		loop = strings.NewReplacer("(== i ", "(== rk ", "(+ 10 i)", "(+ 10 rk)").Replace("(range rk rv [7 8 9] " + body + ")")
	}
	switch s.decl {
	case 1:
		return "(def rf (fn [dn] " + loop + " (set tot (+ tot 1)) dn))"
	case 2:
		return "(func rf [dn:int64] [r:int64] " + loop + " (set tot (+ tot 1)) (return dn))"
	}
	return "(defn rf [dn] " + loop + " (set tot (+ tot 1)) dn)"
}

func (s reSpec) valid() bool {
	if s.target == 2 && s.loop != 2 && s.loop != 4 {
		return false
	}
	if s.target == 1 && (s.loop == 0 || s.loop == 3 || s.loop == 5 || s.loop == 6) {
		return false
	}
	return true
}

func (s reSpec) history() [][]string {
	t0 := append(s.setup(), s.fn())
	texts := [][]string{t0, {s.self(fmt.Sprint(s.depth)), "tot"}}
	if s.again {
		texts = append(texts, []string{"(list 7 " + s.self(fmt.Sprint(s.depth)) + " 8)", "tot"})
	}
	return texts
}

func (s reSpec) count(g *Gen, fam string) {
	g.Count("reent " + fam + " rec " + reRecNames[s.rec])
	g.Count("reent " + fam + " loop " + reLoopNames[s.loop])
	g.Count("reent " + fam + " exit " + s.exit + []string{"", "-own-label", "-outer-label"}[s.target])
	g.Count("reent " + fam + " order " + reOrderNames[s.order])
	g.Count(fmt.Sprintf("reent %s scopes-around-exit %d", fam, len(s.wraps)))
	g.Count("reent " + fam + " exit-position " + rePosNames[s.pos])
	g.Count(fmt.Sprintf("reent %s depth %d", fam, s.depth))
	g.Count("reent " + fam + " declared-by " + reDeclNames[s.decl])
	g.Count("reent " + fam + " recursive-call-in " + reRecAtNames[s.recAt])
	for _, w := range s.wraps {
		g.Count("reent " + fam + " scope " + reWrapNames[w])
	}
}

func reRandomSpec(g *Gen) reSpec {
	for {
		s := reSpec{rec: g.Rng.Intn(len(reRecNames)), loop: g.Rng.Intn(len(reLoopNames)),
			exit: []string{"break", "continue"}[g.Rng.Intn(2)], target: g.Rng.Intn(3), pos: g.Rng.Intn(len(rePosNames)),
			order: g.Rng.Intn(len(reOrderNames)), depth: g.Rng.Intn(5), ri: g.Rng.Intn(3), ei: g.Rng.Intn(3), again: g.Rng.Intn(3) == 0}
		for n := g.Rng.Intn(4); n > 0; n-- {
			s.wraps = append(s.wraps, g.Rng.Intn(len(reWrapNames)))
		}
		if !s.valid() {
			s.target = 0
		}
		if s.order == 0 {
			s.ei = s.ri
		}
		if g.Rng.Intn(3) == 0 {
			s.decl = 1 + g.Rng.Intn(2)
		}
		if g.Rng.Intn(3) == 0 {
			s.recAt = 1 + g.Rng.Intn(3)
		}
		return s
	}
}

// ---- tree walks

func reTree(g *Gen, d int) string {
	n := 1 + g.Rng.Intn(4)
	var xs []string
	for i := 0; i < n; i++ {
		switch {
		case d > 0 && g.Rng.Intn(3) == 0:
			xs = append(xs, reTree(g, d-1))
		case g.Rng.Intn(4) == 0:
			xs = append(xs, "-1")
		default:
			xs = append(xs, fmt.Sprint(1+g.Rng.Intn(9)))
		}
	}
	return "[" + strings.Join(xs, " ") + "]"
}

func reWalk(g *Gen) [][]string {
	s := reRandomSpec(g)
	s.decl, s.recAt = 0, 0
	s.loop = []int{0, 1, 2, 6}[g.Rng.Intn(4)]
	if !s.valid() {
		s.target = 0
	}
	x := s.exitForm()
	leaf := fmt.Sprintf("(cond (array? c) %s (< c 0) %s (set tot (+ tot c)))", s.call("c"), x)
	if g.Rng.Intn(2) == 0 {
		// the exit after the recursion, in the same iteration
		leaf = fmt.Sprintf("(begin (cond (array? c) %s nil) (cond (and (not (array? c)) (< c 0)) %s (array? c) nil (set tot (+ tot c))))", s.call("c"), x)
	}
	e := "(let [c (aget tree i)] " + leaf + ")"
	for k := len(s.wraps) - 1; k >= 0; k-- {
		switch s.wraps[k] {
		case 0:
			e = fmt.Sprintf("(let [w%d %d] %s)", k, k+1, e)
		case 1:
			e = fmt.Sprintf("(letseq [w%d 1 v%d (+ w%d 1)] %s)", k, k, k, e)
		case 2:
			e = fmt.Sprintf("(newScope %s)", e)
		default:
			e = fmt.Sprintf("(package \"rp%d\" (def Y%d 1) %s)", k, k, e)
		}
	}
	hdr := "[(def i 0) (< i (len tree)) (set i (+ i 1))]"
	var loop string
	switch s.loop {
	case 0:
		loop = "(for " + hdr + " " + e + ")"
	case 1:
		loop = "(for lp: " + hdr + " " + e + ")"
	case 2:
		loop = "(for lo: [(def j 0) (< j 2) (set j (+ j 1))] (for lp: " + hdr + " " + e + "))"
	default:
		loop = "(rfor (len tree) " + e + ")"
	}
	def := "(defn rf [tree] " + loop + " (len tree))"
	s.count(g, "walk")
	tr := reTree(g, 1+g.Rng.Intn(4))
	t0 := append(s.setup(), def)
	texts := [][]string{t0, {"(rf " + tr + ")", "tot"}}
	if g.Rng.Intn(2) == 0 {
		texts = append(texts, []string{"(rf " + reTree(g, 2) + ")", "(def probe 7)", "probe"})
	}
	return texts
}

// ---- tail calls under re-entrancy

func reTail(g *Gen) [][]string {
	wrap := func(e string, n int) string {
		for k := 0; k < n; k++ {
			switch g.Rng.Intn(3) {
			case 0:
				e = fmt.Sprintf("(let [w%d 1] %s)", k, e)
			case 1:
				e = fmt.Sprintf("(newScope %s)", e)
			default:
				e = fmt.Sprintf("(letseq [w%d 1 v%d 2] %s)", k, k, e)
			}
		}
		return e
	}
	nw := g.Rng.Intn(4)
	d := g.Rng.Intn(5)
	g.Count(fmt.Sprintf("reent tail scopes %d", nw))
	var def string
	kind := g.Rng.Intn(5)
	g.Count("reent tail kind " + []string{"nontail-then-tail", "loop-then-tail", "tail-inside-loop-fn", "varargs", "mutual-nontail"}[kind])
	switch kind {
	case 0:
		// a non-tail self call (let initialiser), then a self tail call out of nested scopes
		def = "(defn tf [n a] (cond (<= n 0) a " + wrap("(let [u (cond (> n 1) (tf 0 1) 0)] (tf (- n 1) (+ a n u)))", nw) + "))"
	case 1:
		// a loop whose body recurses (non-tail), a break out of a let, then a tail call
		def = "(defn tf [n a] (for [(def i 0) (< i 3) (set i (+ i 1))] (let [q i] (cond (and (> n 0) (== i 0)) (tf 0 0) nil) (cond (== q 1) (" +
			[]string{"break", "continue"}[g.Rng.Intn(2)] + ") nil))) (cond (<= n 0) a " + wrap("(tf (- n 1) (+ a 1))", nw) + "))"
	case 2:
		// the tail call sits in a function whose loop was left by break in an earlier, deeper activation
		def = "(defn tf [n a] (let [s 0] (for [(def i 0) (< i 2) (set i (+ i 1))] " + wrap("(cond (== i 1) (break) (set s (+ s (cond (> n 1) (tf 0 0) 1))))", nw) + ") (cond (<= n 0) (+ a s) (tf (- n 1) (+ a s)))))"
	case 3:
		def = "(defn tf [n & r] (cond (<= n 0) (len r) " + wrap("(let [u (cond (> n 1) (tf 0 1 2) 0)] (tf (- n 1) u 2 3))", nw) + "))"
	default:
		def = "(defn tg [m] (+ 1 (tf m 0)))"
		return [][]string{{def, "(defn tf [n a] (cond (<= n 0) a " + wrap("(let [u (cond (> n 1) (tg 0) 0)] (tf (- n 1) (+ a u)))", nw) + "))"},
			{fmt.Sprintf("(tf %d 0)", d)}, {fmt.Sprintf("(list 7 (tf %d 1) 8)", d)}}
	}
	call := fmt.Sprintf("(tf %d 0)", d)
	if kind == 3 {
		call = fmt.Sprintf("(tf %d 9 9)", d)
	}
	return [][]string{{def}, {call}, {"(list 7 " + call + " 8)"}}
}

// ---- macros

func reMac(g *Gen) [][]string {
	d := g.Rng.Intn(4)
	x := []string{"break", "continue"}[g.Rng.Intn(2)]
	kind := g.Rng.Intn(5)
	g.Count("reent mac kind " + []string{"loop-macro-in-recursive-fn", "nested-expansion", "expansion-time-recursion", "self-expanding", "macro-with-exit-arg"}[kind])
	switch kind {
	case 0:
		return [][]string{{`(def tot 0)`, `(defmac mfor [k & body] ^(for [(def i 0) (< i ~k) (set i (+ i 1))] ~@body))`,
			`(defn rf [n] (mfor 3 (cond (and (> n 0) (== i 0)) (rf (- n 1)) nil) (let [q i] (cond (== q 1) (` + x + `) nil)) (set tot (+ tot 1))) n)`},
			{fmt.Sprintf("(rf %d)", d), "tot"}}
	case 1:
		return [][]string{{`(def tot 0)`, `(defmac mfor [v k & body] ^(for [(def ~v 0) (< ~v ~k) (set ~v (+ ~v 1))] ~@body))`,
			`(defn rf [n] (mfor a 2 (mfor b 2 (cond (and (> n 0) (== b 0)) (rf (- n 1)) nil) (newScope (let [q b] (cond (== q 1) (` + x + `) nil))) (set tot (+ tot 1)))) n)`},
			{fmt.Sprintf("(rf %d)", d), "tot"}}
	case 2:
		// the macro FUNCTION loops and recurses while the text is being compiled
		return [][]string{{`(def tot 0)`,
			`(defn cnt [n] (for [(def i 0) (< i 3) (set i (+ i 1))] (cond (and (> n 0) (== i 0)) (cnt (- n 1)) nil) (let [q i] (cond (== q 1) (` + x + `) nil)) (set tot (+ tot 1))) n)`,
			fmt.Sprintf(`(defmac mk [a] (cnt %d) ^(+ ~a 1))`, d)},
			{"(mk 4)", "tot"}, {"(list (mk 1) (mk 2))"}}
	case 3:
		return [][]string{{`(def tot 0)`,
			`(defmac mrec [n] (cond (== n 0) 0 ^(let [q ~n] (for [(def i 0) (< i 2) (set i (+ i 1))] (let [z i] (cond (== z 1) (` + x + `) (set tot (+ tot q))))) (mrec ~(- n 1)))))`},
			{fmt.Sprintf("(mrec %d)", d), "tot"}}
	default:
		return [][]string{{`(def tot 0)`, `(defmac unless2 [c & body] ^(cond ~c nil (begin ~@body)))`,
			`(defn rf [n] (for [(def i 0) (< i 3) (set i (+ i 1))] (cond (and (> n 0) (== i 0)) (rf (- n 1)) nil) (let [q i] (unless2 (!= q 1) 1 (` + x + `))) (set tot (+ tot 1))) n)`},
			{fmt.Sprintf("(rf %d)", d), "tot"}}
	}
}

// ---- lazy thunks

func reLazy(g *Gen) [][]string {
	d := g.Rng.Intn(4)
	x := []string{"break", "continue"}[g.Rng.Intn(2)]
	kind := g.Rng.Intn(4)
	g.Count("reent lazy kind " + []string{"force-in-loop-let", "force-twice", "thunk-with-loop", "force-in-nested-scopes"}[kind])
	switch kind {
	case 0:
		return [][]string{{`(defn lzl [#t k] (let [s 0] (for [(def i 0) (< i k) (set i (+ i 1))] (let [u (force #t)] (cond (== i 1) (` + x + `) (set s (+ s u))))) s))`,
			`(defn rf [n] (cond (<= n 0) 1 (lzl (rf (- n 1)) 3)))`}, {fmt.Sprintf("(rf %d)", d)}, {fmt.Sprintf("(list 7 (rf %d))", d)}}
	case 1:
		return [][]string{{`(defn lzl [#t k] (let [s 0] (for [(def i 0) (< i k) (set i (+ i 1))] (newScope (let [u (+ (force #t) (force #t))] (cond (== i 1) (` + x + `) (set s (+ s u)))))) s))`,
			`(defn rf [n] (cond (<= n 0) 1 (+ 1 (lzl (rf (- n 1)) 2))))`}, {fmt.Sprintf("(rf %d)", d)}}
	case 2:
		// the thunk itself contains the loop
		return [][]string{{`(def tot 0)`, `(defn lz1 [#t] (let [u (force #t)] u))`,
			`(defn rf [n] (lz1 (begin (for [(def i 0) (< i 3) (set i (+ i 1))] (cond (and (> n 0) (== i 0)) (rf (- n 1)) nil) (let [q i] (cond (== q 1) (` + x + `) nil)) (set tot (+ tot 1))) n)))`},
			{fmt.Sprintf("(rf %d)", d), "tot"}}
	default:
		return [][]string{{`(def tot 0)`, `(defn lz2 [#t p] (for [(def i 0) (< i 2) (set i (+ i 1))] (let [a 1] (letseq [b 2 c (cond p (force #t) 0)] (newScope (cond (== i 0) (` + x + `) nil)))) (set tot (+ tot 1))) 5)`,
			`(defn rf [n] (cond (<= n 0) 0 (lz2 (rf (- n 1)) true)))`}, {fmt.Sprintf("(rf %d)", d), "tot"}}
	}
}

// ---- packages and plain scopes re-entered

func rePkg(g *Gen) [][]string {
	d := g.Rng.Intn(4)
	kind := g.Rng.Intn(4)
	g.Count("reent pkg kind " + []string{"package-body-recursion", "package-in-loop-recursion", "let-newScope-recursion", "closure-made-per-activation"}[kind])
	switch kind {
	case 0:
		return [][]string{{`(defn rf [n] (cond (<= n 0) 0 (begin (package "pq" (def Y n) (rf (- n 1))) (+ n 1))))`}, {fmt.Sprintf("(rf %d)", d)}, {fmt.Sprintf("(list 7 (rf %d))", d)}}
	case 1:
		x := []string{"break", "continue"}[g.Rng.Intn(2)]
		return [][]string{{`(def tot 0)`, `(defn rf [n] (for [(def i 0) (< i 3) (set i (+ i 1))] (package "pq" (def Y i) (cond (and (> n 0) (== i 0)) (rf (- n 1)) nil) (cond (== i 1) (` + x + `) nil)) (set tot (+ tot 1))) n)`},
			{fmt.Sprintf("(rf %d)", d), "tot"}}
	case 2:
		return [][]string{{`(defn rf [n] (let [a n] (newScope (letseq [b (cond (> n 0) (rf (- n 1)) 0) c (+ a b)] (newScope (+ c 1))))))`}, {fmt.Sprintf("(rf %d)", d)}, {fmt.Sprintf("[1 (rf %d) 2]", d)}}
	default:
		x := []string{"break", "continue"}[g.Rng.Intn(2)]
		return [][]string{{`(def tot 0)`, `(defn rf [n] (let [hk (fn [m] (for [(def i 0) (< i 3) (set i (+ i 1))] (cond (and (> m 0) (== i 0)) (rf (- m 1)) nil) (let [q i] (cond (== q 1) (` + x + `) nil)) (set tot (+ tot 1))) m)] (hk n)))`},
			{fmt.Sprintf("(rf %d)", d), "tot"}}
	}
}

// ---- grammar-directed recursive functions (the `full` generator, self-callable)

func reRnd(g *Gen) [][]string {
	r := newRg(g)
	var t0 []string
	for i, n := 0, g.Rng.Intn(3); i < n; i++ {
		r.budget = 25 + r.rnd(30)
		t0 = append(t0, r.decl())
	}
	n := 1 + r.rnd(2)
	ps := []string{"x", "y"}[:n]
	save, sl, sro := r.locals, r.labels, r.ro
	r.locals, r.labels, r.ro = append([]string{}, ps[1:]...), nil, []string{"x"}
	r.self, r.selfArity = "sf", n
	wantLoop := r.rnd(3) != 0
	var def string
	for try := 0; try < 10; try++ {
		r.budget = 40 + r.rnd(40)
		def = fmt.Sprintf("(defn sf [%s] %s)", strings.Join(ps, " "), r.body(3+r.rnd(2)))
		if strings.Contains(def, "(sf ") && (!wantLoop || strings.Contains(def, "(for ")) {
			break
		}
	}
	r.self = ""
	r.locals, r.labels, r.ro = save, sl, sro
	g.Count(fmt.Sprintf("reent rnd self-calls %d", min(strings.Count(def, "(sf "), 4)))
	g.Count(fmt.Sprintf("reent rnd loops %d", min(strings.Count(def, "(for "), 4)))
	t0 = append(t0, def)
	d := r.rnd(4)
	arg2 := ""
	if n == 2 {
		arg2 = " " + r.lit()
	}
	texts := [][]string{t0, {fmt.Sprintf("(sf %d%s)", d, arg2)}}
	r.budget = 30
	texts = append(texts, []string{r.ie(3), fmt.Sprintf("(list 7 (sf %d%s) 8)", r.rnd(3), arg2)})
	return texts
}

// ---- the stream

func reentStream(g *Gen, emit func(mode string, texts [][]string, tag string)) {
	// enum: every way of recursing x loop shape x exit x order, one `let` around the exit
	for rec := range reRecNames {
		for loop := range reLoopNames {
			for _, exit := range []string{"break", "continue"} {
				for order := range reOrderNames {
					s := reSpec{rec: rec, loop: loop, exit: exit, order: order, wraps: []int{0}, depth: 2, ri: 0, ei: 1}
					if order == 0 {
						s.ri = 1
					}
					if order == 2 {
						s.ri, s.ei = 2, 0
					}
					if !g.Thorough() && (rec+loop+order)%2 == 1 && exit == "continue" {
						continue // quick: half of the continue half
					}
					s.count(g, "enum")
					emit("std", s.history(), "reent-enum")
				}
			}
		}
	}
	nLoop, nWalk, nTail, nMac, nLazy, nPkg, nRnd, nRep := 500, 200, 100, 80, 80, 60, 300, 40
	if g.Thorough() {
		nLoop, nWalk, nTail, nMac, nLazy, nPkg, nRnd, nRep = 16000, 4000, 2000, 1000, 1000, 800, 6000, 400
	}
	for i := 0; i < nLoop; i++ {
		s := reRandomSpec(g)
		s.count(g, "loop")
		emit("std", s.history(), "reent-loop")
	}
	for i := 0; i < nWalk; i++ {
		emit("std", reWalk(g), "reent-walk")
	}
	for i := 0; i < nTail; i++ {
		emit("std", reTail(g), "reent-tail")
	}
	for i := 0; i < nMac; i++ {
		emit("std", reMac(g), "reent-mac")
	}
	for i := 0; i < nLazy; i++ {
		emit("std", reLazy(g), "reent-lazy")
	}
	for i := 0; i < nPkg; i++ {
		emit("std", rePkg(g), "reent-pkg")
	}
	for i := 0; i < nRnd; i++ {
		emit("std", reRnd(g), "reent-rnd")
	}
	for i := 0; i < nRep; i++ {
		var texts [][]string
		switch g.Rng.Intn(7) {
		case 0:
			texts = reWalk(g)
		case 1:
			texts = reTail(g)
		case 2:
			texts = reMac(g)
		case 3:
			texts = reLazy(g)
		case 4:
			texts = rePkg(g)
		case 5:
			texts = reRnd(g)
		default:
			s := reRandomSpec(g)
			s.count(g, "rep")
			texts = s.history()
		}
		// the definitions once, the calls N times: what is served again and again are evaluations
		mode := fmt.Sprintf("std*%d", []int{5, 20, 50}[g.Rng.Intn(3)])
		if g.Thorough() && g.Rng.Intn(10) == 0 {
			mode = "std*200"
		}
		emit(mode, texts, "reent-rep")
	}
}
