package main

// Channels of C04 ("an evaluation that succeeds leaves nothing behind").
//
//	rest <mode> <form> <form> ;; <form> ;; …        depth oracle on the real interpreter
//	bal  <mode> <form> <form> ;; <form> ;; …        structured listings of everything compiled
//	bal  script <path relative to the repo>         … for one of the repo's tests/*.zy (compile only)
//
// <mode>: bare (NewZlisp) | std (NewZlisp + StandardSetup), optionally `*N` (rest only): the
// whole history is served N times by the same interpreter. A text is a run of <form> tokens
// up to the next `;;`; a form is one top-level expression with blank = `\s`, newline = `\n`,
// backslash = `\\` (so a form is one token of the op line). `\e` is the empty text; `$REPO`
// stands for the directory of the tree under test.
//
// Answer of `rest` (what was observed, judged by Spec/AtRest.lean through Driver/Rest.lean):
//
//	I:<d,s,a,l>  { T:<cls>:<d,s,a,l>:<val>  E:<cls>:<d,s,a,l>:<val> }*  G:<d,s,a,l>  C:<contract>
//	/  { {S:<cls>:<d,s,a,l>:<val>}+  E:… }*  G:…  C:…
//
// before the `/`: every text evaluated as a whole (its forms together); after it: a second
// interpreter that is given the same forms one at a time. I = the four stack depths of the
// fresh interpreter; T/S = outcome class (ok | err | cerr | panic | timeout = call budget
// exceeded, the rest of the history is then `skipped`), depths after the
// evaluation and the canonical print of the value; E = the same for EvalString("") issued
// right after; G = the largest depths seen after any successful evaluation; C = breaches of the calling
// contract observed by pre/post hooks (`-` when none): <name>+<k> a call returned with k
// operands more than "arguments popped, one result pushed", <name>^<k> with k more scopes.
//
// Answer of `bal`: one token per compiled function (see overlay/listing.go), or `none`.

import (
	"fmt"
	"os"
	"path/filepath"
	"regexp"
	"sort"
	"strings"
	"sync"
	"time"

	"github.com/glycerine/zygomys/v9/zygo"
)

func restEnc(s string) string {
	if s == "" {
		return `\e`
	}
	r := strings.NewReplacer(`\`, `\\`, " ", `\s`, "\n", `\n`, "\t", `\t`, "\r", `\r`)
	return r.Replace(s)
}

func restDec(s string) string {
	if s == `\e` {
		return ""
	}
	var sb strings.Builder
	for i := 0; i < len(s); i++ {
		if s[i] == '\\' && i+1 < len(s) {
			i++
			switch s[i] {
			case 's':
				sb.WriteByte(' ')
			case 'n':
				sb.WriteByte('\n')
			case 't':
				sb.WriteByte('\t')
			case 'r':
				sb.WriteByte('\r')
			case 'e':
			default:
				sb.WriteByte(s[i])
			}
			continue
		}
		sb.WriteByte(s[i])
	}
	return sb.String()
}

// restTexts splits the op tokens after <mode> into texts of forms.
func restTexts(toks []string) [][]string {
	var texts [][]string
	cur := []string{}
	for _, t := range toks {
		if t == ";;" {
			texts = append(texts, cur)
			cur = []string{}
			continue
		}
		// $REPO = the tree under test (its tests/*.g files serve include/source)
		cur = append(cur, strings.ReplaceAll(restDec(t), "$REPO", repoDir()))
	}
	texts = append(texts, cur)
	return texts
}

func restMode(m string) (std bool, rep int, ok bool) {
	rep = 1
	if i := strings.IndexByte(m, '*'); i >= 0 {
		if _, err := fmt.Sscanf(m[i+1:], "%d", &rep); err != nil || rep < 1 || rep > 5000 {
			return false, 0, false
		}
		m = m[:i]
	}
	switch m {
	case "bare":
		return false, rep, true
	case "std":
		return true, rep, true
	}
	return false, 0, false
}

func restMkEnv(std bool) *zygo.Zlisp {
	env := zygo.NewZlisp()
	if std {
		env.StandardSetup()
	}
	// the programs of the `eval` generator call the host function `trace` (identity)
	env.AddFunction("trace", func(env *zygo.Zlisp, name string, args []zygo.Sexp) (zygo.Sexp, error) {
		if len(args) == 0 {
			return zygo.SexpNull, nil
		}
		return args[0], nil
	})
	return env
}

var restGensym = regexp.MustCompile(`__([A-Za-z_]*?)_?[0-9]+`)
var restPointer = regexp.MustCompile(`0x[0-9a-f]{6,}`)

// The interpreter prints to os.Stdout (printf, _ls, "alert: …"): the answer lines of the
// harness travel on the descriptor main() opened before, so os.Stdout can be pointed away.
var restQuiet sync.Once

func restSilence() {
	restQuiet.Do(func() {
		if f, err := os.OpenFile(os.DevNull, os.O_WRONLY, 0); err == nil {
			os.Stdout = f
		}
	})
}

// canonical print of a value: the interpreter's own printer, gensym counters removed
// (two interpreters that served different histories number their symbols differently).
func restCanon(env *zygo.Zlisp, v zygo.Sexp) (s string) {
	defer func() {
		if r := recover(); r != nil {
			s = "?unprintable"
		}
	}()
	if v == nil {
		return "?gonil"
	}
	s = v.SexpString(nil)
	s = restGensym.ReplaceAllString(s, "__${1}N")
	s = restPointer.ReplaceAllString(s, "0xP")
	if len(s) > 300 {
		s = s[:300] + "…"
	}
	return restEnc(s)
}

type restMon struct {
	pend     []restPend
	breach   map[string]bool
	calls    int
	timedOut bool
}

type restTimeout struct{}

const restCallBudget = 30000

type restPend struct{ addr, data, scope, nargs int }

func (m *restMon) install(env *zygo.Zlisp) {
	m.breach = map[string]bool{}
	env.AddPreHook(func(env *zygo.Zlisp, name string, args []zygo.Sexp) {
		m.calls++
		if m.calls > restCallBudget {
			// a recover() of CallUserFunction further up may swallow this panic: the flag counts
			m.timedOut = true
			panic(restTimeout{})
		}
		d, s, a, _ := env.VerifDepths()
		m.pend = append(m.pend, restPend{addr: a, data: d, scope: s, nargs: len(args)})
	})
	env.AddPostHook(func(env *zygo.Zlisp, name string, ret zygo.Sexp) {
		d, s, a, _ := env.VerifDepths()
		// the matching call pushed one return address: entries recorded deeper belong to
		// calls that ended in an error
		for len(m.pend) > 0 && m.pend[len(m.pend)-1].addr > a-1 {
			m.pend = m.pend[:len(m.pend)-1]
		}
		if len(m.pend) == 0 || m.pend[len(m.pend)-1].addr != a-1 {
			return
		}
		p := m.pend[len(m.pend)-1]
		m.pend = m.pend[:len(m.pend)-1]
		if want := p.data - p.nargs + 1; d != want {
			m.breach[fmt.Sprintf("%s%+d", verifTok(name), d-want)] = true
		}
		if s != p.scope {
			m.breach[fmt.Sprintf("%s^%d", verifTok(name), s-p.scope)] = true
		}
	})
}

func verifTok(s string) string {
	s = restGensym.ReplaceAllString(s, "__${1}N")
	return strings.Map(func(r rune) rune {
		if r <= ' ' || r == ':' || r == ',' || r > '~' {
			return '_'
		}
		return r
	}, s)
}

func (m *restMon) String() string {
	if len(m.breach) == 0 {
		return "-"
	}
	ks := make([]string, 0, len(m.breach))
	for k := range m.breach {
		ks = append(ks, k)
	}
	sort.Strings(ks)
	return strings.Join(ks, ",")
}

type restRun struct {
	env  *zygo.Zlisp
	mon  *restMon
	dead bool
	gone bool // after a timeout: the rest of the history is skipped, nothing is demanded of it
	max  [4]int
	out  []string
}

func (r *restRun) depths(success bool) string {
	d, s, a, l := r.env.VerifDepths()
	if success {
		for i, v := range []int{d, s, a, l} {
			if v > r.max[i] {
				r.max[i] = v
			}
		}
	}
	return fmt.Sprintf("%d,%d,%d,%d", d, s, a, l)
}

// eval runs one EvalString; tag is T, S or E.
func (r *restRun) eval(tag, text string, record bool) {
	if r.dead || r.gone {
		if record {
			r.out = append(r.out, tag+":"+map[bool]string{true: "dead", false: "skipped"}[r.dead]+":-:-")
		}
		return
	}
	cls, val := "ok", "-"
	r.mon.calls = 0
	func() {
		defer func() {
			if rec := recover(); rec != nil {
				cls, val = "panic", "-"
			}
		}()
		if err := r.env.LoadString(text); err != nil {
			cls = "cerr"
			return
		}
		res, err := r.env.Run()
		if err != nil {
			cls = "err"
			return
		}
		val = restCanon(r.env, res)
	}()
	if r.mon.timedOut {
		r.gone = true
		if record {
			r.out = append(r.out, tag+":timeout:-:-")
		}
		return
	}
	if cls == "panic" {
		r.dead = true
		if record {
			r.out = append(r.out, tag+":panic:-:-")
		}
		return
	}
	d := r.depths(cls == "ok")
	if record {
		r.out = append(r.out, fmt.Sprintf("%s:%s:%s:%s", tag, cls, d, val))
	}
}

func restServe(std bool, rep int, texts [][]string, together bool) string {
	mon := &restMon{}
	r := &restRun{env: restMkEnv(std), mon: mon}
	defer r.env.Close()
	mon.install(r.env)
	r.out = append(r.out, "I:"+r.depths(true))
	for k := 0; k < rep; k++ {
		record := k == 0 || k == rep-1
		for _, forms := range texts {
			if together {
				r.eval("T", strings.Join(forms, "\n")+"\n", record)
			} else {
				n := 0
				for _, f := range forms {
					if strings.TrimSpace(f) == "" {
						continue // an empty token is no form
					}
					n++
					r.eval("S", f+"\n", record)
				}
				if n == 0 {
					r.eval("S", "", record)
				}
			}
			r.eval("E", "", record)
		}
	}
	r.out = append(r.out, fmt.Sprintf("G:%d,%d,%d,%d", r.max[0], r.max[1], r.max[2], r.max[3]), "C:"+mon.String())
	return strings.Join(r.out, " ")
}

func withWatchdog(d time.Duration, f func() string) string {
	done := make(chan string, 1)
	go func() {
		defer func() {
			if r := recover(); r != nil {
				done <- "HOSTPANIC " + strings.ReplaceAll(fmt.Sprint(r), "\n", " ")
			}
		}()
		done <- f()
	}()
	select {
	case r := <-done:
		return r
	case <-time.After(d):
		return "hang"
	}
}

func restExec(toks []string) string {
	if len(toks) < 1 {
		return "bad-op"
	}
	restSilence()
	std, rep, ok := restMode(toks[0])
	if !ok {
		return "bad-op"
	}
	texts := restTexts(toks[1:])
	return withWatchdog(4*time.Second, func() string {
		a := restServe(std, rep, texts, true)
		b := restServe(std, rep, texts, false)
		return a + " / " + b
	})
}

// ---- bal: listings

func repoDir() string {
	if d := os.Getenv("ZYH_REPO"); d != "" {
		return d
	}
	return "/repo"
}

func balExec(toks []string) string {
	if len(toks) < 1 {
		return "bad-op"
	}
	restSilence()
	if toks[0] == "script" {
		if len(toks) != 2 {
			return "bad-op"
		}
		return withWatchdog(60*time.Second, func() string { return balScript(toks[1]) })
	}
	base := strings.HasSuffix(toks[0], "+base") // list the code StandardSetup compiled, too
	std, _, ok := restMode(strings.TrimSuffix(toks[0], "+base"))
	if !ok {
		return "bad-op"
	}
	texts := restTexts(toks[1:])
	return withWatchdog(4*time.Second, func() string {
		env := restMkEnv(std)
		defer env.Close()
		l := env.VerifNewLister()
		if !base {
			l.Baseline()
		}
		calls := 0
		env.AddPreHook(func(env *zygo.Zlisp, name string, args []zygo.Sexp) {
			calls++
			if calls > restCallBudget {
				panic(restTimeout{})
			}
		})
		type slice struct {
			name string
			code []zygo.Instruction
		}
		var tops []slice
		dead := false
		for i, forms := range texts {
			if dead {
				break
			}
			func() {
				defer func() {
					if r := recover(); r != nil {
						dead = true
					}
				}()
				calls = 0
				atEnd := env.VerifAtEnd()
				n0 := env.VerifMainLen()
				if err := env.LoadString(strings.Join(forms, "\n") + "\n"); err != nil {
					return
				}
				code := env.VerifMainSlice(n0)
				if !atEnd && len(code) > 0 {
					code = code[1:] // the PopInstr LoadExpressions puts in front when resuming
				}
				tops = append(tops, slice{fmt.Sprintf("text%d", i), code})
				env.Run()
				if calls > restCallBudget {
					dead = true // a recover() inside the VM swallowed the budget panic
				}
			}()
		}
		calls = 0
		for _, t := range tops {
			l.AddCode("top", t.name, 0, false, 0, t.code)
		}
		func() {
			defer func() { recover() }()
			l.AddReachable()
		}()
		if len(l.Out) == 0 {
			return "none"
		}
		return strings.Join(l.Out, " ")
	})
}

// balScript compiles (does not run) every top-level form of a script of the repo, one after
// the other on one StandardSetup interpreter, and lists each form's code.
func balScript(rel string) string {
	src, err := os.ReadFile(filepath.Join(repoDir(), rel))
	if err != nil {
		return "unreadable"
	}
	env := restMkEnv(true)
	defer env.Close()
	forms, err := env.VerifParse(string(src))
	if err != nil {
		return "none"
	}
	l := env.VerifNewLister()
	for i, x := range forms {
		code, err := env.VerifGenerate(x)
		if err != nil {
			l.Skipped["form-generate-error"]++
			continue
		}
		l.AddCode("top", fmt.Sprintf("form%d", i), 0, false, 0, code)
	}
	l.AddReachable()
	if len(l.Out) == 0 {
		return "none"
	}
	return strings.Join(l.Out, " ")
}

func init() {
	channels["rest"] = &Channel{Gen: restGen, Exec: restExec}
	channels["bal"] = &Channel{Gen: balGen, Exec: balExec}
}
