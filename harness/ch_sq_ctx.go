package main

// Channel sq, sub-op k (C15, call-site contexts): "calling a macro … equals writing that
// form by hand" at every kind of call site.
//
//   sq k  MACROS ARGS PROGRAM
//        -> k <eq|ne:…> code=<eq|ne> ctx=<eq|ne> <dep=ok|dep=…>
//         | k noexp <err|ok>          (the call has no expansion: the program must not compile)
//   sq kc MACROS ARGS PROGRAM  -> kc ctx= <context listing of the program with the macro call>
//                                 (compiled only; the tie of the Lean generator model `genC`)
//
// Three forms in the value grammar of ch_sq.go:
//   MACROS   ( ( s:<name> [ s:p0 … ] T ) … )   macro definitions (defmac <name> [p0 …] ^T), U<k>/S<k>
//            in T naming parameter k. The FIRST one is the macro under test.
//   ARGS     ( A… )                           the argument forms of the call under test
//   PROGRAM  ( form … )                       top-level forms; the symbol HOLE marks the call site
//
// Two programs are run, each on a fresh interpreter with the same macro definitions:
//   M  PROGRAM with HOLE := (<name> A…)            H  PROGRAM with HOLE := the expansion written
//   by hand (harness-side substitution, independent of the interpreter; macro calls nested
//   inside the expansion stay calls).
// eq    value of the program, the observable globals acc i j r q afterwards and the four
//       stack depths afterwards are the same for M and H (an error on both sides is equal)
// code  the complete instruction listings (closures included, digits of generated names
//       blanked) of M and H are the same: compiling the call = compiling the expansion
// dep   M leaves data/scope/address/loop stacks at their depth before the program
// ctx   the context-sensitive instructions (overlay accessor VerifCtxListing: what the
//       generator fields scopes / Tail / funcname and env.loopstack decide — scopes added and
//       removed, break/continue with their loop and pop count, tail-call jumps, calls, closures)
//       of M and H are the same. `sq kc` prints that listing for M; the Lean side answers
//       with the listing its context-carrying generator produces (impl vs model).
// Every loop test and every function body of a generated program calls (zztick), a Go
// function that fails after 300 calls, so that a program run on a broken tree terminates.

import (
	"fmt"
	"os"
	"regexp"
	"strconv"
	"strings"

	"github.com/glycerine/zygomys/v9/zygo"
)

var sqGensymRe = regexp.MustCompile(`(__loop[A-Za-z_:]*|__anon)[0-9]+`)

type sqRunK struct {
	compiled bool
	outcome  string
	ctx      string
	full     string
	dep      string
}

var sqObservables = []string{"acc", "i", "j", "r", "q"}

func sqRunProgK(defs, prog string) (res sqRunK) {
	env := zygo.NewZlisp()
	defer env.Close()
	// a Go panic out of the interpreter is property C01's subject (e.g. `(begin)` used as a
	// value, a known finding); here it is one more outcome that macro call and hand-written
	// form must share
	defer func() {
		if r := recover(); r != nil {
			res.outcome = "hostpanic:" + strings.ReplaceAll(fmt.Sprint(r), " ", "_")
		}
	}()
	ticks := 0
	env.AddFunction("zztick", func(e *zygo.Zlisp, name string, args []zygo.Sexp) (zygo.Sexp, error) {
		ticks++
		if ticks > 300 {
			return zygo.SexpNull, fmt.Errorf("zztick: too many steps")
		}
		return &zygo.SexpBool{Val: true}, nil
	})
	if _, err := env.EvalString(defs + " "); err != nil {
		res.outcome, res.ctx, res.dep = "defs-failed", "err", "dep=na"
		return
	}
	d0, s0, a0, l0 := env.VerifDepths()
	if err := env.LoadString(prog + " "); err != nil {
		res.outcome, res.ctx, res.dep = "err", "err", "dep=ok"
		return
	}
	res.compiled = true
	ctx, full := env.VerifCtxListing()
	res.ctx = strings.Join(ctx, " ")
	res.full = sqGensymRe.ReplaceAllString(strings.Join(full, " "), "$1#")
	d1, s1, a1, l1 := env.VerifDepths()
	res.dep = "dep=ok"
	if d0 != d1 || s0 != s1 || a0 != a1 || l0 != l1 {
		res.dep = fmt.Sprintf("dep=compile:%d.%d.%d.%d>%d.%d.%d.%d", d0, s0, a0, l0, d1, s1, a1, l1)
	}
	v, err := env.Run()
	if err != nil {
		res.outcome = "err"
		return
	}
	d2, s2, a2, l2 := env.VerifDepths()
	if res.dep == "dep=ok" && (d2 != 0 || s2 != s0 || a2 != a0 || l2 != l0) {
		res.dep = fmt.Sprintf("dep=run:%d.%d.%d.%d", d2, s2, a2, l2)
	}
	out := []string{"val=" + strings.ReplaceAll(sqCanonStr(v), " ", "_"), fmt.Sprintf("depths=%d.%d.%d.%d", d2, s2, a2, l2)}
	for _, name := range sqObservables {
		x, err := env.EvalString(name + " ")
		if err != nil {
			out = append(out, name+"=unbound")
			env.Clear()
		} else {
			out = append(out, name+"="+strings.ReplaceAll(sqCanonStr(x), " ", "_"))
		}
	}
	res.outcome = strings.Join(out, ",")
	return
}

// compile only: the context listing, or err
func sqCompileK(defs, prog string) string {
	env := zygo.NewZlisp()
	defer env.Close()
	env.AddFunction("zztick", func(e *zygo.Zlisp, name string, args []zygo.Sexp) (zygo.Sexp, error) {
		return &zygo.SexpBool{Val: true}, nil
	})
	if _, err := env.EvalString(defs + " "); err != nil {
		return "defs-failed"
	}
	if err := env.LoadString(prog + " "); err != nil {
		return "err"
	}
	ctx, _ := env.VerifCtxListing()
	return strings.Join(ctx, " ")
}

func sqFill(p *sqv, with *sqv) *sqv {
	if p.kind == 's' && p.name == "HOLE" {
		return with
	}
	if len(p.kids) == 0 {
		return p
	}
	r := &sqv{kind: p.kind, name: p.name, n: p.n, tail: p.tail}
	for _, k := range p.kids {
		r.kids = append(r.kids, sqFill(k, with))
	}
	return r
}

func sqProgText(p *sqv) string {
	parts := make([]string, len(p.kids))
	for i, k := range p.kids {
		parts[i] = k.text(nil, false, "")
	}
	return strings.Join(parts, " ")
}

func sqExecK(toks []string) string {
	listingOnly := false
	if len(toks) > 0 && toks[0] == "kc" {
		listingOnly = true
	}
	toks = toks[1:]
	macs, i := sqParse(toks, 0)
	if macs == nil || macs.kind != '(' || len(macs.kids) == 0 {
		return "bad-op"
	}
	args, i := sqParse(toks, i)
	if args == nil || args.kind != '(' {
		return "bad-op"
	}
	prog, i := sqParse(toks, i)
	if prog == nil || prog.kind != '(' || i != len(toks) {
		return "bad-op"
	}
	var defs []string
	for _, m := range macs.kids {
		if m.kind != '(' || len(m.kids) != 3 || m.kids[0].kind != 's' || m.kids[1].kind != '[' {
			return "bad-op"
		}
		ps := make([]string, len(m.kids[1].kids))
		for j := range ps {
			ps[j] = "p" + strconv.Itoa(j)
		}
		defs = append(defs, "(defmac "+m.kids[0].name+" ["+strings.Join(ps, " ")+"] ^"+m.kids[2].text(nil, false, "p")+")")
	}
	deftext := strings.Join(defs, " ")
	m0 := macs.kids[0]
	call := &sqv{kind: '(', kids: append([]*sqv{{kind: 's', name: m0.kids[0].name}}, args.kids...)}
	if listingOnly {
		return "kc ctx= " + sqCompileK(deftext, sqProgText(sqFill(prog, call)))
	}
	M := sqRunProgK(deftext, sqProgText(sqFill(prog, call)))
	var hand []*sqv
	okh := len(args.kids) == len(m0.kids[1].kids)
	if okh {
		hand, okh = sqSubst(m0.kids[2], args.kids)
	}
	if !okh || len(hand) != 1 {
		if M.compiled {
			return "k noexp ok"
		}
		return "k noexp err"
	}
	H := sqRunProgK(deftext, sqProgText(sqFill(prog, hand[0])))
	cmp := "eq"
	if M.outcome != H.outcome {
		cmp = "ne:" + M.outcome + "/" + H.outcome
	}
	code := "code=eq"
	if M.full != H.full || M.compiled != H.compiled {
		code = "code=ne"
	}
	ctx := "ctx=eq"
	if M.ctx != H.ctx {
		ctx = "ctx=ne"
	}
	ans := "k " + cmp + " " + code + " " + ctx + " " + M.dep
	if os.Getenv("ZYH_KDEBUG") != "" { // development aid: what the two programs did
		ans += " ## M: " + M.outcome + " ## H: " + H.outcome
	}
	return ans
}

// ---- generator

type sqKMac struct {
	name   string
	params string // per parameter: c condition, n number, v variable, l list of forms, f any form
	body   string
	needs  string // what the expansion needs around the call site to compile: "" | "loop" | "outer" (a loop labelled outer:)
}

// helper macros a body or a site may call (nested macro calls)
var sqKLib = []sqKMac{
	{"brk", "c", "( s:cond U0 ( s:break ) s:null )", ""},
	{"cnt", "c", "( s:cond U0 ( s:continue ) s:null )", ""},
	{"brko", "c", "( s:cond U0 ( s:break s:outer: ) s:null )", ""},
	{"inc", "vn", "( s:set U0 ( s:+ U0 U1 ) )", ""},
	{"twice", "f", "( s:begin U0 U0 )", ""},
	{"wlet", "f", "( s:let [ s:t i:1 ] U0 )", ""},
}

// bodies of the macro under test: what their expansion needs from the call site
var sqKBodies = []sqKMac{
	{"mm", "c", "( s:cond U0 ( s:break ) s:null )", "loop"},
	{"mm", "c", "( s:cond U0 ( s:continue ) s:null )", "loop"},
	{"mm", "c", "( s:cond U0 ( s:break s:outer: ) s:null )", "outer"},
	{"mm", "c", "( s:cond U0 ( s:continue s:outer: ) s:null )", "outer"},
	{"mm", "n", "( s:let [ s:t U0 ] ( s:cond ( s:> s:t i:1 ) ( s:break ) s:t ) )", "loop"},
	{"mm", "n", "( s:begin ( s:set s:acc ( s:+ s:acc U0 ) ) ( s:cond ( s:> s:acc i:4 ) ( s:break ) s:acc ) )", "loop"},
	{"mm", "vn", "( s:set U0 ( s:+ U0 U1 ) )", ""},
	{"mm", "vn", "( s:def U0 U1 )", ""},
	{"mm", "l", "( s:begin S0 )", ""},
	{"mm", "c", "( s:brk U0 )", "loop"},
	{"mm", "c", "( s:newScope ( s:brk U0 ) ( s:inc s:acc i:1 ) )", "loop"},
	{"mm", "n", "( s:cond ( s:< U0 i:1 ) s:acc ( s:ff ( s:- U0 i:1 ) ) )", ""},
	{"mm", "n", "( s:return U0 )", ""},
	{"mm", "n", "( s:for [ ( s:def s:k i:0 ) ( s:and ( s:zztick ) ( s:< s:k i:3 ) ) ( s:def s:k ( s:+ s:k i:1 ) ) ] ( s:cond ( s:> s:k U0 ) ( s:break ) s:null ) ( s:set s:acc ( s:+ s:acc s:k ) ) )", ""},
	{"mm", "c", "( s:and U0 ( s:break ) )", "loop"},
	{"mm", "c", "( s:or U0 ( s:continue ) )", "loop"},
	{"mm", "nc", "[ U0 ( s:cond U1 ( s:break ) i:0 ) ]", "loop"},
	{"mm", "nn", "( s:letseq [ s:t U0 s:u ( s:+ s:t i:1 ) ] ( s:cond ( s:> s:u U1 ) ( s:break ) ( s:set s:acc s:u ) ) )", "loop"},
	{"mm", "f", "U0", ""},
	{"mm", "cf", "( s:cond U0 U1 s:null )", ""},
	{"mm", "n", "( s:let [ s:t U0 ] ( s:newScope ( s:cond ( s:> s:t i:1 ) ( s:continue ) s:t ) ) )", "loop"},
	{"mm", "n", "( s:let [ s:t U0 ] ( s:cond ( s:< s:t i:1 ) s:acc ( s:ff ( s:- s:t i:1 ) ) ) )", ""},
	{"mm", "c", "( s:wlet ( s:brk U0 ) )", "loop"},
	{"mm", "", "( s:break )", "loop"},
}

var sqKArgs = map[byte][]string{
	'c': {"( s:> s:i i:0 )", "( s:== s:i i:1 )", "( s:> s:acc i:2 )", "s:true", "s:false", "( s:> s:j i:0 )"},
	'n': {"s:n", "s:i", "i:1", "( s:+ s:i i:1 )", "i:0", "s:acc"},
	'v': {"s:acc", "s:r", "s:q"},
	'l': {"( ( s:set s:acc ( s:+ s:acc i:1 ) ) ( s:break ) )", "( ( s:inc s:acc i:2 ) ( s:brk ( s:> s:acc i:3 ) ) i:7 )", "( )", "( ( s:continue ) )"},
	'f': {"( s:break )", "( s:continue )", "( s:brk ( s:> s:i i:0 ) )", "( s:set s:r ( s:+ s:r i:1 ) )", "( s:let [ s:u i:1 ] ( s:cond ( s:> s:i i:0 ) ( s:break ) s:u ) )", "( s:break s:outer: )", "i:5"},
}

// one frame of a call site: text with □ for what it encloses
type sqKFrame struct {
	name string
	text string
}

func sqKLoop(label, v string) string {
	l := ""
	if label != "" {
		l = "s:" + label + " "
	}
	return "( s:for " + l + "[ ( s:def s:" + v + " i:0 ) ( s:and ( s:zztick ) ( s:< s:" + v + " i:3 ) ) ( s:def s:" + v + " ( s:+ s:" + v + " i:1 ) ) ] □ ( s:set s:acc ( s:+ s:acc i:1 ) ) )"
}

var sqKScopes = []sqKFrame{
	{"let", "( s:let [ s:a ( s:* s:acc i:2 ) ] □ ( s:set s:r ( s:+ s:r i:1 ) ) )"},
	{"letseq", "( s:letseq [ s:b i:1 s:c ( s:+ s:b i:1 ) ] □ )"},
	{"newScope", "( s:newScope ( s:set s:q ( s:+ s:q i:1 ) ) □ )"},
}

var sqKOther = []sqKFrame{
	{"begin", "( s:begin □ ( s:set s:r ( s:+ s:r i:10 ) ) )"},
	{"cond", "( s:cond ( s:< s:acc i:100 ) □ i:0 )"},
	{"def-rhs", "( s:def s:q □ )"},
	{"set-rhs", "( s:set s:r □ )"},
	{"array", "[ i:1 □ ]"},
	{"other-macro", "( s:wlet □ )"},
	{"other-macro2", "( s:twice □ )"},
	{"call-arg", "( s:list i:1 □ )"},
	{"and", "( s:and s:true □ )"},
	{"then-self-call", "( s:begin □ ( s:cond ( s:< s:n i:1 ) s:acc ( s:ff ( s:- s:n i:1 ) ) ) )"},
	{"template-part", "( s:syntaxQuote ( s:a ( s:unquote □ ) [ ( s:unquote s:acc ) ] ) )"},
	{"return-several", "( s:return i:1 □ )"},
}

const sqKPrelude = "( s:def s:acc i:0 ) ( s:def s:i i:100 ) ( s:def s:j i:200 ) ( s:def s:r i:0 ) ( s:def s:q i:0 ) ( s:def s:n i:2 )"

// compose frames (outermost first) around HOLE; fn: "" | "tail" | "nontail"
func sqKProgram(frames []string, fn string) string {
	inner := "s:HOLE"
	for i := len(frames) - 1; i >= 0; i-- {
		inner = strings.Replace(frames[i], "□", inner, 1)
	}
	switch fn {
	case "tail":
		return "( " + sqKPrelude + " ( s:defn s:ff [ s:n ] ( s:zztick ) " + inner + " ) ( s:ff i:2 ) )"
	case "nontail":
		return "( " + sqKPrelude + " ( s:defn s:ff [ s:n ] ( s:zztick ) " + inner + " s:acc ) ( s:ff i:2 ) )"
	case "fn":
		return "( " + sqKPrelude + " ( s:def s:ff ( s:fn [ s:n ] ( s:zztick ) " + inner + " ) ) ( s:ff i:2 ) )"
	}
	return "( " + sqKPrelude + " ( s:defn s:ff [ s:n ] ( s:zztick ) s:n ) " + inner + " ( s:list s:acc s:r ) )"
}

// the library macros a text refers to, transitively
func sqKNeeded(texts ...string) []sqKMac {
	need := map[string]bool{}
	var visit func(t string)
	visit = func(t string) {
		for _, m := range sqKLib {
			if !need[m.name] && strings.Contains(t, "s:"+m.name+" ") {
				need[m.name] = true
				visit(m.body)
			}
		}
	}
	for _, t := range texts {
		visit(t)
	}
	var out []sqKMac
	for _, m := range sqKLib {
		if need[m.name] {
			out = append(out, m)
		}
	}
	return out
}

func sqKEmit(g *Gen, body sqKMac, args []string, prog string) {
	macs := []string{}
	for _, m := range append([]sqKMac{body}, sqKNeeded(body.body, strings.Join(args, " "), prog)...) {
		ps := make([]string, len(m.params))
		for i := range ps {
			ps[i] = "s:p" + strconv.Itoa(i)
		}
		macs = append(macs, "( s:"+m.name+" [ "+strings.Join(ps, " ")+" ] "+m.body+" )")
	}
	g.Emit("k ( %s ) ( %s ) %s", strings.Join(macs, " "), strings.Join(args, " "), prog)
	if len(args) == len(body.params) {
		g.Emit("kc ( %s ) ( %s ) %s", strings.Join(macs, " "), strings.Join(args, " "), prog)
	}
}

func sqKPickArgs(g *Gen, params string, first bool) []string {
	args := make([]string, len(params))
	for i := range args {
		pool := sqKArgs[params[i]]
		if first {
			args[i] = pool[0]
		} else {
			args[i] = pool[g.Rng.Intn(len(pool))]
		}
	}
	return args
}

// frames without their first loop frame, behind `first`
func sqKDropLoop(frames []string, first string) []string {
	out := []string{first}
	dropped := false
	for _, f := range frames {
		if !dropped && strings.HasPrefix(f, "( s:for ") {
			dropped = true
			continue
		}
		out = append(out, f)
	}
	return out
}

func sqGenCtx(g *Gen) {
	more := g.Tier == "thorough-more"
	if !more {
		// systematic part: loop shape x scope depth 0..3 between loop and call x function position x body
		loopShapes := [][]string{
			{},
			{sqKLoop("", "i")},
			{sqKLoop("outer:", "i")},
			{sqKLoop("", "i"), sqKLoop("", "j")},
			{sqKLoop("outer:", "i"), sqKLoop("", "j")},
			{sqKLoop("outer:", "i"), sqKLoop("inner:", "j")},
		}
		for li, loops := range loopShapes {
			for depth := 0; depth <= 3; depth++ {
				for fi, fn := range []string{"", "tail", "nontail", "fn"} {
					for bi, body := range sqKBodies {
						if !g.Thorough() && (li+depth+fi+bi)%3 != 0 && !(li == 1 && fi == 0) {
							continue // quick tier: a third of the grid plus the full plain-loop/top-level slice
						}
						if (body.needs == "loop" && len(loops) == 0 || body.needs == "outer" && li != 2 && li < 4) && depth+fi > 0 {
							continue // does not compile (no loop to leave): one such program per body is enough
						}
						var frames []string
						frames = append(frames, loops...)
						for d := 0; d < depth; d++ {
							frames = append(frames, sqKScopes[(d+bi+li)%len(sqKScopes)].text)
						}
						// scopes between two nested loops as well
						if len(loops) == 2 && depth > 0 && (bi+depth)%2 == 0 {
							frames = append([]string{loops[0], sqKScopes[bi%len(sqKScopes)].text, loops[1]}, frames[2:]...)
							g.Count("k/scope-between-nested-loops")
						}
						sqKEmit(g, body, sqKPickArgs(g, body.params, true), sqKProgram(frames, fn))
						g.Count("k/systematic")
						g.Count(fmt.Sprintf("k/loops-%d", len(loops)))
						g.Count(fmt.Sprintf("k/scope-depth-%d", depth))
						g.Count("k/fn-" + fn)
					}
				}
			}
		}
		// a function that rebinds its OWN name through a macro (def / set / let written by the
		// expansion), then calls the name in tail position: by hand the generator sees the
		// rebinding (rebindsOwnName) and compiles an ordinary call of the new binding
		selfCall := "( s:begin □ ( s:cond ( s:< s:n i:1 ) s:acc ( s:ff ( s:- s:n i:1 ) ) ) )"
		for _, c := range []struct {
			body sqKMac
			args []string
			prog string
		}{
			{sqKMac{"mm", "vf", "( s:def U0 U1 )", ""}, []string{"s:ff", "( s:fn [ s:a ] i:7 )"}, sqKProgram([]string{selfCall}, "tail")},
			{sqKMac{"mm", "vf", "( s:set U0 U1 )", ""}, []string{"s:ff", "( s:fn [ s:a ] i:7 )"}, sqKProgram([]string{selfCall}, "tail")},
			{sqKMac{"mm", "vf", "( s:let [ U0 U1 ] ( U0 s:n ) )", ""}, []string{"s:ff", "( s:fn [ s:a ] i:7 )"}, sqKProgram(nil, "tail")},
			// controls: another name is rebound; the own name is only used as a value
			{sqKMac{"mm", "vf", "( s:def U0 U1 )", ""}, []string{"s:gg", "( s:fn [ s:a ] i:7 )"}, sqKProgram([]string{selfCall}, "tail")},
			{sqKMac{"mm", "vf", "( s:list U0 U1 )", ""}, []string{"s:ff", "i:0"}, sqKProgram([]string{selfCall}, "tail")},
		} {
			sqKEmit(g, c.body, c.args, c.prog)
			g.Count("k/rebinds-own-name-through-macro")
		}
		// wrong arity / ill-typed splice: no expansion, the program must not compile
		sqKEmit(g, sqKBodies[0], []string{}, sqKProgram([]string{sqKLoop("", "i")}, ""))
		sqKEmit(g, sqKBodies[8], []string{"i:5"}, sqKProgram([]string{sqKLoop("", "i")}, ""))
		g.Count("k/no-expansion")
		g.Count("k/no-expansion")
	}
	n := 500
	if g.Thorough() || more {
		n = 8000
	}
	for i := 0; i < n; i++ {
		body := sqKBodies[g.Rng.Intn(len(sqKBodies))]
		var frames []string
		nloops := 0
		nf := g.Rng.Intn(6)
		for f := 0; f < nf; f++ {
			switch r := g.Rng.Intn(10); {
			case r < 3 && nloops < 2:
				label := []string{"", "", "outer:", "inner:"}[g.Rng.Intn(4)]
				if nloops == 0 && g.Rng.Intn(2) == 0 {
					label = "outer:"
				}
				frames = append(frames, sqKLoop(label, []string{"i", "j"}[nloops]))
				nloops++
				g.Count("k/frame-loop" + map[bool]string{true: "-labelled", false: ""}[label != ""])
			case r < 7:
				fr := sqKScopes[g.Rng.Intn(len(sqKScopes))]
				frames = append(frames, fr.text)
				g.Count("k/frame-" + fr.name)
			default:
				fr := sqKOther[g.Rng.Intn(len(sqKOther))]
				frames = append(frames, fr.text)
				g.Count("k/frame-" + fr.name)
			}
		}
		if g.Rng.Intn(8) > 0 {
			// mostly: give the expansion the loop it needs
			if body.needs == "outer" && !strings.Contains(strings.Join(frames, " "), "s:outer: ") {
				frames = append([]string{sqKLoop("outer:", "i")}, frames...)
				if nloops == 2 {
					frames = sqKDropLoop(frames[1:], sqKLoop("outer:", "i"))
				} else {
					nloops++
				}
			} else if body.needs == "loop" && nloops == 0 {
				at := g.Rng.Intn(len(frames) + 1)
				frames = append(frames[:at:at], append([]string{sqKLoop("", "i")}, frames[at:]...)...)
				nloops++
			}
		}
		fn := []string{"", "", "tail", "nontail", "fn"}[g.Rng.Intn(5)]
		sqKEmit(g, body, sqKPickArgs(g, body.params, false), sqKProgram(frames, fn))
		g.Count("k/random")
		g.Count(fmt.Sprintf("k/loops-%d", nloops))
		g.Count("k/fn-" + fn)
	}
}
