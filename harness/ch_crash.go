package main

// Channel crash (C01): source texts against the REAL script-facing entry points. What is
// observed is only the outcome class of every entry point — value, error, or a Go panic /
// nil result / death of the process.
//
//	crash s <cfg> <codes>          one text (dot-separated decimal code points, `-` empty)
//	crash b <cfg> <hex>            one text given as raw bytes (may be invalid UTF-8)
//	crash e <alpha> <len> <from> <to>
//	                               every string number from..to-1 of the enumeration of all
//	                               strings of length <len> over alphabet <alpha> (base-|alpha|
//	                               digits, most significant first)
//	crash h <cfg> <codes>          a HISTORY: the lines of the text are evaluated one by one through
//	                               EvalString on one interpreter (errors do not end it), then the follow-up
//	                               battery; then the same lines through the REPL line reader
//	crash v <nvars> <len> <from> <to>
//	                               every value history number from..to-1: <len> steps over crashStepKinds ×
//	                               <nvars> variables, each on a fresh interpreter, with the battery
//	crash r <cfg> <codes>          the text is piped, line by line, into the real Repl()
//	                               running in a child process (`zyh replchild <cfg>`)
//
// cfg: b = NewZlisp(), s = NewZlisp()+StandardSetup(), x = NewZlispSandbox()+StandardSetup()
// (what cmd/zygo -sandbox builds). Texts naming anything that reaches the outside world
// (crashDeny) are never executed: answer `skip`.
//
// Answer of s/b:  P:<statuses>/<nexprs> E:<cls> D:<depths> F:<cls> X:<cls> M:<cls> R:<cls>
//	P  Parser chunk API on a fresh parser: ResetAddNewInput(text) ParseTokens EndInput
//	   ParseTokens — one status letter per call (d/m/e) and the number of expressions; then
//	   the same text delivered in two pieces (NewInput) must not panic either
//	E  LoadString + Run (= EvalString) on a fresh interpreter, then SexpString of the value
//	D  the four stack depths (data,scope,addr,loop) after E; at rest they are 0,1,0,0
//	F  the follow-up battery (crashFollowUp: def, defn+call, let, for, defmac+call, str of a
//	   hash, array literal) through EvalString on the interpreter E used, without Clear()
//	X  code generation alone: LoadString on a fresh interpreter without the call-budget hook
//	M  (macexpand <text>) when the text is one expression, else `-`
//	R  the REPL line path (overlay VerifReplLines: the real line reader, then the loop body),
//	   the text followed by the lines of the battery
// classes: ok | err (Run / evaluation returned an error) | cerr (LoadString returned an
// error) | panic:<msg> (a Go panic left the library) | gonil (neither a value nor an error:
// a nil Sexp with a nil error) | timeout (call budget) | `-` (not run).
// Answer of e:    n=<count> h=<hash> c=<class counts> F=<failing strings, `-` if none>
//	h hashes the P record of every string in order (the Lean model computes the same).
// Answer of r:    R:ok | R:death rc=<n> <first line of the panic> | R:hang

import (
	"encoding/hex"
	"fmt"
	"os"
	"os/exec"
	"runtime"
	"runtime/debug"
	"sort"
	"strconv"
	"strings"
	"time"

	"github.com/glycerine/zygomys/v9/zygo"
)

// ---------------------------------------------------------------- deny list

// Names whose evaluation reaches outside the process (files, environment, subprocesses,
// exit, sleeping, blocking on channels) or writes diagnostics to the terminal. A text that
// contains one of them as a token is not executed at all.
var crashDeny = []string{
	"source", "slurpf", "writef", "save", "bload", "bsave", "greenpack", "owritef", "system",
	"exit", "setenv", "getenv", "dump", "_closdump", "include", "import", "req", "sleep",
	"_ls", "sys", "readf", "stop", "profile", "go", "<!", "!>", "!!", "chan", "makeChan",
	"timeit", "now", "rfc3339", "millis", "utc", "astotime", "rnd", "rndseed", "random",
	".cd", ".quit", ".dump", ".gls", ".ls", ".verb", ".debug", ".undebug", "infixExpand_dbg",
}

var crashDenySet map[string]bool

// exact texts that are executed although they contain a denied name (see gen_crash.go)
var crashAllowExact = map[string]bool{}

func init() {
	for _, t := range crashIncludeTexts {
		crashAllowExact[t] = true
	}
}

func isIdentByte(c byte) bool {
	return c >= 'a' && c <= 'z' || c >= 'A' && c <= 'Z' || c >= '0' && c <= '9' || c == '_' || c == '.' || c == '!' || c == '<' || c == '>' || c == '-' || c >= 0x80
}

func crashDenied(text string) bool {
	if crashDenySet == nil {
		crashDenySet = map[string]bool{}
		for _, n := range crashDeny {
			crashDenySet[n] = true
		}
	}
	i := 0
	for i < len(text) {
		if !isIdentByte(text[i]) {
			i++
			continue
		}
		j := i
		for j < len(text) && isIdentByte(text[j]) {
			j++
		}
		tok := text[i:j]
		if crashDenySet[tok] || crashDenySet[strings.TrimRight(tok, ":")] {
			return true
		}
		// dotted paths: sys.x, a.exit
		for _, part := range strings.Split(tok, ".") {
			if part != "" && crashDenySet[part] {
				return true
			}
		}
		i = j
	}
	return false
}

// ---------------------------------------------------------------- interpreters

const crashCallBudget = 5000

type crashEnv struct {
	env      *zygo.Zlisp
	calls    int
	timedOut bool
}

func newCrashEnv(cfg byte) *crashEnv {
	ce := &crashEnv{}
	switch cfg {
	case 's':
		ce.env = zygo.NewZlisp()
		ce.env.StandardSetup()
	case 'x':
		ce.env = zygo.NewZlispSandbox()
		ce.env.StandardSetup()
	default:
		ce.env = zygo.NewZlisp()
	}
	ce.env.AddPreHook(func(env *zygo.Zlisp, name string, args []zygo.Sexp) {
		ce.calls++
		if ce.calls > crashCallBudget {
			ce.timedOut = true
			if os.Getenv("VERIF_C01_TIMING") != "" {
				fmt.Fprintf(os.Stderr, "budget reached in %s\n", name)
			}
			runtime.Goexit()
		}
	})
	return ce
}

func (ce *crashEnv) reset() { ce.calls = 0; ce.timedOut = false }

func newCrashEnvNoHook(cfg byte) *crashEnv {
	ce := &crashEnv{}
	switch cfg {
	case 's':
		ce.env = zygo.NewZlisp()
		ce.env.StandardSetup()
	case 'x':
		ce.env = zygo.NewZlispSandbox()
		ce.env.StandardSetup()
	default:
		ce.env = zygo.NewZlisp()
	}
	return ce
}

func oneLine(s string) string {
	s = strings.ReplaceAll(s, "\n", " ")
	s = strings.ReplaceAll(s, "\t", " ")
	if len(s) > 160 {
		s = s[:160]
	}
	return strings.ReplaceAll(s, " ", "_")
}

// crashHung: an entry point did not come back within the watchdog; its goroutine cannot be
// stopped, nothing more is run in this process (exitAfterOp).
var crashHung bool

// guard runs f on its own goroutine; a Go panic leaving it is the observation. The call
// budget ends the goroutine with runtime.Goexit (a panic would be swallowed by the recover
// of CallUserFunction and re-wrapped at every level of a deep recursion).
func (ce *crashEnv) guard(f func() string) string {
	if crashHung {
		return "-"
	}
	ce.reset()
	done := make(chan string, 1)
	go func() {
		finished := false
		cls := ""
		defer func() {
			if r := recover(); r != nil {
				if ce.timedOut {
					cls = "timeout"
				} else {
					cls = "panic:" + oneLine(fmt.Sprint(r))
				}
			} else if !finished || ce.timedOut {
				cls = "timeout"
			}
			done <- cls
		}()
		cls = f()
		finished = true
	}()
	select {
	case c := <-done:
		return c
	case <-time.After(crashWatchdog):
		if os.Getenv("VERIF_C01_TIMING") != "" {
			buf := make([]byte, 1<<16)
			n := runtime.Stack(buf, true)
			fmt.Fprintf(os.Stderr, "HUNG; goroutines:\n%s\n", buf[:n])
		}
		crashHung = true
		exitAfterOp = true
		return "hang"
	}
}

func isBad(cls string) bool { return strings.HasPrefix(cls, "panic:") || cls == "gonil" }

func valueClass(v zygo.Sexp, err error) string {
	if err != nil {
		return "err"
	}
	if v == nil {
		return "gonil"
	}
	// printing the result is part of the entry point. A result is a finite value: its
	// printer gets a 4 MB stack; a printer that recurses without bound (a value that
	// contains itself) then dies at once with Go's unrecoverable "stack overflow" instead of
	// after the watchdog has already classified the op as non-terminating.
	old := debug.SetMaxStack(4 << 20)
	defer debug.SetMaxStack(old) // also when the printer panics
	_ = v.SexpString(nil)
	return "ok"
}

// parseRecord: the chunk API on a fresh parser of `env`.
func parseRecord(env *zygo.Zlisp, text string) (rec string, nexpr int) {
	p := env.NewParser()
	defer p.Stop()
	p.ResetAddNewInput(zygo.VerifStream(text))
	xs, err := p.ParseTokens()
	st := parseStatus(err)
	if st != "e" {
		p.VerifEndInput()
		var err2 error
		xs, err2 = p.ParseTokens()
		st += parseStatus(err2)
	}
	return st + "/" + strconv.Itoa(len(xs)), len(xs)
}

// parseTwoPieces: the same text in two pieces (cut at `cut`), end of input, and a Reset
// in the middle of whatever state that left; only "does not panic" is observed.
func parseTwoPieces(env *zygo.Zlisp, text string, cut int) {
	p := env.NewParser()
	defer p.Stop()
	if cut > len(text) {
		cut = len(text)
	}
	p.ResetAddNewInput(zygo.VerifStream(text[:cut]))
	_, err := p.ParseTokens()
	if parseStatus(err) != "e" {
		p.NewInput(zygo.VerifStream(text[cut:]))
		_, err = p.ParseTokens()
		if parseStatus(err) != "e" {
			p.VerifEndInput()
			p.ParseTokens()
		}
	}
	p.ResetAddNewInput(zygo.VerifStream("1 "))
	p.ParseTokens()
}

type crashRec struct {
	P, E, D, F, X, M, R string
}

// crashFollowUp: evaluated one after another, through EvalString, on an interpreter that has
// just evaluated a generated text. Errors are fine; a panic or a nil value is the finding.
var crashFollowUp = []string{
	"(def zzq 7)",
	"(defn zzf [x] (+ x x)) (zzf zzq)",
	"(let [zzl 1] zzl)",
	"(for [(def zzi 0) (< zzi 2) (def zzi (+ zzi 1))] zzi)",
	"(defmac zzm [a] ^(+ 1 ~a)) (zzm 2)",
	"(str (hash zzk: 1))",
	"[zzq (zzf 1)]",
}

func crashBattery(env *zygo.Zlisp) string {
	errs := 0
	for _, t := range crashFollowUp {
		v, err := env.EvalString(t)
		c := valueClass(v, err)
		if c == "gonil" {
			return c
		}
		if c == "err" {
			errs++
		}
	}
	if errs > 0 {
		return "err"
	}
	return "ok"
}

func (r crashRec) String() string {
	return fmt.Sprintf("P:%s E:%s D:%s F:%s X:%s M:%s R:%s", r.P, r.E, r.D, r.F, r.X, r.M, r.R)
}

func (r crashRec) bad() bool {
	return isBad(r.P) || isBad(r.E) || isBad(r.F) || isBad(r.X) || isBad(r.M) || isBad(r.R)
}

// crashAll runs every entry point on `text`. `pool` supplies interpreters (fresh ones in the
// single-text ops; a shared one, renewed after every panic, in the enumeration).
func crashAll(cfg byte, text string, full bool, get func() *crashEnv, discard func()) crashRec {
	var rec crashRec
	nexpr := 0
	ce := get()
	rec.P = ce.guard(func() string {
		r, n := parseRecord(ce.env, text)
		nexpr = n
		if full {
			parseTwoPieces(ce.env, text, len(text)/2)
		}
		return r
	})
	if isBad(rec.P) || rec.P == "timeout" {
		discard()
	}
	ce = get()
	rec.E = ce.guard(func() string {
		// EvalString is LoadString + Run; done in two steps here so that a refusal of the text
		// (parse or code generation) is told apart from a run-time error. The battery below
		// goes through EvalString itself.
		if err := ce.env.LoadString(text); err != nil {
			return "cerr"
		}
		v, err := ce.env.Run()
		return valueClass(v, err)
	})
	rec.D, rec.F = "-", "-"
	if isBad(rec.E) || rec.E == "timeout" {
		discard()
	} else if full {
		// the interpreter stays in use, as in a long-lived host: stack depths after the text,
		// then the follow-up battery on the SAME interpreter (no Clear): a text that
		// corrupted the interpreter without a visible failure shows here
		d, sc, a, l := ce.env.VerifDepths()
		rec.D = fmt.Sprintf("%d,%d,%d,%d", d, sc, a, l)
		rec.F = ce.guard(func() string { return crashBattery(ce.env) })
		if isBad(rec.F) || rec.F == "timeout" {
			discard()
		}
	} else {
		ce.guard(func() string { ce.env.Clear(); return "" })
	}
	rec.X, rec.M = "-", "-"
	sum := 0
	for i := 0; i < len(text); i++ {
		sum += int(text[i])
	}
	if full && (strings.Contains(text, "mac") || sum%4 == 0) {
		// (every text that defines or expands a macro by name, and a quarter of the others)
		// C: code generation alone (LoadString, nothing is run except macro bodies), on an
		// interpreter WITHOUT the call-budget hook: a macro that expands into a call of itself
		// recurses inside the generator; with the hook the budget would end it and hide it
		cc := newCrashEnvNoHook(cfg)
		rec.X = cc.guard(func() string {
			if err := cc.env.LoadString(text); err != nil {
				return "cerr"
			}
			return "ok"
		})
		func() { defer func() { recover() }(); cc.env.Close() }()
	}
	if full && sum%2 == 0 {
		if nexpr == 1 && strings.HasPrefix(rec.P, "dd/") || strings.HasPrefix(rec.P, "md/") && nexpr == 1 {
			ce = get()
			rec.M = ce.guard(func() string {
				v, err := ce.env.EvalString("(macexpand " + text + "\n)")
				return valueClass(v, err)
			})
			if isBad(rec.M) || rec.M == "timeout" {
				discard()
			}
		}
	}
	ce = get()
	rec.R = ce.guard(func() string {
		lines := text + "\n"
		if full {
			lines += strings.Join(crashFollowUp, "\n") + "\n"
		}
		in, er, _ := ce.env.VerifReplLines(lines)
		_ = in
		if er > 0 {
			return "err"
		}
		return "ok"
	})
	if isBad(rec.R) || rec.R == "timeout" {
		discard()
	} else {
		ce.guard(func() string { ce.env.Clear(); return "" })
	}
	return rec
}

// ---------------------------------------------------------------- watchdog

var crashDevNull *os.File

func crashQuiet() {
	if crashDevNull == nil {
		f, err := os.OpenFile(os.DevNull, os.O_WRONLY, 0)
		if err == nil {
			crashDevNull = f
			os.Stdout = f // main's answer writer already holds the real stdout
			zygo.OurStdout = f // the library's debug printer captured os.Stdout at init
		}
	}
}

var crashWatchdog = 3 * time.Second

// ---------------------------------------------------------------- enumeration

// an enumeration alphabet: tokens, how they are joined, and what surrounds the sequence
type crashAlphabet struct {
	prefix, sep, suffix string
	toks                []string
}

func charAlphabet(s string) crashAlphabet {
	a := crashAlphabet{}
	for _, r := range s {
		a.toks = append(a.toks, string(r))
	}
	return a
}

// the token alphabet of the property + backslash (escape sequences) + blank + newline
const crashAlphaA = "()[]{}%^~@:;,.-+1a\"'`/#\\ \n"

var crashSeqToks = []string{"a", "b", "1", "=", ":=", "\\", "(", ")", "[", "]", "'", ":", "&", "*"}

var crashAlphabets = map[string]crashAlphabet{
	"A": charAlphabet(crashAlphaA),
	// reduced alphabet for the longest strings of the thorough tier
	"B": charAlphabet("(){}[]:\"a1 \\.-"),
	// A extended by the operator characters
	"C": charAlphabet(crashAlphaA + "=&$?!*<>|"),
	// token sequences (separated by blanks) inside a list, an array, an infix block / hash
	"T": {prefix: "(", sep: " ", suffix: ")", toks: crashSeqToks},
	"U": {prefix: "[", sep: " ", suffix: "]", toks: crashSeqToks},
	"V": {prefix: "{", sep: " ", suffix: "}", toks: crashSeqToks},
}

func enumString(alpha crashAlphabet, length int, idx int64) string {
	parts := make([]string, length)
	n := int64(len(alpha.toks))
	for i := length - 1; i >= 0; i-- {
		parts[i] = alpha.toks[idx%n]
		idx /= n
	}
	return alpha.prefix + strings.Join(parts, alpha.sep) + alpha.suffix
}

const crashHashMod = 1000000007

func crashHashStep(h uint64, rec string) uint64 {
	for i := 0; i < len(rec); i++ {
		h = (h*131 + uint64(rec[i])) % crashHashMod
	}
	return (h*131 + 10) % crashHashMod
}

func crashEnum(toks []string) string {
	if len(toks) != 4 {
		return "bad-op"
	}
	alpha, ok := crashAlphabets[toks[0]]
	length, e1 := strconv.Atoi(toks[1])
	from, e2 := strconv.ParseInt(toks[2], 10, 64)
	to, e3 := strconv.ParseInt(toks[3], 10, 64)
	if !ok || e1 != nil || e2 != nil || e3 != nil || from > to {
		return "bad-op"
	}
	var shared *crashEnv
	get := func() *crashEnv {
		if shared == nil {
			shared = newCrashEnv('b')
		}
		return shared
	}
	discard := func() {
		if shared != nil {
			func() { defer func() { recover() }(); shared.env.Close() }()
		}
		shared = nil
	}
	counts := map[string]int{}
	var failing []string
	var h uint64
	hung := false
	for i := from; i < to; i++ {
		text := enumString(alpha, length, i)
		rec := crashAll('b', text, false, get, discard)
		if crashHung {
			// did not come back: name the string and stop (the process ends after this op)
			failing = append(failing, stringToCodes(text)+"=hang")
			hung = true
			break
		}
		h = crashHashStep(h, rec.P)
		counts["E:"+classOnly(rec.E)]++
		counts["R:"+classOnly(rec.R)]++
		counts["P:"+strings.SplitN(rec.P, "/", 2)[0]]++
		if rec.bad() {
			discard()
			if len(failing) < 8 {
				// does it fail on a fresh interpreter too? then the string alone is the input
				alone := crashAll('b', text, true, func() *crashEnv { return newCrashEnv('b') }, func() {})
				tag := "alone"
				if !alone.bad() {
					tag = fmt.Sprintf("history-from-%d", from)
				}
				failing = append(failing, stringToCodes(text)+"="+tag+"="+firstBad(rec))
			}
			counts["failing"]++
		}
	}
	discard()
	keys := make([]string, 0, len(counts))
	for k := range counts {
		keys = append(keys, k)
	}
	sort.Strings(keys)
	var cs []string
	for _, k := range keys {
		cs = append(cs, fmt.Sprintf("%s=%d", k, counts[k]))
	}
	f := "-"
	if len(failing) > 0 {
		f = strings.Join(failing, ",")
	}
	n := to - from
	if hung {
		return fmt.Sprintf("n=%d h=hung c=%s F=%s", n, strings.Join(cs, ","), f)
	}
	return fmt.Sprintf("n=%d h=%d c=%s F=%s", n, h, strings.Join(cs, ","), f)
}

func classOnly(c string) string {
	if i := strings.IndexByte(c, ':'); i >= 0 {
		return c[:i]
	}
	return c
}

func firstBad(r crashRec) string {
	for _, c := range []string{r.P, r.E, r.F, r.X, r.M, r.R} {
		if isBad(c) {
			return c
		}
	}
	return "-"
}

// ---------------------------------------------------------------- single texts

func crashText(cfg byte, text string) string {
	if crashDenied(text) && !crashAllowExact[text] {
		return "skip"
	}
	var rec crashRec
	var made []*crashEnv
	get := func() *crashEnv {
		ce := newCrashEnv(cfg)
		made = append(made, ce)
		return ce
	}
	// E and L share one interpreter: get() hands out the last one until it is discarded
	var cur *crashEnv
	getShared := func() *crashEnv {
		if cur == nil {
			cur = get()
		}
		return cur
	}
	discard := func() { cur = nil }
	rec = crashAll(cfg, text, true, getShared, discard)
	if crashHung {
		return "hang"
	}
	for _, ce := range made {
		func() { defer func() { recover() }(); ce.env.Close() }()
	}
	return rec.String()
}

func crashRepl(cfg byte, text string) string {
	if crashDenied(text) {
		return "skip"
	}
	cmd := exec.Command(os.Args[0], "replchild", string(cfg))
	cmd.Stdin = strings.NewReader(text + "\n")
	var stderr strings.Builder
	cmd.Stderr = &stderr
	cmd.Stdout = nil
	if err := cmd.Start(); err != nil {
		return "R:spawn-failed"
	}
	done := make(chan error, 1)
	go func() { done <- cmd.Wait() }()
	select {
	case err := <-done:
		if err == nil {
			return "R:ok"
		}
		msg := ""
		for _, l := range strings.Split(stderr.String(), "\n") {
			if strings.HasPrefix(l, "panic:") || strings.HasPrefix(l, "fatal error:") {
				msg = l
				break
			}
		}
		return "R:death rc=" + strconv.Itoa(cmd.ProcessState.ExitCode()) + " " + oneLine(msg)
	case <-time.After(20 * time.Second):
		cmd.Process.Kill()
		return "R:hang"
	}
}

// replChildMain: `zyh replchild <cfg>` — the real Repl() on stdin, as cmd/zygo runs it.
func replChildMain(args []string) {
	cfg := zygo.NewZlispConfig("zygo")
	cfg.NoLiner = true
	cfg.Quiet = true
	cfg.Prompt = ""
	// the dot-commands of the non-sandboxed REPL (.cd …) are outside-world effects: the
	// sandboxed loop skips them; the interpreter behind it follows <cfg>
	cfg.Sandboxed = true
	c := byte('s')
	if len(args) > 0 && len(args[0]) == 1 {
		c = args[0][0]
	}
	ce := newCrashEnv(c)
	if f, err := os.OpenFile(os.DevNull, os.O_WRONLY, 0); err == nil {
		os.Stdout = f
	}
	zygo.Repl(ce.env, cfg) // ends with os.Exit(0) at end of input
	os.Exit(0)
}

func crashExec(toks []string) string {
	if os.Getenv("VERIF_C01_TIMING") != "" { // development aid: slow ops on stderr
		t0 := time.Now()
		defer func() {
			if d := time.Since(t0); d > 300*time.Millisecond {
				fmt.Fprintf(os.Stderr, "slow %v %s\n", d, strings.Join(toks, " "))
			}
		}()
	}
	return crashExec1(toks)
}

// crashStackCap: the Go stack limit of the harness process while it runs crash ops. Go's
// default is 1 GB, which a runaway recursion of the library (a printer, Type(), the macro
// expander on a value or macro that contains itself) needs 15-50 s to fill — long after the
// watchdog has called the text non-terminating. With 16 MB the same recursion is a process
// death ("fatal error: stack overflow", not recoverable) within about a second, and is
// reported. Scripts are bounded by the call budget (5000 calls: at most ~1700 nested script
// calls, about 5 MB of Go stack) and generated nesting by the generators (≤ 5000 levels), so
// no text of the streams comes near the cap legitimately.
const crashStackCap = 16 << 20

// ---------------------------------------------------------------- value histories

// step kinds of the systematic small-scope histories: %v the variable the step works on, %u
// the other one. Creation with typed / other-typed / empty / untyped contents, in-place
// mutation with untyped, self-referential and cross-referential elements, copies that carry
// the cached element type along, observation (type? caches the type), nesting.
var crashStepKinds = []string{
	"(def %v [1 2])", "(def %v [1.5])", "(def %v [])", "(def %v (hash k: 1))", "(def %v (list 1 2))",
	"(aset %v 0 (list 7 8))", "(aset %v 0 %v)", "(aset %v 0 %u)", "(hset %v k: %u)", "(def %v (rest %u))",
	"(str (type? %v) %v)", "(def %v [%u])",
}

var crashVarNames = []string{"a", "b"}

func crashStepText(idx int, nvars int) string {
	k := idx / nvars
	v := idx % nvars
	u := (v + 1) % len(crashVarNames)
	t := strings.ReplaceAll(crashStepKinds[k], "%v", crashVarNames[v])
	return strings.ReplaceAll(t, "%u", crashVarNames[u])
}

// crashHistory: the steps one after another through EvalString on ONE interpreter (an error
// does not end the history), the value of every step printed, then the follow-up battery.
func crashHistory(cfg byte, steps []string) (classes []string, bad bool) {
	ce := newCrashEnv(cfg)
	defer func() { func() { defer func() { recover() }(); ce.env.Close() }() }()
	for _, st := range steps {
		c := ce.guard(func() string {
			v, err := ce.env.EvalString(st)
			return valueClass(v, err)
		})
		classes = append(classes, c)
		if isBad(c) {
			return classes, true
		}
		if c == "timeout" || crashHung {
			return classes, false
		}
	}
	f := ce.guard(func() string { return crashBattery(ce.env) })
	classes = append(classes, "F:"+f)
	return classes, isBad(f)
}

// crash v <nvars> <len> <from> <to>: every history number from..to-1 of <len> steps over
// crashStepKinds × the first <nvars> variables (the first step always works on variable a:
// index space |kinds| · (|kinds|·nvars)^(len-1)).
func crashValueEnum(toks []string) string {
	if len(toks) != 4 {
		return "bad-op"
	}
	nvars, e0 := strconv.Atoi(toks[0])
	length, e1 := strconv.Atoi(toks[1])
	from, e2 := strconv.ParseInt(toks[2], 10, 64)
	to, e3 := strconv.ParseInt(toks[3], 10, 64)
	if e0 != nil || e1 != nil || e2 != nil || e3 != nil || nvars < 1 || nvars > len(crashVarNames) || length < 1 || from > to {
		return "bad-op"
	}
	base := int64(len(crashStepKinds) * nvars)
	counts := map[string]int{}
	var failing []string
	for i := from; i < to; i++ {
		idx := i
		steps := make([]string, length)
		for p := length - 1; p >= 1; p-- {
			steps[p] = crashStepText(int(idx%base), nvars)
			idx /= base
		}
		steps[0] = crashStepText(int(idx%int64(len(crashStepKinds)))*nvars, nvars) // variable a
		classes, bad := crashHistory('b', steps)
		if crashHung {
			failing = append(failing, stringToCodes(strings.Join(steps, "\n"))+"=hang")
			break
		}
		for _, c := range classes {
			if strings.HasPrefix(c, "F:") {
				counts["battery-"+classOnly(c[2:])]++
			} else {
				counts["step-"+classOnly(c)]++
			}
		}
		if bad {
			counts["failing"]++
			if len(failing) < 8 {
				failing = append(failing, stringToCodes(strings.Join(steps, "\n")))
			}
		}
	}
	keys := make([]string, 0, len(counts))
	for k := range counts {
		keys = append(keys, k)
	}
	sort.Strings(keys)
	var cs []string
	for _, k := range keys {
		cs = append(cs, fmt.Sprintf("%s=%d", k, counts[k]))
	}
	f := "-"
	if len(failing) > 0 {
		f = strings.Join(failing, ",")
	}
	return fmt.Sprintf("n=%d c=%s F=%s", to-from, strings.Join(cs, ","), f)
}

func crashHistoryOp(cfg byte, text string) string {
	if crashDenied(text) {
		return "skip"
	}
	steps := strings.Split(text, "\n")
	classes, _ := crashHistory(cfg, steps)
	if crashHung {
		return "hang"
	}
	// the same history through the REPL line reader (which clears the stacks after an error)
	ce := newCrashEnv(cfg)
	r := ce.guard(func() string {
		_, er, _ := ce.env.VerifReplLines(text + "\n" + strings.Join(crashFollowUp, "\n") + "\n")
		if er > 0 {
			return "err"
		}
		return "ok"
	})
	func() { defer func() { recover() }(); ce.env.Close() }()
	if crashHung {
		return "hang"
	}
	return "H:" + strings.Join(classes, ",") + " R:" + r
}

func crashExec1(toks []string) string {
	crashQuiet()
	debug.SetMaxStack(crashStackCap)
	if w := os.Getenv("VERIF_C01_WATCHDOG"); w != "" { // development aid
		if d, err := time.ParseDuration(w); err == nil {
			crashWatchdog = d
		}
	}
	if len(toks) < 1 {
		return "bad-op"
	}
	switch toks[0] {
	case "e":
		return crashEnum(toks[1:])
	case "v":
		return crashValueEnum(toks[1:])
	case "s", "r", "h":
		if len(toks) != 3 || len(toks[1]) != 1 {
			return "bad-op"
		}
		text, ok := codesToString(toks[2])
		if !ok {
			return "bad-op"
		}
		if toks[0] == "r" {
			return crashRepl(toks[1][0], text)
		}
		if toks[0] == "h" {
			return crashHistoryOp(toks[1][0], text)
		}
		return crashText(toks[1][0], text)
	case "b":
		if len(toks) != 3 || len(toks[1]) != 1 {
			return "bad-op"
		}
		raw, err := hex.DecodeString(toks[2])
		if err != nil {
			return "bad-op"
		}
		return crashText(toks[1][0], string(raw))
	}
	return "bad-op"
}

func init() {
	channels["crash"] = &Channel{Gen: crashGen, Exec: crashExec}
	if len(os.Args) > 1 && os.Args[1] == "replchild" {
		replChildMain(os.Args[2:])
		os.Exit(0)
	}
}
