package main

// Channel hash (C14): a whole history on ONE hash per line, run on the real code.
//
//	hash <ev|pk> S=<sym>:<num>,… U=<rkey>,… <op> <op> …
//	  rkey : y.<name> | s.<letters> | i.<int> | c.<codepoint> | a.<one of these>   ([k])
//	  op   : set/<rkey>/<int> del/<rkey> get/<rkey> getd/<rkey> keys len hpair/<n> range ranged str json
//	         obs  (= every observer: get+getd of each U key, keys, len, hpair 0..|U|, range, str, json)
//	answer: per op the observation(s) ("|" between the members of obs), ";" between ops.
//
// Route ev: every step is one EvalString on one interpreter (`(hset hC14 %zk0 3)` …).
// Route pk: the builtin Go functions are called directly (a Go panic is seen as such) and
// after every op the three pieces of bookkeeping are dumped:
// `@N<NumKeys>,K[<KeyOrder>],B[<code>:<bucket size>,…]` (buckets sorted by code). Map,
// KeyOrder and NumKeys are exported fields, so no overlay accessor is needed; symbol numbers
// are read through HashExpression.
//
// S= carries the numbers the generator saw for the symbols (the Lean side needs them for the
// bucket codes and for the integer keys chosen to collide with a symbol); they are NOT used
// here — if the running interpreter numbers the symbols differently the dump differs from
// the model's and the correspondence check says so.

import (
	"fmt"
	"hash/fnv"
	"sort"
	"strconv"
	"strings"

	"github.com/glycerine/zygomys/v9/zygo"
)

var hashEnvV *zygo.Zlisp

var hashSymNames = []string{"zk0", "zk1"}

func hashEnv() *zygo.Zlisp {
	if hashEnvV == nil {
		hashEnvV = zygo.NewZlisp()
		hashEnvV.StandardSetup()
		for _, n := range hashSymNames {
			hashEnvV.MakeSymbol(n)
		}
	}
	return hashEnvV
}

func hashSymNum(env *zygo.Zlisp, name string) int {
	n, err := zygo.HashExpression(nil, env.MakeSymbol(name))
	if err != nil {
		panic(err)
	}
	return n
}

// ---- keys

func hashKeySexp(env *zygo.Zlisp, t string) (zygo.Sexp, bool) {
	if strings.HasPrefix(t, "a.") {
		k, ok := hashKeySexp(env, t[2:])
		if !ok {
			return nil, false
		}
		return &zygo.SexpArray{Val: []zygo.Sexp{k}, Env: env}, true
	}
	if len(t) < 3 || t[1] != '.' {
		return nil, false
	}
	body := t[2:]
	switch t[0] {
	case 'y':
		return env.MakeSymbol(body), true
	case 's':
		return &zygo.SexpStr{S: body}, true
	case 'i':
		v, err := strconv.ParseInt(body, 10, 64)
		if err != nil {
			return nil, false
		}
		return &zygo.SexpInt{Val: v}, true
	case 'c':
		v, err := strconv.ParseInt(body, 10, 32)
		if err != nil {
			return nil, false
		}
		return &zygo.SexpChar{Val: rune(v)}, true
	}
	return nil, false
}

func hashKeyText(t string) (string, bool) {
	if strings.HasPrefix(t, "a.") {
		k, ok := hashKeyText(t[2:])
		return "[" + k + "]", ok
	}
	if len(t) < 3 || t[1] != '.' {
		return "", false
	}
	body := t[2:]
	switch t[0] {
	case 'y':
		return "%" + body, true
	case 's':
		return `"` + body + `"`, true
	case 'i':
		return body, true
	case 'c':
		v, err := strconv.ParseInt(body, 10, 32)
		if err != nil || v < 33 || v > 126 || v == '\'' || v == '\\' {
			return "", false
		}
		return "'" + string(rune(v)) + "'", true
	}
	return "", false
}

func hashTok(s zygo.Sexp) string {
	switch x := s.(type) {
	case *zygo.SexpSymbol:
		return "y." + x.Name()
	case *zygo.SexpStr:
		return "s." + x.S
	case *zygo.SexpInt:
		return "i." + strconv.FormatInt(x.Val, 10)
	case *zygo.SexpChar:
		return "c." + strconv.FormatInt(int64(x.Val), 10)
	case *zygo.SexpArray:
		if len(x.Val) == 1 {
			return "a." + hashTok(x.Val[0])
		}
	}
	return "other:" + strings.ReplaceAll(s.SexpString(nil), " ", "_")
}

func hashValTok(s zygo.Sexp) string {
	switch x := s.(type) {
	case *zygo.SexpInt:
		return strconv.FormatInt(x.Val, 10)
	}
	return "other:" + strings.ReplaceAll(s.SexpString(nil), " ", "_")
}

// ---- canonical observations

func hashErr(err error) string {
	if strings.Contains(err.Error(), "caught panic") {
		return "panic"
	}
	return "err"
}

func hashShowKeys(s zygo.Sexp) string {
	arr, ok := s.(*zygo.SexpArray)
	if !ok {
		return "other:" + strings.ReplaceAll(s.SexpString(nil), " ", "_")
	}
	ts := make([]string, len(arr.Val))
	for i, k := range arr.Val {
		ts[i] = hashTok(k)
	}
	return "K[" + strings.Join(ts, ",") + "]"
}

// (k v) as built by HashPairi: Cons(key, Cons(val, nil))
func hashPairKV(s zygo.Sexp) (string, bool) {
	p, ok := s.(*zygo.SexpPair)
	if !ok {
		return "", false
	}
	q, ok := p.Tail.(*zygo.SexpPair)
	if !ok || q.Tail != zygo.SexpNull {
		return "", false
	}
	return hashTok(p.Head) + "=" + hashValTok(q.Head), true
}

func hashShowPair(s zygo.Sexp) string {
	kv, ok := hashPairKV(s)
	if !ok {
		return "other:" + strings.ReplaceAll(s.SexpString(nil), " ", "_")
	}
	return "P(" + kv + ")"
}

func hashShowGet(s zygo.Sexp) string {
	switch x := s.(type) {
	case *zygo.SexpInt:
		return "v" + strconv.FormatInt(x.Val, 10)
	case *zygo.SexpStr:
		if x.S == "D" {
			return "d"
		}
	}
	return "other:" + strings.ReplaceAll(s.SexpString(nil), " ", "_")
}

func hashText(s string) string { return "T" + strings.ReplaceAll(s, " ", "_") }

// ---- the two routes

type hashRunner interface {
	op(t []string) string // one primitive op (already split on "/")
	dump() string
}

// route ev
type hashEv struct{ env *zygo.Zlisp }

func (r *hashEv) eval(src string) (zygo.Sexp, string) {
	res, err := r.env.EvalString(src + " ")
	if err != nil {
		e := hashErr(err)
		r.env.Clear()
		return nil, e
	}
	return res, ""
}

func (r *hashEv) op(t []string) string {
	switch t[0] {
	case "set", "del", "get", "getd":
		if len(t) < 2 {
			return "bad-op"
		}
		k, ok := hashKeyText(t[1])
		if !ok {
			return "bad-op"
		}
		switch t[0] {
		case "set":
			if len(t) != 3 {
				return "bad-op"
			}
			res, e := r.eval("(hset hC14 " + k + " " + t[2] + ")")
			if e != "" {
				return e
			}
			if res != zygo.SexpNull {
				return "other"
			}
			return "ok"
		case "del":
			res, e := r.eval("(hdel hC14 " + k + ")")
			if e != "" {
				return e
			}
			if res != zygo.SexpNull {
				return "other"
			}
			return "ok"
		case "get":
			res, e := r.eval("(hget hC14 " + k + ")")
			if e != "" {
				return e
			}
			return hashShowGet(res)
		default:
			res, e := r.eval("(hget hC14 " + k + ` "D")`)
			if e != "" {
				return e
			}
			return hashShowGet(res)
		}
	case "keys":
		res, e := r.eval("(keys hC14)")
		if e != "" {
			return e
		}
		return hashShowKeys(res)
	case "len":
		res, e := r.eval("(len hC14)")
		if e != "" {
			return e
		}
		if x, ok := res.(*zygo.SexpInt); ok {
			return "n" + strconv.FormatInt(x.Val, 10)
		}
		return "other"
	case "hpair":
		if len(t) != 2 {
			return "bad-op"
		}
		res, e := r.eval("(hpair hC14 " + t[1] + ")")
		if e != "" {
			return e
		}
		return hashShowPair(res)
	case "range", "ranged":
		// "ranged" is the defining form `k, v := range h` (lowered to mdef); see notes/C14.known.json
		src := "(let [accC14 []] {for kC14, vC14 = range hC14 { accC14 = (append accC14 [kC14 vC14]) }} accC14)"
		if t[0] == "ranged" {
			src = "(let [accC14 []] {for kC14, vC14 := range hC14 { accC14 = (append accC14 [kC14 vC14]) }} accC14)"
		}
		res, e := r.eval(src)
		if e != "" {
			return e
		}
		arr, ok := res.(*zygo.SexpArray)
		if !ok {
			return "other"
		}
		ts := []string{}
		for _, el := range arr.Val {
			kv, ok := el.(*zygo.SexpArray)
			if !ok || len(kv.Val) != 2 {
				return "other"
			}
			ts = append(ts, hashTok(kv.Val[0])+"="+hashValTok(kv.Val[1]))
		}
		return "R[" + strings.Join(ts, ",") + "]"
	case "str":
		res, e := r.eval("(str hC14)")
		if e != "" {
			return e
		}
		if x, ok := res.(*zygo.SexpStr); ok {
			return hashText(x.S)
		}
		return "other"
	case "json":
		res, e := r.eval("(json hC14)")
		if e != "" {
			return e
		}
		if x, ok := res.(*zygo.SexpRaw); ok {
			return hashText(string(x.Val))
		}
		return "other"
	}
	return "bad-op"
}

func (r *hashEv) dump() string { return "" }

// route pk
type hashPk struct {
	env *zygo.Zlisp
	h   *zygo.SexpHash
}

func (r *hashPk) call(f zygo.ZlispUserFunction, name string, args ...zygo.Sexp) (res zygo.Sexp, e string) {
	defer func() {
		if p := recover(); p != nil {
			res, e = nil, "panic"
		}
	}()
	out, err := f(r.env, name, args)
	if err != nil {
		return nil, "err"
	}
	return out, ""
}

func (r *hashPk) op(t []string) string {
	env := r.env
	switch t[0] {
	case "set", "del", "get", "getd":
		if len(t) < 2 {
			return "bad-op"
		}
		k, ok := hashKeySexp(env, t[1])
		if !ok {
			return "bad-op"
		}
		switch t[0] {
		case "set":
			if len(t) != 3 {
				return "bad-op"
			}
			v, err := strconv.ParseInt(t[2], 10, 64)
			if err != nil {
				return "bad-op"
			}
			res, e := r.call(zygo.HashAccessFunction("hset"), "hset", r.h, k, &zygo.SexpInt{Val: v})
			if e != "" {
				return e
			}
			if res != zygo.SexpNull {
				return "other"
			}
			return "ok"
		case "del":
			res, e := r.call(zygo.HashAccessFunction("hdel"), "hdel", r.h, k)
			if e != "" {
				return e
			}
			if res != zygo.SexpNull {
				return "other"
			}
			return "ok"
		case "get":
			res, e := r.call(zygo.GenericAccessFunction, "hget", r.h, k)
			if e != "" {
				return e
			}
			return hashShowGet(res)
		default:
			res, e := r.call(zygo.GenericAccessFunction, "hget", r.h, k, &zygo.SexpStr{S: "D"})
			if e != "" {
				return e
			}
			return hashShowGet(res)
		}
	case "keys":
		res, e := r.call(zygo.HashAccessFunction("keys"), "keys", r.h)
		if e != "" {
			return e
		}
		return hashShowKeys(res)
	case "len":
		res, e := r.call(zygo.LenFunction, "len", r.h)
		if e != "" {
			return e
		}
		if x, ok := res.(*zygo.SexpInt); ok {
			return "n" + strconv.FormatInt(x.Val, 10)
		}
		return "other"
	case "hpair":
		if len(t) != 2 {
			return "bad-op"
		}
		pos, err := strconv.ParseInt(t[1], 10, 64)
		if err != nil {
			return "bad-op"
		}
		res, e := r.call(zygo.GenericHpairFunction, "hpair", r.h, &zygo.SexpInt{Val: pos})
		if e != "" {
			return e
		}
		return hashShowPair(res)
	case "range", "ranged":
		// what the lowering of `for k, v = range h` does: __rangeLen once, __rangePair per index
		res, e := r.call(zygo.RangeLenFunction, "__rangeLen", r.h)
		if e != "" {
			return e
		}
		n, ok := res.(*zygo.SexpInt)
		if !ok {
			return "other"
		}
		ts := []string{}
		for i := int64(0); i < n.Val; i++ {
			p, e := r.call(zygo.RangePairFunction, "__rangePair", r.h, &zygo.SexpInt{Val: i})
			if e != "" {
				return e
			}
			kv, ok := hashPairKV(p)
			if !ok {
				return "other"
			}
			ts = append(ts, kv)
		}
		return "R[" + strings.Join(ts, ",") + "]"
	case "str":
		res, e := r.call(zygo.StringifyFunction, "str", r.h)
		if e != "" {
			return e
		}
		if x, ok := res.(*zygo.SexpStr); ok {
			return hashText(x.S)
		}
		return "other"
	case "json":
		res, e := r.call(zygo.JsonFunction("json"), "json", r.h)
		if e != "" {
			return e
		}
		if x, ok := res.(*zygo.SexpRaw); ok {
			return hashText(string(x.Val))
		}
		return "other"
	}
	return "bad-op"
}

func (r *hashPk) dump() string {
	h := r.h
	ko := make([]string, len(h.KeyOrder))
	for i, k := range h.KeyOrder {
		ko[i] = hashTok(k)
	}
	codes := make([]int, 0, len(h.Map))
	for c := range h.Map {
		codes = append(codes, c)
	}
	sort.Ints(codes)
	bs := make([]string, len(codes))
	for i, c := range codes {
		bs[i] = fmt.Sprintf("%d:%d", c, len(h.Map[c]))
	}
	return fmt.Sprintf("@N%d,K[%s],B[%s]", h.NumKeys, strings.Join(ko, ","), strings.Join(bs, ","))
}

func hashObsSuite(u []string) [][]string {
	var ops [][]string
	for _, k := range u {
		ops = append(ops, []string{"get", k}, []string{"getd", k})
	}
	ops = append(ops, []string{"keys"}, []string{"len"})
	for i := 0; i <= len(u); i++ {
		ops = append(ops, []string{"hpair", strconv.Itoa(i)})
	}
	ops = append(ops, []string{"range"}, []string{"str"}, []string{"json"})
	return ops
}

func hashExec(toks []string) string {
	if len(toks) < 3 || !strings.HasPrefix(toks[1], "S=") || !strings.HasPrefix(toks[2], "U=") {
		return "bad-op"
	}
	env := hashEnv()
	var u []string
	if toks[2] != "U=" {
		u = strings.Split(toks[2][2:], ",")
	}
	var r hashRunner
	switch toks[0] {
	case "ev":
		if _, err := env.EvalString("(def hC14 (hash)) "); err != nil {
			env.Clear()
			return "setup-err"
		}
		r = &hashEv{env: env}
	case "pk":
		h, err := zygo.MakeHash(nil, "hash", env)
		if err != nil {
			return "setup-err"
		}
		r = &hashPk{env: env, h: h}
	default:
		return "bad-op"
	}
	out := make([]string, 0, len(toks)-3)
	for _, t := range toks[3:] {
		parts := strings.Split(t, "/")
		var ans string
		if parts[0] == "obs" {
			suite := hashObsSuite(u)
			as := make([]string, len(suite))
			for i, p := range suite {
				as[i] = r.op(p)
			}
			ans = strings.Join(as, "|")
		} else {
			ans = r.op(parts)
		}
		if ans == "bad-op" {
			return "bad-op"
		}
		out = append(out, ans+r.dump())
	}
	return strings.Join(out, ";")
}

// ---- generators

func hashFnv(s string) int {
	h := fnv.New32()
	h.Write([]byte(s))
	return int(h.Sum32())
}

func hashKind(k string) string {
	if strings.HasPrefix(k, "a.") {
		return "array1-of-" + hashKind(k[2:])
	}
	switch k[0] {
	case 'y':
		return "symbol"
	case 's':
		return "string"
	case 'i':
		return "int"
	case 'c':
		return "char"
	}
	return "?"
}

func hashGen(g *Gen) {
	env := hashEnv()
	n0, n1 := hashSymNum(env, "zk0"), hashSymNum(env, "zk1")
	symtab := fmt.Sprintf("S=zk0:%d,zk1:%d", n0, n1)
	fab := hashFnv("ab")
	// universes with forced collisions:
	//  uA: a symbol and the integer equal to its number (two keys, one bucket); 'x' and 120 (ONE key,
	//      two spellings); [120] (the same key again through the one-element-array rule)
	//  uB: a string and the integer equal to its FNV-32 code (two keys, one bucket); the other
	//      symbol; [sym] and ["ab"]; a char with a bucket of its own
	uA := []string{"y.zk0", "i." + strconv.Itoa(n0), "c.120", "i.120", "a.i.120"}
	uB := []string{"s.ab", "i." + strconv.Itoa(fab), "y.zk1", "a.y.zk1", "a.s.ab", "c.97"}
	uC := []string{"y.zk0", "y.zk1", "i." + strconv.Itoa(n0), "i." + strconv.Itoa(n1), "a.y.zk0", "s.zk0", "c.48", "i.48", "a.c.48", "s.q", "i.-1", "i.0", "a.i.0"}

	exhaustive := func(route string, u []string, L int, everyStep bool) {
		muts := make([]string, 0, 2*len(u))
		for _, k := range u {
			muts = append(muts, "set/"+k, "del/"+k)
		}
		idx := make([]int, L)
		for {
			parts := make([]string, 0, 2*L)
			for p, m := range idx {
				op := muts[m]
				if strings.HasPrefix(op, "set/") {
					op += "/" + strconv.Itoa(p+1)
				}
				parts = append(parts, op)
				if everyStep || p == L-1 {
					parts = append(parts, "obs")
				}
			}
			g.Emit("%s %s U=%s %s", route, symtab, strings.Join(u, ","), strings.Join(parts, " "))
			g.Count(fmt.Sprintf("exhaustive %s |U|=%d L=%d", route, len(u), L))
			i := L - 1
			for i >= 0 {
				idx[i]++
				if idx[i] < len(muts) {
					break
				}
				idx[i] = 0
				i--
			}
			if i < 0 {
				break
			}
		}
	}
	// the one history of the known finding (`:=` range over keys of different types: since repo fix
	// C14-03 the loop stops with an error instead of repeating the first key); on universes of ONE key
	// type the defining form `ranged` must present what `range` presents (stream below)
	g.Emit("ev S= U=i.5,s.ab set/i.5/1 set/s.ab/2 ranged")
	g.Count("known-finding probe (ranged)")
	oneKind := [][]string{
		{"i.5", "i.6", "a.i.5", "i.-1", "i.0", "a.i.7"},
		{"y.zk0", "y.zk1", "a.y.zk0"},
		{"s.ab", "s.q", "a.s.ab", "s.zk0"},
		{"c.97", "c.48", "a.c.48", "c.120"},
	}
	nDef := 160
	if g.Thorough() {
		nDef = 6000
	}
	for i := 0; i < nDef; i++ {
		u := oneKind[g.Rng.Intn(len(oneKind))]
		L := 1 + g.Rng.Intn(12)
		parts := make([]string, 0, L+2)
		for p := 0; p < L; p++ {
			k := u[g.Rng.Intn(len(u))]
			switch x := g.Rng.Intn(10); {
			case x < 6:
				parts = append(parts, "set/"+k+"/"+strconv.Itoa(p+1))
			case x < 9:
				parts = append(parts, "del/"+k)
			default:
				parts = append(parts, "ranged")
			}
		}
		parts = append(parts, "ranged", "range")
		g.Emit("ev %s U=%s %s", symtab, strings.Join(u, ","), strings.Join(parts, " "))
		g.Count("defining range over keys of one type (" + hashKind(u[0]) + ")")
	}
	if g.Thorough() {
		// (the answers of all lines are held in memory by the check, which bounds the enumeration)
		exhaustive("pk", uA, 5, true)      // 10^5 histories, every prefix observed
		exhaustive("pk", uA[:4], 6, false) // 8^6 = 262144 histories, bookkeeping dumped after every op, full observation at the end
		exhaustive("pk", uB, 4, true)
		exhaustive("ev", uA, 4, true)
		exhaustive("ev", uB, 3, true)
	} else {
		exhaustive("pk", uA, 4, true)
		exhaustive("pk", uB, 3, true)
		exhaustive("ev", uA, 3, true)
		exhaustive("ev", uB, 2, true)
	}

	// random histories up to length 200 over the union, all ops, both routes
	nRand := 400
	if g.Thorough() {
		nRand = 20000
	}
	all := append(append(append([]string{}, uA...), uB...), uC...)
	for i := 0; i < nRand; i++ {
		route := "ev"
		if g.Rng.Intn(2) == 0 {
			route = "pk"
		}
		var u []string
		switch g.Rng.Intn(4) {
		case 0:
			u = uA
		case 1:
			u = uB
		case 2:
			u = uC
		default:
			u = all
		}
		// a small working set makes delete / re-insert / delete-twice interleavings frequent
		ws := 1 + g.Rng.Intn(len(u))
		if g.Rng.Intn(2) == 0 && ws > 4 {
			ws = 2 + g.Rng.Intn(3)
		}
		perm := g.Rng.Perm(len(u))[:ws]
		L := 1 + g.Rng.Intn(200)
		if g.Rng.Intn(3) == 0 {
			L = 1 + g.Rng.Intn(20)
		}
		parts := make([]string, 0, L)
		for p := 0; p < L; p++ {
			k := u[perm[g.Rng.Intn(ws)]]
			var op string
			switch x := g.Rng.Intn(20); {
			case x < 6:
				op = "set/" + k + "/" + strconv.Itoa(p+1)
				g.Count("op set " + hashKind(k))
			case x < 11:
				op = "del/" + k
				g.Count("op del " + hashKind(k))
			case x < 12:
				op = "get/" + k
				g.Count("op get")
			case x < 13:
				op = "getd/" + k
				g.Count("op getd")
			case x < 14:
				op = "keys"
				g.Count("op keys")
			case x < 15:
				op = "len"
				g.Count("op len")
			case x < 16:
				op = "hpair/" + strconv.Itoa(g.Rng.Intn(ws+2))
				g.Count("op hpair")
			case x < 17:
				op = "range"
				g.Count("op range")
			case x < 18:
				op = "str"
				g.Count("op str")
			case x < 19:
				op = "json"
				g.Count("op json")
			default:
				op = "obs"
				g.Count("op obs")
			}
			parts = append(parts, op)
		}
		parts = append(parts, "obs")
		g.Emit("%s %s U=%s %s", route, symtab, strings.Join(u, ","), strings.Join(parts, " "))
		g.Count("random " + route)
		switch {
		case L <= 20:
			g.Count("random length 1-20")
		case L <= 100:
			g.Count("random length 21-100")
		default:
			g.Count("random length 101-200")
		}
	}
}

func init() { channels["hash"] = &Channel{Gen: hashGen, Exec: hashExec} }
