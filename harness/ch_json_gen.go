package main

// Generators of channel json (C11). Structured: values are drawn by type from pools that
// put every class of character, number and key the property names next to each other;
// exhaustive small scopes: every single-byte string, every IsPrint transition point,
// every boundary number, every (key kind x value kind) two-level hash.

import (
	"fmt"
	"math"
	"strconv"
	"strings"
	"unicode/utf8"
)

type jgen struct{ g *Gen }

func (j jgen) pick(xs []string) string { return xs[j.g.Rng.Intn(len(xs))] }

var jsonWords = []string{"", "a", "b", "abc", "hello world", "x1", "Atype", "zKeyOrder", "hash", "null", "nil", "true", "1", "-", "0.5"}

// strings by class; each is a Go string (bytes)
var jsonSpecial = []string{
	"\"", "\\", "\\\"", "a\"b", "a\\b", "\\n", "\\u0041", "/", "</script>", "'", "`",
	"\n", "\r", "\t", "\a", "\b", "\f", "\v", "\x00", "\x01", "\x1b", "\x1f", "\x7f", "a\nb\tc", "\r\n",
	"\u0080", "\u00a0", "\u00ad", "\u00e9", "\u00ff", "caf\u00e9", "\u0378", "\u200b", "\u2028", "\u2029", "\ufeff", "\ufffd", "\ufffe", "\uffff",
	"\ud7ff", "\ue000", "\u4e2d\u6587", "\U00010000", "\U0001F600", "\U000E0001", "\U0010FFFF", "\U0002FA1D", "\U00030000", "a\U0001F600b",
	"\xff", "\x80", "\xc0\x80", "\xc3", "\xe2\x82", "\xed\xa0\x80", "\xf4\x90\x80\x80", "\xf8\x88\x80\x80\x80", "a\xffb", "\xc3\xa9\xc3",
	"{\"a\":1}", "[1, 2]", "\",\"", "\":\"", ", ", "\"}", "\\u00", "\\x41", "\\U0001F600",
}

func (j jgen) randRune() rune {
	switch j.g.Rng.Intn(8) {
	case 0:
		return rune(j.g.Rng.Intn(0x20))
	case 1:
		return rune(0x20 + j.g.Rng.Intn(0x60))
	case 2:
		return rune(0x80 + j.g.Rng.Intn(0x780))
	case 3:
		return rune(0x800 + j.g.Rng.Intn(0xF800))
	case 4:
		return rune(0x10000 + j.g.Rng.Intn(0x100000))
	case 5:
		return []rune{'"', '\\', '/', 0x7f, 0x2028, 0xfffd, 0xd7ff, 0xe000, 0x10ffff}[j.g.Rng.Intn(9)]
	default:
		return rune('a' + j.g.Rng.Intn(26))
	}
}

// a string and its class (for the distribution record)
func (j jgen) str() (string, string) {
	switch j.g.Rng.Intn(10) {
	case 0, 1:
		return j.pick(jsonWords), "str-word"
	case 2, 3, 4:
		return j.pick(jsonSpecial), "str-special"
	case 5, 6, 7:
		n := 1 + j.g.Rng.Intn(6)
		var sb strings.Builder
		for i := 0; i < n; i++ {
			r := j.randRune()
			if r >= 0xd800 && r <= 0xdfff {
				r = 0xfffd
			}
			sb.WriteRune(r)
		}
		return sb.String(), "str-random-unicode"
	case 8:
		n := 1 + j.g.Rng.Intn(5)
		b := make([]byte, n)
		for i := range b {
			b[i] = byte(j.g.Rng.Intn(256))
		}
		if utf8.Valid(b) {
			return string(b), "str-random-bytes-valid"
		}
		return string(b), "str-random-bytes-invalid"
	default:
		return j.pick(jsonSpecial) + j.pick(jsonSpecial), "str-special-pair"
	}
}

var jsonInts = []int64{0, 1, -1, 2, 9, 10, -10, 99, 100, 255, 256, 65535, 1 << 31, -(1 << 31), 1<<32 - 1, 1 << 53, 1<<53 + 1, -(1<<53 + 1),
	math.MaxInt64, math.MaxInt64 - 1, math.MinInt64, math.MinInt64 + 1, 1000000000000000000, -1000000000000000000, 1234567890123456789}

var jsonFloats = []float64{0, math.Copysign(0, -1), 1, -1, 0.5, -0.5, 1.5, 2, 100, 0.1, 0.2, 0.30000000000000004, 1e-7, 2.5e-7, 1e20, 1e21, 1e22, 1e100, 1e300, -1e300,
	math.MaxFloat64, -math.MaxFloat64, math.SmallestNonzeroFloat64, 2.2250738585072014e-308, 9007199254740992, 9007199254740994, 1152921504606847232,
	9223372036854775807, 9223372036854775808, -9223372036854775808, -9223372036854777856, 18446744073709551616, 123456789012345680, 3.141592653589793, 1e15, 1e16, 1e17, 123456.789e3}

func jsonFloatTok(f float64, sci bool) string {
	fm, t := byte('f'), "d"
	if sci {
		fm, t = 'e', "e"
	}
	return fmt.Sprintf("%s %x %s %s", t, math.Float64bits(f), encBytes([]byte(strconv.FormatFloat(f, fm, -1, 64))), encBytes([]byte(strconv.FormatFloat(f, 'g', -1, 64))))
}

func (j jgen) scalar(inDomainOnly bool) string {
	g := j.g
	k := g.Rng.Intn(20)
	if inDomainOnly && k >= 17 {
		k = g.Rng.Intn(17)
	}
	switch {
	case k < 7:
		s, cls := j.str()
		g.Count(cls)
		if g.Rng.Intn(12) == 0 {
			g.Count("str-backtick")
			return "b " + encBytes([]byte(s))
		}
		return "s " + encBytes([]byte(s))
	case k < 10:
		g.Count("int")
		if g.Rng.Intn(3) == 0 {
			return fmt.Sprintf("i %d", int64(g.Rng.Uint64())>>uint(g.Rng.Intn(64)))
		}
		return fmt.Sprintf("i %d", jsonInts[g.Rng.Intn(len(jsonInts))])
	case k < 14:
		var f float64
		switch g.Rng.Intn(4) {
		case 0:
			f = math.Float64frombits(g.Rng.Uint64())
			if math.IsNaN(f) || math.IsInf(f, 0) {
				f = 1.25
			}
			g.Count("float-random-bits")
		case 1:
			f = float64(int64(g.Rng.Uint64()) >> uint(g.Rng.Intn(64)))
			g.Count("float-integral")
		default:
			f = jsonFloats[g.Rng.Intn(len(jsonFloats))]
			g.Count("float-grid")
		}
		sci := g.Rng.Intn(4) == 0
		if sci {
			g.Count("float-scientific")
		}
		return jsonFloatTok(f, sci)
	case k < 15:
		g.Count("bool")
		return []string{"t", "f"}[g.Rng.Intn(2)]
	case k < 17:
		g.Count("nil")
		return "n"
	case k < 18:
		g.Count("out-of-domain char/uint64")
		if g.Rng.Intn(2) == 0 {
			return fmt.Sprintf("c %d", j.randRune())
		}
		return fmt.Sprintf("u %d", g.Rng.Uint64()>>uint(g.Rng.Intn(64)))
	case k < 19:
		g.Count("out-of-domain NaN/Inf")
		f := []float64{math.NaN(), math.Inf(1), math.Inf(-1)}[g.Rng.Intn(3)]
		return jsonFloatTok(f, false)
	default:
		g.Count("symbol value")
		return "y " + encBytes([]byte(j.symName()))
	}
}

var jsonSymNames = []string{"a", "b", "c", "x", "y", "name", "Name", "id", "field_1", "camelCase", "z", "k2", "value", "ztail", "A", "B1", "aa", "ab", "ba", "zz", "Atyp", "zKeyOrder2",
	"\u00e9t\u00e9", "\u4e2d", "a-b", "a?", "+", "*", "h\U0001F600"}

func (j jgen) symName() string { return j.pick(jsonSymNames) }

var jsonTypeNames = []string{"hash", "hash", "hash", "hash", "Foo", "Snoopy", "Plane", "my_rec", "T1", "R\u00e9c"}
var jsonOddTypeNames = []string{"a\"b", "a\\", "x\ny", "", "\xff"}

// key returns the op tokens of a key and its identity (for distinctness)
func (j jgen) key(inDomainOnly bool) (string, string) {
	g := j.g
	k := g.Rng.Intn(20)
	if inDomainOnly && k >= 18 {
		k = 0
	}
	switch {
	case k < 12:
		g.Count("key-symbol")
		n := j.symName()
		return "y " + encBytes([]byte(n)), "y" + n
	case k < 18:
		s, _ := j.str()
		if g.Rng.Intn(2) == 0 {
			s = j.symName()
		}
		g.Count("key-string")
		return "s " + encBytes([]byte(s)), "s" + s
	case k < 19:
		g.Count("key-reserved-name")
		n := []string{"Atype", "zKeyOrder"}[g.Rng.Intn(2)]
		return "y " + encBytes([]byte(n)), "y" + n
	default:
		g.Count("key-int/char (out of domain)")
		if g.Rng.Intn(2) == 0 {
			n := g.Rng.Intn(100)
			return fmt.Sprintf("i %d", n), fmt.Sprintf("i%d", n)
		}
		c := 'a' + g.Rng.Intn(26)
		// int and char keys share hash codes and compare equal: identity by number
		return fmt.Sprintf("c %d", c), fmt.Sprintf("i%d", c)
	}
}

// value of bounded depth and size; symKeysOnly gives members of the round-trip domain
func (j jgen) value(depth int, budget *int, symKeysOnly, inDomainOnly bool) string {
	g := j.g
	*budget--
	if depth <= 0 || *budget <= 0 || g.Rng.Intn(3) == 0 {
		return j.scalar(inDomainOnly)
	}
	if g.Rng.Intn(5) < 2 {
		n := g.Rng.Intn(4)
		if g.Rng.Intn(8) == 0 {
			n = 0
		}
		g.Count(fmt.Sprintf("array-len-%d", n))
		parts := []string{fmt.Sprintf("a %d", n)}
		for i := 0; i < n; i++ {
			parts = append(parts, j.value(depth-1, budget, symKeysOnly, inDomainOnly))
		}
		return strings.Join(parts, " ")
	}
	n := g.Rng.Intn(5)
	tn := j.pick(jsonTypeNames)
	if !inDomainOnly && g.Rng.Intn(25) == 0 {
		tn = j.pick(jsonOddTypeNames)
		g.Count("typename-odd")
	}
	if tn == "hash" {
		g.Count("hash-anonymous")
	} else {
		g.Count("record-typed")
	}
	seen := map[string]bool{}
	var kv []string
	for i := 0; i < n; i++ {
		var kt, id string
		for try := 0; try < 5; try++ {
			if symKeysOnly {
				nm := j.symName()
				kt, id = "y "+encBytes([]byte(nm)), "y"+nm
			} else {
				kt, id = j.key(inDomainOnly)
			}
			if !seen[id] {
				break
			}
			kt = ""
		}
		if kt == "" {
			continue
		}
		seen[id] = true
		kv = append(kv, kt, j.value(depth-1, budget, symKeysOnly, inDomainOnly))
	}
	g.Count(fmt.Sprintf("hash-keys-%d", len(kv)/2))
	g.Count(fmt.Sprintf("depth-%d", depth))
	return fmt.Sprintf("h %s %d", encBytes([]byte(tn)), len(kv)/2) + func() string {
		if len(kv) == 0 {
			return ""
		}
		return " " + strings.Join(kv, " ")
	}()
}

func jsonGen(g *Gen) {
	j := jgen{g}
	all := func(v string) {
		g.Emit("enc %s", v)
		g.Emit("wf %s", v)
		g.Emit("rt %s", v)
		g.Emit("mp %s", v)
	}
	// --- exhaustive small scopes
	for b := 0; b < 256; b++ { // every single-byte string, as value, as key, as type name
		s := encBytes([]byte{byte(b)})
		all("s " + s)
		g.Emit("quote %s", s)
		g.Emit("qjs %s", s)
		g.Emit("wf h 104.97.115.104 1 s %s i 1", s)
		g.Emit("wf h %s 0", s)
		g.Count("exhaustive single-byte string")
	}
	for _, s := range append(append([]string{}, jsonSpecial...), jsonWords...) {
		e := encBytes([]byte(s))
		all("s " + e)
		all("b " + e)
		all("h 104.97.115.104 1 s " + e + " s " + e)
		all("h 104.97.115.104 2 y 97 s " + e + " y 98 a 2 s " + e + " n")
		g.Emit("quote %s", e)
		g.Emit("qjs %s", e)
		g.Emit("print s %s", e)
		g.Count("special string pool")
	}
	// every IsPrint transition point (both sides), plus the planes' corners
	prev := false
	var pts []rune
	for c := rune(0); c <= 0x110000; c++ {
		p := c < 0x110000 && strconv.IsPrint(c)
		if p != prev {
			pts = append(pts, c-1, c)
			prev = p
		}
	}
	pts = append(pts, 0xd7ff, 0xd800, 0xdfff, 0xe000, 0xfffd, 0xffff, 0x10000, 0x10ffff, 0x110000, -1, math.MaxInt32, math.MinInt32)
	step := 7
	if g.Thorough() {
		step = 1
	}
	for i, c := range pts {
		g.Emit("qrune %d", c)
		g.Count("qrune at IsPrint transition")
		if c >= 0 && c < 0x110000 && !(c >= 0xd800 && c <= 0xdfff) && i%step == 0 {
			e := encBytes([]byte(string(c)))
			g.Emit("quote %s", e)
			g.Emit("qjs %s", e)
			g.Emit("wf s %s", e)
			g.Emit("rt s %s", e)
			g.Count("string at IsPrint transition")
		}
	}
	nCp := 0x300
	if g.Thorough() {
		nCp = 0x110000
	}
	for c := 0; c < nCp; c++ {
		if c >= 0xd800 && c <= 0xdfff {
			continue
		}
		e := encBytes([]byte(string(rune(c))))
		g.Emit("qjs %s", e)
		if c < 0x3000 || c%17 == 0 {
			g.Emit("quote %s", e)
			g.Emit("wf s %s", e)
		}
		g.Count("exhaustive code point")
	}
	// boundary numbers
	for _, n := range jsonInts {
		all(fmt.Sprintf("i %d", n))
		g.Count("boundary int")
	}
	for _, f := range jsonFloats {
		all(jsonFloatTok(f, false))
		all(jsonFloatTok(f, true))
		all("h 104.97.115.104 1 y 102 " + jsonFloatTok(f, false))
		g.Count("boundary float")
	}
	for _, f := range []float64{math.NaN(), math.Inf(1), math.Inf(-1)} {
		all(jsonFloatTok(f, false))
	}
	for _, v := range []string{"n", "t", "f", "a 0", "h 104.97.115.104 0", "h 70.111.111 0", "a 1 n", "a 2 n n", "a 1 a 0", "a 1 h 104.97.115.104 0",
		"c 120", "u 1", "u 18446744073709551615", "y 97.98.99", "l 3 i 1 i 2 i 3"} {
		all(v)
		g.Emit("print %s", v)
		g.Count("fixed small values")
	}
	// every (key kind x value kind) one-entry hash, anonymous and typed
	keys := []string{"y 97", "s 97", "s 97.34.98", "s 10", "y 195.169", "s -", "i 7", "c 120", "y 65.116.121.112.101", "y 122.75.101.121.79.114.100.101.114"}
	vals := []string{"n", "t", "i -5", jsonFloatTok(2, false), jsonFloatTok(0.5, false), "s 34", "s 7", "b 97", "a 0", "a 2 i 1 s 97", "h 104.97.115.104 0", "h 80 1 y 113 n", "y 113", "c 120"}
	for _, tn := range []string{"104.97.115.104", "70.111.111"} {
		for _, k := range keys {
			for _, v := range vals {
				all(fmt.Sprintf("h %s 1 %s %s", tn, k, v))
				g.Count("exhaustive key-kind x value-kind")
			}
		}
	}
	// field order at every level: all permutations of three symbol keys, nested
	names := []string{"y 98", "y 97", "y 99"}
	perms := [][]int{{0, 1, 2}, {0, 2, 1}, {1, 0, 2}, {1, 2, 0}, {2, 0, 1}, {2, 1, 0}}
	for _, p := range perms {
		for _, q := range perms {
			inner := fmt.Sprintf("h 73 3 %s i 1 %s i 2 %s i 3", names[q[0]], names[q[1]], names[q[2]])
			all(fmt.Sprintf("h 104.97.115.104 3 %s %s %s i 2 %s a 1 %s", names[p[0]], inner, names[p[1]], names[p[2]], inner))
			g.Count("exhaustive key-order permutations")
		}
	}
	// --- random nested values
	nDom, nAny := 1500, 700
	if g.Thorough() {
		nDom, nAny = 40000, 20000
	}
	for i := 0; i < nDom; i++ {
		budget := 40
		v := j.value(1+g.Rng.Intn(5), &budget, true, true)
		all(v)
		if i%10 == 0 {
			g.Emit("print %s", v)
		}
		g.Count("random value (round-trip domain: symbol keys)")
	}
	for i := 0; i < nAny; i++ {
		budget := 40
		v := j.value(1+g.Rng.Intn(5), &budget, false, g.Rng.Intn(2) == 0)
		all(v)
		g.Emit("print %s", v)
		g.Count("random value (any keys, out-of-domain scalars allowed)")
	}
	for i := 0; i < nAny; i++ {
		s, cls := j.str()
		e := encBytes([]byte(s))
		g.Emit("quote %s", e)
		g.Emit("qjs %s", e)
		g.Count("quote " + cls)
	}
	// --- histories of encode/decode steps (ch_json_hist_gen.go)
	jsonHistGen(g)
}
