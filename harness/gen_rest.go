package main

// Generators of channels rest / bal (C04). Both channels are fed the SAME histories: `bal`
// lists what the real generator compiled for them, `rest` watches the four stacks while
// the real VM runs them.

import (
	"fmt"
	"strings"
)

// restFixed: hand-written histories (texts separated by " ;; ", forms inside a text by " @@ ").
var restFixed = []string{
	"std | (+ 1 2)",
	"std | (def a 1) @@ (defn f [b] (+ a b)) @@ (f 2)",
	"std | \\e",
}

func restEmitHist(g *Gen, mode string, texts [][]string) {
	var toks []string
	for i, forms := range texts {
		if i > 0 {
			toks = append(toks, ";;")
		}
		for _, f := range forms {
			toks = append(toks, restEnc(f))
		}
	}
	g.Emit("%s %s", mode, strings.Join(toks, " "))
}

func restParseFixed(s string) (string, [][]string) {
	parts := strings.SplitN(s, " | ", 2)
	var texts [][]string
	for _, t := range strings.Split(parts[1], " ;; ") {
		var forms []string
		for _, f := range strings.Split(t, " @@ ") {
			f = strings.TrimSpace(f)
			if f == `\e` {
				continue
			}
			forms = append(forms, f)
		}
		texts = append(texts, forms)
	}
	return parts[0], texts
}

func restGen(g *Gen) {
	for _, s := range restFixed {
		m, t := restParseFixed(s)
		restEmitHist(g, m, t)
		g.Count("fixed")
	}
	_ = fmt.Sprint
}

func balGen(g *Gen) { restGen(g) }
