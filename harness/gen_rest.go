package main

// Generators of channels rest / bal (C04). Both channels are fed the SAME histories: `bal`
// lists what the real generator compiled for them, `rest` watches the four stacks while
// the real VM runs them.
//
// Streams:
//   fixed   hand-written histories
//   ctx     every candidate form (the defect families of DESIGN §7 C04 and ordinary controls)
//           placed in every syntactic position (top level, between statements, function body,
//           call operand, array element, let binding/body, cond arm, and/or arm, loop body,
//           def value, newScope, package, infix)
//   core    type-directed programs of the core language (the generator of channel eval)
//   full    grammar-directed programs of the full surface language: struct, func, method,
//           interface, var, package, builders, macros with syntax-quote templates, range,
//           infix blocks, multiple assignment, labelled break/continue out of nested lets
//   mal     a `full` history with one token-level mutation (mostly malformed / ill-typed)
//   rep     a `full` or `ctx` history served N times by one interpreter
//   reent   re-entrancy of every scoped control construct (gen_reent.go)
//   script  (bal only) the repo's tests/*.zy, compile only

import (
	"fmt"
	"os"
	"path/filepath"
	"sort"
	"strings"
)

// restFixed: texts separated by " ;; ", forms inside a text by " @@ ".
var restFixed = []string{
	`std | (+ 1 2)`,
	`bare | (+ 1 2)`,
	`std | (def a 1) @@ (defn f [b] (+ a b)) @@ (f 2)`,
	`std | \e`,
	`bare | \e ;; \e ;; 5 ;; \e`,
	`std | 5 ;; \e ;; (undefinedfn 1) ;; \e ;; 6`,
	`std | (def a 0) @@ (for L1: [(def i 0) (< i 4) (set i (+ i 1))] (for [(def j 0) (< j 3) (set j (+ j 1))] (let [b 1] (cond (== j 1) (continue L1:) (== i 3) (break L1:) nil)) (set a (+ a 1)))) @@ a`,
	`std | (defn va [a & l] (+ a (len l))) @@ (va 1) @@ (va 1 2 3) @@ (va 1 2 3 4 5 6 7 8) @@ (list 7 (va 1 2 3 4 5 6) 8)`,
	`std | (defn vt [n & r] (cond (== n 0) (len r) (vt (- n 1) 1 2 3 4 5 6))) @@ (vt 3) @@ (vt 2 9 9 9 9 9 9 9)`,
	`std | (def n 0) @@ (for [(def i 0) (< i 3) (set i (+ i 1))] (let [x 1] (cond (begin (set n (+ n 1)) (continue)) 1 2))) @@ n`,
	`std | (for [(def i 0) (< i 3) (set i (+ i 1))] (let [x 1] (cond (break) 1 2)))`,
	`std | (def g nil) @@ (for [(def i 0) (< i 2) (set i (+ i 1))] (set g (fn [] (cond true (break) 1)))) ;; (g) ;; 5`,
	`std | (for [(def i 0) (< i 2) (set i (+ i 1))] (package "p" (def X 1) (continue)))`,
	`std | (for [(def i 0) (< i 3) (set i (+ i 1))] (let [x 1] (newScope [1 2 (cond (== i 1) (continue) 3)] ^(1 ~(cond (== i 2) (break) 2)))))`,
	`std | (defn cnt [n acc] (cond (== n 0) acc (cnt (- n 1) (+ acc 1)))) @@ (cnt 50 0)`,
	`std | (defn cntv [n & r] (cond (== n 0) (len r) (cntv (- n 1) 1 2 3))) @@ (cntv 5)`,
	`std | (defn f [x] (cond (<= x 0) 0 (let [a 1 b (f (- x 1))] (+ a b)))) ;; (f 3) ;; (list 7 (f 2))`,
	`std | (defn fa [x] (cond (<= x 0) [] [x (fa (- x 1))])) ;; (fa 2)`,
	`std | (defn f3 [x] (cond (<= x 0) 0 (begin (assert (== 0 (f3 (- x 1)))) 0))) ;; (f3 2)`,
	`std | (defn f4 [x] (cond (<= x 0) 0 (return 1 (f4 (- x 1))))) ;; (f4 2)`,
	`std | (defn f5 [x] (cond (<= x 0) 0 ^(1 ~(f5 (- x 1)) ~@(list (f5 (- x 1)))))) ;; (f5 2)`,
	`std | (defn f6 [x] (cond (<= x 0) 0 (package "p" (def Y 1) (f6 (- x 1))))) ;; (f6 2)`,
	`std | (defn f7 [x] (cond (<= x 0) 0 (letseq [a 1 b (f7 (- x 1))] (+ a b)))) ;; (f7 3)`,
	`std | (defn lz [#x p] (cond p (+ (force #x) (force #x)) 0)) @@ (lz (+ 2 3) true) @@ (lz (+ 2 3) false)`,
	`std | (defmac when2 [p & body] ^(cond ~p (begin ~@body) nil)) @@ (when2 true 1 2 3) @@ (when2 false 1)`,
	`std | (def l (list 1 2 3)) @@ ^(0 ~@l 4) @@ ^[0 ~@l 4] @@ (def q 7) @@ ^{a: ~q}`,
	`std | (struct Dog [(field Name: string e:0) (field Number: int64 e:1)]) ;; (def d (Dog Name:"Rover")) @@ d.Name ;; {d.Number = 4} @@ d.Number`,
	`std | (var x int64) ;; x`,
	`std | (func trundle [a:int64 b:string] [n:int64 err:error] (return (+ a 78) nil)) ;; (trundle a:3 b:"hi")`,
	`std | (struct Car [(field Id: int64 e:0)]) ;; (method [p: (* Car)] DriveAway [] [s:string] (return "road")) ;; (interface Drivable [(func driveIt [a:int64 b:string] [n:int64 err:error])])`,
	`std | (func fe [a:int64] [n:int64 err:error]) ;; (fe a:1) ;; (list 1 (fe a:1))`,
	`std | (func fz [a:int64] []) ;; (fz a:1) ;; (list 1 (fz a:1))`,
	`std | (def hi (package "hello" { World := "earth"; (defn Myfun [x] (concat World x)) })) ;; hi.World @@ (hi.Myfun "yes")`,
	`std | (def h (hash a:44 b:55)) @@ (def s 0) @@ (range k v h (set s (+ s v))) @@ s`,
	`std | { a := [5 1 2]; t := 0; for k, v := range a { t += v }; t }`,
	`std | { s := 0; for i := 0; i < 5; i++ { if i == 3 { continue }; s += i }; s }`,
	`std | (a b c = 1 2 3) ;; a`,
	`std | (mdef a b c (list 4 5 6)) ;; b`,
	`std | (def a [1 2 3]) ;; {a[0] = 99} ;; a`,
	`std | (def h (hash x:1)) ;; {h.x = 9} ;; h`,
	`std | (quote a b)`,
	`std | (begin) ;; (newScope) ;; (return) ;; (quote)`,
	`std | (+ 1 (cond true (begin) 2))`,
	`std | (def a (newScope)) @@ a`,
	`std | (defn f [] (begin)) ;; (list 1 (f) 3)`,
	`std | (eval (quote (+ 1 2))) @@ (eval (quote (begin)))`,
	`std | (include "$REPO/tests/inc1.g" "$REPO/tests/inc3.g") ;; (simple1)`,
	`std | (source "$REPO/tests/inc1.g" "$REPO/tests/inc3.g") ;; (source ["$REPO/tests/inc1.g" "$REPO/tests/inc3.g" "$REPO/tests/inc1.g"]) ;; (inc3)`,
	`std | (defn q [] (include "$REPO/tests/comments.zy")) ;; (list 7 (q) 8)`,
	`std | (map (fn [x] (* x x)) [1 2 3]) @@ (apply + [1 2 3])`,
	`std | (expectError "symbol ` + "`zz`" + ` not found" (zz 1))`,
	`std | (assert (== 1 1)) ;; (assert (== 1 2)) ;; 5`,
	`std | (macexpand (++ a)) @@ (infixExpand {a = 4})`,
	`std | (defn g [a] (cond (> a 0) (g 0 7) a)) ;; (list 5 (g 0))`,
	`std | (defn g2 [a b] (cond (> a 0) (g2 0) a)) ;; (list 0 (g2 1 2))`,
	`std*30 | (def a 1) @@ (defn f [b] (+ a b)) @@ (f 2) ;; (for [(def i 0) (< i 3) (set i (+ i 1))] (let [q i] (cond (== q 1) (continue) nil)))`,
	`std*30 | (struct Dog [(field Name: string e:0)]) @@ (var x int64) @@ (quote a b)`,
}

func restEmitHist(g *Gen, mode string, texts [][]string) {
	var toks []string
	for i, forms := range texts {
		if i > 0 {
			toks = append(toks, ";;")
		}
		for _, f := range forms {
			toks = append(toks, restEnc(f))
		}
	}
	g.Emit("%s %s", mode, strings.Join(toks, " "))
}

func restParseFixed(s string) (string, [][]string) {
	parts := strings.SplitN(s, " | ", 2)
	var texts [][]string
	for _, t := range strings.Split(parts[1], " ;; ") {
		var forms []string
		for _, f := range strings.Split(t, " @@ ") {
			f = strings.TrimSpace(f)
			if f == `\e` || f == "" {
				continue
			}
			forms = append(forms, f)
		}
		texts = append(texts, forms)
	}
	return parts[0], texts
}

// ---- stream ctx: candidate forms x syntactic positions

type cand struct {
	name  string
	setup []string // forms of a first text
	form  string
}

var restCands = []cand{
	{"lit", nil, `5`},
	{"call", nil, `(+ 1 2)`},
	{"let", nil, `(let [p 1] (+ p 1))`},
	{"for", nil, `(for [(def i 0) (< i 2) (set i (+ i 1))] i)`},
	{"emptybegin", nil, `(begin)`},
	{"emptynewscope", nil, `(newScope)`},
	{"emptyreturn", nil, `(return)`},
	{"emptyquote", nil, `(quote)`},
	{"quote2", nil, `(quote a b)`},
	{"quote1", nil, `(quote a)`},
	{"return2", nil, `(return 1 2)`},
	{"selassign-arr", []string{`(def av [1 2 3])`}, `{av[0] = 99}`},
	{"selassign-hash", []string{`(def hv (hash x:1))`}, `{hv.x = 9}`},
	{"selassign-sexp", []string{`(def av [1 2 3])`}, `(set (arrayidx av [0]) 9)`},
	{"multiassign", nil, `(ma mb mc = 1 2 3)`},
	{"multiassign-infix", nil, `{ma, mb = 1, 2}`},
	{"mdef", nil, `(mdef ma mb (list 4 5))`},
	{"struct", nil, `(struct Dog [(field Name: string e:0)])`},
	{"var", nil, `(var vx int64)`},
	{"func", nil, `(func fb [a:int64] [r:int64] (return a))`},
	{"func-nobody", nil, `(func fd [a:int64] [r:int64])`},
	{"func-nobody-2ret", []string{`(func fe [a:int64] [n:int64 err:error])`}, `(fe a:1)`},
	{"func-nobody-0ret", []string{`(func fz [a:int64] [])`}, `(fz a:1)`},
	{"func-0ret", []string{`(func fw [a:int64] [] (return))`}, `(fw a:1)`},
	{"method", []string{`(struct Car [(field Id: int64 e:0)])`}, `(method [p: (* Car)] Drive [] [s:string] (return "x"))`},
	{"interface", nil, `(interface Drv [(func driveIt [a:int64] [n:int64])])`},
	{"package", nil, `(package "pk" (def X 1) (defn F [a] (+ a X)))`},
	{"defn", nil, `(defn dz [a] a)`},
	{"defmac", nil, `(defmac mz [a] ^(+ ~a 1))`},
	{"sq-list", []string{`(def ql (list 1 2))`}, `^(0 ~@ql 3)`},
	{"sq-arr", []string{`(def ql (list 1 2))`}, `^[0 ~@ql 3]`},
	{"sq-empty-splice", nil, `^(1 ~@(list) 3)`},
	{"infix", nil, `{1 + 2 * 3}`},
	{"infix-empty", nil, `{}`},
	{"infix-if", nil, `{if 1 < 2 { 3 } else { 4 }}`},
	{"infix-for", nil, `{s := 0; for i := 0; i < 3; i++ { s += i }; s}`},
	{"range", []string{`(def rh (hash a:1 b:2))`, `(def rs 0)`}, `(range k v rh (set rs (+ rs v)))`},
	{"assert", nil, `(assert (== 1 1))`},
	{"expecterror", nil, `(expectError "symbol ` + "`zq`" + ` not found" (zq 1))`},
	{"macexpand", nil, `(macexpand (++ a))`},
	{"eval", nil, `(eval (quote (+ 1 2)))`},
	{"eval-empty", nil, `(eval (quote (begin)))`},
	{"and0", nil, `(and)`},
	{"tailcall-arity", []string{`(defn tg [a] (cond (> a 0) (tg 0 7) a))`}, `(tg 0)`},
	{"tailcall-few", []string{`(defn th [a b] (cond (> a 0) (th 0) a))`}, `(th 1 2)`},
	{"comment", nil, `/* c */`},
	{"ls", nil, `(_ls)`},
}

// positions: %s is the candidate form
var restCtxs = []struct {
	name  string
	forms []string
}{
	{"top", []string{`%s`}},
	{"between", []string{`1`, `%s`, `2`}},
	{"body", []string{`(defn zf [] %s)`, `(zf)`}},
	{"operand", []string{`(list 7 %s 8)`}},
	{"body-operand", []string{`(defn zf [] %s)`, `(list 7 (zf) 8)`}},
	{"array", []string{`[7 %s 8]`}},
	{"letbind", []string{`(let [zq %s] 5)`}},
	{"letbody", []string{`(let [zq 1] %s)`}},
	{"letbody2", []string{`(let [zq 1] %s zq)`}},
	{"condarm", []string{`(cond true %s 2)`}},
	{"condarm-operand", []string{`(+ 1 (cond false 1 %s))`}},
	{"and", []string{`(and true %s)`}},
	{"and-first", []string{`(and %s true)`}},
	{"or", []string{`(or false %s)`}},
	{"loopbody", []string{`(for [(def zi 0) (< zi 2) (set zi (+ zi 1))] %s)`}},
	{"loopinit", []string{`(for [%s false nil] 1)`}},
	{"begin-first", []string{`(begin %s 5)`}},
	{"begin-last", []string{`(begin 5 %s)`}},
	{"def", []string{`(def zv %s)`, `zv`}},
	{"newscope", []string{`(newScope %s)`}},
	{"newscope-first", []string{`(newScope %s 1)`}},
	{"userarg", []string{`(defn zid [x] x)`, `(zid %s)`}},
	{"fnbody-tail", []string{`(defn zt [n] (cond (== n 0) %s (zt (- n 1))))`, `(zt 2)`}},
	{"closure", []string{`((fn [] %s))`}},
	{"package", []string{`(package "zp" %s)`}},
	{"infix-rhs", []string{`{zw = %s}`}},
	{"map", []string{`(map (fn [x] %s) [1 2])`}},
	{"sq-unquote", []string{`^(1 ~%s 2)`}},
	{"return", []string{`(defn zr [] (return %s))`, `(list 1 (zr))`}},
}

func restCtxStream(g *Gen, emit func(mode string, texts [][]string, tag string)) {
	for _, c := range restCands {
		for _, x := range restCtxs {
			var forms []string
			for _, f := range x.forms {
				forms = append(forms, strings.ReplaceAll(f, "%s", c.form))
			}
			var texts [][]string
			if len(c.setup) > 0 {
				texts = append(texts, c.setup)
			}
			texts = append(texts, forms)
			emit("std", texts, "ctx")
			g.Count("ctx form " + c.name)
			g.Count("ctx position " + x.name)
		}
	}
}

// ---- stream full: grammar-directed programs of the full surface language

type rg struct {
	g            *Gen
	ints         []string       // int variables bound at top level
	arrs         []string       // arrays of ints
	hashes       []string       // hashes with keys a: b:
	fns          map[string]int // defn name -> arity
	vfns         []string       // variadic defns (one fixed parameter)
	macs         map[string]int // macro name -> arity (expands to an int expression)
	smacs        []string       // statement macros (variadic body)
	structs      []string       // declared struct types with fields X int64, S string
	insts        []string       // instances of structs
	funcs        []string       // func-builder functions of two int64 parameters a, b
	pkgs         []string       // packages with member X (int) and F (one-arg function)
	lazies       []string       // defns with one lazy parameter
	locals       []string       // int locals in scope
	ro           []string       // loop counters: readable, never assigned (loops must end)
	labels       []string       // labels of enclosing loops, innermost last ("" = unlabelled)
	scopesInLoop int
	uniq         int
	budget       int
	self         string // stream reent: the function being defined may call itself …
	selfArity    int    // … with this many arguments, the first one `(- x 1)` guarded by `(> x 0)` (x is read-only)
}

func (r *rg) rnd(n int) int           { return r.g.Rng.Intn(n) }
func (r *rg) pick(xs []string) string { return xs[r.rnd(len(xs))] }
func (r *rg) fresh(p string) string   { r.uniq++; return fmt.Sprintf("%s%d", p, r.uniq) }
func keys(m map[string]int) []string {
	ks := make([]string, 0, len(m))
	for k := range m {
		ks = append(ks, k)
	}
	sort.Strings(ks)
	return ks
}

func (r *rg) intVar() (string, bool) {
	all := append(append(append([]string{}, r.ints...), r.locals...), r.ro...)
	if len(all) == 0 {
		return "", false
	}
	return r.pick(all), true
}

// asgVar: a variable that may be assigned
func (r *rg) asgVar() (string, bool) {
	all := append(append([]string{}, r.ints...), r.locals...)
	if len(all) == 0 {
		return "", false
	}
	return r.pick(all), true
}

func (r *rg) lit() string {
	return fmt.Sprint([]int{0, 1, 2, 3, 5, 7, -1, 10, 100}[r.rnd(9)])
}

// ie: an expression that evaluates to an int (when everything it uses is bound)
func (r *rg) ie(d int) string {
	r.budget--
	if d <= 0 || r.budget <= 0 {
		if v, ok := r.intVar(); ok && r.rnd(2) == 0 {
			return v
		}
		return r.lit()
	}
	if r.self != "" && r.rnd(6) == 0 {
		return r.selfCall(d)
	}
	for try := 0; try < 8; try++ {
		switch r.rnd(34) {
		case 0, 1:
			return r.lit()
		case 2, 3:
			if v, ok := r.intVar(); ok {
				return v
			}
		case 4, 5:
			return fmt.Sprintf("(%s %s %s)", r.pick([]string{"+", "-", "*"}), r.ie(d-1), r.ie(d-1))
		case 6:
			return fmt.Sprintf("(cond %s %s %s)", r.be(d-1), r.ie(d-1), r.ie(d-1))
		case 7:
			return fmt.Sprintf("(cond %s %s %s %s %s)", r.be(d-1), r.ie(d-1), r.be(d-1), r.ie(d-1), r.ie(d-1))
		case 8:
			x := r.fresh("p")
			init := r.ie(d - 1)
			r.locals = append(r.locals, x)
			r.scopesInLoop++
			body := r.body(d - 1)
			r.scopesInLoop--
			r.locals = r.locals[:len(r.locals)-1]
			return fmt.Sprintf("(%s [%s %s] %s)", r.pick([]string{"let", "letseq"}), x, init, body)
		case 9:
			x, y := r.fresh("p"), r.fresh("p")
			i1, i2 := r.ie(d-1), r.ie(d-1)
			r.locals = append(r.locals, x, y)
			r.scopesInLoop++
			body := r.body(d - 1)
			r.scopesInLoop--
			r.locals = r.locals[:len(r.locals)-2]
			return fmt.Sprintf("(let [%s %s %s %s] %s)", x, i1, y, i2, body)
		case 10:
			return fmt.Sprintf("(begin %s)", r.body(d-1))
		case 11:
			r.scopesInLoop++
			b := r.body(d - 1)
			r.scopesInLoop--
			return fmt.Sprintf("(newScope %s)", b)
		case 12:
			if len(r.fns) > 0 {
				f := r.pick(keys(r.fns))
				args := make([]string, r.fns[f])
				for i := range args {
					args[i] = r.ie(d - 1)
				}
				return fmt.Sprintf("(%s %s)", f, strings.Join(args, " "))
			}
		case 13:
			if len(r.vfns) > 0 {
				n := 1 + r.rnd(7) // up to six operands for the rest parameter
				args := make([]string, n)
				for i := range args {
					args[i] = r.ie(d - 1)
				}
				return fmt.Sprintf("(%s %s)", r.pick(r.vfns), strings.Join(args, " "))
			}
		case 14:
			p := r.fresh("p")
			a := r.ie(d - 1)
			r.locals = append(r.locals, p)
			save := r.labels
			r.labels = nil // a new function: loops outside are out of reach
			b := r.ie(d - 1)
			r.labels = save
			r.locals = r.locals[:len(r.locals)-1]
			return fmt.Sprintf("((fn [%s] %s) %s)", p, b, a)
		case 15:
			return fmt.Sprintf("{%s %s %s}", r.ie(d-1), r.pick([]string{"+", "-", "*"}), r.ie(d-1))
		case 16:
			if len(r.macs) > 0 {
				m := r.pick(keys(r.macs))
				args := make([]string, r.macs[m])
				for i := range args {
					args[i] = macroArg(r.ie(d - 1))
				}
				return fmt.Sprintf("(%s %s)", m, strings.Join(args, " "))
			}
		case 17:
			if len(r.insts) > 0 {
				s := r.pick(r.insts)
				return r.pick([]string{s + ".X", "(:X " + s + ")"})
			}
		case 18:
			if len(r.hashes) > 0 {
				h := r.pick(r.hashes)
				return r.pick([]string{"(hget " + h + " a:)", h + ".b", "(:a " + h + ")"})
			}
		case 19:
			if len(r.arrs) > 0 {
				v := r.pick(r.arrs)
				return r.pick([]string{"(aget " + v + " 0)", "{" + v + "[1]}", "(len " + v + ")", "(first " + v + ")"})
			}
		case 20, 21:
			return r.loopSum(d - 1)
		case 22:
			if len(r.ints) > 0 {
				return fmt.Sprintf("(%s %s %s)", r.pick([]string{"def", "set"}), r.pick(r.ints), r.ie(d-1))
			}
		case 23:
			if len(r.pkgs) > 0 {
				p := r.pick(r.pkgs)
				if r.rnd(2) == 0 {
					return p + ".X"
				}
				return fmt.Sprintf("(%s.F %s)", p, r.ie(d-1))
			}
		case 24:
			if len(r.funcs) > 0 {
				return fmt.Sprintf("(%s a:%s b:%s)", r.pick(r.funcs), r.ie(d-1), r.ie(d-1))
			}
		case 25:
			return fmt.Sprintf("(eval (quote %s))", r.closedIe(d-1))
		case 26:
			if len(r.lazies) > 0 {
				return fmt.Sprintf("(%s %s)", r.pick(r.lazies), r.ie(d-1))
			}
		case 27:
			return fmt.Sprintf("(apply + [%s %s])", r.ie(d-1), r.ie(d-1))
		case 28:
			return fmt.Sprintf("(first (map (fn [q] (+ q %s)) [%s %s]))", r.closedIe(d-1), r.ie(d-1), r.ie(d-1))
		case 29:
			return fmt.Sprintf("(len ^(%s ~@(list %s %s) ~%s))", r.lit(), r.ie(d-1), r.ie(d-1), r.ie(d-1))
		case 30:
			return fmt.Sprintf("(aget ^[%s ~%s ~@[%s]] 1)", r.lit(), r.ie(d-1), r.ie(d-1))
		case 31:
			return fmt.Sprintf("{if %s { %s } else { %s }}", r.infixBool(d-1), r.ie(d-1), r.ie(d-1))
		case 32:
			return fmt.Sprintf("(or false %s)", r.ie(d-1))
		case 33:
			return fmt.Sprintf("(aget (return %s %s) 1)", r.ie(d-1), r.ie(d-1))
		}
	}
	return r.lit()
}

// selfCall: a guarded call of the function being defined (stream reent): direct, through a
// closure, through map / apply, as a let initialiser (never a tail call) or bare (a tail call
// when it ends the body)
func (r *rg) selfCall(d int) string {
	args := "(- x 1)"
	for i := 1; i < r.selfArity; i++ {
		args += " " + r.ie(d-2)
	}
	var call string
	switch r.rnd(7) {
	case 0:
		call = fmt.Sprintf("((fn [m] (%s m%s)) (- x 1))", r.self, strings.Repeat(" 0", r.selfArity-1))
	case 1:
		call = fmt.Sprintf("(first (map (fn [m] (%s m%s)) [(- x 1)]))", r.self, strings.Repeat(" 1", r.selfArity-1))
	case 2:
		call = fmt.Sprintf("(apply %s [(- x 1)%s])", r.self, strings.Repeat(" 2", r.selfArity-1))
	case 3:
		call = fmt.Sprintf("(let [%s (%s %s)] (+ 1 %s))", "sv", r.self, args, "sv")
	default:
		call = fmt.Sprintf("(%s %s)", r.self, args)
	}
	return fmt.Sprintf("(cond (> x 0) %s %s)", call, r.lit())
}

// macroArg: a BARE dotted symbol (h.b, s1.X, pa.X) handed to a macro is dereferenced when the
// macro is applied, i.e. while the text is being compiled: in a text that also defines h the
// expansion fails as a whole ("symbol `h` not found") and succeeds form by form. That is the
// phase order of macros (expanded when the whole text is compiled), not something an
// evaluation left behind; the generator does not put a bare dotted symbol in that position.
func macroArg(a string) string {
	if i := strings.IndexByte(a, '.'); i > 0 && !strings.ContainsAny(a, "() []{}\"") {
		return "(+ 0 " + a + ")"
	}
	return a
}

// closedIe: an int expression over globals only (evaluated in another function's context)
func (r *rg) closedIe(d int) string {
	save, sl, sr, ss := r.locals, r.labels, r.ro, r.self
	r.locals, r.labels, r.ro, r.self = nil, nil, nil, ""
	s := r.ie(d)
	r.locals, r.labels, r.ro, r.self = save, sl, sr, ss
	return s
}

func (r *rg) be(d int) string {
	switch r.rnd(7) {
	case 0:
		return r.pick([]string{"true", "false"})
	case 1:
		return fmt.Sprintf("(and %s %s)", r.be(d-1), r.be(d-1))
	case 2:
		return fmt.Sprintf("(or %s %s %s)", r.be(d-1), r.be(d-1), r.be(d-1))
	case 3:
		return fmt.Sprintf("(not %s)", r.be(d-1))
	}
	if d <= 0 {
		return r.pick([]string{"true", "false"})
	}
	return fmt.Sprintf("(%s %s %s)", r.pick([]string{"<", ">", "==", "<=", "!="}), r.ie(d-1), r.ie(d-1))
}

func (r *rg) infixBool(d int) string {
	return fmt.Sprintf("%s %s %s", r.infixAtom(d), r.pick([]string{"<", ">", "=="}), r.infixAtom(d))
}

func (r *rg) infixAtom(d int) string {
	if v, ok := r.intVar(); ok && r.rnd(2) == 0 {
		return v
	}
	if d > 0 && r.rnd(3) == 0 {
		return r.ie(d - 1) // an s-expression inside infix
	}
	return fmt.Sprint(r.rnd(9))
}

// body: zero or more statements followed by an int expression
func (r *rg) body(d int) string {
	var parts []string
	for i := r.rnd(3); i > 0; i-- {
		parts = append(parts, r.st(d))
	}
	parts = append(parts, r.ie(d))
	return strings.Join(parts, " ")
}

// loopSum: (let [acc 0] (for … statements, break/continue …) acc)
func (r *rg) loopSum(d int) string {
	acc, i := r.fresh("acc"), r.fresh("i")
	label := ""
	if r.rnd(3) == 0 {
		label = r.fresh("L")
	}
	r.locals = append(r.locals, acc)
	saveScopes := r.scopesInLoop
	r.scopesInLoop = 0
	r.labels = append(r.labels, label)
	r.ro = append(r.ro, i)
	var stmts []string
	for n := 1 + r.rnd(3); n > 0; n-- {
		stmts = append(stmts, r.st(d))
	}
	stmts = append(stmts, fmt.Sprintf("(set %s (+ %s %s))", acc, acc, i))
	r.ro = r.ro[:len(r.ro)-1]
	r.labels = r.labels[:len(r.labels)-1]
	r.scopesInLoop = saveScopes
	hd := "for"
	if label != "" {
		hd = "for " + label + ":"
	}
	incr := r.pick([]string{fmt.Sprintf("(set %s (+ %s 1))", i, i), fmt.Sprintf("(def %s (+ %s 1))", i, i), fmt.Sprintf("(++ %s)", i)})
	loop := fmt.Sprintf("(%s [(def %s 0) (< %s %d) %s] %s)", hd, i, i, 2+r.rnd(3), incr, strings.Join(stmts, " "))
	r.locals = r.locals[:len(r.locals)-1]
	return fmt.Sprintf("(let [%s 0] %s %s)", acc, loop, acc)
}

// st: a statement (its value is discarded)
func (r *rg) st(d int) string {
	r.budget--
	if d <= 0 || r.budget <= 0 {
		return r.lit()
	}
	for try := 0; try < 8; try++ {
		switch r.rnd(24) {
		case 0, 1:
			if v, ok := r.asgVar(); ok {
				return fmt.Sprintf("(set %s %s)", v, r.ie(d-1))
			}
		case 2:
			if v, ok := r.asgVar(); ok {
				return r.pick([]string{"{" + v + " = " + r.infixAtom(d) + " + 1}", "{" + v + "++}", "{" + v + " += 2}", "(++ " + v + ")", "(+= " + v + " 3)"})
			}
		case 3, 4, 5:
			if len(r.labels) > 0 {
				// leave or restart an enclosing loop, from inside whatever scopes are open
				l := r.labels[r.rnd(len(r.labels))]
				op := r.pick([]string{"break", "continue"})
				tgt := "(" + op + ")"
				if l != "" {
					tgt = "(" + op + " " + l + ":)"
				} else if r.labels[len(r.labels)-1] != "" && r.rnd(2) == 0 {
					continue
				}
				switch r.rnd(11) {
				case 4:
					// in the test of a cond arm, inside a let
					return fmt.Sprintf("(let [%s 1] (cond (and %s %s) 1 2))", r.fresh("p"), r.be(d-1), tgt)
				case 5:
					return fmt.Sprintf("(cond (begin 1 (cond %s %s nil) false) 1 2)", r.be(d-1), tgt)
				case 6:
					// with operands of an array literal and a template already on the stack
					return fmt.Sprintf("(newScope [1 2 (cond %s %s 3)])", r.be(d-1), tgt)
				case 7:
					return fmt.Sprintf("(let [%s 1] ^(1 ~(cond %s %s 2) ~@(list 3 4)))", r.fresh("p"), r.be(d-1), tgt)
				case 8:
					return fmt.Sprintf("(letseq [%s 1 %s (cond %s %s 2)] 5)", r.fresh("p"), r.fresh("p"), r.be(d-1), tgt)
				case 9:
					return fmt.Sprintf("(or false (let [%s 1] (or %s (and %s %s))) 1)", r.fresh("p"), r.be(d-1), r.be(d-1), tgt)
				case 3:
					return fmt.Sprintf("(package \"pz\" (def Y 1) (cond %s %s nil))", r.be(d-1), tgt)
				case 0:
					return fmt.Sprintf("(cond %s %s nil)", r.be(d-1), tgt)
				case 1:
					x := r.fresh("p")
					return fmt.Sprintf("(let [%s %s] (cond %s %s nil))", x, r.ie(d-1), r.be(d-1), tgt)
				case 2:
					return fmt.Sprintf("(newScope (let [%s 1] (cond %s (begin 1 %s) nil)))", r.fresh("p"), r.be(d-1), tgt)
				default:
					return fmt.Sprintf("(and %s %s)", r.be(d-1), tgt)
				}
			}
		case 6:
			return r.loopSum(d - 1)
		case 7:
			if len(r.arrs) > 0 {
				return fmt.Sprintf("{%s[%d] = %s}", r.pick(r.arrs), r.rnd(2), r.infixAtom(d))
			}
		case 8:
			if len(r.hashes) > 0 {
				h := r.pick(r.hashes)
				return r.pick([]string{fmt.Sprintf("{%s.a = %s}", h, r.infixAtom(d)), fmt.Sprintf("(hset %s b: %s)", h, r.ie(d-1))})
			}
		case 9:
			if len(r.insts) > 0 {
				return fmt.Sprintf("{%s.X = %s}", r.pick(r.insts), r.infixAtom(d))
			}
		case 10:
			if len(r.ints) >= 2 {
				return fmt.Sprintf("(%s %s = %s %s)", r.ints[0], r.ints[1], r.ie(d-1), r.ie(d-1))
			}
		case 11:
			if len(r.ints) >= 2 {
				return fmt.Sprintf("(mdef %s %s (list %s %s))", r.ints[0], r.ints[1], r.ie(d-1), r.ie(d-1))
			}
		case 12:
			return fmt.Sprintf("(assert (== %s %s))", "1", "1")
		case 13:
			if len(r.hashes) > 0 && len(r.ints) > 0 {
				k, v := r.fresh("k"), r.fresh("v")
				return fmt.Sprintf("(range %s %s %s (set %s (+ %s %s)))", k, v, r.pick(r.hashes), r.ints[0], r.ints[0], v)
			}
		case 14:
			if len(r.arrs) > 0 && len(r.ints) > 0 {
				return fmt.Sprintf("{for %s, %s := range %s { %s += %s }}", r.fresh("k"), "rv", r.pick(r.arrs), r.ints[0], "rv")
			}
		case 15:
			if len(r.ints) > 0 {
				v := r.ints[0]
				return fmt.Sprintf("{for %s := 0; %s < 3; %s++ { if %s == 1 { %s }; %s += %s }}", "fi", "fi", "fi", "fi", r.pick([]string{"continue", "break"}), v, "fi")
			}
		case 16:
			if len(r.smacs) > 0 {
				return fmt.Sprintf("(%s %s %s %s)", r.pick(r.smacs), r.be(d-1), macroArg(r.st(d-1)), macroArg(r.st(d-1)))
			}
		case 17:
			return fmt.Sprintf("(cond %s %s %s)", r.be(d-1), r.st(d-1), r.st(d-1))
		case 18:
			return fmt.Sprintf("(expectError \"symbol `zq9` not found\" (zq9 %s))", r.ie(d-1))
		case 19:
			if len(r.ints) > 0 {
				return fmt.Sprintf("{if %s { %s = 1 } else { %s = 2 }}", r.infixBool(d-1), r.ints[0], r.ints[0])
			}
		default:
			return r.ie(d - 1)
		}
	}
	return r.ie(d - 1)
}

// decl: a top-level declaration; registers what it defines
func (r *rg) decl() string {
	for {
		switch r.rnd(16) {
		case 0, 1:
			v := r.pick([]string{"a", "b", "c"})
			s := fmt.Sprintf("(def %s %s)", v, r.ie(2))
			r.addInt(v)
			return s
		case 2:
			v := r.pick([]string{"v", "w"})
			s := fmt.Sprintf("(def %s [%s %s %s])", v, r.ie(1), r.ie(1), r.ie(1))
			r.arrs = addUniq(r.arrs, v)
			return s
		case 3:
			h := r.pick([]string{"h", "hh"})
			form := r.pick([]string{"(def %s (hash a:%s b:%s))", "(def %s {a:%s b:%s})"})
			s := fmt.Sprintf(form, h, r.lit(), r.lit())
			r.hashes = addUniq(r.hashes, h)
			return s
		case 4, 5:
			// defn: plain, recursive in tail position, recursive in non-tail position
			f := r.pick([]string{"f", "g", "k"})
			n := 1 + r.rnd(2)
			ps := []string{"x", "y"}[:n]
			save, sl := r.locals, r.labels
			r.locals, r.labels = append([]string{}, ps...), nil
			var s string
			switch r.rnd(5) {
			case 0:
				rec := "(- x 1)"
				if n == 2 {
					rec += " " + r.ie(1)
				}
				s = fmt.Sprintf("(defn %s [%s] (cond (<= x 0) %s (%s %s)))", f, strings.Join(ps, " "), r.ie(2), f, rec)
			case 1:
				rec := "(- x 1)"
				if n == 2 {
					rec += " y"
				}
				s = fmt.Sprintf("(defn %s [%s] (cond (<= x 0) %s (let [t (%s %s)] (+ t 1))))", f, strings.Join(ps, " "), r.ie(1), f, rec)
			case 2:
				rec := "(- x 1)"
				if n == 2 {
					rec += " y"
				}
				// tail call out of nested scopes
				s = fmt.Sprintf("(defn %s [%s] (let [u x] (newScope (cond (<= u 0) %s (%s %s)))))", f, strings.Join(ps, " "), r.ie(1), f, rec)
			case 3:
				// self calls in positions that are not tail positions although the enclosing form is
				rec := "(- x 1)"
				if n == 2 {
					rec += " y"
				}
				call := fmt.Sprintf("(%s %s)", f, rec)
				shape := r.pick([]string{
					"(let [u 1 t %s] (+ t u))", "(letseq [u 1 t %s] (+ t u))", "(first [%s 1])", "(aget [1 %s] 1)",
					"(begin (assert (== %s %s)) 1)", "(aget (return 1 %s) 1)", "(len ^(1 ~%s))", "(len ^[1 ~@(list %s)])",
					"(begin (package \"pq\" (def Y 1) %s) 2)"})
				shape = strings.ReplaceAll(shape, "%s", call)
				s = fmt.Sprintf("(defn %s [%s] (cond (<= x 0) %s %s))", f, strings.Join(ps, " "), r.ie(1), shape)
			default:
				s = fmt.Sprintf("(defn %s [%s] %s)", f, strings.Join(ps, " "), r.body(3))
			}
			r.locals, r.labels = save, sl
			r.fns[f] = n
			return s
		case 6:
			f := r.pick([]string{"vf", "vg"})
			save, sl := r.locals, r.labels
			r.locals, r.labels = []string{"x"}, nil
			s := fmt.Sprintf("(defn %s [x & r] (cond (<= x 0) (+ (len r) %s) (%s (- x 1) 1 2)))", f, r.ie(1), f)
			r.locals, r.labels = save, sl
			r.vfns = addUniq(r.vfns, f)
			return s
		case 7:
			// a fresh name every time: macros are registered when a text is COMPILED, so
			// re-defining one inside a text makes "as a whole" and "form by form" differ for
			// reasons that have nothing to do with what an evaluation leaves behind
			m := r.fresh("mac")
			n := 1 + r.rnd(2)
			var s string
			if n == 1 {
				s = fmt.Sprintf("(defmac %s [p] ^(%s ~p %s))", m, r.pick([]string{"+", "*"}), r.lit())
			} else {
				s = r.pick([]string{
					"(defmac %s [p q] ^(let [t ~p] (+ t ~q)))",
					"(defmac %s [p q] ^(cond (< ~p ~q) ~p ~q))",
					"(defmac %s [p q] ^(len [~p ~q ~@(list ~p)]))",
					"(defmac %s [p q] ^(begin ~p ~q))"})
				s = fmt.Sprintf(s, m)
			}
			r.macs[m] = n
			return s
		case 8:
			m := r.fresh("when")
			s := fmt.Sprintf("(defmac %s [c & body] ^(cond ~c (begin ~@body) nil))", m)
			r.smacs = addUniq(r.smacs, m)
			return s
		case 9:
			t := r.pick([]string{"Sa", "Sb"})
			s := fmt.Sprintf("(struct %s [(field X: int64 e:0) (field S: string e:1)])", t)
			r.structs = addUniq(r.structs, t)
			return s
		case 10:
			if len(r.structs) > 0 {
				i := r.pick([]string{"s1", "s2"})
				s := fmt.Sprintf("(def %s (%s X:%s))", i, r.pick(r.structs), r.lit())
				r.insts = addUniq(r.insts, i)
				return s
			}
		case 11:
			f := r.pick([]string{"fa", "fb"})
			save, sl := r.locals, r.labels
			r.locals, r.labels = []string{"a", "b"}, nil
			s := fmt.Sprintf("(func %s [a:int64 b:int64] [r:int64] %s (return %s))", f, r.st(2), r.ie(2))
			r.locals, r.labels = save, sl
			r.funcs = addUniq(r.funcs, f)
			return s
		case 12:
			if len(r.structs) > 0 {
				return fmt.Sprintf("(method [p: (* %s)] %s [a:int64] [r:int64] (return (+ a 1)))", r.pick(r.structs), r.pick([]string{"Ma", "Mb"}))
			}
		case 13:
			return r.pick([]string{
				"(interface Ia [(func Ma [a:int64] [r:int64])])",
				"(var q1 int64)", "(var q2 string)",
			})
		case 14:
			p := r.pick([]string{"pa", "pb"})
			var s string
			if r.rnd(2) == 0 {
				s = fmt.Sprintf("(def %s (package \"%s\" { X := %s; (defn F [n] (+ n X)) }))", p, p, r.lit())
			} else {
				s = fmt.Sprintf("(def %s (package \"%s\" (def X %s) (def y 2) (defn F [n] (+ n (+ X y)))))", p, p, r.lit())
			}
			r.pkgs = addUniq(r.pkgs, p)
			return s
		case 15:
			f := r.pick([]string{"lz1", "lz2"})
			s := fmt.Sprintf("(defn %s [#t] %s)", f, r.pick([]string{"(+ (force #t) (force #t))", "(cond false (force #t) 0)", "(let [u (force #t)] u)"}))
			r.lazies = addUniq(r.lazies, f)
			return s
		}
	}
}

func addUniq(xs []string, x string) []string {
	for _, y := range xs {
		if y == x {
			return xs
		}
	}
	return append(xs, x)
}

func (r *rg) addInt(v string) { r.ints = addUniq(r.ints, v) }

// history: a few texts of a few forms
func (r *rg) history() [][]string {
	var texts [][]string
	nt := 1 + r.rnd(4)
	for t := 0; t < nt; t++ {
		var forms []string
		nf := 1 + r.rnd(5)
		for i := 0; i < nf; i++ {
			r.budget = 25 + r.rnd(40)
			switch {
			case t == 0 && i < 2, r.rnd(3) == 0:
				forms = append(forms, r.decl())
			case r.rnd(3) == 0:
				forms = append(forms, r.st(3+r.rnd(2)))
			default:
				forms = append(forms, r.ie(3+r.rnd(2)))
			}
		}
		texts = append(texts, forms)
	}
	return texts
}

func newRg(g *Gen) *rg { return &rg{g: g, fns: map[string]int{}, macs: map[string]int{}} }

// ---- token-level mutation

func restTokens(s string) []string {
	var out []string
	cur := ""
	flush := func() {
		if cur != "" {
			out = append(out, cur)
			cur = ""
		}
	}
	for _, c := range s {
		switch c {
		case '(', ')', '[', ']', '{', '}', ' ':
			flush()
			out = append(out, string(c))
		default:
			cur += string(c)
		}
	}
	flush()
	return out
}

func (r *rg) mutate(form string) (string, string) {
	toks := restTokens(form)
	var idx []int
	for i, t := range toks {
		if t != " " {
			idx = append(idx, i)
		}
	}
	if len(idx) == 0 {
		return form, "none"
	}
	i := idx[r.rnd(len(idx))]
	kind := ""
	switch r.rnd(6) {
	case 0:
		kind = "drop"
		toks[i] = ""
	case 1:
		kind = "undefined-symbol"
		toks[i] = "zzundef"
	case 2:
		kind = "empty-begin"
		toks[i] = "(begin)"
	case 3:
		kind = "dup"
		toks[i] = toks[i] + " " + toks[i]
	case 4:
		kind = "nil"
		toks[i] = "nil"
	default:
		kind = "string"
		toks[i] = `"s"`
	}
	return strings.Join(toks, ""), kind
}

// ---- emit

func restStreams(g *Gen, emit func(mode string, texts [][]string, tag string)) {
	for _, s := range restFixed {
		m, t := restParseFixed(s)
		emit(m, t, "fixed")
	}
	restCtxStream(g, emit)
	nCore, nFull, nMal, nRep := 250, 700, 300, 40
	if g.Thorough() {
		nCore, nFull, nMal, nRep = 8000, 36000, 12000, 900
	}
	for i := 0; i < nCore; i++ {
		e := &evg{g: g}
		e.push()
		defined := map[string]bool{}
		var texts [][]string
		for t, nt := 0, 1+g.Rng.Intn(3); t < nt; t++ {
			var forms []string
			for _, f := range e.program(defined) {
				var sb strings.Builder
				f.render(&sb, nil)
				forms = append(forms, strings.ReplaceAll(sb.String(), "~", " "))
			}
			texts = append(texts, forms)
		}
		emit(map[bool]string{true: "bare", false: "std"}[g.Rng.Intn(2) == 0], texts, "core")
	}
	for i := 0; i < nFull+nMal+nRep; i++ {
		r := newRg(g)
		texts := r.history()
		tag, mode := "full", "std"
		if i >= nFull && i < nFull+nMal {
			tag = "mal"
			t := g.Rng.Intn(len(texts))
			f := g.Rng.Intn(len(texts[t]))
			var kind string
			texts[t][f], kind = r.mutate(texts[t][f])
			g.Count("mal " + kind)
		} else if i >= nFull+nMal {
			tag = "rep"
			mode = fmt.Sprintf("std*%d", []int{5, 20, 50}[g.Rng.Intn(3)])
			if g.Thorough() && g.Rng.Intn(10) == 0 {
				mode = "std*200"
			}
		}
		nforms := 0
		for _, t := range texts {
			nforms += len(t)
		}
		g.Count(fmt.Sprintf("%s texts %d", tag, len(texts)))
		g.Count(fmt.Sprintf("%s forms<=%d", tag, (nforms/4+1)*4))
		emit(mode, texts, tag)
	}
	reentStream(g, emit)
}

func restGen(g *Gen) {
	restStreams(g, func(mode string, texts [][]string, tag string) {
		restEmitHist(g, mode, texts)
		g.Count("stream " + tag)
	})
}

func balGen(g *Gen) {
	g.Emit("std+base")
	g.Count("stream baseline")
	restStreams(g, func(mode string, texts [][]string, tag string) {
		if i := strings.IndexByte(mode, '*'); i >= 0 {
			mode = mode[:i]
		}
		restEmitHist(g, mode, texts)
		g.Count("stream " + tag)
	})
	// the repo's own scripts, compile only
	files, _ := filepath.Glob(filepath.Join(repoDir(), "tests", "*.zy"))
	sort.Strings(files)
	for _, f := range files {
		if _, err := os.Stat(f); err == nil {
			g.Emit("script tests/%s", filepath.Base(f))
			g.Count("stream script")
		}
	}
}
