package main

import (
	"reflect"

	"github.com/glycerine/zygomys/v9/zygo"
)

// Channel togo (C10): the deeper and wider part of the Go-side type universe, and the harness
// methods used by history ops (ch_togo_hist.go). Everything here lives in the harness, not in /repo.
//
// Shapes (embedding depth = number of anonymous struct fields on the way to a field):
//
//	VD0 > VD1 > VD2 > VD3 > VD4      depth 0…4, several fields of different kinds at EVERY level,
//	                                 the embedded field is not always field number 0, registered
//	                                 (vd0 vd2 vd4) and unregistered (VD1 VD3) levels alternate,
//	                                 pointer / interface / slice / map / []byte fields inside embedded levels,
//	                                 a json tag of the deepest level shadowed at the top (`hi`)
//	VWide{VWA; …; VWB; …}            two embedded siblings with a common tag (`sh`: the later one wins),
//	                                 slices of structs by value and by pointer, a by-value struct field
//	                                 with its own embedding chain (VD2), a pointer to the depth-4 chain,
//	                                 map[string]interface, interface{}
//	VPE{*VLeaf; …}                   an embedded POINTER: a field like any other, key `VLeaf` (fix C10-06)

type VD4 struct {
	Lo int64   `json:"lo"`
	Hi int64   `json:"hi"`
	Nm string  `json:"nm"`
	Ok bool    `json:"ok"`
	F4 float64 // no tag: key F4 / f4
}

type VD3 struct {
	VD4
	U3 string `json:"u3"`
	N3 int32  `json:"n3"`
	L3 *VLeaf `json:"l3"`
}

type VD2 struct {
	A2 int64 `json:"a2"`
	VD3
	T2 VThing  `json:"t2"`
	S2 []int64 `json:"s2"`
}

type VD1 struct {
	VD2
	B1 []byte            `json:"b1"`
	M1 map[string]string `json:"m1"`
	C1 int16             `json:"c1"`
}

type VD0 struct {
	Id int64 `json:"id"`
	VD1
	Name string `json:"name"`
	Hi0  string `json:"hi"` // shadows VD4.Hi (same json tag, declared later)
	P0   *VD2   `json:"p0"`
}

type VWA struct {
	A1 int64  `json:"a1"`
	A2 string `json:"a2"`
	Sh int64  `json:"sh"`
}

type VWB struct {
	B1 int64  `json:"b1"`
	B2 string `json:"b2"`
	Sh string `json:"sh"`
}

type VWide struct {
	VWA
	W1 int64 `json:"w1"`
	VWB
	Leaves  []VLeaf           `json:"leaves"`
	PLeaves []*VLeaf          `json:"pleaves"`
	Inner   VD2               `json:"inner"`
	PD      *VD0              `json:"pd"`
	MT      map[string]VThing `json:"mt"`
	Ef      interface{}       `json:"ef"`
	W2      string
}

type VPE struct {
	*VLeaf
	Z int64 `json:"z"`
}

func (*VD0) Thing() int   { return 3 }
func (*VWide) Thing() int { return 4 }

// identity methods (the way back), on the receiver type every echo op uses
func (n *VNode) EchoVD0(x *VD0) *VD0       { return x }
func (n *VNode) EchoVD2(x *VD2) *VD2       { return x }
func (n *VNode) EchoVD4(x *VD4) *VD4       { return x }
func (n *VNode) EchoVWide(x *VWide) *VWide { return x }
func (n *VNode) EchoVPE(x *VPE) *VPE       { return x }

// Touch<T>: a Go method that MUTATES the struct it is handed and returns it (like Snoopy.Fly of
// the demo types, which rewrites w.Type). The mutation is generic (touchStruct) so that the Lean
// side needs one definition for every type.
func (n *VNode) TouchVNode(x *VNode) *VNode                             { touchStruct(x); return x }
func (n *VNode) TouchVLeaf(x *VLeaf) *VLeaf                             { touchStruct(x); return x }
func (n *VNode) TouchVEmb(x *VEmb) *VEmb                                { touchStruct(x); return x }
func (n *VNode) TouchVD0(x *VD0) *VD0                                   { touchStruct(x); return x }
func (n *VNode) TouchVD2(x *VD2) *VD2                                   { touchStruct(x); return x }
func (n *VNode) TouchVD4(x *VD4) *VD4                                   { touchStruct(x); return x }
func (n *VNode) TouchVWide(x *VWide) *VWide                             { touchStruct(x); return x }
func (n *VNode) TouchVPE(x *VPE) *VPE                                   { touchStruct(x); return x }
func (n *VNode) TouchSnoopy(x *zygo.Snoopy) *zygo.Snoopy                { touchStruct(x); return x }
func (n *VNode) TouchHornet(x *zygo.Hornet) *zygo.Hornet                { touchStruct(x); return x }
func (n *VNode) TouchHellcat(x *zygo.Hellcat) *zygo.Hellcat             { touchStruct(x); return x }
func (n *VNode) TouchWeather(x *zygo.Weather) *zygo.Weather             { touchStruct(x); return x }
func (n *VNode) TouchPlane(x *zygo.Plane) *zygo.Plane                   { touchStruct(x); return x }
func (n *VNode) TouchSetOfPlanes(x *zygo.SetOfPlanes) *zygo.SetOfPlanes { touchStruct(x); return x }
func (n *VNode) TouchEvent(x *zygo.Event) *zygo.Event                   { touchStruct(x); return x }
func (n *VNode) TouchPerson(x *zygo.Person) *zygo.Person                { touchStruct(x); return x }

// Self: the record is the RECEIVER; the method hands back the Go object attached to it.
func (x *VNode) Self() *VNode { return x }
func (x *VLeaf) Self() *VLeaf { return x }
func (x *VEmb) Self() *VEmb   { return x }
func (x *VD0) Self() *VD0     { return x }
func (x *VD2) Self() *VD2     { return x }
func (x *VD4) Self() *VD4     { return x }
func (x *VWide) Self() *VWide { return x }

// touchStruct (Lean: ToGoHist.touch): in the struct p points at, and in every struct held BY
// VALUE inside it (embedded or not): signed integers +1 (wrapping), unsigned +1 (wrapping),
// strings get "V" in front, bools flip. Pointers, interfaces, slices, maps, floats, times stay.
func touchStruct(p interface{}) { touchValue(reflect.ValueOf(p).Elem()) }

func touchValue(v reflect.Value) {
	if v.Type() == timeType {
		return
	}
	switch v.Kind() {
	case reflect.Int, reflect.Int8, reflect.Int16, reflect.Int32, reflect.Int64:
		x := v.Int() + 1
		if v.OverflowInt(x) || x < v.Int() { // wrap to the minimum of the type
			x = -1 << (uint(v.Type().Bits()) - 1)
		}
		v.SetInt(x)
	case reflect.Uint, reflect.Uint8, reflect.Uint16, reflect.Uint32, reflect.Uint64:
		x := v.Uint() + 1
		if v.OverflowUint(x) || x < v.Uint() {
			x = 0
		}
		v.SetUint(x)
	case reflect.String:
		v.SetString("V" + v.String())
	case reflect.Bool:
		v.SetBool(!v.Bool())
	case reflect.Struct:
		for i := 0; i < v.NumField(); i++ {
			touchValue(v.Field(i))
		}
	}
}
