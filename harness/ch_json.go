package main

// Channel json (C11): SexpToJson / JsonToSexp / SexpToMsgpack / MsgpackToSexp on nested
// data values, the printer and strconv.Quote as the interpreter reaches them.
//
//   json enc <v>      bytes of (json v)                                   | panic
//   json wf  <v>      (json v) parsed by Go's encoding/json (second judge of
//                     well-formedness), canonical form of the parsed data | malformed | panic
//   json rt  <v>      canonical form of (unjson (json v))                 | err
//   json mp  <v>      canonical form of (unmsgpack (msgpack v))           | err
//                     (err also when (json v) is not JSON or repeats a member name: the lenient
//                     codec's behaviour there is not modelled; the wf op reports such a text)
//   json print <v>    bytes of v.SexpString(nil)
//   json quote <bytes>   SexpStr{S}.SexpString(nil)  (= strconv.Quote)
//   json qjs <bytes>  does encoding/json accept that output as one string literal: t | f
//   json qrune <int>  SexpChar{Val}.SexpString(nil)  (= strconv.QuoteRune)
//   json hist …       a history of encode/decode steps on long-lived interpreters (ch_json_hist.go)
//
// Value syntax (prefix): n | t | f | i <int> | u <uint> | d <hexbits> <ftext> <gtext> | e <hexbits> <etext> <gtext>
//  | c <int> | s <bytes> | b <bytes> | y <bytes> | l <n> v… | a <n> v… | h <typename> <n> (k v)…
// bytes/text are dot-separated decimal bytes (`-` = empty). A float carries the text that
// strconv.FormatFloat gives for it ('f' for d, 'e' for e; and 'g'): float formatting is a parameter
// of the Lean model, instantiated here by the standard library.

import (
	"bytes"
	"encoding/json"
	"fmt"
	"io"
	"math"
	"math/big"
	"strconv"
	"strings"
	"unicode/utf8"

	"github.com/glycerine/zygomys/v9/zygo"
)

var jsonEnv *zygo.Zlisp

func jsonSetup() {
	if jsonEnv == nil {
		jsonEnv = zygo.NewZlisp()
	}
}

func encBytes(b []byte) string {
	if len(b) == 0 {
		return "-"
	}
	var sb strings.Builder
	for i, c := range b {
		if i > 0 {
			sb.WriteByte('.')
		}
		sb.WriteString(strconv.Itoa(int(c)))
	}
	return sb.String()
}

func decBytes(s string) ([]byte, bool) {
	if s == "-" {
		return nil, true
	}
	parts := strings.Split(s, ".")
	out := make([]byte, 0, len(parts))
	for _, p := range parts {
		n, err := strconv.Atoi(p)
		if err != nil || n < 0 || n > 255 {
			return nil, false
		}
		out = append(out, byte(n))
	}
	return out, true
}

// jsonParseV builds the Sexp described by the tokens.
func jsonParseV(toks []string, depth int) (zygo.Sexp, []string, bool) {
	if len(toks) == 0 || depth > 60 {
		return nil, nil, false
	}
	t, r := toks[0], toks[1:]
	need := func(n int) bool { return len(r) >= n }
	switch t {
	case "n":
		return zygo.SexpNull, r, true
	case "t":
		return &zygo.SexpBool{Val: true}, r, true
	case "f":
		return &zygo.SexpBool{Val: false}, r, true
	case "i":
		if !need(1) {
			return nil, nil, false
		}
		n, err := strconv.ParseInt(r[0], 10, 64)
		return &zygo.SexpInt{Val: n}, r[1:], err == nil
	case "u":
		if !need(1) {
			return nil, nil, false
		}
		n, err := strconv.ParseUint(r[0], 10, 64)
		return &zygo.SexpUint64{Val: n}, r[1:], err == nil
	case "c":
		if !need(1) {
			return nil, nil, false
		}
		n, err := strconv.ParseInt(r[0], 10, 32)
		return &zygo.SexpChar{Val: rune(n)}, r[1:], err == nil
	case "d", "e":
		if !need(3) {
			return nil, nil, false
		}
		b, err := strconv.ParseUint(r[0], 16, 64)
		return &zygo.SexpFloat{Val: math.Float64frombits(b), Scientific: t == "e"}, r[3:], err == nil
	case "s", "b", "y":
		if !need(1) {
			return nil, nil, false
		}
		b, ok := decBytes(r[0])
		if !ok {
			return nil, nil, false
		}
		switch t {
		case "s":
			return &zygo.SexpStr{S: string(b)}, r[1:], true
		case "b":
			return zygo.VerifBacktickStr(string(b)), r[1:], true
		}
		return jsonEnv.MakeSymbol(string(b)), r[1:], true
	case "l", "a":
		if !need(1) {
			return nil, nil, false
		}
		n, err := strconv.Atoi(r[0])
		if err != nil || n < 0 {
			return nil, nil, false
		}
		r = r[1:]
		vs := []zygo.Sexp{}
		for i := 0; i < n; i++ {
			v, r2, ok := jsonParseV(r, depth+1)
			if !ok {
				return nil, nil, false
			}
			vs = append(vs, v)
			r = r2
		}
		if t == "l" {
			return zygo.MakeList(vs), r, true
		}
		return &zygo.SexpArray{Val: vs, Env: jsonEnv}, r, true
	case "h":
		if !need(2) {
			return nil, nil, false
		}
		tn, ok := decBytes(r[0])
		n, err := strconv.Atoi(r[1])
		if !ok || err != nil || n < 0 {
			return nil, nil, false
		}
		r = r[2:]
		vs := []zygo.Sexp{}
		for i := 0; i < 2*n; i++ {
			v, r2, ok := jsonParseV(r, depth+1)
			if !ok {
				return nil, nil, false
			}
			vs = append(vs, v)
			r = r2
		}
		h, herr := zygo.MakeHash(vs, string(tn), jsonEnv)
		if herr != nil || h.NumKeys != n {
			return nil, nil, false
		}
		return h, r, true
	}
	return nil, nil, false
}

// canonical text of a decoded value
func jsonCanonV(s zygo.Sexp, sb *strings.Builder) {
	switch x := s.(type) {
	case *zygo.SexpSentinel:
		if x == zygo.SexpNull {
			sb.WriteString("n")
		} else {
			sb.WriteString("sentinel")
		}
	case *zygo.SexpBool:
		if x.Val {
			sb.WriteString("t")
		} else {
			sb.WriteString("f")
		}
	case *zygo.SexpInt:
		fmt.Fprintf(sb, "i %d", x.Val)
	case *zygo.SexpUint64:
		fmt.Fprintf(sb, "u %d", x.Val)
	case *zygo.SexpFloat:
		fmt.Fprintf(sb, "d %x", math.Float64bits(x.Val))
	case *zygo.SexpChar:
		fmt.Fprintf(sb, "c %d", x.Val)
	case *zygo.SexpStr:
		sb.WriteString("s " + encBytes([]byte(x.S)))
	case *zygo.SexpSymbol:
		sb.WriteString("y " + encBytes([]byte(zygo.VerifSymName(x))))
	case *zygo.SexpArray:
		fmt.Fprintf(sb, "a %d", len(x.Val))
		for _, e := range x.Val {
			sb.WriteByte(' ')
			jsonCanonV(e, sb)
		}
	case *zygo.SexpPair:
		l, err := zygo.ListToArray(x)
		if err != nil {
			sb.WriteString("improper-list")
			return
		}
		fmt.Fprintf(sb, "l %d", len(l))
		for _, e := range l {
			sb.WriteByte(' ')
			jsonCanonV(e, sb)
		}
	case *zygo.SexpHash:
		fmt.Fprintf(sb, "h %s %d", encBytes([]byte(x.TypeName)), len(x.KeyOrder))
		for _, k := range x.KeyOrder {
			sb.WriteByte(' ')
			jsonCanonV(k, sb)
			sb.WriteByte(' ')
			v, err := x.HashGet(nil, k)
			if err != nil {
				// KeyOrder names a key the map does not hold (possible only when the reserved
				// names Atype/zKeyOrder are used as keys): the model answers err for such a hash
				sb.WriteString("missing")
			} else {
				jsonCanonV(v, sb)
			}
		}
	default:
		fmt.Fprintf(sb, "other:%T", s)
	}
}

// canonical text of JSON data as Go's encoding/json reads it (token walk: member order
// and duplicate members are kept). Numbers: sign, decimal mantissa, power of ten, and
// whether the literal is a plain integer.
func jsonCanonNumber(lit string) string {
	neg := strings.HasPrefix(lit, "-")
	body := strings.TrimPrefix(lit, "-")
	exp := new(big.Int)
	integral := true
	if i := strings.IndexAny(body, "eE"); i >= 0 {
		exp.SetString(strings.TrimPrefix(body[i+1:], "+"), 10)
		body = body[:i]
		integral = false
	}
	if i := strings.IndexByte(body, '.'); i >= 0 {
		exp.Sub(exp, big.NewInt(int64(len(body)-i-1)))
		body = body[:i] + body[i+1:]
		integral = false
	}
	mant := new(big.Int)
	mant.SetString(body, 10)
	// normal form: no trailing decimal zero in the mantissa, zero has exponent 0
	if mant.Sign() == 0 {
		exp.SetInt64(0)
	} else {
		ten, q, r := big.NewInt(10), new(big.Int), new(big.Int)
		for {
			q.QuoRem(mant, ten, r)
			if r.Sign() != 0 {
				break
			}
			mant.Set(q)
			exp.Add(exp, big.NewInt(1))
		}
	}
	sign, kind := "+", "f"
	if neg {
		sign = "-"
	}
	if integral {
		kind = "i"
	}
	return "#" + sign + mant.String() + "e" + exp.String() + kind
}

// set by jsonWalk when an object repeats a member name
var jsonDupSeen bool

func jsonWalk(dec *json.Decoder, sb *strings.Builder) error {
	tok, err := dec.Token()
	if err != nil {
		return err
	}
	switch t := tok.(type) {
	case nil:
		sb.WriteString("N")
	case bool:
		if t {
			sb.WriteString("T")
		} else {
			sb.WriteString("F")
		}
	case json.Number:
		sb.WriteString(jsonCanonNumber(string(t)))
	case string:
		sb.WriteString("S" + encBytes([]byte(t)))
	case json.Delim:
		switch t {
		case '[':
			var inner strings.Builder
			n := 0
			for dec.More() {
				inner.WriteByte(' ')
				if err := jsonWalk(dec, &inner); err != nil {
					return err
				}
				n++
			}
			if _, err := dec.Token(); err != nil {
				return err
			}
			fmt.Fprintf(sb, "[ %d%s", n, inner.String())
		case '{':
			var inner strings.Builder
			n := 0
			names := map[string]bool{}
			for dec.More() {
				k, err := dec.Token()
				if err != nil {
					return err
				}
				ks, ok := k.(string)
				if !ok {
					return fmt.Errorf("non-string key")
				}
				if names[ks] {
					jsonDupSeen = true
				}
				names[ks] = true
				inner.WriteString(" " + encBytes([]byte(ks)) + " ")
				if err := jsonWalk(dec, &inner); err != nil {
					return err
				}
				n++
			}
			if _, err := dec.Token(); err != nil {
				return err
			}
			fmt.Fprintf(sb, "{ %d%s", n, inner.String())
		default:
			return fmt.Errorf("unexpected delimiter")
		}
	}
	return nil
}

// jsonJudge: RFC 8259 asks for UTF-8; encoding/json silently repairs invalid UTF-8, so
// validity is checked separately.
func jsonJudge(text []byte) string {
	if !utf8.Valid(text) || !json.Valid(text) {
		return "malformed"
	}
	dec := json.NewDecoder(bytes.NewReader(text))
	dec.UseNumber()
	var sb strings.Builder
	if err := jsonWalk(dec, &sb); err != nil {
		return "malformed"
	}
	if _, err := dec.Token(); err != io.EOF {
		return "malformed"
	}
	return sb.String()
}

func jsonCall(name string, arg zygo.Sexp) (res zygo.Sexp, err error) {
	defer func() {
		if r := recover(); r != nil {
			err = fmt.Errorf("panic: %v", r)
		}
	}()
	return zygo.JsonFunction(name)(jsonEnv, name, []zygo.Sexp{arg})
}

func jsonExec(toks []string) string {
	jsonSetup()
	if len(toks) < 2 {
		return "bad-op"
	}
	mode := toks[0]
	switch mode {
	case "hist": // histories of encode/decode steps: ch_json_hist.go
		return jsonHistExec(toks[1:])
	case "quote", "qjs":
		b, ok := decBytes(toks[1])
		if !ok || len(toks) != 2 {
			return "bad-op"
		}
		out := (&zygo.SexpStr{S: string(b)}).SexpString(nil)
		if mode == "quote" {
			return encBytes([]byte(out))
		}
		var s string
		if utf8.ValidString(out) && json.Unmarshal([]byte(out), &s) == nil {
			return "t"
		}
		return "f"
	case "qrune":
		n, err := strconv.ParseInt(toks[1], 10, 32)
		if err != nil || len(toks) != 2 {
			return "bad-op"
		}
		return encBytes([]byte((&zygo.SexpChar{Val: rune(n)}).SexpString(nil)))
	}
	v, rest, ok := jsonParseV(toks[1:], 0)
	if !ok || len(rest) != 0 {
		return "bad-op"
	}
	switch mode {
	case "print":
		return encBytes([]byte(v.SexpString(nil)))
	case "enc", "wf", "rt":
		raw, err := jsonCall("json", v)
		if err != nil {
			if mode == "rt" {
				return "err"
			}
			return "panic"
		}
		text := raw.(*zygo.SexpRaw).Val
		switch mode {
		case "enc":
			return encBytes(text)
		case "wf":
			return jsonJudge(text)
		}
		jsonDupSeen = false
		if jsonJudge(text) == "malformed" || jsonDupSeen {
			// what the (lenient) codec does with text that is not JSON, or with a repeated
			// member name, is not modelled
			return "err"
		}
		back, err := jsonCall("unjson", raw)
		if err != nil {
			return "err"
		}
		var sb strings.Builder
		jsonCanonV(back, &sb)
		return jsonMissingIsErr(sb.String())
	case "mp":
		jsonDupSeen = false
		if js, err := jsonCall("json", v); err != nil || jsonJudge(js.(*zygo.SexpRaw).Val) == "malformed" || jsonDupSeen {
			return "err"
		}
		raw, err := jsonCall("msgpack", v)
		if err != nil {
			return "err"
		}
		back, err := jsonCall("unmsgpack", raw)
		if err != nil {
			return "err"
		}
		var sb strings.Builder
		jsonCanonV(back, &sb)
		return jsonMissingIsErr(sb.String())
	}
	return "bad-op"
}

func jsonMissingIsErr(canon string) string {
	for _, t := range strings.Fields(canon) {
		if t == "missing" {
			return "err"
		}
	}
	return canon
}

func init() { channels["json"] = &Channel{Gen: jsonGen, Exec: jsonExec} }
