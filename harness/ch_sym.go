package main

// Channel sym (C19): histories of symbol creation / generation / duplication / cloning over a
// family of interpreters that share one pair of symbol tables. Line format: see
// lean/ZygoVerif/Driver/Sym.lean. Names cross the line as dot-separated bytes.
//
//   sym api <kind> <N0> m<i>:<name> g<i>:<prefix> d<i> c<i> …      (public Go API)
//   sym scr <kind> <N0> s n g G q r x X f e h d c …               (script statements)
//   sym base <kind>                                              (tables of a fresh interpreter)
//
// kind: b = NewZlispWithFuncs(nil), f = NewZlisp(), x = NewZlispSandbox().
// N0 = nextsymbol of the fresh interpreter (after the prelude for scr); Exec refuses a line
// whose N0 is not the current tree's (`stale-base`), so a line is self-contained.

import (
	"fmt"
	"sort"
	"strconv"
	"strings"

	"github.com/glycerine/zygomys/v9/zygo"
)

func symCodes(s string) string {
	if s == "" {
		return "-"
	}
	p := make([]string, len(s))
	for i := 0; i < len(s); i++ {
		p[i] = strconv.Itoa(int(s[i]))
	}
	return strings.Join(p, ".")
}

func symDecode(c string) (string, bool) {
	if c == "-" {
		return "", true
	}
	var b []byte
	for _, p := range strings.Split(c, ".") {
		n, err := strconv.Atoi(p)
		if err != nil || n < 0 || n > 255 {
			return "", false
		}
		b = append(b, byte(n))
	}
	return string(b), true
}

var symPrelude = []string{
	`(defmac zzmac [] (let [zzs (gensym)] ^(quote ~zzs)))`,
	`(defmac zzmacp [zzp] (let [zzs (gensym zzp)] ^(quote ~zzs)))`,
	`(let [zzh (hash)] 1)`,
}

func symNewEnv(kind string, script bool) *zygo.Zlisp {
	var env *zygo.Zlisp
	switch kind {
	case "b":
		env = zygo.NewZlispWithFuncs(nil)
	case "x":
		env = zygo.NewZlispSandbox()
	default:
		env = zygo.NewZlisp()
	}
	if script {
		for _, p := range symPrelude {
			if _, err := env.EvalString(p); err != nil {
				panic("sym prelude failed: " + err.Error())
			}
		}
	}
	return env
}

type symSnap struct {
	sym map[string]int
	rev map[int]string
}

func symSnapshot(env *zygo.Zlisp) symSnap {
	a, b := zygo.VerifSymMaps(env)
	return symSnap{a, b}
}

func (s symSnap) existed(name string, num int) string {
	_, a := s.sym[name]
	_, b := s.rev[num]
	if a || b {
		return "1"
	}
	return "0"
}

func symShowEntries(es []zygo.VerifSymEntry) string {
	if len(es) == 0 {
		return "-"
	}
	sort.Slice(es, func(i, j int) bool {
		if es[i].Num != es[j].Num {
			return es[i].Num < es[j].Num
		}
		return es[i].Name < es[j].Name
	})
	p := make([]string, len(es))
	for i, e := range es {
		p[i] = fmt.Sprintf("%d:%s", e.Num, symCodes(e.Name))
	}
	return strings.Join(p, ",")
}

func symSplitTok(tok string) (kind byte, idx int, args []string, ok bool) {
	parts := strings.Split(tok, ":")
	if len(parts[0]) < 2 {
		return 0, 0, nil, false
	}
	kind = parts[0][0]
	i, err := strconv.Atoi(parts[0][1:])
	if err != nil {
		return 0, 0, nil, false
	}
	for _, a := range parts[1:] {
		s, ok := symDecode(a)
		if !ok {
			return 0, 0, nil, false
		}
		args = append(args, s)
	}
	return kind, i, args, true
}

func symQuoteStr(s string) string {
	// pool names never contain quotes or backslashes
	return `"` + s + `"`
}

func symExec(toks []string) string {
	if len(toks) >= 2 && toks[0] == "base" {
		env := symNewEnv(toks[1], false)
		return "s=" + symShowEntries(zygo.VerifSymTable(env)) + " r=" + symShowEntries(zygo.VerifRevSymTable(env))
	}
	if len(toks) < 3 || (toks[0] != "api" && toks[0] != "scr") {
		return "bad-op"
	}
	script := toks[0] == "scr"
	n0, err := strconv.Atoi(toks[2])
	if err != nil {
		return "bad-op"
	}
	root := symNewEnv(toks[1], script)
	if c := zygo.VerifSymCounter(root); c != n0 {
		return fmt.Sprintf("stale-base %d", c)
	}
	base := symSnapshot(root)
	fam := []*zygo.Zlisp{root}
	var out []string
	// `shadow` is a private copy of the real tables as they were before the current call: it
	// is brought up to date after every call (the returned symbol is added; whenever the
	// sizes then still differ from the real tables — something else was interned — it is
	// copied afresh), so "existed before" costs O(1) per call instead of two map copies.
	shadow := symSnapshot(root)
	resync := func() {
		a, b := zygo.VerifSymLens(root)
		if a != len(shadow.sym) || b != len(shadow.rev) {
			shadow = symSnapshot(root)
		}
	}
	symAns := func(before symSnap, name string, num int) string {
		r := fmt.Sprintf("%d:%s:%s", num, symCodes(name), before.existed(name, num))
		if _, ok := before.sym[name]; !ok {
			before.sym[name] = num
		}
		if _, ok := before.rev[num]; !ok {
			before.rev[num] = name
		}
		return r
	}
	for _, tok := range toks[3:] {
		kind, i, args, ok := symSplitTok(tok)
		if !ok || i < 0 || i >= len(fam) {
			return "bad-op"
		}
		env := fam[i]
		if kind == 'd' {
			d := env.Duplicate()
			fam = append(fam, d)
			out = append(out, fmt.Sprintf("n%d", zygo.VerifSymCounter(d)))
			continue
		}
		if kind == 'c' {
			d := env.Clone()
			fam = append(fam, d)
			out = append(out, fmt.Sprintf("n%d", zygo.VerifSymCounter(d)))
			continue
		}
		resync()
		before := shadow
		if !script {
			if len(args) != 1 {
				return "bad-op"
			}
			var s *zygo.SexpSymbol
			switch kind {
			case 'm':
				s = env.MakeSymbol(args[0])
			case 'g':
				s = env.GenSymbol(args[0])
			default:
				return "bad-op"
			}
			out = append(out, symAns(before, s.Name(), s.Number()))
			continue
		}
		var text string
		want := "sym"
		switch {
		case kind == 's' && len(args) == 1:
			text = `(str2sym ` + symQuoteStr(args[0]) + `)`
		case kind == 'n' && len(args) == 1:
			text, want = `(symnum (str2sym `+symQuoteStr(args[0])+`))`, "int"
		case kind == 'g' && len(args) == 1:
			text = `(gensym ` + symQuoteStr(args[0]) + `)`
		case kind == 'G' && len(args) == 0:
			text = `(gensym)`
		case kind == 'q' && len(args) == 1:
			text = `(quote ` + args[0] + `)`
		case kind == 'r' && len(args) == 1:
			text = `(read ` + symQuoteStr(args[0]+" ") + `)`
		case kind == 'x' && len(args) == 0:
			text = `(zzmac)`
		case kind == 'X' && len(args) == 1:
			text = `(zzmacp ` + symQuoteStr(args[0]) + `)`
		case kind == 'f' && len(args) == 0:
			text, want = `(fn [] 7)`, "fn"
		case kind == 'e' && len(args) == 2:
			text, want = `(== (str2sym `+symQuoteStr(args[0])+`) (str2sym `+symQuoteStr(args[1])+`))`, "bool"
		case kind == 'h' && len(args) == 3:
			text, want = `(let [zzh (hash)] (hset zzh (str2sym `+symQuoteStr(args[0])+`) 1) (hset zzh (str2sym `+symQuoteStr(args[1])+`) 2) (hget zzh (str2sym `+symQuoteStr(args[2])+`) 0))`, "int"
		default:
			return "bad-op"
		}
		res, err := env.EvalString(text)
		if err != nil {
			env.Clear()
			out = append(out, "err")
			continue
		}
		switch want {
		case "sym":
			if s, ok := res.(*zygo.SexpSymbol); ok {
				out = append(out, symAns(before, s.Name(), s.Number()))
			} else {
				out = append(out, "not-a-symbol")
			}
		case "int":
			if n, ok := res.(*zygo.SexpInt); ok {
				out = append(out, strconv.FormatInt(n.Val, 10))
			} else {
				out = append(out, "not-an-int")
			}
		case "bool":
			if b, ok := res.(*zygo.SexpBool); ok {
				if b.Val {
					out = append(out, "t")
				} else {
					out = append(out, "f")
				}
			} else {
				out = append(out, "not-a-bool")
			}
		case "fn":
			name := zygo.VerifFuncName(res)
			after := symSnapshot(env)
			num, ok := after.sym[name]
			if name == "" || !ok {
				out = append(out, "function-name-not-interned")
			} else {
				out = append(out, symAns(before, name, num))
			}
		}
	}
	// final state: counters of the visible members, entries not in (or changed from) the base
	ctrs := make([]string, len(fam))
	for i, e := range fam {
		ctrs[i] = strconv.Itoa(zygo.VerifSymCounter(e))
	}
	var ds, dr []zygo.VerifSymEntry
	for _, e := range zygo.VerifSymTable(root) {
		if v, ok := base.sym[e.Name]; !ok || v != e.Num {
			ds = append(ds, e)
		}
	}
	for _, e := range zygo.VerifRevSymTable(root) {
		if v, ok := base.rev[e.Num]; !ok || v != e.Name {
			dr = append(dr, e)
		}
	}
	lost := 0
	now := symSnapshot(root)
	for k := range base.sym {
		if _, ok := now.sym[k]; !ok {
			lost++
		}
	}
	for k := range base.rev {
		if _, ok := now.rev[k]; !ok {
			lost++
		}
	}
	shared := true
	for _, e := range fam[1:] {
		if !zygo.VerifSameSymTables(root, e) {
			shared = false
		}
	}
	tail := fmt.Sprintf("| c=%s s=%s r=%s", strings.Join(ctrs, "."), symShowEntries(ds), symShowEntries(dr))
	if lost > 0 {
		tail += fmt.Sprintf(" base-entries-lost=%d", lost)
	}
	if !shared {
		tail += " tables-not-shared"
	}
	return strings.Join(append(out, tail), " ")
}

// ---------------------------------------------------------------- generators

type symPool struct {
	names    []string
	prefixes []string
}

// symAPIPool: names shaped like generated symbols around the first counters, plus plain ones.
func symAPIPool(n0 int, wide bool) symPool {
	p := symPool{}
	it := func(k int) string { return strconv.Itoa(n0 + k) }
	if !wide {
		p.names = []string{"a", "g" + it(0), "g" + it(1), "g" + it(2)}
		p.prefixes = []string{"g", "h"}
		return p
	}
	p.names = []string{"a", "b", "", it(1), it(3)}
	for k := 0; k < 8; k++ {
		p.names = append(p.names, "g"+it(k))
	}
	for k := 0; k < 6; k += 2 {
		p.names = append(p.names, "__gensym"+it(k), "h"+it(k+1))
	}
	p.prefixes = []string{"g", "h", "__gensym", "", "g" + it(0)[:1]}
	return p
}

func symStep(g *Gen, pool symPool, nfam int, maxFam int) (string, bool) {
	i := g.Rng.Intn(nfam)
	r := g.Rng.Intn(10)
	switch {
	case r < 4:
		return fmt.Sprintf("m%d:%s", i, symCodes(pool.names[g.Rng.Intn(len(pool.names))])), false
	case r < 8:
		return fmt.Sprintf("g%d:%s", i, symCodes(pool.prefixes[g.Rng.Intn(len(pool.prefixes))])), false
	case nfam >= maxFam:
		return fmt.Sprintf("g%d:%s", i, symCodes(pool.prefixes[0])), false
	case r == 8:
		return fmt.Sprintf("d%d", i), true
	default:
		return fmt.Sprintf("c%d", i), true
	}
}

// symEnumerate emits every history of exactly `depth` steps over the small pool with at
// most maxFam members (shorter histories are prefixes of these: every step is answered).
func symEnumerate(g *Gen, kind string, n0 int, pool symPool, depth, maxFam int, tag string) {
	var rec func(toks []string, nfam int)
	rec = func(toks []string, nfam int) {
		if len(toks) == depth {
			g.Emit("api %s %d %s", kind, n0, strings.Join(toks, " "))
			g.Count(tag)
			return
		}
		for i := 0; i < nfam; i++ {
			for _, n := range pool.names {
				rec(append(toks[:len(toks):len(toks)], fmt.Sprintf("m%d:%s", i, symCodes(n))), nfam)
			}
			for _, p := range pool.prefixes {
				rec(append(toks[:len(toks):len(toks)], fmt.Sprintf("g%d:%s", i, symCodes(p))), nfam)
			}
			if nfam < maxFam {
				rec(append(toks[:len(toks):len(toks)], fmt.Sprintf("d%d", i)), nfam+1)
				rec(append(toks[:len(toks):len(toks)], fmt.Sprintf("c%d", i)), nfam+1)
			}
		}
	}
	rec(nil, 1)
}

func symScriptStep(g *Gen, n0 int, nfam, maxFam int) (string, bool) {
	it := func(k int) string { return strconv.Itoa(n0 + k) }
	k := g.Rng.Intn(12)
	names := []string{"a", "b", "g" + it(k), "__gensym" + it(k), "__anon" + it(k), "h" + it(k), "zq"}
	prefixes := []string{"g", "h", "__gensym", "__anon"}
	nm := func() string { return symCodes(names[g.Rng.Intn(len(names))]) }
	pf := func() string { return symCodes(prefixes[g.Rng.Intn(len(prefixes))]) }
	i := g.Rng.Intn(nfam)
	switch r := g.Rng.Intn(20); {
	case r < 3:
		g.Count("scr str2sym")
		return fmt.Sprintf("s%d:%s", i, nm()), false
	case r < 4:
		g.Count("scr symnum")
		return fmt.Sprintf("n%d:%s", i, nm()), false
	case r < 6:
		g.Count("scr gensym-prefix")
		return fmt.Sprintf("g%d:%s", i, pf()), false
	case r < 8:
		g.Count("scr gensym")
		return fmt.Sprintf("G%d", i), false
	case r < 9:
		g.Count("scr quote")
		return fmt.Sprintf("q%d:%s", i, nm()), false
	case r < 10:
		g.Count("scr read")
		return fmt.Sprintf("r%d:%s", i, nm()), false
	case r < 12:
		g.Count("scr macro-gensym")
		return fmt.Sprintf("x%d", i), false
	case r < 13:
		g.Count("scr macro-gensym-prefix")
		return fmt.Sprintf("X%d:%s", i, pf()), false
	case r < 15:
		g.Count("scr anonymous-fn")
		return fmt.Sprintf("f%d", i), false
	case r < 16:
		g.Count("scr ==")
		return fmt.Sprintf("e%d:%s:%s", i, nm(), nm()), false
	case r < 17:
		g.Count("scr hash-lookup")
		return fmt.Sprintf("h%d:%s:%s:%s", i, nm(), nm(), nm()), false
	case nfam >= maxFam:
		g.Count("scr gensym")
		return fmt.Sprintf("G%d", i), false
	case r < 19:
		g.Count("scr duplicate")
		return fmt.Sprintf("d%d", i), true
	default:
		g.Count("scr clone")
		return fmt.Sprintf("c%d", i), true
	}
}

func symGen(g *Gen) {
	for _, k := range []string{"b", "f", "x"} {
		g.Emit("base %s", k)
		g.Count("base-dump")
	}
	nb := zygo.VerifSymCounter(symNewEnv("b", false))
	nf := zygo.VerifSymCounter(symNewEnv("f", false))
	nx := zygo.VerifSymCounter(symNewEnv("x", false))
	ns := zygo.VerifSymCounter(symNewEnv("f", true))
	small := symAPIPool(nb, false)
	// exhaustive small scopes (bare interpreter: cheapest to create, N0 ≈ 105)
	if g.Thorough() {
		symEnumerate(g, "b", nb, small, 5, 3, "exhaustive depth5 fam<=3 pool 4 names x 2 prefixes")
		tiny := symPool{names: []string{"g" + strconv.Itoa(nb+1), "g" + strconv.Itoa(nb+2)}, prefixes: []string{"g"}}
		symEnumerate(g, "b", nb, tiny, 7, 2, "exhaustive depth7 fam<=2 pool 2 names x 1 prefix")
		symEnumerate(g, "b", nb, tiny, 6, 3, "exhaustive depth6 fam<=3 pool 2 names x 1 prefix")
	} else {
		symEnumerate(g, "b", nb, small, 3, 3, "exhaustive depth3 fam<=3 pool 4 names x 2 prefixes")
		tiny := symPool{names: []string{"g" + strconv.Itoa(nb+1), "g" + strconv.Itoa(nb+2)}, prefixes: []string{"g"}}
		symEnumerate(g, "b", nb, tiny, 5, 2, "exhaustive depth5 fam<=2 pool 2 names x 1 prefix")
	}
	// random long histories, wide pool, all three kinds of interpreter
	nRand, nScr := 6000, 1500
	if g.Thorough() {
		nRand, nScr = 150000, 40000
	}
	for n := 0; n < nRand; n++ {
		kind, n0 := "b", nb
		switch g.Rng.Intn(8) {
		case 0:
			kind, n0 = "f", nf
		case 1:
			kind, n0 = "x", nx
		}
		pool := symAPIPool(n0, true)
		length := 4 + g.Rng.Intn(28)
		maxFam := 1 + g.Rng.Intn(6)
		nfam := 1
		toks := make([]string, 0, length)
		for len(toks) < length {
			t, grew := symStep(g, pool, nfam, maxFam)
			if grew {
				nfam++
			}
			toks = append(toks, t)
		}
		g.Emit("api %s %d %s", kind, n0, strings.Join(toks, " "))
		g.Count("random api kind=" + kind)
		g.Count(fmt.Sprintf("random api family=%d", nfam))
	}
	// script-level histories
	for n := 0; n < nScr; n++ {
		length := 3 + g.Rng.Intn(14)
		maxFam := 1 + g.Rng.Intn(4)
		nfam := 1
		toks := make([]string, 0, length)
		for len(toks) < length {
			t, grew := symScriptStep(g, ns, nfam, maxFam)
			if grew {
				nfam++
			}
			toks = append(toks, t)
		}
		g.Emit("scr f %d %s", ns, strings.Join(toks, " "))
		g.Count("script histories")
	}
}

func init() { channels["sym"] = &Channel{Gen: symGen, Exec: symExec} }
