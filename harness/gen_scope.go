package main

// Channel scope (C03 — lexical scoping). Same op format, same Exec (the real interpreter)
// and same Lean driver logic as channel eval: a history of program texts against ONE
// interpreter, answer per text `<class> <value> T[trace] D[depths]`.
//
// What is different is the generator. Every name — ints, closures, makers of closures,
// arrays of closures, loop counters, parameters, names of defn — is drawn from ONE pool of
// two or three names, with a static environment that tracks the type each visible binding
// has (so programs stay well typed although the same name means different things at
// different nesting levels). Shadowing and capture collisions therefore occur in almost
// every program. Streams:
//
//	fixed   hand-written shapes (tests/closure*.zy, dynscope.zy, dynprob.zy and the shapes
//	        named in the property text), run first on every check
//	typed   random well-typed programs over the pool; histories of 1-3 texts, closures kept
//	        in globals across texts
//	shape   templates with random names and random sub-expressions: counters, makers,
//	        closures collected by (tail/non-tail) recursion, by loops, by map; defn inside
//	        functions; functions passed/returned/stored; caller-local collisions
//	small   exhaustive small scope: all programs of three nested scope constructs over the
//	        names a b (see scopeSmall); complete in the thorough tier, nesting <= 2 complete
//	        and nesting 3 sampled in the quick tier
//
// The distribution counters (g.Count) say, per op, which features it exercises: capture of
// a local, capture of a name that is shadowed somewhere on the static chain, a closure that
// escapes its creating activation, a captured variable that is mutated, a call made from a
// scope that binds a name free in the callee (caller-local collision), ...

import (
	"fmt"
	"os"
	"sort"
	"strings"
)

var scopeFull = os.Getenv("VERIF_SCOPE_FULL") == "1"

type sty int

const (
	sI  sty = iota // int
	sF0            // () -> int
	sF1            // int -> int
	sM             // int -> F0   (maker)
	sH             // F0 -> int   (takes a closure and calls it)
	sA             // array of F0, at least two elements
	sNone
)

type sbind struct {
	ty       sty
	frame    int  // index of the frame holding it
	fnDepth  int  // function nesting depth of that frame
	noset    bool // loop counter: never assigned by generated code
	rank     int  // 1 + the highest rank of a closure-holding binding its values may refer to
}

type sframe struct {
	vars    map[string]*sbind
	hides   map[string]int // names being defined in this frame: invisible inside deeper functions
	// names referred to (through a binding of an outer frame) while this frame was open: a
	// closure created in this frame may hold such a reference, and a later def of the name in
	// this frame would be what it sees; such a def keeps the type and the rank of the outer binding
	outerRefs map[string]bool
	fnDepth   int
}

type scg struct {
	g       *Gen
	pool    []string
	frames  []*sframe
	fnDepth int
	budget  int
	cond    int      // >0: conditionally evaluated position (no def here)
	self    []string // self[fnDepth]: name of the defn whose body we are in at that function level ("" for fn)
	feat    map[string]bool
	// avoidSelfHead: do not use the name of the defn being compiled as the head of a call in
	// its own body (before fix C03-01 such a call was compiled as a self tail call even where
	// the name is shadowed). Off: the repaired code is what the model follows.
	avoidSelfHead bool
	// Termination discipline. A binding that holds closures has a rank; whatever is stored
	// in it (by def, by a later def in the same scope, by set) refers only to bindings of
	// lower rank, so no chain of calls through named bindings comes back to where it
	// started. maxRef collects the ranks referred to by the expression being generated,
	// limit (>0) is the bound in force inside the right-hand side of a set / re-def.
	maxRef int
	limit  int
}

func holdsClosures(t sty) bool { return t != sI }

// withLimit runs gen with the references to closure-holding bindings restricted to ranks
// below lim (lim <= 0: unrestricted) and returns the highest rank referred to.
func (e *scg) withLimit(lim int, gen func()) int {
	oldMax, oldLim := e.maxRef, e.limit
	e.maxRef = 0
	if lim > 0 && (e.limit == 0 || lim < e.limit) {
		e.limit = lim
	}
	gen()
	r := e.maxRef
	if oldMax > r {
		e.maxRef = oldMax
	}
	e.limit = oldLim
	return r
}

func (e *scg) rnd(n int) int { return e.g.Rng.Intn(n) }
func (e *scg) push() {
	e.frames = append(e.frames, &sframe{vars: map[string]*sbind{}, hides: map[string]int{}, outerRefs: map[string]bool{}, fnDepth: e.fnDepth})
}
func (e *scg) pop() { e.frames = e.frames[:len(e.frames)-1] }
func (e *scg) pushFn(self string) {
	e.fnDepth++
	e.self = append(e.self, self)
	e.push()
}
func (e *scg) popFn() {
	e.pop()
	e.self = e.self[:len(e.self)-1]
	e.fnDepth--
}
func (e *scg) bind(n string, t sty) *sbind {
	b := &sbind{ty: t, frame: len(e.frames) - 1, fnDepth: e.fnDepth}
	e.frames[len(e.frames)-1].vars[n] = b
	return b
}

// bindParam: what a parameter holds comes from the call sites; for the termination
// discipline it is of unbounded rank (never referred to inside the right-hand side of a
// set / re-def of an existing binding).
func (e *scg) bindParam(n string, t sty) {
	b := e.bind(n, t)
	if holdsClosures(t) {
		b.rank = 1000
	}
}

func (e *scg) name() string { return e.pool[e.rnd(len(e.pool))] }

// lookup: innermost binding of n, how many bindings of n are on the static chain
func (e *scg) lookup(n string) (*sbind, int) {
	var first *sbind
	cnt := 0
	for i := len(e.frames) - 1; i >= 0; i-- {
		if b, ok := e.frames[i].vars[n]; ok {
			if first == nil {
				first = b
			}
			cnt++
		}
	}
	return first, cnt
}

// visible: the binding a reference to n written here denotes, or nil when a reference must
// not be generated (unbound; or being defined and we are inside a deeper function, where the
// reference would denote the new binding, not the one whose type we know).
func (e *scg) visible(n string) *sbind {
	for i := len(e.frames) - 1; i >= 0; i-- {
		fr := e.frames[i]
		if fr.hides[n] > 0 && e.fnDepth > fr.fnDepth {
			return nil
		}
		if b, ok := fr.vars[n]; ok {
			return b
		}
	}
	return nil
}

// noteRef: a reference to n, resolved to binding b, was written while the frames above b's
// were open.
func (e *scg) noteRef(n string, b *sbind) {
	for i := b.frame + 1; i < len(e.frames); i++ {
		e.frames[i].outerRefs[n] = true
	}
}

func (e *scg) hide(n string) func() {
	fr := e.frames[len(e.frames)-1]
	fr.hides[n]++
	return func() { fr.hides[n]-- }
}

func (e *scg) candidates(t sty, forSet bool) []string {
	var c []string
	for _, n := range e.pool {
		b := e.visible(n)
		if b == nil || b.ty != t {
			continue
		}
		if forSet && b.noset {
			continue
		}
		if e.limit > 0 && holdsClosures(t) && b.rank >= e.limit {
			continue
		}
		c = append(c, n)
	}
	return c
}

// capturedInts: visible int locals of an enclosing function (assignable ones)
func (e *scg) capturedInts() []string {
	var c []string
	for _, n := range e.candidates(sI, true) {
		if b := e.visible(n); b != nil && b.frame > 0 && e.fnDepth > b.fnDepth {
			c = append(c, n)
		}
	}
	return c
}

func (e *scg) pick(t sty) (string, bool) {
	c := e.candidates(t, false)
	if len(c) == 0 {
		return "", false
	}
	return c[e.rnd(len(c))], true
}

// ref: a reference to n (read). Records the features it exercises.
func (e *scg) ref(n string) *nd {
	_, cnt := e.lookup(n)
	b := e.visible(n)
	if b != nil && holdsClosures(b.ty) && b.rank > e.maxRef {
		e.maxRef = b.rank
	}
	if b != nil {
		e.noteRef(n, b)
	}
	if b != nil {
		cross := e.fnDepth - b.fnDepth
		switch {
		case cross > 0 && b.frame > 0:
			e.feat["capture local"] = true
			if cnt >= 2 {
				e.feat["capture shadowing name"] = true
			}
			if cross >= 2 {
				e.feat["capture across 2+ functions"] = true
			}
		case cross > 0:
			e.feat["capture global"] = true
			if cnt >= 2 {
				e.feat["capture shadowing name"] = true
			}
		}
		if cnt >= 2 {
			e.feat["reference to shadowing name"] = true
		}
		if cnt >= 3 {
			e.feat["name bound 3+ times on chain"] = true
		}
	}
	return A(n)
}

func (e *scg) lit(t sty) *nd {
	switch t {
	case sI:
		return I(int64(e.rnd(9)))
	case sF0:
		return L(A("fn"), SQ(), I(int64(10+e.rnd(9))))
	case sF1:
		p := e.name()
		return L(A("fn"), SQ(A(p)), L(A("+"), A(p), I(int64(1+e.rnd(3)))))
	case sM:
		p := e.name()
		return L(A("fn"), SQ(A(p)), L(A("fn"), SQ(), A(p)))
	case sH:
		p := e.name()
		return L(A("fn"), SQ(A(p)), L(A(p)))
	case sA:
		return SQ(e.lit(sF0), e.lit(sF0))
	}
	return A("nil")
}

func (e *scg) intTest(d int) *nd {
	return L(A([]string{"<", ">", "==", "<=", "!="}[e.rnd(5)]), e.expr(sI, d-1), I(int64(e.rnd(4))))
}

// callee: a function-typed expression in head position. A symbol equal to the name of the
// defn being compiled at this function level is not used as a head (known finding K4: it
// would be compiled as a self tail call even where the name is shadowed).
func (e *scg) callee(t sty, d int) *nd {
	c := e.candidates(t, false)
	if e.avoidSelfHead {
		self := e.self[len(e.self)-1]
		var c2 []string
		for _, n := range c {
			if n != self {
				c2 = append(c2, n)
			}
		}
		c = c2
	}
	if len(c) > 0 && e.rnd(5) > 0 {
		e.feat["call by name"] = true
		return e.ref(c[e.rnd(len(c))])
	}
	e.feat["call computed head"] = true
	r := e.expr(t, d)
	if r.leaf() {
		// a bare symbol would again be a by-name head
		return L(A("begin"), r)
	}
	return r
}

func (e *scg) expr(t sty, d int) *nd {
	e.budget--
	if d <= 0 || e.budget <= 0 {
		if n, ok := e.pick(t); ok && e.rnd(4) > 0 {
			return e.ref(n)
		}
		return e.lit(t)
	}
	switch e.rnd(12) {
	case 0:
		e.g.Count("form cond")
		test := e.intTest(d)
		e.cond++
		a, b := e.expr(t, d-1), e.expr(t, d-1)
		e.cond--
		return L(A("cond"), test, a, b)
	case 1, 2:
		return e.letForm(t, d)
	case 3:
		e.g.Count("form newScope")
		e.push()
		savedCond := e.cond
		e.cond = 0
		k := []*nd{A("newScope")}
		for i := e.rnd(3); i > 0; i-- {
			k = append(k, e.stmt(d-1))
		}
		k = append(k, e.expr(t, d-1))
		e.cond = savedCond
		e.pop()
		return L(k...)
	case 4:
		e.g.Count("form begin")
		k := []*nd{A("begin")}
		for i := 1 + e.rnd(2); i > 0; i-- {
			k = append(k, e.stmt(d-1))
		}
		k = append(k, e.expr(t, d-1))
		return L(k...)
	case 5:
		if c := e.candidates(t, true); len(c) > 0 {
			n := c[e.rnd(len(c))]
			return e.setForm(n, t, d)
		}
	case 6:
		if n, ok := e.pick(t); ok {
			return e.ref(n)
		}
	case 7:
		// immediately applied function: ((fn [p] body) arg) — a fresh activation
		e.g.Count("form immediate fn call")
		pt := []sty{sI, sI, sF0, sF1}[e.rnd(4)]
		p := e.name()
		arg := e.expr(pt, d-1)
		e.pushFn("")
		e.bindParam(p, pt)
		k := []*nd{A("fn"), SQ(A(p))}
		if e.rnd(3) == 0 {
			k = append(k, e.stmt(d-1))
		}
		k = append(k, e.expr(t, d-1))
		e.popFn()
		return L(L(k...), arg)
	}
	if t == sI {
		if c := e.capturedInts(); len(c) > 0 && e.rnd(3) == 0 {
			// a closure updating a variable of the activation that created it
			n := c[e.rnd(len(c))]
			e.g.Count("counter step on a captured local")
			e.feat["set captured local"] = true
			e.ref(n)
			return L(A("set"), A(n), L(A("+"), A(n), I(int64(1+e.rnd(3)))))
		}
	}
	switch t {
	case sI:
		switch e.rnd(12) {
		case 0, 1:
			return L(A([]string{"+", "-", "*"}[e.rnd(3)]), e.expr(sI, d-1), e.expr(sI, d-1))
		case 2, 3:
			e.g.Count("call F0")
			return L(e.callee(sF0, d-1))
		case 4, 5:
			e.g.Count("call F1")
			return L(e.callee(sF1, d-1), e.expr(sI, d-1))
		case 6:
			e.g.Count("call H (closure passed as argument)")
			e.feat["closure passed as argument"] = true
			return L(e.callee(sH, d-1), e.expr(sF0, d-1))
		case 7:
			e.g.Count("call maker result ((m x))")
			return L(L(e.callee(sM, d-1), e.expr(sI, d-1)))
		case 8:
			e.g.Count("call via array")
			e.feat["closure stored in data"] = true
			return L(L(A("aget"), e.expr(sA, d-1), I(int64(e.rnd(2)))))
		case 9:
			e.g.Count("apply")
			if e.rnd(2) == 0 {
				return L(A("apply"), e.expr(sF1, d-1), SQ(e.expr(sI, d-1)))
			}
			return L(A("apply"), e.expr(sF0, d-1), SQ())
		case 10:
			e.g.Count("map")
			return L(A("aget"), L(A("map"), e.expr(sF1, d-1), SQ(e.expr(sI, d-1), e.expr(sI, d-1))), I(int64(e.rnd(2))))
		case 11:
			e.g.Count("call via list")
			e.feat["closure stored in data"] = true
			return L(L(A([]string{"first", "second"}[e.rnd(2)]), L(A("list"), e.expr(sF0, d-1), e.expr(sF0, d-1))))
		}
	case sF0:
		switch e.rnd(5) {
		case 0:
			e.g.Count("F0 from maker")
			return L(e.callee(sM, d-1), e.expr(sI, d-1))
		case 1:
			e.g.Count("F0 from array")
			e.feat["closure stored in data"] = true
			return L(A("aget"), e.expr(sA, d-1), I(int64(e.rnd(2))))
		default:
			return e.fnForm(sF0, d)
		}
	case sF1, sM, sH:
		return e.fnForm(t, d)
	case sA:
		switch e.rnd(4) {
		case 0:
			e.g.Count("A append")
			e.feat["closure stored in data"] = true
			return L(A("append"), e.expr(sA, d-1), e.expr(sF0, d-1))
		case 1:
			e.g.Count("A concat")
			return L(A("concat"), e.expr(sA, d-1), e.expr(sA, d-1))
		default:
			e.g.Count("A literal")
			e.feat["closure stored in data"] = true
			return SQ(e.expr(sF0, d-1), e.expr(sF0, d-1))
		}
	}
	return e.lit(t)
}

func (e *scg) setForm(n string, t sty, d int) *nd {
	b := e.visible(n)
	e.g.Count("form set")
	if b != nil {
		e.noteRef(n, b)
		cross := e.fnDepth - b.fnDepth
		if cross > 0 && b.frame > 0 {
			e.feat["set captured local"] = true
		} else if cross > 0 {
			e.feat["set global from function"] = true
		}
		if _, cnt := e.lookup(n); cnt >= 2 {
			e.feat["set shadowing name"] = true
		}
	}
	var rhs *nd
	u := e.hide(n)
	lim := 0
	if holdsClosures(t) {
		lim = b.rank
		if lim == 0 {
			lim = 1
		}
	}
	e.withLimit(lim, func() { rhs = e.expr(t, d-1) })
	u()
	return L(A("set"), A(n), rhs)
}

// fnForm: a fn literal of type t. The result of a function of type sM is a closure created
// in the activation and returned from it.
func (e *scg) fnForm(t sty, d int) *nd {
	e.g.Count("form fn")
	var ps []string
	var pts []sty
	rt := sI
	switch t {
	case sF1:
		ps, pts = []string{e.name()}, []sty{sI}
	case sM:
		ps, pts, rt = []string{e.name()}, []sty{sI}, sF0
	case sH:
		ps, pts = []string{e.name()}, []sty{sF0}
	}
	if e.fnDepth > 0 {
		e.feat["fn created inside a function"] = true
	}
	savedCond := e.cond
	e.cond = 0
	e.pushFn("")
	pk := []*nd{}
	for i, p := range ps {
		e.bindParam(p, pts[i])
		pk = append(pk, A(p))
	}
	k := []*nd{A("fn"), SQ(pk...)}
	for i := e.rnd(3) / 2; i > 0; i-- {
		k = append(k, e.stmt(d-1))
	}
	var body *nd
	if rt == sF0 {
		e.feat["closure returned from its creator"] = true
		body = e.expr(sF0, d-1)
	} else {
		body = e.expr(rt, d-1)
	}
	k = append(k, body)
	e.popFn()
	e.cond = savedCond
	return L(k...)
}

func (e *scg) letForm(t sty, d int) *nd {
	seq := e.rnd(2) == 0
	kw := map[bool]string{true: "letseq", false: "let"}[seq]
	e.g.Count("form " + kw)
	n := 1 + e.rnd(2)
	var names []string
	var types []sty
	var binds []*nd
	var ranks []int
	var unhide []func()
	e.push()
	used := map[string]bool{}
	for i := 0; i < n; i++ {
		bt := []sty{sI, sI, sI, sF0, sF0, sF1, sM, sH, sA}[e.rnd(9)]
		nm := e.name()
		if used[nm] {
			continue
		}
		used[nm] = true
		names = append(names, nm)
		types = append(types, bt)
	}
	// the initialisers run inside the new scope; a closure made by one of them captures that
	// scope and later sees every name the form binds there afterwards (all of them for let,
	// the own and the later ones for letseq): inside function bodies those names are hidden
	for _, nm := range names {
		unhide = append(unhide, e.hide(nm))
	}
	for i, nm := range names {
		var init *nd
		rk := e.withLimit(0, func() { init = e.expr(types[i], d-1) })
		ranks = append(ranks, rk+1)
		binds = append(binds, A(nm), init)
		if seq {
			unhide[i]()
			e.bind(nm, types[i]).rank = rk + 1
		}
	}
	if !seq {
		for i := len(unhide) - 1; i >= 0; i-- {
			unhide[i]()
		}
		for i, nm := range names {
			e.bind(nm, types[i]).rank = ranks[i]
		}
	}
	k := []*nd{A(kw), SQ(binds...)}
	savedCond := e.cond
	e.cond = 0
	for i := e.rnd(3) / 2; i > 0; i-- {
		k = append(k, e.stmt(d-1))
	}
	k = append(k, e.expr(t, d-1))
	e.cond = savedCond
	e.pop()
	return L(k...)
}

// defStmt: (def n e) in the innermost scope. A name already bound in this scope keeps its type.
func (e *scg) defStmt(d int) *nd {
	n := e.name()
	t := []sty{sI, sI, sI, sF0, sF0, sF1, sM, sH, sA}[e.rnd(9)]
	fr := e.frames[len(e.frames)-1]
	if b, ok := fr.vars[n]; ok {
		if fr.hides[n] > 0 || b.noset {
			return L(A("trace"), e.expr(sI, d-1))
		}
		t = b.ty
		e.g.Count("stmt re-def in the same scope")
	} else {
		e.g.Count("stmt def")
	}
	lim, rank := 0, 0
	if b, ok := fr.vars[n]; ok && holdsClosures(t) {
		lim, rank = b.rank, b.rank
		if lim == 0 {
			lim = 1
		}
	} else if ob := e.visible(n); !ok && ob != nil && fr.outerRefs[n] {
		// see sframe.outerRefs
		if ob.noset {
			return L(A("trace"), e.expr(sI, d-1))
		}
		e.g.Count("stmt def shadowing a name already referred to in this scope")
		t = ob.ty
		if holdsClosures(t) {
			lim, rank = ob.rank, ob.rank
			if lim == 0 {
				lim = 1
			}
		}
	}
	u := e.hide(n)
	var rhs *nd
	rk := e.withLimit(lim, func() { rhs = e.expr(t, d-1) })
	u()
	if lim == 0 && holdsClosures(t) {
		rank = rk + 1
	}
	e.bind(n, t).rank = rank
	return L(A("def"), A(n), rhs)
}

func (e *scg) defnStmt(d int) *nd {
	n := e.name()
	t := []sty{sF0, sF1, sF1, sM, sH}[e.rnd(5)]
	fr := e.frames[len(e.frames)-1]
	if b, ok := fr.vars[n]; ok {
		if fr.hides[n] > 0 || b.noset {
			return L(A("trace"), e.expr(sI, d-1))
		}
		t = b.ty
		if t == sI || t == sA {
			return e.defStmt(d)
		}
	} else if ob := e.visible(n); ob != nil && fr.outerRefs[n] {
		return e.defStmt(d)
	}
	e.g.Count("stmt defn")
	if e.fnDepth > 0 {
		e.feat["defn inside a function"] = true
	}
	var ps []string
	var pts []sty
	rt := sI
	switch t {
	case sF1:
		ps, pts = []string{e.name()}, []sty{sI}
	case sM:
		ps, pts, rt = []string{e.name()}, []sty{sI}, sF0
	case sH:
		ps, pts = []string{e.name()}, []sty{sF0}
	}
	lim, rank := 0, 0
	if b, ok := fr.vars[n]; ok {
		lim, rank = b.rank, b.rank
		if lim == 0 {
			lim = 1
		}
	}
	u := e.hide(n)
	savedCond := e.cond
	e.cond = 0
	var k []*nd
	rk := e.withLimit(lim, func() {
		e.pushFn(n)
		pk := []*nd{}
		for i, p := range ps {
			e.bindParam(p, pts[i])
			pk = append(pk, A(p))
		}
		k = []*nd{A("defn"), A(n), SQ(pk...)}
		for i := e.rnd(3) / 2; i > 0; i-- {
			k = append(k, e.stmt(d-1))
		}
		if rt == sF0 {
			e.feat["closure returned from its creator"] = true
		}
		k = append(k, e.expr(rt, d-1))
		e.popFn()
	})
	e.cond = savedCond
	u()
	if lim == 0 {
		rank = rk + 1
	}
	e.bind(n, t).rank = rank
	return L(k...)
}

func (e *scg) forStmt(d int) *nd {
	e.g.Count("stmt for")
	ctr := e.name()
	bound := int64(1 + e.rnd(3))
	e.push()
	b := e.bind(ctr, sI)
	b.noset = true
	k := []*nd{A("for"), SQ(L(A("def"), A(ctr), I(0)), L(A("<"), A(ctr), I(bound)), L(A("set"), A(ctr), L(A("+"), A(ctr), I(1))))}
	savedCond := e.cond
	e.cond = 0
	for i := 1 + e.rnd(2); i > 0; i-- {
		k = append(k, e.stmt(d-1))
	}
	e.cond = savedCond
	e.pop()
	return L(k...)
}

func (e *scg) stmt(d int) *nd {
	e.budget--
	if d <= 0 {
		return L(A("trace"), e.expr(sI, 0))
	}
	switch e.rnd(12) {
	case 0, 1, 2:
		if e.cond == 0 {
			return e.defStmt(d)
		}
	case 3, 4:
		t := []sty{sI, sI, sF0, sF1, sA, sM}[e.rnd(6)]
		if c := e.candidates(t, true); len(c) > 0 {
			return e.setForm(c[e.rnd(len(c))], t, d)
		}
	case 5, 6:
		if e.cond == 0 && d > 1 {
			return e.defnStmt(d)
		}
	case 7:
		if d > 1 {
			return e.forStmt(d)
		}
	case 8:
		// grow an array of closures in place
		if c := e.candidates(sA, true); len(c) > 0 {
			n := c[e.rnd(len(c))]
			e.g.Count("stmt push closure")
			e.feat["closure stored in data"] = true
			b := e.visible(n)
			lim := b.rank
			if lim == 0 {
				lim = 1
			}
			var cl *nd
			u := e.hide(n)
			e.withLimit(lim, func() { cl = e.expr(sF0, d-1) })
			u()
			return L(A("set"), A(n), L(A("append"), A(n), cl))
		}
	}
	e.g.Count("stmt trace")
	return L(A("trace"), e.expr(sI, d-1))
}

// observe: the last form of a text calls everything callable that is visible at top level.
func (e *scg) observe() *nd {
	var k []*nd
	for _, n := range e.pool {
		b := e.visible(n)
		if b == nil {
			continue
		}
		switch b.ty {
		case sI:
			k = append(k, A(n))
		case sF0:
			k = append(k, L(A(n)))
		case sF1:
			k = append(k, L(A(n), I(int64(e.rnd(4)))))
		case sM:
			k = append(k, L(L(A(n), I(int64(e.rnd(4))))))
		case sH:
			k = append(k, L(A(n), L(A("fn"), SQ(), I(int64(20+e.rnd(5))))))
		case sA:
			k = append(k, L(A("map"), L(A("fn"), SQ(A("q")), L(A("q"))), A(n)))
		}
	}
	return SQ(k...)
}

func (e *scg) program() []*nd {
	var forms []*nd
	n := 2 + e.rnd(4)
	e.budget = 25 + e.rnd(45)
	for i := 0; i < n; i++ {
		if e.budget < 8 {
			e.budget = 8
		}
		forms = append(forms, e.stmt(3+e.rnd(3)))
	}
	forms = append(forms, e.observe())
	return forms
}

// ---- shape templates ------------------------------------------------------------------

// two distinct names, three when the pool allows
func (e *scg) names3() (string, string, string) {
	p := append([]string{}, e.pool...)
	e.g.Rng.Shuffle(len(p), func(i, j int) { p[i], p[j] = p[j], p[i] })
	if len(p) == 2 {
		return p[0], p[1], p[e.rnd(2)]
	}
	return p[0], p[1], p[2]
}

func sub(t string, m map[string]string) string {
	keys := make([]string, 0, len(m))
	for k := range m {
		keys = append(keys, k)
	}
	sort.Strings(keys)
	for _, k := range keys {
		t = strings.ReplaceAll(t, k, m[k])
	}
	return strings.ReplaceAll(t, " ", "~")
}

// scopeShapes: each entry is a history; $X $Y $Z are replaced by pool names (any
// assignment, collisions included: $X and $Z may be the same name), $N by small ints.
var scopeShapes = []struct{ name, text string }{
	{"counter: two closures share one variable", "(defn $X [$Y] [(fn [] (set $Y (+ $Y 1))) (fn [] $Y)]) (def $Z ($X $N)) ((aget $Z 0)) ((aget $Z 0)) [((aget $Z 1)) ((aget ($X 7) 1))]"},
	{"counter: activations are independent", "(defn $X [$Y] (fn [] (set $Y (+ $Y 1)) $Y)) (def $Z ($X $N)) (def q ($X 10)) [($Z) ($Z) (q) ($Z) (q)]"},
	{"caller local is not seen", "(def $X $N) (defn $Y [] $X) (defn $Z [$X] ($Y)) [($Z 5) (let [$X 6] ($Y)) ((fn [$X] ($Y)) 7)]"},
	{"caller local is not seen, one level deeper", "(def $X $N) (defn $Y [] (fn [] $X)) (defn $Z [$X] (($Y))) (defn q [$X] ($Z (+ $X 1))) [($Z 5) (q 8)]"},
	{"caller local is not set", "(def $X $N) (defn $Y [] (set $X (+ $X 1))) (defn $Z [$X] ($Y) $X) [($Z 5) $X]"},
	{"closure passed down sees its own scope", "(defn $Z [$X q] (q)) (defn $Y [$X] ($Z (+ $X 100) (fn [] $X))) ($Y $N)"},
	{"closure passed down through two callers", "(defn r [$X q] (q)) (defn $Z [$X q] (r (+ $X 10) q)) (defn $Y [$X] ($Z (+ $X 100) (fn [] $X))) ($Y $N)"},
	{"tail recursion collects closures", "(defn $X [$Y $Z] (cond (== $Y 0) $Z ($X (- $Y 1) (append $Z (fn [] $Y))))) (map (fn [q] (q)) ($X 3 []))"},
	{"tail recursion inside let collects closures", "(defn $X [$Y $Z] (cond (== $Y 0) $Z (let [q (* $Y 2)] ($X (- $Y 1) (append $Z (fn [] (+ q $Y))))))) (map (fn [q] (q)) ($X 3 []))"},
	{"non-tail recursion collects closures", "(defn $X [$Y] (cond (== $Y 0) [] (append ($X (- $Y 1)) (fn [] $Y)))) (map (fn [q] (q)) ($X 3))"},
	{"recursion: each activation has its own local", "(defn $X [$Y] (def $Z (* $Y 10)) (cond (> $Y 0) ($X (- $Y 1)) 0) $Z) ($X 3)"},
	{"loop: closures share the loop scope", "(def q []) (for [(def $X 0) (< $X 3) (set $X (+ $X 1))] (set q (append q (fn [] $X)))) (map (fn [r] (r)) q)"},
	{"loop: let per iteration is fresh", "(def q []) (for [(def $X 0) (< $X 3) (set $X (+ $X 1))] (let [$Y (* $X 2)] (set q (append q (fn [] (set $Y (+ $Y 1)) $Y))))) (map (fn [r] (r)) q) (map (fn [r] (r)) q)"},
	{"loop: function call per iteration is fresh", "(def q []) (defn $Z [$X] (fn [] $X)) (for [(def $X 0) (< $X 3) (set $X (+ $X 1))] (set q (append q ($Z $X)))) (map (fn [r] (r)) q)"},
	{"map: one activation per element", "(def q (map (fn [$X] (fn [] (set $X (+ $X 1)) $X)) [1 2 3])) (map (fn [r] (r)) q) (map (fn [r] (r)) q)"},
	{"defn inside a function captures the activation", "(defn $X [$Y] (defn $Z [q] (+ $Y q)) $Z) (def r ($X 1)) (def s ($X 2)) [(r 10) (s 10)]"},
	{"defn inside a function is local to it", "(def $Z 1) (defn $X [$Y] (defn $Z [] $Y) ($Z)) [($X 5) $Z]"},
	{"inner defn called after the outer returned", "(defn $X [$Y] (defn $Z [] (set $Y (+ $Y 1)) $Y) (fn [] ($Z))) (def q ($X $N)) [(q) (q) (($X 50))]"},
	{"shadowing: let in fn in let", "(def $X 1) (let [$X 2] ((fn [] (let [$X 3] (set $X (+ $X 1))) $X)))"},
	{"shadowing: parameter shadows captured name", "(def $X 1) (defn $Y [$X] (fn [$X] (fn [] $X))) ((($Y 2) 3))"},
	{"shadowing: set reaches the nearest binding only", "(def $X 1) (def q (let [$X 2] (fn [] (set $X (+ $X 10)) $X))) [(q) $X (q) $X]"},
	{"shadowing: def inside a function does not touch the global", "(def $X 1) (defn $Y [] (def $X 2) (fn [] $X)) [(($Y)) $X]"},
	{"newScope and let frames are captured", "(def q (newScope (def $X $N) (let [$Y (+ $X 1)] (fn [] (set $X (+ $X $Y)) $X)))) [(q) (q)]"},
	{"closure stored in a list, called later", "(def q (let [$X $N] (list (fn [] $X) (fn [] (set $X (+ $X 1)))))) ((second q)) ((first q))"},
	{"closure returned through cond and let", "(defn $X [$Y] (let [$Z (* $Y 2)] (cond (> $Y 0) (fn [] (+ $Y $Z)) (fn [] 0)))) [(($X 3)) (($X 0))]"},
	{"apply and map call closures with their own scope", "(def $X 100) (defn $Y [$X] (fn [$Z] (+ $X $Z))) [(apply ($Y 1) [10]) (map ($Y 2) [10 20])]"},
	{"global closure across texts", "(def $X $N) (def q (let [$Y 5] (fn [] (set $Y (+ $Y $X)) $Y)))\x00(def $X 100) (q)\x00(let [$Y 0 $X 0] (q))"},
	{"global redefinition is seen by earlier closures", "(def $X 1) (defn $Y [] $X)\x00(def $X 2) ($Y)\x00(let [$X 3] ($Y))"},
	{"function redefined across texts", "(defn $X [] 1) (defn $Y [] ($X))\x00(defn $X [] 2) ($Y)"},
	{"three levels, each level mutated", "(defn $X [$Y] (fn [$Z] (fn [] (set $Y (+ $Y 1)) (set $Z (+ $Z 10)) (+ $Y $Z)))) (def q ($X 1)) (def r (q 1)) (def s (q 2)) [(r) (s) (r)]"},
	{"!closure called from a loop body in another function", "(def $X 7) (defn $Y [] $X) (defn $Z [] (def q 0) (for [(def $X 0) (< $X 2) (set $X (+ $X 1))] (set q (+ q ($Y)))) q) ($Z)"},
	{"tail call into another function", "(def $X 1) (defn $Y [] $X) (defn $Z [$X] ($Y)) (defn q [$X] ($Z (+ $X 1))) (q 5)"},
	{"self tail call then free variable", "(def $X 9) (defn $Y [] $X) (defn $Z [$X q] (cond (== $X 0) (+ q ($Y)) ($Z (- $X 1) (+ q 1)))) ($Z 3 0)"},
	{"!self as a value keeps recursing (tail call stays a jump)", "(defn $X [$Y $Z] (cond (== $Y 0) (len $Z) ($X (- $Y 1) (cons $X $Z)))) ($X 120 (list))"},
	{"!self as a value, then called through the value", "(defn $X [$Y $Z] (cond (== $Y 0) $Z ($X (- $Y 1) (+ $Z ((first (list $X)) 0 1))))) ($X 5 0)"},
	{"self name re-bound by set, then called", "(defn $X [$Y] (set $X (fn [$Z] (+ $Z 7))) ($X $Y)) [($X 1) ($X 1)]"},
	{"self name re-bound by an inner closure", "(defn $X [$Y] ((fn [] (set $X (fn [$Z] (+ $Z 7))))) ($X $Y)) [($X 1) ($X 1)]"},
	{"self name shadowed by a parameter", "(defn $X [$X] ($X $N)) ($X (fn [$Y] (+ $Y 1)))"},
	{"self name shadowed by let", "(defn $X [$Y] (let [$X (fn [$Z] (+ $Z $Y))] ($X $N))) ($X 1)"},
	{"self name shadowed by letseq", "(defn $X [$Y] (letseq [$Z 1 $X (fn [q] (+ q $Y $Z))] ($X $N))) ($X 1)"},
	{"self name shadowed by def", "(defn $X [$Y] (def $X (fn [$Z] (+ $Z $Y))) ($X $N)) ($X 1)"},
	{"self name shadowed by an inner defn", "(defn $X [$Y] (defn $X [] $Y) ($X)) [($X 5) ($X 6)]"},
	{"self name shadowed in a nested scope only", "(defn $X [$Y] (cond (== $Y 0) 0 (begin (newScope (def $X 5) (trace $X)) ($X (- $Y 1))))) ($X 2)"},
	{"self name is an array parameter", "(defn $X [$Y $X] (cond (== $Y 0) $X ($X (- $Y 1) (append $X (fn [] $Y))))) ($X 3 [])"},
	{"!unbound free variable stays unbound although the caller binds it", "(defn $X [] $Y) (defn $Z [$Y] ($X))\x00($Z 1)\x00(let [$Y 5] ($X))\x00((fn [$Y] ($X)) 6)\x00(def $Y 7) [($Z 1) (let [$Y 5] ($X))]"},
	{"unbound free variable: caller binds it by let / loop / def", "(defn p [] $Y) (defn q [] (let [$Y 1] (p)))\x00(q)\x00(defn r [] (for [(def $Y 0) (< $Y 1) (set $Y (+ $Y 1))] (trace (p))))\x00(r)\x00(defn s [] (def $Y 3) (p))\x00(s)"},
	{"unbound free variable inside a returned closure", "(defn p [$X] (fn [] (+ $X $Y))) (defn q [$Y] ((p 1)))\x00(q 5)"},
	{"set of an unbound name binds locally, not in the caller", "(defn p [] (set $Y 5) $Y) (defn q [$Y] [(p) $Y]) (q 1)"},
	{"set of an unbound name does not reach a caller's let", "(defn p [] (set $Y 5) $Y) [(let [$Y 1] [(p) $Y]) (p)]"},
	{"def in the callee is invisible to the caller", "(defn p [] (def $Y 5) $Y) (defn q [] (p) $Y)\x00(q)"},
	{"one-form newScope still scopes its def", "(def $X 1) (newScope (def $X 2)) (newScope (set $X (+ $X 10))) $X"},
	{"one-form let body / empty binding list", "(def $X 1) (let [] (def $X 2)) (let [$Y 5] (def $X 3)) (letseq [] (def $X 4)) $X"},
	{"one-form function body defines a local", "(def $X 1) ((fn [] (def $X 2))) (defn $Y [] (def $X 3)) ($Y) $X"},
	{"loop with a one-form body defining a local", "(def $X 1) (for [(def $Y 0) (< $Y 2) (set $Y (+ $Y 1))] (def $X (+ $Y 10))) $X"},
	{"nested one-form scopes capture separately", "(def q (newScope (let [$X 1] (newScope (fn [] (set $X (+ $X 1)) $X))))) [(q) (q)]"},
	{"closure made by a let initialiser sees the let's bindings", "(def $Y 9) [(let [$X (fn [] $Y) $Y 2] ($X)) (letseq [$X (fn [] $Y) $Y 3] ($X)) (let [$X (fn [] (set $Y (+ $Y 1)) $Y) $Y 5] [($X) $Y]) $Y]"},
	{"let initialisers do not see the let's own names", "(def $X 1) (def $Y 2) [(let [$X $Y $Y $X] [$X $Y]) (letseq [$X $Y $Y $X] [$X $Y]) (let [$X (+ $X 10)] (let [$X (+ $X 100)] $X))]"},
	// activation trees (mutation round 4, seeded/C03-m4: the parent of a function literal cached on the shared
	// template at its first instantiation): EVERY level of a nest of makers is instantiated more than once, by
	// different activations of the level above, and every leaf is observed — also after its siblings were made
	{"activation tree: three levels, every level instantiated twice", "(defn $X [$Y] (fn [$Z] (fn [] (+ (* 100 $Y) $Z)))) (def p ($X 1)) (def q ($X 2)) (def r (p 3)) (def s (q 4)) [(r) (s) ((p 5)) ((q 6)) (r)]"},
	{"activation tree: thunks between the binder and the use", "(defn $X [$Y] (fn [] (fn [] $Y))) [((($X 1))) ((($X 2))) (let [q ($X 3) r ($X 4)] [((q)) ((r)) ((q))])]"},
	{"activation tree: four levels", "(defn $X [$Y] (fn [] (fn [$Z] (fn [] (+ (* 10 $Y) $Z))))) (def p (($X 1))) (def q (($X 2))) [((p 3)) ((q 4)) ((p 5))]"},
	{"activation tree: the far variable is mutated per activation", "(defn $X [$Y] (fn [] (fn [] (set $Y (+ $Y 1)) $Y))) (def p (($X 10))) (def q (($X 20))) [(p) (q) (p) (q)]"},
	{"activation tree: inner defn, then a thunk", "(defn $X [$Y] (defn $Z [] (fn [] $Y)) $Z) [((($X 1))) ((($X 2)))]"},
	{"activation tree across texts", "(defn $X [$Y] (fn [] (fn [] $Y))) (def p ($X 1))\x00((p))\x00(def q ($X 2)) [((q)) ((p))]"},
	{"maker called in a tail-recursive loop", "(defn $Z [$X] (fn [] $X)) (defn $Y [$X q] (cond (== $X 0) q ($Y (- $X 1) (append q ($Z $X))))) (map (fn [r] (r)) ($Y 3 []))"},
}

// Hand-written ops: the shapes of tests/closure*.zy, dynscope.zy, dynprob.zy.
var scopeFixed = []string{
	"(def x 1) (defn f [] x) (defn g [x] (f)) (g 2)",
	"(defn adder [a] (fn [b] (+ a b))) (def add3 (adder 3)) (add3 4)",
	"(def a 1) (defn f [] a) (let [a 2] (f))",
	"(defn mk [] (def c 0) (fn [] (set c (+ c 1)) c)) (def c1 (mk)) (def c2 (mk)) [(c1) (c1) (c2)]",
	"(def x 1) (defn f [] (set x 5)) (defn g [] (def x 2) (f) x) [(g) x]",
	"(defn f [a] (defn g [] a) g) (def h (f 1)) (def a 2) (h)",
	"(def a 10) (defn f [a] (g)) (defn g [] a) (f 20)",
	"(def fs []) (for [(def i 0) (< i 3) (set i (+ i 1))] (let [j i] (set fs (append fs (fn [] j))))) (map (fn [h] (h)) fs)",
	"(defn compose [f g] (fn [x] (f (g x)))) (def inc (fn [x] (+ x 1))) (def dbl (fn [x] (* x 2))) ((compose inc dbl) 5)",
	"(let [x 1] (let [f (fn [] x)] (let [x 2] (f))))",
	"(letseq [x 1 f (fn [] x) x 2] (f))",
	"(def x 0) (defn f [n] (cond (== n 0) x (let [x n] (f (- n 1))))) (f 3)",
	"(defn f [x] (newScope (def x 2) (fn [] x))) ((f 1))",
	"(def x 1) (defn f [] (newScope (set x 2)) x) (f)",
	"(defn f [& r] (fn [] r)) ((f 1 2))",
	"(def y 5) (defn f [x] (map (fn [e] (+ e x y)) [1 2])) (let [x 100 y 200] (f 10))",
}

// K4 (known finding of C02, a C03 matter as well): a call whose head has the NAME of the
// enclosing defn but denotes a parameter or local of it.
var scopeK4 = []string{
	"(defn~f~[f]~(f~1))~(f~(fn~[a]~a))",
	"(defn~f~[x]~(let~[f~(fn~[a]~(+~a~1))]~(f~x)))~(f~1)",
	"(defn~f~[x]~(def~f~(fn~[a]~(+~a~1)))~(f~x))~(f~1)",
}

func scopeGen(g *Gen) {
	for _, t := range scopeFixed {
		g.Emit("%s", strings.ReplaceAll(t, " ", "~"))
		g.Count("stream fixed")
	}
	for _, t := range scopeK4 {
		g.Emit("%s", t)
		g.Count("stream fixed self-name")
	}
	pools := [][]string{{"a", "b"}, {"a", "b", "c"}}
	// shapes: every template under several name assignments
	reps := 3
	if g.Thorough() {
		reps = 40
	}
	for _, sh := range scopeShapes {
		seen := map[string]bool{}
		for r := 0; r < reps; r++ {
			e := &scg{g: g, pool: pools[g.Rng.Intn(2)]}
			if strings.HasPrefix(sh.name, "!") {
				e.pool = pools[1]
			}
			x, y, z := e.names3()
			// collisions between the three roles; a template whose name starts with `!`
			// does not terminate under a collision and keeps them distinct
			if !strings.HasPrefix(sh.name, "!") {
				if g.Rng.Intn(4) == 0 {
					z = x
				}
				if g.Rng.Intn(6) == 0 {
					z = y
				}
			}
			m := map[string]string{"$X": x, "$Y": y, "$Z": z, "$N": fmt.Sprint(g.Rng.Intn(5))}
			var texts []string
			for _, t := range strings.Split(sh.text, "\x00") {
				texts = append(texts, sub(t, m))
			}
			op := strings.Join(texts, " ")
			if seen[op] {
				continue
			}
			seen[op] = true
			g.Emit("%s", op)
			g.Count("stream shape")
			g.Count("shape " + strings.TrimPrefix(sh.name, "!"))
		}
	}
	nTyped := 900
	if g.Thorough() {
		nTyped = 60000
	}
	for i := 0; i < nTyped; i++ {
		e := &scg{g: g, pool: pools[g.Rng.Intn(2)], feat: map[string]bool{}, self: []string{""}}
		e.push()
		ntext := 1 + g.Rng.Intn(3)
		var texts []string
		depth := 0
		for t := 0; t < ntext; t++ {
			forms := e.program()
			for _, f := range forms {
				if f.depth() > depth {
					depth = f.depth()
				}
			}
			texts = append(texts, renderProg(forms, nil))
		}
		g.Count("stream typed")
		g.Count(fmt.Sprintf("typed pool %d", len(e.pool)))
		g.Count(fmt.Sprintf("typed history length %d", ntext))
		g.Count(fmt.Sprintf("typed depth<=%d", (depth/3+1)*3))
		for f := range e.feat {
			g.Count("typed op: " + f)
		}
		if e.feat["capture local"] && e.feat["capture shadowing name"] {
			g.Count("typed op: captures a local whose name is bound more than once")
		}
		g.Emit("%s", strings.Join(texts, " "))
	}
	scopeSmall(g)
}

// ---- exhaustive small scope ------------------------------------------------------------
//
// Programs over the names a b. Prelude (one text):
//
//	(def a 1) (def b 2) (def fs []) (defn p [] [a b]) (defn w [] (set a (+ a 100)))
//
// then one text that nests up to three *levels*. A level is a scope construct K binding a
// name n ∈ {a, b} to v ∈ {a fresh constant, (+ <other name> 1)}:
//
//	let      (let [n v] BODY)
//	letseq   (letseq [n v] BODY)
//	call     ((fn [n] BODY) v)                 a function activation
//	defn     (begin (defn g<k> [n] BODY) (g<k> v))   a named function, called in place
//	scope    (newScope (def n v) BODY)
//	for      (for [(def n v) (< n v+1) (set n (+ n 1))] BODY)   -- one iteration
//	thunk    ((fn [] (def n v) BODY))          def inside a function
//	tail     (begin (defn t<k> [n k] (cond (== k 1) (begin BODY) (t<k> v 1))) (t<k> 0 0))
//	                                           -- BODY runs in an activation entered by a self tail call
//
// and BODY is
//
//	(set fs (append fs (fn [] [a b])))     capture this level's view of a and b
//	INNER                                  the next level, or the observation
//	M                                      one of: nothing | (set n (+ n 10)) | (w)
//
// The observation at the innermost point is (trace [a b (p)]) (trace (map (fn [h] (h)) fs)):
// what is visible here, what a function made at top level sees from here (never a caller's
// local), what the closures captured at each outer level see when called from here. After
// everything returned the text ends with (map (fn [h] (h)) fs) and [a b]: captured variables
// outlive their activations, mutations made after the capture are visible through it.
type smLevel struct {
	kind, name, val, mut int
}

var smKinds = []string{"let", "letseq", "call", "defn", "scope", "for", "thunk", "tail"}

func smRender(levels []smLevel) string {
	const capture = "(set fs (append fs (fn [] [a b])))"
	const callAll = "(map (fn [h] (h)) fs)"
	var build func(k int) string
	build = func(k int) string {
		if k == len(levels) {
			return "(trace [a b (p)]) (trace " + callAll + ")"
		}
		lv := levels[k]
		n := []string{"a", "b"}[lv.name]
		other := []string{"b", "a"}[lv.name]
		v := fmt.Sprint(10 * (k + 1))
		if lv.val == 1 {
			v = "(+ " + other + " 1)"
		}
		mut := []string{"", " (set " + n + " (+ " + n + " 10))", " (w)"}[lv.mut]
		body := capture + " " + build(k+1) + mut
		switch smKinds[lv.kind] {
		case "let":
			return "(let [" + n + " " + v + "] " + body + ")"
		case "letseq":
			return "(letseq [" + n + " " + v + "] " + body + ")"
		case "call":
			return "((fn [" + n + "] " + body + ") " + v + ")"
		case "defn":
			return fmt.Sprintf("(begin (defn g%d [%s] %s) (g%d %s))", k, n, body, k, v)
		case "scope":
			return "(newScope (def " + n + " " + v + ") " + body + ")"
		case "for":
			return fmt.Sprintf("(for [(def %s %s) (< %s 1000) (set %s (+ %s 1000))] %s)", n, v, n, n, n, body)
		case "thunk":
			return "((fn [] (def " + n + " " + v + ") " + body + "))"
		case "tail":
			return fmt.Sprintf("(begin (defn t%d [%s k] (cond (== k 1) (begin %s) (t%d %s 1))) (t%d 0 0))", k, n, body, k, v, k)
		}
		return ""
	}
	prelude := "(def a 1) (def b 2) (def fs []) (defn p [] [a b]) (defn w [] (set a (+ a 100)))"
	text := build(0) + " " + callAll + " [a b]"
	return strings.ReplaceAll(prelude, " ", "~") + " " + strings.ReplaceAll(text, " ", "~") + " " + strings.ReplaceAll(callAll+" [a b (p)]", " ", "~")
}

func smAll(depth int) [][]smLevel {
	var one []smLevel
	for k := range smKinds {
		for n := 0; n < 2; n++ {
			for v := 0; v < 2; v++ {
				for m := 0; m < 3; m++ {
					one = append(one, smLevel{k, n, v, m})
				}
			}
		}
	}
	out := [][]smLevel{{}}
	for d := 0; d < depth; d++ {
		var next [][]smLevel
		for _, p := range out {
			for _, l := range one {
				next = append(next, append(append([]smLevel{}, p...), l))
			}
		}
		out = next
	}
	return out
}

func scopeSmall(g *Gen) {
	emit := func(ls []smLevel) {
		g.Emit("%s", smRender(ls))
		g.Count(fmt.Sprintf("small-scope nesting %d", len(ls)))
		fn := 0
		for _, l := range ls {
			k := smKinds[l.kind]
			if k == "call" || k == "defn" || k == "thunk" || k == "tail" {
				fn++
			}
		}
		g.Count(fmt.Sprintf("small-scope function levels %d", fn))
		if len(ls) >= 2 && ls[0].name == ls[len(ls)-1].name {
			g.Count("small-scope innermost shadows outermost")
		}
		mut := false
		for _, l := range ls {
			if l.mut != 0 {
				mut = true
			}
		}
		if mut {
			g.Count("small-scope a captured variable is mutated after its capture")
		}
		g.Count("small-scope closures called after their creators returned")
	}
	for _, ls := range smAll(1) {
		emit(ls)
	}
	l2 := smAll(2)
	if g.Thorough() {
		for _, ls := range l2 {
			emit(ls)
		}
	} else {
		for i := 0; i < 700; i++ {
			emit(l2[g.Rng.Intn(len(l2))])
		}
	}
	// nesting 3: 96^3 = 884 736 programs. Thorough: the complete set over the reduced
	// mutation alphabet {nothing, set} at the two outer levels is still 64*64*96 = 393 216;
	// it is enumerated in full only with VERIF_SCOPE_FULL=1, otherwise every program whose
	// index is ≡ seed (mod 4) — a different quarter on each seed.
	one := smAll(1)
	if g.Thorough() {
		idx := 0
		for _, a := range one {
			if a[0].mut == 2 {
				continue
			}
			for _, b := range one {
				if b[0].mut == 2 {
					continue
				}
				for _, c := range one {
					idx++
					if !scopeFull && int64(idx)%4 != g.Seed%4 {
						continue
					}
					emit([]smLevel{a[0], b[0], c[0]})
				}
			}
		}
	} else {
		for i := 0; i < 600; i++ {
			emit([]smLevel{one[g.Rng.Intn(len(one))][0], one[g.Rng.Intn(len(one))][0], one[g.Rng.Intn(len(one))][0]})
		}
	}
}

func init() { channels["scope"] = &Channel{Gen: scopeGen, Exec: evalExec} }
