package main

// Generators of channel crash (C01).
//
//	enum   every string over the token alphabet, in ranges (lengths 0-4 over the full alphabet A,
//	       475 k strings; thorough adds length 5 over the reduced alphabet B)
//	mut    byte / token / tree mutations of /repo/tests/*.zy (a prefix of top-level forms of a
//	       script, one to three mutations inside it)
//	form   every special form, every reserved word, every name bound in the three
//	       configurations (functions, builders, macros) applied to 0..3 arguments of assorted
//	       types, bare and inside a few contexts (operand, let initialiser, function body, cond
//	       arm, infix block); out-of-range indices; malformed shapes of each special form
//	hand   hand-written regression texts (every defect met so far)
//	repl   batches of the above piped through the real Repl() in a child process
//
// Names that reach the outside world (crashDeny) are never generated.

import (
	"encoding/hex"
	"os"
	"path/filepath"
	"sort"
	"strings"

	"github.com/glycerine/zygomys/v9/zygo"
)

var crashSpecialForms = []string{"and", "or", "cond", "quote", "def", "mdef", "fn", "defn", "begin",
	"let", "letseq", "assert", "defmac", "macexpand", "syntaxQuote", "for", "set", "break",
	"continue", "newScope", "package", "return", "unquote", "unquote-splicing", "infix", "if", "else"}

// argument pool: assorted types, boundary values, things that are not values
var crashArgs = []string{
	"1", "0", "-1", "2.5", "9223372036854775807", "-9223372036854775808", "99999999999999999999",
	"1e999", "NaN", "3ULL", "\"s\"", "\"\"", "`raw`", "'c'", "[]", "[1 2]", "[1 [2] \"x\"]", "()",
	"(list 1 2)", "(quote (1 \\ 2))", "(hash)", "(hash a: 1)", "{a: 1 b: [2]}", "nil", "true", "false",
	"a", "zzz", "(quote a)", "a:", ".a", "a.b", "%a", "$a", "&a", "(fn [] 1)", "(fn [x] x)", "+",
	"first", "(begin)", "(newScope)", "(quote)", "(list)", "^a", "(raw \"ab\")", "(str 2.0)", "(read \"\")",
	"(make [] int64)", "int64", "(and)", "(cond 1)", "[a: 1]", "(array 1 2)", "(cons 1 2)",
}

var crashHand = []string{
	"(+ 1 (cond true (begin) 2))", "(list 1 ^~@(list) 3)", "(and)", "(or)", "{\"a\" \"\\q\"}",
	"(read (str 2.0))", "(read \"2\")", "(read \"\")", "(read \"(\")", "(+ 1 (read \"\"))", "(struct Car [(field Id: int64 e:0)]) (def w (Car Id: 1)) {w.Id = [(list 1)]}",
	"(def x (read \"\")) x", "(cond (read \"\") 1 2)", "(str (read \"\"))", "(msgpack-map 1)",
	"(msgpack-map)", "(msgpack-map a)", "(let)", "(cond)", "(for)", "(fn)", "(defn)", "(quote)",
	"(begin)", "(newScope)", "(return)", "(+ 1 (begin))", "(+ 1 (newScope))", "(+ 1 (quote))",
	"(list (begin) (begin))", "[(begin)]", "((begin))", "(def a (begin))", "(let [a (begin)] a)",
	"(cond (begin) 1 2)", "(for [(begin) (begin) (begin)] (begin))", "((fn [] (begin)))",
	"(macexpand (begin))", "(hash a: (begin))", "{a = (begin)}", "(.)", ". ", "a. ", "(a.b.c)",
	"(def a.b 3)", "(set .a 3)", "(def a (hash)) (a.)", "(str (quote (1 \\ 2)))", "~a", "~@a", "^~a",
	"^(~@1)", "^~@1", "(syntaxQuote ~@a)", "(quote ~a)", "(unquote a)", "(unquote-splicing a)",
	"(defmac m [a] ^(~a ~@a)) (m 1)", "(defmac m [] 1) (m 1 2)", "(defn f [a] (f a))",
	"(for [(def i 0) true (def i 1)] (break))", "(break)", "(continue)", "(for [1 2 3] (break:))",
	"(for [(def i 0) (< i 3) (def i (+ i 1))] (fn [] (break)))", "((fn [] (break)))",
	"(aget [1 2] 5)", "(aget [1 2] -1)", "(aset [1] 3 0)", "(slice [1 2 3] 2 1)", "(slice \"abc\" 2 9)",
	"(sget \"abc\" 10)", "(hpair (hash) 3)", "(first [])", "(rest [])", "(second [1])", "(nth 5 [1])",
	"([1 2] 3)", "{a[5]}", "{1 +}", "{+}", "{}", "{ }", "{:}", "{a:}", "{a: }", "{a: 1", "{\"a\"}",
	"{\"a\":}", "{`a`:}", "{`a`", "{/*c*/}", "{/*c*/ a: 1}", "{//c\n a: 1}", "{/**/ /**/ /**/ \"a\": 1}",
	"{a = }", "{= 1}", "{a[}", "{a[1}", "{if}", "{if 1}", "{if 1 {2} else}", "{for}", "{for ;;}",
	"{for i = 0; i < 1; i++ { break }}", "{a++}", "{++}", "{a.b = 1}", "{- }", "{! }", "{1 2 3}",
	"{a := 1; a[0]}", "{return}", "{:= 1}", "{a, b = 1}", "{a, b = [1]}", "{[a b] = [1 2 3]}",
	"(mdef a b (list 1))", "(mdef)", "(mdef a)", "(def [a b] [1])", "(set a)", "(def 1 2)", "(def \"a\" 1)",
	"(let [a] a)", "(let [1 2] 3)", "(let a 1)", "(letseq [a 1 b] a)", "(fn a 1)", "(fn [1] 1)", "(fn [& ] 1)",
	"(fn [a &] 1)", "(fn [& a b] 1)", "(defn 1 [] 2)", "(defn f 1 2)", "(defn f [a:int64] a)", "((fn [a b] a) 1)",
	"((fn [& r] r))", "(apply + 1)", "(apply 1 [1])", "(map 1 [1])", "(map + 1)", "(map (fn [] 1) [1 2])",
	"(package)", "(package a)", "(package \"a\" 1)", "(package a { B := 1 }) a.B", "(assert)", "(assert false)",
	"(defmac)", "(defmac m)", "(defmac m [])", "(defmac 1 [] 2)", "(macexpand)", "(macexpand 1 2)",
	"(macexpand (zzz))", "(syntaxQuote)", "(syntaxQuote 1 2)", "(quote 1 2)", "(begin 1 (begin) 2)",
	"(newScope 1 (newScope) 2)", "(struct)", "(struct A)", "(struct A [])", "(struct A [(field)])",
	"(struct A [(field a:)])", "(func)", "(func f)", "(method)", "(interface)", "(interface I)", "(var)",
	"(var a)", "(var a int64) a", "(A a: 1)", "(defmap)", "(defmap 1)", "(defmap a) (a 1)", "(range)",
	"(range k v (hash a: 1))", "(++)", "(++ 1)", "(+= 1)", "(-- \"a\")", "(colonAccess)", "(a: (hash))",
	"(:a (hash a: 1))", "(hget (hash) a:)", "(hset (hash) [] 1)", "(hset (hash) 1.5 1)", "(hdel)",
	"(-> (hash a: 1) a: b:)", "(-> 1 a:)", "(.a 1)", "(hash a:)", "(hash 1 2 3)", "(hash (list 1) 2)",
	"(json 1)", "(unjson 1)", "(unjson (raw \"{\"))", "(unjson (raw \"\"))", "(msgpack 1)", "(unmsgpack (raw \"\"))",
	"(unmsgpack (raw \"\\x81\"))", "(json2 (fn [] 1))", "(json (quote (1 \\ 2)))", "(togo (hash))", "(fromgo 1)",
	"(gob (hash))", "(str (fn [] 1))", "(str +)", "(str (quote ~a))", "(str [a: (hash)])", "(str int64)",
	"(type?)", "(type? (begin))", "(ptr 1)", "(deref 1)", "(deref-set 1 2)", "(* 1)", "(& a)", "(&1)",
	"(regexp \"(\")", "(regexp-find 1 2)", "(chomp 1)", "(nsplit \"a\" 1)", "(split \"a\")", "(sym2str 1)",
	"(str2sym \"\")", "(str2sym \"a b\")", "(gensym 1)", "(symnum (quote a))", "(mod 1 0)", "(/ 1 0)",
	"(/ 1)", "(<< 1 64)", "(<< 1 -1)", "(>> 1 -1)", "(** 2 -1)", "(** 0 -1)", "(- -9223372036854775808)",
	"(/ -9223372036854775808 -1)", "(mod -9223372036854775808 -1)", "(bit-not 1.5)", "(sll 1 1.5)",
	"(len)", "(len 1)", "(append)", "(append 1 2)", "(appendslice [1] 2)", "(concat)", "(concat [1] 2)",
	"(concat \"a\" [1])", "(cons)", "(flatten 1)", "(make)", "(make 1)", "(make [] 1)", "(make [] int64 -1)",
	"(array)", "(list)", "(arrayidx)", "(arrayidx [1] [5])", "(arrayidx [1] [0 0])", "(arrayidx 1 [0])",
	"(slurp)", "(exists?)", "(defined? 1)", "(eval)", "(eval (quote (begin)))", "(eval (quote (break)))",
	"(eval 1 2)", "(eval (quote (eval)))", "(not)", "(not 1 2)", "(== 1)", "(< 1 \"a\")", "(< (hash) 1)",
	"(== (fn [] 1) (fn [] 1))", "(== [1] [1 2])", "(string? )", "(zero? \"a\")", "(empty? 1)", "(copy 1)",
	"(field)", "(field a:)", "(slice-of)", "(pointer-to)", "(p 1)", "(printf)", "(printf 1)", "(printf \"%d %d\" 1)",
	"(println (fn [] 1))", "(print [1 (hash)])", "(sprintf \"%s\")", "(sprintf \"%!\" 1)",
	"(timeit 1)", "(asUint64 -1)", "(asUint64 \"a\")", "(raw)", "(raw 1)", "(raw2str 1)", "(str2raw 1)",
	"(dot a b)", "(dot)", "(a . b)", "'", "''", "'ab'", "'\\", "\"\\", "\"\\x\"", "\"", "`", "#", "#!a", "%", "^", "~", "@",
	"\\", "1.", ".1", "1..2", "1.2.3", "0x", "0xg", "0b2", "0o9", "1e", "1e+", "-", "--", "- 1", "-a", "1a", "a:b", "::", ":a:",
	"(", ")", "[", "]", "{", "}", "(]", "[)", "{)", "(}", "(()", "())", "(\\", "(1 \\", "(1 \\ 2", "(1 \\ 2 3)", "(\\ 1)",
	"(1 \\)", "[1 \\ 2]", "/*", "/* */", "*/", "//", "// a", "/", "(/*)", "(/* */)", "(//\n)", "[,]", "[,,1,]", "(,)", ";", "(;)",
}

// `include` reads files, so the name is denied; with arguments that hold no string nothing
// is opened: these exact texts are run all the same.
var crashIncludeTexts = []string{"(include)", "(include 1)", "(include a)", "(include [])", "(include ())", "(include (1 2))",
	"(include ([] \\ 2))", "(include [1 (2 \\ 3)])", "(include [[] ()])", "(include (() \\ 2))", "(+ 1 (include ([] \\ 2)))"}

// texts that do not terminate (answer `hang` after the watchdog, 2 s each): bare only
var crashNonterminating = []string{"(defmac m [] ^(m)) (m)", "(defn f [] (f)) (f)", "(defn f [n] (+ 1 (f n))) (f 1)",
	"(for [(def i 0) true (def i 1)] 1)"}

func crashEmitText(g *Gen, kind string, cfg byte, text string) {
	if crashDenied(text) && !crashAllowExact[text] {
		g.Count(kind + "-denied")
		return
	}
	g.Count(kind)
	g.Count("cfg-" + string(cfg))
	valid := true
	for _, r := range text {
		if r == 0xFFFD {
			valid = false
		}
	}
	if valid && strings.ToValidUTF8(text, "\uFFFD") == text {
		g.Emit("s %c %s", cfg, stringToCodes(text))
	} else {
		g.Emit("b %c %s", cfg, hex.EncodeToString([]byte(text)))
	}
}

// ---------------------------------------------------------------- enumeration

func pow(b, e int) int64 {
	r := int64(1)
	for i := 0; i < e; i++ {
		r *= int64(b)
	}
	return r
}

func crashGenEnum(g *Gen) {
	emit := func(alpha string, length int, step int64) {
		total := pow(len(crashAlphabets[alpha].toks), length)
		for from := int64(0); from < total; from += step {
			to := from + step
			if to > total {
				to = total
			}
			g.Emit("e %s %d %d %d", alpha, length, from, to)
			g.Stats["enum-strings"] += int(to - from)
			g.Count("enum-ranges")
		}
	}
	// full token alphabet A (26 symbols) to length 4; the operator-extended alphabet C (35
	// symbols) to length 3 (thorough: 4); token sequences inside ( ) [ ] { } (alphabets T U V,
	// 14 tokens incl. = := \ & *) to 4 tokens (thorough: 5); thorough: reduced alphabet B to 5
	for l := 0; l <= 4; l++ {
		emit("A", l, 8192)
	}
	maxC, maxT := 3, 4
	if g.Thorough() {
		maxC, maxT = 4, 5
		emit("B", 5, 8192)
	}
	for l := 1; l <= maxC; l++ {
		emit("C", l, 8192)
	}
	for _, a := range []string{"T", "U", "V"} {
		for l := 0; l <= maxT; l++ {
			emit(a, l, 8192)
		}
	}
}

// ---------------------------------------------------------------- corpus mutation

func crashCorpus() map[string]string {
	repo := os.Getenv("VERIF_REPO")
	if repo == "" {
		repo = "/repo"
	}
	files, _ := filepath.Glob(filepath.Join(repo, "tests", "*.zy"))
	sort.Strings(files)
	out := map[string]string{}
	for _, f := range files {
		b, err := os.ReadFile(f)
		if err != nil || len(b) > 20000 {
			continue
		}
		out[filepath.Base(f)] = string(b)
	}
	return out
}

// top-level form boundaries by bracket depth (strings and comments respected roughly)
func crashForms(s string) []string {
	var forms []string
	depth, start := 0, 0
	inStr, inRaw, inLine := false, false, false
	for i := 0; i < len(s); i++ {
		c := s[i]
		switch {
		case inLine:
			if c == '\n' {
				inLine = false
			}
		case inStr:
			if c == '\\' {
				i++
			} else if c == '"' {
				inStr = false
			}
		case inRaw:
			if c == '`' {
				inRaw = false
			}
		case c == '"':
			inStr = true
		case c == '`':
			inRaw = true
		case c == '/' && i+1 < len(s) && s[i+1] == '/':
			inLine = true
		case c == ';' && depth == 0:
			inLine = true
		case c == '(' || c == '[' || c == '{':
			depth++
		case c == ')' || c == ']' || c == '}':
			if depth > 0 {
				depth--
			}
			if depth == 0 {
				forms = append(forms, s[start:i+1])
				start = i + 1
			}
		}
	}
	if strings.TrimSpace(s[start:]) != "" {
		forms = append(forms, s[start:])
	}
	return forms
}

type crashTok struct {
	s     string
	open  bool
	close bool
}

func crashTokens(s string) []string {
	var toks []string
	i := 0
	for i < len(s) {
		c := s[i]
		switch {
		case c == ' ' || c == '\n' || c == '\t' || c == '\r':
			j := i
			for j < len(s) && (s[j] == ' ' || s[j] == '\n' || s[j] == '\t' || s[j] == '\r') {
				j++
			}
			toks = append(toks, s[i:j])
			i = j
		case strings.IndexByte("()[]{}'^~@,;", c) >= 0:
			toks = append(toks, s[i:i+1])
			i++
		case c == '"':
			j := i + 1
			for j < len(s) && s[j] != '"' {
				if s[j] == '\\' {
					j++
				}
				j++
			}
			if j >= len(s) {
				j = len(s) - 1
			}
			toks = append(toks, s[i:j+1])
			i = j + 1
		case c == '`':
			j := i + 1
			for j < len(s) && s[j] != '`' {
				j++
			}
			if j >= len(s) {
				j = len(s) - 1
			}
			toks = append(toks, s[i:j+1])
			i = j + 1
		default:
			j := i
			for j < len(s) && strings.IndexByte(" \n\t\r()[]{}'^~@,;\"`", s[j]) < 0 {
				j++
			}
			if j == i {
				j = i + 1
			}
			toks = append(toks, s[i:j])
			i = j
		}
	}
	return toks
}

var crashTokPool = []string{"(", ")", "[", "]", "{", "}", "'", "^", "~", "~@", ":", ";", ",", ".", "-", "+", "1", "a",
	"\"", "`", "/", "#", "\\", "=", ":=", "==", "++", "&", "*", "%", "$", "nil", "0", "-1", "1.5", "\"s\"", "'c'", "a:",
	".a", "a.b", "[]", "()", "{}", "(begin)", "(quote)", "fn", "def", "defn", "let", "for", "cond", "and", "quote",
	"begin", "set", "break", "continue", "return", "if", "else", "&", "int64", "hash", "list", "//", "/*", "*/", "\n"}

// matching bracket groups of a token list: (open index, close index)
func crashGroups(toks []string) [][2]int {
	var st []int
	var out [][2]int
	for i, t := range toks {
		switch t {
		case "(", "[", "{":
			st = append(st, i)
		case ")", "]", "}":
			if len(st) > 0 {
				out = append(out, [2]int{st[len(st)-1], i})
				st = st[:len(st)-1]
			}
		}
	}
	return out
}

func crashMutate(g *Gen, s string) (string, string) {
	r := g.Rng
	switch r.Intn(10) {
	case 0, 1: // byte level
		if len(s) == 0 {
			return "(", "byte"
		}
		b := []byte(s)
		pos := r.Intn(len(b))
		switch r.Intn(5) {
		case 0:
			b = append(b[:pos], b[pos+1:]...)
		case 1:
			alpha := crashAlphaA
			b = append(b[:pos], append([]byte{alpha[r.Intn(len(alpha))]}, b[pos:]...)...)
		case 2:
			alpha := crashAlphaA
			b[pos] = alpha[r.Intn(len(alpha))]
		case 3:
			b[pos] = byte(r.Intn(256))
		case 4:
			b = b[:pos] // truncate: unfinished text
		}
		return string(b), "byte"
	case 2, 3, 4: // token level
		toks := crashTokens(s)
		if len(toks) == 0 {
			return "(", "token"
		}
		pos := r.Intn(len(toks))
		switch r.Intn(5) {
		case 0:
			toks = append(toks[:pos], toks[pos+1:]...)
		case 1:
			toks = append(toks[:pos], append([]string{crashTokPool[r.Intn(len(crashTokPool))], " "}, toks[pos:]...)...)
		case 2:
			toks[pos] = crashTokPool[r.Intn(len(crashTokPool))]
		case 3:
			q := r.Intn(len(toks))
			toks[pos], toks[q] = toks[q], toks[pos]
		case 4:
			toks = append(toks[:pos], append([]string{toks[pos], " "}, toks[pos:]...)...)
		}
		return strings.Join(toks, ""), "token"
	default: // tree level
		toks := crashTokens(s)
		gs := crashGroups(toks)
		if len(gs) == 0 {
			return s + " ()", "tree"
		}
		gr := gs[r.Intn(len(gs))]
		a, b := gr[0], gr[1]
		inner := toks[a+1 : b]
		var repl []string
		switch r.Intn(7) {
		case 0: // empty form with the same head: (head)
			head := ""
			for _, t := range inner {
				if strings.TrimSpace(t) != "" {
					head = t
					break
				}
			}
			repl = []string{toks[a], head, toks[b]}
		case 1: // delete the group
			repl = nil
		case 2: // duplicate the group
			repl = append(append(append([]string{}, toks[a:b+1]...), " "), toks[a:b+1]...)
		case 3: // replace by another group
			o := gs[r.Intn(len(gs))]
			repl = append([]string{}, toks[o[0]:o[1]+1]...)
		case 4: // drop the last element
			k := len(inner)
			for k > 0 && strings.TrimSpace(inner[k-1]) == "" {
				k--
			}
			if k > 0 {
				k--
			}
			repl = append(append([]string{toks[a]}, inner[:k]...), toks[b])
		case 5: // replace by an atom / empty form
			repl = []string{crashArgs[r.Intn(len(crashArgs))]}
		case 6: // change the bracket kind
			o := [][2]string{{"(", ")"}, {"[", "]"}, {"{", "}"}}[r.Intn(3)]
			repl = append(append([]string{o[0]}, inner...), o[1])
		}
		out := append(append(append([]string{}, toks[:a]...), repl...), toks[b+1:]...)
		return strings.Join(out, ""), "tree"
	}
}

func crashGenMut(g *Gen, n int) {
	corpus := crashCorpus()
	names := make([]string, 0, len(corpus))
	for k := range corpus {
		if !crashDenied(corpus[k]) {
			names = append(names, k)
		} else {
			g.Count("mut-corpus-file-denied")
		}
	}
	sort.Strings(names)
	g.Stats["mut-corpus-files"] = len(names)
	if len(names) == 0 {
		return
	}
	type cf struct{ forms []string }
	split := map[string][]string{}
	for _, k := range names {
		split[k] = crashForms(corpus[k])
	}
	// the unmutated scripts themselves first
	for _, k := range names {
		crashEmitText(g, "mut-orig", 's', corpus[k])
	}
	for i := 0; i < n; i++ {
		k := names[g.Rng.Intn(len(names))]
		forms := split[k]
		if len(forms) == 0 {
			continue
		}
		// a prefix of the script; mutate mostly inside its last form
		upto := 1 + g.Rng.Intn(len(forms))
		prefix := strings.Join(forms[:upto-1], "")
		last := forms[upto-1]
		kinds := ""
		for m := 1 + g.Rng.Intn(3); m > 0; m-- {
			var kind string
			if g.Rng.Intn(5) == 0 && prefix != "" {
				prefix, kind = crashMutate(g, prefix)
			} else {
				last, kind = crashMutate(g, last)
			}
			kinds = kind
		}
		cfg := byte('s')
		if g.Rng.Intn(4) == 0 {
			cfg = 'x'
		}
		text := prefix + last
		if len(text) > 6000 {
			text = text[len(text)-6000:]
		}
		crashEmitText(g, "mut-"+kinds, cfg, text)
	}
}

// ---------------------------------------------------------------- forms × arguments

func crashNames(cfg byte) (fns, macros, builders []string) {
	ce := newCrashEnv(cfg)
	defer ce.env.Close()
	gl, mac, bld := ce.env.VerifBoundNames()
	isB := map[string]bool{}
	for _, b := range bld {
		isB[b] = true
	}
	for _, n := range gl {
		if !isB[n] {
			fns = append(fns, n)
		}
	}
	return fns, mac, bld
}

var crashContexts = []string{"%s", "(+ 1 %s)", "(let [x %s] x)", "((fn [] %s))", "(cond %s 1 2)", "(list %s %s)",
	"{x = %s}", "[%s]", "(def y %s) y", "(cond true %s 2)", "(and %s 1)", "(for [(def i 0) (< i 1) (def i (+ i 1))] %s)",
	"(str %s)", "((fn [a] a) %s)", "(defn f [] %s) (f)", "(begin %s)", "(hash k: %s)", "(quote %s)", "^(1 ~%s)", "^(1 ~@%s)",
	"(macexpand %s)", "(eval (quote %s))", "(%s)", "(%s 1)", "(newScope %s)", "(apply (fn [a] a) [%s])"}

func crashInCtx(ctx, call string) string { return strings.ReplaceAll(ctx, "%s", call) }

func crashGenForms(g *Gen) {
	r := g.Rng
	type nameSet struct {
		cfg   byte
		names []string
	}
	var sets []nameSet
	seen := map[string]bool{}
	all := []string{}
	add := func(cfg byte, ns []string) {
		var fresh []string
		for _, n := range ns {
			if n == "" || crashDenied(n) {
				g.Count("form-name-denied")
				continue
			}
			if !seen[n] {
				seen[n] = true
				fresh = append(fresh, n)
				all = append(all, n)
			}
		}
		sets = append(sets, nameSet{cfg, fresh})
	}
	add('s', crashSpecialForms)
	add('s', zygo.ReservedWords)
	for _, cfg := range []byte{'b', 's', 'x'} {
		f, m, b := crashNames(cfg)
		add(cfg, f)
		add(cfg, m)
		add(cfg, b)
	}
	g.Stats["form-names"] = len(all)
	quick := !g.Thorough()
	call := func(name string, args []string) string {
		if len(args) == 0 {
			return "(" + name + ")"
		}
		return "(" + name + " " + strings.Join(args, " ") + ")"
	}
	pick := func() string { return crashArgs[r.Intn(len(crashArgs))] }
	for si, set := range sets {
		for _, name := range set.names {
			cfg := set.cfg
			// 0 arguments, in every context
			for ci, ctx := range crashContexts {
				if quick && ci > 0 && r.Intn(4) != 0 {
					continue
				}
				crashEmitText(g, "form-0", cfg, crashInCtx(ctx, call(name, nil)))
			}
			// the bare name as a value
			crashEmitText(g, "form-name", cfg, name)
			crashEmitText(g, "form-name", cfg, "(str "+name+")")
			// 1 argument: every pool element (quick: a sample)
			for _, a := range crashArgs {
				if quick && r.Intn(5) != 0 {
					continue
				}
				crashEmitText(g, "form-1", cfg, call(name, []string{a}))
			}
			// special forms and reserved words: every pool element as the ONLY operand and as the FIRST of
			// several, where the form is legal — inside a loop body and inside a function body (the
			// top-level text stops `break`/`continue`/`return` before their operands are looked at); not
			// sampled: a guard on the operand's SHAPE (round 4, seeded/C01-m4: `(break (quote))`,
			// `(for (quote) [..] ..)`) shows for one pool element only
			if si < 2 {
				for _, a := range crashArgs {
					crashEmitText(g, "form-1-loop", cfg, "(for [(def i 0) (< i 1) (def i (+ i 1))] "+call(name, []string{a})+")")
					crashEmitText(g, "form-1-fn", cfg, "(defn f [] "+call(name, []string{a})+") (f)")
					crashEmitText(g, "form-first", cfg, call(name, []string{a, "[(def i 0) (< i 1) (def i (+ i 1))]", "i"}))
				}
			}
			n2, n3, nctx := 8, 5, 4
			if !quick {
				n2, n3, nctx = 80, 40, 30
			}
			for i := 0; i < n2; i++ {
				crashEmitText(g, "form-2", cfg, call(name, []string{pick(), pick()}))
			}
			for i := 0; i < n3; i++ {
				crashEmitText(g, "form-3", cfg, call(name, []string{pick(), pick(), pick()}))
			}
			for i := 0; i < nctx; i++ {
				k := r.Intn(4)
				args := make([]string, k)
				for j := range args {
					args[j] = pick()
				}
				crashEmitText(g, "form-ctx", cfg, crashInCtx(crashContexts[r.Intn(len(crashContexts))], call(name, args)))
			}
			// infix spelling
			crashEmitText(g, "form-infix", cfg, "{"+name+"}")
			crashEmitText(g, "form-infix", cfg, "{"+name+" "+pick()+"}")
			crashEmitText(g, "form-infix", cfg, "{"+pick()+" "+name+" "+pick()+"}")
			crashEmitText(g, "form-infix", cfg, "{a = "+name+"("+pick()+")}")
		}
	}
}

func crashGenHand(g *Gen) {
	for _, t := range crashHand {
		for _, cfg := range []byte{'b', 's', 'x'} {
			crashEmitText(g, "hand", cfg, t)
		}
		for _, ctx := range crashContexts[1:] {
			if g.Thorough() || g.Rng.Intn(6) == 0 {
				crashEmitText(g, "hand-ctx", 's', crashInCtx(ctx, t))
			}
		}
	}
	for _, t := range crashIncludeTexts {
		crashEmitText(g, "hand-include", 's', t)
	}
	for _, t := range crashNonterminating {
		crashEmitText(g, "hand-nonterminating", 's', t)
	}
	// nesting depth: parser / generator / printer recursion under a depth budget
	depths := []int{10, 100, 1000}
	if g.Thorough() {
		depths = append(depths, 5000)
	}
	for _, d := range depths {
		crashEmitText(g, "deep", 's', strings.Repeat("(", d)+strings.Repeat(")", d))
		crashEmitText(g, "deep", 's', strings.Repeat("[", d)+strings.Repeat("]", d))
		crashEmitText(g, "deep", 's', strings.Repeat("{", d)+strings.Repeat("}", d))
		crashEmitText(g, "deep", 's', strings.Repeat("(list ", d)+strings.Repeat(")", d))
		crashEmitText(g, "deep", 's', strings.Repeat("'", d)+"a")
		crashEmitText(g, "deep", 's', strings.Repeat("(+ 1 ", d)+"1"+strings.Repeat(")", d))
		crashEmitText(g, "deep", 's', "(defn f [n] (cond (== n 0) 0 (+ 1 (f (- n 1))))) (f "+strings.Repeat("1", 1)+"000)")
	}
}

// ---------------------------------------------------------------- pairs of values through the binding / container / printing paths

var crashPairTemplates = []string{"(def a %1) (def a %2)", "(def a %1) (set a %2)", "(def a [%1]) (def a [%2])", "(def a [%1 %2]) (str a)",
	"(def a [%1]) (aset a 0 %2) a", "(def h (hash k: %1)) (hset h k: %2) h", "{a = %1; a = %2}", "(def a %1) (== a %2)", "(def a %1) (< a %2)",
	"(let [a %1] (def a %2))", "((fn [a] (def a %2)) %1)", "(def a %1) (json a)", "(def a %1) (msgpack a)", "(def a %1) (type? a) (str a) (copy a)",
	"(def a (list %1 %2)) (str a)", "(hash %1 %2)", "(def h (hash)) (hset h %1 %2) (hget h %1)", "(append [%1] %2)", "(concat %1 %2)", "(cons %1 %2)",
	"(mdef a b (list %1 %2)) [a b]", "(struct S [(field f: int64 e:0) (field g: ([]string) e:1) (field p: (* S) e:2)]) (def w (S f: 1)) {w.f = %1} {w.g = %2} w",
	"(struct S [(field f: int64 e:0) (field p: (* S) e:1)]) (def w (S f: 1)) (hset w f: %1) {w.p = %2} (str w)", "{a, b = %1, %2}", "(aget %1 %2)", "(hget %1 %2)", "(%1 %2)", "(apply %1 %2)", "(map %1 %2)", "(slice %1 0 %2)"}

func crashGenPairs(g *Gen) {
	r := g.Rng
	for _, v1 := range crashArgs {
		for _, v2 := range crashArgs {
			for _, t := range crashPairTemplates {
				if !g.Thorough() && r.Intn(30) != 0 {
					continue
				}
				text := strings.ReplaceAll(strings.ReplaceAll(t, "%1", v1), "%2", v2)
				crashEmitText(g, "pairs", 's', text)
			}
		}
	}
}

// ---------------------------------------------------------------- statements inside function bodies × control forms

// statement forms (declarations, binders, control, data constructors) usable inside a body
// that has the local `n`
var crashStatements = []string{
	"(package scratch (def seen n))", "(package scratch { Seen := n })", "(struct Rec [(field a: int64 e:0)])",
	"(func dbl [x:int64] [y:int64] (return (* 2 x)))", "(var vv int64)", "(defmac mm [a] ^(+ 1 ~a))", "(defn inner [x] (+ x 1))",
	"(def loc n)", "(set loc n)", "(mdef p q (list n n))", "(let [z n] z)", "(letseq [z n y z] y)", "(newScope (def z n))",
	"(begin (def z n))", "(for [(def i 0) (< i 2) (def i (+ i 1))] i)", "(for [(def i 0) (< i 2) (def i (+ i 1))] (break))",
	"(for lp: [(def i 0) (< i 2) (def i (+ i 1))] (continue lp:))", "{z = n}", "{z := n + 1}", "{for i := 0; i < 2; i++ { z = i }}",
	"{for k, v := range [1 2] { z = v }}", "(assert true)", "(cond (> n 5) 1 2)", "(and n 1)", "(quote (a b))", "^(1 ~n)",
	"(macexpand (mm 1))", "(eval (quote (+ 1 1)))", "[n n]", "(hash a: n)", "{a: n}", "(fn [x] x)", "((fn [x] x) n)",
	"(range k v (hash a: 1) (def kk k))", "(interface Iface [(func run [] [])])", "(method [p: (* Rec)] go [] [r:int64] (return 1))",
	"(defmap dm)", "(str n)", "(msgmap (quote mmm) (list))", "(begin)", "(newScope)", "(return)", "(quote)",
}

// function shapes with a hole %s for one or two statements; every shape ends in calls
var crashBodyShapes = []string{
	"(defn w [n] %s n) (w 1) (w 2)",
	"(defn w [n] %s (cond (> n 0) (w (- n 1)) n)) (w 1) (w 3)",
	"(defn w [n] (let [m n] %s (cond (> m 0) (w (- m 1)) m))) (w 2)",
	"(defn w [n] (cond (> n 0) (begin %s (w (- n 1))) n)) (w 2)",
	"(defn w [n] (for [(def i 0) (< i 3) (def i (+ i 1))] %s (cond (> i 0) (break) nil)) n) (w 1)",
	"(defn w [n] (for [(def i 0) (< i 3) (def i (+ i 1))] (cond (> i 1) (continue) nil) %s) n) (w 1)",
	"(defn w [n] (for ol: [(def i 0) (< i 2) (def i (+ i 1))] (for [(def j 0) (< j 2) (def j (+ j 1))] %s (break ol:))) (cond (> n 0) (w (- n 1)) n)) (w 2)",
	"(def n 1) (for [(def i 0) (< i 2) (def i (+ i 1))] %s (cond (> i 0) (break) nil))",
	"(def n 1) (package pk %s (def Z 1)) pk.Z",
	"(def n 1) (defn w [k] (package pk2 %s) (cond (> k 0) (w (- k 1)) k)) (w 1) (w 2)",
	"(def w (fn [n] %s (newScope %s n))) (w 1)",
	"(defn w [n & r] %s (cond (> n 0) (w (- n 1) 7 8) r)) (w 1) (w 2 3)",
	"(defn w [#n] %s (cond (> n 0) (w (- n 1)) n)) (w 1)",
}

func crashGenBody(g *Gen) {
	r := g.Rng
	for _, st := range crashStatements {
		for _, sh := range crashBodyShapes {
			crashEmitText(g, "body-1", 's', strings.ReplaceAll(sh, "%s", st))
		}
	}
	n2 := 600
	if g.Thorough() {
		n2 = 12000
	}
	for i := 0; i < n2; i++ {
		a := crashStatements[r.Intn(len(crashStatements))]
		b := crashStatements[r.Intn(len(crashStatements))]
		sh := crashBodyShapes[r.Intn(len(crashBodyShapes))]
		cfg := byte('s')
		if r.Intn(5) == 0 {
			cfg = 'x'
		}
		crashEmitText(g, "body-2", cfg, strings.ReplaceAll(sh, "%s", a+" "+b))
	}
}

// ---------------------------------------------------------------- exotic fillers in every code position

// things that are data, not code — improper lists first — placed where code is expected
var crashFillers = []string{"(1 \\ 2)", "(a \\ b)", "(a = 1 \\ 2)", "(a := 1 \\ 2)", "(a b = 1 \\ 2)", "(a = \\ 2)", "(+ 1 \\ 2)",
	"(f 1 \\ 2)", "(\\ 1)", "(a \\ )", "(def a 1 \\ 2)", "(quote a \\ b)", "(fn [x] x \\ 1)", "(a = 1)", "(a b = 1 2)", "(a = )", "(= 1)",
	"(a.b = 1)", "(a := )", "{a + 1}", "{a: 1}", "{}", "[]", "()", "[a b]", "[a = 1]", "[1 \\ 2]", "\"s\"", "'c'", "a:", ".a", "a.b", "%a", "$a",
	"&a", "*a", "#a", "?a", "!", "|", "<", "->", "~a", "~@a", "^a", "'a", "1.5", "nil", "=", ":=", "\\"}

var crashHoleTemplates = []string{
	"(def a 1)", "(set a 1)", "(mdef a b (list 1 2))", "(let [a 1 b 2] (+ a b))", "(letseq [a 1 b a] b)", "(fn [a b] (+ a b))",
	"(defn f [a b] (+ a b))", "(defmac m [a] ^(+ 1 ~a))", "(cond (< 1 2) 3 (> 1 2) 4 5)", "(and 1 2 3)", "(or 1 2)", "(begin 1 2)",
	"(newScope 1 2)", "(for [(def i 0) (< i 2) (def i (+ i 1))] i (break))", "(for lbl: [(def i 0) (< i 2) (def i (+ i 1))] (continue lbl:))",
	"(quote (a b))", "(syntaxQuote (a ~b))", "(macexpand (m 1))", "(assert (== 1 1))", "(package p (def A 1))", "(return 1 2)",
	"(struct S [(field a: int64 e:0)])", "(func f [a:int64] [b:int64] (return a))", "(var v int64)", "(hash a: 1 b: [2])",
	"(list 1 2)", "[1 2]", "((fn [x] x) 1)", "(apply + [1 2])", "(map (fn [x] x) [1 2])", "(defn g [n] (cond (> n 0) (g (- n 1)) n)) (g 1)",
	"{a = 1; b = a + 2}", "{a, b = 1, 2}", "{for i := 0; i < 2; i++ { a = i }}", "{if a < 1 { 2 } else { 3 }}", "(hset (hash) a: 1)",
	"(aset [1 2] 0 3)", "(str 1 \"a\")", "(json (hash a: 1))", "(eval (quote (+ 1 2)))", "(range k v (hash a: 1) k)",
}

// every code position of a template: each atom and each bracket group
func crashPositions(toks []string) [][2]int {
	var out [][2]int
	for i, t := range toks {
		if strings.TrimSpace(t) == "" {
			continue
		}
		switch t {
		case "(", "[", "{", ")", "]", "}":
		default:
			out = append(out, [2]int{i, i})
		}
	}
	out = append(out, crashGroups(toks)...)
	return out
}

func crashGenHoles(g *Gen) {
	r := g.Rng
	for _, tpl := range crashHoleTemplates {
		toks := crashTokens(tpl)
		for _, pos := range crashPositions(toks) {
			for _, f := range crashFillers {
				if !g.Thorough() && r.Intn(8) != 0 {
					continue
				}
				out := append(append(append([]string{}, toks[:pos[0]]...), f), toks[pos[1]+1:]...)
				crashEmitText(g, "holes", 's', strings.Join(out, ""))
			}
		}
		// the filler as an extra element after each position
		for _, pos := range crashPositions(toks) {
			if !g.Thorough() && r.Intn(8) != 0 {
				continue
			}
			f := crashFillers[r.Intn(len(crashFillers))]
			out := append(append(append([]string{}, toks[:pos[1]+1]...), " ", f), toks[pos[1]+1:]...)
			crashEmitText(g, "holes-insert", 's', strings.Join(out, ""))
		}
	}
	// the fillers themselves, bare and as operands / bodies
	for _, f := range crashFillers {
		for _, ctx := range crashContexts {
			if g.Thorough() || r.Intn(3) == 0 {
				crashEmitText(g, "holes-ctx", 's', crashInCtx(ctx, f))
			}
		}
	}
}

// ---------------------------------------------------------------- infix blocks

var crashInfixToks = []string{"a", "b", "1", "2", "\"s\"", "+", "-", "*", "/", "**", "%", "<", ">", "<=", ">=", "==", "!=", "!",
	"&&", "||", "=", ":=", "+=", "-=", "++", "--", ";", ",", ":", ".", "(", ")", "[", "]", "{", "}", "if", "else", "for", "range",
	"break", "continue", "return", "and", "or", "not", "fn", "def", "a:", "a.b", ".a", "[1]", "[1:2]", "(f)", "f(", "nil", "true",
	"[]", "()", "{}", "lbl:", "i", "i++", "-1", "1.5", "'c'", "\n", "//c\n", "/*c*/", "^", "~", "$a", "&a", "*a", "a[", "a[0]", "a[0][1]", "a.b.c"}

func crashGenInfix(g *Gen) {
	r := g.Rng
	emit := func(toks []string) {
		sep := " "
		if r.Intn(6) == 0 {
			sep = ""
		}
		body := strings.Join(toks, sep)
		crashEmitText(g, "infix", 's', "{"+body+"}")
		if r.Intn(4) == 0 {
			crashEmitText(g, "infix", 's', "(def a [1 2 3]) (def b (hash c: 1)) (def i 0) (defn f [x] x) {"+body+"}")
		}
	}
	n := len(crashInfixToks)
	for i := 0; i < n; i++ {
		emit([]string{crashInfixToks[i]})
		for j := 0; j < n; j++ {
			if g.Thorough() || r.Intn(5) == 0 {
				emit([]string{crashInfixToks[i], crashInfixToks[j]})
			}
		}
	}
	samples := 1500
	if g.Thorough() {
		samples = 40000
	}
	for k := 0; k < samples; k++ {
		l := 3 + r.Intn(6)
		toks := make([]string, l)
		for i := range toks {
			toks[i] = crashInfixToks[r.Intn(n)]
		}
		// mostly start from a well-formed skeleton and disturb it
		if r.Intn(2) == 0 {
			skel := [][]string{
				{"for", "i", ":=", "0", ";", "i", "<", "2", ";", "i++", "{", "a", "=", "i", "}"},
				{"for", "i", ",", "b", ":=", "range", "a", "{", "b", "}"},
				{"for", "i", ":=", "range", "a", "{", "break", "}"},
				{"lbl:", "for", ";", "i", "<", "1", ";", "{", "break", "lbl:", "}"},
				{"if", "a", "<", "1", "{", "2", "}", "else", "{", "3", "}"},
				{"a", ",", "b", "=", "1", ",", "2"},
				{"a[0]", "=", "a[1:2]", "+", "b.c"},
				{"f", "(", "a", ",", "1", ")", "+", "-", "b"},
			}[r.Intn(8)]
			toks = append([]string{}, skel...)
			for m := 1 + r.Intn(3); m > 0; m-- {
				pos := r.Intn(len(toks))
				switch r.Intn(3) {
				case 0:
					toks = append(toks[:pos], toks[pos+1:]...)
				case 1:
					toks[pos] = crashInfixToks[r.Intn(n)]
				case 2:
					toks = append(toks[:pos], append([]string{crashInfixToks[r.Intn(n)]}, toks[pos:]...)...)
				}
				if len(toks) == 0 {
					toks = []string{"a"}
				}
			}
		}
		emit(toks)
	}
}

// ---------------------------------------------------------------- stateful value histories

// a larger step set for the random histories: records with declared field types, infix
// element assignment, aliasing, passing through functions, copies, printing, json
var crashHistSteps = []string{
	"(def %v [1 2])", "(def %v [3 4])", "(def %v [1.5])", "(def %v [\"s\"])", "(def %v [])", "(def %v (hash k: 1))", "(def %v (list 1 2))",
	"(def %v 1)", "(def %v nil)", "(def %v (fn [x] x))", "(def %v [(hash)])", "(def %v [[1] [2]])", "(def %v (Rec f: 1))", "(def %v [(Rec f: 1)])",
	"(aset %v 0 (list 7 8))", "(aset %v 0 nil)", "(aset %v 0 %v)", "(aset %v 0 %u)", "(aset %v 0 \"s\")", "(aset %v 0 2.5)", "(aset %v 0 (fn [] 1))",
	"(aset %v 0 (hash))", "(aset %v 1 %u)", "(hset %v k: %v)", "(hset %v k: %u)", "(hset %v f: %u)", "(hset %v g: %u)", "(hdel %v k:)",
	"{%v[0] = 2.5}", "{%v[0] = %u}", "{%v = %u}", "{%v.g = %u}", "{%v.f = %u}", "{%v.k = %u}", "(set %v %u)", "(set %v [%u])",
	"(def %v (rest %u))", "(def %v (append %u 1))", "(def %v (append %u %u))", "(def %v (slice %u 0 1))", "(def %v (concat %u %u))",
	"(def %v (copy %u))", "(def %v ((fn [x] x) %u))", "(def %v (map (fn [x] x) %u))", "(def %v (first %u))", "(def %v (cons %u %u))",
	"(def %v [%u])", "(def %v [%u %v])", "(def %v (list %u))", "(def %v (hash k: %u))", "(str %v)", "(type? %v)", "(str (type? %v) %v)",
	"(== %v %u)", "(json %v)", "(len %v)", "(let [%v %u] (def %v [1]))", "(mdef %v %u (list %u %v))", "{%v, %u = %u, %v}",
	"(for [(def i 0) (< i 1) (def i (+ i 1))] (def %v %u))", "((fn [%v] (def %v [1.5])) %u)", "(defn %vf [] %v) (%vf)",
}

func crashGenHist(g *Gen) {
	// systematic small scope: all histories of ≤ 4 steps over 12 step kinds on one variable,
	// ≤ 3 steps on two variables (thorough: 4 steps on two variables, 5 on one)
	emit := func(nvars, length int) {
		base := int64(len(crashStepKinds) * nvars)
		total := int64(len(crashStepKinds))
		for i := 1; i < length; i++ {
			total *= base
		}
		step := int64(2048)
		for from := int64(0); from < total; from += step {
			to := from + step
			if to > total {
				to = total
			}
			g.Emit("v %d %d %d %d", nvars, length, from, to)
			g.Stats["hist-enumerated"] += int(to - from)
			g.Count("hist-ranges")
		}
	}
	for l := 1; l <= 4; l++ {
		emit(1, l)
	}
	for l := 2; l <= 3; l++ {
		emit(2, l)
	}
	if g.Thorough() {
		emit(2, 4)
		emit(1, 5)
	}
	// random longer histories over the larger step set, on interpreters with records declared
	n := 2500
	if g.Thorough() {
		n = 60000
	}
	r := g.Rng
	vars := []string{"a", "b", "c"}
	for i := 0; i < n; i++ {
		l := 3 + r.Intn(4)
		steps := []string{"(struct Rec [(field f: int64 e:0) (field g: ([]int64) e:1) (field k: (* Rec) e:2)])"}
		for j := 0; j < l; j++ {
			st := crashHistSteps[r.Intn(len(crashHistSteps))]
			// mostly stay on one or two variables so that the steps interact
			v := vars[r.Intn(2)]
			if r.Intn(6) == 0 {
				v = vars[2]
			}
			u := vars[r.Intn(len(vars))]
			st = strings.ReplaceAll(strings.ReplaceAll(st, "%v", v), "%u", u)
			steps = append(steps, st)
		}
		text := strings.Join(steps, "\n")
		if crashDenied(text) {
			g.Count("hist-denied")
			continue
		}
		cfg := byte('s')
		if r.Intn(6) == 0 {
			cfg = 'x'
		}
		g.Emit("h %c %s", cfg, stringToCodes(text))
		g.Count("hist-random")
		g.Stats["hist-random-steps"] += l
	}
}

func crashGenRepl(g *Gen) {
	// batches through the real Repl() in a child process
	var lines []string
	for _, t := range crashHand {
		if !crashDenied(t) && !strings.Contains(t, "\n") {
			lines = append(lines, t)
		}
	}
	for l := 0; l <= 2; l++ {
		total := pow(len(crashAlphabets["A"].toks), l)
		for i := int64(0); i < total; i++ {
			s := enumString(crashAlphabets["A"], l, i)
			if !strings.Contains(s, "\n") {
				lines = append(lines, s)
			}
		}
	}
	batch := 40
	for _, cfg := range []byte{'s', 'x'} {
		for i := 0; i < len(lines); i += batch {
			j := i + batch
			if j > len(lines) {
				j = len(lines)
			}
			g.Emit("r %c %s", cfg, stringToCodes(strings.Join(lines[i:j], "\n")))
			g.Count("repl-batches")
			g.Stats["repl-lines"] += j - i
			if !g.Thorough() && cfg == 'x' && i > 400 {
				break
			}
		}
	}
}

func crashGen(g *Gen) {
	crashQuiet()
	sel := os.Getenv("VERIF_C01_STREAMS") // development aid: comma-separated subset
	want := func(s string) bool { return sel == "" || strings.Contains(","+sel+",", ","+s+",") }
	if want("hand") {
		crashGenHand(g)
	}
	if want("enum") {
		crashGenEnum(g)
	}
	if want("form") {
		crashGenForms(g)
	}
	if want("hist") {
		crashGenHist(g)
	}
	if want("body") {
		crashGenBody(g)
	}
	if want("holes") {
		crashGenHoles(g)
	}
	if want("pairs") {
		crashGenPairs(g)
	}
	if want("infix") {
		crashGenInfix(g)
	}
	if want("mut") {
		n := 2000
		if g.Thorough() {
			n = 60000
		}
		crashGenMut(g, n)
	}
	if want("repl") {
		crashGenRepl(g)
	}
}
