package main

// Generators of the lex and parse channels (C13).

import (
	"strings"
)

var lexAlphabet = []rune{'(', ')', '[', ']', '{', '}', ' ', '\n', 'a', 'e', '1', '0', '.', '_', '-', '+', '*', '/',
	'<', '>', '=', '!', '&', '|', ':', ';', ',', '%', '^', '~', '@', '\'', '"', '\\', '`', '#', '?', 'x', 'U', 'L',
	'n', 'E', 'I', 'f', '\t', '\r', 'b', 'o', '7', 233, 0x1F600, 0xFFFD}

// the runes that drive lexer state changes; all strings up to length 3 (quick) over it are enumerated
var lexCore = []rune{'(', ')', '{', ' ', '\n', 'a', 'e', '1', '.', '-', '+', '*', '/', '=', ':', ';', '%', '~', '@', '\'', '"', '\\', '`', '&'}

var atomPool = []string{"a", "foo", "b2", "x.y", ".z", "a.b.c", "key:", "#s", "?q", "$x", "true", "false", "42", "-7", "0",
	"1_000", "0xff", "0o17", "0b101", "12ULL", "0xfULL", "0o7ULL", "1.5", "-2.5e-3", "1e10", ".5", "3.", "1E+2", "1e-3", "NaN", "nan", "Inf",
	"-Inf", "+Inf", "'a'", "'\\n'", "'é'", "'\\''", "\"str\"", "\"a\\\"b\\n\"", "\"\"", "\"((\"", "`raw`", "`r\nw`", "``", "+", "-", "*", "/", "<=", ">=", "==",
	"!=", ":=", "=", "&&", "||", "->", "<-", "++", "**", "!", "<", ">", "&", ";", ",", "// c\n", "/* b */", "/* m\nl */", "/***/",
	"9223372036854775807", "-9223372036854775808", "9223372036854775808", "18446744073709551615ULL", "18446744073709551616ULL",
	"0x7fffffffffffffff", "0x8000000000000000", "1e400", "1_.5", "1e5_0", "4.9e-324", "0.1", "123456789.123456789e-5", "a:", "for", "x:=", "a[1:2]", "a:b", "1:2", "-1:", "é", "日本", "a-b", "a+b", "a*b", "a/b", "a<b", "1-1", "1e", "1e+", "e-1", "1e-x",
	// the escapes of strconv.Quote/QuoteRune (repo fix C12-02: two more lexer states)
	"\"a\\x41\\u00e9\\U0001F600\\v\\f\\b\"", "'\\x41'", "'\\u00e9'", "'\\U0001F600'", "'\\v'"}

var malformedPool = []string{"(", ")", "[", "]", "{", "}", "\"", "'", "`", "/*", "*/", "//", "%", "^", "~", "~@", "\\", "a\"", "a'", "a`", "a%", "a^", "a~",
	"\"\\q\"", "'ab'", "''", "'\\q'", "1x", "0x", "0b2", "@", "|", "#", "?", "a#b", "..", ".a.", "~(", "~\"", "1ULL2", "{a:", "{\"k\":", "{\"k\"", "{`k`:", "{/*c*/a:", "{//c\na:", "{a: for", "**/", ":", "::", ":=:",
	"\"\\x4\"", "\"\\ud800\"", "'\\xg1'", "\"\\U0011"}

type pgen struct {
	g *Gen
}

func (p *pgen) pick(l []string) string { return l[p.g.Rng.Intn(len(l))] }

func (p *pgen) sep() string {
	switch p.g.Rng.Intn(8) {
	case 0:
		return "\n"
	case 1:
		return "  "
	case 2:
		return "\t"
	default:
		return " "
	}
}

func (p *pgen) expr(depth int) string {
	r := p.g.Rng
	if depth <= 0 || r.Intn(3) == 0 {
		return p.pick(atomPool)
	}
	n := r.Intn(4)
	var items []string
	for i := 0; i < n; i++ {
		items = append(items, p.expr(depth-1))
	}
	body := strings.Join(items, p.sep())
	switch r.Intn(12) {
	case 0, 1, 2:
		p.g.Count("form list")
		return "(" + body + ")"
	case 3, 4:
		p.g.Count("form array")
		if r.Intn(2) == 0 {
			return "[" + strings.Join(items, ", ") + "]"
		}
		return "[" + body + "]"
	case 5:
		p.g.Count("form infix")
		return "{" + body + "}"
	case 6:
		p.g.Count("form hash")
		k := []string{"a:", "\"k\":", "`k`:", "\"k\" :", "/* c */ a:", "// c\n a:", "a: for"}[r.Intn(7)]
		return "{" + k + " " + body + "}"
	case 7:
		p.g.Count("form empty-hash")
		return "{}"
	case 8:
		p.g.Count("form dotted")
		return "(" + p.expr(depth-1) + " \\ " + p.expr(depth-1) + ")"
	case 9:
		p.g.Count("form quote")
		return []string{"%", "^", "~", "~@"}[r.Intn(4)] + p.expr(depth-1)
	case 10:
		p.g.Count("form comment")
		return []string{"// line\n", "/* blk */", "/* two\nlines */"}[r.Intn(3)] + p.expr(depth-1)
	default:
		p.g.Count("form list")
		return "(" + p.pick(atomPool) + " " + body + ")"
	}
}

func (p *pgen) text() string {
	r := p.g.Rng
	n := 1 + r.Intn(3)
	var parts []string
	for i := 0; i < n; i++ {
		parts = append(parts, p.expr(1+r.Intn(3)))
	}
	t := strings.Join(parts, p.sep())
	if r.Intn(3) == 0 {
		t += p.sep()
	}
	return t
}

func (p *pgen) malformed() string {
	r := p.g.Rng
	n := 1 + r.Intn(5)
	var parts []string
	for i := 0; i < n; i++ {
		if r.Intn(2) == 0 {
			parts = append(parts, p.pick(malformedPool))
		} else {
			parts = append(parts, p.pick(atomPool))
		}
		if r.Intn(3) != 0 {
			parts = append(parts, " ")
		}
	}
	return strings.Join(parts, "")
}

// signAtTopLevelEnd reports whether, after lexing `prefix`, the last emitted token is a
// top-level `+`/`-` symbol. As a prefix such a text is unfinished (the next token decides between
// the symbol and ±Inf), as a finished text it is done (repo fix C13-02); the generators only
// count these cases, they are part of the main streams.
func signAtTopLevelEnd(prefix string) bool {
	lx := sharedEnv().NewParser().VerifLexer()
	for _, c := range prefix {
		if lx.VerifStep(c) != nil {
			return false
		}
	}
	return lx.VerifLastTopLevelSign()
}

// probes of the lone top-level sign (a known finding until repo fix C13-02)
var knownOps = []string{"p H=- C=45.32", "p H=- C=43.32", "p H=- C=45", "p H=- C=45.32/73.110.102", "p H=- C=43/105.110.102.32",
	"p H=- C=37.45", "p H=w:45.32 C=45.32", "p H=w:45.32 C=45.32/73.110.102", "p H=w:45.32/a:43 C=40.97.32.45/41"}

var histories = []string{"-", "-", "w:40.43.32.49.32.50.41", "w:41", "a:40.97.32.34.98", "a:123.32.34.97.98.99.34", "a:47.42.32.120",
	"a:96.114", "w:34.97", "w:49.120.32", "a:37", "w:40.43.32.49.32.50.41/a:123.97.58", "a:45.32", "w:102.111.111", "a:39.97", "a:126", "w:45.32", "w:43"}

func codes(s string) string { return stringToCodes(s) }

func (p *pgen) emitCuts(hist, t string, cuts []int) {
	rs := []rune(t)
	var parts []string
	prev := 0
	pre := ""
	for _, c := range append(cuts, len(rs)) {
		piece := string(rs[prev:c])
		pre += piece
		if c < len(rs) && signAtTopLevelEnd(pre) {
			p.g.Count("a piece ends after a top-level sign")
		}
		parts = append(parts, codes(piece))
		prev = c
	}
	if signAtTopLevelEnd(pre + "\n") {
		p.g.Count("the text ends after a top-level sign")
	}
	p.g.Emit("p H=%s C=%s", hist, strings.Join(parts, "/"))
	p.g.Count("pieces " + itoa(len(parts)))
}

func itoa(n int) string {
	if n > 4 {
		return ">4"
	}
	return string(rune('0' + n))
}

func (p *pgen) allCuts(hist, t string, double bool) {
	rs := []rune(t)
	p.emitCuts(hist, t, nil)
	for i := 1; i < len(rs); i++ {
		p.emitCuts(hist, t, []int{i})
	}
	if double {
		for i := 1; i < len(rs); i++ {
			for j := i; j < len(rs); j++ {
				p.emitCuts(hist, t, []int{i, j})
			}
		}
	}
}

func (p *pgen) randomCuts(hist, t string, k int) {
	rs := []rune(t)
	if len(rs) < 2 {
		return
	}
	n := 1 + p.g.Rng.Intn(k)
	cuts := make([]int, n)
	for i := range cuts {
		cuts[i] = p.g.Rng.Intn(len(rs) + 1)
	}
	for i := range cuts {
		for j := i + 1; j < len(cuts); j++ {
			if cuts[j] < cuts[i] {
				cuts[i], cuts[j] = cuts[j], cuts[i]
			}
		}
	}
	p.emitCuts(hist, t, cuts)
}

func enumerate(alpha []rune, n int, f func(string)) {
	idx := make([]int, n)
	for {
		var b strings.Builder
		for _, i := range idx {
			b.WriteRune(alpha[i])
		}
		f(b.String())
		k := n - 1
		for k >= 0 {
			idx[k]++
			if idx[k] < len(alpha) {
				break
			}
			idx[k] = 0
			k--
		}
		if k < 0 {
			return
		}
	}
}

func genLex(g *Gen) {
	p := &pgen{g: g}
	// exhaustive: every string up to length 2 over the full alphabet, up to 3 (4 thorough) over the core alphabet
	for n := 1; n <= 2; n++ {
		enumerate(lexAlphabet, n, func(s string) { g.Emit("H=- R=%s", codes(s)); g.Count("exhaustive full-alphabet") })
	}
	maxn := 3
	if g.Thorough() {
		maxn = 4
	}
	for n := 3; n <= maxn; n++ {
		enumerate(lexCore, n, func(s string) { g.Emit("H=- R=%s", codes(s)); g.Count("exhaustive core-alphabet") })
	}
	N := 3000
	if g.Thorough() {
		N = 60000
	}
	for i := 0; i < N; i++ {
		var t string
		switch g.Rng.Intn(3) {
		case 0:
			t = p.text()
			g.Count("grammar text")
		case 1:
			t = p.malformed()
			g.Count("malformed text")
		default:
			n := 1 + g.Rng.Intn(12)
			var b strings.Builder
			for j := 0; j < n; j++ {
				b.WriteRune(lexAlphabet[g.Rng.Intn(len(lexAlphabet))])
			}
			t = b.String()
			g.Count("random runes")
		}
		h := "-"
		if g.Rng.Intn(3) == 0 {
			h = codes(p.malformed() + p.text())
			g.Count("with history before Reset")
		}
		g.Emit("H=%s R=%s", h, codes(t))
	}
}

func genParse(g *Gen) {
	p := &pgen{g: g}
	for _, op := range knownOps {
		g.Emit("%s", op)
	}
	// EvalString of literal texts (the last token must not be lost)
	for _, t := range []string{"42", "-7", "1.5", "\"s\"", "'a'", "true", "0xff", "12ULL", "1 2", "1 // c", "1\n", "", " ", "// only"} {
		g.Emit("ev %s", codes(t))
		g.Count("ev literal")
	}
	// exhaustive small scope: every text up to length 3 (4 thorough) over the token alphabet x every single and double cut
	alpha := []rune{'(', ')', '[', '{', '}', ' ', 'a', '1', '-', '"', '\'', '%', ':', '/', '*', '\\', '`', '\n', '.', '~'}
	maxn := 3
	if g.Thorough() {
		maxn = 4
	}
	for n := 1; n <= maxn; n++ {
		enumerate(alpha, n, func(s string) { p.allCuts("-", s, n <= 3); g.Count("exhaustive texts") })
	}
	// fixed pool: every atom and malformed fragment alone and in a list, every cut
	for _, a := range append(append([]string{}, atomPool...), malformedPool...) {
		p.allCuts("-", a, true)
		p.allCuts("-", "("+a+" "+a+")", len(a) < 6)
		p.allCuts("-", "{"+a+"}", false)
	}
	N := 300
	if g.Thorough() {
		N = 12000
	}
	for i := 0; i < N; i++ {
		var t string
		if g.Rng.Intn(4) == 0 {
			t = p.malformed()
			g.Count("malformed text")
		} else {
			t = p.text()
			g.Count("grammar text")
		}
		h := histories[g.Rng.Intn(len(histories))]
		if h != "-" {
			g.Count("with history")
		}
		if len([]rune(t)) <= 40 {
			p.allCuts(h, t, len([]rune(t)) <= 10)
		} else {
			p.emitCuts(h, t, nil)
		}
		for k := 0; k < 4; k++ {
			p.randomCuts(h, t, 5)
		}
	}
	// every history x a sensitive text, whole and cut
	for _, h := range histories {
		for _, t := range []string{"-1 ", "a", "(a b)", "\"s\" 1", "1e-3", "x:=2", "{a:1}", "- ", "+", "- Inf", "%-", "a -"} {
			p.allCuts(h, t, false)
			g.Count("history x sensitive text")
		}
	}
	// the history dimension proper: unfinished / failed / complete earlier texts x reset routes (gen_parsehist.go)
	genParseHist(g, p)
}
