package main

// Channel json, op `hist` (C11): HISTORIES of encode / decode steps against interpreters that
// live as long as the harness process (two of them, so steps can be interleaved across
// interpreters of one process). Every encoded result (the *SexpRaw a script holds, or the []byte
// a Go caller got) is KEPT, exactly as it was handed out, and read again later: the law
// checked is that an encoded result is a value — nothing that happens afterwards changes it —
// and that a decoded structure shares no storage with its input or with another decoded one.
//
//   json hist <nv> <v_0> … <v_nv-1> <step>…
//
// steps (each prints one answer; answers are joined with " | "):
//   ej <ip> <i>   script: (json v_i) evaluated in interpreter ip; the raw value kept in the next slot ok | err
//   em <ip> <i>   script: (msgpack v_i)                                                          ok | err
//   gj <i>        Go API: GoToJson(JsonToGo(SexpToJson(v_i))); the returned slice is the slot   ok | err
//   gm <i>        Go API: SexpToMsgpack(v_i); the returned slice is the slot                     ok | err
//   d <ip> <s>    decode slot s in interpreter ip (unjson / unmsgpack on the kept raw value;
//                 MsgpackToSexp on a gm slot); result kept in the next result cell               <canon> | err | dead
//                 on a gj slot: JsonToSexp of the bytes now vs. right after they were made        same-as-first | differs | dead
//                 (its result cell stays empty)
//   st <s>        do the bytes slot s holds now equal the bytes it held when it was produced      same | changed | dead | err
//   zb <s>        the holder overwrites its own bytes in place (slot is dead afterwards)          ok
//   mu <r>        (aset r 0 424242) / (hset r <first key> 424242) on decoded result r            ok | na
//   md <r>        the same on the first non-empty container directly inside result r             ok | na
//   ad <r>        (hset r zzN<r>: 424242): a key is added to decoded hash r                      ok | na
//   sh <r>        canonical form of result r as it is now                                         <canon> | na
//   mv <ip> <i>   the ORIGINAL value i of interpreter ip is mutated in place (first element := 424242):
//                 a later encode of it sees the new value, the results kept so far the old one   ok | na
//
// Each interpreter builds its own object for value i, once per history; every encode step of that
// interpreter encodes that same object (gj / gm: interpreter 0).

import (
	"bytes"
	"fmt"
	"strconv"
	"strings"

	"github.com/glycerine/zygomys/v9/zygo"
)

var histEnvs [2]*zygo.Zlisp

func histEnv(ip int) *zygo.Zlisp {
	if histEnvs[ip] == nil {
		histEnvs[ip] = zygo.NewZlisp()
		histEnvs[ip].StandardSetup()
	}
	return histEnvs[ip]
}

type histSlot struct {
	kind string // ej em gj gm
	raw  *zygo.SexpRaw
	by   []byte
	snap []byte
	// gj slots only: canonical form of the value decoded from the bytes right after they were produced
	first string
	ok    bool
	dead bool
}

// the bytes the holder of the slot reads now
func (s *histSlot) cur() []byte {
	if s.raw != nil {
		return s.raw.Val
	}
	return s.by
}

type histRes struct {
	ip   int
	name string
	ok   bool
}

// histEval evaluates src in interpreter ip; a panic or error leaves the interpreter usable.
func histEval(ip int, src string) (res zygo.Sexp, err error) {
	env := histEnv(ip)
	defer func() {
		if r := recover(); r != nil {
			err = fmt.Errorf("panic: %v", r)
		}
		// also after a success: drops the code loaded so far, keeps the global scope
		env.Clear()
	}()
	return env.EvalString(src)
}

// histBuild builds value tokens inside interpreter ip (symbols and containers belong to it).
func histBuild(ip int, toks []string) (zygo.Sexp, bool) {
	saved := jsonEnv
	jsonEnv = histEnv(ip)
	defer func() { jsonEnv = saved }()
	v, rest, ok := jsonParseV(toks, 0)
	return v, ok && len(rest) == 0
}

// what the single-step ops `rt`/`mp` do as well: a text that is not JSON, or repeats a member
// name, is outside what the codec is modelled for
func histEncodable(v zygo.Sexp) (ok bool) {
	defer func() {
		if r := recover(); r != nil {
			ok = false
		}
	}()
	jsonDupSeen = false
	return jsonJudge([]byte(zygo.SexpToJson(v))) != "malformed" && !jsonDupSeen
}

func histGoEncode(kind string, v zygo.Sexp) (by []byte, err error) {
	defer func() {
		if r := recover(); r != nil {
			err = fmt.Errorf("panic: %v", r)
		}
	}()
	if kind == "gm" {
		by, _ = zygo.SexpToMsgpack(v)
		return by, nil
	}
	g, err := zygo.JsonToGo([]byte(zygo.SexpToJson(v)))
	if err != nil {
		return nil, err
	}
	return zygo.GoToJson(g), nil
}

func histGoDecode(kind string, by []byte, env *zygo.Zlisp) (res zygo.Sexp, err error) {
	defer func() {
		if r := recover(); r != nil {
			err = fmt.Errorf("panic: %v", r)
		}
	}()
	if kind == "gm" {
		return zygo.MsgpackToSexp(by, env)
	}
	return zygo.JsonToSexp(by, env)
}

func histDecodeCanon(kind string, by []byte, env *zygo.Zlisp) string {
	res, err := histGoDecode(kind, by, env)
	if err != nil || res == nil {
		return "err"
	}
	var sb strings.Builder
	jsonCanonV(res, &sb)
	return sb.String()
}

// script expression for the first non-empty container directly inside the value bound to name
func histChildExpr(name string, v zygo.Sexp) (string, zygo.Sexp) {
	nonEmpty := func(c zygo.Sexp) bool {
		switch x := c.(type) {
		case *zygo.SexpArray:
			return len(x.Val) > 0
		case *zygo.SexpHash:
			return len(x.KeyOrder) > 0
		}
		return false
	}
	switch x := v.(type) {
	case *zygo.SexpArray:
		for i, e := range x.Val {
			if nonEmpty(e) {
				return fmt.Sprintf("(aget %s %d)", name, i), e
			}
		}
	case *zygo.SexpHash:
		for i, k := range x.KeyOrder {
			e, err := x.HashGet(nil, k)
			if err == nil && nonEmpty(e) {
				return fmt.Sprintf("(hget %s (aget (keys %s) %d))", name, name, i), e
			}
		}
	}
	return "", nil
}

// script that overwrites the first element / the value under the first key
func histSetFirst(expr string, v zygo.Sexp) string {
	switch x := v.(type) {
	case *zygo.SexpArray:
		if len(x.Val) > 0 {
			return fmt.Sprintf("(aset %s 0 424242)", expr)
		}
	case *zygo.SexpHash:
		if len(x.KeyOrder) > 0 {
			return fmt.Sprintf("(hset %s (aget (keys %s) 0) 424242)", expr, expr)
		}
	}
	return ""
}

func jsonHistExec(toks []string) string {
	if len(toks) < 1 {
		return "bad-op"
	}
	nv, err := strconv.Atoi(toks[0])
	if err != nil || nv < 0 || nv > 64 {
		return "bad-op"
	}
	// extents of the value token runs
	jsonSetup()
	rest := toks[1:]
	vals := make([][]string, 0, nv)
	for i := 0; i < nv; i++ {
		_, r2, ok := jsonParseV(rest, 0)
		if !ok {
			return "bad-op"
		}
		vals = append(vals, rest[:len(rest)-len(r2)])
		rest = r2
	}
	// histories are about values of the round-trip domain only (the driver answers the same)
	for _, v := range vals {
		if r, ok := histTokValid(v); !ok || len(r) != 0 {
			return "out-of-domain"
		}
	}
	var slots []*histSlot
	var results []*histRes
	var out []string
	var built [2][]zygo.Sexp
	valueOf := func(ip, i int) (zygo.Sexp, bool) {
		if built[ip] == nil {
			built[ip] = make([]zygo.Sexp, nv)
		}
		if built[ip][i] == nil {
			v, ok := histBuild(ip, vals[i])
			if !ok {
				return nil, false
			}
			built[ip][i] = v
		}
		return built[ip][i], true
	}
	intArg := func(k int) (int, bool) {
		if k >= len(rest) {
			return 0, false
		}
		n, err := strconv.Atoi(rest[k])
		return n, err == nil && n >= 0
	}
	for len(rest) > 0 {
		code := rest[0]
		a, okA := intArg(1)
		switch code {
		case "ej", "em":
			i, okI := intArg(2)
			if !okA || !okI || a > 1 || i >= nv {
				return "bad-op"
			}
			rest = rest[3:]
			s := &histSlot{kind: code}
			slots = append(slots, s)
			v, ok := valueOf(a, i)
			if !ok {
				return "bad-op"
			}
			if !histEncodable(v) {
				out = append(out, "err")
				continue
			}
			fn := "json"
			if code == "em" {
				fn = "msgpack"
			}
			histEnv(a).AddGlobal("zv", v)
			res, err := histEval(a, fmt.Sprintf("(%s zv)", fn))
			raw, isRaw := res.(*zygo.SexpRaw)
			if err != nil || !isRaw {
				out = append(out, "err")
				continue
			}
			s.raw, s.ok = raw, true
			s.snap = append([]byte(nil), raw.Val...)
			out = append(out, "ok")
		case "gj", "gm":
			if !okA || a >= nv {
				return "bad-op"
			}
			rest = rest[2:]
			s := &histSlot{kind: code}
			slots = append(slots, s)
			v, ok := valueOf(0, a)
			if !ok {
				return "bad-op"
			}
			if !histEncodable(v) {
				out = append(out, "err")
				continue
			}
			by, err := histGoEncode(code, v)
			if err == nil && code == "gj" && jsonJudge(by) == "malformed" {
				// what GoToJson writes is not compared with a model, but it has to be JSON
				err = fmt.Errorf("GoToJson wrote text that is not JSON")
			}
			if err != nil {
				out = append(out, "err")
				continue
			}
			s.by, s.ok = by, true
			s.snap = append([]byte(nil), by...)
			if code == "gj" {
				s.first = histDecodeCanon(code, s.snap, histEnv(0))
			}
			out = append(out, "ok")
		case "mv":
			i, okI := intArg(2)
			if !okA || !okI || a > 1 || i >= nv {
				return "bad-op"
			}
			rest = rest[3:]
			v, ok := valueOf(a, i)
			if !ok {
				return "bad-op"
			}
			script := histSetFirst("zv", v)
			if script == "" {
				out = append(out, "na")
				continue
			}
			histEnv(a).AddGlobal("zv", v)
			if _, err := histEval(a, script); err != nil {
				out = append(out, "err")
				continue
			}
			out = append(out, "ok")
		case "d":
			sidx, okS := intArg(2)
			if !okA || !okS || a > 1 || sidx >= len(slots) {
				return "bad-op"
			}
			rest = rest[3:]
			s := slots[sidx]
			r := &histRes{ip: a, name: fmt.Sprintf("zr%d", len(results))}
			results = append(results, r)
			if s.dead {
				out = append(out, "dead")
				continue
			}
			if !s.ok {
				out = append(out, "err")
				continue
			}
			if s.kind == "gj" {
				// the text is written by the codec's JSON encoder, which is not on the path of
				// (json v) and not modelled: judged only against what the same bytes decoded to at first
				if histDecodeCanon(s.kind, s.by, histEnv(a)) == s.first {
					out = append(out, "same-as-first")
				} else {
					out = append(out, "differs")
				}
				continue
			}
			var res zygo.Sexp
			var err error
			if s.raw != nil {
				fn := "unjson"
				if s.kind == "em" {
					fn = "unmsgpack"
				}
				sname := fmt.Sprintf("zs%d", sidx)
				histEnv(a).AddGlobal(sname, s.raw)
				res, err = histEval(a, fmt.Sprintf("(%s %s)", fn, sname))
			} else {
				res, err = histGoDecode(s.kind, s.by, histEnv(a))
			}
			if err == nil && res != nil {
				// bound by the host (a `def` over a name that held a value of another type is refused)
				histEnv(a).AddGlobal(r.name, res)
			}
			if err != nil || res == nil {
				out = append(out, "err")
				continue
			}
			r.ok = true
			var sb strings.Builder
			jsonCanonV(res, &sb)
			out = append(out, sb.String())
		case "st":
			if !okA || a >= len(slots) {
				return "bad-op"
			}
			rest = rest[2:]
			s := slots[a]
			switch {
			case s.dead:
				out = append(out, "dead")
			case !s.ok:
				out = append(out, "err")
			case bytes.Equal(s.cur(), s.snap):
				out = append(out, "same")
			default:
				out = append(out, "changed")
			}
		case "zb":
			if !okA || a >= len(slots) {
				return "bad-op"
			}
			rest = rest[2:]
			s := slots[a]
			fill := byte('#')
			if s.kind == "em" || s.kind == "gm" {
				fill = 0xC1
			}
			b := s.cur()
			for i := range b {
				b[i] = fill
			}
			s.dead = true
			out = append(out, "ok")
		case "mu", "md", "ad", "sh":
			if !okA || a >= len(results) {
				return "bad-op"
			}
			rest = rest[2:]
			r := results[a]
			if !r.ok {
				out = append(out, "na")
				continue
			}
			cur, found := histEnv(r.ip).FindObject(r.name)
			if !found {
				out = append(out, "na")
				continue
			}
			script := ""
			switch code {
			case "sh":
				var sb strings.Builder
				jsonCanonV(cur, &sb)
				out = append(out, sb.String())
				continue
			case "mu":
				script = histSetFirst(r.name, cur)
			case "md":
				if expr, child := histChildExpr(r.name, cur); child != nil {
					script = histSetFirst(expr, child)
				}
			case "ad":
				if _, isHash := cur.(*zygo.SexpHash); isHash {
					script = fmt.Sprintf("(hset %s zzN%d: 424242)", r.name, a)
				}
			}
			if script == "" {
				out = append(out, "na")
				continue
			}
			if _, err := histEval(r.ip, script); err != nil {
				out = append(out, "err")
				continue
			}
			out = append(out, "ok")
		default:
			return "bad-op"
		}
	}
	if len(out) == 0 {
		return "bad-op"
	}
	return strings.Join(out, " | ")
}
