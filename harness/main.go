// zyh: correspondence harness. Runs the real zygomys code in-process.
//
//	zyh gen  <channel> -seed N -tier quick|thorough   > ops     (one self-contained op per line)
//	zyh exec                                          < ops > impl answers (one line per op)
//
// Every op line starts with its channel name, so `exec` needs no other argument and a
// replay is just a file of op lines. All random choices derive from -seed.
package main

import (
	"bufio"
	"flag"
	"fmt"
	"math/rand"
	"os"
	"sort"
	"strings"
)

type Channel struct {
	// Gen writes op lines through emit.
	Gen func(g *Gen)
	// Exec runs one op (tokens after the channel name) on the real implementation and
	// returns the canonical answer. It must not panic (recover inside) except where a
	// panic is itself the observation, in which case execLine reports it.
	Exec func(toks []string) string
}

type Gen struct {
	Rng     *rand.Rand
	Tier    string
	Seed    int64
	channel string
	out     *bufio.Writer
	N       int
	Stats   map[string]int
}

func (g *Gen) Thorough() bool { return g.Tier == "thorough" }

func (g *Gen) Emit(format string, a ...interface{}) {
	fmt.Fprintf(g.out, g.channel+" "+format+"\n", a...)
	g.N++
}

func (g *Gen) Count(key string) { g.Stats[key]++ }

var channels = map[string]*Channel{}

// exitAfterOp: set by a channel whose op left a goroutine that cannot be stopped (channel
// crash: a text that does not terminate); `exec` ends after answering that op and
// lib/vcommon.exec_impl starts a new process for the remaining ops.
var exitAfterOp bool

func execLine(line string) (ans string) {
	toks := strings.Fields(line)
	if len(toks) == 0 {
		return "bad-op"
	}
	ch, ok := channels[toks[0]]
	if !ok {
		return "bad-channel"
	}
	defer func() {
		if r := recover(); r != nil {
			ans = "HOSTPANIC " + strings.ReplaceAll(fmt.Sprint(r), "\n", " ")
		}
	}()
	return ch.Exec(toks[1:])
}

func main() {
	if len(os.Args) < 2 {
		fmt.Fprintln(os.Stderr, "usage: zyh gen <channel> [-seed N] [-tier T] | zyh exec")
		os.Exit(2)
	}
	switch os.Args[1] {
	case "gen":
		fs := flag.NewFlagSet("gen", flag.ExitOnError)
		seed := fs.Int64("seed", 1, "PRNG seed")
		tier := fs.String("tier", "quick", "quick|thorough")
		stats := fs.String("stats", "", "write generator statistics (key count per line) to this file")
		if len(os.Args) < 3 {
			os.Exit(2)
		}
		name := os.Args[2]
		fs.Parse(os.Args[3:])
		ch, ok := channels[name]
		if !ok {
			fmt.Fprintln(os.Stderr, "unknown channel", name)
			os.Exit(2)
		}
		w := bufio.NewWriterSize(os.Stdout, 1<<20)
		g := &Gen{Rng: rand.New(rand.NewSource(*seed)), Tier: *tier, Seed: *seed, channel: name, out: w, Stats: map[string]int{}}
		ch.Gen(g)
		w.Flush()
		if *stats != "" {
			keys := make([]string, 0, len(g.Stats))
			for k := range g.Stats {
				keys = append(keys, k)
			}
			sort.Strings(keys)
			f, err := os.Create(*stats)
			if err == nil {
				for _, k := range keys {
					fmt.Fprintf(f, "%s %d\n", k, g.Stats[k])
				}
				f.Close()
			}
		}
	case "exec":
		in := bufio.NewReaderSize(os.Stdin, 1<<20)
		// answers go to the real stdout; anything the interpreter itself prints there (debug
		// prints such as LenFunction's) must not shift the answer lines
		answers := os.Stdout
		if devnull, err := os.OpenFile(os.DevNull, os.O_WRONLY, 0); err == nil {
			os.Stdout = devnull
		}
		w := bufio.NewWriterSize(answers, 1<<20)
		defer w.Flush()
		for {
			line, err := in.ReadString('\n')
			if len(line) > 0 {
				fmt.Fprintln(w, execLine(strings.TrimRight(line, "\n")))
				w.Flush() // a process that dies later (fatal error, os.Exit) keeps the answers given so far
				if exitAfterOp {
					w.Flush()
					os.Exit(0)
				}
			}
			if err != nil {
				break
			}
		}
	default:
		os.Exit(2)
	}
}
