package main

// Channel rec (C17): declared struct types are enforced on every write.
//
// One op line = one self-contained history against a fresh interpreter and a reset type
// registry:   rec <step> ; <step> ; ...
//
//	D <n> <nf> (<f> <texpr>)*            (struct S<n> [(field f<f>: <texpr>) ...])
//	M <slot> <n> <np> (<key> <vexpr>)*   v<slot> := (S<n> key val ...)        construction
//	H <slot> <np> (<key> <vexpr>)*       v<slot> := (hash key val ...)        untyped hash
//	W <route> <slot> <key> <vexpr>       one-field write; route h (hset) | d (hset (* (& v)) ..)
//	                                     | x {v[key] = val} (selector assignment)
//	                                     | q {v[%f] = val} (selector assignment, quoted field symbol)
//	                                     | a (hset v [key] val) (key wrapped in a one-element array)
//	                                     | . {v.f = val} (infix dot path) | s (set v.f val)
//	P <route> <slot> <np> <f>* <vexpr>   nested dot path {v.f1.f2 = val}; route . | s
//	R <slot> <n> <np> (<key> <vexpr>)*   (derefSet (& v<slot>) (S<n> key val ...))
//	J <fmt> <slot> <n> <ko> <np> (<f> <jval>)*   v<slot> := (unjson|unmsgpack text), Atype S<n>;
//	                                     fmt j|m; ko '-' or a permutation of field ids (zKeyOrder)
//
// texpr: [s|p]* then i(int64) t(string) f(float64) b(bool) S<n> ?(unbound name)
// key:   :<k> symbol f<k>   "<k> string "f<k>"   #<int> integer key
// vexpr: n nil | i<int> | u 5ULL | d 2.5 | b true | c 'c' | t<k> "s<k>" | y (quote sym)
//	| l (list 1 2) | v<slot> | &<slot> (& v<slot>) | &i (& 5) | g<slot>.<f> (hget v<slot> f<f>:)
//	| [] | [<vexpr>|<rest>  array whose first element is vexpr followed by recRest[rest]
// jval:  n | i<int> | d | b | t<k> | [] | [<jval>|<rest>
//
// Answer: per step `ok|err` followed by the dump of every slot-bound instance
// (`I @<slot> <typename> <gen|-> <nfields> (<key> <type>=<digest>)*`), steps separated by `;`.
// <gen> identifies the definition the instance carries (GoStructFactory): 2k+1 for the
// struct declared by step k (1-based), 2k for the empty placeholder that a failed step k left.
// <type> is the language's own Type() of the value (nil = SexpNull, nt = other nil-typed),
// for record values the definition they carry.

import (
	"fmt"
	"sort"
	"strconv"
	"strings"

	"github.com/glycerine/zygomys/v9/zygo"
)

var recRest = []string{"", "2", `"a"`, "nil 1"}
var recRestJSON = []string{"", "2", `"a"`, "null,1"}

// ---- registry reset: the type registry is process-global; every op line starts from the
// registry as it was when the channel was first used.
var recBaseReg map[string]*zygo.RegisteredType
var recBaseUser map[string]*zygo.RegisteredType
var recBaseList []string

func recResetRegistry() {
	r := &zygo.GoStructRegistry
	if recBaseReg == nil {
		// warm up the lazily created entries that do not depend on user structs
		e := zygo.NewZlisp()
		e.StandardSetup()
		e.EvalString(`(hash a: 1) `)
		recBaseReg = map[string]*zygo.RegisteredType{}
		recBaseUser = map[string]*zygo.RegisteredType{}
		for k, v := range r.Registry {
			recBaseReg[k] = v
		}
		for k, v := range r.Userdef {
			recBaseUser[k] = v
		}
		recBaseList = append([]string{}, zygo.ListRegisteredTypes...)
		return
	}
	for k := range r.Registry {
		if _, ok := recBaseReg[k]; !ok {
			delete(r.Registry, k)
		}
	}
	for k, v := range recBaseReg {
		r.Registry[k] = v
	}
	for k := range r.Userdef {
		if _, ok := recBaseUser[k]; !ok {
			delete(r.Userdef, k)
		}
	}
	for k, v := range recBaseUser {
		r.Userdef[k] = v
	}
	zygo.ListRegisteredTypes = append([]string{}, recBaseList...)
}

type recRun struct {
	env   *zygo.Zlisp
	slots map[int]*zygo.SexpHash
	gens  map[*zygo.RegisteredType]int
	tmp   int
}

func (r *recRun) texpr(s string) (string, bool) {
	if s == "" {
		return "", false
	}
	switch s[0] {
	case 's':
		in, ok := r.texpr(s[1:])
		return "([]" + in + ")", ok
	case 'p':
		in, ok := r.texpr(s[1:])
		return "(* " + in + ")", ok
	case 'i':
		return "int64", len(s) == 1
	case 't':
		return "string", len(s) == 1
	case 'f':
		return "float64", len(s) == 1
	case 'b':
		return "bool", len(s) == 1
	case '?':
		return "nosuchtype", len(s) == 1
	case 'S':
		_, err := strconv.Atoi(s[1:])
		return s, err == nil
	}
	return "", false
}

func recKey(s string) (string, bool) {
	if len(s) < 2 {
		return "", false
	}
	n, err := strconv.Atoi(s[1:])
	if err != nil {
		return "", false
	}
	switch s[0] {
	case ':':
		return fmt.Sprintf("f%d:", n), n >= 0
	case '"':
		return fmt.Sprintf(`"f%d"`, n), n >= 0
	case '#':
		return strconv.Itoa(n), true
	}
	return "", false
}

// vexpr -> zygomys expression text; slot values are reached through fresh global names.
func (r *recRun) vexpr(s string) (string, bool) {
	if s == "" {
		return "", false
	}
	switch {
	case s == "n":
		return "nil", true
	case s == "u":
		return "5ULL", true
	case s == "d":
		return "2.5", true
	case s == "b":
		return "true", true
	case s == "c":
		return "'c'", true
	case s == "y":
		return "(quote sym)", true
	case s == "l":
		return "(list 1 2)", true
	case s == "[]":
		return "[]", true
	case s == "&i":
		return "(& 5)", true
	case s[0] == 'i':
		n, err := strconv.Atoi(s[1:])
		return strconv.Itoa(n), err == nil
	case s[0] == 't':
		n, err := strconv.Atoi(s[1:])
		return fmt.Sprintf(`"s%d"`, n), err == nil && n >= 0
	case s[0] == 'v':
		n, err := strconv.Atoi(s[1:])
		return r.slotName(n), err == nil && n >= 0
	case s[0] == '&':
		n, err := strconv.Atoi(s[1:])
		return "(& " + r.slotName(n) + ")", err == nil && n >= 0
	case s[0] == 'g':
		parts := strings.Split(s[1:], ".")
		if len(parts) != 2 {
			return "", false
		}
		n, err := strconv.Atoi(parts[0])
		f, err2 := strconv.Atoi(parts[1])
		return fmt.Sprintf("(hget %s f%d:)", r.slotName(n), f), err == nil && err2 == nil && n >= 0 && f >= 0
	case s[0] == '[':
		i := strings.LastIndex(s, "|")
		if i < 0 {
			return "", false
		}
		rest, err := strconv.Atoi(s[i+1:])
		if err != nil || rest < 0 || rest >= len(recRest) {
			return "", false
		}
		first, ok := r.vexpr(s[1:i])
		return strings.TrimSpace("["+first+" "+recRest[rest]) + "]", ok
	}
	return "", false
}

// the global name under which slot n's current value is reachable (unbound when the slot is empty)
func (r *recRun) slotName(n int) string {
	h, ok := r.slots[n]
	if !ok {
		return fmt.Sprintf("unbound%d", n)
	}
	r.tmp++
	name := fmt.Sprintf("zz%dv%d", r.tmp, n)
	r.env.AddGlobal(name, h)
	return name
}

func recJval(s string) (string, bool) {
	switch {
	case s == "n":
		return "null", true
	case s == "d":
		return "2.5", true
	case s == "b":
		return "true", true
	case s == "[]":
		return "[]", true
	case s == "":
		return "", false
	case s[0] == 'i':
		n, err := strconv.Atoi(s[1:])
		return strconv.Itoa(n), err == nil
	case s[0] == 't':
		n, err := strconv.Atoi(s[1:])
		return fmt.Sprintf(`"s%d"`, n), err == nil && n >= 0
	case s[0] == '[':
		i := strings.LastIndex(s, "|")
		if i < 0 {
			return "", false
		}
		rest, err := strconv.Atoi(s[i+1:])
		if err != nil || rest < 0 || rest >= len(recRestJSON) {
			return "", false
		}
		first, ok := recJval(s[1:i])
		out := "[" + first
		if recRestJSON[rest] != "" {
			out += "," + recRestJSON[rest]
		}
		return out + "]", ok
	}
	return "", false
}

func (r *recRun) pairs(toks []string) (string, bool) {
	if len(toks)%2 != 0 {
		return "", false
	}
	var sb strings.Builder
	for i := 0; i < len(toks); i += 2 {
		k, ok := recKey(toks[i])
		v, ok2 := r.vexpr(toks[i+1])
		if !ok || !ok2 {
			return "", false
		}
		sb.WriteString(" " + k + " " + v)
	}
	return sb.String(), true
}

func (r *recRun) eval(text string) (res zygo.Sexp, ok bool) {
	defer func() {
		if e := recover(); e != nil {
			r.env.Clear()
			res, ok = zygo.SexpNull, false
		}
	}()
	v, err := r.env.EvalString(text + "\n")
	if err != nil {
		r.env.Clear()
		return zygo.SexpNull, false
	}
	return v, true
}

func (r *recRun) bind(slot int, v zygo.Sexp) bool {
	h, isHash := v.(*zygo.SexpHash)
	if !isHash {
		return false
	}
	r.slots[slot] = h
	return true
}

func atoiOK(s string) (int, bool) {
	n, err := strconv.Atoi(s)
	return n, err == nil && n >= 0
}

// runs one step; returns ok/err, or "" for a malformed step
func (r *recRun) step(k int, t []string) string {
	bad := ""
	res := func(ok bool) string {
		if ok {
			return "ok"
		}
		return "err"
	}
	if len(t) == 0 {
		return bad
	}
	switch t[0] {
	case "D":
		if len(t) < 3 {
			return bad
		}
		n, ok1 := atoiOK(t[1])
		nf, ok2 := atoiOK(t[2])
		if !ok1 || !ok2 || len(t) != 3+2*nf {
			return bad
		}
		var sb strings.Builder
		fmt.Fprintf(&sb, "(struct S%d [", n)
		for i := 0; i < nf; i++ {
			f, okf := atoiOK(t[3+2*i])
			te, okt := r.texpr(t[4+2*i])
			if !okf || !okt {
				return bad
			}
			fmt.Fprintf(&sb, "(field f%d: %s) ", f, te)
		}
		sb.WriteString("])")
		_, ok := r.eval(sb.String())
		if rt := zygo.GoStructRegistry.Registry[fmt.Sprintf("S%d", n)]; rt != nil {
			if _, seen := r.gens[rt]; !seen {
				if ok {
					r.gens[rt] = 2*k + 1
				} else {
					r.gens[rt] = 2 * k
				}
			}
		}
		return res(ok)
	case "M", "H":
		off := 3
		if t[0] == "H" {
			off = 2
		}
		if len(t) < off+1 {
			return bad
		}
		slot, ok1 := atoiOK(t[1])
		np, ok2 := atoiOK(t[off])
		if !ok1 || !ok2 || len(t) != off+1+2*np {
			return bad
		}
		head := "hash"
		if t[0] == "M" {
			n, ok := atoiOK(t[2])
			if !ok {
				return bad
			}
			head = fmt.Sprintf("S%d", n)
		}
		ps, ok := r.pairs(t[off+1:])
		if !ok {
			return bad
		}
		v, evok := r.eval("(" + head + ps + ")")
		if !evok {
			return "err"
		}
		return res(r.bind(slot, v))
	case "W":
		if len(t) != 5 {
			return bad
		}
		slot, ok1 := atoiOK(t[2])
		key, ok2 := recKey(t[3])
		val, ok3 := r.vexpr(t[4])
		if !ok1 || !ok2 || !ok3 {
			return bad
		}
		x := r.slotName(slot)
		var text string
		switch t[1] {
		case "h":
			text = fmt.Sprintf("(hset %s %s %s)", x, key, val)
		case "d":
			text = fmt.Sprintf("(hset (* (& %s)) %s %s)", x, key, val)
		case "x":
			if t[3][0] == ':' {
				return bad
			}
			text = fmt.Sprintf("{%s[%s] = %s}", x, key, val)
		case "q":
			// selector assignment with a quoted field symbol: {v[%f0] = val}
			if t[3][0] != ':' {
				return bad
			}
			text = fmt.Sprintf("{%s[%%%s] = %s}", x, strings.TrimSuffix(key, ":"), val)
		case "a":
			// hset with the key wrapped in a one-element array: (hset v [%f0] val), (hset v ["f0"] val), (hset v [5] val)
			k := key
			if t[3][0] == ':' {
				k = "%" + strings.TrimSuffix(key, ":")
			}
			text = fmt.Sprintf("(hset %s [%s] %s)", x, k, val)
		case ".", "s":
			if t[3][0] != ':' {
				return bad
			}
			f := strings.TrimSuffix(key, ":")
			if t[1] == "." {
				text = fmt.Sprintf("{%s.%s = %s}", x, f, val)
			} else {
				text = fmt.Sprintf("(set %s.%s %s)", x, f, val)
			}
		default:
			return bad
		}
		_, ok := r.eval(text)
		return res(ok)
	case "P":
		if len(t) < 5 {
			return bad
		}
		slot, ok1 := atoiOK(t[2])
		np, ok2 := atoiOK(t[3])
		if !ok1 || !ok2 || np < 2 || len(t) != 5+np {
			return bad
		}
		path := r.slotName(slot)
		for i := 0; i < np; i++ {
			f, ok := atoiOK(t[4+i])
			if !ok {
				return bad
			}
			path += fmt.Sprintf(".f%d", f)
		}
		val, ok3 := r.vexpr(t[4+np])
		if !ok3 {
			return bad
		}
		var text string
		switch t[1] {
		case ".":
			text = fmt.Sprintf("{%s = %s}", path, val)
		case "s":
			text = fmt.Sprintf("(set %s %s)", path, val)
		default:
			return bad
		}
		_, ok := r.eval(text)
		return res(ok)
	case "R":
		if len(t) < 4 {
			return bad
		}
		slot, ok1 := atoiOK(t[1])
		n, ok2 := atoiOK(t[2])
		np, ok3 := atoiOK(t[3])
		if !ok1 || !ok2 || !ok3 || len(t) != 4+2*np {
			return bad
		}
		ps, ok := r.pairs(t[4:])
		if !ok {
			return bad
		}
		_, evok := r.eval(fmt.Sprintf("(derefSet (& %s) (S%d%s))", r.slotName(slot), n, ps))
		return res(evok)
	case "J":
		if len(t) < 6 {
			return bad
		}
		slot, ok1 := atoiOK(t[2])
		n, ok2 := atoiOK(t[3])
		np, ok3 := atoiOK(t[5])
		if !ok1 || !ok2 || !ok3 || len(t) != 6+2*np || (t[1] != "j" && t[1] != "m") {
			return bad
		}
		var parts []string
		parts = append(parts, fmt.Sprintf(`"Atype":"S%d"`, n))
		for i := 0; i < np; i++ {
			f, okf := atoiOK(t[6+2*i])
			jv, okv := recJval(t[7+2*i])
			if !okf || !okv {
				return bad
			}
			parts = append(parts, fmt.Sprintf(`"f%d":%s`, f, jv))
		}
		if t[4] != "-" {
			var ko []string
			for _, c := range t[4] {
				if c < '0' || c > '9' {
					return bad
				}
				ko = append(ko, fmt.Sprintf(`"f%c"`, c))
			}
			parts = append(parts, `"zKeyOrder":[`+strings.Join(ko, ",")+`]`)
		}
		json := "{" + strings.Join(parts, ", ") + "}"
		text := "(unjson (raw `" + json + "`))"
		if t[1] == "m" {
			// msgpack bytes of the same document, produced by the library's own JSON->Go->msgpack path
			iface, err := zygo.JsonToGo([]byte(json))
			if err != nil {
				return "err"
			}
			by, err := zygo.GoToMsgpack(iface)
			if err != nil {
				return "err"
			}
			r.tmp++
			name := fmt.Sprintf("zz%dmsg", r.tmp)
			r.env.AddGlobal(name, &zygo.SexpRaw{Val: by})
			text = "(unmsgpack " + name + ")"
		}
		v, evok := r.eval(text)
		if !evok {
			return "err"
		}
		return res(r.bind(slot, v))
	}
	return bad
}

// ---- canonical dump

func (r *recRun) genOf(rt *zygo.RegisteredType) string {
	if rt == nil || rt.UserStructDefn == nil {
		return "-"
	}
	if g, ok := r.gens[rt]; ok {
		return strconv.Itoa(g)
	}
	return "?"
}

func (r *recRun) slotOf(h *zygo.SexpHash) string {
	best := -1
	for s, x := range r.slots {
		if x == h && (best < 0 || s < best) {
			best = s
		}
	}
	if best < 0 {
		return "^anon"
	}
	return fmt.Sprintf("@%d", best)
}

func recCodes(s string) string {
	if s == "" {
		return "-"
	}
	var p []string
	for _, b := range []byte(s) {
		p = append(p, strconv.Itoa(int(b)))
	}
	return strings.Join(p, ".")
}

func (r *recRun) digest(v zygo.Sexp) string {
	switch x := v.(type) {
	case *zygo.SexpInt:
		return strconv.FormatInt(x.Val, 10)
	case *zygo.SexpStr:
		return recCodes(x.S)
	case *zygo.SexpHash:
		return r.slotOf(x)
	case *zygo.SexpArray:
		var p []string
		for _, e := range x.Val {
			p = append(p, r.digest(e))
		}
		return "[" + strings.Join(p, ",") + "]"
	case *zygo.SexpPointer:
		if h, ok := x.Target.(*zygo.SexpHash); ok {
			return "&" + r.slotOf(h)
		}
		return "&_"
	}
	return "_"
}

func (r *recRun) typeTok(v zygo.Sexp) string {
	if v == zygo.SexpNull {
		return "nil"
	}
	if h, ok := v.(*zygo.SexpHash); ok {
		if h.GoStructFactory != nil && h.GoStructFactory.UserStructDefn != nil {
			return h.TypeName + "#" + r.genOf(h.GoStructFactory)
		}
		return h.TypeName + "#0"
	}
	ty := recSafeType(v)
	if ty == nil {
		return "nt"
	}
	return ty.RegisteredName + "#0"
}

// Type() of an array whose first element is an untyped hash panics inside reflect.SliceOf
// (nil TypeCache); the same panic is what TypeCheckField runs into. Observed as "no type".
func recSafeType(v zygo.Sexp) (ty *zygo.RegisteredType) {
	defer func() {
		if e := recover(); e != nil {
			ty = nil
		}
	}()
	return v.Type()
}

func recKeyTok(k zygo.Sexp) string {
	switch x := k.(type) {
	case *zygo.SexpSymbol:
		return ":" + x.Name()
	case *zygo.SexpStr:
		return `"` + recCodes(x.S)
	case *zygo.SexpInt:
		return "#" + strconv.FormatInt(x.Val, 10)
	}
	return "?" + strings.ReplaceAll(k.SexpString(nil), " ", "_")
}

func (r *recRun) dump(sb *strings.Builder) {
	var ss []int
	for s := range r.slots {
		ss = append(ss, s)
	}
	sort.Ints(ss)
	for _, s := range ss {
		h := r.slots[s]
		type kv struct{ k, v string }
		var kvs []kv
		for _, key := range h.KeyOrder {
			val, err := h.HashGet(r.env, key)
			if err != nil {
				continue // deleted / absent key
			}
			kvs = append(kvs, kv{recKeyTok(key), r.typeTok(val) + "=" + r.digest(val)})
		}
		fmt.Fprintf(sb, " I @%d %s %s %d", s, h.TypeName, r.genOf(h.GoStructFactory), len(kvs))
		for _, e := range kvs {
			sb.WriteString(" " + e.k + " " + e.v)
		}
	}
}

func recExec(toks []string) string {
	recResetRegistry()
	recResetRegistry()
	env := zygo.NewZlisp()
	env.StandardSetup()
	r := &recRun{env: env, slots: map[int]*zygo.SexpHash{}, gens: map[*zygo.RegisteredType]int{}}
	var sb strings.Builder
	k := 0
	start := 0
	for i := 0; i <= len(toks); i++ {
		if i < len(toks) && toks[i] != ";" {
			continue
		}
		stepToks := toks[start:i]
		start = i + 1
		if len(stepToks) == 0 {
			continue
		}
		k++
		st := r.step(k, stepToks)
		if st == "" {
			return "bad-op"
		}
		if k > 1 {
			sb.WriteString(" ; ")
		}
		sb.WriteString(st)
		r.dump(&sb)
	}
	if k == 0 {
		return "bad-op"
	}
	return sb.String()
}

func init() { channels["rec"] = &Channel{Gen: recGen, Exec: recExec} }
