package main

// Channel contain (C05): failure injection at every reachable evaluation point + twin.
//
//   contain <kind> <site> <count> <d,s,a> <hex setup> <hex program> <hex prefix>
//
// Interpreter A (NewZlisp + StandardSetup + host functions boom/tick) evaluates <setup>
// (must succeed; depths then are <d,s,a>), then <program>, in which the <count>-th dynamic
// call of `(boom <site>)` fails in the way <kind> says (or the site is rendered as a failing
// form). The property demands: an error is returned (never swallowed into a value), the
// interpreter is back at rest, and every later evaluation behaves exactly as on a twin B that
// evaluated <setup> and then only <prefix> — the part of the program that ran before the
// failure (computed by the generator from the evaluation order of the forms it emits).
// Answer: `contained d,s,a` or `BROKEN <what differs>`.
//
// kinds: err (host function returns an error), panic (host function panics), undef (unbound
// symbol), arity (wrong number of arguments to a compiled function), typeerr (builtin rejects
// its operands), evalcompile (compile error in a form compiled at run time by eval),
// loadcompile (malformed nested form: nothing of the text may run), macroexp (failure while
// expanding a macro at compile time), parse (unbalanced text), none (control: no failure).

import (
	"encoding/hex"
	"fmt"
	"strconv"
	"strings"

	"github.com/glycerine/zygomys/v9/zygo"
)

type cnode struct {
	kind string
	kids []*cnode
	id   int // eff: global index; boom: site id; callfn/lazy: function index
	val  int
	flag bool
	n    int
}

const nGlobals = 6

type cgen struct {
	g        *Gen
	nextSite int
	funcs    []*cnode // bodies of zero-argument functions f0.. (each called at most once)
	lazies   []*cnode // marker only
}

func (c *cgen) eff() *cnode {
	return &cnode{kind: "eff", id: c.g.Rng.Intn(nGlobals), val: 1 + c.g.Rng.Intn(90)}
}

func (c *cgen) boom() *cnode {
	c.nextSite++
	return &cnode{kind: "boom", id: c.nextSite}
}

func (c *cgen) seq(depth int, min int) []*cnode {
	n := min + c.g.Rng.Intn(3)
	var ks []*cnode
	for i := 0; i < n; i++ {
		ks = append(ks, c.node(depth))
	}
	return ks
}

func (c *cgen) node(depth int) *cnode {
	r := c.g.Rng
	if depth <= 0 {
		if r.Intn(3) == 0 {
			return c.boom()
		}
		return c.eff()
	}
	kinds := []string{"eff", "boom", "begin", "plus", "let", "letseq", "newscope", "cond", "callfn", "lambda",
		"apply", "mapf", "eval", "lazy", "lazykeep", "loop", "and", "array", "list", "rec", "rectail", "hashlit", "infix"}
	k := kinds[r.Intn(len(kinds))]
	c.g.Count("node " + k)
	switch k {
	case "eff":
		return c.eff()
	case "boom":
		return c.boom()
	case "begin", "plus", "newscope", "and", "array", "list", "infix":
		return &cnode{kind: k, kids: c.seq(depth-1, 1)}
	case "let", "letseq":
		// kids[0] = binding value, rest = body
		return &cnode{kind: k, kids: append([]*cnode{c.node(depth - 1)}, c.seq(depth-1, 1)...)}
	case "cond":
		return &cnode{kind: k, flag: r.Intn(2) == 0, kids: []*cnode{c.node(depth - 1), c.node(depth - 1)}}
	case "callfn", "apply":
		body := &cnode{kind: "begin", kids: c.seq(depth-1, 1)}
		c.funcs = append(c.funcs, body)
		return &cnode{kind: k, id: len(c.funcs) - 1}
	case "lambda":
		// ((fn [a] body...) arg)
		return &cnode{kind: k, kids: append([]*cnode{c.node(depth - 1)}, c.seq(depth-1, 1)...)}
	case "mapf":
		// flag: map over a LIST (MapList) instead of an array (MapArray) — two separate loops in the
		// implementation, each of which has to hand a callback's error on from EVERY element
		return &cnode{kind: k, n: 1 + r.Intn(3), flag: r.Intn(2) == 0, kids: c.seq(depth-1, 1)}
	case "loop":
		return &cnode{kind: k, n: 1 + r.Intn(3), kids: c.seq(depth-1, 1)}
	case "eval":
		return &cnode{kind: k, kids: []*cnode{c.node(depth - 1)}}
	case "lazy":
		return &cnode{kind: k, id: r.Intn(nGlobals), val: r.Intn(nGlobals), kids: []*cnode{c.node(depth - 1)}}
	case "lazykeep":
		// the argument is closed over the globals (effects and failure sites only) so that the
		// twin can state what the kept thunk denotes
		return &cnode{kind: k, id: r.Intn(2), kids: c.seq(0, 1)}
	case "rec", "rectail":
		c.nextSite++
		return &cnode{kind: k, n: 1 + r.Intn(4), id: c.nextSite, val: r.Intn(nGlobals)}
	case "hashlit":
		return &cnode{kind: k, kids: c.seq(depth-1, 1)}
	}
	return c.eff()
}

// event: one dynamic execution of a failure site, in evaluation order.
type cevent struct{ site, count int }

type cwalk struct {
	c      *cgen
	counts map[int]int
	events []cevent
}

func (w *cwalk) hit(site int) {
	w.counts[site]++
	w.events = append(w.events, cevent{site, w.counts[site]})
}

func (w *cwalk) walk(n *cnode) {
	switch n.kind {
	case "eff":
	case "boom":
		w.hit(n.id)
	case "cond":
		if n.flag {
			w.walk(n.kids[0])
		} else {
			w.walk(n.kids[1])
		}
	case "callfn", "apply":
		w.walk(w.c.funcs[n.id])
	case "mapf", "loop":
		for i := 0; i < n.n; i++ {
			for _, k := range n.kids {
				w.walk(k)
			}
		}
	case "rec", "rectail":
		for i := 0; i < n.n; i++ {
			w.hit(n.id)
		}
	default:
		for _, k := range n.kids {
			w.walk(k)
		}
	}
}

type crender struct {
	c         *cgen
	failSite  int
	kind      string
	failCount int // kinds core:*: which dynamic execution of failSite fails
}

func (r *crender) site(id int) string {
	if id == r.failSite {
		switch r.kind {
		case "undef":
			return "undefined_symbol_zz"
		case "arity":
			return "(farity 1 2)"
		case "typeerr":
			return "(+ 1 \"a\")"
		case "evalcompile":
			return "(eval (quote (let)))"
		case "loadcompile":
			return "(let)"
		case "macroexp":
			return fmt.Sprintf("(mfail %d)", id)
		case "core:undef", "core:arity", "core:typeerr":
			// core-language ops (ch_contain_core.go): a counter global tells the dynamic
			// executions of the site apart; the failCount-th one fails
			fail := map[string]string{"core:undef": "undefined_symbol_zz", "core:arity": "(farity 1 2)", "core:typeerr": "(+ 1 \"a\")"}[r.kind]
			return fmt.Sprintf("(begin (set cnt (+ cnt 1)) (cond (== cnt %d) %s (boom %d)))", r.failCount, fail, id)
		}
	}
	return fmt.Sprintf("(boom %d)", id)
}

func (r *crender) many(ks []*cnode) string {
	var ss []string
	for _, k := range ks {
		ss = append(ss, r.render(k))
	}
	return strings.Join(ss, " ")
}

func (r *crender) render(n *cnode) string {
	switch n.kind {
	case "eff":
		return fmt.Sprintf("(set g%d %d)", n.id, n.val)
	case "boom":
		return r.site(n.id)
	case "begin":
		return "(begin " + r.many(n.kids) + ")"
	case "plus":
		// every operand is forced to an integer so that only the injected failure can fail
		var ss []string
		for _, k := range n.kids {
			ss = append(ss, "(begin "+r.render(k)+" 1)")
		}
		return "(+ 0 " + strings.Join(ss, " ") + ")"
	case "and":
		var ss []string
		for _, k := range n.kids {
			ss = append(ss, "(begin "+r.render(k)+" true)")
		}
		return "(and " + strings.Join(ss, " ") + ")"
	case "array":
		return "[" + r.many(n.kids) + "]"
	case "list":
		return "(list " + r.many(n.kids) + ")"
	case "infix":
		var ss []string
		for _, k := range n.kids {
			ss = append(ss, r.render(k))
		}
		return "{" + strings.Join(ss, "; ") + "}"
	case "hashlit":
		var ss []string
		for i, k := range n.kids {
			ss = append(ss, fmt.Sprintf("%q %s", fmt.Sprintf("k%d", i), r.render(k)))
		}
		return "(hash " + strings.Join(ss, " ") + ")"
	case "newscope":
		return "(newScope " + r.many(n.kids) + ")"
	case "let", "letseq":
		return "(" + n.kind + " [lx " + r.render(n.kids[0]) + "] " + r.many(n.kids[1:]) + ")"
	case "cond":
		return fmt.Sprintf("(cond %v %s %s)", n.flag, r.render(n.kids[0]), r.render(n.kids[1]))
	case "callfn":
		return fmt.Sprintf("(f%d)", n.id)
	case "apply":
		return fmt.Sprintf("(apply f%d [])", n.id)
	case "lambda":
		return "((fn [la] " + r.many(n.kids[1:]) + ") " + r.render(n.kids[0]) + ")"
	case "mapf":
		var el []string
		for i := 1; i <= n.n; i++ {
			el = append(el, strconv.Itoa(i))
		}
		if n.flag {
			return "(map (fn [ma] " + r.many(n.kids) + ") (list " + strings.Join(el, " ") + "))"
		}
		return "(map (fn [ma] " + r.many(n.kids) + ") [" + strings.Join(el, " ") + "])"
	case "loop":
		return fmt.Sprintf("(for [(def li 0) (< li %d) (def li (+ li 1))] %s)", n.n, r.many(n.kids))
	case "eval":
		return "(eval (quote " + r.render(n.kids[0]) + "))"
	case "lazy":
		return fmt.Sprintf("(lz%d%d %s)", n.id, n.val, r.render(n.kids[0]))
	case "lazykeep":
		return fmt.Sprintf("(lzk%d (begin %s))", n.id, r.many(n.kids))
	case "rec":
		return fmt.Sprintf("(rec%d_%d %d)", n.id, n.val, n.n)
	case "rectail":
		return fmt.Sprintf("(rect%d_%d %d)", n.id, n.val, n.n)
	}
	return "nil"
}

// setup text: globals, the zero-argument functions, the lazy functions, recursion templates.
func (r *crender) setup(root *cnode) string {
	var b strings.Builder
	for i := 0; i < nGlobals; i++ {
		fmt.Fprintf(&b, "(def g%d 0) ", i)
	}
	b.WriteString("(defn farity [] 0) ")
	// a lazy argument that outlives its call: kept in a closure stored in a global, forced in
	// the call and again by the follow-up battery of a LATER evaluation
	for i := 0; i < 2; i++ {
		fmt.Fprintf(&b, "(def kept%d (fn [] 0)) (defn lzk%d [#a] (begin (set kept%d (fn [] (force #a))) (kept%d))) ", i, i, i, i)
	}
	b.WriteString("(defmac mfail [s] (begin (boom s) 0)) ")
	for i, body := range r.c.funcs {
		fmt.Fprintf(&b, "(defn f%d [] %s) ", i, r.render(body))
	}
	seen := map[string]bool{}
	var visit func(n *cnode)
	visit = func(n *cnode) {
		switch n.kind {
		case "lazy":
			name := fmt.Sprintf("lz%d%d", n.id, n.val)
			if !seen[name] {
				seen[name] = true
				fmt.Fprintf(&b, "(defn %s [#a] (begin (set g%d 11) (force #a) (set g%d 22))) ", name, n.id, n.val)
			}
		case "rec":
			name := fmt.Sprintf("rec%d_%d", n.id, n.val)
			if !seen[name] {
				seen[name] = true
				fmt.Fprintf(&b, "(defn %s [n] (cond (== n 0) 0 (begin (set g%d (+ g%d 1)) %s (+ 1 (%s (- n 1)))))) ", name, n.val, n.val, r.site(n.id), name)
			}
		case "rectail":
			name := fmt.Sprintf("rect%d_%d", n.id, n.val)
			if !seen[name] {
				seen[name] = true
				fmt.Fprintf(&b, "(defn %s [n] (cond (== n 0) 0 (begin (set g%d (+ g%d 1)) %s (%s (- n 1))))) ", name, n.val, n.val, r.site(n.id), name)
			}
		case "callfn", "apply":
			// bodies visited below through funcs
		}
		for _, k := range n.kids {
			visit(k)
		}
	}
	visit(root)
	for _, body := range r.c.funcs {
		visit(body)
	}
	return b.String()
}

// prefix: text performing exactly the effects of n that precede the failing event. counts
// tracks dynamic executions of the failing site while walking in evaluation order.
type cprefix struct {
	failNode  *cnode // alternative to (failSite, failCount): fail on first entry of this node
	c         *cgen
	failSite  int
	failCount int
	seen      int // executions of failSite so far
	full      *crender
	failR     *crender // renders the failing site the way the program text has it (lazykeep)
}

// returns (text, failedInside)
func (p *cprefix) many(ks []*cnode) ([]string, bool) {
	var ss []string
	for _, k := range ks {
		s, hit := p.pre(k)
		if s != "" {
			ss = append(ss, s)
		}
		if hit {
			return ss, true
		}
	}
	return ss, false
}

func wrapBegin(ss []string) string {
	if len(ss) == 0 {
		return ""
	}
	return "(begin " + strings.Join(ss, " ") + ")"
}

func (p *cprefix) pre(n *cnode) (string, bool) {
	if p.failNode != nil && n == p.failNode {
		return "", true
	}
	switch n.kind {
	case "eff":
		return p.full.render(n), false
	case "boom":
		if n.id == p.failSite {
			p.seen++
			if p.seen == p.failCount {
				return "", true
			}
		}
		return fmt.Sprintf("(boom %d)", n.id), false
	case "cond":
		if n.flag {
			return p.pre(n.kids[0])
		}
		return p.pre(n.kids[1])
	case "callfn", "apply":
		return p.pre(p.c.funcs[n.id])
	case "lambda":
		// callee (no effect), then the argument, then the body with la bound
		a, hit := p.pre(n.kids[0])
		if hit {
			return a, true
		}
		ss, hit := p.many(n.kids[1:])
		return wrapBegin(append([]string{a}, ss...)), hit
	case "let", "letseq":
		a, hit := p.pre(n.kids[0])
		if hit {
			return a, true
		}
		ss, hit := p.many(n.kids[1:])
		return wrapBegin(append([]string{a}, ss...)), hit
	case "mapf", "loop":
		var ss []string
		for i := 0; i < n.n; i++ {
			it, hit := p.many(n.kids)
			ss = append(ss, it...)
			if hit {
				return wrapBegin(ss), true
			}
		}
		return wrapBegin(ss), false
	case "lazy":
		a, hit := p.pre(n.kids[0])
		pre := fmt.Sprintf("(set g%d 11)", n.id)
		if hit {
			return wrapBegin([]string{pre, a}), true
		}
		return wrapBegin([]string{pre, a, fmt.Sprintf("(set g%d 22)", n.val)}), false
	case "lazykeep":
		// the thunk is kept first; then its expression runs. Forced to the end it is memoised
		// (the kept closure then denotes the value); cut short by the failure it is not (the
		// kept closure denotes the whole expression, evaluated again when called).
		ss, hit := p.many(n.kids)
		if hit {
			fr := p.failR
			if fr == nil {
				fr = p.full
			}
			keep := fmt.Sprintf("(set kept%d (fn [] (begin %s)))", n.id, fr.many(n.kids))
			return wrapBegin(append([]string{keep}, ss...)), true
		}
		last := n.kids[len(n.kids)-1]
		val := 0
		if last.kind == "eff" {
			val = last.val
		}
		return wrapBegin(append(ss, fmt.Sprintf("(set kept%d (fn [] %d))", n.id, val))), false
	case "rec", "rectail":
		var ss []string
		for i := 0; i < n.n; i++ {
			ss = append(ss, fmt.Sprintf("(set g%d (+ g%d 1))", n.val, n.val))
			if n.id == p.failSite {
				p.seen++
				if p.seen == p.failCount {
					return wrapBegin(ss), true
				}
			}
		}
		return wrapBegin(ss), false
	default:
		ss, hit := p.many(n.kids)
		return wrapBegin(ss), hit
	}
}

// pathTo returns the nodes from the root down to the boom node of the given site.
func pathTo(n *cnode, site int) []*cnode {
	if n.kind == "boom" && n.id == site {
		return []*cnode{n}
	}
	for _, k := range n.kids {
		if p := pathTo(k, site); p != nil {
			return append([]*cnode{n}, p...)
		}
	}
	return nil
}

func hasKind(n *cnode, c *cgen, kind string) bool {
	if n.kind == kind {
		return true
	}
	for _, k := range n.kids {
		if hasKind(k, c, kind) {
			return true
		}
	}
	return false
}

func hexs(s string) string {
	if s == "" {
		return "-"
	}
	return hex.EncodeToString([]byte(s))
}

func unhexs(s string) string {
	if s == "-" {
		return ""
	}
	b, err := hex.DecodeString(s)
	if err != nil {
		return "\x00BADHEX"
	}
	return string(b)
}

func containGen(g *Gen) {
	nprog := 120
	if g.Thorough() {
		nprog = 4000
	}
	maxEvents := 12
	for pi := 0; pi < nprog; pi++ {
		c := &cgen{g: g}
		root := &cnode{kind: "begin", kids: c.seq(2+g.Rng.Intn(2), 2)}
		w := &cwalk{c: c, counts: map[int]int{}}
		w.walk(root)
		emit := func(kind string, ev cevent) {
			r := &crender{c: c, failSite: ev.site, kind: kind}
			if kind == "err" || kind == "panic" || kind == "none" || kind == "parse" {
				r.failSite = 0
			}
			setup := r.setup(root)
			prog := r.render(root)
			var prefix string
			switch kind {
			case "none":
				prefix = prog
			case "parse":
				prefix = ""
				prog = prog + " )"
			case "loadcompile", "macroexp":
				// the malformed form / failing expansion surfaces when an enclosing form is
				// compiled: at load time for special forms, when the call executes for call
				// arguments. Every "just before an ancestor of the site starts" is a legal
				// answer to "the part that ran before the failure"; all are sent.
				var cands []string
				for _, anc := range pathTo(root, ev.site) {
					p := &cprefix{c: c, failNode: anc, full: &crender{c: c}}
					t, _ := p.pre(root)
					cands = append(cands, hexs(t+" "))
				}
				g.Emit("%s %d %d 0,1,0 %s %s %s", kind, ev.site, ev.count, hexs(setup), hexs(prog+" "), strings.Join(cands, ","))
				g.Count("kind " + kind)
				return
			default:
				p := &cprefix{c: c, failSite: ev.site, failCount: ev.count, full: &crender{c: c}, failR: r}
				prefix, _ = p.pre(root)
			}
			g.Emit("%s %d %d 0,1,0 %s %s %s", kind, ev.site, ev.count, hexs(setup), hexs(prog+" "), hexs(prefix+" "))
			g.Count("kind " + kind)
		}
		emit("none", cevent{0, 0})
		if len(w.events) == 0 {
			g.Count("prog-without-reachable-site")
			continue
		}
		g.Count(fmt.Sprintf("events-per-prog %d", min(len(w.events), 20)))
		evs := w.events
		if len(evs) > maxEvents {
			evs = evs[:maxEvents]
		}
		for _, ev := range evs {
			emit("err", ev)
			emit("panic", ev)
		}
		// the kinds that fail at the first execution of a site
		firsts := []cevent{}
		for _, ev := range w.events {
			if ev.count == 1 {
				firsts = append(firsts, ev)
			}
		}
		for _, kind := range []string{"undef", "arity", "typeerr", "evalcompile"} {
			ev := firsts[g.Rng.Intn(len(firsts))]
			emit(kind, ev)
		}
		// failures at compile / macro-expansion time: only for sites written in the program
		// text itself (a site inside a function body would fail while the setup is compiled)
		inRoot := map[int]bool{}
		var mark func(n *cnode)
		mark = func(n *cnode) {
			if n.kind == "boom" {
				inRoot[n.id] = true
			}
			for _, k := range n.kids {
				mark(k)
			}
		}
		mark(root)
		var rootFirsts []cevent
		for _, ev := range firsts {
			if inRoot[ev.site] {
				rootFirsts = append(rootFirsts, ev)
			}
		}
		if len(rootFirsts) > 0 && !hasKind(root, c, "lazykeep") {
			for _, kind := range []string{"loadcompile", "macroexp"} {
				emit(kind, rootFirsts[g.Rng.Intn(len(rootFirsts))])
			}
		}
		emit("parse", cevent{0, 0})
	}
	containCoreGen(g)
}

var containFollowups = []string{
	"(list g0 g1 g2 g3 g4 g5) ",
	"(list (kept0) (kept1)) ",
	"(list g0 g1 g2 g3 g4 g5) ",
	"(+ 1 2) ",
	"(defn zzfu [x] (* x 2)) (zzfu 21) ",
	"(let [a 1] (for [(def i 0) (< i 3) (def i (+ i 1))] (set g0 (+ g0 i))) g0) ",
	"",
	"(undefined_function_zz 1) ",
	"(+ 2 2) ",
	"(begin (def zq 5) (+ zq g1)) ",
	"^(a ~g2 ~@(list g3 g4)) ",
	"{g5 = g5 + 1; g5 * 2} ",
}

type containEnv struct {
	env       *zygo.Zlisp
	failSite  int
	failCount int
	kind      string
	seen      int
}

func newContainEnv(kind string, site, count int) *containEnv {
	ce := &containEnv{env: zygo.NewZlisp(), failSite: site, failCount: count, kind: kind}
	ce.env.StandardSetup()
	ce.env.AddFunction("boom", func(env *zygo.Zlisp, name string, args []zygo.Sexp) (zygo.Sexp, error) {
		if len(args) == 1 {
			if i, ok := args[0].(*zygo.SexpInt); ok && int(i.Val) == ce.failSite && ce.failSite != 0 {
				ce.seen++
				if ce.seen == ce.failCount {
					switch ce.kind {
					case "panic":
						var m map[string]int
						m["boom"] = 1 // a genuine Go run-time panic inside a builtin
					default:
						return zygo.SexpNull, fmt.Errorf("boom failed on demand at site %d", ce.failSite)
					}
				}
			}
		}
		return &zygo.SexpInt{Val: 0}, nil
	})
	return ce
}

func evalShow(env *zygo.Zlisp, text string) (string, bool) {
	v, err := env.EvalString(text)
	if err != nil {
		return "ERR", false
	}
	return strings.ReplaceAll(v.SexpString(nil), " ", "_"), true
}

func depthStr(env *zygo.Zlisp) string {
	d, s, a, l := env.VerifDepths()
	if l != 0 {
		return fmt.Sprintf("%d,%d,%d,loop=%d", d, s, a, l)
	}
	return fmt.Sprintf("%d,%d,%d", d, s, a)
}

func containExec(toks []string) string {
	if len(toks) != 7 {
		return "bad-op"
	}
	if toks[0] == "core" {
		return containCoreExec(toks)
	}
	kind := toks[0]
	site, _ := strconv.Atoi(toks[1])
	count, _ := strconv.Atoi(toks[2])
	before := toks[3]
	setup, prog := unhexs(toks[4]), unhexs(toks[5])

	a := newContainEnv(kind, 0, 0)
	defer func() { a.env.Close() }()
	if _, ok := evalShow(a.env, setup); !ok {
		return "SETUPFAIL"
	}
	if depthStr(a.env) != before {
		return "BROKEN depths after setup " + depthStr(a.env)
	}
	// arm the failure
	if kind == "err" || kind == "panic" || kind == "macroexp" {
		a.failSite, a.failCount, a.seen = site, count, 0
	}
	resA, okA := evalShow(a.env, prog)
	if kind == "none" {
		if !okA {
			return "BROKEN control run failed"
		}
	} else if okA {
		return "BROKEN error swallowed: failing program returned " + resA
	}
	after := depthStr(a.env)
	if !a.env.VerifAtEnd() {
		return "BROKEN pc/curfunc not at end of main after the evaluation"
	}
	if b := a.env.VerifScopeBottom(); b != "global" {
		// sizes alone (restore_depths) do not see this: TruncateToSize GROWS a stack with nil cells
		return "BROKEN bottom of the scope stack after the evaluation is " + b + ", not the global scope"
	}
	a.failSite = 0

	// Call arguments are compiled when the call executes, so a malformed nested form or a
	// failing macro expansion surfaces either before anything ran or at the point the
	// enclosing call is reached: both are "the part that ran before the failure".
	verdict := ""
	for _, cand := range strings.Split(toks[6], ",") {
		verdict = containTwin(a, kind, setup, unhexs(cand), after)
		if verdict == "" {
			break
		}
		// the follow-ups changed a; rebuild it for the next candidate
		a.env.Close()
		a = newContainEnv(kind, 0, 0)
		evalShow(a.env, setup)
		if kind == "err" || kind == "panic" || kind == "macroexp" {
			a.failSite, a.failCount, a.seen = site, count, 0
		}
		evalShow(a.env, prog)
		a.failSite = 0
	}
	if verdict != "" {
		return verdict
	}
	return "contained " + after
}

// containTwin compares interpreter a (after the failure) with a fresh twin that evaluated
// setup and prefix only; "" means indistinguishable on the follow-up battery.
func containTwin(a *containEnv, kind, setup, prefix, after string) string {
	b := newContainEnv(kind, 0, 0)
	defer b.env.Close()
	if _, ok := evalShow(b.env, setup); !ok {
		return "SETUPFAIL"
	}
	if strings.TrimSpace(prefix) != "" {
		if _, ok := evalShow(b.env, prefix); !ok {
			return "TWINFAIL prefix did not evaluate: " + strings.ReplaceAll(prefix, " ", "_")
		}
	}
	if after != depthStr(b.env) {
		return "BROKEN depths after failure " + after + " twin " + depthStr(b.env)
	}
	for i, fu := range containFollowups {
		ra, _ := evalShow(a.env, fu)
		rb, _ := evalShow(b.env, fu)
		if ra != rb {
			return fmt.Sprintf("BROKEN follow-up %d %q: after failure %s, twin %s", i, fu, ra, rb)
		}
		if da, db := depthStr(a.env), depthStr(b.env); da != db {
			return fmt.Sprintf("BROKEN depths after follow-up %d: %s twin %s", i, da, db)
		}
	}
	return ""
}

func init() { channels["contain"] = &Channel{Gen: containGen, Exec: containExec} }
