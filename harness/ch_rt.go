package main

// Channel rt (C12): printed data reads back as the same data; literals denote what is written.
//
//   rt p <v>        code points of v.SexpString(nil)                         (impl vs model; no spec)
//   rt r <v>        the printed text handed to a fresh parser as one whole text (what `read`
//                   does): canonical form of the single expression it yields | err | none | multi
//                   (spec column = canonical form of v itself: the property)
//   rt e <v>        EvalString of the printed text on an interpreter: canonical form of the value
//                   (hashes as `h <n> k v …` in key order) | err    (spec = canonical form of v)
//   rt l <codes>    the spelling parsed as one whole text: `i <n>` | `u <n>` | `d <hexbits>` |
//                   `d nan` when it is exactly one numeric expression, `err` when the reader refuses
//                   it, `nonnum` otherwise (a symbol, several expressions, …)
//   rt j <codes>    judge: the exact value of the spelling computed here with math/big and
//                   strconv (independent of zygomys); compared with the Lean specification
//                   `Spec.mathValue` (column "model" of this op), same answers as `l`
//   rt k <codes>    the text parsed as one whole text, canonical form of the single expression
//                   (char/string literal spellings written by hand, not by the printer)
//   rt H <mode> <step>…   HISTORY: several spellings / print-read round trips on ONE long-lived reader (ch_rt_hist.go)
//
// Value syntax (prefix, one token each): n | t | f | i <int> | u <uint> | d <hexbits> <ftext> |
//   e <hexbits> <etext> | c <int> | s <bytes> | r <bytes> | y <bytes> | l <n> v… | p <n> v… tail |
//   a <n> v… | h <n> (k v)…
// d = float printed with 'f', e = float whose Scientific flag is set ('e'); the text is what
// strconv.FormatFloat gives (float formatting is a parameter of the Lean model, instantiated
// here by the standard library). bytes = dot-separated decimal bytes, `-` = empty. r = raw
// (back-tick) string, y = symbol, p = list with a dotted tail.

import (
	"fmt"
	"math"
	"math/big"
	"strconv"
	"strings"

	"github.com/glycerine/zygomys/v9/zygo"
)

var rtEnv *zygo.Zlisp

func rtSetup() {
	if rtEnv == nil {
		rtEnv = zygo.NewZlisp()
		rtEnv.StandardSetup()
	}
}

func rtParseV(toks []string, depth int) (zygo.Sexp, []string, bool) {
	if len(toks) == 0 || depth > 200 {
		return nil, nil, false
	}
	t, r := toks[0], toks[1:]
	need := func(n int) bool { return len(r) >= n }
	switch t {
	case "n":
		return zygo.SexpNull, r, true
	case "t":
		return &zygo.SexpBool{Val: true}, r, true
	case "f":
		return &zygo.SexpBool{Val: false}, r, true
	case "i":
		if !need(1) {
			return nil, nil, false
		}
		n, err := strconv.ParseInt(r[0], 10, 64)
		return &zygo.SexpInt{Val: n}, r[1:], err == nil
	case "u":
		if !need(1) {
			return nil, nil, false
		}
		n, err := strconv.ParseUint(r[0], 10, 64)
		return &zygo.SexpUint64{Val: n}, r[1:], err == nil
	case "c":
		if !need(1) {
			return nil, nil, false
		}
		n, err := strconv.ParseInt(r[0], 10, 32)
		return &zygo.SexpChar{Val: rune(n)}, r[1:], err == nil
	case "d", "e":
		if !need(2) {
			return nil, nil, false
		}
		b, err := strconv.ParseUint(r[0], 16, 64)
		return &zygo.SexpFloat{Val: math.Float64frombits(b), Scientific: t == "e"}, r[2:], err == nil
	case "s", "r", "y":
		if !need(1) {
			return nil, nil, false
		}
		b, ok := decBytes(r[0])
		if !ok {
			return nil, nil, false
		}
		switch t {
		case "s":
			return &zygo.SexpStr{S: string(b)}, r[1:], true
		case "r":
			return zygo.VerifBacktickStr(string(b)), r[1:], true
		}
		return rtEnv.MakeSymbol(string(b)), r[1:], true
	case "l", "a", "p":
		if !need(1) {
			return nil, nil, false
		}
		n, err := strconv.Atoi(r[0])
		if err != nil || n < 0 || (t == "p" && n == 0) {
			return nil, nil, false
		}
		r = r[1:]
		vs := []zygo.Sexp{}
		for i := 0; i < n; i++ {
			v, r2, ok := rtParseV(r, depth+1)
			if !ok {
				return nil, nil, false
			}
			vs = append(vs, v)
			r = r2
		}
		switch t {
		case "l":
			return zygo.MakeList(vs), r, true
		case "a":
			return &zygo.SexpArray{Val: vs, Env: rtEnv}, r, true
		}
		tail, r2, ok := rtParseV(r, depth+1)
		if !ok {
			return nil, nil, false
		}
		var cur zygo.Sexp = tail
		for i := n - 1; i >= 0; i-- {
			cur = zygo.Cons(vs[i], cur)
		}
		return cur, r2, true
	case "h":
		if !need(1) {
			return nil, nil, false
		}
		n, err := strconv.Atoi(r[0])
		if err != nil || n < 0 {
			return nil, nil, false
		}
		r = r[1:]
		vs := []zygo.Sexp{}
		for i := 0; i < 2*n; i++ {
			v, r2, ok := rtParseV(r, depth+1)
			if !ok {
				return nil, nil, false
			}
			vs = append(vs, v)
			r = r2
		}
		h, herr := zygo.MakeHash(vs, "hash", rtEnv)
		if herr != nil || h.NumKeys != n {
			return nil, nil, false
		}
		return h, r, true
	}
	return nil, nil, false
}

func rtFloatCanon(f float64) string {
	if math.IsNaN(f) {
		return "d nan"
	}
	return fmt.Sprintf("d %x", math.Float64bits(f))
}

// canonical form of a value: the value syntax without the float texts; a proper list is `l`,
// a list with a non-nil tail `p`.
func rtCanon(s zygo.Sexp, sb *strings.Builder) {
	switch x := s.(type) {
	case *zygo.SexpSentinel:
		if x == zygo.SexpNull {
			sb.WriteString("n")
		} else {
			sb.WriteString("sentinel")
		}
	case *zygo.SexpBool:
		if x.Val {
			sb.WriteString("t")
		} else {
			sb.WriteString("f")
		}
	case *zygo.SexpInt:
		fmt.Fprintf(sb, "i %d", x.Val)
	case *zygo.SexpUint64:
		fmt.Fprintf(sb, "u %d", x.Val)
	case *zygo.SexpFloat:
		sb.WriteString(rtFloatCanon(x.Val))
	case *zygo.SexpChar:
		fmt.Fprintf(sb, "c %d", x.Val)
	case *zygo.SexpStr:
		if zygo.VerifIsBacktick(x) {
			sb.WriteString("r " + encBytes([]byte(x.S)))
		} else {
			sb.WriteString("s " + encBytes([]byte(x.S)))
		}
	case *zygo.SexpSymbol:
		sb.WriteString("y " + encBytes([]byte(zygo.VerifSymName(x))))
	case *zygo.SexpArray:
		if x.Infix {
			sb.WriteString("infix-")
		}
		fmt.Fprintf(sb, "a %d", len(x.Val))
		for _, e := range x.Val {
			sb.WriteByte(' ')
			rtCanon(e, sb)
		}
	case *zygo.SexpPair:
		var heads []zygo.Sexp
		var cur zygo.Sexp = x
		for {
			p, ok := cur.(*zygo.SexpPair)
			if !ok {
				break
			}
			heads = append(heads, p.Head)
			cur = p.Tail
		}
		if cur == zygo.SexpNull {
			fmt.Fprintf(sb, "l %d", len(heads))
		} else {
			fmt.Fprintf(sb, "p %d", len(heads))
		}
		for _, e := range heads {
			sb.WriteByte(' ')
			rtCanon(e, sb)
		}
		if cur != zygo.SexpNull {
			sb.WriteByte(' ')
			rtCanon(cur, sb)
		}
	case *zygo.SexpHash:
		if x.TypeName != "hash" {
			sb.WriteString("typed-")
		}
		n := 0
		var body strings.Builder
		for _, k := range x.KeyOrder {
			v, err := x.HashGet(nil, k)
			if err != nil {
				continue
			}
			n++
			body.WriteByte(' ')
			rtCanon(k, &body)
			body.WriteByte(' ')
			rtCanon(v, &body)
		}
		fmt.Fprintf(sb, "h %d%s", n, body.String())
	case *zygo.SexpComment:
		sb.WriteString("comment")
	default:
		fmt.Fprintf(sb, "other:%T", s)
	}
}

func rtCanonS(s zygo.Sexp) string {
	var sb strings.Builder
	rtCanon(s, &sb)
	return sb.String()
}

// the text delivered whole to a fresh parser, end of input signalled: every expression
func rtParseWhole(txt string) ([]zygo.Sexp, error) {
	p := rtEnv.NewParser()
	p.ResetAddNewInput(zygo.VerifStream(txt))
	p.VerifEndInput()
	return p.ParseTokens()
}

func rtReadOne(txt string) string {
	xs, err := rtParseWhole(txt)
	if err != nil {
		return "err"
	}
	switch len(xs) {
	case 0:
		return "none"
	case 1:
		return rtCanonS(xs[0])
	}
	return "multi"
}

func rtLiteral(txt string) string {
	xs, err := rtParseWhole(txt)
	if err != nil {
		return "err"
	}
	if len(xs) != 1 {
		return "nonnum"
	}
	switch xs[0].(type) {
	case *zygo.SexpInt, *zygo.SexpUint64, *zygo.SexpFloat:
		return rtCanonS(xs[0])
	}
	return "nonnum"
}

func rtExec(toks []string) (ans string) {
	rtSetup()
	if len(toks) < 2 {
		return "bad-op"
	}
	if toks[0] == "H" {
		return rtHistExec(toks) // history ops: ch_rt_hist.go
	}
	switch toks[0] {
	case "l", "j", "k":
		if len(toks) != 2 {
			return "bad-op"
		}
		txt, ok := codesToString(toks[1])
		if !ok {
			return "bad-op"
		}
		switch toks[0] {
		case "l":
			return rtLiteral(txt)
		case "j":
			return rtJudge(txt)
		}
		return rtReadOne(txt)
	}
	v, rest, ok := rtParseV(toks[1:], 0)
	if !ok || len(rest) != 0 {
		return "bad-op"
	}
	printed := v.SexpString(nil)
	switch toks[0] {
	case "p":
		return zygo.VerifCodes(printed)
	case "r":
		return rtReadOne(printed)
	case "e":
		rtEnv.Clear()
		res, err := rtEnv.EvalString(printed)
		if err != nil {
			rtEnv.Clear()
			return "err"
		}
		if res == nil {
			return "none"
		}
		return rtCanonS(res)
	}
	return "bad-op"
}

// ---------------------------------------------------------------- judge (math/big, strconv)

func isDigitB(c byte) bool { return '0' <= c && c <= '9' }

func allOf(s string, f func(byte) bool) bool {
	if s == "" {
		return false
	}
	for i := 0; i < len(s); i++ {
		if !f(s[i]) {
			return false
		}
	}
	return true
}

func intCanon(v *big.Int) string {
	if v.IsInt64() {
		return "i " + v.String()
	}
	return "err"
}

// rtJudge: the exact value of a numeric spelling in the liberal grammar
//   [-+]? ( D[D_]* | 0x H+ | 0o O+ | 0b B+ )            integer
//   ( D+ | 0x H+ | 0o O+ ) ULL                            uint64
//   [-+]? ( D[D_]* . [D_]* | . D[D_]* | D[D_]* (. [D_]*)? [eE] [-+]? D[D_]* )   float (underscores ignored)
//   [-+]? (Inf|inf) | NaN | nan
// `err` = a number outside the range of its type, `nonnum` = not in the grammar.
func rtJudge(s string) string {
	body := s
	neg := false
	signed := false
	if strings.HasPrefix(body, "-") {
		neg, signed, body = true, true, body[1:]
	} else if strings.HasPrefix(body, "+") {
		signed, body = true, body[1:]
	}
	if body == "Inf" || body == "inf" {
		if neg {
			return rtFloatCanon(math.Inf(-1))
		}
		return rtFloatCanon(math.Inf(1))
	}
	if !signed && (body == "NaN" || body == "nan") {
		return "d nan"
	}
	// uint64
	if !signed && strings.HasSuffix(body, "ULL") {
		d := body[:len(body)-3]
		base := 10
		if strings.HasPrefix(d, "0x") {
			base, d = 16, d[2:]
		} else if strings.HasPrefix(d, "0o") {
			base, d = 8, d[2:]
		}
		v, ok := new(big.Int).SetString(d, base)
		if !ok || strings.ContainsAny(d, "+-_") || d == "" {
			return "nonnum"
		}
		if !v.IsUint64() {
			return "err"
		}
		return "u " + v.String()
	}
	// integers with a base prefix
	for _, pb := range []struct {
		p string
		b int
	}{{"0x", 16}, {"0o", 8}, {"0b", 2}} {
		if strings.HasPrefix(body, pb.p) {
			d := body[2:]
			v, ok := new(big.Int).SetString(d, pb.b)
			if !ok || strings.ContainsAny(d, "+-_") || d == "" {
				return "nonnum"
			}
			if neg {
				v.Neg(v)
			}
			return intCanon(v)
		}
	}
	isDU := func(c byte) bool { return isDigitB(c) || c == '_' }
	// decimal integer
	if body != "" && isDigitB(body[0]) && allOf(body, isDU) {
		v, _ := new(big.Int).SetString(strings.ReplaceAll(body, "_", ""), 10)
		if neg {
			v.Neg(v)
		}
		return intCanon(v)
	}
	// float
	mant, exp := body, ""
	hasExp := false
	if i := strings.IndexAny(body, "eE"); i >= 0 {
		mant, exp, hasExp = body[:i], body[i+1:], true
	}
	ip, fp := mant, ""
	hasDot := false
	if i := strings.IndexByte(mant, '.'); i >= 0 {
		ip, fp, hasDot = mant[:i], mant[i+1:], true
	}
	if !hasDot && !hasExp {
		return "nonnum"
	}
	okInt := ip != "" && isDigitB(ip[0]) && allOf(ip, isDU)
	okFrac := fp == "" || allOf(fp, isDU)
	if ip == "" {
		// .D[D_]*  (no exponent form in the grammar of the reader; judged liberally with one)
		if !(hasDot && fp != "" && isDigitB(fp[0]) && allOf(fp, isDU)) {
			return "nonnum"
		}
	} else if !okInt || !okFrac {
		return "nonnum"
	}
	e10 := new(big.Int)
	if hasExp {
		ex := exp
		eneg := false
		if strings.HasPrefix(ex, "-") {
			eneg, ex = true, ex[1:]
		} else if strings.HasPrefix(ex, "+") {
			ex = ex[1:]
		}
		if !(ex != "" && isDigitB(ex[0]) && allOf(ex, isDU)) {
			return "nonnum"
		}
		e10.SetString(strings.ReplaceAll(ex, "_", ""), 10)
		if eneg {
			e10.Neg(e10)
		}
	}
	digits := strings.ReplaceAll(ip+fp, "_", "")
	fracLen := len(strings.ReplaceAll(fp, "_", ""))
	if digits == "" {
		return "nonnum"
	}
	m, _ := new(big.Int).SetString(digits, 10)
	if m.Sign() == 0 {
		if neg {
			return rtFloatCanon(math.Copysign(0, -1))
		}
		return rtFloatCanon(0)
	}
	e10.Sub(e10, big.NewInt(int64(fracLen)))
	// far outside the range of binary64: decided without building the power of ten
	mag := new(big.Int).Add(e10, big.NewInt(int64(len(strings.TrimLeft(digits, "0")))))
	if mag.Cmp(big.NewInt(400)) > 0 {
		return "err"
	}
	if mag.Cmp(big.NewInt(-400)) < 0 {
		if neg {
			return rtFloatCanon(math.Copysign(0, -1))
		}
		return rtFloatCanon(0)
	}
	r := new(big.Rat).SetInt(m)
	p := new(big.Int).Exp(big.NewInt(10), new(big.Int).Abs(e10), nil)
	if e10.Sign() >= 0 {
		r.Mul(r, new(big.Rat).SetInt(p))
	} else {
		r.Quo(r, new(big.Rat).SetInt(p))
	}
	f, _ := r.Float64() // nearest, ties to even
	if math.IsInf(f, 0) {
		return "err"
	}
	if neg {
		f = -f
	}
	// second opinion: strconv on the spelling without underscores, where strconv accepts it
	if g, err := strconv.ParseFloat(strings.ReplaceAll(s, "_", ""), 64); err == nil && math.Float64bits(g) != math.Float64bits(f) {
		return "judge-disagrees"
	}
	return rtFloatCanon(f)
}

func init() { channels["rt"] = &Channel{Gen: rtGen, Exec: rtExec} }
