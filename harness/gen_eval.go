package main

// Generators of channel eval: grammar- and type-directed programs of the core language.
// Names come from tiny pools (ints a b c, functions f g, thunks h, arrays v w, list l,
// closure array fs, string s; loop counters i j k) so that shadowing and capture collide.
// A name's pool fixes its type, so a well-typed program never trips the same-scope
// re-binding rule of BindSymbol. Streams: `wt` (well typed), `mal` (a well-typed program
// with one tree mutation: mostly malformed or ill-typed), `small` (exhaustive small scope).

import (
	"fmt"
	"strings"
)

type nd struct {
	atom string
	kids []*nd
	sq   bool
}

func A(s string) *nd      { return &nd{atom: s} }
func L(k ...*nd) *nd      { return &nd{kids: k} }
func SQ(k ...*nd) *nd     { return &nd{kids: k, sq: true} }
func I(n int64) *nd       { return A(fmt.Sprint(n)) }
func (n *nd) leaf() bool  { return n.kids == nil && n.atom != "" }
func (n *nd) count() int {
	c := 1
	for _, k := range n.kids {
		c += k.count()
	}
	return c
}
func (n *nd) depth() int {
	d := 0
	for _, k := range n.kids {
		if x := k.depth(); x > d {
			d = x
		}
	}
	if n.kids != nil {
		d++
	}
	return d
}

func (n *nd) render(sb *strings.Builder, g *Gen) {
	if n.kids == nil && n.atom != "" {
		sb.WriteString(n.atom)
		return
	}
	if n.sq {
		sb.WriteByte('[')
	} else {
		sb.WriteByte('(')
	}
	for i, k := range n.kids {
		if i > 0 {
			sb.WriteByte('~')
			if g != nil && g.Rng.Intn(12) == 0 {
				sb.WriteByte('~')
			}
		}
		k.render(sb, g)
	}
	if n.sq {
		sb.WriteByte(']')
	} else {
		sb.WriteByte(')')
	}
}

func renderProg(forms []*nd, g *Gen) string {
	var sb strings.Builder
	for i, f := range forms {
		if i > 0 {
			sb.WriteByte('~')
		}
		f.render(&sb, g)
	}
	if sb.Len() == 0 {
		return "~"
	}
	return sb.String()
}

type ty int

const (
	tInt ty = iota
	tBool
	tStr
	tArr
	tList
	tF1 // int -> int
	tF0 // () -> int
	tFs // array of tF0
)

var pools = map[ty][]string{
	tInt: {"a", "b", "c"}, tStr: {"s"}, tArr: {"v", "w"}, tList: {"l"},
	tF1: {"f", "g"}, tF0: {"h"}, tFs: {"fs"}, tBool: {"p"},
}

var boundaryInts = []int64{0, 1, -1, 2, 3, 5, 7, -7, 10, 9223372036854775807, -9223372036854775808, 4611686018427387904, 4294967296}

type loopInfo struct {
	label string
	ctr   string
}

type evg struct {
	g      *Gen
	frames []map[string]bool // names statically bound, innermost last
	loops  []loopInfo        // enclosing loops of the current function body, innermost last
	budget int               // remaining node budget
	inArg  bool              // inside a call argument: no break/continue here (see notes/C02.md)
	cond   int               // >0 inside a conditionally evaluated position
	selfN  string            // name of the enclosing defn, for recursion
	selfAr int
}

func (e *evg) rnd(n int) int { return e.g.Rng.Intn(n) }
func (e *evg) push()         { e.frames = append(e.frames, map[string]bool{}) }
func (e *evg) pop()          { e.frames = e.frames[:len(e.frames)-1] }
func (e *evg) bind(n string) {
	if e.cond == 0 {
		e.frames[len(e.frames)-1][n] = true
	}
}
func (e *evg) bound(n string) bool {
	for i := len(e.frames) - 1; i >= 0; i-- {
		if e.frames[i][n] {
			return true
		}
	}
	return false
}
func (e *evg) pickBound(t ty) (string, bool) {
	var c []string
	for _, n := range pools[t] {
		if e.bound(n) {
			c = append(c, n)
		}
	}
	if t == tInt {
		for _, l := range e.loops {
			c = append(c, l.ctr)
		}
	}
	if len(c) == 0 {
		return "", false
	}
	return c[e.rnd(len(c))], true
}
func (e *evg) pickName(t ty) string { p := pools[t]; return p[e.rnd(len(p))] }

func (e *evg) lit(t ty) *nd {
	switch t {
	case tInt:
		if e.rnd(3) == 0 {
			return I(boundaryInts[e.rnd(len(boundaryInts))])
		}
		return I(int64(e.rnd(7) - 1))
	case tBool:
		return A([]string{"true", "false"}[e.rnd(2)])
	case tStr:
		return A([]string{"\"\"", "\"x\"", "\"ab\"", "\"zz\""}[e.rnd(4)])
	case tArr:
		n := e.rnd(4)
		k := make([]*nd, n)
		for i := range k {
			k[i] = I(int64(e.rnd(9)))
		}
		return SQ(k...)
	case tList:
		n := e.rnd(3)
		k := []*nd{A("list")}
		for i := 0; i < n; i++ {
			k = append(k, I(int64(e.rnd(9))))
		}
		return L(k...)
	case tF1:
		return L(A("fn"), SQ(A("a")), L(A("+"), A("a"), I(1)))
	case tF0:
		return L(A("fn"), SQ(), I(int64(e.rnd(5))))
	case tFs:
		return SQ()
	}
	return A("nil")
}

// arg generates an expression in call-argument position.
func (e *evg) arg(t ty, d int) *nd {
	old := e.inArg
	e.inArg = true
	r := e.expr(t, d)
	e.inArg = old
	return r
}

func (e *evg) expr(t ty, d int) *nd {
	e.budget--
	if d <= 0 || e.budget <= 0 {
		if n, ok := e.pickBound(t); ok && e.rnd(3) > 0 {
			e.g.Count("leaf var")
			return A(n)
		}
		e.g.Count("leaf lit")
		return e.lit(t)
	}
	// forms available at every type
	switch e.rnd(14) {
	case 0:
		e.g.Count("form cond")
		n := 1 + e.rnd(2)
		k := []*nd{A("cond")}
		for i := 0; i < n; i++ {
			k = append(k, e.expr(tBool, d-1))
			e.cond++
			k = append(k, e.expr(t, d-1))
			e.cond--
		}
		e.cond++
		k = append(k, e.expr(t, d-1))
		e.cond--
		return L(k...)
	case 1:
		e.g.Count("form let")
		return e.letForm(t, d)
	case 2:
		e.g.Count("form begin")
		k := []*nd{A("begin")}
		for i := e.rnd(2); i >= 0; i-- {
			k = append(k, e.stmt(d-1))
		}
		k = append(k, e.expr(t, d-1))
		return L(k...)
	case 3:
		e.g.Count("form newScope")
		e.push()
		k := []*nd{A("newScope")}
		for i := e.rnd(2); i > 0; i-- {
			k = append(k, e.stmt(d-1))
		}
		k = append(k, e.expr(t, d-1))
		e.pop()
		return L(k...)
	case 4:
		if t == tInt || t == tBool {
			e.g.Count("form and/or")
			k := []*nd{A([]string{"and", "or"}[e.rnd(2)])}
			k = append(k, e.expr(t, d-1))
			e.cond++
			for i := e.rnd(2); i >= 0; i-- {
				k = append(k, e.expr(t, d-1))
			}
			e.cond--
			return L(k...)
		}
	case 5:
		// def / set as an expression
		n := e.pickName(t)
		if e.rnd(2) == 0 && e.bound(n) {
			e.g.Count("form set")
			return L(A("set"), A(n), e.expr(t, d-1))
		}
		e.g.Count("form def")
		r := L(A("def"), A(n), e.expr(t, d-1))
		e.bind(n)
		return r
	case 6:
		if t == tInt {
			e.g.Count("form trace")
			return L(A("trace"), e.arg(tInt, d-1))
		}
	case 7:
		if n, ok := e.pickBound(t); ok {
			e.g.Count("leaf var")
			return A(n)
		}
	}
	switch t {
	case tInt:
		switch e.rnd(13) {
		case 0, 1:
			e.g.Count("int arith")
			op := []string{"+", "-", "*"}[e.rnd(3)]
			k := []*nd{A(op), e.arg(tInt, d-1), e.arg(tInt, d-1)}
			if e.rnd(5) == 0 {
				k = append(k, e.arg(tInt, d-1))
			}
			return L(k...)
		case 2:
			e.g.Count("int neg/mod")
			if e.rnd(2) == 0 {
				return L(A("-"), e.arg(tInt, d-1))
			}
			return L(A("mod"), e.arg(tInt, d-1), I(int64(e.rnd(4))))
		case 3:
			e.g.Count("int len")
			return L(A("len"), e.arg([]ty{tArr, tList, tStr, tFs}[e.rnd(4)], d-1))
		case 4:
			e.g.Count("int aget")
			k := []*nd{A("aget"), e.arg(tArr, d-1), e.arg(tInt, 0)}
			if e.rnd(2) == 0 {
				k = append(k, I(-5))
			}
			return L(k...)
		case 5:
			e.g.Count("int first")
			return L(A([]string{"first", "second"}[e.rnd(2)]), e.arg(tList, d-1))
		case 6, 7:
			e.g.Count("call f1")
			return L(e.calleeExpr(tF1, d-1), e.arg(tInt, d-1))
		case 8:
			e.g.Count("call f0")
			return L(e.calleeExpr(tF0, d-1))
		case 9:
			e.g.Count("call via fs")
			return L(L(A("aget"), e.arg(tFs, d-1), I(int64(e.rnd(3)))))
		case 10:
			e.g.Count("apply")
			return L(A("apply"), e.arg(tF1, d-1), SQ(e.arg(tInt, d-1)))
		case 11:
			if e.selfN != "" && e.rnd(2) == 0 {
				e.g.Count("self call")
				k := []*nd{A(e.selfN)}
				for i := 0; i < e.selfAr; i++ {
					k = append(k, e.arg(tInt, 1))
				}
				return L(k...)
			}
			fallthrough
		default:
			e.g.Count("call value zero-arg")
			return L(e.arg(tInt, d-1))
		}
	case tBool:
		switch e.rnd(4) {
		case 0:
			return L(A("not"), e.arg(tBool, d-1))
		case 1:
			return L(A([]string{"==", "!=", "<"}[e.rnd(3)]), e.arg(tStr, d-1), e.arg(tStr, d-1))
		default:
			e.g.Count("bool cmp")
			return L(A([]string{"<", ">", "<=", ">=", "==", "!="}[e.rnd(6)]), e.arg(tInt, d-1), e.arg(tInt, d-1))
		}
	case tStr:
		if e.rnd(2) == 0 {
			return L(A("concat"), e.arg(tStr, d-1), e.arg(tStr, d-1))
		}
		return e.lit(tStr)
	case tArr:
		switch e.rnd(5) {
		case 0:
			e.g.Count("arr append")
			return L(A("append"), e.arg(tArr, d-1), e.arg(tInt, d-1))
		case 1:
			e.g.Count("arr concat")
			return L(A("concat"), e.arg(tArr, d-1), e.arg(tArr, d-1))
		case 2:
			e.g.Count("arr map")
			return L(A("map"), e.arg(tF1, d-1), e.arg(tArr, d-1))
		case 3:
			e.g.Count("arr literal")
			k := []*nd{}
			for i := e.rnd(3); i >= 0; i-- {
				k = append(k, e.expr(tInt, d-1))
			}
			return SQ(k...)
		}
		return e.lit(tArr)
	case tList:
		switch e.rnd(5) {
		case 0:
			return L(A("cons"), e.arg(tInt, d-1), e.arg(tList, d-1))
		case 1:
			return L(A("rest"), e.arg(tList, d-1))
		case 2:
			e.g.Count("list map")
			return L(A("map"), e.arg(tF1, d-1), e.arg(tList, d-1))
		case 3:
			return L(A("list"), e.arg(tInt, d-1), e.arg(tInt, d-1))
		}
		return e.lit(tList)
	case tF1:
		e.g.Count("fn f1")
		return e.fnForm([]string{e.pickName(tInt)}, tInt, d)
	case tF0:
		e.g.Count("fn f0")
		return e.fnForm(nil, tInt, d)
	case tFs:
		switch e.rnd(3) {
		case 0:
			e.g.Count("fs append closure")
			return L(A("append"), e.arg(tFs, d-1), e.arg(tF0, d-1))
		case 1:
			return SQ(e.expr(tF0, d-1), e.expr(tF0, d-1))
		}
		return e.lit(tFs)
	}
	return e.lit(t)
}

// calleeExpr: a function-valued expression in head position (a name, or any expression).
func (e *evg) calleeExpr(t ty, d int) *nd {
	if n, ok := e.pickBound(t); ok && e.rnd(4) > 0 {
		return A(n)
	}
	return e.arg(t, d) // a non-symbol head is compiled at run time like an argument
}

func (e *evg) fnForm(params []string, rt ty, d int) *nd {
	ps := []*nd{}
	for _, p := range params {
		ps = append(ps, A(p))
	}
	savedLoops, savedSelf, savedArg, savedCond := e.loops, e.selfN, e.inArg, e.cond
	e.loops, e.selfN, e.inArg, e.cond = nil, "", false, 0
	e.push()
	for _, p := range params {
		e.bind(p)
	}
	k := []*nd{A("fn"), SQ(ps...)}
	for i := e.rnd(3) / 2; i > 0; i-- {
		k = append(k, e.stmt(d-1))
	}
	k = append(k, e.expr(rt, d-1))
	e.pop()
	e.loops, e.selfN, e.inArg, e.cond = savedLoops, savedSelf, savedArg, savedCond
	return L(k...)
}

func (e *evg) letForm(t ty, d int) *nd {
	seq := e.rnd(2) == 0
	n := 1 + e.rnd(2)
	var names []string
	var binds []*nd
	used := map[string]bool{}
	if seq {
		e.push()
	}
	for i := 0; i < n; i++ {
		bt := []ty{tInt, tInt, tInt, tArr, tF1, tF0, tFs, tList}[e.rnd(8)]
		nm := e.pickName(bt)
		if used[nm] {
			continue
		}
		used[nm] = true
		binds = append(binds, A(nm), e.expr(bt, d-1))
		names = append(names, nm)
		if seq {
			e.bind(nm)
		}
	}
	if !seq {
		e.push()
		for _, nm := range names {
			e.bind(nm)
		}
	}
	k := []*nd{A(map[bool]string{true: "letseq", false: "let"}[seq]), SQ(binds...)}
	for i := e.rnd(3) / 2; i > 0; i-- {
		k = append(k, e.stmt(d-1))
	}
	k = append(k, e.expr(t, d-1))
	e.pop()
	return L(k...)
}

// stmt: a form evaluated for its effect.
func (e *evg) stmt(d int) *nd {
	e.budget--
	switch e.rnd(12) {
	case 0, 1:
		t := []ty{tInt, tInt, tInt, tArr, tF1, tF0, tFs, tList, tStr}[e.rnd(9)]
		n := e.pickName(t)
		e.g.Count("stmt def")
		r := L(A("def"), A(n), e.expr(t, d-1))
		e.bind(n)
		return r
	case 2, 3:
		t := []ty{tInt, tInt, tArr, tFs, tF1}[e.rnd(5)]
		if n, ok := e.pickBound(t); ok && (t != tInt || !e.isCtr(n)) {
			e.g.Count("stmt set")
			return L(A("set"), A(n), e.expr(t, d-1))
		}
		return L(A("trace"), e.arg(tInt, d-1))
	case 4:
		e.g.Count("stmt trace")
		return L(A("trace"), e.arg(tInt, d-1))
	case 5:
		if d > 1 {
			return e.forLoop(d)
		}
	case 6:
		if len(e.loops) > 0 && !e.inArg {
			return e.breakStmt(d)
		}
	case 7:
		if d > 1 {
			return e.defnForm(d)
		}
	case 8:
		if n, ok := e.pickBound(tArr); ok {
			e.g.Count("stmt aset")
			return L(A("aset"), A(n), I(int64(e.rnd(3))), e.arg(tInt, d-1))
		}
	case 9:
		if n, ok := e.pickBound(tFs); ok {
			e.g.Count("stmt push closure")
			return L(A("set"), A(n), L(A("append"), A(n), e.arg(tF0, d-1)))
		}
	}
	return e.expr([]ty{tInt, tInt, tBool, tArr}[e.rnd(4)], d-1)
}

func (e *evg) isCtr(n string) bool {
	for _, l := range e.loops {
		if l.ctr == n {
			return true
		}
	}
	return n == "i" || n == "j" || n == "k"
}

func (e *evg) breakStmt(d int) *nd {
	kw := []string{"break", "continue"}[e.rnd(2)]
	var br *nd
	if e.rnd(2) == 0 {
		// labelled, any enclosing loop that has a label
		var ls []string
		for _, l := range e.loops {
			if l.label != "" {
				ls = append(ls, l.label)
			}
		}
		if len(ls) > 0 {
			e.g.Count("labelled " + kw)
			br = L(A(kw), A(ls[e.rnd(len(ls))]+":"))
		}
	}
	if br == nil {
		e.g.Count("plain " + kw)
		br = L(A(kw))
	}
	ctr := e.loops[len(e.loops)-1].ctr
	test := L(A([]string{"==", ">", "<"}[e.rnd(3)]), A(ctr), I(int64(e.rnd(3))))
	switch e.rnd(4) {
	case 0:
		e.g.Count("break inside let")
		return L(A("let"), SQ(A("a"), I(1)), L(A("cond"), test, br, A("nil")))
	case 1:
		e.g.Count("break inside and/or")
		return L(A("and"), test, br)
	case 2:
		e.g.Count("break inside newScope+letseq")
		return L(A("cond"), test, L(A("newScope"), L(A("letseq"), SQ(A("b"), I(2)), L(A("trace"), A("b")), br)), A("nil"))
	}
	return L(A("cond"), test, br, A("nil"))
}

func (e *evg) forLoop(d int) *nd {
	ctr := []string{"i", "j", "k"}[len(e.loops)%3]
	label := ""
	if e.rnd(2) == 0 {
		label = []string{"L1", "L2", "L3"}[len(e.loops)%3]
	}
	bound := int64(1 + e.rnd(4))
	e.g.Count("stmt for")
	if label != "" {
		e.g.Count("for labelled")
	}
	e.push()
	e.cond++
	e.loops = append(e.loops, loopInfo{label, ctr})
	k := []*nd{A("for")}
	if label != "" {
		k = append(k, A(label+":"))
	}
	k = append(k, SQ(L(A("def"), A(ctr), I(0)), L(A("<"), A(ctr), I(bound)), L(A("set"), A(ctr), L(A("+"), A(ctr), I(1)))))
	for i := 1 + e.rnd(3); i > 0; i-- {
		k = append(k, e.stmt(d-1))
	}
	e.loops = e.loops[:len(e.loops)-1]
	e.cond--
	e.pop()
	return L(k...)
}

// defnForm: named functions in the shapes that matter: plain, recursive (tail and
// non-tail, with an accumulator of closures), variadic, lazy parameter.
func (e *evg) defnForm(d int) *nd {
	savedLoops, savedSelf, savedAr, savedArg, savedCond := e.loops, e.selfN, e.selfAr, e.inArg, e.cond
	defer func() { e.loops, e.selfN, e.selfAr, e.inArg, e.cond = savedLoops, savedSelf, savedAr, savedArg, savedCond }()
	e.loops, e.inArg, e.cond = nil, false, 0
	switch e.rnd(7) {
	case 6: // self call in a position compiled inline but not a tail position: a cond test,
		// a non-final and/or arm, a def value, a non-final statement (gen.Tail must be false there)
		e.g.Count("defn rec inline non-tail")
		name := "ev"
		self := L(A(name), L(A("-"), A("a"), I(1)))
		var step *nd
		switch e.rnd(4) {
		case 0:
			step = L(A("cond"), self, A("false"), A("true"))
		case 1:
			step = L(A("and"), self, L(A("trace"), A("a")), A("false"))
		case 2:
			step = L(A("begin"), L(A("def"), A("p"), self), L(A("not"), A("p")))
		default:
			step = L(A("begin"), self, L(A("trace"), A("a")), L(A(">"), A("a"), I(1)))
		}
		return L(A("defn"), A(name), SQ(A("a")), L(A("cond"), L(A("<="), A("a"), I(0)), A("true"), step))
	case 0: // non-tail recursion on a counter
		e.g.Count("defn rec")
		name := e.pickName(tF1)
		e.push()
		e.bind("a")
		body := L(A("cond"), L(A("<="), A("a"), I(0)), e.expr(tInt, 1),
			L(A([]string{"+", "*", "-"}[e.rnd(3)]), e.arg(tInt, 1), L(A(name), L(A("-"), A("a"), I(1)))))
		e.pop()
		e.bind(name)
		return L(A("defn"), A(name), SQ(A("a")), body)
	case 1: // tail recursion with accumulator; closures made in each iteration
		e.g.Count("defn tailrec")
		name := "tr"
		e.push()
		e.bind("a")
		e.bind("fs")
		var acc *nd
		if e.rnd(2) == 0 {
			acc = L(A("append"), A("fs"), L(A("fn"), SQ(), A("a")))
		} else {
			acc = L(A("append"), A("fs"), L(A("fn"), SQ(), L(A("+"), A("a"), e.arg(tInt, 1))))
		}
		var pre []*nd
		if e.rnd(2) == 0 {
			pre = append(pre, L(A("trace"), A("a")))
		}
		rec := L(A(name), L(A("-"), A("a"), I(1)), acc)
		if e.rnd(3) == 0 {
			rec = L(A("let"), SQ(A("b"), A("a")), rec)
		}
		body := L(A("cond"), L(A("<="), A("a"), I(0)), A("fs"), rec)
		e.pop()
		k := []*nd{A("defn"), A(name), SQ(A("a"), A("fs"))}
		k = append(k, pre...)
		k = append(k, body)
		return L(k...)
	case 2:
		e.g.Count("defn varargs")
		name := "va"
		e.push()
		e.bind("a")
		e.bind("l")
		body := e.expr(tInt, d-1)
		e.pop()
		return L(A("defn"), A(name), SQ(A("a"), A("&"), A("l")), body)
	case 3:
		e.g.Count("defn lazy")
		return L(A("defn"), A("lz"), SQ(A("#x"), A("p")),
			L(A("cond"), A("p"), L(A("+"), L(A("force"), A("#x")), L(A("force"), A("#x"))), I(0)))
	case 4: // closure maker
		e.g.Count("defn maker")
		e.push()
		e.bind("a")
		inner := e.fnForm(nil, tInt, d-1)
		e.pop()
		return L(A("defn"), A("mk"), SQ(A("a")), inner)
	}
	e.g.Count("defn plain")
	name := e.pickName(tF1)
	p := e.pickName(tInt)
	e.push()
	e.bind(p)
	e.selfN, e.selfAr = "", 0
	k := []*nd{A("defn"), A(name), SQ(A(p))}
	for i := e.rnd(2); i > 0; i-- {
		k = append(k, e.stmt(d-1))
	}
	k = append(k, e.expr(tInt, d-1))
	e.pop()
	e.bind(name)
	return L(k...)
}

// uses of the special named functions, when the program defined them
func (e *evg) specialUse(defined map[string]bool, d int) *nd {
	var c []*nd
	if defined["tr"] {
		c = append(c, L(A("map"), L(A("fn"), SQ(A("h")), L(A("h"))), L(A("tr"), I(int64(1+e.rnd(3))), SQ())))
	}
	if defined["va"] {
		k := []*nd{A("va")}
		for i := e.rnd(4); i >= 0; i-- {
			k = append(k, e.arg(tInt, 1))
		}
		c = append(c, L(k...))
	}
	if defined["lz"] {
		c = append(c, L(A("lz"), L(A("trace"), e.arg(tInt, 1)), A([]string{"true", "false"}[e.rnd(2)])))
	}
	if defined["ev"] {
		c = append(c, L(A("ev"), I(int64(e.rnd(4)))), L(A("trace"), L(A("cond"), L(A("ev"), I(int64(1+e.rnd(3)))), I(1), I(0))))
	}
	if defined["mk"] {
		c = append(c, L(L(A("mk"), e.arg(tInt, 1))))
		c = append(c, L(A("def"), A("h"), L(A("mk"), e.arg(tInt, 1))))
	}
	if len(c) == 0 {
		return nil
	}
	return c[e.rnd(len(c))]
}

func findDefns(n *nd, out map[string]bool) {
	if n.kids == nil {
		return
	}
	if !n.sq && len(n.kids) > 1 && n.kids[0].atom == "defn" && n.kids[1].leaf() {
		out[n.kids[1].atom] = true
	}
	for _, k := range n.kids {
		findDefns(k, out)
	}
}

// one program text: a few top-level forms
func (e *evg) program(defined map[string]bool) []*nd {
	var forms []*nd
	n := 2 + e.rnd(4)
	e.budget = 30 + e.rnd(50)
	for i := 0; i < n; i++ {
		var f *nd
		if e.rnd(4) == 0 {
			f = e.specialUse(defined, 3)
			if f != nil && len(f.kids) > 1 && f.kids[0].atom == "def" {
				e.bind(f.kids[1].atom)
			}
		}
		if f == nil {
			if i == n-1 {
				f = e.expr([]ty{tInt, tInt, tArr, tBool, tList, tFs, tStr}[e.rnd(7)], 3+e.rnd(3))
			} else {
				f = e.stmt(3 + e.rnd(3))
			}
		}
		findDefns(f, defined)
		forms = append(forms, f)
	}
	return forms
}

// ---- tree mutation (malformed stream)

func allNodes(n *nd, out *[]*nd) {
	*out = append(*out, n)
	for _, k := range n.kids {
		allNodes(k, out)
	}
}

func (e *evg) mutate(forms []*nd) string {
	var all []*nd
	for _, f := range forms {
		allNodes(f, &all)
	}
	x := all[e.rnd(len(all))]
	kind := e.rnd(7)
	switch {
	case kind == 0 && len(x.kids) > 0: // drop a child
		i := e.rnd(len(x.kids))
		x.kids = append(append([]*nd{}, x.kids[:i]...), x.kids[i+1:]...)
		if len(x.kids) == 0 {
			x.kids = []*nd{}
		}
		return "drop-child"
	case kind == 1 && len(x.kids) > 1: // swap two children
		i, j := e.rnd(len(x.kids)), e.rnd(len(x.kids))
		x.kids[i], x.kids[j] = x.kids[j], x.kids[i]
		return "swap-children"
	case kind == 2 && x.leaf(): // replace an atom
		x.atom = []string{"a", "b", "f", "v", "nil", "0", "\"x\"", "true", "fs", "+", "len", "break", "let", "c", "g", "i"}[e.rnd(16)]
		return "replace-atom"
	case kind == 3 && len(x.kids) > 0 && !x.sq && x.kids[0].leaf(): // change the head
		x.kids[0].atom = []string{"let", "letseq", "cond", "and", "or", "begin", "def", "set", "for", "fn", "defn", "break", "continue", "newScope", "+", "f", "list", "map", "apply", "aget"}[e.rnd(20)]
		return "change-head"
	case kind == 4: // wrap in parentheses
		cp := *x
		*x = nd{kids: []*nd{&cp}}
		return "wrap"
	case kind == 5 && len(x.kids) > 0: // duplicate a child
		i := e.rnd(len(x.kids))
		x.kids = append(x.kids, x.kids[i])
		return "dup-child"
	case kind == 6 && len(x.kids) > 0: // toggle bracket kind
		x.sq = !x.sq
		return "toggle-bracket"
	}
	return "none"
}

// A colon-terminated symbol (`L1:`) is a loop label only right after for/break/continue.
// Anywhere else Go evaluates it to itself (LexicalLookupSymbol: colonTail), which is outside
// the modelled core language (model and reference treat it as an unbound symbol). A tree
// mutation that moves a label out of its position is neutralised: the stray label becomes 0.
func neutraliseStrayLabels(n *nd) int {
	c := 0
	labelAt := -1
	if len(n.kids) > 1 && n.kids[0].leaf() && !n.sq {
		switch n.kids[0].atom {
		case "for", "break", "continue":
			labelAt = 1
		}
	}
	for i, k := range n.kids {
		if k.leaf() && strings.HasSuffix(k.atom, ":") && i != labelAt {
			k.atom = "0"
			c++
			continue
		}
		c += neutraliseStrayLabels(k)
	}
	return c
}

func evalGen(g *Gen) {
	// fixed ops: the shapes named in DESIGN §7 C02/C09 and earlier findings
	for _, t := range evalFixed {
		g.Emit("%s", strings.ReplaceAll(t, " ", "~"))
		g.Count("fixed")
	}
	for _, t := range evalKnown {
		g.Emit("%s", t)
		g.Count("fixed known-finding")
	}
	nWT, nMal := 1300, 600
	if g.Thorough() {
		nWT, nMal = 20000, 8000
	}
	for i := 0; i < nWT+nMal; i++ {
		e := &evg{g: g}
		e.push()
		defined := map[string]bool{}
		ntext := 1 + g.Rng.Intn(3)
		var texts []string
		for t := 0; t < ntext; t++ {
			forms := e.program(defined)
			if i >= nWT && t == ntext-1 {
				what := "none"
				for try := 0; try < 12 && what == "none"; try++ { // a mutation kind that does not fit the chosen node changes nothing: choose again
					what = e.mutate(forms)
				}
				g.Count("mal " + what)
				for _, f := range forms {
					if f.leaf() && strings.HasSuffix(f.atom, ":") {
						f.atom = "0"
						g.Count("mal stray label neutralised")
					} else if neutraliseStrayLabels(f) > 0 {
						g.Count("mal stray label neutralised")
					}
				}
			}
			nodes, depth := 0, 0
			for _, f := range forms {
				nodes += f.count()
				if f.depth() > depth {
					depth = f.depth()
				}
			}
			g.Count(fmt.Sprintf("text nodes<=%d", (nodes/20+1)*20))
			g.Count(fmt.Sprintf("text depth %d", depth))
			texts = append(texts, renderProg(forms, g))
		}
		g.Count(fmt.Sprintf("history length %d", ntext))
		if i < nWT {
			g.Count("stream wt")
		} else {
			g.Count("stream mal")
		}
		g.Emit("%s", strings.Join(texts, " "))
	}
	evalSmallScope(g)
}

// Exhaustive small scope: every expression of nesting <= 2 (quick) over the vocabulary
// {0, 1, a} and the forms + cond and or let begin def set, evaluated after (def a 2).
func evalSmallScope(g *Gen) {
	atoms := []string{"0", "1", "a"}
	level := func(sub []string) []string {
		var out []string
		for _, x := range sub {
			for _, y := range sub {
				for _, f := range []string{"(+~%s~%s)", "(and~%s~%s)", "(or~%s~%s)", "(let~[a~%s]~%s)", "(begin~%s~%s)"} {
					out = append(out, fmt.Sprintf(f, x, y))
				}
				for _, z := range atoms {
					out = append(out, fmt.Sprintf("(cond~%s~%s~%s)", x, y, z))
				}
			}
			out = append(out, fmt.Sprintf("(def~a~%s)", x), fmt.Sprintf("(set~a~%s)", x), fmt.Sprintf("(def~b~%s)", x))
		}
		return out
	}
	l1 := level(atoms)
	all := append(append([]string{}, atoms...), l1...)
	l2 := level(all)
	emit := func(x string) {
		g.Emit("(def~a~2) %s a", x)
		g.Count("small-scope")
	}
	for _, x := range l1 {
		emit(x)
	}
	if g.Thorough() {
		for _, x := range l2 {
			emit(x)
		}
	} else {
		for i := 0; i < 600; i++ {
			emit(l2[g.Rng.Intn(len(l2))])
		}
	}
}

// Hand-written histories run first on every check.
var evalFixed = []string{
	"(+ 1 2)",
	"(def a 1) (defn f [b] (+ a b)) (f 2)",
	"(- 5)",
	"(defn t4 [n fs] (cond (== n 0) fs (t4 (- n 1) (append fs (fn [] n))))) (map (fn [f] (f)) (t4 3 []))",
	"(def a [1 2 3]) (def b (append a 4)) (def c (append b 5)) (def d (append b 6)) c",
	"(def a 0) (for L1: [(def i 0) (< i 4) (set i (+ i 1))] (for [(def j 0) (< j 3) (set j (+ j 1))] (let [b 1] (cond (== j 1) (continue L1:) (== i 3) (break L1:) nil)) (set a (+ a 1)))) a",
	"(defn va [a & l] (+ a (len l))) (va 1) (va 1 2 3)",
	"(defn lz [#x p] (cond p (+ (force #x) (force #x)) 0)) (lz (trace 5) true) (lz (trace 6) false)",
	"(defn mk [a] (fn [] a)) (def h (mk 7)) (def a 1) (h)",
	"(def f (fn [a] (fn [b] (fn [c] (+ a (+ b c)))))) (((f 1) 2) 3)",
	"(and) (or)",
	"(let [a (trace 1) b (trace 2)] (trace (+ a b)))",
	"(letseq [a 1 b (+ a 1)] (* a b))",
	"(def a 5) (set a (+ a 1)) (newScope (def a 1) (set a 2)) a",
	"(cond (trace 0) (trace 1) (trace 2) (trace 3) (trace 4))",
	"(or (trace 0) (trace nil) (trace 3) (trace 4))",
	"(def x 1) (def x \"s\")",
	"(apply + [1 2 3])",
	"(defn ev [a] (cond (<= a 0) true (cond (ev (- a 1)) false true))) (ev 3) (ev 4)",
	"(defn ev [a] (cond (<= a 0) true (and (ev (- a 1)) (trace a) false))) (ev 2)",
	"(defn ev [a] (cond (<= a 0) true (begin (def p (ev (- a 1))) (not p)))) (ev 3)",
	"(map (fn [a] (* a a)) (list 1 2 3))",
}

// Inputs on which the pinned tree is known to break C02 and that are not repaired by a
// proposed fix (notes/C02.known.json). `+argbrk`: judged in the non-strict domain.
var evalKnown = []string{
	"+argbrk (def~a~0)~(for~[(def~i~0)~(<~i~3)~(set~i~(+~i~1))]~(set~a~(+~a~(cond~(>~i~0)~(break)~1))))~a",
	"(+~1~(cond~true~(begin)~2))",
	"(def~a~(newScope))~a",
	"(defn~f~[f]~(f~1))~(f~(fn~[a]~a))",
	"(defn~g~[a]~(cond~(>~a~0)~(g~0~7)~a))~(g~1)",
}

// Callbacks that fail on the k-th element (mutation round 4, seeded/C05-m4 — also a C02 violation: `map`
// over a LIST swallowed the error of every element but the first): every higher-order route × container ×
// failing position × kind of failure, with a trace on every element so that the effect order is judged too.
func init() {
	fails := []string{"(undefined_zz a)", "(+ a \"s\")", "((fn [p q] p) a)", "(aget [1] a)"}
	colls := []string{"(list 1 2 3)", "[1 2 3]", "(list 1 2 3 4)", "(cons 1 (cons 2 (list 3)))"}
	for _, f := range fails {
		for _, c := range colls {
			for k := 1; k <= 4; k++ {
				body := fmt.Sprintf("(fn [a] (trace a) (cond (== a %d) %s (* a 10)))", k, f)
				evalFixed = append(evalFixed,
					"(map "+body+" "+c+")",
					"(def r (map "+body+" "+c+")) r",
					"(def g "+body+") (def r 0) (set r (map g "+c+")) (trace 99) r",
					"(map (fn [b] (map "+body+" "+c+")) (list 7 8))")
			}
		}
	}
}
