package main

// Channel contain, ops of kind `core` (C05 on the executable VM model):
//
//   contain core <site> <count> 0,1,0 <history A> <history B> <sub-kind>
//
// A history is a list of program texts joined by `|`, blanks written `~` (texts of the core
// language of Model/CoreSexp.lean only, so the Lean driver can run the same history on the VM
// model and the twin history on the reference evaluator). History A = setup | failing program
// | follow-up battery; history B = setup | prefix (the part of the program that ran before
// the failure) | the same battery. The failure is written in the program itself: the
// <count>-th dynamic execution of site <site> evaluates an unbound symbol / a call with the
// wrong number of arguments / a builtin on operands it rejects (a counter global tells the
// executions apart), so "the k-th call for every k" needs no host function.
//
// Answer: `contained` followed by one record per text of history A
//
//   <class> <value> T[<trace>] D[<data>,<scope>,<addr>,<loop>] E[end|not] B[global|nil|other|empty]
//
// (E: curfunc is mainfunc and the pc is at or behind its end — VerifAtEnd; B: what stands at the
// bottom of the scope stack — VerifScopeBottom), or `BROKEN …` when the twin, run on the real
// code, tells the two interpreters apart on the battery.

import (
	"fmt"
	"strings"

	"github.com/glycerine/zygomys/v9/zygo"
)

var containCoreKinds = []string{"eff", "boom", "begin", "plus", "let", "letseq", "newscope", "cond", "callfn", "lambda",
	"apply", "mapf", "lazy", "loop", "and", "array", "list", "rec", "rectail"}

var containCoreFollowups = []string{
	"(list g0 g1 g2 g3 g4 g5)",
	"(+ 1 2)",
	"(defn zzfu [x] (* x 2)) (zzfu 21)",
	"(let [a 1] (for [(def i 0) (< i 3) (def i (+ i 1))] (set g0 (+ g0 i))) g0)",
	"",
	"(undefined_function_zz 1)",
	"(+ 2 2)",
	"(begin (def zq 5) (+ zq g1))",
	"(list g0 g1 g2 g3 g4 g5)",
}

func (c *cgen) coreNode(depth int) *cnode {
	r := c.g.Rng
	if depth <= 0 {
		if r.Intn(3) == 0 {
			return c.boom()
		}
		return c.eff()
	}
	k := containCoreKinds[r.Intn(len(containCoreKinds))]
	c.g.Count("core node " + k)
	seq := func(d, min int) []*cnode {
		n := min + r.Intn(3)
		var ks []*cnode
		for i := 0; i < n; i++ {
			ks = append(ks, c.coreNode(d))
		}
		return ks
	}
	switch k {
	case "eff":
		return c.eff()
	case "boom":
		return c.boom()
	case "begin", "plus", "newscope", "and", "array", "list":
		return &cnode{kind: k, kids: seq(depth-1, 1)}
	case "let", "letseq", "lambda":
		return &cnode{kind: k, kids: append([]*cnode{c.coreNode(depth - 1)}, seq(depth-1, 1)...)}
	case "cond":
		return &cnode{kind: k, flag: r.Intn(2) == 0, kids: []*cnode{c.coreNode(depth - 1), c.coreNode(depth - 1)}}
	case "callfn", "apply":
		body := &cnode{kind: "begin", kids: seq(depth-1, 1)}
		c.funcs = append(c.funcs, body)
		return &cnode{kind: k, id: len(c.funcs) - 1}
	case "mapf":
		// flag: over a list (MapList / the model's mapList) instead of an array (MapArray / mapArr)
		return &cnode{kind: k, n: 1 + r.Intn(3), flag: r.Intn(2) == 0, kids: seq(depth-1, 1)}
	case "loop":
		return &cnode{kind: k, n: 1 + r.Intn(3), kids: seq(depth-1, 1)}
	case "lazy":
		return &cnode{kind: k, id: r.Intn(nGlobals), val: r.Intn(nGlobals), kids: []*cnode{c.coreNode(depth - 1)}}
	case "rec", "rectail":
		c.nextSite++
		return &cnode{kind: k, n: 1 + r.Intn(4), id: c.nextSite, val: r.Intn(nGlobals)}
	}
	return c.eff()
}

// coreSetup: the setup text in the core language (no host function, no macro, no quote).
func (r *crender) coreSetup(root *cnode) string {
	var b strings.Builder
	for i := 0; i < nGlobals; i++ {
		fmt.Fprintf(&b, "(def g%d 0) ", i)
	}
	b.WriteString("(def cnt 0) (defn boom [s] 0) (defn farity [] 0) ")
	// bodies may call each other only downwards (a body is appended when its call node is made,
	// so a body only refers to LATER indices): define them last to first
	for i := len(r.c.funcs) - 1; i >= 0; i-- {
		fmt.Fprintf(&b, "(defn f%d [] %s) ", i, r.render(r.c.funcs[i]))
	}
	seen := map[string]bool{}
	var visit func(n *cnode)
	visit = func(n *cnode) {
		switch n.kind {
		case "lazy":
			name := fmt.Sprintf("lz%d%d", n.id, n.val)
			if !seen[name] {
				seen[name] = true
				fmt.Fprintf(&b, "(defn %s [#a] (begin (set g%d 11) (force #a) (set g%d 22))) ", name, n.id, n.val)
			}
		case "rec":
			name := fmt.Sprintf("rec%d_%d", n.id, n.val)
			if !seen[name] {
				seen[name] = true
				fmt.Fprintf(&b, "(defn %s [n] (cond (== n 0) 0 (begin (set g%d (+ g%d 1)) %s (+ 1 (%s (- n 1)))))) ", name, n.val, n.val, r.site(n.id), name)
			}
		case "rectail":
			name := fmt.Sprintf("rect%d_%d", n.id, n.val)
			if !seen[name] {
				seen[name] = true
				fmt.Fprintf(&b, "(defn %s [n] (cond (== n 0) 0 (begin (set g%d (+ g%d 1)) %s (%s (- n 1))))) ", name, n.val, n.val, r.site(n.id), name)
			}
		}
		for _, k := range n.kids {
			visit(k)
		}
	}
	visit(root)
	for _, body := range r.c.funcs {
		visit(body)
	}
	return strings.TrimSpace(b.String())
}

func tilde(texts []string) string {
	var out []string
	for _, t := range texts {
		out = append(out, strings.ReplaceAll(strings.TrimSpace(t), " ", "~"))
	}
	return strings.Join(out, "|")
}

func containCoreGen(g *Gen) {
	nprog := 50
	if g.Thorough() {
		nprog = 1500
	}
	maxEvents := 8
	subkinds := []string{"undef", "arity", "typeerr"}
	for pi := 0; pi < nprog; pi++ {
		c := &cgen{g: g}
		n := 2 + g.Rng.Intn(3)
		root := &cnode{kind: "begin"}
		for i := 0; i < n; i++ {
			root.kids = append(root.kids, c.coreNode(2+g.Rng.Intn(2)))
		}
		w := &cwalk{c: c, counts: map[int]int{}}
		w.walk(root)
		emit := func(sub string, ev cevent) {
			r := &crender{c: c, failSite: ev.site, kind: "core:" + sub, failCount: ev.count}
			setup := r.coreSetup(root)
			prog := r.render(root)
			var prefix string
			if ev.site == 0 {
				prefix = prog
			} else {
				p := &cprefix{c: c, failSite: ev.site, failCount: ev.count, full: &crender{c: c}, failR: r}
				prefix, _ = p.pre(root)
			}
			histA := append([]string{setup, prog}, containCoreFollowups...)
			histB := append([]string{setup, prefix}, containCoreFollowups...)
			g.Emit("core %d %d 0,1,0 %s %s %s", ev.site, ev.count, tilde(histA), tilde(histB), sub)
			g.Count("kind core-" + sub)
		}
		emit("none", cevent{0, 0})
		evs := w.events
		if len(evs) > maxEvents {
			evs = evs[:maxEvents]
		}
		g.Count(fmt.Sprintf("core events-per-prog %d", min(len(w.events), 20)))
		for i, ev := range evs {
			emit(subkinds[(pi+i)%len(subkinds)], ev)
		}
	}
}

// coreRecords runs a history on one real interpreter (as channel eval does) and returns one
// record per text.
func coreRecords(texts []string) []string {
	env := zygo.NewZlisp()
	defer env.Close()
	var trace []string
	env.AddFunction("trace", func(env *zygo.Zlisp, name string, args []zygo.Sexp) (zygo.Sexp, error) {
		if len(args) == 0 {
			trace = append(trace, "nil")
			return zygo.SexpNull, nil
		}
		trace = append(trace, evalCanon(args[0], evalPrintDepth))
		return args[0], nil
	})
	calls := 0
	timedOut := false
	env.AddPreHook(func(env *zygo.Zlisp, name string, args []zygo.Sexp) {
		calls++
		if calls > evalCallBudget {
			timedOut = true
			panic(evalTimeout{})
		}
	})
	var out []string
	dead := false
	for _, t := range texts {
		if dead {
			out = append(out, "dead")
			continue
		}
		text := strings.ReplaceAll(t, "~", " ") + "\n"
		trace = nil
		calls = 0
		class, val := "ok", "-"
		func() {
			defer func() {
				if r := recover(); r != nil {
					if _, isT := r.(evalTimeout); isT {
						class = "timeout"
					} else {
						class = "panic"
					}
					val = "-"
				}
			}()
			if err := env.LoadString(text); err != nil {
				class = "cerr"
				return
			}
			res, err := env.Run()
			if err != nil {
				class = "err"
				return
			}
			val = evalCanon(res, evalPrintDepth)
		}()
		if timedOut {
			class = "timeout"
		}
		if class == "panic" || class == "timeout" {
			dead = true
			out = append(out, fmt.Sprintf("%s - T[%s] D[-]", class, strings.Join(trace, ",")))
			continue
		}
		d, s, a, l := env.VerifDepths()
		e := "not"
		if env.VerifAtEnd() {
			e = "end"
		}
		out = append(out, fmt.Sprintf("%s %s T[%s] D[%d,%d,%d,%d] E[%s] B[%s]", class, val, strings.Join(trace, ","), d, s, a, l, e, env.VerifScopeBottom()))
	}
	return out
}

func containCoreExec(toks []string) string {
	histA := strings.Split(toks[4], "|")
	histB := strings.Split(toks[5], "|")
	ra := coreRecords(histA)
	rb := coreRecords(histB)
	if len(ra) < 2 || len(rb) != len(ra) {
		return "bad-op"
	}
	if !strings.HasPrefix(ra[0], "ok ") {
		return "SETUPFAIL " + ra[0]
	}
	if toks[1] != "0" && !strings.HasPrefix(rb[1], "ok ") {
		return "TWINFAIL prefix did not evaluate: " + toks[5]
	}
	// the twin, on the real code: after the failure the interpreter answers the battery as the
	// interpreter that only ran the prefix does
	for i := 2; i < len(ra); i++ {
		if ra[i] != rb[i] {
			return fmt.Sprintf("BROKEN follow-up %d: after failure %s, twin %s", i-2, strings.ReplaceAll(ra[i], " ", "_"), strings.ReplaceAll(rb[i], " ", "_"))
		}
	}
	return "contained " + strings.Join(ra, " ;; ")
}
