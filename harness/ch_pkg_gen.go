package main

// Generators of channel pkg (C18).

import (
	"fmt"
	"strings"
)

// name pools by class of the first rune: U upper-case letter, l lower-case letter,
// n neither (non-letter, title-case letter, caseless letter)
var pkgPool = map[string][]string{
	"U": {"X", "Yb", "Zed", "Ab", "Q9", "Éa", "Ωm", "Kk", "Ww", "Vv"},
	"l": {"x", "yb", "zed", "ab", "q9", "éa", "ωm", "kk", "ww", "vv"},
	"n": {"_u", "$d", "ǅz", "一a", "_Z", "$X"},
}
var pkgClasses = []string{"U", "l", "n"}

type pkgNode struct {
	kind   string // v g s p h r
	name   string
	pn     string
	kids   []*pkgNode
	ival   int
	target string   // g/s: target name; r: referenced plain symbol
	ref    *pkgNode // r: the node the symbol denotes
	outer  *pkgNode // enclosing package (for p nodes), nil at top
}

func (n *pkgNode) decl(entry bool) string {
	switch n.kind {
	case "v":
		return fmt.Sprintf("v %s %d", n.name, n.ival)
	case "g", "s":
		return fmt.Sprintf("%s %s %s", n.kind, n.name, n.target)
	case "r":
		return fmt.Sprintf("r %s %s", n.name, n.target)
	case "p":
		var ks []string
		for _, k := range n.kids {
			ks = append(ks, k.decl(false))
		}
		return fmt.Sprintf("p %s %s %d %s", n.name, n.pn, len(n.kids), strings.Join(ks, " "))
	case "h":
		var ks []string
		for _, k := range n.kids {
			ks = append(ks, k.decl(true))
		}
		return strings.TrimSpace(fmt.Sprintf("h %s %d %s", n.name, len(n.kids), strings.Join(ks, " ")))
	}
	return ""
}

func (n *pkgNode) deref() *pkgNode {
	if n.kind == "r" && n.ref != nil {
		return n.ref
	}
	return n
}

type pkgWG struct {
	g    *Gen
	npkg int
	nval int
}

func (w *pkgWG) class() string { return pkgClasses[w.g.Rng.Intn(3)] }

func (w *pkgWG) fresh(used map[string]bool, class string) string {
	pool := pkgPool[class]
	for tries := 0; tries < 20; tries++ {
		c := pool[w.g.Rng.Intn(len(pool))]
		if !used[c] {
			used[c] = true
			return c
		}
	}
	for i := 0; ; i++ {
		c := fmt.Sprintf("%s%d", pool[0], i)
		if !used[c] {
			used[c] = true
			return c
		}
	}
}

func (w *pkgWG) val() int { w.nval++; return 100 + w.nval }

func (w *pkgWG) hash(name string, depth int, pkgsInScope []*pkgNode) *pkgNode {
	h := &pkgNode{kind: "h", name: name}
	used := map[string]bool{}
	n := 1 + w.g.Rng.Intn(3)
	for i := 0; i < n; i++ {
		k := w.fresh(used, w.class())
		switch r := w.g.Rng.Intn(10); {
		case r < 3 && depth < 3:
			h.kids = append(h.kids, w.hash(k, depth+1, pkgsInScope))
		case r < 5 && len(pkgsInScope) > 0:
			t := pkgsInScope[w.g.Rng.Intn(len(pkgsInScope))]
			h.kids = append(h.kids, &pkgNode{kind: "r", name: k, target: t.name, ref: t})
		default:
			h.kids = append(h.kids, &pkgNode{kind: "v", name: k, ival: w.val()})
		}
	}
	return h
}

func (w *pkgWG) pkg(name string, depth, maxDepth int, outer *pkgNode) *pkgNode {
	w.npkg++
	p := &pkgNode{kind: "p", name: name, pn: fmt.Sprintf("P%d", w.npkg), outer: outer}
	used := map[string]bool{}
	n := 2 + w.g.Rng.Intn(4)
	var pkgs []*pkgNode
	for i := 0; i < n; i++ {
		nm := w.fresh(used, w.class())
		switch r := w.g.Rng.Intn(12); {
		case r < 3:
			p.kids = append(p.kids, &pkgNode{kind: "v", name: nm, ival: w.val()})
		case r < 5 && len(p.kids) > 0:
			t := p.kids[w.g.Rng.Intn(len(p.kids))]
			kind := "g"
			if w.g.Rng.Intn(2) == 0 {
				kind = "s"
			}
			p.kids = append(p.kids, &pkgNode{kind: kind, name: nm, target: t.name})
		case r < 8 && depth < maxDepth:
			k := w.pkg(nm, depth+1, maxDepth, p)
			p.kids = append(p.kids, k)
			pkgs = append(pkgs, k)
		case r < 11:
			p.kids = append(p.kids, w.hash(nm, 1, pkgs))
		default:
			p.kids = append(p.kids, &pkgNode{kind: "v", name: nm, ival: w.val()})
		}
	}
	return p
}

// path picks a dot path starting at root variable `root` (a p or h node bound globally).
func (w *pkgWG) path(root *pkgNode, rootName string) (string, *pkgNode) {
	parts := []string{rootName}
	cur := root
	for {
		c := cur.deref()
		if (c.kind != "p" && c.kind != "h") || len(c.kids) == 0 {
			break
		}
		var nxt *pkgNode
		if c.kind == "p" && c.outer != nil && w.g.Rng.Intn(8) == 0 {
			// a name of an enclosing package, seen through the nested package's scope stack
			nxt = c.outer.kids[w.g.Rng.Intn(len(c.outer.kids))]
			w.g.Count("path through-enclosing-scope")
		} else {
			nxt = c.kids[w.g.Rng.Intn(len(c.kids))]
		}
		parts = append(parts, nxt.name)
		cur = nxt
		if len(parts) >= 7 {
			break
		}
		k := cur.deref().kind
		if (k == "p" || k == "h") && w.g.Rng.Intn(5) == 0 {
			break // stop at a container
		}
	}
	switch r := w.g.Rng.Intn(12); {
	case r == 0 && len(parts) > 1: // a name that is not bound
		parts[len(parts)-1] = pkgPool[w.class()][9%len(pkgPool["n"])] + "Q"
		w.g.Count("path missing-last")
		cur = nil
	case r == 1: // one hop too many
		parts = append(parts, pkgPool[w.class()][0])
		w.g.Count("path hop-past-end")
		cur = nil
	}
	return strings.Join(parts, "."), cur
}

var pkgGetRoutes = []string{"opnd", "call0", "call1", "arg", "rhs", "rhsi"}
var pkgSetRoutes = []string{"seti", "setp", "set"}

func pkgClassOf(name string) string {
	for c, pool := range pkgPool {
		for _, p := range pool {
			if strings.HasPrefix(name, p) {
				return c
			}
		}
	}
	return "?"
}

func pkgRandomLine(g *Gen, maxDepth int) string {
	w := &pkgWG{g: g}
	var items []string
	type root struct {
		name string
		n    *pkgNode
	}
	var roots []root
	used := map[string]bool{}
	var topPkgs []*pkgNode
	for i, n := 0, 1+g.Rng.Intn(2); i < n; i++ {
		nm := w.fresh(used, pkgClasses[g.Rng.Intn(2)])
		p := w.pkg(nm, 1, maxDepth, nil)
		items = append(items, "def "+p.decl(false))
		roots = append(roots, root{nm, p})
		topPkgs = append(topPkgs, p)
	}
	if g.Rng.Intn(2) == 0 { // a plain hash outside every package, possibly holding packages
		nm := w.fresh(used, "l")
		h := w.hash(nm, 1, topPkgs)
		items = append(items, "def "+h.decl(false))
		roots = append(roots, root{nm, h})
		g.Count("world plain-hash")
	}
	nal := 0
	for s, ns := 0, 3+g.Rng.Intn(5); s < ns; s++ {
		r := roots[g.Rng.Intn(len(roots))]
		pa, end := w.path(r.n, r.name)
		depth := strings.Count(pa, ".")
		g.Count(fmt.Sprintf("path hops %d", depth))
		last := pa[strings.LastIndex(pa, ".")+1:]
		g.Count("last-name class " + pkgClassOf(last))
		kind := "none"
		if end != nil {
			kind = end.deref().kind
		}
		g.Count("member kind " + kind)
		switch x := g.Rng.Intn(10); {
		case x < 5:
			rt := pkgGetRoutes[g.Rng.Intn(len(pkgGetRoutes))]
			g.Count("route " + rt)
			switch rt {
			case "call1":
				items = append(items, fmt.Sprintf("call1 %s %d", pa, w.val()))
			case "rhs", "rhsi":
				nal++
				al := fmt.Sprintf("zal%d", nal)
				items = append(items, fmt.Sprintf("%s %s %s", rt, al, pa))
				if end != nil && (end.deref().kind == "p" || end.deref().kind == "h") {
					roots = append(roots, root{al, end.deref()})
					g.Count("alias to " + end.deref().kind)
				}
			default:
				items = append(items, rt+" "+pa)
			}
		case x < 9:
			rt := pkgSetRoutes[g.Rng.Intn(len(pkgSetRoutes))]
			g.Count("route " + rt)
			items = append(items, fmt.Sprintf("%s %s %d", rt, pa, w.val()))
			if end != nil && end.kind != "v" {
				// the member may now hold an int: forget the structure below the root
				// (paths through it stay legal inputs; they just fail on both sides)
			}
		default:
			r2 := roots[g.Rng.Intn(len(roots))]
			pb, _ := w.path(r2.n, r2.name)
			g.Count("route setrhs")
			items = append(items, "setrhs "+pa+" "+pb)
		}
	}
	return "seq " + strings.Join(items, " ")
}

// exhaustive small scope: a chain of nested packages of depth d whose link names run over
// every class combination, one member of every kind × name class at the bottom, every route.
func pkgExhaustive(g *Gen) {
	kinds := []string{"v", "g", "s", "p", "h"}
	nNames := 1 // member names tried per class
	if g.Thorough() {
		nNames = 2
	}
	for d := 1; d <= 4; d++ {
		nchains := 1
		for i := 1; i < d; i++ {
			nchains *= 3
		}
		for ch := 0; ch < nchains; ch++ {
			// link names: class digit per level
			links := []string{"top"}
			c := ch
			for i := 1; i < d; i++ {
				links = append(links, pkgPool[pkgClasses[c%3]][i])
				c /= 3
			}
			for _, mc := range pkgClasses {
				for _, kind := range kinds {
					for ni := 0; ni < nNames; ni++ {
						mname := pkgPool[mc][ni*5%len(pkgPool[mc])]
						// member declaration
						var m string
						var paths []string
						base := strings.Join(links, ".") + "." + mname
						switch kind {
						case "v":
							m = "v " + mname + " 7"
							paths = []string{base}
						case "g":
							m = "g " + mname + " hid"
							paths = []string{base}
						case "s":
							m = "s " + mname + " hid"
							paths = []string{base}
						case "p":
							m = "p " + mname + " Inner 3 v Pub 8 v priv 9 v _n 10"
							paths = []string{base, base + ".Pub", base + ".priv", base + "._n", base + ".hid"}
						case "h":
							m = "h " + mname + " 4 v Ka 11 v kb 12 v $c 13 h Sub 2 v Da 14 v db 15"
							paths = []string{base, base + ".Ka", base + ".kb", base + ".$c", base + ".Sub.Da", base + ".Sub.db", base + ".Sub"}
						}
						// the chain: innermost first
						decl := fmt.Sprintf("p %s L%d 3 v hid 5 v Src 6 %s", links[d-1], d, m)
						for i := d - 2; i >= 0; i-- {
							decl = fmt.Sprintf("p %s L%d 3 v hid%d 5 v Src 6 %s", links[i], i+1, i, decl)
						}
						for _, pa := range paths {
							// all get routes in one history (they do not change the members)
							var gets []string
							for _, rt := range pkgGetRoutes {
								switch rt {
								case "call1":
									continue
								case "rhs", "rhsi":
									gets = append(gets, fmt.Sprintf("%s zq%s %s", rt, rt, pa))
								default:
									gets = append(gets, rt+" "+pa)
								}
							}
							g.Emit("seq def %s %s", decl, strings.Join(gets, " "))
							// each mutating route in its own history, followed by read-backs from
							// outside and (through the chain's getter when it exists) from inside
							for _, rt := range pkgSetRoutes {
								g.Emit("seq def %s %s %s 77 call0 %s arg %s", decl, rt, pa, pa, pa)
							}
							g.Emit("seq def %s call1 %s 78 call0 %s", decl, pa, strings.Join(links, ".")+".hid")
							g.Emit("seq def %s setrhs %s top.Src arg %s", decl, pa, pa)
							g.Emit("seq def %s setrhs top.Src %s arg top.Src", decl, pa)
							g.Count("exhaustive depth " + fmt.Sprint(d))
							g.Count("exhaustive kind " + kind + " class " + mc)
						}
					}
				}
			}
		}
	}
}

func pkgGen(g *Gen) {
	pkgExhaustive(g)
	// the regenerated unicode.IsUpper table against the library
	for c := 0; c < 0x250; c++ {
		g.Emit("upper %d", c)
	}
	for i := 0; i < 2000; i++ {
		g.Emit("upper %d", g.Rng.Intn(0x20000))
	}
	n := 1500
	if g.Thorough() {
		n = 60000
	}
	for i := 0; i < n; i++ {
		g.Emit("%s", pkgRandomLine(g, 1+g.Rng.Intn(4)))
	}
}
