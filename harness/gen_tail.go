package main

// Generator of channel tail (C09): self-recursive function shapes.
//
// A shape is a function `f` whose self call sits under a stack of contexts. Tail contexts
// (the ones the property lists): cond arm / cond default, begin, let, letseq, newScope,
// last arm of and/or. Look-alike NON-tail contexts: call operand, non-last and/or arm,
// cond test, non-last begin statement, def right-hand side, for body, closure body.
// One op = one history: the definitions, then the same call at growing depths
// 0,1,2,3,10,100 (reference evaluator), 1000 (VM model), 10^5 (thorough: 10^6).
// Bodies: accumulator (closed form a+n(n+1)/2), closure collector (closures stored in an
// array / list and called afterwards), variadic, with locals defined and scopes opened
// before the tail call, effects counted in a global, traces. `(probe k)` samples the
// three stack depths at every (re-)entry and before the tail call.
//
// Flags for driver and judge: +m<k>/+r<k> = the VM model / the reference run the first k
// texts; +e<i>=<v> = closed form of text i; +space = every self call of the shape is in
// tail position, so the spec demands that every probe site reports ONE depth triple over all
// texts of the history (independent of the recursion depth); +t<i>=<j> = text j is text i
// with the function bound by (def ff (fn …)) — the same function without the optimisation —
// and both must report the same class, value and trace; +w<sec> = watchdog.

import (
	"fmt"
	"strings"
)

type tailctx struct {
	kind  string
	tail  bool
	scope bool
}

var tailCtxs = []tailctx{
	{"cond-default", true, false}, {"cond-arm", true, false}, {"cond-midarm", true, false},
	{"begin", true, false}, {"let", true, true}, {"letseq", true, true}, {"newScope", true, true},
	{"and-last", true, false}, {"or-last", true, false}, {"let-locals", true, true}, {"begin-def", true, false},
}

var nonTailCtxs = []tailctx{
	{"operand", false, false}, {"and-inner", false, false}, {"or-inner", false, false},
	{"cond-test", false, false}, {"begin-inner", false, false}, {"def-rhs", false, false},
	{"for-body", false, true}, {"closure-body", false, false}, {"newScope-inner", false, true},
	{"let-body-inner", false, true}, {"set-rhs", false, false},
}

type tailgen struct {
	g     *Gen
	probe int  // next probe site
	eff   bool // count effects in the global `cnt`
	nloc  int
	acc   string // an int variable in scope that side statements may read
}

func (t *tailgen) rnd(n int) int { return t.g.Rng.Intn(n) }

// a side statement placed before the tail call inside a context
func (t *tailgen) stmt() string {
	switch t.rnd(5) {
	case 0:
		t.probe++
		return fmt.Sprintf("(probe %d)", t.probe)
	case 1:
		t.nloc++
		return fmt.Sprintf("(def t%d (+ n %d))", t.nloc, t.nloc)
	case 2:
		if t.eff {
			return "(set cnt (+ cnt 1))"
		}
		return "(+ n 1)"
	case 3:
		return "n"
	default:
		t.nloc++
		return fmt.Sprintf("(def t%d (fn [] n))", t.nloc)
	}
}

// wrap x (which holds the self call) in one context
func (t *tailgen) wrap(c tailctx, x string) string {
	switch c.kind {
	case "cond-default":
		return fmt.Sprintf("(cond %s -1 %s)", []string{"false", "(< n 0)", "nil"}[t.rnd(3)], x)
	case "cond-arm":
		return fmt.Sprintf("(cond %s %s -1)", []string{"true", "(>= n 0)", "1"}[t.rnd(3)], x)
	case "cond-midarm":
		return fmt.Sprintf("(cond false -1 (>= n 0) %s (< n 0) -2 -3)", x)
	case "begin":
		return fmt.Sprintf("(begin %s %s)", t.stmt(), x)
	case "begin-def":
		t.nloc++
		return fmt.Sprintf("(begin (def t%d %s) (set t%d (+ t%d 0)) %s)", t.nloc, t.acc, t.nloc, t.nloc, x)
	case "let":
		t.nloc++
		return fmt.Sprintf("(let [t%d (+ n 1)] %s)", t.nloc, x)
	case "let-locals":
		t.nloc += 2
		return fmt.Sprintf("(let [t%d n t%d %s] %s %s)", t.nloc-1, t.nloc, t.acc, t.stmt(), x)
	case "letseq":
		t.nloc += 2
		return fmt.Sprintf("(letseq [t%d n t%d (+ t%d 1)] %s)", t.nloc-1, t.nloc, t.nloc-1, x)
	case "newScope":
		return fmt.Sprintf("(newScope %s %s)", t.stmt(), x)
	case "and-last":
		return fmt.Sprintf("(and %s %s)", []string{"true", "1 (>= n 0)", "\"s\""}[t.rnd(3)], x)
	case "or-last":
		return fmt.Sprintf("(or %s %s)", []string{"false", "nil false", "(< n 0)"}[t.rnd(3)], x)
	// ---- not tail positions
	case "operand":
		return fmt.Sprintf("(+ 0 %s)", x)
	case "and-inner":
		return fmt.Sprintf("(and %s true)", x)
	case "or-inner":
		return fmt.Sprintf("(or %s 7)", x)
	case "cond-test":
		return fmt.Sprintf("(cond %s 1 2)", x)
	case "begin-inner":
		return fmt.Sprintf("(begin %s %s)", x, t.acc)
	case "def-rhs":
		t.nloc++
		return fmt.Sprintf("(begin (def t%d %s) t%d)", t.nloc, x, t.nloc)
	case "set-rhs":
		t.nloc++
		return fmt.Sprintf("(begin (def t%d 0) (set t%d %s) t%d)", t.nloc, t.nloc, x, t.nloc)
	case "for-body":
		t.nloc++
		return fmt.Sprintf("(begin (def t%d 0) (for [(def i 0) (< i 1) (set i (+ i 1))] (set t%d %s)) t%d)", t.nloc, t.nloc, x, t.nloc)
	case "closure-body":
		return fmt.Sprintf("((fn [] %s))", x)
	case "newScope-inner":
		return fmt.Sprintf("(newScope %s n)", x)
	case "let-body-inner":
		t.nloc++
		return fmt.Sprintf("(let [t%d 1] %s t%d)", t.nloc, x, t.nloc)
	}
	panic("unknown context " + c.kind)
}

type tailshape struct {
	name     string
	defs     string
	twin     bool // also define `ff`, the same function bound by (def ff (fn …)): no call in its body is a self tail call
	call     func(n int64) string
	twinCall func(n int64) string // explicit twin call text (when the twin is not a textual rewrite of defs)
	closed   func(n int64) string // "" = none
	space    bool
	depths   []int64
}

func tailTilde(s string) string { return strings.ReplaceAll(s, " ", "~") }

var (
	depthsTailQuick    = []int64{0, 1, 2, 10, 100, 1000, 100000}
	depthsTailMid      = []int64{0, 1, 2, 3, 10, 100, 300}
	depthsTailThorough = []int64{0, 1, 2, 10, 100, 1000, 100000, 1000000}
	depthsNonTail      = []int64{0, 1, 2, 5, 30, 300}
	depthsClosure      = []int64{0, 1, 2, 3, 10, 50, 200}
)

const (
	tailRefMax   = 100
	tailModelMax = 1000
)

// the unoptimised twin of a definition text: every `(defn f [..] body)` becomes
// `(def ff (fn [..] body'))` with the calls of f renamed; an anonymous function is compiled
// under a generated name, so none of its calls is a self tail call.
func tailTwinDefs(defs string) string {
	i := strings.Index(defs, "(defn f [")
	if i < 0 {
		return ""
	}
	body := strings.ReplaceAll(defs[i+len("(defn f ["):], "(f ", "(ff ")
	return "(def ff (fn [" + body + ")"
}

func (t *tailgen) emit(s tailshape) {
	g := t.g
	defs := s.defs
	twinDefs := ""
	if s.twin {
		twinDefs = tailTwinDefs(s.defs)
		if twinDefs != "" {
			defs += " " + twinDefs
			g.Count("history with unoptimised twin")
		}
	}
	texts := []string{tailTilde(defs)}
	flags := []string{}
	m, r := 1, 1
	wall := 20
	for _, n := range s.depths {
		if s.twinCall != nil {
			idx := len(texts)
			texts = append(texts, tailTilde(s.twinCall(n)))
			flags = append(flags, fmt.Sprintf("+t%d=%d", idx+1, idx))
			g.Count("twin pair with explicit twin")
		}
		if twinDefs != "" && n <= 1000 {
			// the twin call right before the optimised one (same interpreter state for both)
			idx := len(texts)
			texts = append(texts, tailTilde(strings.ReplaceAll(s.call(n), "(f ", "(ff ")))
			flags = append(flags, fmt.Sprintf("+t%d=%d", idx+1, idx))
			if n <= tailModelMax {
				m = idx + 1
			}
			if n <= tailRefMax {
				r = idx + 1
			}
		}
		idx := len(texts)
		texts = append(texts, tailTilde(s.call(n)))
		if n <= tailModelMax {
			m = idx + 1
		}
		if n <= tailRefMax {
			r = idx + 1
		}
		if s.closed != nil {
			if c := s.closed(n); c != "" {
				flags = append(flags, fmt.Sprintf("+e%d=%s", idx, tailTilde(c)))
			}
		}
		if n >= 1000000 {
			wall = 600
		} else if n >= 100000 && wall < 120 {
			wall = 120
		}
		g.Count(fmt.Sprintf("depth %d", n))
	}
	flags = append([]string{fmt.Sprintf("+m%d", m), fmt.Sprintf("+r%d", r), fmt.Sprintf("+w%d", wall)}, flags...)
	if s.space {
		flags = append(flags, "+space")
		g.Count("shape all-tail (space judged)")
	} else {
		g.Count("shape with a non-tail self call (space not judged)")
	}
	g.Count("body " + s.name)
	g.Emit("%s %s", strings.Join(flags, " "), strings.Join(texts, " "))
}

func tailSumTo(n int64) int64 { return n * (n + 1) / 2 }

// pick a context stack; returns the wrapped step expression, whether all contexts are tail
func (t *tailgen) contexts(step string, nctx int, allowNonTail bool) (string, bool, []string) {
	x := step
	all := true
	var kinds []string
	for i := 0; i < nctx; i++ {
		var c tailctx
		if allowNonTail && t.rnd(4) == 0 {
			c = nonTailCtxs[t.rnd(len(nonTailCtxs))]
		} else {
			c = tailCtxs[t.rnd(len(tailCtxs))]
		}
		if !c.tail {
			all = false
		}
		kinds = append(kinds, c.kind)
		x = t.wrap(c, x)
	}
	return x, all, kinds
}

// accumulator body: (defn f [n a] OUTER( guard( INNER( (f (- n 1) (+ a n)) ) ) ))
func (t *tailgen) accumulator(nInner, nOuter int, allowNonTail bool, depths []int64) tailshape {
	g := t.g
	t.probe, t.nloc, t.acc = 1, 0, "a"
	t.eff = t.rnd(3) == 0
	step := "(f (- n 1) (+ a n))"
	inner, allIn, kin := t.contexts(step, nInner, allowNonTail)
	var guarded string
	switch t.rnd(3) {
	case 0:
		guarded = fmt.Sprintf("(cond (<= n 0) a %s)", inner)
	case 1:
		guarded = fmt.Sprintf("(cond (> n 0) %s a)", inner)
	default:
		guarded = fmt.Sprintf("(cond (< n 0) -9 (== n 0) a %s)", inner)
	}
	outer, allOut, kout := t.contexts(guarded, nOuter, false)
	for _, k := range append(kin, kout...) {
		g.Count("context " + k)
	}
	g.Count(fmt.Sprintf("context nesting %d", nInner+nOuter))
	defs := fmt.Sprintf("(def cnt 0) (defn f [n a] (probe 1) %s)", outer)
	site := t.rnd(4)
	call := func(n int64) string {
		switch site {
		case 0:
			return fmt.Sprintf("(+ 1 (f %d 0))", n)
		case 1:
			return fmt.Sprintf("(begin (set cnt 0) [(f %d 5) 0])", n)
		default:
			return fmt.Sprintf("(f %d 0)", n)
		}
	}
	var closed func(n int64) string
	if allIn && allOut {
		closed = func(n int64) string {
			switch site {
			case 0:
				return fmt.Sprint(tailSumTo(n) + 1)
			case 1:
				return fmt.Sprintf("[%d 0]", tailSumTo(n)+5)
			default:
				return fmt.Sprint(tailSumTo(n))
			}
		}
	}
	return tailshape{name: "accumulator", twin: !t.eff, defs: defs, call: call, closed: closed, space: allIn && allOut, depths: depths}
}

// closure collector: closures made in every iteration, kept in an array (append) or a list
// (cons), called after the recursion: each must see the bindings of ITS iteration.
func (t *tailgen) collector(nInner int) tailshape {
	g := t.g
	t.probe, t.nloc, t.acc = 1, 0, "n"
	t.eff = false
	variant := t.rnd(4)
	var step, base, after string
	var elem func(i int64) int64 // value of the closure made in the iteration with n = i
	switch variant {
	case 0: // array of closures over the parameter
		step, base = "(f (- n 1) (append fs (fn [] n)))", "fs"
		elem = func(i int64) int64 { return i }
	case 1: // closure over a let local opened before the tail call
		step, base = "(let [x (* n 2)] (f (- n 1) (append fs (fn [] (+ x n)))))", "fs"
		elem = func(i int64) int64 { return 3 * i }
	case 2: // closure over a local defined in the function scope
		step, base = "(begin (def y (+ n 100)) (f (- n 1) (append fs (fn [] y))))", "fs"
		elem = func(i int64) int64 { return i + 100 }
	default: // closure that mutates the captured parameter: called twice afterwards
		step, base = "(f (- n 1) (append fs (fn [] (set n (+ n 1000)) n)))", "fs"
		elem = func(i int64) int64 { return i + 1000 }
	}
	inner, _, kin := t.contexts(step, nInner, false)
	for _, k := range kin {
		g.Count("context " + k)
	}
	g.Count(fmt.Sprintf("context nesting %d", nInner))
	defs := fmt.Sprintf("(defn f [n fs] (probe 1) (cond (== n 0) %s %s))", base, inner)
	after = "(map (fn [c] (c)) (f %d []))"
	if variant == 3 {
		after = "(let [r (f %d [])] (map (fn [c] (c)) r) (map (fn [c] (c)) r))"
	}
	call := func(n int64) string { return fmt.Sprintf(after, n) }
	closed := func(n int64) string {
		if n > 200 {
			return ""
		}
		parts := make([]string, 0, n)
		for i := n; i >= 1; i-- {
			v := elem(i)
			if variant == 3 {
				v += 1000
			}
			parts = append(parts, fmt.Sprint(v))
		}
		return "[" + strings.Join(parts, " ") + "]"
	}
	return tailshape{name: fmt.Sprintf("closure collector %d", variant), twin: true, defs: defs, call: call, closed: closed, space: true, depths: depthsClosure}
}

// variadic function: the rest parameter is re-packed by PrepareCall in every iteration
func (t *tailgen) variadic(nInner int, depths []int64) tailshape {
	g := t.g
	t.probe, t.nloc, t.acc = 1, 0, "a"
	t.eff = false
	extra := t.rnd(3) // number of extra operands of the tail call
	ops := ""
	for i := 0; i < extra; i++ {
		ops += " n"
	}
	step := fmt.Sprintf("(f (- n 1) (+ a n)%s)", ops)
	inner, _, kin := t.contexts(step, nInner, false)
	for _, k := range kin {
		g.Count("context " + k)
	}
	g.Count(fmt.Sprintf("variadic extra operands %d", extra))
	defs := fmt.Sprintf("(defn f [n a & r] (probe 1) (cond (== n 0) (+ a (len r)) %s))", inner)
	call := func(n int64) string { return fmt.Sprintf("(f %d 0 8 9)", n) }
	closed := func(n int64) string {
		if n == 0 {
			return "2"
		}
		return fmt.Sprint(tailSumTo(n) + int64(extra))
	}
	return tailshape{name: "variadic", twin: true, defs: defs, call: call, closed: closed, space: true, depths: depths}
}

// traces: the order of effects around the tail call (small depths only)
func (t *tailgen) traced(nInner int) tailshape {
	t.probe, t.nloc, t.acc = 1, 0, "a"
	t.eff = false
	step := "(f (- (trace n) 1) (+ a n))"
	inner, all, kin := t.contexts(step, nInner, true)
	for _, k := range kin {
		t.g.Count("context " + k)
	}
	defs := fmt.Sprintf("(defn f [n a] (trace (+ a 0)) (cond (== n 0) a %s))", inner)
	call := func(n int64) string { return fmt.Sprintf("(f %d 0)", n) }
	return tailshape{name: "traced", twin: true, defs: defs, call: call, space: all, depths: []int64{0, 1, 2, 5, 30}}
}

// The name is rebound at run time by code OUTSIDE the body while the function recurses
// (fix C09-02): by another function or a closure called from the body, or by a side effect of
// a strict operand of the tail call itself (the callee is resolved before the operands, so that
// iteration still calls the old function); in every iteration or only when n reaches k; to a
// non-function, to a function of the same or of another arity, to a fresh closure. Every call
// text defines the function anew (it has been rebound by the previous one) and is paired with
// its unoptimised twin ff/gg.
func (t *tailgen) rebound(nCtx int) tailshape {
	g := t.g
	t.probe, t.nloc, t.acc, t.eff = 1, 0, "a", false
	who := t.rnd(3)  // 0 function, 1 closure, 2 operand side effect
	when := t.rnd(3) // 0 every iteration, 1/2 when n == k
	newv := t.rnd(5)
	k := int64(1 + t.rnd(3))
	news := []string{"7", "h", "h1", "(fn [n a] (+ a 5))", "nil"}[newv]
	// one context stack, shared by the function and its twin
	wrapped, _, _ := t.contexts("@STEP@", nCtx, false)
	build := func(fn, gn string, defn bool, n int64) string {
		set := fmt.Sprintf("(set %s %s)", fn, news)
		trigger := fmt.Sprintf("(%s)", gn)
		if who == 2 {
			trigger = set
		}
		if when != 0 {
			trigger = fmt.Sprintf("(cond (== n %d) %s nil)", k, trigger)
		}
		var step string
		if who == 2 {
			step = fmt.Sprintf("(%s (begin %s (- n 1)) (+ a n))", fn, trigger)
		} else {
			step = fmt.Sprintf("(begin %s (%s (- n 1) (+ a n)))", trigger, fn)
		}
		inner := strings.ReplaceAll(wrapped, "@STEP@", step)
		body := fmt.Sprintf("[n a] (probe 1) (cond (== n 0) a %s)", inner)
		var def, helper string
		if defn {
			def = fmt.Sprintf("(defn %s %s)", fn, body)
		} else {
			def = fmt.Sprintf("(def %s (fn %s))", fn, body)
		}
		switch who {
		case 0:
			helper = fmt.Sprintf("(defn %s [] %s)", gn, set)
		case 1:
			helper = fmt.Sprintf("(def %s (let [z 1] (fn [] %s)))", gn, set)
		}
		return strings.TrimSpace(fmt.Sprintf("%s %s (%s %d 0)", def, helper, fn, n))
	}
	g.Count(fmt.Sprintf("rebound by %s", []string{"a function called from the body", "a closure called from the body", "a strict operand of the tail call"}[who]))
	g.Count(fmt.Sprintf("rebound %s", []string{"in every iteration", "when n reaches k", "when n reaches k"}[when]))
	g.Count("rebound to " + []string{"a non-function", "a function of the same arity", "a function of another arity", "a fresh closure", "nil"}[newv])
	return tailshape{name: "rebound during the recursion", defs: "(defn h [n a] (+ (* n 1000) a)) (defn h1 [n] (+ n 50))",
		call:     func(n int64) string { return build("f", "g", true, n) },
		twinCall: func(n int64) string { return build("ff", "gg", false, n) },
		depths:   []int64{0, 1, 2, 3, 5, 30}}
}

// Hand-written histories, run first on every check.
var tailFixed = []string{
	// README / unit-test shapes
	"+space (defn f [n a] (probe 1) (cond (== n 0) a (f (- n 1) (+ a n)))) (f 0 0) (f 1 0) (f 10 0) (f 1000 0)",
	"+space (defn t4 [n fs] (probe 1) (cond (== n 0) fs (t4 (- n 1) (append fs (fn [] n))))) (map (fn [f] (f)) (t4 3 [])) (map (fn [f] (f)) (t4 50 []))",
	// every listed context once, nested
	"+m4 +r3 +w120 +e4=5000050000 +space (defn f [n a] (probe 1) (begin (probe 2) (let [x 1] (letseq [y x z y] (newScope (probe 3) (and true (or false (cond (== n 0) a (begin (def q n) (f (- n 1) (+ a q))))))))))) (f 0 0) (f 3 0) (f 200 0) (f 100000 0)",
	// tail call under two for-free scopes, closure made inside the inner one
	"+space (defn f [n l] (probe 1) (cond (== n 0) l (let [x n] (newScope (def y (+ x 1)) (f (- n 1) (cons (fn [] (+ x y)) l)))))) (map (fn [c] (c)) (f 1 (list))) (map (fn [c] (c)) (f 4 (list))) (map (fn [c] (c)) (f 100 (list)))",
	// not tail: operand, non-last arms, cond test, for body
	"(defn f [n] (probe 1) (cond (== n 0) 0 (+ 1 (f (- n 1))))) (f 0) (f 3) (f 40)",
	"(defn f [n] (probe 1) (cond (== n 0) 1 (and (f (- n 1)) n))) (f 0) (f 3) (f 40)",
	"(defn f [n] (probe 1) (cond (== n 0) nil (or (f (- n 1)) n))) (f 0) (f 3) (f 40)",
	"(defn f [n] (probe 1) (cond (== n 0) true (cond (f (- n 1)) false true))) (f 0) (f 3) (f 4)",
	"(defn f [n] (probe 1) (def r 0) (cond (== n 0) 0 (begin (for [(def i 0) (< i 2) (set i (+ i 1))] (set r (+ r (f (- n 1))))) (+ r 1)))) (f 0) (f 1) (f 3)",
	// a self call inside a for body inside the function is an ordinary call; the one after the loop is a tail call
	"+space (defn f [n a] (probe 1) (cond (== n 0) a (begin (for [(def i 0) (< i 2) (set i (+ i 1))] (set a (+ a i))) (f (- n 1) a)))) (f 0 0) (f 5 0) (f 500 0)",
	// mutual recursion is not a self call
	"(defn ev [n] (probe 1) (cond (== n 0) true (od (- n 1)))) (defn od [n] (probe 2) (cond (== n 0) false (ev (- n 1)))) (ev 0) (ev 7) (ev 40)",
	// an inner function of the same name is its own self
	"+space (defn g [n] (defn f [m b] (probe 1) (cond (== m 0) b (f (- m 1) (+ b 1)))) (+ 0 (f n 0))) (g 0) (g 5) (g 500)",
	// anonymous function bound by def: the name is not the function's own name, ordinary calls
	"(def f (fn [n a] (probe 1) (cond (== n 0) a (f (- n 1) (+ a n))))) (f 0 0) (f 3 0) (f 40 0)",
	// variadic
	"+space (defn f [n & r] (probe 1) (cond (== n 0) r (f (- n 1) n 7))) (f 0) (f 1) (f 2 5 5 5) (f 300)",
	"+space (defn f [n & r] (probe 1) (cond (== n 0) r (f (- n 1)))) (f 0 1 2) (f 3 1 2) (f 300)",
	// lazy parameters in the tail sequence (PushLazyArg): never forced / forced at the end / forced every iteration
	"+space (defn lz [n #x] (probe 1) (cond (== n 0) 0 (lz (- n 1) (trace n)))) (lz 0 (trace 9)) (lz 3 (trace 9)) (lz 200 (trace 9))",
	"+space (defn lz [n #x] (probe 1) (cond (== n 0) (force #x) (lz (- n 1) (+ n 100)))) (lz 0 (trace 9)) (lz 3 (trace 9)) (lz 200 (trace 9))",
	"+space (defn lz [n a #x] (probe 1) (cond (== n 0) a (lz (- n 1) (+ a (force #x)) (trace n)))) (lz 0 0 (trace 9)) (lz 3 0 (trace 9)) (lz 50 0 (trace 9))",
	// the name is rebound while the function recurses (fix C09-02)
	"(defn g [] (set f 7)) (defn f [n] (cond (== n 0) 0 (begin (g) (f (- n 1))))) (f 2)",
	"(defn h [n] n) (defn g [] (set f h)) (defn f [n] (cond (== n 0) 100 (begin (g) (f (- n 1))))) (f 2)",
	"(defn h [n] (+ n 1000)) (defn f [n] (cond (== n 0) 100 (f (begin (set f h) (- n 1))))) (def al f) (al 2) (f 5)",
	// called through an alias after the name got a new definition
	"(defn f [n a] (cond (== n 0) a (f (- n 1) (+ a n)))) (def al f) (defn f [n a] (+ 999 a)) (al 3 0) (al 0 4)",
	"(defn f [n a] (cond (== n 0) a (f (- n 1) (+ a n)))) (def al f) (def f 5) (al 0 1) (al 3 0)",
	// zero operands: a non-function value of the name is its own value
	"(defn f [] (cond (== c 0) 1 (begin (set c 0) (g) (f)))) (defn g [] (set f 7)) (def c 1) (f)",
	// recursion through the name captured with the closure: still the running function, constant space;
	// a global of the same name does not matter
	"+space (defn mkf [] (defn f [n a] (probe 1) (cond (== n 0) a (f (- n 1) (+ a n)))) f) (def f1 (mkf)) (def f2 (mkf)) (f1 0 0) (f1 5 0) (def f f2) (f1 300 0) (f 300 0)",
	// another closure of the same template bound to the name: its own captured variable is used from then on
	"(defn mk [d] (fn [n a] (cond (== n 0) (+ a d) (begin (set f other) (f (- n 1) (+ a n)))))) (def f (mk 1)) (def other (mk 100)) (f 3 0)",
	// effects before the tail call, closures see per-iteration values of set locals
	"+space (def g 0) (defn f [n] (probe 1) (set g (+ g n)) (cond (== n 0) g (f (- n 1)))) (f 0) (f 4) g (f 1000) g",
}

// wrong-arity self tail calls that fail on the unrepaired tree too (stack underflow): an error either way
var tailArityErr = []string{
	"(defn g [a b] (cond (> a 0) (g 0) (+ a b))) (g 1 2) (+ 100 (g 1 2))",
	"(defn g [a & r] (cond (> a 0) (g) a)) (g 1)",
	"(defn g [a & r] (cond (> a 0) (g 0 1 2) (len r))) (g 1) (g 0)",
}

// Inputs on which earlier trees broke C09 (repaired in /repo by 5554b40 and c9a2ccf).
var tailRepaired = []string{
	// the tail flag leaked into non-tail positions of a form that is itself in tail position
	"(defn f [n] (let [a (cond (== n 0) 0 (f (- n 1)))] (+ a 1))) (f 0) (f 3)",
	"(defn f [n] (letseq [a (cond (== n 0) 0 (f (- n 1)))] (+ a 1))) (f 0) (f 3)",
	"(defn f [n] (cond (== n 0) 0 [(f (- n 1))])) (f 0) (f 2)",
	"+space (defn f [n] (probe 1) (let [a (def b 1)] (cond (== n 0) 0 (f (- n 1))))) (f 0) (f 3) (f 50)",
	// arity of a self tail call
	"+w5 +f20000 (defn g [a] (cond (> a 0) (g 0 7) a)) (g 1)",
}

// Inputs on which the current tree breaks C09 (notes/C09.known.json, keyed by op line; each is
// repaired by a proposed fix). `+t<i>=<j>`: text i and its unoptimised twin j must agree.
var tailKnown = []string{
	// C09-01: the target of an assignment is compiled with the tail flag of the assignment
	"+t4=3 (defn f [n] (cond (== n 0) 0 (set (f (- n 1)) 5))) (def ff (fn [n] (cond (== n 0) 0 (set (ff (- n 1)) 5)))) (ff 0) (ff 2) (f 2)",
}

func tailFixedOp(s string) string {
	var flags, rest []string
	toks := strings.Fields(s)
	i := 0
	for ; i < len(toks) && strings.HasPrefix(toks[i], "+"); i++ {
		flags = append(flags, toks[i])
	}
	body := strings.Join(toks[i:], " ")
	// split top-level forms into texts
	depth, start := 0, 0
	for j, c := range body {
		switch c {
		case '(', '[':
			depth++
		case ')', ']':
			depth--
		case ' ':
			if depth == 0 {
				if j > start {
					rest = append(rest, tailTilde(body[start:j]))
				}
				start = j + 1
			}
		}
	}
	if start < len(body) {
		rest = append(rest, tailTilde(body[start:]))
	}
	for _, r := range rest {
		if strings.Count(r, "(") != strings.Count(r, ")") || strings.Count(r, "[") != strings.Count(r, "]") {
			panic("unbalanced fixed op: " + s)
		}
	}
	return strings.Join(append(flags, rest...), " ")
}

func tailGen(g *Gen) {
	for _, s := range tailFixed {
		g.Emit("%s", tailFixedOp(s))
		g.Count("fixed")
	}
	for _, s := range tailArityErr {
		g.Emit("%s", tailFixedOp(s))
		g.Count("fixed")
	}
	for _, s := range tailRepaired {
		g.Emit("%s", tailFixedOp(s))
		g.Count("fixed (repaired earlier)")
	}
	for _, s := range tailKnown {
		g.Emit("%s", tailFixedOp(s))
		g.Count("fixed known-defect")
	}
	t := &tailgen{g: g}
	deep := depthsTailQuick
	nAcc, nDeep, nNon, nCol, nVar, nTr, nReb := 70, 4, 50, 16, 16, 30, 60
	if g.Thorough() {
		deep = depthsTailThorough
		nAcc, nDeep, nNon, nCol, nVar, nTr, nReb = 1000, 10, 500, 120, 120, 250, 600
	}
	// every tail context alone and every ordered pair of tail contexts, at moderate depths
	for _, c := range tailCtxs {
		t.probe, t.nloc, t.eff, t.acc = 1, 0, false, "a"
		x := t.wrap(c, "(f (- n 1) (+ a n))")
		defs := fmt.Sprintf("(defn f [n a] (probe 1) (cond (== n 0) a %s))", x)
		g.Count("context " + c.kind)
		t.emit(tailshape{name: "single tail context", defs: defs, call: func(n int64) string { return fmt.Sprintf("(f %d 0)", n) },
			closed: func(n int64) string { return fmt.Sprint(tailSumTo(n)) }, space: true, depths: depthsTailMid})
	}
	for _, c := range nonTailCtxs {
		t.probe, t.nloc, t.eff, t.acc = 1, 0, false, "a"
		x := t.wrap(c, "(f (- n 1) (+ a n))")
		defs := fmt.Sprintf("(defn f [n a] (probe 1) (cond (== n 0) a %s))", x)
		g.Count("context " + c.kind)
		t.emit(tailshape{name: "single non-tail context", defs: defs, call: func(n int64) string { return fmt.Sprintf("(f %d 0)", n) },
			space: false, depths: depthsNonTail})
	}
	for _, c1 := range tailCtxs {
		for _, c2 := range tailCtxs {
			if !g.Thorough() && g.Rng.Intn(3) != 0 {
				continue
			}
			t.probe, t.nloc, t.eff, t.acc = 1, 0, false, "a"
			x := t.wrap(c2, t.wrap(c1, "(f (- n 1) (+ a n))"))
			defs := fmt.Sprintf("(defn f [n a] (probe 1) (cond (== n 0) a %s))", x)
			g.Count("context pair")
			t.emit(tailshape{name: "pair of tail contexts", defs: defs, call: func(n int64) string { return fmt.Sprintf("(f %d 0)", n) },
				closed: func(n int64) string { return fmt.Sprint(tailSumTo(n)) }, space: true, depths: depthsTailMid})
		}
	}
	for i := 0; i < nAcc; i++ {
		t.emit(t.accumulator(t.rnd(5), t.rnd(3), false, depthsTailMid))
	}
	for i := 0; i < nDeep; i++ {
		t.emit(t.accumulator(1+t.rnd(5), t.rnd(3), false, deep))
	}
	for i := 0; i < nNon; i++ {
		t.emit(t.accumulator(1+t.rnd(4), t.rnd(2), true, depthsNonTail))
	}
	for i := 0; i < nCol; i++ {
		t.emit(t.collector(t.rnd(4)))
	}
	for i := 0; i < nVar; i++ {
		d := depthsTailMid
		if i%8 == 0 {
			d = deep
		}
		t.emit(t.variadic(t.rnd(4), d))
	}
	for i := 0; i < nTr; i++ {
		t.emit(t.traced(t.rnd(4)))
	}
	for i := 0; i < nReb; i++ {
		t.emit(t.rebound(t.rnd(3)))
	}
}
