package main

// Channels lex and parse (C13; the front-end model is reused by C01, C06, C12).
//
//   lex H=<codes> R=<codes>
//       fresh lexer; the runes of H are fed (stopping at the first error), then Lexer.Reset;
//       then the runes of R one by one. Answer: the short state after every rune of R
//       (state.prevrune.preBuiltinRune.priori.linenum.#tokens.escDigits.escValue.escByte;buffer), `!<errkind>` in front of
//       the state at which a rune was refused (feeding stops there), and finally the complete
//       state (ring, token queue, prevToken, prevPrevToken, stream counts).
//   parse p H=<hist> C=<chunks>
//       one interpreter. hist = `-` or `/`-separated entries `w:<codes>` (whole text:
//       ResetAddNewInput, end of input, ParseTokens) or `a:<codes>` (a piece that is parsed and
//       then abandoned: ResetAddNewInput, ParseTokens). Then the text under test arrives in
//       pieces (`/`-separated code lists): piece 1 with ResetAddNewInput, later ones with
//       NewInput, ParseTokens after each, finally the end of input is signalled and
//       ParseTokens runs once more. Answer: `<statuses> | <expressions>` with one status
//       letter per ParseTokens call (d done, m more input needed, e error; nothing after an e)
//       and the expression list returned by the last call, printed canonically.
//   parse ev <codes>
//       EvalString of a text made of self-evaluating literals on a fresh interpreter:
//       canonical value, `nil` for no value, `err`.
//   parse h …, parse ei …
//       histories of failed/abandoned parses x reset routes: see ch_parsehist.go
// Strings cross the line as dot-separated decimal code points, `-` = empty.

import (
	"strconv"
	"strings"

	"github.com/glycerine/zygomys/v9/zygo"
)

func codesToString(s string) (string, bool) {
	if s == "-" {
		return "", true
	}
	var b strings.Builder
	for _, t := range strings.Split(s, ".") {
		n, err := strconv.Atoi(t)
		if err != nil || n < 0 || n > 0x10ffff || (n >= 0xd800 && n <= 0xdfff) {
			return "", false
		}
		b.WriteRune(rune(n))
	}
	return b.String(), true
}

func stringToCodes(s string) string { return zygo.VerifCodes(s) }

func lexErrKind(err error) string {
	m := err.Error()
	switch {
	case strings.HasPrefix(m, "Unrecognized atom"):
		return "atom"
	case strings.HasPrefix(m, "invalid escape"):
		return "escape"
	case strings.HasPrefix(m, "Unexpected backtick"):
		return "u-backtick"
	case strings.HasPrefix(m, "Unexpected quote"):
		return "u-quote"
	case strings.HasPrefix(m, "Unexpected single quote"):
		return "u-squote"
	case strings.HasPrefix(m, "Unexpected % quote"):
		return "u-pct"
	case strings.HasPrefix(m, "Unexpected ^ caret"):
		return "u-caret"
	case strings.HasPrefix(m, "Unexpected tilde"):
		return "u-tilde"
	case strings.HasPrefix(m, "not a char literal"):
		return "char"
	}
	return "other"
}

func execLex(toks []string) string {
	if len(toks) != 2 || !strings.HasPrefix(toks[0], "H=") || !strings.HasPrefix(toks[1], "R=") {
		return "bad-op"
	}
	h, ok1 := codesToString(toks[0][2:])
	r, ok2 := codesToString(toks[1][2:])
	if !ok1 || !ok2 {
		return "bad-op"
	}
	lx := sharedEnv().NewParser().VerifLexer()
	for _, c := range h {
		if lx.VerifStep(c) != nil {
			break
		}
	}
	lx.Reset()
	var out []string
	for _, c := range r {
		if err := lx.VerifStep(c); err != nil {
			out = append(out, "!"+lexErrKind(err)+" "+lx.VerifShort())
			break
		}
		out = append(out, lx.VerifShort())
	}
	out = append(out, "| "+lx.VerifFull())
	return strings.Join(out, " ")
}

func parseStatus(err error) string {
	if err == nil {
		return "d"
	}
	if err == zygo.ErrMoreInputNeeded {
		return "m"
	}
	return "e"
}

func canonList(xs []zygo.Sexp) string {
	if len(xs) == 0 {
		return "-"
	}
	var out []string
	for _, x := range xs {
		out = append(out, zygo.VerifCanon(x))
	}
	return strings.Join(out, " ")
}

func execParse(toks []string) string {
	if len(toks) > 0 && toks[0] == "h" {
		return execParseHist(toks)
	}
	if len(toks) > 0 && toks[0] == "ei" {
		return execEvalHist(toks)
	}
	if len(toks) == 2 && toks[0] == "ev" {
		txt, ok := codesToString(toks[1])
		if !ok {
			return "bad-op"
		}
		env := zygo.NewZlisp()
		defer env.Close()
		v, err := env.EvalString(txt)
		if err != nil {
			return "err"
		}
		if v == nil || v == zygo.SexpNull {
			return "nil"
		}
		return zygo.VerifCanon(v)
	}
	if len(toks) != 3 || toks[0] != "p" || !strings.HasPrefix(toks[1], "H=") || !strings.HasPrefix(toks[2], "C=") {
		return "bad-op"
	}
	// a fresh parser (with its own lexer) per op; the interpreter behind it only interns symbols
	p := sharedEnv().NewParser()
	if hs := toks[1][2:]; hs != "-" {
		for _, e := range strings.Split(hs, "/") {
			if len(e) < 3 || e[1] != ':' {
				return "bad-op"
			}
			txt, ok := codesToString(e[2:])
			if !ok {
				return "bad-op"
			}
			p.ResetAddNewInput(zygo.VerifStream(txt))
			switch e[0] {
			case 'w':
				p.VerifEndInput()
			case 'a':
			default:
				return "bad-op"
			}
			p.ParseTokens()
		}
	}
	var status []string
	var last []zygo.Sexp
	chunks := strings.Split(toks[2][2:], "/")
	failed := false
	for i, c := range chunks {
		txt, ok := codesToString(c)
		if !ok {
			return "bad-op"
		}
		if i == 0 {
			p.ResetAddNewInput(zygo.VerifStream(txt))
		} else {
			p.NewInput(zygo.VerifStream(txt))
		}
		xs, err := p.ParseTokens()
		last = xs
		st := parseStatus(err)
		status = append(status, st)
		if st == "e" {
			failed = true
			break
		}
	}
	if !failed {
		p.VerifEndInput()
		xs, err := p.ParseTokens()
		last = xs
		status = append(status, parseStatus(err))
	}
	return strings.Join(status, "") + " | " + canonList(last)
}

var theEnv *zygo.Zlisp

func sharedEnv() *zygo.Zlisp {
	if theEnv == nil {
		theEnv = zygo.NewZlisp()
	}
	return theEnv
}

func init() {
	channels["lex"] = &Channel{Gen: genLex, Exec: execLex}
	channels["parse"] = &Channel{Gen: genParse, Exec: execParse}
}
