package main

// Channel tail (C09): the `eval` protocol (a history of program texts against ONE
// interpreter, see ch_eval.go) plus a second host function
//
//	(probe <site>)   records "P<site>:<data>/<scope>/<addr>" — the sizes of the data, scope
//	                 and address stacks while the host function runs — in the trace; returns nil
//
//	tail [+m<k>] [+r<k>] [+e<i>=<value>] [+w<sec>] <text0> <text1> ...
//
// `+` tokens are instructions for the driver and the judge (how many leading texts the VM
// model / the reference evaluator are asked to run, closed-form values of texts beyond the
// reference evaluator's fuel); the real code only reads `+w` (wall-clock watchdog, seconds).
// Answer per text: `<class> <value> T[<trace>] D[<data>,<scope>,<addr>,<loop>]` as in
// channel eval, with the trace run-length encoded (`<entry>*<count>` for a run of equal
// entries): a tail-recursive function of depth 10^6 probes 10^6 times.

import (
	"fmt"
	"strconv"
	"strings"
	"time"

	"github.com/glycerine/zygomys/v9/zygo"
)

const tailCallBudget = 200000000

func tailRLE(trace []string) string {
	var out []string
	for i := 0; i < len(trace); {
		j := i
		for j < len(trace) && trace[j] == trace[i] {
			j++
		}
		if j-i > 1 {
			out = append(out, fmt.Sprintf("%s*%d", trace[i], j-i))
		} else {
			out = append(out, trace[i])
		}
		i = j
	}
	return strings.Join(out, ",")
}

func tailExec(toks []string) string {
	wall := 20
	var texts []string
	for _, t := range toks {
		if strings.HasPrefix(t, "+") {
			if strings.HasPrefix(t, "+w") {
				if n, err := strconv.Atoi(t[2:]); err == nil && n > 0 {
					wall = n
				}
			}
			continue
		}
		texts = append(texts, t)
	}
	done := make(chan string, 1)
	go func() {
		defer func() {
			if r := recover(); r != nil {
				done <- "HOSTPANIC " + strings.ReplaceAll(fmt.Sprint(r), "\n", " ")
			}
		}()
		done <- tailExecInner(texts)
	}()
	select {
	case r := <-done:
		return r
	case <-time.After(time.Duration(wall) * time.Second):
		return "hang"
	}
}

func tailExecInner(texts []string) string {
	env := zygo.NewZlisp()
	defer env.Close()
	var trace []string
	env.AddFunction("trace", func(env *zygo.Zlisp, name string, args []zygo.Sexp) (zygo.Sexp, error) {
		if len(args) == 0 {
			trace = append(trace, "nil")
			return zygo.SexpNull, nil
		}
		trace = append(trace, evalCanon(args[0], evalPrintDepth))
		return args[0], nil
	})
	env.AddFunction("probe", func(env *zygo.Zlisp, name string, args []zygo.Sexp) (zygo.Sexp, error) {
		site := "nil"
		if len(args) > 0 {
			site = evalCanon(args[0], evalPrintDepth)
		}
		d, s, a, _ := env.VerifDepths()
		trace = append(trace, fmt.Sprintf("P%s:%d/%d/%d", site, d, s, a))
		return zygo.SexpNull, nil
	})
	calls := 0
	timedOut := false
	env.AddPreHook(func(env *zygo.Zlisp, name string, args []zygo.Sexp) {
		calls++
		if calls > tailCallBudget {
			timedOut = true
			panic(evalTimeout{})
		}
	})
	var out []string
	dead := false
	for _, t := range texts {
		if dead {
			out = append(out, "dead")
			continue
		}
		text := strings.ReplaceAll(t, "~", " ") + "\n"
		trace = nil
		calls = 0
		class, val := "ok", "-"
		func() {
			defer func() {
				if r := recover(); r != nil {
					if _, isT := r.(evalTimeout); isT {
						class = "timeout"
					} else {
						class = "panic"
					}
					val = "-"
				}
			}()
			if err := env.LoadString(text); err != nil {
				class = "cerr"
				return
			}
			res, err := env.Run()
			if err != nil {
				class = "err"
				return
			}
			val = evalCanon(res, evalPrintDepth)
		}()
		if timedOut {
			class = "timeout"
		}
		if class == "panic" || class == "timeout" {
			dead = true
			out = append(out, fmt.Sprintf("%s - T[%s] D[-]", class, tailRLE(trace)))
			continue
		}
		d, s, a, l := env.VerifDepths()
		out = append(out, fmt.Sprintf("%s %s T[%s] D[%d,%d,%d,%d]", class, val, tailRLE(trace), d, s, a, l))
	}
	return strings.Join(out, " ;; ")
}

func init() { channels["tail"] = &Channel{Gen: tailGen, Exec: tailExec} }
