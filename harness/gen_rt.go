package main

// Generators of channel rt (C12). Structured by the types the property names; every value is
// emitted as a `p` op (printed text, impl vs model) and an `r` op (read back, impl vs spec vs
// model); JSON-like values additionally as `e` ops. Exhaustive small scopes first (so the
// shortest failing op is small): every code point of the first planes and every IsPrint
// transition point as a character and as a one-character string, integer and float boundary
// grids, every numeric spelling up to a length bound over a reduced alphabet. A malformed
// stream (strings that are not UTF-8, invalid code points, symbols no reader produces) is
// compared between implementation and model only.

import (
	"fmt"
	"math"
	"strconv"
	"strings"
	"unicode/utf8"
)

type rgen struct{ g *Gen }

func (r rgen) pick(xs []string) string { return xs[r.g.Rng.Intn(len(xs))] }

func rtStrTok(s string) string { return "s " + encBytes([]byte(s)) }
func rtSymTok(s string) string { return "y " + encBytes([]byte(s)) }
func rtCharTok(c rune) string { return fmt.Sprintf("c %d", c) }
func rtIntTok(n int64) string { return fmt.Sprintf("i %d", n) }

func rtFloatTok(f float64, sci bool) string {
	fm, t := byte('f'), "d"
	if sci {
		fm, t = 'e', "e"
	}
	return fmt.Sprintf("%s %x %s", t, math.Float64bits(f), encBytes([]byte(strconv.FormatFloat(f, fm, -1, 64))))
}

func (r rgen) emitV(kind, v string) {
	r.g.Count("value:" + kind)
	r.g.Emit("p %s", v)
	r.g.Emit("r %s", v)
}

func (r rgen) emitJ(kind, v string) {
	r.g.Count("jsonlike:" + kind)
	r.g.Emit("p %s", v)
	r.g.Emit("e %s", v)
}

// code points at which strconv.IsPrint changes, with their neighbours
func isPrintTransitions() []rune {
	var out []rune
	prev := strconv.IsPrint(0)
	for c := rune(1); c <= 0x10ffff; c++ {
		p := strconv.IsPrint(c)
		if p != prev {
			out = append(out, c-1, c)
		}
		prev = p
	}
	return out
}

func validScalar(c rune) bool { return c >= 0 && c <= 0x10ffff && !(c >= 0xd800 && c <= 0xdfff) }

var rtSpecialStrings = []string{
	"", "a", "abc", "hello world", "\"", "\\", "'", "`", "#", "\\n", "a\"b\\c'd", "\\\"", "%", "~", "^", "(", ")", "[1 2]", "{a:1}",
	"\n", "\r", "\t", "\a", "\b", "\f", "\v", "\x00", "\x01", "\x1b", "\x1f", "\x7f", "a\nb\tc", "\r\n", " ", "  ", "a b",
	"\u0080", "\u0085", "\u00a0", "\u00ad", "\u00e9", "\u00ff", "caf\u00e9", "\u0378", "\u200b", "\u2028", "\u2029", "\ufeff", "\ufffd", "\ufffe", "\uffff",
	"\ud7ff", "\ue000", "\u4e2d\u6587", "\U00010000", "\U0001F600", "\U000E0001", "\U0010FFFF", "\U0002FA1D", "\U00030000", "a\U0001F600b",
	"\\x41", "\\u00e9", "\\U0001F600", "\\a", "x\\", "\\'", "//", "/*", "*/", ";", ",", ":", "a:", "1", "-1", "1.5", "nil", "true", "Inf", "NaN",
}

var rtBadStrings = []string{"\xff", "\x80", "\xc0\x80", "\xc3", "\xe2\x82", "\xed\xa0\x80", "\xf4\x90\x80\x80", "\xf8\x88\x80\x80\x80", "a\xffb", "\xc3\xa9\xc3", "\xfe\xff", "a\x80\"\\"}

func (r rgen) randRune() rune {
	g := r.g
	switch g.Rng.Intn(9) {
	case 0:
		return rune(g.Rng.Intn(0x20))
	case 1:
		return rune(0x20 + g.Rng.Intn(0x60))
	case 2:
		return rune(0x80 + g.Rng.Intn(0x780))
	case 3:
		c := rune(0x800 + g.Rng.Intn(0xF800))
		if c >= 0xd800 && c <= 0xdfff {
			c = 0xfffd
		}
		return c
	case 4:
		return rune(0x10000 + g.Rng.Intn(0x100000))
	case 5:
		return []rune{'"', '\\', '\'', '`', '#', 0x7f, 0x85, 0xa0, 0xad, 0x2028, 0xfffd, 0xd7ff, 0xe000, 0xffff, 0x10000, 0xe0001, 0x10ffff}[g.Rng.Intn(17)]
	case 6:
		return []rune{'\a', '\b', '\f', '\n', '\r', '\t', '\v', 0, 0x1b}[g.Rng.Intn(9)]
	default:
		return rune('a' + g.Rng.Intn(26))
	}
}

func (r rgen) randString() (string, string) {
	g := r.g
	switch g.Rng.Intn(10) {
	case 0, 1, 2:
		return r.pick(rtSpecialStrings), "str-special"
	case 3:
		return r.pick(rtSpecialStrings) + r.pick(rtSpecialStrings), "str-special-pair"
	default:
		n := 1 + g.Rng.Intn(8)
		var sb strings.Builder
		for i := 0; i < n; i++ {
			sb.WriteRune(r.randRune())
		}
		return sb.String(), "str-random-unicode"
	}
}

var rtInts = []int64{0, 1, -1, 2, 7, 9, 10, -10, 99, 100, 255, 256, 1000, -1000, 65535, 65536, 1 << 31, -(1 << 31), 1<<31 - 1, 1<<32 - 1, 1 << 32,
	1 << 53, 1<<53 + 1, -(1<<53 + 1), math.MaxInt64, math.MaxInt64 - 1, math.MinInt64, math.MinInt64 + 1,
	1000000000000000000, -1000000000000000000, 1234567890123456789, -987654321098765432}

func (r rgen) intGrid() []int64 {
	out := append([]int64{}, rtInts...)
	for k := uint(0); k < 63; k++ {
		p := int64(1) << k
		out = append(out, p, p-1, p+1, -p, -p-1, -p+1)
	}
	p := int64(1)
	for k := 0; k < 18; k++ {
		p *= 10
		out = append(out, p, p-1, -p, -p+1)
	}
	return out
}

// floats over all magnitudes: every binade, powers of ten, decimal fractions, results of
// arithmetic, whole numbers beyond 2^53, the limits, ±0, ±Inf, NaN
func (r rgen) floatGrid(dense bool) []float64 {
	out := []float64{0, math.Copysign(0, -1), 1, -1, 0.5, -0.5, 1.5, 2, -2, 3, 10, 100, 0.1, 0.2, 0.1 + 0.2, 0.30000000000000004, 1.0 / 3.0, 2.0 / 3.0, 1e-7, 2.5e-7,
		1e20, 1e21, 1e22, 1e23, 1e100, 1e300, -1e300, math.MaxFloat64, -math.MaxFloat64, math.SmallestNonzeroFloat64, -math.SmallestNonzeroFloat64,
		2.2250738585072014e-308, 2.225073858507201e-308, 9007199254740992, 9007199254740993, 9007199254740994, 1152921504606847232,
		9223372036854775807, 9223372036854775808, -9223372036854775808, -9223372036854777856, 18446744073709551616, 123456789012345680,
		math.Pi, math.E, math.Sqrt2, 1e15, 1e16, 1e17, 123456.789e3, 5e-324, 1.7976931348623157e308, 4.9406564584124654e-324, 0.000001, 0.0000001,
		math.Inf(1), math.Inf(-1), math.NaN(), 1e10 * 1e12, 1.0 * 1e100, 7.0 / 1e5, 255.0 / 256.0, 100 * 1.1, 3 * 0.1}
	step := 16
	if dense {
		step = 1
	}
	for e := -1074; e <= 1023; e += step {
		x := math.Ldexp(1, e)
		out = append(out, x, -x, math.Nextafter(x, math.Inf(1)), math.Nextafter(x, 0))
	}
	pstep := 7
	if dense {
		pstep = 1
	}
	for p := -323; p <= 308; p += pstep {
		x, _ := strconv.ParseFloat("1e"+strconv.Itoa(p), 64)
		out = append(out, x, x*3, x/3)
	}
	for i := 0; i < 40; i++ {
		out = append(out, float64(i)/8, float64(i)*0.1, float64(i)*1e19)
	}
	return out
}

func (r rgen) randFloat() float64 {
	g := r.g
	switch g.Rng.Intn(6) {
	case 0:
		return math.Float64frombits(g.Rng.Uint64())
	case 1:
		return float64(g.Rng.Int63n(2000)-1000) / 8
	case 2:
		return float64(g.Rng.Int63()) // whole, often beyond 2^53
	case 3:
		return g.Rng.NormFloat64() * math.Pow(10, float64(g.Rng.Intn(600)-300))
	case 4:
		return float64(g.Rng.Intn(100)) * 0.1 * float64(g.Rng.Intn(100)) // arithmetic result
	default:
		return float64(g.Rng.Intn(1000000)) / 1000
	}
}

// symbol names the reader itself produces as plain symbols
var rtSymNames = []string{"a", "b", "foo", "x1", "hello", "a_b", "camelCase", "\u03bb", "d\u00e9fi", "\u540d\u524d", "+", "-", "*", "<=", ">=", "==", "!=", "<", ">", "=", "!", "->", "++", "**",
	"$", "a.b", "a.b.c", ".x", "#a", "?q", "and", "or", "quote", "hash", "def", "is?", "/"}

// names no reader produces (malformed stream)
var rtOddSymNames = []string{"", "a b", "x!", "a/b", "//x", "(", "1a", "a-b", "nil", "true", "Inf", "NaN", "a:", ":", "\"", "'", "a;b", "a\nb", "~x", "%x", "a,b", "&", "\\", "1", "-1", "1.5", "0x10"}

func (r rgen) scalar() (string, string) {
	g := r.g
	switch g.Rng.Intn(12) {
	case 0:
		return "n", "nil"
	case 1:
		return []string{"t", "f"}[g.Rng.Intn(2)], "bool"
	case 2, 3:
		gr := r.intGrid()
		if g.Rng.Intn(2) == 0 {
			return rtIntTok(gr[g.Rng.Intn(len(gr))]), "int-grid"
		}
		return rtIntTok(int64(g.Rng.Uint64())), "int-random"
	case 4, 5:
		f := r.randFloat()
		if g.Rng.Intn(3) == 0 {
			fg := r.floatGrid(false)
			f = fg[g.Rng.Intn(len(fg))]
		}
		return rtFloatTok(f, g.Rng.Intn(4) == 0), "float"
	case 6:
		c := r.randRune()
		return rtCharTok(c), "char"
	case 7, 8:
		s, k := r.randString()
		return rtStrTok(s), k
	case 9:
		return rtSymTok(r.pick(rtSymNames)), "symbol"
	case 10:
		return fmt.Sprintf("u %d", g.Rng.Uint64()>>uint(g.Rng.Intn(64))), "uint64"
	default:
		return rtIntTok(int64(g.Rng.Intn(200) - 100)), "int-small"
	}
}

// nested data value: lists (also dotted), arrays, scalars
func (r rgen) value(depth int, budget *int) string {
	g := r.g
	*budget--
	if depth <= 0 || *budget <= 0 || g.Rng.Intn(3) == 0 {
		v, k := r.scalar()
		g.Count("leaf:" + k)
		return v
	}
	n := g.Rng.Intn(5)
	var parts []string
	for i := 0; i < n; i++ {
		parts = append(parts, r.value(depth-1, budget))
	}
	switch g.Rng.Intn(5) {
	case 0, 1:
		g.Count("node:list")
		if n == 0 {
			return "n"
		}
		return fmt.Sprintf("l %d %s", n, strings.Join(parts, " "))
	case 2:
		g.Count("node:dotted")
		if n == 0 {
			return "n"
		}
		// the tail of a dotted pair is an atom that is not nil (a nil tail is a proper list)
		tail, _ := r.scalar()
		for tail == "n" {
			tail, _ = r.scalar()
		}
		return fmt.Sprintf("p %d %s %s", n, strings.Join(parts, " "), tail)
	default:
		g.Count("node:array")
		if n == 0 {
			return "a 0"
		}
		return fmt.Sprintf("a %d %s", n, strings.Join(parts, " "))
	}
}

// JSON-like value: numbers, strings, booleans, nil, arrays, hashes (keys: symbols or strings)
func (r rgen) jsonlike(depth int, budget *int) string {
	g := r.g
	*budget--
	if depth <= 0 || *budget <= 0 || g.Rng.Intn(3) == 0 {
		switch g.Rng.Intn(7) {
		case 0:
			return "n"
		case 1:
			return []string{"t", "f"}[g.Rng.Intn(2)]
		case 2:
			gr := r.intGrid()
			return rtIntTok(gr[g.Rng.Intn(len(gr))])
		case 3:
			f := r.randFloat()
			for math.IsNaN(f) {
				f = r.randFloat()
			}
			return rtFloatTok(f, g.Rng.Intn(4) == 0)
		default:
			s, _ := r.randString()
			return rtStrTok(s)
		}
	}
	n := g.Rng.Intn(5)
	if g.Rng.Intn(2) == 0 {
		var parts []string
		for i := 0; i < n; i++ {
			parts = append(parts, r.jsonlike(depth-1, budget))
		}
		if n == 0 {
			return "a 0"
		}
		return fmt.Sprintf("a %d %s", n, strings.Join(parts, " "))
	}
	seen := map[string]bool{}
	var parts []string
	for i := 0; i < n; i++ {
		var k string
		if g.Rng.Intn(2) == 0 {
			k = rtSymTok(r.pick([]string{"a", "b", "c", "name", "x1", "Key", "\u03bb", "zKeyOrder", "Atype", "id", "val"}))
		} else {
			s, _ := r.randString()
			k = rtStrTok(s)
		}
		if seen[k] {
			continue
		}
		seen[k] = true
		parts = append(parts, k, r.jsonlike(depth-1, budget))
	}
	return fmt.Sprintf("h %d %s", len(parts)/2, strings.Join(parts, " ")) // "h 0 " trimmed by Fields
}

// ---------------------------------------------------------------- literal spellings

var rtLitAlphabet = []byte("-+0179abefEFxoUL_.")
var rtLitFirst = []byte("-+0179.")

func (r rgen) emitLit(kind, s string) {
	r.g.Count("literal:" + kind)
	c := stringToCodes(s)
	r.g.Emit("l %s", c)
	r.g.Emit("j %s", c)
}

func (r rgen) enumSpellings(maxLen int) {
	var rec func(prefix []byte)
	rec = func(prefix []byte) {
		if len(prefix) > 0 {
			r.emitLit(fmt.Sprintf("enum-len%d", len(prefix)), string(prefix))
		}
		if len(prefix) == maxLen {
			return
		}
		alpha := rtLitAlphabet
		if len(prefix) == 0 {
			alpha = rtLitFirst
		}
		for _, c := range alpha {
			rec(append(prefix, c))
		}
	}
	rec(nil)
}

var rtLitHand = []string{
	"0", "-0", "7", "-7", "007", "1_000", "-1_000", "1_000_000", "1__0", "1_", "_1", "1_000_", "9223372036854775807", "9223372036854775808", "-9223372036854775808", "-9223372036854775809",
	"18446744073709551615", "99999999999999999999", "0x0", "0x10", "0xff", "0xFF", "0xfF", "0x7fffffffffffffff", "0x8000000000000000", "0xffffffffffffffff", "0x10000000000000000", "-0x10", "+0x10", "0x", "0xg",
	"0o0", "0o17", "0o777777777777777777777", "0o1000000000000000000000", "0o8", "-0o17", "0b0", "0b101", "0b2", "-0b1", "0b" + strings.Repeat("1", 63), "0b" + strings.Repeat("1", 64),
	"0ULL", "1ULL", "255ULL", "18446744073709551615ULL", "18446744073709551616ULL", "0xffULL", "0xffffffffffffffffULL", "0x10000000000000000ULL", "0o17ULL", "0o1777777777777777777777ULL", "0o2000000000000000000000ULL",
	"ffULL", "0b1ULL", "-1ULL", "1UL", "1ull", "1_0ULL",
	"1.5", "-1.5", "0.5", "-0.5", ".5", "-.5", "+.5", "5.", "-5.", "1.", "0.1", "0.2", "0.30000000000000004", "3.141592653589793", "1.0", "2.0", "100.0", "-0.0", "0.0", "00.5", "1_0.5", "1.5_0", "1_.5", "1._5", "1.5_",
	"1e3", "1E3", "1e+3", "1e-3", "-1e3", "1.5e3", "1.5e-3", "1.e3", ".5e3", "1e", "1e+", "e3", "1e3.5", "1e1_0", "1_0e1", "1e_1", "1e400", "-1e400", "1e-400", "1e308", "1.7976931348623157e308", "1.7976931348623159e308", "1.8e308",
	"5e-324", "4.9406564584124654e-324", "2.4703282292062327e-324", "2.4703282292062328e-324", "2.2250738585072014e-308", "2.2250738585072011e-308", "9007199254740993.0", "9007199254740992.5", "9007199254740993.5",
	"123456789012345678901234567890.0", "0.000000000000000000000000000001", "1e0", "1e00", "1e-0", "0e0", "0e999", "0.0e-999", "1e999999", "1e-999999", "1e9999999999",
	"Inf", "inf", "+Inf", "-Inf", "+inf", "-inf", "INF", "Infinity", "NaN", "nan", "-NaN", "+NaN", "NAN",
	"1i", "1.5i", "1/2", "1-1", "1+1", "--1", "-+1", "+-1", "1.2.3", "1..2", "..1", "-", "+", ".", "-.", "1x", "0xx1", "0x1x", "0o", "0b",
}

func (r rgen) randDigits(n int, alpha string) string {
	b := make([]byte, n)
	for i := range b {
		b[i] = alpha[r.g.Rng.Intn(len(alpha))]
	}
	return string(b)
}

func (r rgen) randLiteral() (string, string) {
	g := r.g
	sign := []string{"", "", "-", "-", "+"}[g.Rng.Intn(5)]
	switch g.Rng.Intn(9) {
	case 0:
		return sign + r.randDigits(1+g.Rng.Intn(20), "0123456789"), "rand-decimal"
	case 1:
		return sign + r.randDigits(1, "0123456789") + r.randDigits(g.Rng.Intn(12), "0123456789_"), "rand-decimal-underscore"
	case 2:
		return sign + "0x" + r.randDigits(1+g.Rng.Intn(17), "0123456789abcdefABCDEF"), "rand-hex"
	case 3:
		return sign + "0o" + r.randDigits(1+g.Rng.Intn(23), "01234567"), "rand-oct"
	case 4:
		return sign + "0b" + r.randDigits(1+g.Rng.Intn(66), "01"), "rand-bin"
	case 5:
		pre := []string{"", "0x", "0o"}[g.Rng.Intn(3)]
		al := map[string]string{"": "0123456789", "0x": "0123456789abcdefABCDEF", "0o": "01234567"}[pre]
		return pre + r.randDigits(1+g.Rng.Intn(22), al) + "ULL", "rand-uint64"
	case 6:
		return sign + r.randDigits(1+g.Rng.Intn(20), "0123456789") + "." + r.randDigits(g.Rng.Intn(20), "0123456789"), "rand-fraction"
	case 7:
		m := r.randDigits(1+g.Rng.Intn(18), "0123456789")
		if g.Rng.Intn(2) == 0 {
			m += "." + r.randDigits(g.Rng.Intn(18), "0123456789")
		}
		e := []string{"e", "E"}[g.Rng.Intn(2)] + []string{"", "+", "-"}[g.Rng.Intn(3)] + strconv.Itoa(g.Rng.Intn(340))
		return sign + m + e, "rand-exponent"
	default:
		// a float written by the standard library in full precision, re-spelled
		f := r.randFloat()
		for math.IsNaN(f) || math.IsInf(f, 0) {
			f = r.randFloat()
		}
		return strconv.FormatFloat(f, []byte("feg")[g.Rng.Intn(3)], -1+g.Rng.Intn(2)*(1+g.Rng.Intn(25)), 64), "rand-formatted-float"
	}
}

// hand-written string and character literal spellings (op k): (text)
var rtLitTexts = []string{
	"'a'", "'\u00e9'", "'\u4e16'", "'\U0001f600'", "'\\n'", "'\\t'", "'\\r'", "'\\a'", "'\\b'", "'\\f'", "'\\v'", "'\\\\'", "'\\''", "'\"'", "'\\\"'", "'#'", "'\\#'", "' '", "'\\x41'", "'\\x7f'", "'\\x00'", "'\\xff'", "'\\u00e9'", "'\\u4e16'", "'\\U0001F600'", "'\\ud800'", "'\\U00110000'", "'\\x4'", "'\\u00e'", "'\\q'", "'ab'", "''", "'\\x411'", "\"abc\"", "\"\"", "\"\u00e9\u4e16\U0001f600\"", "\"a\\nb\"", "\"a\\tb\\r\\a\\b\\f\\v\"", "\"\\\\\"", "\"\\\"\"", "\"\\'\"", "\"'\"", "\"\\#\"", "\"#\"", "\"\\x41\\x42\"", "\"\\x00\"", "\"\\x7f\"", "\"\\u00e9\\u4e16\"", "\"\\U0001F600x\"", "\"a\\u0041b\"", "\"\\xc3\\xa9\"", "\"\\xff\"", "\"\\ud800\"", "\"\\U00110000\"", "\"\\x4\"", "\"\\xg1\"", "\"\\q\"", "\"\\0\"", "\"\\101\"", "\"a\nb\"", "\"tab\there\"", "\"a b\"", "\"(a b)\"", "\"[1 2]\"", "\"a;b\"", "\"a//b\"", "\"a/*b*/c\"", "`raw`", "`a\\nb`", "`a\"b`", "``",
}

func rtGen(g *Gen) {
	r := rgen{g}
	// 1. characters and one-character strings: first planes exhaustively, IsPrint transitions
	limit := rune(0x300)
	if g.Thorough() {
		limit = 0x11000 // the whole BMP and the start of plane 1
	}
	emitCP := func(kind string, c rune) {
		if !validScalar(c) {
			return
		}
		r.emitV("char-"+kind, rtCharTok(c))
		r.emitV("str1-"+kind, rtStrTok(string(c)))
	}
	for c := rune(0); c < limit; c++ {
		emitCP("exhaustive", c)
	}
	tr := isPrintTransitions()
	for i, c := range tr {
		if c >= limit && (g.Thorough() || i%4 < 2) {
			emitCP("isprint-transition", c)
		}
	}
	for _, c := range []rune{0xd7ff, 0xe000, 0xfffd, 0xfffe, 0xffff, 0x10000, 0x1ffff, 0x20000, 0xe0001, 0xf0000, 0x10fffd, 0x10fffe, 0x10ffff} {
		emitCP("boundary", c)
	}
	nrand := 300
	if g.Thorough() {
		nrand = 100000
	}
	for i := 0; i < nrand; i++ {
		emitCP("random-plane", rune(g.Rng.Intn(0x110000)))
	}
	// 2. strings
	for _, s := range rtSpecialStrings {
		r.emitV("str-special", rtStrTok(s))
		if !strings.Contains(s, "`") {
			r.emitV("str-raw", "r "+encBytes([]byte(s)))
		}
	}
	nstr := 1500
	if g.Thorough() {
		nstr = 200000
	}
	for i := 0; i < nstr; i++ {
		s, k := r.randString()
		r.emitV(k, rtStrTok(s))
	}
	// 3. integers, uint64
	for _, n := range r.intGrid() {
		r.emitV("int-grid", rtIntTok(n))
	}
	nint := 500
	if g.Thorough() {
		nint = 20000
	}
	for i := 0; i < nint; i++ {
		r.emitV("int-random", rtIntTok(int64(g.Rng.Uint64())>>uint(g.Rng.Intn(64))))
	}
	for _, u := range []uint64{0, 1, 255, 1 << 32, 1<<63 - 1, 1 << 63, 1<<64 - 1, 1<<64 - 2, 10000000000000000000} {
		r.emitV("uint64-grid", fmt.Sprintf("u %d", u))
	}
	for i := 0; i < nint/5; i++ {
		r.emitV("uint64-random", fmt.Sprintf("u %d", g.Rng.Uint64()>>uint(g.Rng.Intn(64))))
	}
	// 4. floats
	for _, f := range r.floatGrid(g.Thorough()) {
		r.emitV("float-grid-f", rtFloatTok(f, false))
		r.emitV("float-grid-e", rtFloatTok(f, true))
	}
	nfl := 2000
	if g.Thorough() {
		nfl = 300000
	}
	for i := 0; i < nfl; i++ {
		f := r.randFloat()
		sci := g.Rng.Intn(3) == 0
		switch {
		case math.IsNaN(f):
			r.emitV("float-nan", rtFloatTok(f, sci))
		case f == math.Trunc(f) && !math.IsInf(f, 0):
			r.emitV("float-whole", rtFloatTok(f, sci))
		default:
			r.emitV("float-random", rtFloatTok(f, sci))
		}
	}
	// 5. atoms
	r.emitV("nil", "n")
	r.emitV("bool", "t")
	r.emitV("bool", "f")
	for _, s := range rtSymNames {
		r.emitV("symbol", rtSymTok(s))
	}
	// 6. structure: small shapes exhaustively, then random nesting
	atoms := []string{"i 1", "i -2", rtFloatTok(2, false), rtFloatTok(-0.5, false), rtStrTok("x"), rtStrTok("a\"b"), rtCharTok('c'), rtCharTok('\''), rtSymTok("s"), rtSymTok("-"), "t", "n", "a 0", "l 1 i 1", "a 1 i -1"}
	for _, a := range atoms {
		r.emitV("shape-list1", "l 1 "+a)
		r.emitV("shape-array1", "a 1 "+a)
		for _, b := range atoms {
			r.emitV("shape-list2", fmt.Sprintf("l 2 %s %s", a, b))
			r.emitV("shape-array2", fmt.Sprintf("a 2 %s %s", a, b))
			if b != "n" && !strings.HasPrefix(b, "l ") {
				// a dotted tail is an atom or an array (a list tail is the same value as a longer list)
				r.emitV("shape-dotted", fmt.Sprintf("p 1 %s %s", a, b))
			}
		}
	}
	// deep nesting
	for _, d := range []int{1, 2, 5, 20, 60} {
		v := "i 7"
		for i := 0; i < d; i++ {
			if i%2 == 0 {
				v = "l 2 " + rtSymTok("a") + " " + v
			} else {
				v = "a 2 " + v + " " + rtStrTok("z")
			}
		}
		r.emitV(fmt.Sprintf("deep-%d", d), v)
	}
	nval := 2500
	if g.Thorough() {
		nval = 250000
	}
	for i := 0; i < nval; i++ {
		budget := 4 + g.Rng.Intn(40)
		r.emitV("nested-random", r.value(1+g.Rng.Intn(6), &budget))
	}
	// 7. JSON-like values, evaluated
	for _, a := range []string{"n", "t", "f", "i 0", "i -5", rtFloatTok(2, false), rtFloatTok(1e100, false), rtFloatTok(1e-7, true), rtStrTok(""), rtStrTok("a\"b\\c"), rtStrTok("é\n"), "a 0", "h 0"} {
		r.emitJ("scalar", a)
		r.emitJ("array1", "a 1 "+a)
		r.emitJ("hash-symkey", fmt.Sprintf("h 1 %s %s", rtSymTok("k"), a))
		r.emitJ("hash-strkey", fmt.Sprintf("h 1 %s %s", rtStrTok("k"), a))
	}
	for _, k := range rtSpecialStrings {
		r.emitJ("hash-special-strkey", fmt.Sprintf("h 1 %s i 1", rtStrTok(k)))
	}
	njs := 1500
	if g.Thorough() {
		njs = 150000
	}
	for i := 0; i < njs; i++ {
		budget := 4 + g.Rng.Intn(30)
		r.emitJ("nested-random", strings.TrimSpace(r.jsonlike(1+g.Rng.Intn(5), &budget)))
	}
	// 8. malformed stream: impl vs model only
	for _, s := range rtBadStrings {
		r.emitV("malformed-str-not-utf8", rtStrTok(s))
	}
	for _, c := range []rune{-1, math.MinInt32, 0xd800, 0xdbff, 0xdfff, 0x110000, math.MaxInt32} {
		r.emitV("malformed-char-invalid", rtCharTok(c))
	}
	for _, s := range rtOddSymNames {
		r.emitV("malformed-symbol-unreadable", rtSymTok(s))
	}
	r.emitV("malformed-raw-with-backtick", "r "+encBytes([]byte("a`b")))
	nbad := 200
	if g.Thorough() {
		nbad = 5000
	}
	for i := 0; i < nbad; i++ {
		n := 1 + g.Rng.Intn(6)
		b := make([]byte, n)
		for j := range b {
			b[j] = byte(g.Rng.Intn(256))
		}
		if utf8.Valid(b) {
			r.emitV("str-random-bytes-valid", rtStrTok(string(b)))
		} else {
			r.emitV("malformed-str-not-utf8", rtStrTok(string(b)))
		}
	}
	// 9. literal spellings
	for _, s := range rtLitHand {
		r.emitLit("hand", s)
	}
	maxLen := 4
	if g.Thorough() {
		maxLen = 5
	}
	r.enumSpellings(maxLen)
	nlit := 3000
	if g.Thorough() {
		nlit = 300000
	}
	for i := 0; i < nlit; i++ {
		s, k := r.randLiteral()
		r.emitLit(k, s)
	}
	for _, s := range rtLitTexts {
		g.Count("literal:text-hand")
		g.Emit("k %s", stringToCodes(s))
	}
	rtGenHist(g)
}
