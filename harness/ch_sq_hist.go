package main

// Channel sq, sub-op h (C15, freshness): ONE template evaluated k times with the results of
// earlier evaluations mutated in place between evaluations.
//
//   sq h <route> <k> T… ; E…   -> ok <r1> // … // <rk> ;; <f1> // … // <fk> | err
//
// T and E as for `sq t` (ch_sq.go). r_i is the value of the i-th evaluation at the moment
// it is produced; f_i is the same object printed after all evaluations and mutations.
// After every evaluation each container (array, hash) that the template itself builds — one
// per array/hash sub-template, NOT the containers inside values of unquoted expressions,
// which are legitimately shared — is mutated in place, innermost first, through the real
// builtins: (aset c 0 <770+i>) for a non-empty array, (hset c zz <770+i>) for a hash.
// The property ("evaluates to exactly the template with …") has to hold for every
// evaluation, so every r_i must be the substitution and f_i the substitution mutated by
// its own marker only: template evaluation builds FRESH containers each time.
//
// route: tp  k separate top-level evaluations of (zzobs ^T) (re-read each time)
//        fn  (defn mk [] ^T), then k calls (zzobs (mk))
//        fl  the same function called from a for loop
//        lp  (for […k…] (def tmp ^T) (zzobs tmp))       the template compiled once, in a loop body
//        ca  (for […k…] (zzobs ^T))                     the template as a call argument
//        mc  (defmac mm [] ^T), then k times (zzobs (macexpand (mm)))
//        dr  the form (zzobs (syntaxQuote T)) built once through the Go API, loaded and run k times
//        df  (defn mk [] (syntaxQuote T)) built through the Go API, then k calls
// zzobs is a Go function registered for the op: it records its argument and mutates it.

import (
	"fmt"
	"strconv"
	"strings"

	"github.com/glycerine/zygomys/v9/zygo"
)

// harness-side substitution that marks the containers the template builds
func sqSubstMarked(t *sqv, vals []*sqv) ([]*sqv, bool) {
	switch t.kind {
	case 'U':
		if t.n >= len(vals) || vals[t.n] == nil {
			return nil, false
		}
		return []*sqv{vals[t.n]}, true
	case 'S':
		if t.n >= len(vals) || vals[t.n] == nil || vals[t.n].kind != '(' || vals[t.n].tail != nil {
			return nil, false
		}
		return vals[t.n].kids, true
	case '(', '[', '{':
		if t.tail != nil {
			return []*sqv{t}, true // a dotted pair is pushed as written
		}
		r := &sqv{kind: t.kind, name: t.name, fresh: true}
		for _, k := range t.kids {
			xs, ok := sqSubstMarked(k, vals)
			if !ok {
				return nil, false
			}
			r.kids = append(r.kids, xs...)
		}
		return []*sqv{r}, true
	}
	return []*sqv{t}, true
}

// walk the real value and the expected tree together; mutate the template-built containers
func sqMutWalk(env *zygo.Zlisp, x zygo.Sexp, e *sqv, marker int64) {
	switch e.kind {
	case '(':
		if e.tail != nil {
			return
		}
		for _, k := range e.kids {
			p, ok := x.(*zygo.SexpPair)
			if !ok {
				return
			}
			sqMutWalk(env, p.Head, k, marker)
			x = p.Tail
		}
	case '[':
		arr, ok := x.(*zygo.SexpArray)
		if !ok || len(arr.Val) != len(e.kids) {
			return
		}
		for i, k := range e.kids {
			sqMutWalk(env, arr.Val[i], k, marker)
		}
		if e.fresh && len(arr.Val) > 0 {
			zygo.ArrayAccessFunction("aset")(env, "aset", []zygo.Sexp{arr, &zygo.SexpInt{Val: 0}, &zygo.SexpInt{Val: marker}})
		}
	case '{':
		h, ok := x.(*zygo.SexpHash)
		if !ok {
			return
		}
		if 2*len(h.KeyOrder) == len(e.kids) {
			for i, key := range h.KeyOrder {
				if v, err := h.HashGet(nil, key); err == nil {
					sqMutWalk(env, v, e.kids[2*i+1], marker)
				}
			}
		}
		if e.fresh {
			zygo.HashAccessFunction("hset")(env, "hset", []zygo.Sexp{h, env.MakeSymbol("zz"), &zygo.SexpInt{Val: marker}})
		}
	}
}

func sqExecH(route string, k int, toks []string) string {
	tmpl, rest := sqSplit(toks)
	if tmpl == nil || k < 1 || k > 9 {
		return "bad-op"
	}
	var ex []sqExpr
	var vals []*sqv
	for i := 0; i < len(rest); {
		f := rest[i]
		i++
		if f == "c!" || f == "r!" {
			ex = append(ex, sqExpr{form: f})
			vals = append(vals, nil)
			continue
		}
		var v *sqv
		v, i = sqParse(rest, i)
		if v == nil {
			return "bad-op"
		}
		ex = append(ex, sqExpr{form: f, val: v})
		vals = append(vals, v)
	}
	env := zygo.NewZlisp()
	defer env.Close()
	for j, e := range ex {
		if e.form == "v" {
			x, err := e.val.sexp(env, nil)
			if err != nil {
				return "bad-op"
			}
			env.AddGlobal("z"+strconv.Itoa(j), x)
		}
	}
	var exp *sqv
	if tmpl.kind != 'S' {
		if xs, ok := sqSubstMarked(tmpl, vals); ok && len(xs) == 1 {
			exp = xs[0]
		}
	}
	var atEval []string
	var results []zygo.Sexp
	env.AddFunction("zzobs", func(e *zygo.Zlisp, name string, args []zygo.Sexp) (zygo.Sexp, error) {
		if len(args) != 1 {
			return zygo.SexpNull, fmt.Errorf("zzobs takes one argument")
		}
		v := args[0]
		if route == "mc" {
			p, ok := v.(*zygo.SexpPair)
			if !ok || p.Head.SexpString(nil) != "quote" {
				return zygo.SexpNull, fmt.Errorf("macexpand did not answer (quote . expansion)")
			}
			v = p.Tail
		}
		atEval = append(atEval, sqCanonStr(v))
		results = append(results, v)
		if exp != nil {
			sqMutWalk(e, v, exp, int64(770+len(results)))
		}
		return zygo.SexpNull, nil
	})
	T := "^" + tmpl.text(ex, false, "")
	loop := "(for [(def i 0) (< i " + strconv.Itoa(k) + ") (def i (+ i 1))] "
	evals := func(prog string, times int) error {
		for i := 0; i < times; i++ {
			if _, err := env.EvalString(prog + " "); err != nil {
				return err
			}
		}
		return nil
	}
	var err error
	switch route {
	case "tp":
		err = evals("(zzobs "+T+")", k)
	case "fn":
		if err = evals("(defn mk [] "+T+")", 1); err == nil {
			err = evals("(zzobs (mk))", k)
		}
	case "fl":
		err = evals("(defn mk [] "+T+") "+loop+"(zzobs (mk)))", 1)
	case "lp":
		err = evals(loop+"(def tmp "+T+") (zzobs tmp))", 1)
	case "ca":
		err = evals(loop+"(zzobs "+T+"))", 1)
	case "mc":
		if err = evals("(defmac mm [] "+T+")", 1); err == nil {
			err = evals("(zzobs (macexpand (mm)))", k)
		}
	case "dr", "df":
		t, e2 := tmpl.sexp(env, ex)
		if e2 != nil {
			return "err"
		}
		sq := zygo.MakeList([]zygo.Sexp{env.MakeSymbol("syntaxQuote"), t})
		if route == "dr" {
			form := zygo.MakeList([]zygo.Sexp{env.MakeSymbol("zzobs"), sq})
			for i := 0; i < k && err == nil; i++ {
				if err = env.LoadExpressions([]zygo.Sexp{form}); err == nil {
					_, err = env.Run()
				}
			}
		} else {
			defn := zygo.MakeList([]zygo.Sexp{env.MakeSymbol("defn"), env.MakeSymbol("mk"), &zygo.SexpArray{Val: []zygo.Sexp{}, Env: env}, sq})
			if err = env.LoadExpressions([]zygo.Sexp{defn}); err == nil {
				if _, err = env.Run(); err == nil {
					err = evals("(zzobs (mk))", k)
				}
			}
		}
	default:
		return "bad-op"
	}
	if err != nil {
		return "err"
	}
	if len(results) != k {
		return "err-observed:" + strconv.Itoa(len(results))
	}
	finals := make([]string, k)
	for i, r := range results {
		finals[i] = sqCanonStr(r)
	}
	return "ok " + strings.Join(atEval, " // ") + " ;; " + strings.Join(finals, " // ")
}

// ---- generator

var sqHistRoutes = []string{"tp", "fn", "fl", "lp", "ca", "mc", "dr", "df"}

// hash nodes of an expected result must have distinct atom keys (the driver's ordered-map
// constructor and the positional walk above assume it)
func sqHashesPlain(e *sqv) bool {
	if e.kind == '{' {
		if len(e.kids)%2 != 0 {
			return false
		}
		seen := map[string]bool{}
		for i := 0; i < len(e.kids); i += 2 {
			key := e.kids[i]
			if key.kind != 's' && key.kind != 'i' && key.kind != 'q' {
				return false
			}
			ks := key.String()
			if seen[ks] || ks == "s:zz" {
				return false
			}
			seen[ks] = true
		}
	}
	for _, k := range e.kids {
		if !sqHashesPlain(k) {
			return false
		}
	}
	return e.tail == nil || sqHashesPlain(e.tail)
}

func sqHasDotted(t *sqv) bool {
	if t.tail != nil {
		return true
	}
	for _, k := range t.kids {
		if sqHasDotted(k) {
			return true
		}
	}
	return false
}

func sqCountFresh(e *sqv) (n int) {
	if e.fresh && (e.kind == '[' || e.kind == '{') {
		n++
	}
	for _, k := range e.kids {
		n += sqCountFresh(k)
	}
	return
}

func sqHasUnq(t *sqv) bool {
	if t.kind == 'U' || t.kind == 'S' {
		return true
	}
	for _, k := range t.kids {
		if sqHasUnq(k) {
			return true
		}
	}
	return false
}

// containers of the template without any unquote below them (the ones an "it is a constant"
// shortcut would share between evaluations)
func sqCountConstContainers(t *sqv) (n int) {
	if (t.kind == '[' || t.kind == '{') && !sqHasUnq(t) {
		n++
	}
	for _, k := range t.kids {
		n += sqCountConstContainers(k)
	}
	return
}

func (s *sqGen) emitH(route string, k int, t *sqv) {
	var parts []string
	for _, e := range s.ex {
		if e.val == nil {
			parts = append(parts, e.form)
		} else {
			parts = append(parts, e.form, e.val.String())
		}
	}
	s.g.Emit("h %s %d %s ; %s", route, k, t.String(), strings.Join(parts, " "))
	s.g.Count("h/route-" + route)
	s.g.Count("h/evaluations-" + strconv.Itoa(k))
}

func sqGenHist(g *Gen) {
	more := g.Tier == "thorough-more"
	if !more {
		fixed := []string{
			"( U0 [ i:0 i:0 ] ) ; v s:a",               // ^(~tag [0 0])
			"( s:row U0 ( s:cells [ i:0 ] ) ) ; v i:1", // an unquote-free array two levels down
			"[ i:1 [ i:2 [ i:3 ] ] ] ; ",               // nested arrays, no unquote at all
			"[ U0 [ i:2 ] [ U0 ] ] ; v i:5",            // constant array next to one with an unquote
			"( s:a [ ] [ S0 ] ) ; v ( i:1 i:2 )",       // empty array; spliced array
			"[ U0 ] ; v [ i:1 i:2 ]",                   // the VALUE is an array: shared, never mutated here
			"( [ i:1 ] . s:b ) ; ",                     // dotted pair: pushed as written
			"[ ( s:a [ i:1 ] ) ( s:a [ i:1 ] ) ] ; ",   // two equal constant sub-templates
			"( s:list U0 [ q:str i:1 ] ) ; p i:4",
		}
		for _, f := range fixed {
			for _, r := range sqHistRoutes {
				for _, k := range []int{2, 3} {
					if k == 3 && r != "fn" && r != "lp" {
						continue
					}
					g.Emit("h %s %d %s", r, k, f)
					g.Count("h/fixed")
					g.Count("h/route-" + r)
				}
			}
		}
		// hash values as templates exist through the Go API only
		for _, f := range []string{
			"{ hash s:k0 [ i:1 ] s:k1 U0 } ; v i:5",
			"[ { hash s:k0 i:1 } { hash } ] ; ",
			"{ hash s:k0 { hash s:k1 [ i:0 ] } } ; ",
			"( s:a { hash s:k0 S0 } [ i:0 ] ) ; v ( i:1 s:b i:2 )",
		} {
			for _, r := range []string{"dr", "df"} {
				g.Emit("h %s 2 %s", r, f)
				g.Count("h/fixed")
				g.Count("h/route-" + r)
			}
		}
	}
	n := 700
	if g.Thorough() || more {
		n = 12000
	}
	for i := 0; i < n; i++ {
		route := sqHistRoutes[g.Rng.Intn(len(sqHistRoutes))]
		mode := "sv"
		if route == "dr" || route == "df" {
			mode = "dr"
		}
		var s *sqGen
		var t *sqv
		for try := 0; ; try++ {
			s = &sqGen{g: g}
			depth := 1 + g.Rng.Intn(3)
			t = &sqv{kind: []byte{'(', '[', '['}[g.Rng.Intn(3)]}
			nk := 1 + g.Rng.Intn(4)
			for j := 0; j < nk; j++ {
				if g.Rng.Intn(3) == 0 {
					// an unquote-free array: the shape a constant-folding shortcut would share
					a := &sqv{kind: '['}
					for m := g.Rng.Intn(3); m >= 0; m-- {
						a.kids = append(a.kids, s.atom())
					}
					t.kids = append(t.kids, a)
				} else {
					t.kids = append(t.kids, s.tmpl(depth-1, mode, true, false))
				}
			}
			if t.kind == '(' && len(t.kids) == 2 && t.kids[0].kind == 's' && (t.kids[0].name == "unquote" || t.kids[0].name == "unquote-splicing") {
				t.kids = append(t.kids, s.atom())
			}
			vals := make([]*sqv, len(s.ex))
			for j, e := range s.ex {
				vals[j] = e.val
			}
			xs, ok := sqSubstMarked(t, vals)
			// (dotted pairs are pushed as written, the spec is silent about them: only the fixed case above has one)
			if ok && len(xs) == 1 && !sqHasDotted(t) && sqHashesPlain(xs[0]) && (sqCountFresh(xs[0]) > 0 || try > 20) {
				g.Count(fmt.Sprintf("h/template-built-containers-%d", minInt(sqCountFresh(xs[0]), 6)))
				g.Count(fmt.Sprintf("h/unquote-free-containers-%d", minInt(sqCountConstContainers(t), 4)))
				break
			}
		}
		k := 2 + g.Rng.Intn(2)
		s.emitH(route, k, t)
	}
}

func minInt(a, b int) int {
	if a < b {
		return a
	}
	return b
}
