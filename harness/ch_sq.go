package main

// Channel sq (C15): syntax-quote templates and macro expansion on the real interpreter.
//
//   sq t <mode> <wrap> T… ; E…        -> ok <value> d=<operands left> | err
//   sq m <site> <nparams> T… ; A…     -> x <expansion> <eq|ne> <dep=ok|dep=…> | err
//   sq c <mode> n T… ; E…             -> the instructions the template compiled to (not run):
//        P <value> | M | G <sym> | X | Q | V | H <type>, joined by " , "   | err
//        (P push, M push marker, G variable lookup, X explode, Q squash, V vectorize, H hashize;
//        every expression is a plain variable so that it compiles to one G)
//
// T (template, prefix tokens): s:<sym> | i:<int> | q:<letters> (a string) | U<k> | S<k>
//     | ( T* ) | ( T+ . T ) (dotted pair) | [ T* ] | { <type> (T T)* }
//   U<k>/S<k> = unquote / unquote-splicing of expression k.
// E (one entry per expression k, in order): <form> V   with V a value in the same grammar, or `c!` / `r!`
//   forms: v  a global z<k> bound to V          q  (quote V)
//          p  (+ n-1 1)       (V = i:n)         l  (list (quote x)…)  (V a list)
//          a  [n m …]         (V an array of ints: an array literal, so sugar is ~[…])
//          c! (let)  — does not compile          r! an unbound symbol — run-time error
// mode: sv  text, reader sugar  ^T ~e ~@e       lg  text, (syntaxQuote T) (unquote e), ~@e
//       sh  as sv, and a list (hash k v …) with symbol keys is written {k: v …} (the reader
//           turns the braces back into that list)
//       dr  the form is built through the Go API and run with EvalExpressions (the only way a
//           hash *value* can be a template: the reader turns {…} into the list (hash …))
// wrap: n  the template alone                   w  (list 7 <template> 8): operands below it
//
// m: (defmac mm [p0 … p<n-1>] ^T) with U<k>/S<k> naming parameter k; A = the argument forms.
//   site: top | fn | let | loop | mac.  The answer holds (1) the expansion reported by
//   (macexpand (mm A…)), (2) whether the call site evaluates to the same value as the same
//   site with the expansion written out by hand (harness-side substitution, independent of
//   the interpreter), (3) whether the caller's four stack depths are the same before and
//   after compiling the call (expansion happens then) and the data stack is empty after the run.
//
// Every op runs on a fresh interpreter.

import (
	"fmt"
	"strconv"
	"strings"

	"github.com/glycerine/zygomys/v9/zygo"
)

type sqv struct {
	kind byte // 's' 'i' '(' '[' '{' 'U' 'S'
	name string
	n    int
	kids []*sqv
	tail *sqv // '(' only: the tail of a dotted pair
	// fresh: in an expected result (ch_sq_hist.go), a container built by the template itself
	// (not part of the value of an unquoted expression)
	fresh bool
}

func (v *sqv) tokens(out *[]string) {
	switch v.kind {
	case 's':
		*out = append(*out, "s:"+v.name)
	case 'i':
		*out = append(*out, "i:"+strconv.Itoa(v.n))
	case 'q':
		*out = append(*out, "q:"+v.name)
	case 'U', 'S':
		*out = append(*out, string(v.kind)+strconv.Itoa(v.n))
	case '(':
		*out = append(*out, "(")
		for _, k := range v.kids {
			k.tokens(out)
		}
		if v.tail != nil {
			*out = append(*out, ".")
			v.tail.tokens(out)
		}
		*out = append(*out, ")")
	case '[':
		*out = append(*out, "[")
		for _, k := range v.kids {
			k.tokens(out)
		}
		*out = append(*out, "]")
	case '{':
		*out = append(*out, "{", v.name)
		for _, k := range v.kids {
			k.tokens(out)
		}
		*out = append(*out, "}")
	}
}

func (v *sqv) String() string {
	var t []string
	v.tokens(&t)
	return strings.Join(t, " ")
}

// parse one value/template from toks[i:]; returns it and the next index, or nil.
func sqParse(toks []string, i int) (*sqv, int) {
	if i >= len(toks) {
		return nil, i
	}
	t := toks[i]
	switch {
	case strings.HasPrefix(t, "s:"):
		return &sqv{kind: 's', name: t[2:]}, i + 1
	case strings.HasPrefix(t, "q:"):
		return &sqv{kind: 'q', name: t[2:]}, i + 1
	case strings.HasPrefix(t, "i:"):
		n, err := strconv.Atoi(t[2:])
		if err != nil {
			return nil, i
		}
		return &sqv{kind: 'i', n: n}, i + 1
	case len(t) > 1 && (t[0] == 'U' || t[0] == 'S'):
		n, err := strconv.Atoi(t[1:])
		if err != nil {
			return nil, i
		}
		return &sqv{kind: t[0], n: n}, i + 1
	case t == "(" || t == "[" || t == "{":
		closer := map[string]string{"(": ")", "[": "]", "{": "}"}[t]
		v := &sqv{kind: t[0]}
		i++
		if t == "{" {
			if i >= len(toks) {
				return nil, i
			}
			v.name = toks[i]
			i++
		}
		for i < len(toks) && toks[i] != closer {
			var k *sqv
			if toks[i] == "." && t == "(" && len(v.kids) > 0 {
				k, i = sqParse(toks, i+1)
				if k == nil || i >= len(toks) || toks[i] != closer {
					return nil, i
				}
				v.tail = k
				break
			}
			k, i = sqParse(toks, i)
			if k == nil {
				return nil, i
			}
			v.kids = append(v.kids, k)
		}
		if i >= len(toks) {
			return nil, i
		}
		return v, i + 1
	}
	return nil, i
}

type sqExpr struct {
	form string
	val  *sqv
}

// ---- rendering as program text

func (v *sqv) isHashForm() bool {
	if v.kind != '(' || v.tail != nil || len(v.kids) < 3 || len(v.kids)%2 != 1 || v.kids[0].kind != 's' || v.kids[0].name != "hash" {
		return false
	}
	for i := 1; i < len(v.kids); i += 2 {
		if v.kids[i].kind != 's' {
			return false
		}
	}
	return true
}

var sqBraces = false // mode sh: write (hash k v …) as {k: v …}

func (v *sqv) text(ex []sqExpr, longhand bool, param string) string {
	switch v.kind {
	case 's':
		return v.name
	case 'q':
		return strconv.Quote(v.name)
	case 'i':
		return strconv.Itoa(v.n)
	case 'U':
		if longhand {
			return "(unquote " + sqExprText(ex, v.n, param) + ")"
		}
		return "~" + sqExprText(ex, v.n, param)
	case 'S':
		return "~@" + sqExprText(ex, v.n, param)
	case '(', '[':
		parts := make([]string, len(v.kids))
		for i, k := range v.kids {
			parts[i] = k.text(ex, longhand, param)
		}
		if v.kind == '(' {
			if sqBraces && v.isHashForm() {
				b := []string{}
				for i := 1; i < len(parts); i += 2 {
					b = append(b, parts[i]+": "+parts[i+1])
				}
				return "{" + strings.Join(b, " ") + "}"
			}
			if v.tail != nil {
				return "(" + strings.Join(parts, " ") + " \\ " + v.tail.text(ex, longhand, param) + ")"
			}
			return "(" + strings.Join(parts, " ") + ")"
		}
		return "[" + strings.Join(parts, " ") + "]"
	}
	return "<untextable>"
}

func sqExprText(ex []sqExpr, k int, param string) string {
	if param != "" {
		return param + strconv.Itoa(k)
	}
	if k >= len(ex) {
		return "zmissing"
	}
	e := ex[k]
	switch e.form {
	case "v":
		return "z" + strconv.Itoa(k)
	case "q":
		return "(quote " + e.val.text(nil, false, "") + ")"
	case "p":
		return "(+ " + strconv.Itoa(e.val.n-1) + " 1)"
	case "l":
		parts := []string{"list"}
		for _, x := range e.val.kids {
			parts = append(parts, "(quote "+x.text(nil, false, "")+")")
		}
		return "(" + strings.Join(parts, " ") + ")"
	case "a":
		parts := []string{}
		for _, x := range e.val.kids {
			parts = append(parts, strconv.Itoa(x.n))
		}
		return "[" + strings.Join(parts, " ") + "]"
	case "c!":
		return "(let)"
	case "r!":
		return "zundef" + strconv.Itoa(k)
	}
	return "zbadform"
}

// ---- building Go values

func (v *sqv) sexp(env *zygo.Zlisp, ex []sqExpr) (zygo.Sexp, error) {
	switch v.kind {
	case 's':
		return env.MakeSymbol(v.name), nil
	case 'i':
		return &zygo.SexpInt{Val: int64(v.n)}, nil
	case 'q':
		return &zygo.SexpStr{S: v.name}, nil
	case 'U':
		return zygo.MakeList([]zygo.Sexp{env.MakeSymbol("unquote"), sqExprSexp(env, ex, v.n)}), nil
	case 'S':
		return zygo.MakeList([]zygo.Sexp{env.MakeSymbol("unquote-splicing"), sqExprSexp(env, ex, v.n)}), nil
	case '(', '[', '{':
		kids := make([]zygo.Sexp, len(v.kids))
		for i, k := range v.kids {
			x, err := k.sexp(env, ex)
			if err != nil {
				return nil, err
			}
			kids[i] = x
		}
		switch v.kind {
		case '(':
			if v.tail != nil {
				tl, err := v.tail.sexp(env, ex)
				if err != nil {
					return nil, err
				}
				for i := len(kids) - 1; i >= 0; i-- {
					tl = zygo.Cons(kids[i], tl)
				}
				return tl, nil
			}
			return zygo.MakeList(kids), nil
		case '[':
			return &zygo.SexpArray{Val: kids, Env: env}, nil
		}
		return zygo.MakeHash(kids, v.name, env)
	}
	return nil, fmt.Errorf("bad value")
}

func sqExprSexp(env *zygo.Zlisp, ex []sqExpr, k int) zygo.Sexp {
	if k >= len(ex) {
		return env.MakeSymbol("zmissing")
	}
	e := ex[k]
	q := func(v *sqv) zygo.Sexp {
		x, _ := v.sexp(env, nil)
		return zygo.MakeList([]zygo.Sexp{env.MakeSymbol("quote"), x})
	}
	switch e.form {
	case "v":
		return env.MakeSymbol("z" + strconv.Itoa(k))
	case "q":
		return q(e.val)
	case "p":
		return zygo.MakeList([]zygo.Sexp{env.MakeSymbol("+"), &zygo.SexpInt{Val: int64(e.val.n - 1)}, &zygo.SexpInt{Val: 1}})
	case "l":
		parts := []zygo.Sexp{env.MakeSymbol("list")}
		for _, x := range e.val.kids {
			parts = append(parts, q(x))
		}
		return zygo.MakeList(parts)
	case "a":
		x, _ := e.val.sexp(env, nil)
		return x
	case "c!":
		return zygo.MakeList([]zygo.Sexp{env.MakeSymbol("let")})
	}
	return env.MakeSymbol("zundef" + strconv.Itoa(k))
}

// ---- canonical printing of real values

func sqCanon(x zygo.Sexp, out *[]string) {
	switch t := x.(type) {
	case *zygo.SexpSymbol:
		*out = append(*out, "s:"+t.SexpString(nil))
	case *zygo.SexpInt:
		*out = append(*out, "i:"+strconv.FormatInt(t.Val, 10))
	case *zygo.SexpStr:
		*out = append(*out, "q:"+t.S)
	case *zygo.SexpPair:
		*out = append(*out, "(")
		var cur zygo.Sexp = t
		for {
			p, ok := cur.(*zygo.SexpPair)
			if !ok {
				break
			}
			sqCanon(p.Head, out)
			cur = p.Tail
		}
		if cur != zygo.SexpNull {
			*out = append(*out, ".")
			sqCanon(cur, out)
		}
		*out = append(*out, ")")
	case *zygo.SexpArray:
		*out = append(*out, "[")
		for _, e := range t.Val {
			sqCanon(e, out)
		}
		*out = append(*out, "]")
	case *zygo.SexpHash:
		*out = append(*out, "{", t.TypeName)
		for _, k := range t.KeyOrder {
			sqCanon(k, out)
			v, err := t.HashGet(nil, k)
			if err != nil {
				*out = append(*out, "missing!")
			} else {
				sqCanon(v, out)
			}
		}
		*out = append(*out, "}")
	default:
		if x == zygo.SexpNull {
			*out = append(*out, "(", ")")
		} else if x == zygo.SexpMarker {
			*out = append(*out, "MARKER")
		} else {
			// anything else (functions, stack marks …): digits (generated names) blanked
			t := strings.ReplaceAll(x.SexpString(nil), " ", "_")
			t = strings.Map(func(r rune) rune {
				if r >= '0' && r <= '9' {
					return '#'
				}
				return r
			}, t)
			*out = append(*out, "other:"+t)
		}
	}
}

func sqCanonStr(x zygo.Sexp) string {
	var t []string
	sqCanon(x, &t)
	return strings.Join(t, " ")
}

// ---- exec

func sqSplit(toks []string) (tmpl *sqv, rest []string) {
	for i, t := range toks {
		if t == ";" {
			v, n := sqParse(toks[:i], 0)
			if v == nil || n != i {
				return nil, nil
			}
			return v, toks[i+1:]
		}
	}
	return nil, nil
}

// the interpreter prints diagnostics ("alert: did not find SexpStackmark …") on stdout: keep
// them out of the answer stream (`quiet`, ch_togo.go)
func sqExec(toks []string) (ans string) {
	quiet(func() { ans = sqExec1(toks) })
	return
}

func sqExec1(toks []string) string {
	if len(toks) < 4 {
		return "bad-op"
	}
	switch toks[0] {
	case "t":
		return sqExecT(toks[1], toks[2], toks[3:], false)
	case "c":
		return sqExecT(toks[1], toks[2], toks[3:], true)
	case "m":
		n, err := strconv.Atoi(toks[2])
		if err != nil {
			return "bad-op"
		}
		return sqExecM(toks[1], n, toks[3:])
	case "h":
		n, err := strconv.Atoi(toks[2])
		if err != nil {
			return "bad-op"
		}
		return sqExecH(toks[1], n, toks[3:])
	case "k", "kc":
		return sqExecK(toks)
	}
	return "bad-op"
}

func sqExecT(mode, wrap string, toks []string, listing bool) string {
	tmpl, rest := sqSplit(toks)
	if tmpl == nil {
		return "bad-op"
	}
	var ex []sqExpr
	for i := 0; i < len(rest); {
		f := rest[i]
		i++
		if f == "c!" || f == "r!" {
			ex = append(ex, sqExpr{form: f})
			continue
		}
		var v *sqv
		v, i = sqParse(rest, i)
		if v == nil {
			return "bad-op"
		}
		ex = append(ex, sqExpr{form: f, val: v})
	}
	env := zygo.NewZlisp()
	defer env.Close()
	for k, e := range ex {
		if e.form == "v" {
			x, err := e.val.sexp(env, nil)
			if err != nil {
				return "bad-op"
			}
			env.AddGlobal("z"+strconv.Itoa(k), x)
		}
	}
	var res zygo.Sexp
	var err error
	run := func() (zygo.Sexp, error) { return env.Run() }
	if listing {
		// compile only; answer with the code
		run = func() (zygo.Sexp, error) { return zygo.SexpNull, nil }
	}
	switch mode {
	case "sv", "lg", "sh":
		var prog string
		sqBraces = mode == "sh"
		defer func() { sqBraces = false }()
		if mode != "lg" {
			prog = "^" + tmpl.text(ex, false, "")
		} else {
			prog = "(syntaxQuote " + tmpl.text(ex, true, "") + ")"
		}
		if wrap == "w" {
			prog = "(list 7 " + prog + " 8)"
		}
		if err = env.LoadString(prog + " "); err == nil {
			res, err = run()
		}
	case "dr":
		t, e2 := tmpl.sexp(env, ex)
		if e2 != nil {
			return "bad-op"
		}
		form := zygo.MakeList([]zygo.Sexp{env.MakeSymbol("syntaxQuote"), t})
		if wrap == "w" {
			form = zygo.MakeList([]zygo.Sexp{env.MakeSymbol("list"), &zygo.SexpInt{Val: 7}, form, &zygo.SexpInt{Val: 8}})
		}
		if err = env.LoadExpressions([]zygo.Sexp{form}); err == nil {
			res, err = run()
		}
	default:
		return "bad-op"
	}
	if err != nil {
		return "err"
	}
	if listing {
		var parts []string
		for _, in := range env.VerifMainListing() {
			switch in.Kind {
			case "push":
				parts = append(parts, "P "+sqCanonStr(in.Expr))
			case "marker":
				parts = append(parts, "M")
			case "get":
				parts = append(parts, "G "+in.Name)
			case "explode":
				parts = append(parts, "X")
			case "squash":
				parts = append(parts, "Q")
			case "vectorize":
				parts = append(parts, "V")
			case "hashize":
				parts = append(parts, "H "+in.Name)
			default:
				parts = append(parts, "other:"+strings.ReplaceAll(in.Name, " ", "_"))
			}
		}
		return "code " + strings.Join(parts, " , ")
	}
	d, _, _, _ := env.VerifDepths()
	return "ok " + sqCanonStr(res) + " d=" + strconv.Itoa(d)
}

// harness-side substitution (for the hand-written expansion): parameters k -> argument forms
func sqSubst(t *sqv, args []*sqv) ([]*sqv, bool) {
	switch t.kind {
	case 'U':
		if t.n >= len(args) {
			return nil, false
		}
		return []*sqv{args[t.n]}, true
	case 'S':
		if t.n >= len(args) || args[t.n].kind != '(' {
			return nil, false
		}
		return args[t.n].kids, true
	case '(', '[', '{':
		r := &sqv{kind: t.kind, name: t.name}
		for _, k := range t.kids {
			xs, ok := sqSubst(k, args)
			if !ok {
				return nil, false
			}
			r.kids = append(r.kids, xs...)
		}
		return []*sqv{r}, true
	}
	return []*sqv{t}, true
}

func sqSite(site, call string, nparams int) (defs string, prog string) {
	switch site {
	case "top":
		return "(def a 3) (def b 4)", call
	case "fn":
		return "(def a 3) (def b 4) (defn ff [a b] " + call + ")", "(ff 30 40)"
	case "let":
		return "(def a 3) (def b 4)", "(let [a 30 b 40] " + call + ")"
	case "loop":
		return "(def b 4) (def r 0)", "(for [(def a 0) (< a 2) (def a (+ a 1))] (set r " + call + ")) r"
	}
	return "", ""
}

func sqRun(defs, prog string) (val string, ok bool, dep string) {
	env := zygo.NewZlisp()
	defer env.Close()
	if defs != "" {
		if _, err := env.EvalString(defs + " "); err != nil {
			return "defs-failed", false, "dep=na"
		}
	}
	d0, s0, a0, l0 := env.VerifDepths()
	if err := env.LoadString(prog + " "); err != nil {
		return "err", false, "dep=na"
	}
	d1, s1, a1, l1 := env.VerifDepths()
	dep = "dep=ok"
	if d0 != d1 || s0 != s1 || a0 != a1 || l0 != l1 {
		dep = fmt.Sprintf("dep=compile:%d.%d.%d.%d>%d.%d.%d.%d", d0, s0, a0, l0, d1, s1, a1, l1)
	}
	res, err := env.Run()
	if err != nil {
		return "err", false, dep
	}
	d2, s2, a2, l2 := env.VerifDepths()
	if dep == "dep=ok" && (d2 != 0 || s2 != s0 || a2 != a0 || l2 != l0) {
		dep = fmt.Sprintf("dep=run:%d.%d.%d.%d", d2, s2, a2, l2)
	}
	return sqCanonStr(res), true, dep
}

func sqExecM(site string, nparams int, toks []string) string {
	tmpl, rest := sqSplit(toks)
	if tmpl == nil {
		return "bad-op"
	}
	var args []*sqv
	for i := 0; i < len(rest); {
		var v *sqv
		v, i = sqParse(rest, i)
		if v == nil {
			return "bad-op"
		}
		args = append(args, v)
	}
	params := make([]string, nparams)
	for i := range params {
		params[i] = "p" + strconv.Itoa(i)
	}
	argText := make([]string, len(args)) // a wrong number of arguments is a legal op: an error
	for i := range args {
		argText[i] = args[i].text(nil, false, "")
	}
	defmac := "(defmac mm [" + strings.Join(params, " ") + "] ^" + tmpl.text(nil, false, "p") + ")"
	call := strings.TrimSpace("(mm " + strings.Join(argText, " ") + ")")
	macdefs := defmac
	outer := call
	if site == "mac" {
		qs := make([]string, len(args))
		us := make([]string, len(args))
		for i := range qs {
			qs[i] = "q" + strconv.Itoa(i)
			us[i] = "~q" + strconv.Itoa(i)
		}
		macdefs += " (defmac m2 [" + strings.Join(qs, " ") + "] ^" + strings.TrimSpace("(mm "+strings.Join(us, " ")+")") + ")"
		outer = strings.TrimSpace("(m2 " + strings.Join(argText, " ") + ")")
		site = "top"
	}

	// (1) the expansion as macexpand reports it: (quote . expansion)
	env := zygo.NewZlisp()
	defer env.Close()
	if _, err := env.EvalString(macdefs + " "); err != nil {
		return "err"
	}
	ex, err := env.EvalString("(macexpand " + call + ") ")
	if err != nil {
		// no expansion: the call itself must fail as well
		defs, prog := sqSite(site, outer, nparams)
		if v, ok, _ := sqRun(macdefs+" "+defs, prog); ok {
			return "err-but-call-gave:" + strings.ReplaceAll(v, " ", "_")
		}
		return "err"
	}
	pair, isPair := ex.(*zygo.SexpPair)
	if !isPair || pair.Head.SexpString(nil) != "quote" {
		return "x noquote:" + strings.ReplaceAll(sqCanonStr(ex), " ", "_")
	}
	expansion := sqCanonStr(pair.Tail)

	// (2)+(3) call site with the macro vs with the expansion written by hand
	defs, prog := sqSite(site, outer, nparams)
	v1, ok1, dep := sqRun(macdefs+" "+defs, prog)
	cmp := "ne"
	hand, okh := sqSubst(tmpl, args)
	if okh && len(hand) == 1 {
		defs2, prog2 := sqSite(site, hand[0].text(nil, false, ""), nparams)
		v2, ok2, _ := sqRun(defs2, prog2)
		if ok1 == ok2 && v1 == v2 {
			cmp = "eq"
		} else {
			cmp = "ne:" + strings.ReplaceAll(v1, " ", "_") + "/" + strings.ReplaceAll(v2, " ", "_")
		}
	}
	return "x " + expansion + " " + cmp + " " + dep
}

// ---- generators

type sqGen struct {
	g  *Gen
	ex []sqExpr
}

var sqSyms = []string{"a", "b", "c", "d", "unquote", "hash", "quote"}

func (s *sqGen) atom() *sqv {
	switch r := s.g.Rng.Intn(9); {
	case r < 4:
		return &sqv{kind: 'i', n: s.g.Rng.Intn(20)}
	case r == 8:
		return &sqv{kind: 'q', name: []string{"str", "k", "xy"}[s.g.Rng.Intn(3)]}
	}
	if s.g.Rng.Intn(6) == 0 {
		return &sqv{kind: 's', name: sqSyms[s.g.Rng.Intn(len(sqSyms))]} // incl. unquote, hash, quote as plain symbols
	}
	return &sqv{kind: 's', name: sqSyms[s.g.Rng.Intn(4)]}
}

// a random value (no unquotes) of bounded depth; hashes only when allowed
func (s *sqGen) value(depth int, hashOK bool) *sqv {
	r := s.g.Rng.Intn(10)
	if depth <= 0 || r < 4 {
		return s.atom()
	}
	n := s.g.Rng.Intn(4)
	kind := byte('(')
	if r >= 8 {
		kind = '['
	}
	if r == 9 && hashOK {
		h := &sqv{kind: '{', name: "hash"}
		for i := 0; i < n; i++ {
			h.kids = append(h.kids, &sqv{kind: 's', name: "k" + strconv.Itoa(i)}, s.value(depth-1, hashOK))
		}
		return h
	}
	v := &sqv{kind: kind}
	for i := 0; i < n; i++ {
		v.kids = append(v.kids, s.value(depth-1, hashOK))
	}
	return v
}

func (s *sqGen) listValue(n int) *sqv {
	v := &sqv{kind: '('}
	for i := 0; i < n; i++ {
		v.kids = append(v.kids, s.value(1, false))
	}
	return v
}

// add an expression with value v; picks a form that can express it in the given mode
func (s *sqGen) expr(v *sqv, mode string) int {
	forms := []string{"v", "v", "q"}
	if v.kind == 'i' && v.n >= 1 {
		forms = append(forms, "p", "p")
	}
	if v.kind == '(' {
		forms = append(forms, "l", "l")
	}
	if v.kind == '[' {
		ints := true
		for _, k := range v.kids {
			ints = ints && k.kind == 'i'
		}
		if ints {
			forms = append(forms, "a", "a", "a")
		}
	}
	f := forms[s.g.Rng.Intn(len(forms))]
	if sqHasHash(v) {
		f = "v"
	}
	s.ex = append(s.ex, sqExpr{form: f, val: v})
	s.g.Count("expr-form/" + f)
	return len(s.ex) - 1
}

// a dotted pair is pushed as written, unquote forms included: make every expression under
// it a plain variable z<k>, which is how the driver names expressions
func (s *sqGen) plainExprs(v *sqv) {
	if v.kind == 'U' || v.kind == 'S' {
		e := &s.ex[v.n]
		if e.val == nil {
			e.val = &sqv{kind: '('}
		}
		e.form = "v"
	}
	for _, k := range v.kids {
		s.plainExprs(k)
	}
	if v.tail != nil {
		s.plainExprs(v.tail)
	}
}

func sqHasHash(v *sqv) bool {
	if v.kind == '{' {
		return true
	}
	for _, k := range v.kids {
		if sqHasHash(k) {
			return true
		}
	}
	return false
}

func (s *sqGen) bad(form string) int {
	s.ex = append(s.ex, sqExpr{form: form})
	s.g.Count("expr-form/" + form)
	return len(s.ex) - 1
}

// random template; inSeq = it sits inside a list/array/hash (a splice is allowed)
func (s *sqGen) tmpl(depth int, mode string, inSeq bool, errs bool) *sqv {
	r := s.g.Rng.Intn(100)
	hashOK := mode == "dr"
	switch {
	case r < 18:
		return s.atom()
	case r < 36:
		s.g.Count("node/unquote")
		if errs && s.g.Rng.Intn(12) == 0 {
			return &sqv{kind: 'U', n: s.bad([]string{"c!", "r!"}[s.g.Rng.Intn(2)])}
		}
		return &sqv{kind: 'U', n: s.expr(s.value(2, hashOK), mode)}
	case r < 56 && inSeq:
		if errs && s.g.Rng.Intn(12) == 0 {
			s.g.Count("node/splice-error")
			if s.g.Rng.Intn(2) == 0 {
				return &sqv{kind: 'S', n: s.expr(s.atom(), mode)} // not a list
			}
			return &sqv{kind: 'S', n: s.bad([]string{"c!", "r!"}[s.g.Rng.Intn(2)])}
		}
		n := []int{0, 0, 1, 2, 3}[s.g.Rng.Intn(5)]
		s.g.Count("node/splice-len" + strconv.Itoa(n))
		return &sqv{kind: 'S', n: s.expr(s.listValue(n), mode)}
	}
	if depth <= 0 {
		return s.atom()
	}
	kind := byte('(')
	k := s.g.Rng.Intn(10)
	if k >= 6 {
		kind = '['
	}
	if k == 9 && mode == "sh" {
		s.g.Count("node/hash-braces")
		h := &sqv{kind: '(', kids: []*sqv{{kind: 's', name: "hash"}}}
		n := s.g.Rng.Intn(3)
		for i := 0; i < n; i++ {
			val := s.tmpl(depth-1, mode, false, errs) // one item per value keeps the braces readable
			h.kids = append(h.kids, &sqv{kind: 's', name: "k" + strconv.Itoa(i)}, val)
		}
		return h
	}
	if k == 9 && hashOK {
		s.g.Count("node/hash")
		h := &sqv{kind: '{', name: "hash"}
		n := s.g.Rng.Intn(3)
		for i := 0; i < n; i++ {
			val := s.tmpl(depth-1, mode, true, errs)
			if val.kind == 'S' && s.ex[val.n].val != nil && s.ex[val.n].val.kind == '(' {
				// a spliced list shifts keys and values; keep the would-be keys atoms
				// (other key types are C14's subject, the driver's hash constructor has only atoms)
				for j := range s.ex[val.n].val.kids {
					s.ex[val.n].val.kids[j] = s.atom()
				}
			}
			h.kids = append(h.kids, &sqv{kind: 's', name: "k" + strconv.Itoa(i)}, val)
		}
		return h
	}
	n := s.g.Rng.Intn(5)
	v := &sqv{kind: kind}
	for i := 0; i < n; i++ {
		v.kids = append(v.kids, s.tmpl(depth-1, mode, true, errs))
	}
	if kind == '(' && len(v.kids) == 2 && v.kids[0].kind == 's' && (v.kids[0].name == "unquote" || v.kids[0].name == "unquote-splicing") {
		v.kids = append(v.kids, s.atom()) // keep literal lists unambiguous
	}
	if kind == '(' && len(v.kids) > 0 && s.g.Rng.Intn(15) == 0 {
		v.tail = s.atom()
		s.plainExprs(v)
		s.g.Count("node/dotted-pair")
	}
	if kind == '(' {
		s.g.Count("node/list")
	} else {
		s.g.Count("node/array")
	}
	return v
}

func sqDepth(v *sqv) int {
	d := 0
	for _, k := range v.kids {
		if x := sqDepth(k); x > d {
			d = x
		}
	}
	if v.kind == '(' || v.kind == '[' || v.kind == '{' {
		return d + 1
	}
	return d
}

// the same template as a compile-only op: every expression a plain variable
func (s *sqGen) emitC(mode string, t *sqv) {
	var parts []string
	for _, e := range s.ex {
		v := e.val
		if v == nil {
			v = &sqv{kind: '('}
		}
		parts = append(parts, "v", v.String())
	}
	s.g.Emit("c %s n %s ; %s", mode, t.String(), strings.Join(parts, " "))
	s.g.Count("c/mode-" + mode)
}

func (s *sqGen) emitT(mode, wrap string, t *sqv) {
	var parts []string
	for _, e := range s.ex {
		if e.val == nil {
			parts = append(parts, e.form)
		} else {
			parts = append(parts, e.form, e.val.String())
		}
	}
	s.g.Emit("t %s %s %s ; %s", mode, wrap, t.String(), strings.Join(parts, " "))
	s.g.Count("t/mode-" + mode)
	s.g.Count("t/depth-" + strconv.Itoa(sqDepth(t)))
}

// exhaustive small scope: every sequence of length <= maxLen over a fixed element alphabet,
// as a list and as an array, in sugar, longhand and direct mode.
func sqExhaustive(g *Gen, maxLen int) {
	type el struct {
		name string
		mk   func(s *sqGen, mode string) *sqv
	}
	lst := func(xs ...int) *sqv {
		v := &sqv{kind: '('}
		for _, x := range xs {
			v.kids = append(v.kids, &sqv{kind: 'i', n: x})
		}
		return v
	}
	alphabet := []el{
		{"lit", func(s *sqGen, m string) *sqv { return &sqv{kind: 's', name: "a"} }},
		{"unq-int", func(s *sqGen, m string) *sqv {
			s.ex = append(s.ex, sqExpr{form: "p", val: &sqv{kind: 'i', n: 5}})
			return &sqv{kind: 'U', n: len(s.ex) - 1}
		}},
		{"unq-list", func(s *sqGen, m string) *sqv {
			s.ex = append(s.ex, sqExpr{form: "l", val: lst(1, 2)})
			return &sqv{kind: 'U', n: len(s.ex) - 1}
		}},
		{"splice0", func(s *sqGen, m string) *sqv {
			s.ex = append(s.ex, sqExpr{form: "v", val: lst()})
			return &sqv{kind: 'S', n: len(s.ex) - 1}
		}},
		{"splice1", func(s *sqGen, m string) *sqv {
			s.ex = append(s.ex, sqExpr{form: "l", val: lst(1)})
			return &sqv{kind: 'S', n: len(s.ex) - 1}
		}},
		{"splice2", func(s *sqGen, m string) *sqv {
			s.ex = append(s.ex, sqExpr{form: "v", val: lst(1, 2)})
			return &sqv{kind: 'S', n: len(s.ex) - 1}
		}},
		{"sublist", func(s *sqGen, m string) *sqv {
			s.ex = append(s.ex, sqExpr{form: "v", val: lst(3, 4)})
			return &sqv{kind: '(', kids: []*sqv{{kind: 's', name: "b"}, {kind: 'S', n: len(s.ex) - 1}}}
		}},
		{"subarr", func(s *sqGen, m string) *sqv {
			s.ex = append(s.ex, sqExpr{form: "v", val: &sqv{kind: 'i', n: 9}})
			return &sqv{kind: '[', kids: []*sqv{{kind: 'U', n: len(s.ex) - 1}}}
		}},
	}
	var rec func(prefix []int, n int)
	emit := func(idx []int) {
		for _, mode := range []string{"sv", "lg", "dr"} {
			for _, kind := range []byte{'(', '['} {
				s := &sqGen{g: g}
				v := &sqv{kind: kind}
				for _, i := range idx {
					v.kids = append(v.kids, alphabet[i].mk(s, mode))
				}
				s.emitT(mode, "n", v)
				if mode != "lg" {
					s.emitC(mode, v)
				}
				g.Count("exhaustive-small-scope")
			}
		}
	}
	rec = func(prefix []int, n int) {
		if len(prefix) == n {
			emit(prefix)
			return
		}
		for i := range alphabet {
			rec(append(prefix, i), n)
		}
	}
	for n := 0; n <= maxLen; n++ {
		rec(nil, n)
	}
}

type sqMacCase struct {
	params string // per parameter: e = used as an expression, l = spliced (a list of expressions)
	body   string // template tokens
}

func sqMustParse(src string) *sqv {
	toks := strings.Fields(src)
	v, n := sqParse(toks, 0)
	if v == nil || n != len(toks) {
		panic("bad built-in template: " + src)
	}
	return v
}

var sqMacBodies = []sqMacCase{
	{"ee", "( s:+ U0 U1 )"},
	{"ee", "( s:list U0 U1 )"},
	{"l", "( s:list S0 )"},
	{"ll", "( s:list S0 S1 )"},
	{"le", "( s:list S0 U1 S0 )"},
	{"el", "[ U0 S1 ]"},
	{"el", "[ S1 U0 S1 ]"},
	{"l", "( s:begin S0 )"},
	{"ee", "( s:cond U0 U1 i:0 )"},
	{"ee", "( s:list ( s:quote U0 ) U1 )"},
	{"ee", "( s:let [ s:t U0 ] ( s:+ s:t U1 ) )"},
	{"el", "( s:list U0 [ S1 U0 ] ( s:list S1 ) )"},
	{"el", "( s:quote ( U0 S1 ) )"},
	{"el", "( s:concat U0 ( s:list S1 ) )"},
	{"el", "( s:list ( s:list ( s:list ( s:+ U0 i:1 ) S1 ) U0 ) )"},
	{"", "( s:+ i:1 i:2 )"},
	{"", "( )"},
	{"e", "U0"},
	{"ele", "( s:list U0 S1 U2 S1 )"},
	{"e", "( s:hash s:k U0 s:j [ U0 ] )"},
	{"e", "( s:def s:g U0 )"},
}

var sqMacExprArgs = []string{
	"i:1", "i:7", "s:a", "s:b", "( s:+ s:a i:1 )", "( s:* s:a s:b )", "( s:list s:a s:b )",
	"( s:quote ( s:a s:b ) )", "( )", "[ s:a i:2 ]", "q:str",
}

var sqMacListArgs = []string{
	"( )", "( i:1 i:2 )", "( s:a s:b )", "( ( s:+ s:a s:b ) i:2 )", "( s:a )", "( ( s:list s:a ) ( ) s:b )",
}

func sqGenMain(g *Gen) {
	// 1. fixed regression cases: the defects of the pinned tree
	fixed := []string{
		"t sv n ( s:a U0 s:b ) ; p i:2",                           // ^(a ~(+ 1 1) b)   reader sugar + compound
		"t lg n ( s:a U0 s:b ) ; p i:2",                           // ^(a (unquote (+ 1 1)) b)
		"t sv n ( s:a U0 ) ; q ( s:x s:y )",                       // ~(quote (x y))
		"t sv n [ U0 U1 ] ; l ( i:1 i:2 ) p i:3",                  // ~(list …) in an array
		"t sv n ( s:a U0 U1 ) ; a [ i:1 i:2 ] a [ ]",              // ~[1 2]  ~[]
		"t sv n S0 ; v ( i:1 i:2 )",                               // ^~@xs   splice outside any list
		"t sv n S0 ; v ( )",                                       // ^~@()   empty
		"t dr n S0 ; v ( i:1 i:2 i:3 )",                           //
		"t sv w S0 ; v ( i:1 i:2 )",                               // (list 7 ^~@xs 8)
		"t lg n ( s:a U0 s:b ) ; c!",                              // generator error inside a template
		"t lg n ( ( s:x s:y ) S0 ) ; c!",                          // … whose explode used to eat the neighbour
		"t dr n [ s:a U0 s:b ] ; c!",                              //
		"t dr n { hash s:k U0 } ; c!",                             //
		"t dr n { hash s:a S0 s:b U1 } ; v ( i:1 s:c i:2 ) v i:5", // hash: spliced value keeps its order
		"t dr n { hash s:a U0 s:b [ S1 ] } ; v i:1 v ( i:1 i:2 )",
		"t dr n { hash s:a S0 } ; v ( )",                      // odd number of items: error
		"t sv n ( S0 S0 ) ; v ( i:1 i:2 )",                    // adjacent
		"t sv n ( S0 s:m S1 ) ; v ( ) v ( )",                  // first / last, empty
		"t sv n ( s:unquote s:x s:y ) ; ",                     // three elements: literal
		"t sv n ( s:unquote ) ; ",                             // one element: literal
		"t sv n ( s:a ( s:syntaxQuote ( s:b U0 ) ) ) ; v i:5", // nested syntax-quote is not special
		"t sv n ( ) ; ",
		"t sv n [ ] ; ",
		"t sv n U0 ; v ( i:1 i:2 )",
		"t sv w ( s:a S0 ) ; v ( i:1 i:2 )",
		"t sv n ( s:a S0 ) ; v i:3",         // splice of a non-list
		"t sv n ( s:a S0 ) ; v [ i:1 i:2 ]", // splice of an array: not a list
		"t sv n ( s:a U0 ) ; r!",
		"t sv n ( s:a U0 . s:b ) ; v i:5",        // dotted pair: pushed as written
		"t dr n ( ( s:a U0 . s:b ) U0 ) ; v i:5", // … inside a proper list
		"t dr n [ ( s:a . U0 ) ] ; v i:5",
		"t sh n ( s:hash s:k U0 s:j [ S1 ] ) ; v i:5 v ( i:1 i:2 )", // ^{k: ~x j: [~@l]} reads as a list
		"t sv n ( q:str U0 q:k ) ; v q:xy",
	}
	more := g.Tier == "thorough-more" // a further seed of the thorough tier: random parts only
	if !more {
		for _, f := range fixed {
			g.Emit("%s", f)
			g.Count("fixed-cases")
		}
		// 2. exhaustive small scope
		maxLen := 3
		if g.Thorough() {
			maxLen = 4
		}
		sqExhaustive(g, maxLen)
	}
	// 3. random templates, nesting up to 4
	n := 2500
	if g.Thorough() || more {
		n = 40000
	}
	for i := 0; i < n; i++ {
		mode := []string{"sv", "lg", "dr", "dr", "sh"}[g.Rng.Intn(5)]
		s := &sqGen{g: g}
		depth := 1 + g.Rng.Intn(4)
		var t *sqv
		if g.Rng.Intn(3) > 0 {
			// force a container at the top so that splices occur
			t = &sqv{kind: []byte{'(', '(', '['}[g.Rng.Intn(3)]}
			k := g.Rng.Intn(5)
			for j := 0; j < k; j++ {
				t.kids = append(t.kids, s.tmpl(depth-1, mode, true, true))
			}
			if t.kind == '(' && len(t.kids) == 2 && t.kids[0].kind == 's' && t.kids[0].name == "unquote" {
				t.kids = append(t.kids, s.atom())
			}
		} else {
			t = s.tmpl(depth, mode, false, true)
		}
		wrap := "n"
		if g.Rng.Intn(5) == 0 {
			wrap = "w"
			g.Count("t/wrapped")
		}
		// positions of splices: first / last / adjacent
		if t.kind == '(' || t.kind == '[' {
			for j, k := range t.kids {
				if k.kind == 'S' {
					if j == 0 {
						g.Count("splice-pos/first")
					}
					if j == len(t.kids)-1 {
						g.Count("splice-pos/last")
					}
					if j > 0 && t.kids[j-1].kind == 'S' {
						g.Count("splice-pos/adjacent")
					}
				}
			}
		}
		s.emitT(mode, wrap, t)
		if i%3 == 0 {
			s.emitC(mode, t)
		}
	}
	// 4. macros: bodies x argument forms x call sites
	sites := []string{"top", "fn", "let", "loop", "mac"}
	for bi, b := range sqMacBodies {
		body := sqMustParse(b.body)
		np := len(b.params)
		// all combinations of type-directed arguments, sampled when there are many
		var combos [][]string
		var rec func(i int, cur []string)
		rec = func(i int, cur []string) {
			if i == np {
				combos = append(combos, append([]string(nil), cur...))
				return
			}
			pool := sqMacExprArgs
			if b.params[i] == 'l' {
				pool = sqMacListArgs
			}
			for _, a := range pool {
				rec(i+1, append(cur, a))
			}
		}
		rec(0, nil)
		limit := 10
		if g.Thorough() || more {
			limit = 150
		}
		g.Rng.Shuffle(len(combos), func(i, j int) { combos[i], combos[j] = combos[j], combos[i] })
		if len(combos) > limit {
			combos = combos[:limit]
		}
		// a few ill-typed ones (a non-list where a list is spliced) and a wrong arity:
		// both sides must fail
		if np > 0 {
			bad := make([]string, np)
			for i := range bad {
				bad[i] = sqMacExprArgs[g.Rng.Intn(4)]
			}
			combos = append(combos, bad, bad[:np-1], append(append([]string(nil), bad...), "i:1"))
			g.Count("m/wrong-arity")
			g.Count("m/wrong-arity")
		}
		for _, args := range combos {
			for _, site := range sites {
				if bi == len(sqMacBodies)-1 && site != "top" {
					continue
				}
				g.Emit("m %s %d %s ; %s", site, np, body.String(), strings.Join(args, " "))
				g.Count("m/site-" + site)
			}
		}
	}
	// 5. freshness: one template evaluated repeatedly, earlier results mutated in place (ch_sq_hist.go)
	sqGenHist(g)
	// 6. call-site contexts: macro call vs the expansion written by hand (ch_sq_ctx.go)
	sqGenCtx(g)
}

func init() {
	channels["sq"] = &Channel{Gen: sqGenMain, Exec: sqExec}
}
