package main

// Channel num (C07): Compare / CompareFunction / NumericFunction / mod on numeric operands.
//   num cmp <fn|ev> <op> <t> <hex> <t> <hex>         -> t | f | err | panic
//   num ar  <fn|ev> <op> <t> <hex> <t> <hex> [...]   -> <t> <hex> | err | panic
//   num gcmp <t> <hex> <t> <hex>                     -> <int> | err | panic     (*Zlisp).Compare called directly
//   num gar  <op> <t> <hex> <t> <hex>                -> <t> <hex> | err | panic NumericDo called directly
//   num gint <op> <t> <hex> <t> <hex>                -> <t> <hex> | err | panic IntegerDo called directly
// The g-ops are answered on the Lean side by the functions TRANSLATED from the Go source
// (Generated/NumGo.lean): they validate the translator extract/ex_numtrans.go.
//   num same <route> <op> <t> <hex>                  -> as cmp / ar / gcmp / gar / gint
// `same`: BOTH operands are THE SAME OBJECT (every Sexp is a pointer). The answer must depend on
// the two values only (Spec/MathOrder.lean compare_is_value_level): NaN is unequal to itself
// even when "itself" is one object. Routes: api = (*Zlisp).Compare(v, v) [op cmp3: -1|0|1|nan],
// NumericDo(op, v, v), IntegerDo(op, v, v); fn = the builtin called with args [v, v];
// var = (op x x); let = (let [v x] (op v v)); param = ((fn [p q] (op p q)) x x);
// self = ((fn [v] (op v v)) x); arr = (let [a (array x)] (op (aget a 0) (aget a 0))).
// t: i int64, u uint64, c rune, f float64 (IEEE bits), b bool (g-ops and same api only). fn = the builtin called directly
// (a Go panic is observed as such); ev = through EvalString with the operands bound as
// globals (the builtin-call wrapper's recover turns the panic into an error).

import (
	"fmt"
	"math"
	"strconv"
	"strings"

	"github.com/glycerine/zygomys/v9/zygo"
)

type numVal struct {
	t    string
	bits uint64
}

func (v numVal) String() string { return v.t + " " + strconv.FormatUint(v.bits, 16) }

func (v numVal) sexp() zygo.Sexp {
	switch v.t {
	case "i":
		return &zygo.SexpInt{Val: int64(v.bits)}
	case "u":
		return &zygo.SexpUint64{Val: v.bits}
	case "c":
		return &zygo.SexpChar{Val: rune(int32(uint32(v.bits)))}
	case "f":
		return &zygo.SexpFloat{Val: math.Float64frombits(v.bits)}
	case "b":
		return &zygo.SexpBool{Val: v.bits != 0}
	}
	return zygo.SexpNull
}

func showNum(s zygo.Sexp) string {
	switch x := s.(type) {
	case *zygo.SexpInt:
		return "i " + strconv.FormatUint(uint64(x.Val), 16)
	case *zygo.SexpUint64:
		return "u " + strconv.FormatUint(x.Val, 16)
	case *zygo.SexpChar:
		return "c " + strconv.FormatUint(uint64(uint32(x.Val)), 16)
	case *zygo.SexpFloat:
		if math.IsNaN(x.Val) {
			return "f nan"
		}
		return "f " + strconv.FormatUint(math.Float64bits(x.Val), 16)
	case *zygo.SexpBool:
		if x.Val {
			return "t"
		}
		return "f"
	}
	return "other " + strings.ReplaceAll(s.SexpString(nil), " ", "_")
}

var numEnv *zygo.Zlisp
var numFuncs map[string]zygo.ZlispUserFunction

func numSetup() {
	if numEnv == nil {
		numEnv = zygo.NewZlisp()
		numFuncs = zygo.CoreFunctions()
	}
}

var numericOps = map[string]zygo.NumericOp{"+": zygo.Add, "-": zygo.Sub, "*": zygo.Mult, "/": zygo.Div}
var integerOps = map[string]zygo.IntegerOp{"sll": zygo.ShiftLeft, "sra": zygo.ShiftRightArith, "srl": zygo.ShiftRightLog,
	"mod": zygo.Modulo, "and": zygo.BitAnd, "or": zygo.BitOr, "xor": zygo.BitXor}
var integerOpNames = []string{"sll", "sra", "srl", "mod", "and", "or", "xor"}

// numExecGen: the Go originals of the translated entry points, called directly.
func numExecGen(toks []string) (ans string) {
	kind := toks[0]
	rest := toks[1:]
	op := ""
	if kind != "gcmp" {
		if len(rest) == 0 {
			return "bad-op"
		}
		op, rest = rest[0], rest[1:]
	}
	if len(rest) != 4 {
		return "bad-op"
	}
	var args []zygo.Sexp
	for i := 0; i < 4; i += 2 {
		b, err := strconv.ParseUint(rest[i+1], 16, 64)
		if err != nil || !strings.Contains("iucfb", rest[i]) {
			return "bad-op"
		}
		args = append(args, numVal{rest[i], b}.sexp())
	}
	defer func() {
		if r := recover(); r != nil {
			ans = "panic"
		}
	}()
	switch kind {
	case "gcmp":
		r, err := numEnv.Compare(args[0], args[1])
		if err != nil {
			return "err"
		}
		return strconv.Itoa(r)
	case "gar":
		o, ok := numericOps[op]
		if !ok {
			return "bad-op"
		}
		r, err := zygo.NumericDo(o, args[0], args[1])
		if err != nil {
			return "err"
		}
		return showNum(r)
	case "gint":
		o, ok := integerOps[op]
		if !ok {
			return "bad-op"
		}
		r, err := zygo.IntegerDo(o, args[0], args[1])
		if err != nil {
			return "err"
		}
		return showNum(r)
	}
	return "bad-op"
}

var sameScripts = map[string]string{
	"var":   "(%s zz0 zz0) ",
	"let":   "(let [v zz0] (%s v v)) ",
	"param": "((fn [p q] (%s p q)) zz0 zz0) ",
	"self":  "((fn [v] (%s v v)) zz0) ",
	"arr":   "(let [a (array zz0)] (%s (aget a 0) (aget a 0))) ",
}
var sameScriptRoutes = []string{"var", "let", "param", "self", "arr"}

// numExecSame: one object used as both operands.
func numExecSame(toks []string) (ans string) {
	if len(toks) != 5 {
		return "bad-op"
	}
	route, op := toks[1], toks[2]
	b, err := strconv.ParseUint(toks[4], 16, 64)
	if err != nil || !strings.Contains("iucfb", toks[3]) || len(toks[3]) != 1 {
		return "bad-op"
	}
	v := numVal{toks[3], b}.sexp()
	defer func() {
		if r := recover(); r != nil {
			ans = "panic"
		}
	}()
	switch route {
	case "api":
		if op == "cmp3" {
			r, err := numEnv.Compare(v, v)
			if err != nil {
				return "err"
			}
			if r > 1 {
				return "nan"
			}
			return strconv.Itoa(r)
		}
		if o, ok := numericOps[op]; ok {
			r, err := zygo.NumericDo(o, v, v)
			if err != nil {
				return "err"
			}
			return showNum(r)
		}
		if o, ok := integerOps[op]; ok {
			r, err := zygo.IntegerDo(o, v, v)
			if err != nil {
				return "err"
			}
			return showNum(r)
		}
		return "bad-op"
	case "fn":
		f, ok := numFuncs[op]
		if !ok {
			return "bad-op"
		}
		res, err := f(numEnv, op, []zygo.Sexp{v, v})
		if err != nil {
			return "err"
		}
		return showNum(res)
	}
	tmpl, ok := sameScripts[route]
	if !ok {
		return "bad-op"
	}
	numEnv.AddGlobal("zz0", v)
	res, err := numEnv.EvalString(fmt.Sprintf(tmpl, op))
	if err != nil {
		numEnv.Clear()
		return "err"
	}
	return showNum(res)
}

func numExec(toks []string) (ans string) {
	numSetup()
	if len(toks) > 0 && toks[0] == "same" {
		return numExecSame(toks)
	}
	if len(toks) > 0 && (toks[0] == "gcmp" || toks[0] == "gar" || toks[0] == "gint") {
		return numExecGen(toks)
	}
	if len(toks) < 7 || (len(toks)-3)%2 != 0 {
		return "bad-op"
	}
	kind, mode, op := toks[0], toks[1], toks[2]
	var args []zygo.Sexp
	for i := 3; i+1 < len(toks); i += 2 {
		b, err := strconv.ParseUint(toks[i+1], 16, 64)
		if err != nil {
			return "bad-op"
		}
		args = append(args, numVal{toks[i], b}.sexp())
	}
	_ = kind
	switch mode {
	case "fn":
		f, ok := numFuncs[op]
		if !ok {
			return "bad-op"
		}
		defer func() {
			if r := recover(); r != nil {
				ans = "panic"
			}
		}()
		res, err := f(numEnv, op, args)
		if err != nil {
			return "err"
		}
		return showNum(res)
	case "ev":
		names := []string{}
		for i, a := range args {
			n := fmt.Sprintf("zz%d", i)
			numEnv.AddGlobal(n, a)
			names = append(names, n)
		}
		res, err := numEnv.EvalString("(" + op + " " + strings.Join(names, " ") + ") ")
		if err != nil {
			numEnv.Clear()
			return "err"
		}
		return showNum(res)
	}
	return "bad-op"
}

func numGrid() []numVal {
	var vs []numVal
	ints := []int64{0, 1, -1, 2, -2, 7, -7, 10, math.MaxInt64, math.MinInt64, math.MaxInt64 - 1, math.MinInt64 + 1,
		1 << 53, 1<<53 + 1, 1<<53 - 1, -(1 << 53), -(1<<53 + 1), 1 << 62, -(1 << 62), 1 << 31, -(1 << 31), 1<<32 - 1, 97}
	for _, i := range ints {
		vs = append(vs, numVal{"i", uint64(i)})
	}
	uints := []uint64{0, 1, 2, 7, math.MaxUint64, math.MaxUint64 - 1, 1 << 63, 1<<63 - 1, 1<<63 + 1, 1 << 53, 1<<53 + 1}
	for _, u := range uints {
		vs = append(vs, numVal{"u", u})
	}
	chars := []int32{0, 1, 97, 98, 0x10FFFF, math.MaxInt32, math.MinInt32, -1}
	for _, c := range chars {
		vs = append(vs, numVal{"c", uint64(uint32(c))})
	}
	floats := []float64{0, math.Copysign(0, -1), 1, -1, 0.5, -0.5, 2, 97, 1.5, math.Inf(1), math.Inf(-1), math.NaN(),
		math.MaxFloat64, -math.MaxFloat64, math.SmallestNonzeroFloat64, -math.SmallestNonzeroFloat64,
		2.2250738585072014e-308, 9007199254740992, 9007199254740993, 9007199254740991, 9223372036854775808.0, -9223372036854775808.0,
		18446744073709551616.0, 1e300, 1e-300, 4.9e-324 * 3}
	for _, f := range floats {
		vs = append(vs, numVal{"f", math.Float64bits(f)})
	}
	return vs
}

var cmpOps = []string{"<", ">", "<=", ">=", "==", "!="}
var arOps = []string{"+", "-", "*", "/", "mod"}

func numRandVal(g *Gen) numVal {
	ts := []string{"i", "i", "u", "c", "f", "f"}
	t := ts[g.Rng.Intn(len(ts))]
	var b uint64
	switch g.Rng.Intn(4) {
	case 0:
		b = g.Rng.Uint64()
	case 1:
		b = uint64(int64(g.Rng.Intn(41) - 20))
	case 2:
		b = uint64(1)<<uint(g.Rng.Intn(64)) + uint64(int64(g.Rng.Intn(5)-2))
	case 3:
		b = ^(uint64(1)<<uint(g.Rng.Intn(64)) + uint64(int64(g.Rng.Intn(5)-2)))
	}
	if t == "c" {
		b &= 0xffffffff
	}
	if t == "f" && g.Rng.Intn(2) == 0 {
		// a float near an integer boundary
		b = math.Float64bits(float64(int64(b)))
	}
	return numVal{t, b}
}

func numGen(g *Gen) {
	grid := numGrid()
	// exhaustive boundary grid, builtin called directly
	for _, a := range grid {
		for _, b := range grid {
			for _, op := range cmpOps {
				g.Emit("cmp fn %s %s %s", op, a, b)
			}
			for _, op := range arOps {
				g.Emit("ar fn %s %s %s", op, a, b)
			}
			g.Count("grid-pair " + a.t + b.t)
		}
	}
	// the translated entry points against their Go originals: grid (with bools) exhaustively
	ggrid := append(append([]numVal{}, grid...), numVal{"b", 0}, numVal{"b", 1})
	for _, a := range ggrid {
		for _, b := range ggrid {
			g.Emit("gcmp %s %s", a, b)
			for _, op := range arOps[:4] {
				g.Emit("gar %s %s %s", op, a, b)
			}
			for _, op := range integerOpNames {
				g.Emit("gint %s %s %s", op, a, b)
			}
			g.Count("gen-grid-pair " + a.t + b.t)
		}
	}
	// shared operands: one object on both sides, every operator x every grid value x every route
	for _, v := range ggrid {
		g.Emit("same api cmp3 %s", v)
		for _, op := range arOps[:4] {
			g.Emit("same api %s %s", op, v)
		}
		for _, op := range integerOpNames {
			g.Emit("same api %s %s", op, v)
		}
		g.Count("same api")
		if v.t == "b" {
			continue
		}
		for _, route := range append([]string{"fn"}, sameScriptRoutes...) {
			for _, op := range cmpOps {
				g.Emit("same %s %s %s", route, op, v)
			}
			for _, op := range arOps {
				g.Emit("same %s %s %s", route, op, v)
			}
			g.Count("same " + route)
		}
	}
	nEv, nRand := 3000, 20000
	if g.Thorough() {
		nEv, nRand = 60000, 600000
	}
	// script-level route (covers the CallUserFunction glue) on a sample of the grid
	for i := 0; i < nEv; i++ {
		a, b := grid[g.Rng.Intn(len(grid))], grid[g.Rng.Intn(len(grid))]
		if g.Rng.Intn(2) == 0 {
			g.Emit("cmp ev %s %s %s", cmpOps[g.Rng.Intn(len(cmpOps))], a, b)
		} else if g.Rng.Intn(4) == 0 {
			c := grid[g.Rng.Intn(len(grid))]
			g.Emit("ar ev %s %s %s %s", arOps[g.Rng.Intn(4)], a, b, c)
		} else {
			g.Emit("ar ev %s %s %s", arOps[g.Rng.Intn(len(arOps))], a, b)
		}
		g.Count("ev")
	}
	// random 64-bit patterns
	for i := 0; i < nRand; i++ {
		a, b := numRandVal(g), numRandVal(g)
		if g.Rng.Intn(3) == 0 {
			b = numVal{b.t, a.bits} // equal payloads across types
			if b.t == "c" {
				b.bits &= 0xffffffff
			}
		}
		if g.Rng.Intn(2) == 0 {
			g.Emit("cmp fn %s %s %s", cmpOps[g.Rng.Intn(len(cmpOps))], a, b)
		} else {
			g.Emit("ar fn %s %s %s", arOps[g.Rng.Intn(len(arOps))], a, b)
		}
		g.Count("rand-pair " + a.t + b.t)
		// the same random pair through the translated functions
		switch g.Rng.Intn(3) {
		case 0:
			g.Emit("gcmp %s %s", a, b)
		case 1:
			g.Emit("gar %s %s %s", arOps[g.Rng.Intn(4)], a, b)
		default:
			g.Emit("gint %s %s %s", integerOpNames[g.Rng.Intn(len(integerOpNames))], a, b)
		}
		g.Count("gen-rand-pair " + a.t + b.t)
		// and a random value against itself (same object)
		if g.Rng.Intn(4) == 0 {
			routes := append([]string{"api", "fn", "fn"}, sameScriptRoutes...)
			route := routes[g.Rng.Intn(len(routes))]
			var op string
			switch {
			case route == "api":
				ops := append(append([]string{"cmp3"}, arOps[:4]...), integerOpNames...)
				op = ops[g.Rng.Intn(len(ops))]
			case g.Rng.Intn(2) == 0:
				op = cmpOps[g.Rng.Intn(len(cmpOps))]
			default:
				op = arOps[g.Rng.Intn(len(arOps))]
			}
			g.Emit("same %s %s %s", route, op, a)
			g.Count("same-rand " + route)
		}
	}
}

func init() { channels["num"] = &Channel{Gen: numGen, Exec: numExec} }
