package main

// Channel rt, HISTORY ops (C12): what a numeric spelling denotes — and what a printed number reads back as — is a
// function of the text alone, not of what the same interpreter / parser has read before.
//
//   rt H <mode> <step> <step> …     -> the answers of the steps, joined by " | "
//
// All steps of one line run on ONE long-lived reader, in order:
//   mode p   one zygo.Parser object; every step hands it a whole text (ResetAddNewInput, end of input, ParseTokens) —
//            what `l`/`r` ops do with a FRESH parser per op
//   mode r   one fresh interpreter (NewZlisp + StandardSetup); every step is `(read "<text>")` through EvalString,
//            i.e. the interpreter's own parser, shared by read / eval / source / EvalString
//   mode e   the same interpreter; every step evaluates `(list <text>)`: the text as program text (a numeric literal evaluates to itself)
// Steps:
//   L:<codes>            the spelling <codes> (code points); answer as op `l`: `i <n>` | `u <n>` | `d <bits>` | err | nonnum
//   Pi:<int>  Pu:<nat>   the number is PRINTED by the real printer and the printed text read back on the same reader;
//   Pd:<bits>:<codes>    answer = canonical form of what was read (<codes> = the float's text, used by the Lean model only)
// In modes r and e every answer that is not a number is `nonnum` (an error and a symbol are not told apart there).
// Spec column (Driver/Rt.lean): each step judged by Spec.DataValue.require / the value itself, INDEPENDENTLY of the
// steps before it (Spec/LiteralHistory.lean: the history-independence law).

import (
	"math"
	"strconv"
	"strings"

	"github.com/glycerine/zygomys/v9/zygo"
)

type rtReader struct {
	mode byte
	p    *zygo.Parser
	env  *zygo.Zlisp
}

func newRtReader(mode byte) *rtReader {
	r := &rtReader{mode: mode}
	if mode == 'p' {
		r.p = rtEnv.NewParser()
	} else {
		r.env = zygo.NewZlisp()
		r.env.StandardSetup()
	}
	return r
}

func numOrNonnum(x zygo.Sexp) string {
	switch x.(type) {
	case *zygo.SexpInt, *zygo.SexpUint64, *zygo.SexpFloat:
		return rtCanonS(x)
	}
	return "nonnum"
}

func safeForStringLiteral(txt string) bool {
	return !strings.ContainsAny(txt, "\"\\`\n\r") && txt != ""
}

// text: one whole text through the long-lived reader
func (r *rtReader) text(txt string) string {
	switch r.mode {
	case 'p':
		r.p.ResetAddNewInput(zygo.VerifStream(txt))
		r.p.VerifEndInput()
		xs, err := r.p.ParseTokens()
		if err != nil {
			return "err"
		}
		if len(xs) != 1 {
			return "nonnum"
		}
		return numOrNonnum(xs[0])
	case 'r':
		if !safeForStringLiteral(txt) {
			return "bad-op"
		}
		res, err := r.env.EvalString("(read \"" + txt + "\")\n")
		if err != nil || res == nil {
			r.env.Clear()
			return "nonnum"
		}
		return numOrNonnum(res)
	case 'e':
		if !safeForStringLiteral(txt) {
			return "bad-op"
		}
		// (list <text>): the text is read AND evaluated as program text; exactly one expression that is a number, or nonnum
		res, err := r.env.EvalString("(list " + txt + ")\n")
		if err != nil || res == nil {
			r.env.Clear()
			return "nonnum"
		}
		if p, ok := res.(*zygo.SexpPair); ok && p.Tail == zygo.SexpNull {
			return numOrNonnum(p.Head)
		}
		return "nonnum"
	}
	return "bad-op"
}

// printed: v printed by the real printer, the text read back on the long-lived reader
func (r *rtReader) printed(v zygo.Sexp) string {
	if r.mode == 'p' {
		return r.text(v.SexpString(nil))
	}
	r.env.AddGlobal("hv", v)
	res, err := r.env.EvalString("(read (str hv))\n")
	if err != nil || res == nil {
		r.env.Clear()
		return "nonnum"
	}
	return numOrNonnum(res)
}

func rtHistExec(toks []string) string {
	// toks: H <mode> step…
	if len(toks) < 3 || len(toks[1]) != 1 || !strings.Contains("pre", toks[1]) {
		return "bad-op"
	}
	r := newRtReader(toks[1][0])
	var out []string
	for _, st := range toks[2:] {
		switch {
		case strings.HasPrefix(st, "L:"):
			txt, ok := codesToString(st[2:])
			if !ok {
				return "bad-op"
			}
			out = append(out, r.text(txt))
		case strings.HasPrefix(st, "Pi:"):
			n, err := strconv.ParseInt(st[3:], 10, 64)
			if err != nil {
				return "bad-op"
			}
			out = append(out, r.printed(&zygo.SexpInt{Val: n}))
		case strings.HasPrefix(st, "Pu:"):
			n, err := strconv.ParseUint(st[3:], 10, 64)
			if err != nil {
				return "bad-op"
			}
			out = append(out, r.printed(&zygo.SexpUint64{Val: n}))
		case strings.HasPrefix(st, "Pd:"):
			f := strings.SplitN(st[3:], ":", 2)
			b, err := strconv.ParseUint(f[0], 16, 64)
			if err != nil || len(f) != 2 {
				return "bad-op"
			}
			out = append(out, r.printed(&zygo.SexpFloat{Val: math.Float64frombits(b)}))
		default:
			return "bad-op"
		}
	}
	for _, a := range out {
		if a == "bad-op" {
			return "bad-op"
		}
	}
	return strings.Join(out, " | ")
}

// ---------------------------------------------------------------- generator

func allIn(s, set string) bool {
	for _, c := range s {
		if !strings.ContainsRune(set, c) {
			return false
		}
	}
	return s != ""
}

// the spellings that share the digit string d across notations
func sharedSpellings(d string) []string {
	plain := strings.ReplaceAll(d, "_", "")
	out := []string{d}
	if allIn(plain, "0123456789abcdefABCDEF") && plain == d {
		out = append(out, "0x"+d, "0x"+d+"ULL")
	}
	if allIn(plain, "01234567") && plain == d {
		out = append(out, "0o"+d, "0o"+d+"ULL")
	}
	if allIn(plain, "01") && plain == d {
		out = append(out, "0b"+d)
	}
	if allIn(plain, "0123456789") {
		out = append(out, d+"ULL", "-"+d, "+"+d, "0"+d, d+".0", d+"e0", d+".")
		if len(plain) >= 2 && plain == d {
			out = append(out, d[:1]+"_"+d[1:], d[:len(d)-1]+"_"+d[len(d)-1:])
		}
		if plain == d {
			out = append(out, "-0x"+d, "0x0"+d)
		}
	}
	return out
}

var rtHistDigits = []string{"10", "11", "101", "100", "17", "77", "777", "010", "0010", "1_0", "1_000", "1000", "12345670", "7", "0", "1", "00", "20", "255", "1111111111111111", "7fffffffffffffff", "9223372036854775807", "9223372036854775808", "ff", "1e2", "1E2", "deadbeef"}

// values that print (decimal) as a digit string which also is a hex/octal/binary literal body
var rtHistPrintInts = []int64{10, 11, 101, 100, 17, 77, 777, 1000, 12345670, 7, 0, 1, 20, 255, 16, 8, 2, 5, -10, -101}

func lstep(s string) string { return "L:" + stringToCodes(s) }

func pstepFloat(f float64) string {
	v := &zygo.SexpFloat{Val: f}
	return "Pd:" + strconv.FormatUint(math.Float64bits(f), 16) + ":" + stringToCodes(v.SexpString(nil))
}

func rtGenHist(g *Gen) {
	modes := []string{"p", "r", "e"}
	emit := func(tag, mode string, steps []string) {
		g.Emit("H %s %s", mode, strings.Join(steps, " "))
		g.Count("history:" + tag + "-" + mode)
	}
	k := 0
	pickMode := func() string { k++; return modes[k%3] }
	for _, d := range rtHistDigits {
		sp := sharedSpellings(d)
		// 1. every ordered pair of spellings sharing the digit string: mode p always (cheap: a parser),
		//    the interpreter modes in rotation (thorough: all three)
		for i, a := range sp {
			for j, b := range sp {
				if i == j {
					continue
				}
				emit("pair", "p", []string{lstep(a), lstep(b)})
				if g.Thorough() {
					emit("pair", "r", []string{lstep(a), lstep(b)})
					emit("pair", "e", []string{lstep(a), lstep(b)})
				} else if (i+j)%2 == 0 {
					emit("pair", pickMode(), []string{lstep(a), lstep(b)})
				}
			}
		}
		// 2. sequences of 3..6 spellings of this digit string in random orders (a spelling may repeat)
		nseq := 12
		if g.Thorough() {
			nseq = 400
		}
		for q := 0; q < nseq; q++ {
			n := 3 + g.Rng.Intn(4)
			steps := make([]string, n)
			for i := range steps {
				steps[i] = lstep(sp[g.Rng.Intn(len(sp))])
			}
			emit("seq", pickMode(), steps)
		}
	}
	// 3. printed numbers read back after earlier literals with the same digits in another notation, and before
	for _, n := range rtHistPrintInts {
		d := strconv.FormatInt(n, 10)
		body := strings.TrimPrefix(d, "-")
		var others []string
		for _, s := range sharedSpellings(body) {
			if s != body {
				others = append(others, s)
			}
		}
		for _, o := range others {
			for _, m := range modes {
				emit("print-after-literal", m, []string{lstep(o), "Pi:" + d})
				emit("literal-after-print", m, []string{"Pi:" + d, lstep(o)})
			}
			if n >= 0 {
				emit("print-uint-after-literal", pickMode(), []string{lstep(o), "Pu:" + d, "Pi:" + d})
			}
		}
		for _, m := range modes {
			emit("print-float-int", m, []string{pstepFloat(float64(n)), "Pi:" + d, lstep(body), pstepFloat(float64(n))})
			emit("print-float-int", m, []string{"Pi:" + d, pstepFloat(float64(n)), lstep(body + ".0"), "Pi:" + d})
		}
	}
	// 4. mixed: random spellings of RELATED digit strings (d, 0d, d0, d with underscore) and print steps, 2..6 steps
	nmix := 600
	if g.Thorough() {
		nmix = 30000
	}
	for q := 0; q < nmix; q++ {
		d := rtHistDigits[g.Rng.Intn(len(rtHistDigits))]
		rel := []string{d, "0" + d, d + "0", strings.TrimLeft(d, "0")}
		n := 2 + g.Rng.Intn(5)
		var steps []string
		for i := 0; i < n; i++ {
			dd := rel[g.Rng.Intn(len(rel))]
			if dd == "" {
				dd = "0"
			}
			if g.Rng.Intn(5) == 0 {
				if v, err := strconv.ParseInt(strings.ReplaceAll(dd, "_", ""), 10, 64); err == nil {
					steps = append(steps, "Pi:"+strconv.FormatInt(v, 10))
					continue
				}
			}
			sp := sharedSpellings(dd)
			steps = append(steps, lstep(sp[g.Rng.Intn(len(sp))]))
		}
		emit("mixed", pickMode(), steps)
	}
	// 5. the scenarios of the property text, written out
	emit("scenario", "e", []string{lstep("0b101"), "Pi:101", lstep("101")})
	emit("scenario", "r", []string{lstep("0x10"), "Pi:10", lstep("1_0"), lstep("10")})
	emit("scenario", "e", []string{lstep("100"), lstep("0x100"), lstep("0o100"), lstep("0b100"), lstep("100ULL"), lstep("1e2")})
	emit("scenario", "p", []string{lstep("0o777"), lstep("777"), lstep("0x777"), "Pi:777", "Pu:777"})
}
