/-
`read` (ReadFunction: the text delivered whole to the parser, end of input signalled) and the
evaluation of the forms the reader builds for printed JSON-like data.

`{k:v …}` is read as the list `(hash k: v …)` (or `(hash "k" : v …)` for a string key: the
colon is then its own token and becomes the symbol `:`), `[a b]` as an array, `{}` as the
empty hash. Evaluation (zygo/generator.go, zygo/hashutils.go MakeHash/HashSet) of such a form:
numbers, strings, booleans are themselves; the symbols `nil`/`null` are bound to nil; a
symbol ending in a colon evaluates to itself; the symbol `:` evaluates to the colon function,
which `EliminateColonAndCommaFromArgs` removes; the remaining arguments are key/value pairs
set one after the other (`HashSet`: a new key is appended to `KeyOrder`, an existing one keeps
its place). Only this fragment is modelled (anything else: `none`). Core-only.
-/
import ZygoVerif.Model.Parser
import ZygoVerif.Model.PrintData
namespace ZygoVerif.EvalData
open ZygoVerif ZygoVerif.PrintData

/-- every expression of the whole text, or `none` when the reader refuses it / asks for more -/
def readAll (txt : List Char) : Option (List Sexp) :=
  let r := Parser.parseChunks [txt]
  if r.status == .done then some r.exprs else none

/-- the text holds exactly one expression -/
def readOne (txt : List Char) : Option Sexp :=
  match readAll txt with
  | some [e] => some e
  | _ => none

/-- `HashSet` on the entry list -/
def setEntry (k : JKey) (v : JV) : List (JKey × JV) → List (JKey × JV)
  | [] => [(k, v)]
  | (k', v') :: r => if k' = k then (k, v) :: r else (k', v') :: setEntry k v r

def isColonSym : Sexp → Bool
  | .sym n false false => n == [':']
  | _ => false

/-- elements of a proper list -/
def listElems : Sexp → Option (List Sexp)
  | .null => some []
  | .pair h t => (listElems t).map (h :: ·)
  | _ => none

mutual
def evalData : Sexp → Option JV
  | .int v => some (.int v)
  | .float b s => some (.flt b s)
  | .str s _ => some (.str s)
  | .bool b => some (.bool b)
  | .null => some .nil
  | .emptyHash => some (.hash [])
  | .sym n false false => if n == "nil".toList || n == "null".toList then some .nil else none
  | .array es false => (evalList es).map .arr
  | .pair (.sym h false false) rest =>
    if h == "hash".toList then evalHashArgs rest [] else none
  | _ => none
def evalList : List Sexp → Option (List JV)
  | [] => some []
  | e :: r =>
    match evalData e, evalList r with
    | some v, some vs => some (v :: vs)
    | _, _ => none
/-- the arguments of `(hash …)`: colon functions dropped, then key/value pairs -/
def evalHashArgs : Sexp → List (JKey × JV) → Option JV
  | .null, acc => some (.hash acc)
  | .pair k rest, acc =>
    if isColonSym k then evalHashArgs rest acc else
    let key : Option JKey := match k with
      | .sym n true _ => some (.sym n)
      | .str s _ => some (.str s)
      | _ => none
    match key with
    | none => none
    | some key => evalHashVal key rest acc
  | _, _ => none
def evalHashVal (key : JKey) : Sexp → List (JKey × JV) → Option JV
  | .pair v rest, acc =>
    if isColonSym v then evalHashVal key rest acc else
    match evalData v with
    | some jv => evalHashArgs rest (setEntry key jv acc)
    | none => none
  | _, _ => none
end

end ZygoVerif.EvalData
