/-
Model of syntax-quote (macro template) compilation and of the VM instructions it uses.
Follows, arm by arm (after the fixes proposed in fixes/C15-*):

  zygo/generator.go  GenerateCallBySymbol case "syntaxQuote"   → `genTop`
                     GenerateSyntaxQuote                         → `genSQ`
                     generateSyntaxQuoteList                     → the `.cons` arm of `genSQ` + `genListBody`
                     generateSyntaxQuoteArray                    → `genArrBody`
                     generateSyntaxQuoteHash                     → `genHashBody`
  zygo/vm.go         PushInstr (of a value / of SexpMarker), ExplodeInstr, SquashInstr,
                     VectorizeInstr, HashizeInstr                → `step`
  zygo/listutils.go  ListToArray, MakeList; typeutils.go IsList  → `listToArray`, `mkList`, `isList`

Representation. Go lists are chains of `SexpPair` ending in `SexpNull` (or in anything else:
improper lists exist), so lists are `cons`/`nil` here as well. An array (`[]Sexp`) and the
key/value sequence of a hash (`KeyOrder` with the value of each key) are stored as a *proper
list* under the constructors `arr` / `hash`: k0 v0 k1 v1 … for a hash. The data stack holds
`Elem`s: a value or the marker sentinel `SexpMarker` (a distinct Go object that no script
expression evaluates to — modelling assumption).

What is abstract (`Host`): whether `gen.Generate(e)` succeeds for an unquoted expression `e`
(`genOK`), the value that running its code pushes (`eval`; `none` = run-time error; the code
of `e` is one `eval e` pseudo-instruction: it leaves the stack below untouched and pushes
exactly one value — that is property C04 for ordinary expressions, assumed here), and the
hash constructor `MakeHash` (`mkHash`; C14 is about its behaviour).
Core Lean only.
-/
namespace ZygoVerif.SQ

/-- Everything that is not a list, an array or a hash. -/
inductive Atom where
  | sym (name : String)
  | int (n : Int)
  | str (s : String)
  deriving DecidableEq, Repr

inductive Sexp where
  | atom (a : Atom)
  | nil
  | cons (h t : Sexp)
  | arr (elems : Sexp)
  | hash (ty : String) (flat : Sexp)
  deriving DecidableEq, Repr

/-- typeutils.go `IsList`. -/
def isList : Sexp → Bool
  | .nil => true
  | .cons _ t => isList t
  | _ => false

/-- listutils.go `ListToArray` (`none` = `NotAList`). -/
def listToArray : Sexp → Option (List Sexp)
  | .nil => some []
  | .cons h t => (listToArray t).map (h :: ·)
  | _ => none

/-- listutils.go `MakeList`. -/
def mkList : List Sexp → Sexp
  | [] => .nil
  | x :: xs => .cons x (mkList xs)

inductive Instr where
  | push (v : Sexp)        -- PushInstr{expr}
  | marker                 -- PushInstr{SexpMarker}
  | eval (e : Sexp)        -- the code `gen.Generate(e)` emitted, as one step
  | explode                -- ExplodeInstr
  | squash                 -- SquashInstr
  | vectorize              -- VectorizeInstr
  | hashize (ty : String)  -- HashizeInstr{TypeName}
  deriving DecidableEq, Repr

inductive Elem where
  | marker
  | val (v : Sexp)
  deriving DecidableEq, Repr

/-- The data stack, top first. -/
abbrev Stack := List Elem

structure Host where
  genOK : Sexp → Bool
  eval : Sexp → Option Sexp
  mkHash : String → List Sexp → Option Sexp

/-- The loop shared by squash / vectorize / hashize: pop until the marker (inclusive);
the popped values are returned in pop order (top first). `none` = stack underflow. -/
def popToMarker : Stack → Option (List Sexp × Stack)
  | [] => none
  | .marker :: st => some ([], st)
  | .val v :: st => (popToMarker st).map (fun (xs, r) => (v :: xs, r))

/-- Push values so that the last one ends on top (`for _, val := range arr { Push(val) }`). -/
def pushAll (xs : List Sexp) (st : Stack) : Stack := (xs.reverse.map Elem.val) ++ st

def step (H : Host) : Instr → Stack → Option Stack
  | .push v, st => some (.val v :: st)
  | .marker, st => some (.marker :: st)
  | .eval e, st => (H.eval e).map (fun v => .val v :: st)
  | .explode, st =>
    match st with
    | .val v :: r => (listToArray v).map (fun xs => pushAll xs r)
    | _ => none            -- empty stack, or the marker (not a list)
  | .squash, st =>         -- list = Cons(expr, list) while popping: the list is in push order
    (popToMarker st).map (fun (xs, r) => .val (mkList xs.reverse) :: r)
  | .vectorize, st =>      -- vec = append([]Sexp{expr}, vec...)
    (popToMarker st).map (fun (xs, r) => .val (.arr (mkList xs.reverse)) :: r)
  | .hashize ty, st =>     -- a = append([]Sexp{expr}, a...); MakeHash(a, TypeName, env)
    (popToMarker st).bind (fun (xs, r) => (H.mkHash ty xs.reverse).map (fun h => .val h :: r))

/-- Straight-line execution (template code has no jumps). -/
def run (H : Host) : List Instr → Stack → Option Stack
  | [], st => some st
  | i :: is, st => (step H i st).bind (run H is)

/-! ### Allocation
`VectorizeInstr` builds a new Go object on every execution (`&SexpArray{Val: vec}`), and so
does `HashizeInstr` (`MakeHash`); `PushInstr{expr}` pushes the very object the generator was
handed — the one that sits in the template's syntax tree, the same on every evaluation.
`runA` is `run` that also reports, in order, the containers allocated on the way. -/

/-- does a value hold an array or a hash anywhere inside? (lists, symbols, numbers and strings
cannot be changed in place; arrays and hashes can) -/
def hasContainer : Sexp → Bool
  | .atom _ => false
  | .nil => false
  | .cons h t => hasContainer h || hasContainer t
  | .arr _ => true
  | .hash _ _ => true

def stepA (H : Host) : Instr → Stack → Option (Stack × List Sexp)
  | .vectorize, st =>
    (popToMarker st).map (fun (xs, r) => (.val (.arr (mkList xs.reverse)) :: r, [.arr (mkList xs.reverse)]))
  | .hashize ty, st =>
    (popToMarker st).bind (fun (xs, r) => (H.mkHash ty xs.reverse).map (fun h => (.val h :: r, [h])))
  | i, st => (step H i st).map (fun st' => (st', []))

def runA (H : Host) : List Instr → Stack → Option (Stack × List Sexp)
  | [], st => some (st, [])
  | i :: is, st => (stepA H i st).bind (fun (st', a) => (runA H is st').map (fun (st'', b) => (st'', a ++ b)))

/-- `len(quotebody) == 2` with a head symbol named `unquote` / `unquote-splicing`:
`some (isSplice, e)`. `h`, `t` are head and tail of a proper list. -/
def unqKind (h t : Sexp) : Option (Bool × Sexp) :=
  match h, t with
  | .atom (.sym n), .cons e .nil =>
    if n = "unquote" then some (false, e)
    else if n = "unquote-splicing" then some (true, e)
    else none
  | _, _ => none

mutual
/-- `GenerateSyntaxQuote(arg)`; `none` = a generator error (propagated). -/
def genSQ (H : Host) : Sexp → Option (List Instr)
  | .arr elems => do
    let b ← genArrBody H elems
    some (.marker :: b ++ [.vectorize])
  | .cons h t =>
    if !isList t then some [.push (.cons h t)]        -- improper list: pushed as it is
    else match unqKind h t with
      | some (false, e) => if H.genOK e then some [.eval e] else none
      | some (true, e) => if H.genOK e then some [.eval e, .explode] else none
      | none => do
        let a ← genSQ H h
        let b ← genListBody H t
        some (.marker :: a ++ b ++ [.squash])
  | .hash ty flat => do
    let b ← genHashBody H flat
    some (.marker :: b ++ [.hashize ty])
  | s => some [.push s]
/-- the `for _, expr := range quotebody` loop, from the second element on -/
def genListBody (H : Host) : Sexp → Option (List Instr)
  | .cons h t => do
    let a ← genSQ H h
    let b ← genListBody H t
    some (a ++ b)
  | _ => some []
/-- the loop of generateSyntaxQuoteArray: every element in its own marker…squash;explode frame -/
def genArrBody (H : Host) : Sexp → Option (List Instr)
  | .cons h t => do
    let a ← genSQ H h
    let b ← genArrBody H t
    some (.marker :: a ++ [.squash, .explode] ++ b)
  | _ => some []
/-- the loop of generateSyntaxQuoteHash (key order; key frame then value frame) -/
def genHashBody (H : Host) : Sexp → Option (List Instr)
  | .cons k (.cons v rest) => do
    let fk ← genSQ H k
    let fv ← genSQ H v
    let r ← genHashBody H rest
    some (.marker :: fk ++ [.squash, .explode] ++ (.marker :: fv ++ [.squash, .explode]) ++ r)
  | _ => some []
end

/-- generator.go `isUnquoteSplicing`. -/
def isUnquoteSplicing : Sexp → Bool
  | .cons h t => isList t && (match unqKind h t with | some (true, _) => true | _ => false)
  | _ => false

/-- `case "syntaxQuote"` of GenerateCallBySymbol: a splice with nothing around it is refused. -/
def genTop (H : Host) (s : Sexp) : Option (List Instr) :=
  if isUnquoteSplicing s then none else genSQ H s

/-- Result of evaluating `(syntaxQuote s)` on a data stack `st`: `Run` pops one result; what
else the template code left above `st` is reported as a count (0 when the code is balanced). -/
def evalOn (H : Host) (code : Option (List Instr)) (st : Stack) : Option (Sexp × Stack) :=
  match code.bind (fun c => run H c st) with
  | some (.val v :: r) => some (v, r)
  | _ => none

/-- `EvalString("^tmpl")` on an interpreter with an empty data stack: the value and the
number of operands left behind. -/
def evalSQ (H : Host) (s : Sexp) : Option (Sexp × Nat) :=
  (evalOn H (genTop H s) []).map (fun (v, r) => (v, r.length))

end ZygoVerif.SQ
