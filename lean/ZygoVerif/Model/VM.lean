/-
Model of the stack VM: zygo/vm.go (every `Execute`), environment.go (`Run`, `CallFunction`,
`CallUserFunction` with its `recover`, `CallResolved`, `PrepareCallExprArgs`,
`EvalCallExpression`, `Apply`, `captureControlState`/`restoreControlState`,
`LexicalLookupSymbol`, `LoadExpressions`, `wrangleOptargs`), scopes.go, closing.go, stack.go,
datastack.go, expressions.go (`SexpFunction`, `SexpLazyArg.Force`). Core-only.

Scopes, function objects, arrays and lazy arguments are shared by reference in Go: they
are cells of explicit tables here. A Go error return is `Fault.err`; a Go panic that
reaches the host is `Fault.panic`; fuel exhaustion is `Fault.timeout`. State changes made
before an error stay (Go mutates in place), which is why the monad is `ExceptT` over
`StateM` and not the other way round. `Stack.TruncateToSize` may *grow* a stack with nil
elements; they are `none` here and touching one is the host panic it is in Go.
-/
import ZygoVerif.Model.Gen
import ZygoVerif.Model.LazySrc
namespace ZygoVerif.VM
open ZygoVerif.Core

structure Scope where
  vars : List (String × Val) := []
  isFunction : Bool := false
  myFunction : Option Nat := none
deriving Repr, Inhabited

structure LazyObj where
  e : Expr
  stack : List (Option Nat)
  curfunc : Nat
  value : Option Val
  isValue : Bool := false      -- `NewValueLazyArg` (apply/map): `Expr` is the value itself
deriving Repr, Inhabited

structure St where
  fns : List FnObj
  scopes : List Scope
  loops : List LoopRec := []
  loopstack : List Nat := []
  lazies : List LazyObj := []
  heap : DataHeap := {}
  data : List (Option Val) := []            -- datastack, top first
  linear : List (Option Nat) := []          -- linearstack (scope ids), top first
  suspended : List (List (Option Nat)) := []-- scope-stack objects set aside by `Force`
  addr : List (Option (Nat × Int)) := []    -- addrstack
  curfunc : Nat := 0
  pc : Int := 0
  trace : List String := []
deriving Repr, Inhabited

inductive Fault where | err | panic | timeout
deriving Repr, DecidableEq, Inhabited

abbrev M := ExceptT Fault (StateM St)

def mainFn : Nat := 0
def builtinFn : Nat := 1   -- stands for whichever Go builtin is running (`user = true`)

def globalNames : List String := coreBuiltins ++ ["trace"]

def initSt : St :=
  { fns := [{ name := "__main", closing := [some 0] }, { name := "builtin", user := true }],
    scopes := [{ vars := [("nil", .nil), ("null", .nil)] ++ globalNames.map (fun n => (n, Val.builtin n)) }],
    linear := [some 0] }

def err {α} : M α := throw .err
def hostPanic {α} : M α := throw .panic

/-! ## Stacks -/

/-- `TruncateToSize` on a top-first list: drop from the top, or pad nil elements on top. -/
def truncate {α} (l : List (Option α)) (n : Nat) : List (Option α) :=
  if l.length ≥ n then l.drop (l.length - n) else List.replicate (n - l.length) none ++ l

def pushData (v : Val) : M Unit := modify (fun s => { s with data := some v :: s.data })

/-- `PopExpr`: underflow is an error, a nil element a panic. -/
def popData : M Val := do
  let s ← get
  match s.data with
  | [] => err
  | none :: _ => hostPanic
  | some v :: rest => set { s with data := rest }; pure v

/-- `PopExpressions n` (in stack order: deepest first). -/
def popN (n : Nat) : M (List Val) := do
  let s ← get
  if s.data.length < n then err
  else
    let top := s.data.take n
    match top.mapM id with
    | none => hostPanic
    | some vs => set { s with data := s.data.drop n }; pure vs.reverse

def fnOf (s : St) (id : Nat) : FnObj := s.fns.getD id {}
def scopeOf (s : St) (id : Nat) : Scope := s.scopes.getD id {}
def isFnScope (s : St) (id : Nat) : Bool := (scopeOf s id).isFunction

/-- `CurrentFunctionSize`. -/
def curSize (s : St) : Int :=
  let f := fnOf s s.curfunc
  if f.user then 0 else f.code.length

structure CtlState where
  curfunc : Nat
  pc : Int
  susp : Nat
  addrSize : Nat
  linearSize : Nat
  dataSize : Nat

def capture : M CtlState := do
  let s ← get
  pure { curfunc := s.curfunc, pc := s.pc, susp := s.suspended.length, addrSize := s.addr.length,
         linearSize := s.linear.length, dataSize := s.data.length }

/-- `restoreControlState`: the scope-stack *pointer* is restored, then the three stacks are
truncated (or grown) to the recorded sizes. -/
def restore (c : CtlState) : M Unit := modify (fun s =>
  let (lin, susp) :=
    if s.suspended.length > c.susp then
      -- suspended is newest first: the object current at capture time is the oldest entry beyond c.susp
      (s.suspended.getD (s.suspended.length - c.susp - 1) [], s.suspended.drop (s.suspended.length - c.susp))
    else (s.linear, s.suspended)
  { s with addr := truncate s.addr c.addrSize, linear := truncate lin c.linearSize, suspended := susp,
           data := truncate s.data c.dataSize, curfunc := c.curfunc, pc := c.pc })

/-! ## Scopes and lookup -/

def assocSet (l : List (String × Val)) (x : String) (v : Val) : List (String × Val) :=
  if l.any (·.1 == x) then l.map (fun p => if p.1 == x then (x, v) else p) else (x, v) :: l

def setInScope (id : Nat) (x : String) (v : Val) : M Unit := modify (fun s =>
  let sc := scopeOf s id
  { s with scopes := s.scopes.set id { sc with vars := assocSet sc.vars x v } })

/-- `Stack.lookupSymbol`: the whole stack, top first; nil elements are skipped. -/
def lookupWhole (s : St) (x : String) : List (Option Nat) → Option (Nat × Val)
  | [] => none
  | none :: rest => lookupWhole s x rest
  | some id :: rest =>
    match (scopeOf s id).vars.lookup x with
    | some v => some (id, v)
    | none => lookupWhole s x rest

/-- `LookupSymbolUntilFunction(sym, setVal, 1, checkCaptures)`. -/
def lookupUntilFn (s : St) (x : String) (checkCaptures : Bool) : List (Option Nat) → Option (Nat × Val)
  | [] => none
  | none :: rest => lookupUntilFn s x checkCaptures rest
  | some id :: rest =>
    let sc := scopeOf s id
    match sc.vars.lookup x with
    | some v => some (id, v)
    | none =>
      if sc.isFunction then
        if checkCaptures then
          match sc.myFunction with
          | some f => lookupWhole s x (fnOf s f).closing
          | none => none
        else none
      else lookupUntilFn s x checkCaptures rest

/-- `LookupSymbolInParentChainOfClosures`; `fuel` bounds the chain by the table size. -/
def lookupChain (s : St) (x : String) : Nat → Nat → Option (Nat × Val)
  | 0, _ => none
  | fuel+1, cur =>
    let f := fnOf s cur
    match f.parent with
    | none => none
    | some par =>
      match lookupUntilFn s x false f.closing with
      | some r => some r
      | none => lookupChain s x fuel par

/-- `LexicalLookupSymbol` without the assignment. -/
def lexLookup (s : St) (x : String) : Option (Nat × Val) :=
  match lookupUntilFn s x false s.linear with
  | some r => some r
  | none =>
    let f := fnOf s s.curfunc
    let second :=
      if f.parent.isSome then lookupChain s x (s.fns.length + 1) s.curfunc
      else lookupUntilFn s x false f.closing
    match second with
    | some r => some r
    | none => lookupUntilFn s x true s.linear

/-- `LexicalBindSymbol` → `Stack.BindSymbol`: the top scope, with the re-binding rule. -/
def bindTop (x : String) (v : Val) : M Unit := do
  let s ← get
  match s.linear with
  | some id :: _ =>
    match (scopeOf s id).vars.lookup x with
    | some cur => if rebindOk s.heap cur v then setInScope id x v else err
    | none => setInScope id x v
  | _ => hostPanic

/-- `NewClosing(env)` for the current live stack. -/
def closingNow (s : St) : List (Option Nat) := newClosing (isFnScope s) s.linear

/-! ## Compilation at run time -/

/-- Run the generator on interpreter state (`NewGenerator(env)` … `gen.Generate`). -/
def runGen {α} (g : G α) : M α := do
  let s ← get
  let gs : GS := { fns := s.fns, loops := s.loops, loopstack := s.loopstack, live := s.linear }
  match g.run gs with
  | .ok (a, gs') => set { s with fns := gs'.fns, loops := gs'.loops, loopstack := gs'.loopstack }; pure a
  | .error _ =>
    -- templates and loop records made before the error stay; they are unreachable
    err

def mkFunction (name : String) (code : List Instr) (closing : List (Option Nat)) (parent : Option Nat) : M Nat := do
  let s ← get
  set { s with fns := s.fns ++ [({ name, code, closing, parent } : FnObj)] }
  pure s.fns.length

/-! ## Instructions -/

def jumpTo (newpc : Int) : M Unit := do
  let s ← get
  if newpc < 0 ∨ newpc > curSize s then err else set { s with pc := newpc }

def incPc : M Unit := modify (fun s => { s with pc := s.pc + 1 })

/-- `wrangleOptargs`. -/
def wrangleOptargs (fnargs nargs : Nat) : M Unit := do
  if nargs < fnargs then err
  else if nargs > fnargs then do
    let xs ← popN (nargs - fnargs)
    pushData (mkList xs)
  else pushData .nil

/-- `CallFunction` (with the harness's pre-hook: `GetExpressions(nargs)` first). -/
def callFunction (f : Nat) (nargs : Nat) : M Unit := do
  let s ← get
  if s.data.length < nargs then err
  if (s.data.take nargs).any Option.isNone then hostPanic
  let fo := fnOf s f
  if fo.varargs then wrangleOptargs fo.nargs nargs
  else if nargs ≠ fo.nargs then err
  modify (fun s => { s with addr := some (s.curfunc, s.pc + 1) :: s.addr, curfunc := f, pc := 0 })

def popScope : M Unit := do
  let s ← get
  match s.linear with
  | [] => err
  | _ :: rest => set { s with linear := rest }

def popScopes : Nat → M Unit
  | 0 => pure ()
  | n+1 => do popScope; popScopes n

/-- pop until the mark of `loop`; `keep` puts it back (`PopUntilStackmark` vs `ClearStackmark`). -/
def popToMark (loop : Nat) (keep : Bool) : Nat → M Unit
  | 0 => err
  | fuel+1 => do
    let v ← popData
    match v with
    | .mark l => if l = loop then (if keep then pushData v else pure ()) else popToMark loop keep fuel
    | _ => popToMark loop keep fuel

def findLoopStart (code : List Instr) (loop : Nat) : Option Nat :=
  code.findIdx? (fun i => match i with | .loopStart l => l == loop | _ => false)

mutual

/-- `Run`. -/
def run : Nat → M Val
  | 0 => throw .timeout
  | fuel+1 => do
    let st ← capture
    runLoop fuel st
    let s ← get
    if s.data.isEmpty then pushData .nil
    popData

def runLoop : Nat → CtlState → M Unit
  | 0, _ => throw .timeout
  | fuel+1, st => do
    let s ← get
    if s.pc = -1 ∨ s.pc ≥ curSize s then pure ()
    else
      match (fnOf s s.curfunc).code[s.pc.toNat]? with
      | none => pure ()
      | some instr =>
        let r : Except Fault Unit × St := (exec fuel instr).run s
        set r.2
        match r.1 with
        | .ok _ => runLoop fuel st
        | .error .err => do
          restore st
          modify (fun s => { s with pc := curSize s })
          throw .err
        | .error f => throw f

/-- `Instruction.Execute`. -/
def exec : Nat → Instr → M Unit
  | 0, _ => throw .timeout
  | fuel+1, instr =>
    match instr with
    | .push v => do pushData v; incPc
    | .pop => do
      let s ← get
      match s.data with
      | [] => incPc                       -- underflow is ignored
      | none :: _ => hostPanic
      | some _ :: rest => set { s with data := rest, pc := s.pc + 1 }
    | .dup => do
      let s ← get
      match s.data with
      | [] => err
      | none :: _ => hostPanic
      | some v :: _ => pushData v; incPc
    | .envToStack x => do
      let s ← get
      match lexLookup s x with
      | some (_, v) => pushData v; incPc
      | none => err
    | .popStackPutEnv x => do
      let v ← popData
      incPc
      bindTop x v
    | .update x => do
      let v ← popData
      incPc
      let s ← get
      match lexLookup s x with
      | some (id, _) => setInScope id x v
      | none => bindTop x v
    | .callArr n => callUser fuel "array" n
    | .callExpr callee args => do
      let f ← evalCallExpr fuel callee
      callResolved fuel f args
    | .jump off => do let s ← get; jumpTo (s.pc + off)
    | .goto loc => jumpTo loc
    | .branch dir off => do
      let v ← popData
      let s ← get
      if dir == truthy v then jumpTo (s.pc + off) else incPc
    | .ret => do
      let s ← get
      match s.addr with
      | [] => err
      | none :: _ => hostPanic
      | some (f, pc) :: rest => set { s with addr := rest, curfunc := f, pc := pc }
    | .addScope => modify (fun s =>
        { s with scopes := s.scopes ++ [({} : Scope)], linear := some s.scopes.length :: s.linear, pc := s.pc + 1 })
    | .addFuncScope t => modify (fun s =>
        { s with scopes := s.scopes ++ [({ isFunction := true, myFunction := some t } : Scope)],
                 linear := some s.scopes.length :: s.linear, pc := s.pc + 1 })
    | .removeScope => do incPc; popScope
    | .createClosure t => do
      incPc
      let s ← get
      let tm := fnOf s t
      let id := s.fns.length
      set { s with fns := s.fns ++ [({ tm with closing := closingNow s, parent := some s.curfunc } : FnObj)] }
      pushData (.fn id)
    | .prepareCall _ nargs => do
      -- fix C09-02: the callee is the running function (the guard established it before the
      -- operands ran); its variadic tail is packed
      let s ← get
      let fo := fnOf s s.curfunc
      if !fo.user && fo.varargs then wrangleOptargs fo.nargs nargs
      incPc
    | .tailGuard x skip => do
      -- TailGuardInstr (fix C09-02): the name is looked up before the operands, as an ordinary
      -- call resolves its callee first; unless it denotes the function object that is running,
      -- skip to the ordinary call behind the jump
      let s ← get
      match lexLookup s x with
      | some (_, .fn f) => if f = s.curfunc then incPc else set { s with pc := s.pc + skip }
      | _ => set { s with pc := s.pc + skip }
    | .pushLazy e => do
      let s ← get
      set { s with lazies := s.lazies ++ [({ e, stack := s.linear, curfunc := s.curfunc, value := none } : LazyObj)] }
      pushData (.lazy s.lazies.length)
      incPc
    | .loopStart _ => incPc
    | .label => incPc
    | .pushMark l => do pushData (.mark l); incPc
    | .popUntilMark l => do incPc; let s ← get; popToMark l true (s.data.length + 1)
    | .clearMark l => do let s ← get; popToMark l false (s.data.length + 1); incPc
    | .brk l n => do
      let s ← get
      match findLoopStart (fnOf s s.curfunc).code l with
      | none => err
      | some pos =>
        popScopes n
        modify (fun s => { s with pc := (pos : Int) + (s.loops.getD l {}).breakOff })
    | .cont l n => do
      let s ← get
      match findLoopStart (fnOf s s.curfunc).code l with
      | none => err
      | some pos =>
        popScopes n
        modify (fun s => { s with pc := (pos : Int) + (s.loops.getD l {}).contOff })
    | .assign => do
      -- AssignInstr: no value of the core language is a symbol or selector; two arrays of
      -- equal length bind element-wise (elements must be symbols: only the empty case succeeds)
      incPc
      let rhs ← popData
      let lhs ← popData
      let s ← get
      match lhs, rhs with
      | .arr a, .arr b => if (s.heap.get a).isEmpty ∧ (s.heap.get b).isEmpty then pushData rhs else err   -- leaves the assigned value (fix C04-03)
      | _, _ => err

/-- `EvalCallExpression`. -/
def evalCallExpr : Nat → Expr → M Val
  | 0, _ => throw .timeout
  | fuel+1, e =>
    match e with
    | .sym x => do
      let s ← get
      match lexLookup s x with
      | some (_, v) => pure v
      | none => err
    | _ => do
      let s0 ← get
      let (code, _) ← runGen (compile (isFnScope s0) {} e)
      if code.isEmpty then pure .nil
      else do
        let st ← capture
        let s ← get
        let f ← mkFunction "callExprEval" (code ++ [.ret]) (closingNow s) (some st.curfunc)
        modify (fun s => { s with pc := -2 })
        nested fuel f st

/-- the common tail of `EvalCallExpression` and `Force`: `CallFunction(sfun, 0)`, `Run`,
restore on every path. -/
def nested : Nat → Nat → CtlState → M Val
  | 0, _, _ => throw .timeout
  | fuel+1, f, st => do
    let s ← get
    let r : Except Fault Val × St := (do callFunction f 0; run fuel : M Val).run s
    set r.2
    match r.1 with
    | .ok v => do restore st; pure v
    | .error .err => do restore st; throw .err
    | .error flt => throw flt

/-- `PrepareCallExprArgs`. -/
def prepareArgs : Nat → Option FnObj → Nat → List Expr → M Unit
  | 0, _, _, _ => throw .timeout
  | _, _, _, [] => pure ()
  | fuel+1, f, i, e :: es => do
    let isLazy := match f with
      | some fo => !fo.user && fo.hasLazyFormals && fo.isLazyCallArg i
      | none => false
    if isLazy then do
      let s ← get
      set { s with lazies := s.lazies ++ [({ e, stack := s.linear, curfunc := s.curfunc, value := none } : LazyObj)] }
      pushData (.lazy s.lazies.length)
    else do
      let v ← evalCallExpr fuel e
      pushData v
    prepareArgs fuel f (i + 1) es

/-- `CallResolved`. -/
def callResolved : Nat → Val → List Expr → M Unit
  | 0, _, _ => throw .timeout
  | fuel+1, f, args => do
    let s0 ← get
    let start := s0.data.length
    let guarded (m : M Unit) : M Unit := do
      let s ← get
      let r : Except Fault Unit × St := m.run s
      set r.2
      match r.1 with
      | .ok _ => pure ()
      | .error .err => do modify (fun s => { s with data := truncate s.data start }); throw .err
      | .error flt => throw flt
    match f with
    | .fn id => guarded (do prepareArgs fuel (some (fnOf s0 id)) 0 args; callFunction id args.length)
    | .builtin name => guarded (do prepareArgs fuel none 0 args; callUser fuel name args.length)
    | .arr _ => guarded (do prepareArgs fuel none 0 args; err)   -- `([] int64)`-style type constructor: not in the core language
    | _ =>
      if args.isEmpty then do pushData f; incPc
      else err

/-- `CallUserFunction`: pop the arguments, run the Go function under `recover`, push the result. -/
def callUser : Nat → String → Nat → M Unit
  | 0, _, _ => throw .timeout
  | fuel+1, name, nargs => do
    let s ← get
    if s.data.length < nargs then err
    if (s.data.take nargs).any Option.isNone then hostPanic
    let args ← popN nargs
    let st ← capture
    modify (fun s => { s with addr := some (s.curfunc, s.pc + 1) :: s.addr, curfunc := builtinFn, pc := -1 })
    let s ← get
    let r : Except Fault Val × St := (builtin fuel name args).run s
    set r.2
    match r.1 with
    | .ok v => do
      pushData v
      let s ← get
      if s.addr.length > st.addrSize then
        match s.addr with
        | some (f, pc) :: rest => set { s with addr := rest, curfunc := f, pc := pc }
        | _ => hostPanic
      else set { s with curfunc := st.curfunc, pc := st.pc + 1 }
    | .error .timeout => throw .timeout
    | .error _ => do restore st; throw .err     -- `recover()` turns a panic into an error

/-- the Go builtins. -/
def builtin : Nat → String → List Val → M Val
  | 0, _, _ => throw .timeout
  | fuel+1, name, args =>
    if name = "trace" then do
      let v := args.headD .nil
      modify (fun s => { s with trace := s.trace ++ [pr s.heap v] })
      pure v
    else if name = "probe" then do
      -- host function of channel `tail` (C09): records the data/scope/address stack depths
      modify (fun s => { s with trace := s.trace ++ [s!"P{pr s.heap (args.headD .nil)}:{s.data.length}/{s.linear.length}/{s.addr.length}"] })
      pure .nil
    else if name = "force" then
      match args with
      | [.lazy id] => forceLazy fuel id
      | [v] => pure v
      | _ => err
    else if name = "substitute" then
      -- `SubstituteFunction`: the expression as parsed, never evaluated
      match args with
      | [.lazy id] => do
        let s ← get
        match s.lazies[id]? with
        | none => err
        | some lz =>
          if lz.isValue then pure (lz.value.getD .nil)
          else
            let (v, h) := quoteE lz.e s.heap
            set { s with heap := h }
            pure v
      | [v] => pure v
      | _ => err
    else if name = "apply" then
      match args with
      | [f, coll] =>
        if !isFunction f then err else do
        let s ← get
        match coll with
        | .arr r => applyFn fuel f (s.heap.get r)
        | .pair a b => match listToArray (.pair a b) with
          | some xs => applyFn fuel f xs
          | none => err
        | _ => err
      | _ => err
    else if name = "map" then
      match args with
      | [f, coll] =>
        if !isFunction f then err else
        match coll with
        | .arr r => do
          let s ← get
          let vs ← mapArr fuel f r 0 (s.heap.get r).length
          let s ← get
          let (a, h) := s.heap.alloc vs
          set { s with heap := h }
          pure a
        | .pair a b => mapList fuel f (.pair a b)
        | _ => err
      | _ => err
    else do
      let s ← get
      match prim name args s.heap with
      | some (v, h) => set { s with heap := h }; pure v
      | none => err

/-- `Apply`. -/
def applyFn : Nat → Val → List Val → M Val
  | 0, _, _ => throw .timeout
  | fuel+1, f, args =>
    match f with
    | .builtin name => builtin fuel name args
    | .fn id => do
      let st ← capture
      modify (fun s => { s with pc := -2 })
      let s ← get
      let fo := fnOf s id
      -- lazy positions receive already forced lazy objects
      let wrap : St × Nat → Val → St × Nat := fun (s, i) v =>
        if fo.isLazyCallArg i then
          ({ s with lazies := s.lazies ++ [({ e := .nilLit, stack := [], curfunc := 0, value := some v, isValue := true } : LazyObj)],
                    data := some (.lazy s.lazies.length) :: s.data }, i + 1)
        else ({ s with data := some v :: s.data }, i + 1)
      set (args.foldl wrap (s, 0)).1
      let s ← get
      let r : Except Fault Val × St := (do callFunction id args.length; run fuel : M Val).run s
      set r.2
      match r.1 with
      | .ok v => pure v
      | .error .err => do restore st; throw .err
      | .error flt => throw flt
    | _ => err

def mapArr : Nat → Val → Nat → Nat → Nat → M (List Val)
  | 0, _, _, _, _ => throw .timeout
  | fuel+1, f, r, i, n =>
    if i ≥ n then pure [] else do
    let s ← get
    let v ← applyFn fuel f [(s.heap.get r).getD i .nil]
    let vs ← mapArr fuel f r (i + 1) n
    pure (v :: vs)

def mapList : Nat → Val → Val → M Val
  | 0, _, _ => throw .timeout
  | fuel+1, f, l =>
    match l with
    | .nil => pure .nil
    | .pair a b => do
      let v ← applyFn fuel f [a]
      let t ← mapList fuel f b
      pure (.pair v t)
    | _ => err

/-- `SexpLazyArg.Force`. -/
def forceLazy : Nat → Nat → M Val
  | 0, _ => throw .timeout
  | fuel+1, id => do
    let s0 ← get
    match s0.lazies[id]? with
    | none => err
    | some lz =>
      match lz.value with
      | some v => pure v
      | none => do
        let (code, _) ← runGen (compile (isFnScope s0) {} lz.e)
        let finish (v : Val) : M Val := do
          modify (fun s => { s with lazies := s.lazies.set id ({ lz with value := some v } : LazyObj) })
          pure v
        if code.isEmpty then finish .nil
        else do
          let f ← mkFunction "lazyArgForce" (code ++ [.ret]) lz.stack (some lz.curfunc)
          let st ← capture
          modify (fun s => { s with suspended := s.linear :: s.suspended, linear := lz.stack, pc := -2 })
          let v ← nested fuel f st
          finish v

end

/-! ## Loading and running one program text -/

inductive Outcome where
  | done (cls : String) (value : String) (trace : List String) (depths : String)
  | dead
deriving Repr, Inhabited

def depths (s : St) : String :=
  s!"{s.data.length},{s.linear.length},{s.addr.length},{s.loopstack.length}"

/-- `LoadExpressions` + `Run` for the top-level forms of one text. Returns the outcome, the
state, and whether the interpreter is still usable. -/
def runText (fuel : Nat) (es : List Expr) (s : St) : Outcome × St × Bool :=
  let s := { s with trace := [] }
  -- LoadExpressions
  let pre : List Instr := if s.pc ≥ curSize s then [] else [.pop]
  let load : Except Fault (List Instr × Bool) × St := (runGen (compileBegin (isFnScope s) {} es)).run s
  match load.1 with
  | .error _ => (.done "cerr" "-" [] (depths load.2), load.2, true)
  | .ok (code, _) =>
    let s := load.2
    let mf := fnOf s mainFn
    let s := { s with fns := s.fns.set mainFn { mf with code := mf.code ++ pre ++ code }, curfunc := mainFn }
    let r : Except Fault Val × St := (run fuel).run s
    let s := r.2
    match r.1 with
    | .ok v => (.done "ok" (pr s.heap v) s.trace (depths s), s, true)
    | .error .err => (.done "err" "-" s.trace (depths s), s, true)
    | .error .panic => (.done "panic" "-" s.trace "-", s, false)
    | .error .timeout => (.done "timeout" "-" s.trace "-", s, false)

end ZygoVerif.VM
