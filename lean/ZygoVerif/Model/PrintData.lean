/-
Model of the printer `SexpString(nil)` (zygo/expressions.go, zygo/hashutils.go; `Pretty` off)
on the values the parser builds (`Sexp`) and on JSON-like values (`JV`), at the level of
RUNES: the text is produced as the list of code points the reader will be handed
(`ReadRune` over the printed bytes). This is exact for every value whose strings, names
and characters are valid Unicode (`List Char` cannot hold anything else); strings that are
not UTF-8 are outside this model (byte-level model of `strconv.Quote`: Model/Quote.lean).

As the code is with fixes/C12-03 (a whole float prints with `.0`) and C12-04 (a string key of
a hash is printed with `strconv.Quote`). `strconv.FormatFloat` is a parameter (`FloatFmt`):
DESIGN §5. `strconv.IsPrint` is the table regenerated from the Go standard library
(Generated/IsPrint.lean). Core Lean only.
-/
import ZygoVerif.Model.Sexp
import ZygoVerif.Generated.IsPrint
namespace ZygoVerif.PrintData
open ZygoVerif.Generated.IsPrint (isPrint)

/-- `strconv.FormatFloat(v, 'e' or 'f', -1, 64)` as a function of the IEEE bits and of the
`Scientific` flag (`true` = `'e'`). -/
abbrev FloatFmt := Nat → Bool → List Char

def lowerhex (n : Nat) : Char := Char.ofNat (if n % 16 < 10 then 0x30 + n % 16 else 0x61 + (n % 16 - 10))

/-- the `n` low hex digits of `v`, most significant first -/
def hexDigits : Nat → Nat → List Char
  | 0, _ => []
  | n + 1, v => lowerhex (v / 16 ^ n) :: hexDigits n v

/-- `appendEscapedRune buf r quote false false` for a valid rune. -/
def escapedRune (r quote : Char) : List Char :=
  if r == quote || r == '\\' then ['\\', r]
  else if isPrint r.toNat then [r]
  else if r == '\x07' then ['\\', 'a']
  else if r == '\x08' then ['\\', 'b']
  else if r == '\x0c' then ['\\', 'f']
  else if r == '\n' then ['\\', 'n']
  else if r == '\r' then ['\\', 'r']
  else if r == '\t' then ['\\', 't']
  else if r == '\x0b' then ['\\', 'v']
  else if r.toNat < 0x20 || r == '\x7f' then '\\' :: 'x' :: hexDigits 2 r.toNat
  else if r.toNat < 0x10000 then '\\' :: 'u' :: hexDigits 4 r.toNat
  else '\\' :: 'U' :: hexDigits 8 r.toNat

def quoteBody (q : Char) : List Char → List Char
  | [] => []
  | c :: r => escapedRune c q ++ quoteBody q r

/-- `strconv.Quote(s)` for a string of valid runes. -/
def quoteStr (s : List Char) : List Char := '"' :: quoteBody '"' s ++ ['"']

/-- `strconv.QuoteRune(r)`: an invalid rune (surrogate, beyond U+10FFFF; negative `int32`s are
passed as values ≥ 2^31) is replaced by U+FFFD first. -/
def quoteRune (v : Nat) : List Char :=
  let c : Char := if v.isValidChar then Char.ofNat v else Char.ofNat 0xFFFD
  '\'' :: escapedRune c '\'' ++ ['\'']

/-- decimal digits, most significant first (`strconv.FormatUint(n, 10)`); `fuel ≥ number of digits` -/
def decDigits : Nat → Nat → List Char
  | 0, n => [Char.ofNat (48 + n % 10)]
  | f + 1, n => if n < 10 then [Char.ofNat (48 + n)] else decDigits f (n / 10) ++ [Char.ofNat (48 + n % 10)]

def natDec (n : Nat) : List Char := decDigits n n

/-- `strconv.Itoa(int(v))` -/
def itoa (v : Int) : List Char := if v < 0 then '-' :: natDec v.natAbs else natDec v.toNat

/-- `SexpFloat.SexpString` -/
def printFloat (ff : FloatFmt) (bits : Nat) (sci : Bool) : List Char :=
  if sci then ff bits true
  else
    let s := ff bits false
    if s.any (fun c => c == '.' || c == 'I' || c == 'N') then s else s ++ ['.', '0']

/-- `SexpString(nil)` of everything that is not a list or an array -/
def printAtom (ff : FloatFmt) : Sexp → List Char
  | .int v => itoa v
  | .uint v => natDec v ++ "ULL".toList
  | .float b sci => printFloat ff b sci
  | .char v => quoteRune v
  | .str s raw => if raw then '`' :: s ++ ['`'] else quoteStr s
  | .sym n _ _ => n
  | .bool b => if b then "true".toList else "false".toList
  | .comment t _ => t
  | .comma => [',']
  | .semicolon => [';']
  | .null => "nil".toList
  | .endS => "End".toList
  | .emptyHash => "{}".toList
  | .pair _ _ => []
  | .array _ _ => []

def openBr (inf : Bool) : Char := if inf then '{' else '['
def closeBr (inf : Bool) : Char := if inf then '}' else ']'

mutual
/-- `SexpString(nil)` -/
def printSexp (ff : FloatFmt) : Sexp → List Char
  | .pair h t => '(' :: (printSexp ff h ++ printRest ff t)
  | .array es inf => openBr inf :: (printElems ff es ++ [closeBr inf])
  | .int v => printAtom ff (.int v)
  | .uint v => printAtom ff (.uint v)
  | .float b sci => printAtom ff (.float b sci)
  | .char v => printAtom ff (.char v)
  | .str s raw => printAtom ff (.str s raw)
  | .sym n a b => printAtom ff (.sym n a b)
  | .bool b => printAtom ff (.bool b)
  | .comment t b => printAtom ff (.comment t b)
  | .comma => printAtom ff .comma
  | .semicolon => printAtom ff .semicolon
  | .null => printAtom ff .null
  | .endS => printAtom ff .endS
  | .emptyHash => printAtom ff .emptyHash
/-- the rest of a list after a head: ` head` while the tail is a pair, then `)` for a nil
tail or ` \ tail)` -/
def printRest (ff : FloatFmt) : Sexp → List Char
  | .pair h t => ' ' :: (printSexp ff h ++ printRest ff t)
  | .null => [')']
  | .array es inf => " \\ ".toList ++ (openBr inf :: (printElems ff es ++ [closeBr inf])) ++ [')']
  | .int v => " \\ ".toList ++ printAtom ff (.int v) ++ [')']
  | .uint v => " \\ ".toList ++ printAtom ff (.uint v) ++ [')']
  | .float b sci => " \\ ".toList ++ printAtom ff (.float b sci) ++ [')']
  | .char v => " \\ ".toList ++ printAtom ff (.char v) ++ [')']
  | .str s raw => " \\ ".toList ++ printAtom ff (.str s raw) ++ [')']
  | .sym n a b => " \\ ".toList ++ printAtom ff (.sym n a b) ++ [')']
  | .bool b => " \\ ".toList ++ printAtom ff (.bool b) ++ [')']
  | .comment t b => " \\ ".toList ++ printAtom ff (.comment t b) ++ [')']
  | .comma => " \\ ".toList ++ printAtom ff .comma ++ [')']
  | .semicolon => " \\ ".toList ++ printAtom ff .semicolon ++ [')']
  | .endS => " \\ ".toList ++ printAtom ff .endS ++ [')']
  | .emptyHash => " \\ ".toList ++ printAtom ff .emptyHash ++ [')']
/-- elements separated by one space -/
def printElems (ff : FloatFmt) : List Sexp → List Char
  | [] => []
  | [a] => printSexp ff a
  | a :: b :: r => printSexp ff a ++ ' ' :: printElems ff (b :: r)
end

/-! ## JSON-like values (the half of the property that is read back by evaluation) -/

inductive JKey where
  | sym (name : List Char)
  | str (s : List Char)
  deriving DecidableEq, Repr, Inhabited

/-- numbers, strings, booleans, nil, arrays, anonymous hashes with symbol or string keys in
`KeyOrder` -/
inductive JV where
  | nil
  | bool (b : Bool)
  | int (v : Int)
  | flt (bits : Nat) (sci : Bool)
  | str (s : List Char)
  | arr (es : List JV)
  | hash (entries : List (JKey × JV))
  deriving Repr, Inhabited

def printKey : JKey → List Char
  | .sym n => n
  | .str s => quoteStr s

mutual
/-- `SexpString(nil)` of a JSON-like value (`SexpHash.SexpString` with `TypeName == "hash"`) -/
def printJ (ff : FloatFmt) : JV → List Char
  | .nil => "nil".toList
  | .bool b => if b then "true".toList else "false".toList
  | .int v => itoa v
  | .flt b sci => printFloat ff b sci
  | .str s => quoteStr s
  | .arr es => '[' :: printJElems ff es ++ [']']
  | .hash en => '{' :: printJEntries ff en ++ ['}']
def printJElems (ff : FloatFmt) : List JV → List Char
  | [] => []
  | [a] => printJ ff a
  | a :: b :: r => printJ ff a ++ ' ' :: printJElems ff (b :: r)
def printJEntries (ff : FloatFmt) : List (JKey × JV) → List Char
  | [] => []
  | [(k, v)] => printKey k ++ ':' :: printJ ff v
  | (k, v) :: e :: r => printKey k ++ ':' :: printJ ff v ++ ' ' :: printJEntries ff (e :: r)
end

end ZygoVerif.PrintData
