/-
Pre-repair definitions of the syntax-quote generator, kept only for the `…_counterexample`
theorems of Props/C15 (kernel-checked witnesses that the pinned tree violated C15). The main
model (`Model/SQ.lean`) follows the repaired tree. (A separate file rather than
`Model/Legacy.lean` only to keep concurrent work on that shared file free of conflicts.)

Differences to `SQ`:
* no top-level check: `(syntaxQuote (unquote-splicing e))` compiled to `<e>; explode`
  (fixes/C15-02);
* hash templates were emitted in reverse key order, value before key, and `hashize` handed
  the operands to MakeHash in pop order (fixes/C15-03);
* errors of `gen.Generate(e)` and of the recursive calls were discarded — a failing unquote
  contributed no instruction, a failing splice only its `explode` (repaired upstream by the
  integrator's commit "compile errors inside syntax-quote templates … were dropped").
The reader defect (`~(` unlexable, fixes/C15-01) lives in lexer.go, outside this model.
-/
import ZygoVerif.Model.SQ
namespace ZygoVerif.Legacy.SQ
open ZygoVerif.SQ

/-- HashizeInstr before the fix: `a = append(a, expr)` — pop order. -/
def step (H : Host) : Instr → Stack → Option Stack
  | .hashize ty, st =>
    (popToMarker st).bind (fun (xs, r) => (H.mkHash ty xs).map (fun h => .val h :: r))
  | i, st => ZygoVerif.SQ.step H i st

def run (H : Host) : List Instr → Stack → Option Stack
  | [], st => some st
  | i :: is, st => (step H i st).bind (run H is)

mutual
def genSQ (H : Host) : Sexp → List Instr
  | .arr elems => .marker :: genArrBody H elems ++ [.vectorize]
  | .cons h t =>
    if !isList t then [.push (.cons h t)]
    else match unqKind h t with
      | some (false, e) => if H.genOK e then [.eval e] else []
      | some (true, e) => (if H.genOK e then [.eval e] else []) ++ [.explode]
      | none => .marker :: genSQ H h ++ genListBody H t ++ [.squash]
  | .hash ty flat => .marker :: genHashBody H flat ++ [.hashize ty]
  | s => [.push s]
def genListBody (H : Host) : Sexp → List Instr
  | .cons h t => genSQ H h ++ genListBody H t
  | _ => []
def genArrBody (H : Host) : Sexp → List Instr
  | .cons h t => .marker :: genSQ H h ++ [.squash, .explode] ++ genArrBody H t
  | _ => []
/-- reverse key order; value frame, then key frame -/
def genHashBody (H : Host) : Sexp → List Instr
  | .cons k (.cons v rest) =>
    genHashBody H rest ++ (.marker :: genSQ H v ++ [.squash, .explode])
      ++ (.marker :: genSQ H k ++ [.squash, .explode])
  | _ => []
end

/-- value and number of operands left behind, as `SQ.evalSQ`. -/
def evalSQ (H : Host) (s : Sexp) : Option (Sexp × Nat) :=
  match run H (genSQ H s) [] with
  | some (.val v :: r) => some (v, r.length)
  | _ => none

end ZygoVerif.Legacy.SQ
