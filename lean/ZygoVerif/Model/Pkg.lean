/-
Model of dot-path access into packages and hashes (C18). Core Lean only.

Follows, arm by arm, the code as it is AFTER fixes C18-01 and C18-02:
  zygo/functions.go  errIfPrivate, stripAnyDotPrefix, dotGetSetHelper
  zygo/stack.go      (*Stack).nestedPathGetSet      — "stack walker"
  zygo/hashutils.go  (*SexpHash).nestedPathGetSet   — "hash walker"
  zygo/scopes.go     (*Stack).lookupSymbol          — top-down scope search
  zygo/vm.go         PopScopeTransferToDataStackInstr (a package value is a clone of the
                     WHOLE scope stack: own scope first, then every enclosing scope down to
                     the global one — the scope objects are shared, not copied)

Scopes and hashes are shared by reference in Go, so they live in an explicit heap and
values only carry addresses. The Go index loops (`for i := range dotpaths`) become
structural recursion on the remaining path; "i == lenpath-1" is "the rest is empty".
The pre-fix walkers are in `Model/LegacyPkg.lean`.
-/
import ZygoVerif.Generated.Pkg
namespace ZygoVerif.Pkg

/-- A path part without its dot, as code points. `DotPartsRegex` never yields an empty
part; `errIfPrivate` would index out of range on one (modelled as `Err.panic`). -/
abbrev Name := List Nat

/-- `unicode.IsUpper`, from the table regenerated out of Go's own `unicode` package. -/
def isUpperRune (c : Nat) : Bool :=
  Generated.Pkg.upperRanges.any (fun r => r.1 ≤ c && c ≤ r.2)

inductive Val where
  | int (n : Int)                         -- any scalar
  | fn (id : Nat)                         -- *SexpFunction
  | pkg (name : Name) (stack : List Nat)  -- *Stack with IsPackage: scope addresses, TOP FIRST
  | hash (id : Nat)                       -- *SexpHash (anonymous `hash` type, symbol keys)
  | sym (path : List Name)                -- an unresolved dot symbol stored as a value
  deriving DecidableEq, Repr, Inhabited

abbrev Binds := List (Name × Val)

structure Heap where
  scopes : List Binds
  hashes : List Binds
  deriving DecidableEq, Repr, Inhabited

inductive Err where
  | priv        -- "Cannot access private member"
  | notfound    -- "could not find symbol" / "symbol not found" / "has no field"
  | notrecord   -- "not a record …: cannot get field"
  | panic       -- host panic (index out of range in errIfPrivate on an empty name)
  | other
  deriving DecidableEq, Repr, Inhabited

abbrev Res := Except Err (Val × Heap)

/-! ### association lists (scope maps and hash tables keyed by symbol) -/

def assocGet (nm : Name) : Binds → Option Val
  | [] => none
  | (k, v) :: rest => if k = nm then some v else assocGet nm rest

/-- Update in place when bound, else append (a hash keeps insertion order; for a scope the
order is immaterial). -/
def assocSet (nm : Name) (x : Val) : Binds → Binds
  | [] => [(nm, x)]
  | (k, v) :: rest => if k = nm then (k, x) :: rest else (k, v) :: assocSet nm x rest

def Heap.scope (h : Heap) (id : Nat) : Binds := h.scopes.getD id []
def Heap.hashObj (h : Heap) (id : Nat) : Binds := h.hashes.getD id []

def Heap.setScope (h : Heap) (id : Nat) (nm : Name) (x : Val) : Heap :=
  { h with scopes := h.scopes.set id (assocSet nm x (h.scope id)) }
def Heap.setHash (h : Heap) (id : Nat) (nm : Name) (x : Val) : Heap :=
  { h with hashes := h.hashes.set id (assocSet nm x (h.hashObj id)) }

/-- `(*Stack).lookupSymbol(sym, 0, nil)`: the first scope from the top that binds the
name; returns the value and the address of that scope. -/
def lookupStack (h : Heap) (nm : Name) : List Nat → Option (Val × Nat)
  | [] => none
  | s :: rest =>
    match assocGet nm (h.scope s) with
    | some v => some (v, s)
    | none => lookupStack h nm rest

/-- `errIfPrivate`: `!unicode.IsUpper([]rune(noDot)[0])` ⇒ error. -/
def errIfPrivate : Name → Except Err Unit
  | [] => .error .panic
  | c :: _ => if isUpperRune c then .ok () else .error .priv

/-- Where a walker currently stands. -/
inductive Cur where
  /-- inside `(*Stack).nestedPathGetSet` with `curStack` = this package -/
  | stack (name : Name) (scopes : List Nat)
  /-- inside `(*SexpHash).nestedPathGetSet` with `askh` = this hash; `via` = the `viaPkg`
  argument is non-nil (the path reached the hash through a package) -/
  | hash (id : Nat) (via : Bool)
  deriving DecidableEq, Repr

/-- Both walkers and the hand-over between them. `sv = some x` is a set of `x` at the
last part, `none` a get. Precondition of the Go functions: the path is non-empty. -/
def walk (h : Heap) (sv : Option Val) : Cur → List Name → Res
  | _, [] => .error .other                         -- "dotpaths had zero length"
  -- (*Stack).nestedPathGetSet, one iteration of the loop
  | .stack _ scopes, nm :: rest =>
    match lookupStack h nm scopes with
    | none => .error .notfound                     -- "could not find symbol … in current package"
    | some (v, sid) =>
      match rest with
      | [] =>
        match sv with
        | some x =>                                -- setVal != nil && i == lenpath-1
          match errIfPrivate nm with
          | .error e => .error e
          | .ok _ => .ok (x, h.setScope sid nm x)   -- scop.Map[curSym.number] = *setVal
        | none =>                                  -- i == lenpath-1, get
          match v with
          | .pkg _ _ => .ok (v, h)                 -- "allow package within package to be inspected"
          | _ =>
            match errIfPrivate nm with
            | .error e => .error e
            | .ok _ => .ok (v, h)
      | nxt :: more =>                             -- i < lenpath-1: go deeper
        match v with
        | .hash hid =>
          match errIfPrivate nm with
          | .error e => .error e
          | .ok _ => walk h sv (.hash hid true) (nxt :: more)   -- dotpaths[i+1:], viaPkg = curStack
        | .pkg pn sc => walk h sv (.stack pn sc) (nxt :: more)  -- curStack = x
        | _ => .error .notrecord                   -- "not a record or scope"
  -- (*SexpHash).nestedPathGetSet, one iteration of the loop
  | .hash hid via, nm :: rest =>
    match (if via then errIfPrivate nm else .ok ()) with      -- if viaPkg != nil { errIfPrivate }
    | .error e => .error e
    | .ok _ =>
      match rest with
      | [] =>
        match sv with
        | some x => .ok (x, h.setHash hid nm x)     -- askh.HashSet(sym, *setVal)
        | none =>
          match assocGet nm (h.hashObj hid) with
          | none => .error .notfound               -- "hash has no field"
          | some v => .ok (v, h)
      | nxt :: more =>
        match assocGet nm (h.hashObj hid) with
        | none => .error .notfound
        | some v =>
          match v with
          | .hash hid' => walk h sv (.hash hid' via) (nxt :: more)   -- askh = x
          | .pkg pn sc => walk h sv (.stack pn sc) (nxt :: more)     -- x.nestedPathGetSet(dotpaths[i+1:])
          | _ => .error .notrecord                 -- "not a record: cannot get field"

/-- `dotGetSetHelper(env, name, setVal)` for a path of at least two parts: the first part
is looked up lexically (`lex` = the live scope stack, top first — at top level just the
global scope), then the walker that fits the value takes over with `path[1:]`.
The one-part cases (plain lookup / `LexicalBindSymbol`) involve no member hop. -/
def dotGetSet (h : Heap) (lex : List Nat) (sv : Option Val) : List Name → Res
  | [] => .error .other
  | root :: rest =>
    match lookupStack h root lex with
    | none => .error .notfound
    | some (v, _) =>
      match rest with
      | [] =>
        match sv with
        | none => .ok (v, h)                 -- lenpath == 1 get: the plain lookup
        | some _ => .error .other            -- lenpath == 1 set is LexicalBindSymbol: no member hop, not modelled
      | _ :: _ =>
        match v with
        | .pkg pn sc => walk h sv (.stack pn sc) rest      -- pkg.nestedPathGetSet(env, path[1:], setVal)
        | .hash hid => walk h sv (.hash hid false) rest    -- h.nestedPathGetSet(env, path[1:], setVal, nil)
        | _ => .error .notrecord                           -- "not a record: cannot get field … in non-record"

/-- Code defined inside a package refers to the package's members by plain symbols; those
are resolved by lexical lookup through the closure's captured scope stack (the package's
own scope and its enclosing scopes) and never pass `errIfPrivate`. -/
def insideGet (h : Heap) (stack : List Nat) (nm : Name) : Res :=
  match lookupStack h nm stack with
  | none => .error .notfound
  | some (v, _) => .ok (v, h)

/-- `(set nm x)` from inside: `UpdateInstr` updates the binding where lexical lookup finds it. -/
def insideSet (h : Heap) (stack : List Nat) (nm : Name) (x : Val) : Res :=
  match lookupStack h nm stack with
  | none => .ok (x, h)          -- bound in the function's own scope, which dies with the call
  | some (_, sid) => .ok (x, h.setScope sid nm x)

/-! ### The dereferencing routes of the script language

Every route resolves its dot symbol through `dotGetSetHelper`; what differs is what is
done with the value afterwards. `World` adds the functions defined inside packages: the
channel only defines getters `(defn G [] target)` and setters `(defn S [zzv] (set target zzv))`,
whose bodies use PLAIN symbols (inside access). -/

structure Fn where
  name : Name
  setter : Bool
  target : Name
  stack : List Nat      -- the scope stack captured by the closure = the package's stack
  deriving DecidableEq, Repr, Inhabited

structure World where
  heap : Heap
  fns : List Fn
  deriving DecidableEq, Repr, Inhabited

inductive SetRoute where
  | infix    -- {p = n}
  | pre      -- (= p n)
  | set      -- (set p n)
  deriving DecidableEq, Repr

inductive Step where
  | opnd (p : List Name)                      -- (+ p 0)            operand of a builtin
  | call0 (p : List Name)                     -- (p)                call through a dot path, no argument
  | call1 (p : List Name) (n : Int)           -- (p n)              call through a dot path
  | arg (p : List Name)                       -- (zzid p)           argument of a user function
  | rhs (nm : Name) (p : List Name) (inf : Bool)  -- (def nm p) or {nm = p} at top level: alias / right-hand side
  | set (r : SetRoute) (p : List Name) (n : Int)
  | setrhs (p q : List Name)                  -- {p = q}
  deriving DecidableEq, Repr

/-- What a get-like route does with the value the path resolved to. `glob` is the address
of the global scope (where a top-level `def` binds). -/
def afterGet (w : World) (glob : Nat) : Step → Val → Except Err (Val × World)
  | .opnd _, v =>
    match v with
    | .int n => .ok (.int n, w)
    | _ => .error .other                        -- "operands have invalid type"
  | .call0 _, v =>
    match v with
    | .fn id =>
      match w.fns[id]? with
      | none => .error .other
      | some f =>
        if f.setter then .error .other          -- arity
        else match insideGet w.heap f.stack f.target with
          | .error e => .error e
          | .ok (r, _) => .ok (r, w)
    | _ => .ok (v, w)                           -- a non-function called with no argument is itself
  | .call1 _ n, v =>
    match v with
    | .fn id =>
      match w.fns[id]? with
      | none => .error .other
      | some f =>
        if !f.setter then .error .other         -- arity
        else match insideSet w.heap f.stack f.target (.int n) with
          | .error e => .error e
          | .ok (r, h) => .ok (r, { w with heap := h })
    | _ => .error .other                        -- "not a function on top of datastack"
  | .arg _, v => .ok (v, w)
  | .rhs nm _ _, v => .ok (v, { w with heap := w.heap.setScope glob nm v })
  | .set .., v => .ok (v, w)
  | .setrhs .., v => .ok (v, w)

/-- One top-level statement, evaluated outside every package (`lex = [glob]`); `dgs` is
`dotGetSetHelper` (a parameter only so that the pre-fix walkers can be run through the
same routes). -/
def runStepWith (dgs : Heap → List Nat → Option Val → List Name → Res) (w : World) (glob : Nat) :
    Step → Except Err (Val × World)
  | .set _ p n =>
    match dgs w.heap [glob] (some (.int n)) p with
    | .error e => .error e
    | .ok (x, h) => .ok (x, { w with heap := h })
  | .setrhs p q =>
    match dgs w.heap [glob] none q with
    | .error e => .error e
    | .ok (v, _) =>
      match dgs w.heap [glob] (some v) p with
      | .error e => .error e
      | .ok (x, h) => .ok (x, { w with heap := h })
  | st@(.opnd p) | st@(.call0 p) | st@(.call1 p _) | st@(.arg p) | st@(.rhs _ p _) =>
    match dgs w.heap [glob] none p with
    | .error e => .error e
    | .ok (v, _) => afterGet w glob st v

abbrev runStep := runStepWith dotGetSet

end ZygoVerif.Pkg
