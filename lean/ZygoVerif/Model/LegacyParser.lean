/-
Pre-repair behaviour of the parser front end, kept for the `…_counterexample` theorems of
Props/C13 and Props/C12.

Before repo fix C13-02 `Parser.EndInput` only queued the final newline; the lexer had no mark
that the input was finished, and the ±Inf look-ahead after a lone `+`/`-`
(`ParserPeekNextToken`) went on asking for more input at the end of a finished text. On the
model this is the same delivery protocol in which the last piece does not set the mark
(`eof := false`): `peekAfterSign` then never sees the end and is `ParserPeekNextToken(0)`
(`Props/C13.legacy_signPeek_is_waitPeek`).
-/
import ZygoVerif.Model.Parser
namespace ZygoVerif.Legacy.Parser
open ZygoVerif.Lexer ZygoVerif.Parser

def initState (l : LexState) (chunks : List (List Char)) : PState :=
  { ZygoVerif.Parser.initState l chunks with eof := false }

def parseChunksFrom (l : LexState) (chunks : List (List Char)) : Result :=
  match run (topLoop (fuelFor chunks)) (initState l chunks) with
  | (.ret _, s) => ⟨.done, s.exprs, s.trace⟩
  | (.stop st, s) => ⟨st, s.exprs, s.trace⟩

def parseChunks (chunks : List (List Char)) : Result := parseChunksFrom LexState.init chunks

end ZygoVerif.Legacy.Parser
