/-
Model of zygo/pratt.go (C06): `Pratt.Expression`, the nud/led closures built by
`Infix/Infixr/Prefix/Assignment/PostfixAssign`, the overriding munchers of `InitInfixOps`
(`*` as prefix, `if`, `for`, `break/continue`, dot and array selectors), `LeftBindingPower`,
`normalizeArraySelector`, `lowerGoFor`, `InfixExpandArray`. Core Lean only.

The operator table is NOT written here: `Table.generated` is computed from
`Generated/InfixTable.lean`, which `zyx` regenerates from the working tree.

State of a Go `Pratt` value: `Pos/Stream` become the list `ts` of tokens not yet consumed
(`NextToken` is its head); `stale` is the value `NextToken` keeps once `Pos` has run off the
end of the stream (`Advance` does not update it at EOF): the last token of the stream, except
after a `for` header that jumps straight to the end. `Expression` at EOF returns that token.
Loops are fuel-indexed; `expression` supplies enough fuel (see `Proofs`).
-/
import ZygoVerif.Generated.InfixTable
import ZygoVerif.Model.Sx
namespace ZygoVerif.Pratt
open ZygoVerif.Generated.InfixTable (Entry Ctor)

/-- The numbers and handlers the parser consults. -/
structure Table where
  entries : List Entry
  lbpArr : Nat        -- LeftBindingPower of an array token
  lbpDot : Nat        -- … of a dot-symbol that is not itself in the table
  lbpComma : Nat      -- … of a comma token
  lbpChar : Option Nat   -- … of a *SexpChar (`none`: no arm, LeftBindingPower returns its error)
  lbpUint : Option Nat   -- … of a *SexpUint64
  lbpNull : Option Nat   -- … of nil `()` (*SexpSentinel; `none`: no arm — before fix C06-02)
  starRbp : Nat       -- rbp used by starOpMunchRight
  ifCond : Nat        -- the three rbps of the `if` muncher
  ifThen : Nat
  ifElse : Nat
deriving Repr

namespace Table

/-- `env.infixOps[name]`: a later constructor call for the same name replaces an earlier one. -/
def find? (T : Table) (name : String) : Option Entry :=
  T.entries.reverse.find? (fun e => e.name == name)

end Table

/-- What `Expression` does with the first token of an expression (`MunchRight`, aka nud). -/
inductive Nud where
  | atom                          -- no MunchRight: the token itself
  | pre (name : String) (rbp : Nat)   -- (name <Expression rbp>)
  | ifop | forop | loopctl (name : String)
deriving Repr, DecidableEq

/-- What the loop of `Expression` does with a token it decided to consume (`MunchLeft`, aka led). -/
inductive Led where
  | bin (name : String) (rbp : Nat)   -- (name left <Expression rbp>)
  | post (name : String)              -- (name left)
  | field                             -- (hashidx left token)
  | index                             -- (arrayidx left <normalised selector>)
  | drop                              -- no MunchLeft: the token replaces what was parsed so far
deriving Repr, DecidableEq

def nudOfEntry (T : Table) (e : Entry) : Nud :=
  if e.nud == "" then
    match e.ctor with
    | .prefix => .pre e.name e.bp
    | _ => .atom
  else if e.nud == "starOpMunchRight" then .pre "*" T.starRbp
  else if e.nud == "forOpMunchRight" then .forop
  else if e.nud == "loopControlOpMunchRight" then .loopctl e.name
  else if e.nud == "funclit" then .ifop
  else .atom

def ledOfEntry (e : Entry) : Led :=
  if e.led == "dotOpMunchLeft" then .field
  else match e.ctor with
    | .infix => .bin e.name e.bp
    | .infixr => .bin e.name (e.bp - 1)
    | .assignment => .bin (if e.name == "=" || e.name == ":=" then "set" else e.name) (e.bp - 1)
    | .postfixAssign => .post e.name
    | .prefix => .drop

/-- nud of a token: only symbols found in the table have one. -/
def nudOf (T : Table) (t : Sx) : Nud :=
  match t.symName? with
  | some n => match T.find? n with
    | some e => nudOfEntry T e
    | none => .atom
  | none => .atom

/-- The `curOp` selection in the loop of `Expression`. -/
def ledOf (T : Table) (t : Sx) : Led :=
  match t with
  | .sym n | .lab n => match T.find? n with
    | some e => ledOfEntry e
    | none => .drop
  | .dot n => match T.find? n with
    | some e => ledOfEntry e
    | none => match T.find? "." with
      | some e => ledOfEntry e
      | none => .drop
  | .arr _ => .index
  | .comma => match T.find? "comma" with
    | some e => ledOfEntry e
    | none => .drop
  | _ => .drop

/-- `LeftBindingPower`; `none` is its "unhandled sx" error. -/
def lbp (T : Table) : Sx → Option Nat
  | .lit _ => some 0
  | .sym n | .lab n =>
    if n == "if" then some 0 else
    match T.find? n with
    | some e => some e.bp
    | none => some 0
  | .dot n =>
    if n == "if" then some 0 else
    match T.find? n with
    | some e => some e.bp
    | none => some T.lbpDot
  | .arr _ => some T.lbpArr
  | .comma => some T.lbpComma
  | .semi => some 0
  | .list _ => some 0
  | .hash => some 0
  | .other isUint _ => if isUint then T.lbpUint else T.lbpChar
  | .null => T.lbpNull

/-- splitColonTailSelectorSymbols -/
def splitColonTail : List Sx → List Sx
  | [] => []
  | .lab n :: ts => .sym n :: .sym ":" :: splitColonTail ts
  | t :: ts => t :: splitColonTail ts

def countNamed (n : String) (ts : List Sx) : Nat := (ts.filter (·.isNamed n)).length

def staleOf (ts : List Sx) : Sx := ts.getLast?.getD .null

/-- isForBodyBlock: a nested infix block or the empty hash. -/
def isForBody : Sx → Bool
  | .hash => true
  | .list (h :: _) => h.isNamed "infix"
  | _ => false

/-- forBodyExpressions for a token that satisfies isForBody. -/
def forBody : Sx → List Sx
  | .list [_] => []            -- `(infix)`: an empty block
  | .hash => []
  | b => [b]

def splitOnSemis (ts : List Sx) : List (List Sx) :=
  ts.foldr (fun t acc => if t.isSemi then [] :: acc else
    match acc with
    | [] => [[t]]
    | s :: rest => (t :: s) :: rest) [[]]

def call (name : String) (args : List Sx) : Sx := .list (.sym name :: args)

def forList (label : Option Sx) (control : Sx) (body : List Sx) : Sx :=
  .list (.sym "for" :: (label.toList ++ control :: body))

/-- Result of `Expression`: the tree, the stale token, the unconsumed tokens. -/
abbrev Res := Option (Sx × Sx × List Sx)

mutual
/-- `Pratt.Expression(rbp)`; `none` = an error return. -/
def expr (T : Table) : Nat → Nat → Sx → List Sx → Res
  | 0, _, _, _ => none
  | _+1, _, st, [] => some (st, st, [])
  | f+1, rbp, st, t :: ts =>
    match nudOf T t with
    | .atom => loop T f rbp t st ts
    | .pre name r =>
      match expr T f r st ts with
      | none => none
      | some (x, st1, ts1) => loop T f rbp (.list [.sym name, x]) st1 ts1
    | .ifop =>
      match expr T f T.ifCond st ts with
      | none => none
      | some (c, st1, ts1) =>
        match expr T f T.ifThen st1 ts1 with
        | none => none
        | some (th, st2, ts2) =>
          let next := ts2.head?.getD st2
          if next.isNamed "else" then
            match expr T f T.ifElse st2 ts2.tail with
            | none => none
            | some (el, st3, ts3) => loop T f rbp (call "cond" [c, th, el]) st3 ts3
          else loop T f rbp (call "cond" [c, th, .null]) st2 ts2
    | .loopctl name =>
      match ts with
      | [] => loop T f rbp (call name []) st []
      | u :: us =>
        if u.symName?.isSome then loop T f rbp (call name [u]) st us
        else loop T f rbp (call name []) st ts
    | .forop =>
      match forNud T f none st ts with
      | none => none
      | some (x, st1, ts1) => loop T f rbp x st1 ts1

/-- The `for !p.IsEOF()` loop of `Expression`; `left` is `p.AccumTree`. -/
def loop (T : Table) : Nat → Nat → Sx → Sx → List Sx → Res
  | 0, _, _, _, _ => none
  | _+1, _, left, st, [] => some (left, st, [])
  | f+1, rbp, left, st, t :: ts =>
    match lbp T t with
    | none => none
    | some l =>
      if rbp ≥ l then some (left, st, t :: ts) else
      match ledOf T t with
      | .bin name r =>
        match expr T f r st ts with
        | none => none
        | some (x, st1, ts1) => loop T f rbp (.list [.sym name, left, x]) st1 ts1
      | .post name => loop T f rbp (.list [.sym name, left]) st ts
      | .field => loop T f rbp (.list [.sym "hashidx", left, t]) st ts
      | .index =>
        match normSelector T f t with
        | none => none
        | some sel => loop T f rbp (.list [.sym "arrayidx", left, sel]) st ts
      | .drop => loop T f rbp t st ts

/-- parsePrattOne on a non-empty token list: one expression that must use all tokens. -/
def prattOne (T : Table) : Nat → List Sx → Option Sx
  | 0, _ => none
  | f+1, ts =>
    match expr T f 0 (staleOf ts) ts with
    | some (x, _, []) => some x
    | _ => none

/-- normalizeArraySelector (on an array token). -/
def normSelector (T : Table) : Nat → Sx → Option Sx
  | 0, _ => none
  | f+1, .arr xs =>
    let toks := splitColonTail xs
    let ncolon := countNamed ":" toks
    if ncolon > 1 then none
    else if ncolon == 1 then
      let before := toks.takeWhile (fun t => !t.isNamed ":")
      let after := (toks.dropWhile (fun t => !t.isNamed ":")).tail
      match (if before.isEmpty then some [] else (prattOne T f before).map ([·])) with
      | none => none
      | some s =>
        match (if after.isEmpty then some [] else (prattOne T f after).map ([·])) with
        | none => none
        | some e => some (.arr (s ++ .sym ":" :: e))
    else if toks.length ≤ 1 then some (.arr toks)
    else
      match expr T f 0 (staleOf toks) toks with
      | none => none
      | some (x, _, []) => some (.arr [x])
      | some _ => some (.arr toks)
  | _+1, s => some s

/-- forOpMunchRightWithLabel + lowerGoFor; `ts` are the tokens after `for`. -/
def forNud (T : Table) : Nat → Option Sx → Sx → List Sx → Res
  | 0, _, _, _ => none
  | f+1, label, st, ts =>
    let header := ts.takeWhile (fun t => !isForBody t)
    match ts.dropWhile (fun t => !isForBody t) with
    | [] => none                                   -- missing body block
    | bodyTok :: rest =>
      let st1 := if rest.isEmpty then ts.head?.getD st else st
      let body := forBody bodyTok
      let nsemi := (header.filter (·.isSemi)).length
      if nsemi > 0 then
        if nsemi != 2 then none else
        match splitOnSemis header with
        | [s0, s1, s2] =>
          match (if s0.isEmpty then some Sx.null else prattOne T f s0) with
          | none => none
          | some init =>
            match (if s1.isEmpty then some (Sx.lit "true") else prattOne T f s1) with
            | none => none
            | some test =>
              match (if s2.isEmpty then some Sx.null else prattOne T f s2) with
              | none => none
              | some post => some (forList label (.arr [init, test, post]) body, st1, rest)
        | _ => none
      else
        -- lowerRangeFor
        match header.findIdx? (fun t => t.isNamed ":=" || t.isNamed "=") with
        | none =>
          if header.any (·.isNamed "range") then none else
          match (if header.isEmpty then some (Sx.lit "true") else prattOne T f header) with
          | none => none
          | some test => some (forList label (.arr [.null, test, .null]) body, st1, rest)
        | some p =>
          let isRange := match header[p+1]? with
            | some t => t.isNamed "range"
            | none => false
          if !isRange then
            if header.any (·.isNamed "range") then none else
            match prattOne T f header with
            | none => none
            | some test => some (forList label (.arr [.null, test, .null]) body, st1, rest)
          else
            let define := (header[p]?.getD .null).isNamed ":="
            let targets? : Option (List Sx) := match header.take p with
              | [a] => if a.symName?.isSome then some [a] else none
              | [a, c, b] => if a.symName?.isSome && c.isComma && b.symName?.isSome then some [a, b] else none
              | _ => none
            match targets? with
            | none => none
            | some targets =>
              let srcToks := header.drop (p+2)
              if srcToks.isEmpty then none else
              match prattOne T f srcToks with
              | none => none
              | some source =>
                let src := Sx.sym "__range_src"
                let len := Sx.sym "__range_len"
                let idx := Sx.sym "__range_i"
                let control := Sx.arr [call "def" [idx, .lit "0"], call "<" [idx, len],
                                       call "set" [idx, call "+" [idx, .lit "1"]]]
                let lets := Sx.arr [src, source, len, call "__rangeLen" [src]]
                let forBodyXs : List Sx := match targets with
                  | [a] => call (if define then "def" else "set") [a, call "__rangeKey" [src, idx]] :: body
                  | [a, b] =>
                    let pair := call "__rangePair" [src, idx]
                    if define then call "mdef" [a, b, pair] :: body
                    else
                      let ps := Sx.sym "__range_pair"
                      [call "let" [.arr [ps, pair],
                        .list (.sym "begin" :: call "set" [a, call "first" [ps]] :: call "set" [b, call "second" [ps]] :: body)]]
                  | _ => body
                some (call "letseq" [lets, forList label control forBodyXs], st1, rest)
end

/-- InfixExpandArray: the statements of a block. -/
def expandArray (T : Table) : Nat → Sx → List Sx → List Sx → Option (List Sx)
  | 0, _, _, _ => none
  | f+1, st, ts, acc =>
    -- LabeledFor
    let step : Res :=
      match ts with
      | .lab l :: u :: us =>
        if u.isNamed "for" then
          (if us.isEmpty then none else forNud T f (some (.lab l)) st us)
        else expr T f 0 st ts
      | _ => expr T f 0 st ts
    match step with
    | none => none
    | some (x, st1, ts1) =>
      let acc := if x.isSemi then acc else acc ++ [x]
      match ts1 with
      | [] => some acc
      | u :: us => if u.isSemi then
          (if us.isEmpty then
            -- Advance ran off the end: the loop re-enters with EOF, Expression returns the stale `;`
            some acc
           else expandArray T f st1 us acc)
        else expandArray T f st1 ts1 acc

def fuelFor (ts : List Sx) : Nat := 2 * sizeList ts + 4

/-- `Pratt.Expression(rbp)` on a fresh `NewPratt(ts)`: tree and unconsumed tokens. -/
def expression (T : Table) (rbp : Nat) (ts : List Sx) : Option (Sx × List Sx) :=
  (expr T (fuelFor ts) rbp (staleOf ts) ts).map (fun r => (r.1, r.2.2))

/-- `(infixExpand (infix [ts…]))` = `(quote x₁ … xₙ)`: the list x₁ … xₙ. -/
def expandBlock (T : Table) (ts : List Sx) : Option (List Sx) :=
  expandArray T (fuelFor ts) (staleOf ts) ts []

/-! ### the table of the current working tree -/

def lbpConst (ty guard : String) : Nat :=
  match Generated.InfixTable.lbpArms.find? (fun a => a.types.contains ty) with
  | some a => match a.returns.find? (fun r => r.1 == guard) with
    | some (_, some n) => n
    | _ => 0
  | none => 0

def lbpConst? (ty : String) : Option Nat :=
  match Generated.InfixTable.lbpArms.find? (fun a => a.types.contains ty) with
  | some a => match a.returns.find? (fun r => r.1 == "") with
    | some (_, some n) => some n
    | _ => none
  | none => none

def Table.generated : Table where
  entries := Generated.InfixTable.entries
  lbpArr := lbpConst "SexpArray" ""
  lbpDot := lbpConst "SexpSymbol" "x.isDot"
  lbpComma := lbpConst "SexpComma" ""
  lbpChar := lbpConst? "SexpChar"
  lbpUint := lbpConst? "SexpUint64"
  lbpNull := lbpConst? "SexpSentinel"
  starRbp := Generated.InfixTable.starRbps.headD 0
  ifCond := Generated.InfixTable.ifRbps.getD 0 0
  ifThen := Generated.InfixTable.ifRbps.getD 1 0
  ifElse := Generated.InfixTable.ifRbps.getD 2 0

end ZygoVerif.Pratt
