/-
Exact model of Go's `strconv.Quote` and `strconv.QuoteRune` (strconv/quote.go,
appendQuotedWith / appendQuotedRuneWith / appendEscapedRune with quote = '"' resp. '\'',
ASCIIonly = graphicOnly = false) and of `utf8.DecodeRuneInString` / `utf8.AppendRune`
(unicode/utf8). Strings are byte lists (Go strings need not be valid UTF-8); runes are
natural numbers (`RuneError` = 0xFFFD). `IsPrint` comes from the generated table
(Generated/IsPrint.lean, computed by the Go standard library itself). Core Lean only.
-/
import ZygoVerif.Generated.IsPrint
namespace ZygoVerif.Quote
open ZygoVerif.Generated.IsPrint (isPrint)

abbrev Bytes := List Nat

def runeError : Nat := 0xFFFD

/-- `utf8.DecodeRuneInString`: the rune at the front and its width; `(RuneError, 1)` for
an invalid or truncated encoding, `(RuneError, 0)` for the empty string. Follows the
`first`/`acceptRanges` tables of unicode/utf8. -/
def decodeRune : Bytes → Nat × Nat
  | [] => (runeError, 0)
  | b0 :: r =>
    if b0 < 0x80 then (b0, 1)
    else if b0 < 0xC2 ∨ 0xF4 < b0 then (runeError, 1)          -- xx entries of `first`
    else
      -- size and accept range of the second byte
      let sz := if b0 < 0xE0 then 2 else if b0 < 0xF0 then 3 else 4
      let lo := if b0 = 0xE0 then 0xA0 else if b0 = 0xF0 then 0x90 else 0x80
      let hi := if b0 = 0xED then 0x9F else if b0 = 0xF4 then 0x8F else 0xBF
      match r with
      | [] => (runeError, 1)
      | b1 :: r1 =>
        if r.length + 1 < sz then (runeError, 1)
        else if b1 < lo ∨ hi < b1 then (runeError, 1)
        else if sz = 2 then ((b0 % 32) * 64 + b1 % 64, 2)
        else match r1 with
          | [] => (runeError, 1)
          | b2 :: r2 =>
            if b2 < 0x80 ∨ 0xBF < b2 then (runeError, 1)
            else if sz = 3 then ((b0 % 16) * 4096 + (b1 % 64) * 64 + b2 % 64, 3)
            else match r2 with
              | [] => (runeError, 1)
              | b3 :: _ =>
                if b3 < 0x80 ∨ 0xBF < b3 then (runeError, 1)
                else ((b0 % 8) * 262144 + (b1 % 64) * 4096 + (b2 % 64) * 64 + b3 % 64, 4)

/-- `utf8.AppendRune` (invalid runes — surrogates, > U+10FFFF — are written as U+FFFD). -/
def appendRune (c : Nat) : Bytes :=
  if c < 0x80 then [c]
  else if c < 0x800 then [0xC0 + c / 64, 0x80 + c % 64]
  else if (0xD800 ≤ c ∧ c ≤ 0xDFFF) ∨ 0x10FFFF < c then [0xEF, 0xBF, 0xBD]
  else if c < 0x10000 then [0xE0 + c / 4096, 0x80 + c / 64 % 64, 0x80 + c % 64]
  else [0xF0 + c / 262144, 0x80 + c / 4096 % 64, 0x80 + c / 64 % 64, 0x80 + c % 64]

def lowerhex (n : Nat) : Nat := if n % 16 < 10 then 0x30 + n % 16 else 0x61 + (n % 16 - 10)

/-- the `n` low hex digits of `v`, most significant first -/
def hexDigits : Nat → Nat → Bytes
  | 0, _ => []
  | n + 1, v => lowerhex (v / 16 ^ n) :: hexDigits n v

/-- `appendEscapedRune buf r quote false false` (what is appended). A rune is a Go `int32`;
only values ≥ 0 reach this model (negative chars are handled by the caller). -/
def escapedRune (r quote : Nat) : Bytes :=
  if r = quote ∨ r = 0x5C then [0x5C, r]
  else if isPrint r then appendRune r
  else if r = 0x07 then [0x5C, 0x61]
  else if r = 0x08 then [0x5C, 0x62]
  else if r = 0x0C then [0x5C, 0x66]
  else if r = 0x0A then [0x5C, 0x6E]
  else if r = 0x0D then [0x5C, 0x72]
  else if r = 0x09 then [0x5C, 0x74]
  else if r = 0x0B then [0x5C, 0x76]
  else if r < 0x20 ∨ r = 0x7F then 0x5C :: 0x78 :: hexDigits 2 r
  else
    -- !utf8.ValidRune(r): r becomes U+FFFD and falls through to the \u arm
    let r' := if (0xD800 ≤ r ∧ r ≤ 0xDFFF) ∨ 0x10FFFF < r then runeError else r
    if r' < 0x10000 then 0x5C :: 0x75 :: hexDigits 4 r'
    else 0x5C :: 0x55 :: hexDigits 8 r'

/-- One step of the loop of `appendQuotedWith`: the bytes appended for the front of `s`
and the width consumed (≥ 1 for non-empty `s`). -/
def quoteStep (quote : Nat) : Bytes → Bytes × Nat
  | [] => ([], 0)
  | b0 :: r =>
    let (ru, w) := if b0 < 0x80 then (b0, 1) else decodeRune (b0 :: r)
    if w = 1 ∧ ru = runeError then (0x5C :: 0x78 :: hexDigits 2 b0, 1)
    else (escapedRune ru quote, w)

def quoteBody (quote : Nat) : Nat → Bytes → Bytes
  | 0, _ => []
  | _, [] => []
  | f + 1, s =>
    let (out, w) := quoteStep quote s
    out ++ quoteBody quote f (s.drop w)

/-- `strconv.Quote(s)`. -/
def quote (s : Bytes) : Bytes := 0x22 :: quoteBody 0x22 s.length s ++ [0x22]

/-- `strconv.QuoteRune(r)` for `r : int32` given as an integer: invalid runes (negative,
surrogate, too large) are first replaced by U+FFFD. -/
def quoteRune (r : Int) : Bytes :=
  let c := if r < 0 then runeError else
    let n := r.toNat
    if (0xD800 ≤ n ∧ n ≤ 0xDFFF) ∨ 0x10FFFF < n then runeError else n
  0x27 :: escapedRune c 0x27 ++ [0x27]

end ZygoVerif.Quote
