/-
Model/LegacyBalance.lean — listings the generator emitted BEFORE the C04 fixes (taken from the
real generator of the pinned tree through the `bal` channel; `letInitTailCall` and
`packageContinue` written out by hand from the pre-fix generator code), and the pre-fix effect
of `AssignInstr`. Used only by the `legacy_…` theorems of Props/C04.lean. Core-only.
-/
import ZygoVerif.Spec.Balanced
import ZygoVerif.Model.StackEffect
namespace ZygoVerif.Bal.Legacy

/-- `(defn f [] (begin))` before fix C04-02: `(begin)` generated no code. -/
def emptyBeginBody : Fn :=
  { kind := .fn, code := [.addFuncScope, .removeScope, .ret false] }

/-- the text `(quote a b)` before fix C04-02: one push per argument. -/
def quote2Top : Fn := { kind := .top, code := [.push, .push] }

/-- `(for [(def i 0) (< i 3) (set i (+ i 1))] (let [x 1] (cond (break) 1 2)))` before fix
C04-06: the `break` in the test of the `cond` has `scopesToPop` = 0 although the `let` scope
is open. -/
def condTestBreak : Fn :=
  { kind := .top,
    code := [.loopStart 1, .addScope, .pushMark 1, .label, .push, .dup, .popStackPutEnv,
             .popUntilMark 1, .jump 6, .label, .callExpr 2, .dup, .update, .popUntilMark 1,
             .label, .callExpr 2, .branch false 13, .label, .addScope, .push, .popStackPutEnv,
             .brk 1 30 0, .branch false 3, .push, .jump 2, .push, .removeScope,
             .popUntilMark 1, .jump (-19), .label, .clearMark 1, .removeScope, .push] }

/-- `(defn g [a] (cond (> a 0) (g 0 7) a))` before fix C04-04: two operands for one formal. -/
def tailArity : Fn :=
  { kind := .fn, nformals := 1, nfixed := 1,
    code := [.addFuncScope, .popStackPutEnv, .callExpr 2, .branch false 7, .push, .push,
             .prepareCall 2, .removeScope, .goto 0, .jump 2, .envToStack, .removeScope, .ret false] }

/-- `(defn f [x] (cond (<= x 0) 0 (let [a 1 b (f (- x 1))] (+ a b))))` before fix C04-08: the
self call in the second initialiser is compiled as a tail call (`prepareCall; removeScope ×2;
goto 0`) while the value of `a` is still on the data stack. -/
def letInitTailCall : Fn :=
  { kind := .fn, nformals := 1, nfixed := 1,
    code := [.addFuncScope, .popStackPutEnv, .callExpr 2, .branch false 3, .push, .jump 12,
             .addScope, .push, .callExpr 2, .prepareCall 1, .removeScope, .removeScope, .goto 0,
             .popStackPutEnv, .popStackPutEnv, .callExpr 2, .removeScope, .removeScope, .ret false] }

/-- `(for [(def i 0) (< i 2) (set i (+ i 1))] (package "p" (def X 1) (continue)))` before fix
C04-09: the `continue` inside the package body pops no scope (the package scope is not
counted). -/
def packageContinue : Fn :=
  { kind := .top,
    code := [.loopStart 1, .addScope, .pushMark 1, .label, .push, .dup, .popStackPutEnv,
             .popUntilMark 1, .jump 6, .label, .callExpr 2, .dup, .update, .popUntilMark 1,
             .label, .callExpr 2, .branch false 13, .label, .addScope, .pushMark 2, .push, .dup,
             .popStackPutEnv, .cont 1 9 0, .popUntilMark 2, .pop, .popScopeXfer,
             .popUntilMark 1, .jump (-19), .label, .clearMark 1, .removeScope, .push] }

/-- `(defn g [] {a[0] = 99})`. -/
def selAssignBody : Fn :=
  { kind := .fn, code := [.addFuncScope, .callExpr 2, .push, .assign, .removeScope, .ret false] }

/-- `AssignInstr.Execute` before fix C04-03 popped target and value and pushed nothing. -/
def effL : BInstr → Eff
  | .assign => .simple 2 0
  | i => eff i

/-- The part of the machine the legacy example needs, under the legacy effect table. -/
inductive StepL (f : Fn) : CState → CState → Prop
  | simple (c : CState) (i : BInstr) (p m : Nat) (popped rest : List Cell) :
      f.code[c.pc]? = some i → effL i = .simple p m → c.data = popped ++ rest → popped.length = p →
      StepL f c { c with pc := c.pc + 1, data := List.replicate m .val ++ rest }
  | scopeUp (c : CState) (i : BInstr) :
      f.code[c.pc]? = some i → effL i = .scopeUp →
      StepL f c { c with pc := c.pc + 1, sc := c.sc + 1 }
  | scopeDown (c : CState) (i : BInstr) (n : Nat) :
      f.code[c.pc]? = some i → effL i = .scopeDown → c.sc = n + 1 →
      StepL f c { c with pc := c.pc + 1, sc := n }

inductive ReachL (f : Fn) : CState → CState → Prop
  | refl (c : CState) : ReachL f c c
  | step (c c' c'' : CState) : ReachL f c c' → StepL f c' c'' → ReachL f c c''

/-- The function returns with nothing on top of its caller's stack. -/
theorem selAssign_run (D : List Cell) (S A : Nat) :
    ∃ c, ReachL selAssignBody ⟨0, D, S, A⟩ c ∧ AtRet selAssignBody c ∧ c.data = D := by
  refine ⟨⟨5, D, S, A⟩, ?_, rfl, rfl⟩
  have s1 : StepL selAssignBody ⟨0, D, S, A⟩ ⟨1, D, S + 1, A⟩ := StepL.scopeUp _ .addFuncScope rfl rfl
  have s2 : StepL selAssignBody ⟨1, D, S + 1, A⟩ ⟨2, .val :: D, S + 1, A⟩ :=
    StepL.simple _ (.callExpr 2) 0 1 [] D rfl rfl rfl rfl
  have s3 : StepL selAssignBody ⟨2, .val :: D, S + 1, A⟩ ⟨3, .val :: .val :: D, S + 1, A⟩ :=
    StepL.simple _ .push 0 1 [] (.val :: D) rfl rfl rfl rfl
  have s4 : StepL selAssignBody ⟨3, .val :: .val :: D, S + 1, A⟩ ⟨4, D, S + 1, A⟩ :=
    StepL.simple _ .assign 2 0 [.val, .val] D rfl rfl rfl rfl
  have s5 : StepL selAssignBody ⟨4, D, S + 1, A⟩ ⟨5, D, S, A⟩ := StepL.scopeDown _ .removeScope S rfl rfl rfl
  exact ReachL.step _ _ _ (ReachL.step _ _ _ (ReachL.step _ _ _ (ReachL.step _ _ _ (ReachL.step _ _ _ (ReachL.refl _) s1) s2) s3) s4) s5

end ZygoVerif.Bal.Legacy
