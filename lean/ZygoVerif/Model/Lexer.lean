/-
Model of zygo/lexer.go (as it is after the C13 repairs and the proposed fixes/C12-02): token types, lexer
states, the complete lexer state, hand-written recognisers for every regular expression the
lexer uses, the `DecodeAtom` cascade, `LexNextRune` (`step`), `Reset`, and the stream queue
(`AddNextStream`, `PromoteNextStream`, the rune reader of `PeekNextToken`).

Core-only. Runes are `Char` (Go's `ReadRune` only delivers Unicode scalar values: invalid
bytes arrive as U+FFFD). The buffer is a list of runes; it is only ever written with
`WriteRune`/ASCII strings, so byte-level tests of the Go code (`atom[n-1] == ':'`,
`len(s) > 1`, `s[:ns-1]`) are expressed through `utf8Len` and ASCII heads/tails.
-/
namespace ZygoVerif.Lexer

/-- `TokenType` in declaration order (tie: `Generated.LexTables.tokenTypes`). -/
inductive TokType where
  | empty | lparen | rparen | lsquare | rsquare | lcurly | rcurly | dot | quote | backtick
  | tilde | tildeAt | symbol | bool | decimal | hex | oct | binary | float | char | string
  | caret | colonOperator | threadingOperator | backslash | dollar | dotSymbol | freshAssign
  | beginBacktickString | backtickString | comment | beginBlockComment | endBlockComment
  | semicolon | symbolColon | comma | uint64 | tEnd
  deriving DecidableEq, Repr, Inhabited

def tokTypeNames : List String :=
  ["TokenTypeEmpty", "TokenLParen", "TokenRParen", "TokenLSquare", "TokenRSquare", "TokenLCurly",
   "TokenRCurly", "TokenDot", "TokenQuote", "TokenBacktick", "TokenTilde", "TokenTildeAt",
   "TokenSymbol", "TokenBool", "TokenDecimal", "TokenHex", "TokenOct", "TokenBinary", "TokenFloat",
   "TokenChar", "TokenString", "TokenCaret", "TokenColonOperator", "TokenThreadingOperator",
   "TokenBackslash", "TokenDollar", "TokenDotSymbol", "TokenFreshAssign",
   "TokenBeginBacktickString", "TokenBacktickString", "TokenComment", "TokenBeginBlockComment",
   "TokenEndBlockComment", "TokenSemicolon", "TokenSymbolColon", "TokenComma", "TokenUint64",
   "TokenEnd"]

def TokType.toNat : TokType → Nat
  | .empty => 0 | .lparen => 1 | .rparen => 2 | .lsquare => 3 | .rsquare => 4 | .lcurly => 5
  | .rcurly => 6 | .dot => 7 | .quote => 8 | .backtick => 9 | .tilde => 10 | .tildeAt => 11
  | .symbol => 12 | .bool => 13 | .decimal => 14 | .hex => 15 | .oct => 16 | .binary => 17
  | .float => 18 | .char => 19 | .string => 20 | .caret => 21 | .colonOperator => 22
  | .threadingOperator => 23 | .backslash => 24 | .dollar => 25 | .dotSymbol => 26
  | .freshAssign => 27 | .beginBacktickString => 28 | .backtickString => 29 | .comment => 30
  | .beginBlockComment => 31 | .endBlockComment => 32 | .semicolon => 33 | .symbolColon => 34
  | .comma => 35 | .uint64 => 36 | .tEnd => 37

/-- `LexerState` in declaration order (tie: `Generated.LexTables.lexerStates`). -/
inductive Mode where
  | normal | commentLine | strLit | strEscaped | unquote | backtickString | freshAssignOrColon
  | firstFwdSlash | commentBlock | commentBlockAsterisk | builtinOperator | runeLit | runeEscaped
  | strHexEscape | runeHexEscape     -- repo fix C12-02: the digits of \xHH \uHHHH \UHHHHHHHH
  | minusDot                         -- repo fix C12-05: after `-.` where a negative number may start
  deriving DecidableEq, Repr, Inhabited

def modeNames : List String :=
  ["LexerNormal", "LexerCommentLine", "LexerStrLit", "LexerStrEscaped", "LexerUnquote",
   "LexerBacktickString", "LexerFreshAssignOrColon", "LexerFirstFwdSlash", "LexerCommentBlock",
   "LexerCommentBlockAsterisk", "LexerBuiltinOperator", "LexerRuneLit", "LexerRuneEscaped",
   "LexerStrHexEscape", "LexerRuneHexEscape", "LexerMinusDot"]

def Mode.toNat : Mode → Nat
  | .normal => 0 | .commentLine => 1 | .strLit => 2 | .strEscaped => 3 | .unquote => 4
  | .backtickString => 5 | .freshAssignOrColon => 6 | .firstFwdSlash => 7 | .commentBlock => 8
  | .commentBlockAsterisk => 9 | .builtinOperator => 10 | .runeLit => 11 | .runeEscaped => 12
  | .strHexEscape => 13 | .runeHexEscape => 14 | .minusDot => 15

structure Token where
  typ : TokType
  str : List Char
  deriving DecidableEq, Repr, Inhabited

def Token.zero : Token := ⟨.empty, []⟩
/-- `EndTk` -/
def Token.endTk : Token := ⟨.tEnd, []⟩
def tk (t : TokType) (s : String) : Token := ⟨t, s.toList⟩

/-- Error kinds of the lexer (the harness maps Go error messages to these). -/
inductive LexErr where
  | atom | escape | uBacktick | uQuote | uSquote | uPct | uCaret | uTilde | char
  deriving DecidableEq, Repr, Inhabited

def LexErr.name : LexErr → String
  | .atom => "atom" | .escape => "escape" | .uBacktick => "u-backtick" | .uQuote => "u-quote"
  | .uSquote => "u-squote" | .uPct => "u-pct" | .uCaret => "u-caret" | .uTilde => "u-tilde"
  | .char => "char"

/-! ## Regular expressions, re-implemented as recognisers over rune lists.
The source strings these were written for are `regexSources`; the check regenerates the
strings from lexer.go and `Props/C13` proves them equal. -/

def regexSources : List (String × String) :=
  [("BoolRegex", "^(true|false)$"),
   ("Uint64Regex", "^(0x|0o)?[0-9a-fA-F]+ULL$"),
   ("DecimalRegex", "^-?[0-9][_0-9]*$"),
   ("HexRegex", "^0x[0-9a-fA-F]+$"),
   ("OctRegex", "^0o[0-7]+$"),
   ("BinaryRegex", "^0b[01]+$"),
   ("InfRegex", "^(-|\\+)?[Ii]nf$"),
   ("SymbolRegex", "^[#?]?[^#?':;\\\\~@\\[\\]{}\\^|\"()%0-9,&][^'#:;\\\\~@\\[\\]{}\\^|\"()%,&*\\-]*[:]?$"),
   ("DotSymbolRegex", "^[.]$|^([.][^'#:;\\\\~@\\[\\]{}\\^|\"()%.0-9,][^'#:;\\\\~@\\[\\]{}\\^|\"()%.,*+\\-]*)+$|^[^'#:;\\\\~@\\[\\]{}\\^|\"()%.0-9,][^'#:;\\\\~@\\[\\]{}\\^|\"()%.,*+\\-]*([.][^'#:;\\\\~@\\[\\]{}\\^|\"()%.0-9,][^'#:;\\\\~@\\[\\]{}\\^|\"()%.,*+\\-]*)+$"),
   ("DotPartsRegex", "[.]?[^'#:;\\\\~@\\[\\]{}\\^|\"()%.0-9,][^'#:;\\\\~@\\[\\]{}\\^|\"()%.,]*"),   -- not used by the lexer
   ("CharRegex", "^'(\\\\?.|\n)'$"),
   ("FloatRegex", "^-?([0-9]+[0-9_]*\\.[0-9_]*)$|^-?(\\.[0-9]+[0-9_]*)$|^-?([0-9]+[0-9_]*(\\.[0-9_]*)?[eE]([-+]?[0-9]+[0-9_]*))$"),
   ("ComplexRegex", "^-?([0-9]+[0-9_]*\\.[0-9_]*)i?$|^-?(\\.[0-9]+[0-9_]*)i?$|^-?([0-9]+[0-9_]*(\\.[0-9_]*)?[eE](-?[0-9]+[0-9_]*))i?$"),   -- not used by the lexer
   ("BuiltinOpRegex", "^(\\+\\+|\\-\\-|\\+=|\\-=|=|==|:=|\\+|\\-|\\*|<|>|<=|>=|<-|->|\\*=|/=|\\*\\*|!|!=|<!|&&|\\|\\|)$"),
   ("SliceBoundsRegex", "^[0-9][_0-9]*$")]

def isDig (c : Char) : Bool := '0' ≤ c && c ≤ '9'
def isDigU (c : Char) : Bool := isDig c || c == '_'
def isHexC (c : Char) : Bool := isDig c || ('a' ≤ c && c ≤ 'f') || ('A' ≤ c && c ≤ 'F')

def boolRe (a : List Char) : Bool := a == "true".toList || a == "false".toList

/-- `[0-9a-fA-F]+` -/
def hexPlus (a : List Char) : Bool := !a.isEmpty && a.all isHexC

def stripSuffix? (suf : List Char) (a : List Char) : Option (List Char) :=
  if a.length ≥ suf.length ∧ a.drop (a.length - suf.length) = suf then some (a.take (a.length - suf.length)) else none

def uint64Re (a : List Char) : Bool :=
  match stripSuffix? "ULL".toList a with
  | none => false
  | some body =>
    hexPlus body ||
    (match body with
     | '0' :: 'x' :: r => hexPlus r
     | '0' :: 'o' :: r => hexPlus r
     | _ => false)

/-- `[0-9][_0-9]*` -/
def digThenDigU (a : List Char) : Bool :=
  match a with
  | c :: r => isDig c && r.all isDigU
  | [] => false

def dropMinus (a : List Char) : List Char :=
  match a with
  | '-' :: r => r
  | _ => a

def decimalRe (a : List Char) : Bool := digThenDigU (dropMinus a)

def hexRe (a : List Char) : Bool :=
  match a with
  | '0' :: 'x' :: r => hexPlus r
  | _ => false

def octRe (a : List Char) : Bool :=
  match a with
  | '0' :: 'o' :: r => !r.isEmpty && r.all (fun c => '0' ≤ c && c ≤ '7')
  | _ => false

def binaryRe (a : List Char) : Bool :=
  match a with
  | '0' :: 'b' :: r => !r.isEmpty && r.all (fun c => c == '0' || c == '1')
  | _ => false

def infRe (a : List Char) : Bool :=
  let b := match a with
    | '-' :: r => r
    | '+' :: r => r
    | _ => a
  b == "Inf".toList || b == "inf".toList

/-- exponent part `[-+]?[0-9]+[0-9_]*` -/
def expPart (a : List Char) : Bool :=
  match a with
  | '-' :: r => digThenDigU r
  | '+' :: r => digThenDigU r
  | _ => digThenDigU a

def isE (c : Char) : Bool := c == 'e' || c == 'E'

/-- `FloatRegex` without the optional leading minus. The character classes of the three
alternatives are pairwise disjoint at every decision point, so one left-to-right scan decides. -/
def floatBody (a : List Char) : Bool :=
  match a with
  | '.' :: r => digThenDigU r
  | c :: r =>
    if isDig c then
      let r1 := r.dropWhile isDigU
      match r1 with
      | '.' :: r2 =>
        let r3 := r2.dropWhile isDigU
        (match r3 with
         | [] => true
         | e :: ex => isE e && expPart ex)
      | e :: ex => isE e && expPart ex
      | [] => false
    else false
  | [] => false

def floatRe (a : List Char) : Bool := floatBody (dropMinus a)

def symExclCommon : List Char := "':;\\~@[]{}^|\"()%,".toList

/-- first class of `SymbolRegex`: `[^#?':;\\~@\[\]{}\^|"()%0-9,&]` -/
def symFirst (c : Char) : Bool := !(symExclCommon.contains c || c == '#' || c == '?' || c == '&' || isDig c)
/-- rest class of `SymbolRegex`: `[^'#:;\\~@\[\]{}\^|"()%,&*\-]` -/
def symRest (c : Char) : Bool := !(symExclCommon.contains c || c == '#' || c == '&' || c == '*' || c == '-')

def symbolRe (a : List Char) : Bool :=
  let b := match a with
    | '#' :: r => r
    | '?' :: r => r
    | _ => a
  match b with
  | [] => false
  | c :: r =>
    symFirst c &&
    (let r' := if r.getLast? == some ':' then r.dropLast else r
     r'.all symRest)

/-- `F` and `R` classes of `DotSymbolRegex`. -/
def dotFirst (c : Char) : Bool := !(symExclCommon.contains c || c == '#' || c == '.' || isDig c)
def dotRest (c : Char) : Bool := !(symExclCommon.contains c || c == '#' || c == '.' || c == '*' || c == '+' || c == '-')

def dotSeg (seg : List Char) : Bool :=
  match seg with
  | c :: r => dotFirst c && r.all dotRest
  | [] => false

/-- split on '.' (always returns at least one segment) -/
def splitDots : List Char → List (List Char)
  | [] => [[]]
  | c :: r =>
    match splitDots r with
    | seg :: segs => if c == '.' then [] :: seg :: segs else (c :: seg) :: segs
    | [] => [[c]]

def dotSymbolRe (a : List Char) : Bool :=
  if a == ['.'] then true else
  match splitDots a with
  | [] :: segs => !segs.isEmpty && segs.all dotSeg
  | segs => segs.length ≥ 2 && segs.all dotSeg

def charRe (a : List Char) : Bool :=
  match a with
  | ['\'', _, '\''] => true
  | ['\'', '\\', c, '\''] => c != '\n'
  | _ => false

def builtinOps : List String :=
  ["++", "--", "+=", "-=", "=", "==", ":=", "+", "-", "*", "<", ">", "<=", ">=", "<-", "->", "*=",
   "/=", "**", "!", "!=", "<!", "&&", "||"]

def builtinOpRe (a : List Char) : Bool := builtinOps.any (fun s => s.toList == a)

def sliceBoundsRe (a : List Char) : Bool := digThenDigU a

def utf8Len (l : List Char) : Nat := l.foldl (fun n c => n + c.utf8Size) 0

def sliceBoundLiteralBeforeColon (a : List Char) : Bool :=
  match a with
  | '-' :: r => if utf8Len a > 1 then sliceBoundsRe r else sliceBoundsRe a
  | _ => sliceBoundsRe a

/-- `EscapeChar`; tie: `Generated.LexTables.escapeCases`. -/
def escapeChar (c : Char) : Option Char :=
  if c == 'n' then some '\n'
  else if c == 'r' then some '\r'
  else if c == 'a' then some '\x07'
  else if c == 't' then some '\t'
  else if c == 'b' then some '\x08'
  else if c == 'f' then some '\x0c'
  else if c == 'v' then some '\x0b'
  else if c == '\\' then some '\\'
  else if c == '"' then some '"'
  else if c == '\'' then some '\''
  else if c == '#' then some '#'
  else none

def escapeTable : List (Nat × Nat) :=
  [(110, 10), (114, 13), (97, 7), (116, 9), (98, 8), (102, 12), (118, 11), (92, 92), (34, 34), (39, 39), (35, 35)]

/-- `hexEscapeLen`: the number of hex digits after `\x`, `\u`, `\U` (0 = not a hex escape).
Tie: `Generated.ReadPrint.hexEscapeLens`. -/
def hexEscapeLen (c : Char) : Nat :=
  if c == 'x' then 2 else if c == 'u' then 4 else if c == 'U' then 8 else 0

/-- `hexDigitValue` -/
def hexDigitValue (c : Char) : Option Nat :=
  if '0' ≤ c && c ≤ '9' then some (c.toNat - 48)
  else if 'a' ≤ c && c ≤ 'f' then some (c.toNat - 87)
  else if 'A' ≤ c && c ≤ 'F' then some (c.toNat - 55)
  else none

/-- `utf8.ValidRune` on the unsigned view of an `int32` (values ≥ 2^31 are the negative ones). -/
def validRune (v : Nat) : Bool := v < 0xD800 || (0xE000 ≤ v && v ≤ 0x10FFFF)

/-- What `WriteByte(byte(v))` leaves in the buffer as seen rune-wise: an ASCII byte is that
character; a byte ≥ 0x80 is not UTF-8 on its own and is kept as U+FFFD (how every observer of
the buffer decodes it). Strings holding such bytes are outside the rune-level model. -/
def byteAsRune (v : Nat) : Char := if v % 256 < 0x80 then Char.ofNat (v % 256) else '\uFFFD'

def canStartSignedNumberAfter (r : Char) : Bool :=
  r.toNat == 0 || " \t\n\r([{,;:+-*/<>=!&|".toList.contains r

def canStartTable : List Nat :=
  [0, 32, 9, 10, 13, 40, 91, 123, 44, 59, 58, 43, 45, 42, 47, 60, 62, 61, 33, 38, 124]

/-- `DecodeChar` on an atom accepted by `CharRegex`. -/
def decodeChar (a : List Char) : Except LexErr (List Char) :=
  let inner := (a.drop 1).dropLast
  match inner with
  | [_, c] => match escapeChar c with
    | some e => .ok [e]
    | none => .error .escape
  | [c] => .ok [c]
  | _ => .error .char

/-- `DecodeAtom` (the atom is non-empty: `dumpBuffer` guards). -/
def decodeAtom (atom0 : List Char) : Except LexErr Token :=
  let endColon := atom0.getLast? == some ':'
  let atom := if endColon then atom0.dropLast else atom0
  if atom == ['&'] then .ok ⟨.symbol, ['&']⟩
  else if atom == ['\\'] then .ok ⟨.backslash, []⟩
  else if boolRe atom then .ok ⟨.bool, atom⟩
  else if uint64Re atom then .ok ⟨.uint64, atom⟩
  else if decimalRe atom then .ok ⟨.decimal, atom⟩
  else if hexRe atom then .ok ⟨.hex, atom.drop 2⟩
  else if octRe atom then .ok ⟨.oct, atom.drop 2⟩
  else if binaryRe atom then .ok ⟨.binary, atom.drop 2⟩
  else if floatRe atom then .ok ⟨.float, atom⟩
  else if atom == "NaN".toList || atom == "nan".toList then .ok ⟨.float, "NaN".toList⟩
  else if infRe atom then .ok ⟨.float, atom⟩
  else if dotSymbolRe atom then .ok ⟨.dotSymbol, atom⟩
  else if builtinOpRe atom then .ok ⟨.symbol, atom⟩
  else if atom == [':'] then .ok ⟨.symbol, atom⟩
  else if symbolRe atom then
    (if endColon then .ok ⟨.symbolColon, atom⟩ else .ok ⟨.symbol, atom⟩)
  else if charRe atom then
    (match decodeChar atom with
     | .ok c => .ok ⟨.char, c⟩
     | .error e => .error e)
  else if endColon then .ok ⟨.colonOperator, [':']⟩
  else .error .atom

/-! ## Lexer state -/

/-- Every field of `Lexer` except the two stream fields (`parser` is a back pointer). -/
structure LexCore where
  state : Mode := .normal
  prevrune : Char := '\x00'
  tokens : List Token := []
  buffer : List Char := []
  prevToken : Token := Token.zero
  prevPrevToken : Token := Token.zero
  preBuiltinRune : Char := '\x00'
  linenum : Nat := 1
  priori : Nat := 0
  priorRune : List Char := List.replicate 20 '\x00'
  escDigits : Nat := 0      -- hex digits still to come (repo fix C12-02)
  escValue : Nat := 0       -- value of the digits read so far (the `int32` seen unsigned)
  escByte : Bool := false   -- `\xHH` in a string stands for one byte
  deriving DecidableEq, Repr, Inhabited

/-- The complete lexer: core fields plus `stream` (current input, `none` = nil) and `next`. -/
structure LexState extends LexCore where
  stream : Option (List Char) := none
  next : List (List Char) := []
  finished : Bool := false     -- `Parser.EndInput` was called and no stream was added since (repo fix C13-02)
  deriving DecidableEq, Repr, Inhabited

/-- `NewLexer`. -/
def LexCore.init : LexCore := {}
def LexState.init : LexState := {}

inductive Outcome (σ : Type) where
  | ok (s : σ)
  | err (e : LexErr) (s : σ)   -- the rune was refused; `s` is the state the code leaves behind
  deriving Repr

def appendToken (s : LexCore) (t : Token) : LexCore :=
  { s with tokens := s.tokens ++ [t], prevPrevToken := s.prevToken, prevToken := t }

def twoback (s : LexCore) : Char := s.priorRune.getD ((s.priori + 18) % 20) '\x00'

def dumpBuffer (s : LexCore) : Outcome LexCore :=
  if s.buffer.isEmpty then .ok s else
  match decodeAtom s.buffer with
  | .error e => .err e s
  | .ok t => .ok (appendToken { s with buffer := [] } t)

def dumpAs (s : LexCore) (t : TokType) : LexCore :=
  appendToken { s with buffer := [] } ⟨t, s.buffer⟩

def writeRune (s : LexCore) (r : Char) : Outcome LexCore := .ok { s with buffer := s.buffer ++ [r] }

/-- after a successful `dumpBuffer`, continue with `k` -/
def thenDump (s : LexCore) (k : LexCore → Outcome LexCore) : Outcome LexCore :=
  match dumpBuffer s with
  | .ok s' => k s'
  | .err e s' => .err e s'

def braceTok (r : Char) : Token :=
  if r == '(' then ⟨.lparen, []⟩ else if r == ')' then ⟨.rparen, []⟩
  else if r == '[' then ⟨.lsquare, []⟩ else if r == ']' then ⟨.rsquare, []⟩
  else if r == '{' then ⟨.lcurly, []⟩ else ⟨.rcurly, []⟩

/-- scientific-notation test of the `+`/`-` arm: the buffer without its last byte is a number -/
def sciPrefix (buf : List Char) : Bool :=
  utf8Len buf > 1 &&
  (match buf.getLast? with
   | some c => c.utf8Size == 1 && (decimalRe buf.dropLast || floatRe buf.dropLast)
   | none => false)

/-- `case LexerNormal` -/
def stepNormal (s : LexCore) (r : Char) : Outcome LexCore :=
  let toBuiltin : Outcome LexCore :=
    thenDump s fun s' => .ok { s' with state := .builtinOperator, preBuiltinRune := twoback s', prevrune := r }
  if r == '+' || r == '-' then
    if isE (twoback s) && sciPrefix s.buffer then writeRune s r else toBuiltin
  else if r == '*' || r == '<' || r == '>' || r == '=' || r == '!' || r == '&' || r == '|' then toBuiltin
  else if r == '/' then .ok { s with state := .firstFwdSlash }
  else if r == '`' then
    if !s.buffer.isEmpty then .err .uBacktick s
    else .ok (appendToken { s with state := .backtickString } ⟨.beginBacktickString, []⟩)
  else if r == '"' then
    if !s.buffer.isEmpty then .err .uQuote s else .ok { s with state := .strLit }
  else if r == '\'' then
    if !s.buffer.isEmpty then .err .uSquote s
    else .ok { s with buffer := s.buffer ++ [r], state := .runeLit }
  else if r == ';' then thenDump s fun s' => .ok (appendToken s' ⟨.semicolon, [';']⟩)
  else if r == ',' then thenDump s fun s' => .ok (appendToken s' ⟨.comma, [',']⟩)
  else if r == ':' then .ok { s with state := .freshAssignOrColon }
  else if r == '%' then
    if !s.buffer.isEmpty then .err .uPct s else .ok (appendToken s ⟨.quote, []⟩)
  else if r == '^' then
    if !s.buffer.isEmpty then .err .uCaret s else .ok (appendToken s ⟨.caret, []⟩)
  else if r == '~' then
    if !s.buffer.isEmpty then .err .uTilde s else .ok { s with state := .unquote }
  else if r == '(' || r == ')' || r == '[' || r == ']' || r == '{' || r == '}' then
    thenDump s fun s' => .ok (appendToken s' (braceTok r))
  else if r == '\n' then thenDump { s with linenum := s.linenum + 1 } .ok
  else if r == ' ' || r == '\t' || r == '\r' then thenDump s .ok
  else writeRune s r

/-- `case LexerBuiltinOperator` -/
def stepBuiltin (s0 : LexCore) (r : Char) : Outcome LexCore :=
  let s := { s0 with state := .normal }
  let atom := [s.prevrune, r]
  if s.prevrune == '-' && canStartSignedNumberAfter s.preBuiltinRune && (floatRe atom || decimalRe atom) then
    .ok { s with buffer := s.buffer ++ atom }
  else if s.prevrune == '-' && canStartSignedNumberAfter s.preBuiltinRune && r == '.' then
    .ok { s with state := .minusDot }     -- `-.5` is a number, `-.a` is not: the next rune decides (repo fix C12-05)
  else if builtinOpRe atom then
    let a := if atom == "&&".toList then "and".toList else if atom == "||".toList then "or".toList else atom
    .ok (appendToken s ⟨.symbol, a⟩)
  else stepNormal (appendToken s ⟨.symbol, [s.prevrune]⟩) r

/-- `case LexerMinusDot` (repo fix C12-05): a digit continues the negative fraction `-.d`; anything
else leaves the symbol `-`, and the dot starts the next atom. -/
def stepMinusDot (s0 : LexCore) (r : Char) : Outcome LexCore :=
  let s := { s0 with state := .normal }
  if '0' ≤ r && r ≤ '9' then .ok { s with buffer := s.buffer ++ ['-', '.', r] }
  else
    let s1 := appendToken s ⟨.symbol, ['-']⟩
    stepNormal { s1 with buffer := s1.buffer ++ ['.'] } r

/-- `case LexerFirstFwdSlash` -/
def stepFirstFwdSlash (s : LexCore) (r : Char) : Outcome LexCore :=
  if r == '/' then
    thenDump s fun s' => .ok { s' with state := .commentLine, buffer := s'.buffer ++ "//".toList }
  else if r == '*' then
    thenDump s fun s' =>
      .ok (appendToken { s' with buffer := s'.buffer ++ "/*".toList, state := .commentBlock } ⟨.beginBlockComment, []⟩)
  else
    thenDump { s with state := .builtinOperator, prevrune := '/' } fun s' => stepBuiltin s' r

/-- `case LexerFreshAssignOrColon` -/
def stepFresh (s0 : LexCore) (r : Char) : Outcome LexCore :=
  let s := { s0 with state := .normal }
  if r == '=' then
    thenDump s fun s' => .ok (appendToken s' ⟨.freshAssign, ":=".toList⟩)
  else if sliceBoundLiteralBeforeColon s.buffer then
    thenDump s fun s' => stepNormal (appendToken s' ⟨.colonOperator, [':']⟩) r
  else
    thenDump { s with buffer := s.buffer ++ [':'] } fun s' => stepNormal s' r

/-- `startHexEscape`: `some` = the rune was x, u or U and the escape has begun. -/
def startHexEscape (s : LexCore) (r : Char) (next : Mode) : Option LexCore :=
  if hexEscapeLen r == 0 then none
  else some { s with escDigits := hexEscapeLen r, escValue := 0,
                     escByte := r == 'x' && next == .strHexEscape, state := next }

/-- `hexEscapeDigit` -/
def hexEscapeDigit (s : LexCore) (r : Char) (back : Mode) : Outcome LexCore :=
  match hexDigitValue r with
  | none => .err .escape s
  | some d =>
    let v := (s.escValue * 16 + d) % 2 ^ 32
    let s1 := { s with escValue := v, escDigits := s.escDigits - 1 }
    if s1.escDigits > 0 then .ok s1
    else if s1.escByte then .ok { s1 with buffer := s1.buffer ++ [byteAsRune v], state := back }
    else if !validRune v then .err .escape s1
    else .ok { s1 with buffer := s1.buffer ++ [Char.ofNat v], state := back }

/-- `LexNextRune` after the look-back ring has been updated. -/
def stepMode (s : LexCore) (r : Char) : Outcome LexCore :=
  match s.state with
  | .commentBlock =>
    if r == '\n' then .ok (dumpAs { s with buffer := s.buffer ++ ['\n'] } .comment)
    else if r == '*' then .ok { s with state := .commentBlockAsterisk }
    else writeRune s r
  | .commentBlockAsterisk =>
    if r == '/' then
      let s1 := dumpAs { s with buffer := s.buffer ++ "*/".toList } .comment
      .ok { appendToken s1 ⟨.endBlockComment, []⟩ with state := .normal }
    else writeRune { s with buffer := s.buffer ++ ['*'], state := .commentBlock } r
  | .firstFwdSlash => stepFirstFwdSlash s r
  | .commentLine =>
    if r == '\n' then .ok { dumpAs s .comment with state := .normal } else writeRune s r
  | .backtickString =>
    if r == '`' then .ok { dumpAs s .backtickString with state := .normal } else writeRune s r
  | .strLit =>
    if r == '\\' then .ok { s with state := .strEscaped }
    else if r == '"' then .ok { dumpAs s .string with state := .normal }
    else writeRune s r
  | .strEscaped =>
    match startHexEscape s r .strHexEscape with
    | some s' => .ok s'
    | none =>
    match escapeChar r with
    | none => .err .escape s
    | some c => .ok { s with buffer := s.buffer ++ [c], state := .strLit }
  | .runeLit =>
    if r == '\\' then .ok { s with state := .runeEscaped }
    else if r == '\'' then
      let s1 := { s with buffer := s.buffer ++ [r] }
      -- the error of dumpBuffer is ignored here: the buffer keeps its content
      match dumpBuffer s1 with
      | .ok s2 => .ok { s2 with state := .normal }
      | .err _ s2 => .ok { s2 with state := .normal }
    else writeRune s r
  | .runeEscaped =>
    match startHexEscape s r .runeHexEscape with
    | some s' => .ok s'
    | none =>
    match escapeChar r with
    | none => .err .escape s
    | some c => .ok { s with buffer := s.buffer ++ [c], state := .runeLit }
  | .strHexEscape => hexEscapeDigit s r .strLit
  | .runeHexEscape => hexEscapeDigit s r .runeLit
  | .unquote =>
    if r == '@' then .ok { appendToken s ⟨.tildeAt, []⟩ with state := .normal }
    else if r == '(' || r == '[' || r == '{' then
      -- ~(expr): the bracket opens the unquoted expression and is lexed in the normal state (repo 50bfc31)
      stepNormal { appendToken s ⟨.tilde, []⟩ with state := .normal } r
    else .ok { appendToken s ⟨.tilde, []⟩ with buffer := s.buffer ++ [r], state := .normal }
  | .freshAssignOrColon => stepFresh s r
  | .builtinOperator => stepBuiltin s r
  | .minusDot => stepMinusDot s r
  | .normal => stepNormal s r

/-- `LexNextRune`. -/
def step (s : LexCore) (r : Char) : Outcome LexCore :=
  stepMode { s with priorRune := s.priorRune.set s.priori r, priori := (s.priori + 1) % 20 } r

/-- Feeding a rune list; a refused rune stops the feed (`PeekNextToken` returns the error). -/
def feed (o : Outcome LexCore) (rs : List Char) : Outcome LexCore :=
  rs.foldl (fun o r => match o with
    | .ok s => step s r
    | .err e s => .err e s) o

/-- `Lexer.Reset` (after the repair: every field is cleared). -/
def LexState.reset (_s : LexState) : LexState :=
  { state := .normal, prevrune := '\x00', tokens := [], buffer := [], prevToken := Token.zero,
    prevPrevToken := Token.zero, preBuiltinRune := '\x00', linenum := 1, priori := 0,
    priorRune := List.replicate 20 '\x00', escDigits := 0, escValue := 0, escByte := false,
    stream := none, next := [], finished := false }

/-- `Lexer.InLiteral` (added by the repair). -/
def inLiteral (s : LexCore) : Bool :=
  s.state == .strLit || s.state == .strEscaped || s.state == .runeLit || s.state == .runeEscaped ||
  s.state == .strHexEscape || s.state == .runeHexEscape

/-- `LexState.step`: the stream fields are untouched by `LexNextRune`. -/
def LexState.step (s : LexState) (r : Char) : Outcome LexState :=
  match Lexer.step s.toLexCore r with
  | .ok c => .ok { s with toLexCore := c }
  | .err e c => .err e { s with toLexCore := c }

/-- `PromoteNextStream`. -/
def LexState.promote (s : LexState) : Option LexState :=
  match s.next with
  | [] => none
  | n :: rest => some { s with stream := some n, next := rest }

/-- `AddNextStream` (new input: the text is no longer finished). -/
def LexState.addNextStream (s : LexState) (p : List Char) : LexState :=
  let s1 := { s with next := s.next ++ [p], finished := false }
  match s1.stream with
  | none => (s1.promote).getD s1
  | some [] => (s1.promote).getD s1
  | some (_ :: _) => s1

/-- `Parser.EndInput`: the end of the input is one more stream holding a newline, and the mark
that nothing will follow (repo fix C13-02; before it only the newline). -/
def LexState.endInput (s : LexState) : LexState := { s.addNextStream ['\n'] with finished := true }

/-- All runes the lexer still holds, in reading order. -/
def LexState.pending (s : LexState) : List Char := (s.stream.getD []) ++ s.next.flatten

end ZygoVerif.Lexer
