/-
Model of zygo/comparisons.go (numeric arms of `Compare`, `CompareFunction`) and
zygo/numerictower.go (`NumericDo`, `IntegerDo` and their helpers), written by hand to
follow the Go code arm by arm. Core-only (no Mathlib): the driver links it.

Go types:   int64 / uint64  ↦ `BitVec 64`      rune (int32) ↦ `BitVec 32`
            float64         ↦ the carrier `fs.F` of a `FloatSem` (abstract in the
                              theorems, Lean's native `Float` in the driver)
A Go run-time panic (integer division by zero) is the outcome `.panic`; the model of
`CallUserFunction` (`recovered`) turns it into `.err`, as the `recover()` there does.
-/
namespace ZygoVerif.Num

/-- What the model needs from IEEE-754 binary64. -/
structure FloatSem where
  F : Type
  isNaN : F → Bool
  lt : F → F → Bool            -- Go's `<` on float64
  add : F → F → F
  sub : F → F → F
  mul : F → F → F
  div : F → F → F
  ofInt : Int → F              -- Go's `float64(x)` for x an int64 / uint64 / rune value
  zero : F

inductive NumV (F : Type) where
  | int (v : BitVec 64)
  | uint (v : BitVec 64)
  | char (v : BitVec 32)
  | flt (f : F)

inductive Res (α : Type) where
  | ok (a : α)
  | err            -- Go `error` return
  | panic          -- Go run-time panic escaping the function
deriving DecidableEq, Repr

variable (fs : FloatSem)

/-- `signumFloat` (comparisons.go). -/
def signumFloat (f : fs.F) : Int :=
  if fs.lt fs.zero f then 1 else if fs.lt f fs.zero then -1 else 0

/-- `cmpInt64` (comparisons.go, after the fix). -/
def cmpInt64 (a b : BitVec 64) : Int :=
  if a.slt b then -1 else if b.slt a then 1 else 0

/-- the `*SexpUint64` arm of `compareUint64`. -/
def cmpUint64 (a b : BitVec 64) : Int :=
  if a.ult b then -1 else if b.ult a then 1 else 0

/-- Go `int64(c)` for a rune `c`. -/
def runeToInt64 (c : BitVec 32) : BitVec 64 := c.signExtend 64

def floatOfInt64 (a : BitVec 64) : fs.F := fs.ofInt a.toInt
def floatOfUint64 (a : BitVec 64) : fs.F := fs.ofInt a.toNat
def floatOfRune (c : BitVec 32) : fs.F := fs.ofInt c.toInt

/-- Numeric arms of `(*Zlisp).Compare`: `compareInt`, `compareUint64`, `compareChar`,
`compareFloat`. `none` = the "cannot compare" error. Results 2 and 3 encode NaN. -/
def compare : NumV fs.F → NumV fs.F → Option Int
  | .int a, .int b => some (cmpInt64 a b)
  | .int a, .flt e =>
      if fs.isNaN e then some 2 else some (signumFloat fs (fs.sub (floatOfInt64 fs a) e))
  | .int a, .char c => some (cmpInt64 a (runeToInt64 c))
  | .int _, .uint _ => none
  | .uint a, .uint b => some (cmpUint64 a b)
  | .uint _, _ => none
  | .char c, .int b => some (cmpInt64 (runeToInt64 c) b)
  | .char c, .flt e =>
      if fs.isNaN e then some 2 else some (signumFloat fs (fs.sub (floatOfRune fs c) e))
  | .char c, .char d => some (cmpInt64 (runeToInt64 c) (runeToInt64 d))
  | .char _, .uint _ => none
  | .flt f, .int e =>
      if fs.isNaN f then some 2 else some (signumFloat fs (fs.sub f (floatOfInt64 fs e)))
  | .flt f, .flt e =>
      let nanCount : Int := (if fs.isNaN f then 1 else 0) + (if fs.isNaN e then 1 else 0)
      if nanCount > 0 then some (1 + nanCount) else some (signumFloat fs (fs.sub f e))
  | .flt f, .char e =>
      if fs.isNaN f then some 2 else some (signumFloat fs (fs.sub f (floatOfRune fs e)))
  | .flt _, .uint _ => none

inductive CmpOp where | lt | gt | le | ge | eq | ne
deriving DecidableEq, Repr

/-- `CompareFunction(name)` applied to two numeric arguments. -/
def compareFn (op : CmpOp) (a b : NumV fs.F) : Res Bool :=
  match compare fs a b with
  | none => .err
  | some res =>
    if res > 1 then
      .ok (op == .ne)
    else
      .ok (match op with
        | .lt => res < 0
        | .gt => res > 0
        | .le => res ≤ 0
        | .ge => res ≥ 0
        | .eq => res == 0
        | .ne => res != 0)

inductive ArOp where | add | sub | mul | div
deriving DecidableEq, Repr

/-- `NumericFloatDo`. -/
def floatDo (op : ArOp) (a b : fs.F) : NumV fs.F :=
  match op with
  | .add => .flt (fs.add a b)
  | .sub => .flt (fs.sub a b)
  | .mul => .flt (fs.mul a b)
  | .div => .flt (fs.div a b)

/-- `NumericIntDo`. Go's `%` and `/` on int64 truncate toward zero (`srem`/`sdiv`);
a zero divisor is a run-time panic. -/
def intDo (op : ArOp) (a b : BitVec 64) : Res (NumV fs.F) :=
  match op with
  | .add => .ok (.int (a + b))
  | .sub => .ok (.int (a - b))
  | .mul => .ok (.int (a * b))
  | .div =>
    if b = 0#64 then .panic
    else if a.srem b = 0#64 then .ok (.int (a.sdiv b))
    else .ok (.flt (fs.div (floatOfInt64 fs a) (floatOfInt64 fs b)))

/-- `NumericUint64Do`. -/
def uintDo (op : ArOp) (a b : BitVec 64) : Res (NumV fs.F) :=
  match op with
  | .add => .ok (.uint (a + b))
  | .sub => .ok (.uint (a - b))
  | .mul => .ok (.uint (a * b))
  | .div =>
    if b = 0#64 then .panic
    else if a.umod b = 0#64 then .ok (.uint (a.udiv b))
    else .ok (.flt (fs.div (floatOfUint64 fs a) (floatOfUint64 fs b)))

/-- The tail of `NumericMatchChar`: an int result becomes a rune again (`rune(tres.Val)`). -/
def charBack : Res (NumV fs.F) → Res (NumV fs.F)
  | .ok (.int v) => .ok (.char (v.truncate 32))
  | .ok (.flt f) => .ok (.flt f)
  | .ok _ => .err
  | r => r

/-- `NumericDo` on numeric operands (`NumericMatchFloat/Int/Uint64/Char`). -/
def numericDo (op : ArOp) : NumV fs.F → NumV fs.F → Res (NumV fs.F)
  | .flt a, .flt b => .ok (floatDo fs op a b)
  | .flt a, .int b => .ok (floatDo fs op a (floatOfInt64 fs b))
  | .flt a, .uint b => .ok (floatDo fs op a (floatOfUint64 fs b))
  | .flt a, .char b => .ok (floatDo fs op a (floatOfRune fs b))
  | .int a, .flt b => .ok (floatDo fs op (floatOfInt64 fs a) b)
  | .int a, .int b => intDo fs op a b
  | .int a, .uint b => uintDo fs op a b
  | .int a, .char b => intDo fs op a (runeToInt64 b)
  | .uint a, .flt b => .ok (floatDo fs op (floatOfUint64 fs a) b)
  | .uint a, .int b => uintDo fs op a b
  | .uint a, .uint b => uintDo fs op a b
  | .uint a, .char b => uintDo fs op a (runeToInt64 b)
  | .char a, .flt b => .ok (floatDo fs op (floatOfRune fs a) b)
  | .char a, .int b => charBack fs (intDo fs op (runeToInt64 a) b)
  | .char a, .uint b => uintDo fs op (runeToInt64 a) b
  | .char a, .char b => charBack fs (intDo fs op (runeToInt64 a) (runeToInt64 b))

/-- The accumulation loop of `NumericFunction(name)`: `(op a b c …)`. -/
def numericFold (op : ArOp) (acc : NumV fs.F) : List (NumV fs.F) → Res (NumV fs.F)
  | [] => .ok acc
  | x :: xs =>
    match numericDo fs op acc x with
    | .ok acc' => numericFold op acc' xs
    | r => r

/-- `IntegerDo(Modulo, a, b)` (the `mod` builtin), numeric operands only. -/
def moduloDo : NumV fs.F → NumV fs.F → Res (NumV fs.F)
  | .int a, .int b => if b = 0#64 then .panic else .ok (.int (a.srem b))
  | .int a, .char b =>
      let b := runeToInt64 b
      if b = 0#64 then .panic else .ok (.int (a.srem b))
  | .char a, .int b => if b = 0#64 then .panic else .ok (.int ((runeToInt64 a).srem b))
  | .char a, .char b =>
      let b := runeToInt64 b
      if b = 0#64 then .panic else .ok (.int ((runeToInt64 a).srem b))
  | .int a, .uint b => if b = 0#64 then .panic else .ok (.uint (a.umod b))
  | .char a, .uint b => if b = 0#64 then .panic else .ok (.uint ((runeToInt64 a).umod b))
  | .uint a, .uint b => if b = 0#64 then .panic else .ok (.uint (a.umod b))
  | .uint a, .int b => if b = 0#64 then .panic else .ok (.uint (a.umod b))
  | .uint a, .char b =>
      let b := runeToInt64 b
      if b = 0#64 then .panic else .ok (.uint (a.umod b))
  | _, _ => .err

/-- `CallUserFunction`'s `recover()`: a panic inside a builtin is reported to the script
as an error. -/
def recovered {α : Type} : Res α → Res α
  | .panic => .err
  | r => r

end ZygoVerif.Num
