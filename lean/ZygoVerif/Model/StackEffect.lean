/-
Model/StackEffect.lean — the stack-effect machine: what each zygomys instruction does to the
DEPTHS of the VM's stacks, and to the kinds of cells on the data stack, when it succeeds.
It follows the `Execute` methods of zygo/vm.go instruction by instruction (through the
effect classes `Bal.eff`), forgetting values: a data-stack cell is an ordinary value, the
syntax-quote `marker`, or a stack-mark. An instruction that returns an error has no
successor here (the run aborts; `Run` then restores the sizes it captured, which is C05).

The machine runs ONE function. A call instruction is a single step: by the calling contract
of `CallFunction`/`CallUserFunction` (arguments popped, exactly one result pushed, scope and
address stacks as before) — for a compiled callee that contract is this very theorem applied
to the callee, for a Go builtin it is monitored on every run (harness `rest`, column C).

`data` is the WHOLE data stack, including whatever the caller had on it: instructions are
free to pop into the caller's part (that is the defect class C04 is about), and the
soundness theorem shows that code accepted by the checker never does. Core-only.
-/
import ZygoVerif.Spec.Balanced
namespace ZygoVerif.Bal

inductive Cell where
  | val
  | marker
  | mark (s : Nat)
deriving DecidableEq, Repr, Inhabited

structure CState where
  pc : Nat
  data : List Cell    -- top first
  sc : Nat            -- depth of the scope stack
  addr : Nat          -- depth of the address stack
deriving Repr, Inhabited

/-- One successful instruction of function `f`. -/
inductive CStep (f : Fn) : CState → CState → Prop
  /-- pops `p` cells (whatever they are: `PopExpr` does not look), pushes `m` values -/
  | simple (c : CState) (i : BInstr) (p m : Nat) (popped rest : List Cell) :
      f.code[c.pc]? = some i → eff i = .simple p m → c.data = popped ++ rest → popped.length = p →
      CStep f c { c with pc := c.pc + 1, data := List.replicate m .val ++ rest }
  | dup (c : CState) (i : BInstr) (x : Cell) (rest : List Cell) :
      f.code[c.pc]? = some i → eff i = .dup → c.data = x :: rest →
      CStep f c { c with pc := c.pc + 1, data := x :: x :: rest }
  | popCell (c : CState) (i : BInstr) (x : Cell) (rest : List Cell) :
      f.code[c.pc]? = some i → eff i = .pop → c.data = x :: rest →
      CStep f c { c with pc := c.pc + 1, data := rest }
  /-- `PopInstr` ignores an underflow -/
  | popEmpty (c : CState) (i : BInstr) :
      f.code[c.pc]? = some i → eff i = .pop → c.data = [] →
      CStep f c { c with pc := c.pc + 1 }
  | jump (c : CState) (i : BInstr) (off : Int) (t : Nat) :
      f.code[c.pc]? = some i → eff i = .jump off → target c.pc off f.code.length = some t →
      CStep f c { c with pc := t }
  | goto (c : CState) (i : BInstr) (loc : Int) (t : Nat) :
      f.code[c.pc]? = some i → eff i = .goto loc → absTarget loc f.code.length = some t →
      CStep f c { c with pc := t }
  | branchTaken (c : CState) (i : BInstr) (off : Int) (x : Cell) (rest : List Cell) (t : Nat) :
      f.code[c.pc]? = some i → eff i = .branch off → c.data = x :: rest →
      target c.pc off f.code.length = some t →
      CStep f c { c with pc := t, data := rest }
  | branchFall (c : CState) (i : BInstr) (off : Int) (x : Cell) (rest : List Cell) :
      f.code[c.pc]? = some i → eff i = .branch off → c.data = x :: rest →
      CStep f c { c with pc := c.pc + 1, data := rest }
  /-- `TailGuardInstr`: the name no longer denotes the running function -/
  | guardTaken (c : CState) (i : BInstr) (off : Int) (t : Nat) :
      f.code[c.pc]? = some i → eff i = .guard off → target c.pc off f.code.length = some t →
      CStep f c { c with pc := t }
  | guardFall (c : CState) (i : BInstr) (off : Int) :
      f.code[c.pc]? = some i → eff i = .guard off →
      CStep f c { c with pc := c.pc + 1 }
  | scopeUp (c : CState) (i : BInstr) :
      f.code[c.pc]? = some i → eff i = .scopeUp →
      CStep f c { c with pc := c.pc + 1, sc := c.sc + 1 }
  /-- `PopScope` fails on an empty scope stack -/
  | scopeDown (c : CState) (i : BInstr) (n : Nat) :
      f.code[c.pc]? = some i → eff i = .scopeDown → c.sc = n + 1 →
      CStep f c { c with pc := c.pc + 1, sc := n }
  | pushMarker (c : CState) (i : BInstr) :
      f.code[c.pc]? = some i → eff i = .pushMarker →
      CStep f c { c with pc := c.pc + 1, data := .marker :: c.data }
  /-- squash / vectorize / hashize: pop down to and including the first marker, push one value -/
  | closeMarker (c : CState) (i : BInstr) (above below : List Cell) :
      f.code[c.pc]? = some i → eff i = .closeMarker → c.data = above ++ .marker :: below →
      .marker ∉ above →
      CStep f c { c with pc := c.pc + 1, data := .val :: below }
  /-- pop a list, push its elements (any number) -/
  | explode (c : CState) (i : BInstr) (x : Cell) (rest : List Cell) (n : Nat) :
      f.code[c.pc]? = some i → eff i = .explode → c.data = x :: rest →
      CStep f c { c with pc := c.pc + 1, data := List.replicate n .val ++ rest }
  | pushMark (c : CState) (i : BInstr) (s : Nat) :
      f.code[c.pc]? = some i → eff i = .pushMark s →
      CStep f c { c with pc := c.pc + 1, data := .mark s :: c.data }
  /-- pop down to the first stack-mark `s` and put it back -/
  | popUntil (c : CState) (i : BInstr) (s : Nat) (above below : List Cell) :
      f.code[c.pc]? = some i → eff i = .popUntil s → c.data = above ++ .mark s :: below →
      .mark s ∉ above →
      CStep f c { c with pc := c.pc + 1, data := .mark s :: below }
  | clearMark (c : CState) (i : BInstr) (s : Nat) (above below : List Cell) :
      f.code[c.pc]? = some i → eff i = .clearMark s → c.data = above ++ .mark s :: below →
      .mark s ∉ above →
      CStep f c { c with pc := c.pc + 1, data := below }
  /-- break / continue: pop `p` scopes, continue at the loop's offset. The VM does not check
  the new pc against the function size. -/
  | exitLoop (c : CState) (i : BInstr) (l : Nat) (off : Int) (p pos : Nat) :
      f.code[c.pc]? = some i → eff i = .exitLoop l off p → loopPos f.code l = some pos →
      0 ≤ (pos : Int) + off → p ≤ c.sc →
      CStep f c { c with pc := ((pos : Int) + off).toNat, sc := c.sc - p }
  | xfer (c : CState) (i : BInstr) (n : Nat) :
      f.code[c.pc]? = some i → eff i = .xfer → c.sc = n + 1 →
      CStep f c { c with pc := c.pc + 1, sc := n, data := .val :: c.data }
  /-- `PrepareCallInstr` of a variadic function: `wrangleOptargs` packs the surplus -/
  | prepareVar (c : CState) (i : BInstr) (n : Nat) (popped rest : List Cell) :
      f.code[c.pc]? = some i → eff i = .prepareCall n → f.varargs = true → f.nfixed ≤ n →
      c.data = popped ++ rest → popped.length = n - f.nfixed →
      CStep f c { c with pc := c.pc + 1, data := .val :: rest }
  | prepareFix (c : CState) (i : BInstr) (n : Nat) :
      f.code[c.pc]? = some i → eff i = .prepareCall n → f.varargs = false →
      CStep f c { c with pc := c.pc + 1 }

/-- Executions: any number of steps. -/
inductive Reach (f : Fn) : CState → CState → Prop
  | refl (c : CState) : Reach f c c
  | step (c c' c'' : CState) : Reach f c c' → CStep f c' c'' → Reach f c c''

/-- The function is about to return (`ReturnInstr{nil}` → `ReturnFromFunction`). -/
def AtRet (f : Fn) (c : CState) : Prop := f.code[c.pc]? = some (.ret false)

/-- State of the caller after `ReturnFromFunction` popped the return address. -/
def afterRet (c : CState) : CState := { c with addr := c.addr - 1 }

end ZygoVerif.Bal
