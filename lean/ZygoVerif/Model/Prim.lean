/-
Values, the data heap (arrays are shared by reference in Go) and the builtin functions of
the core language. Shared by the reference evaluator (`Spec/RefEval.lean`) and by the VM
model (`Model/VM.lean`): the two differ in how they represent environments, closures and
control, not in what `+`, `append` or `aget` compute. Core-only.

Go side: functions.go (`NumericFunction`, `CompareFunction`, `ConsFunction`, `FirstFunction`,
`RestFunction`, `SecondFunction`, `ArrayAccessFunction`, `LenFunction`, `AppendFunction`,
`ConcatFunction`, `NotFunction`, `ConstructorFunction`), arrayutils.go, listutils.go,
strutils.go, comparisons.go, expressions.go (`IsTruthy`), scopes.go (`BindSymbol` typing rule).
Every builtin runs under the `recover()` of `CallUserFunction`, so a Go panic inside one is
an ordinary script error: `none` below.
-/
import ZygoVerif.Model.Num
namespace ZygoVerif.Core

/-- Script values. Closures and lazy arguments are named by an index into a table owned by
the evaluator (both evaluators allocate them in evaluation order, so the indices agree). -/
inductive Val where
  | nil
  | bool (b : Bool)
  | int (v : BitVec 64)
  | str (s : String)
  | pair (h t : Val)
  | arr (ref : Nat)
  | fn (id : Nat)
  | builtin (name : String)
  | lazy (id : Nat)
  | mark (loop : Nat)          -- VM only: `SexpStackmark` (a loop's data-stack mark)
  | sym (name : String)        -- a symbol as data: only inside the source `substitute` returns (C16)
deriving Repr, Inhabited, BEq, DecidableEq

/-- Arrays live here; `aset` mutates in place, every constructor allocates. -/
structure DataHeap where
  arrs : List (List Val) := []
deriving Repr, Inhabited

def DataHeap.alloc (h : DataHeap) (xs : List Val) : Val × DataHeap :=
  (.arr h.arrs.length, { h with arrs := h.arrs ++ [xs] })

def DataHeap.get (h : DataHeap) (r : Nat) : List Val := h.arrs.getD r []

def DataHeap.set (h : DataHeap) (r : Nat) (xs : List Val) : DataHeap :=
  { h with arrs := h.arrs.set r xs }

/-- `IsTruthy` (expressions.go). -/
def truthy : Val → Bool
  | .bool b => b
  | .int v => v != 0#64
  | .nil => false
  | _ => true

def intOfLit (v : Int) : Val := .int (BitVec.ofInt 64 v)

/-- `MakeList`. -/
def mkList : List Val → Val
  | [] => .nil
  | x :: xs => .pair x (mkList xs)

/-- `ListToArray`: `none` when the value is not a proper list. -/
def listToArray : Val → Option (List Val)
  | .nil => some []
  | .pair h t => (listToArray t).map (h :: ·)
  | _ => none

def isFunction : Val → Bool
  | .fn _ => true
  | .builtin _ => true
  | _ => false

/-! ## Canonical printing (the harness prints values the same way) -/

def joinSp : List String → String := fun l => " ".intercalate l

mutual
def showVal (h : DataHeap) : Nat → Val → String
  | _, .nil => "nil"
  | _, .bool b => if b then "true" else "false"
  | _, .int v => toString v.toInt
  | _, .str s => "\"" ++ s ++ "\""
  | _, .fn _ => "fn"
  | _, .builtin _ => "fn"
  | _, .lazy _ => "lazy"
  | _, .mark _ => "?*zygo.SexpStackmark"
  | _, .sym s => s
  | 0, _ => "..."
  | d+1, .arr r => "[" ++ joinSp (showVals h d (h.get r)) ++ "]"
  | d+1, .pair a b => "(" ++ joinSp (showTail h d (.pair a b)) ++ ")"
def showVals (h : DataHeap) : Nat → List Val → List String
  | _, [] => []
  | d, x :: xs => showVal h d x :: showVals h d xs
def showTail (h : DataHeap) : Nat → Val → List String
  | d, .pair a b => showVal h d a :: showTail h d b
  | _, .nil => []
  | d, v => ["\\", showVal h d v]
end

def printDepth : Nat := 6
def pr (h : DataHeap) (v : Val) : String := showVal h printDepth v

/-! ## The `BindSymbol` typing rule -/

/-- `Type()` of a value, as far as `BindSymbol` distinguishes: `none` = Go `nil` type
(lists, functions, nil …), which is exempt from the rule. -/
inductive Ty where | int | str | bool | emptyArr | arrOf | sym
deriving DecidableEq, Repr

def tyOf (h : DataHeap) : Val → Option Ty
  | .int _ => some .int
  | .str _ => some .str
  | .bool _ => some .bool
  | .sym _ => some .sym
  | .arr r => match h.get r with
    | [] => some .emptyArr
    | x :: _ => match x with
      | .int _ => some .arrOf
      | .str _ => some .arrOf
      | .bool _ => some .arrOf
      | .arr _ => some .arrOf
      | _ => none
  | _ => none

/-- May a name bound to `cur` be re-bound *in the same scope* to `new`? (`Stack.BindSymbol`:
same registered type, or either side untyped; slice types are mutually assignable by the
reflect rule only when equal, but a typed slice never accepts / is accepted by `[]`.) -/
def rebindOk (h : DataHeap) (cur new : Val) : Bool :=
  match tyOf h cur, tyOf h new with
  | none, _ => true
  | _, none => true
  | some a, some b => a == b

/-! ## Builtins -/

def allInts : List Val → Option (List (BitVec 64))
  | [] => some []
  | .int v :: xs => (allInts xs).map (v :: ·)
  | _ => none

/-- `Compare` on the value kinds of the core language; `none` = "cannot compare". -/
def compareVals : Val → Val → Option Int
  | .int a, .int b => some (if a.slt b then -1 else if b.slt a then 1 else 0)
  | .str a, .str b => some (if a < b then -1 else if b < a then 1 else 0)
  | .bool a, .bool b => some (if a == b then 0 else if a then 1 else -1)
  | .nil, .nil => some 0
  | .nil, _ => some (-1)
  | _, _ => none

def cmpResult (name : String) (r : Int) : Bool :=
  if name = "<" then r < 0 else if name = ">" then r > 0 else if name = "<=" then r ≤ 0
  else if name = ">=" then r ≥ 0 else if name = "==" then r == 0 else r != 0

def isCmp (name : String) : Bool := ["<", ">", "<=", ">=", "==", "!="].contains name

/-- List concatenation as `ConcatLists` does it: every operand a proper list. -/
def concatLists (a : Val) : List Val → Option Val
  | [] => some a
  | b :: bs => match listToArray a, listToArray b with
    | some xs, some ys => match mkList (xs ++ ys) with
      | .nil => none          -- the intermediate result must be a pair
      | r => concatLists r bs
    | _, _ => none

def concatArrs (h : DataHeap) (acc : List Val) : List Val → Option (List Val)
  | [] => some acc
  | .arr r :: rest => concatArrs h (acc ++ h.get r) rest
  | _ => none

def concatStrs (acc : String) : List Val → Option String
  | [] => some acc
  | .str s :: rest => concatStrs (acc ++ s) rest
  | _ => none

/-- A pure builtin applied to evaluated arguments. `none` = the script-level error
`Error calling '<name>': …`. `map`, `apply`, `force` and the host function `trace` call back
into the evaluator and are handled there. -/
def prim (name : String) (args : List Val) (h : DataHeap) : Option (Val × DataHeap) :=
  if name = "+" ∨ name = "-" ∨ name = "*" then
    match args with
    | [] => none
    | [x] =>
      if name = "-" then (match x with | .int v => some (.int (0#64 - v), h) | _ => none)   -- after fix C02-01
      else if name = "+" then some (x, h)
      else none                                            -- `(* x)` is PointerToFunction
    | x :: rest =>
      match allInts (x :: rest) with
      | some (v :: vs) =>
        let f := fun (a b : BitVec 64) => if name = "+" then a + b else if name = "-" then a - b else a * b
        some (.int (vs.foldl f v), h)
      | _ => none
  else if name = "mod" then
    match args with
    | [.int a, .int b] => if b = 0#64 then none else some (.int (a.srem b), h)
    | _ => none
  else if isCmp name then
    match args with
    | [a, b] => (compareVals a b).map (fun r => (.bool (cmpResult name r), h))
    | _ => none
  else if name = "not" then
    match args with
    | [a] => some (.bool (!truthy a), h)
    | _ => none
  else if name = "cons" then
    match args with
    | [a, b] => some (.pair a b, h)
    | _ => none
  else if name = "first" then
    match args with
    | [.pair a _] => some (a, h)
    | [.arr r] => (h.get r).head?.map (·, h)
    | _ => none
  else if name = "rest" then
    match args with
    | [.pair _ t] => some (t, h)
    | [.arr r] => (match h.get r with | [] => some (.arr r, h) | _ :: t => some (h.alloc t))
    | [.nil] => some (.nil, h)
    | _ => none
  else if name = "second" then
    match args with
    | [.pair _ (.pair b _)] => some (b, h)
    | [.arr r] => (match h.get r with | _ :: b :: _ => some (b, h) | _ => none)
    | _ => none
  else if name = "list" then some (mkList args, h)
  else if name = "array" then some (h.alloc args)
  else if name = "len" then
    match args with
    | [.nil] => some (.int 0#64, h)
    | [.arr r] => some (.int (BitVec.ofNat 64 (h.get r).length), h)
    | [.str s] => some (.int (BitVec.ofNat 64 s.utf8ByteSize), h)
    | [.pair a b] => (listToArray (.pair a b)).map (fun l => (.int (BitVec.ofNat 64 l.length), h))
    | _ => none
  else if name = "append" then
    match args with
    | [.arr r, x] => some (h.alloc (h.get r ++ [x]))
    | _ => none
  else if name = "concat" then
    match args with
    | .arr r :: rest => (concatArrs h (h.get r) rest).map h.alloc
    | .str s :: rest => (concatStrs s rest).map (fun s' => (.str s', h))
    | [.pair a b] => some (.pair a b, h)
    | .pair a b :: rest => (concatLists (.pair a b) rest).map (·, h)
    | _ => none
  else if name = "aget" then
    match args with
    | [.arr r, .int i] => ((h.get r)[i.toInt.toNat]?.filter (fun _ => i.toInt ≥ 0)).map (·, h)
    | [.arr r, .int i, d] =>
      some (((h.get r)[i.toInt.toNat]?.filter (fun _ => i.toInt ≥ 0)).getD d, h)
    | _ => none
  else if name = "aset" then
    match args with
    | [.arr r, .int i, v] =>
      if i.toInt ≥ 0 ∧ i.toInt.toNat < (h.get r).length then
        some (.nil, h.set r ((h.get r).set i.toInt.toNat v))
      else none
    | _ => none
  else none

/-- Names whose call re-enters the evaluator. -/
def isHigherOrder (name : String) : Bool := ["map", "apply", "force", "trace"].contains name

end ZygoVerif.Core
