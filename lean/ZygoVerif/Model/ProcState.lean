/-
C20 — "independent of how many interpreters were created earlier in the process".

The process-global state of package zygo is its package-level variables
(Generated/Globals.lean lists them with the functions that write them after init). Model:
a store from variable names to values; a history (whatever earlier interpreters did) is a
list of writes; an evaluation in a fresh interpreter is a function of the program and of the
store, and it can depend only on the variables it reads. Core Lean only.
-/
namespace ZygoVerif.ProcState

/-- The package-level variables: name ↦ value (values abstracted to `Nat`). -/
abbrev Store := String → Nat

/-- One write by some earlier interpreter. -/
structure Write where
  var : String
  val : Nat
  deriving DecidableEq, Repr

def Store.set (s : Store) (w : Write) : Store := fun v => if v = w.var then w.val else s v

/-- The store after a history of writes. -/
def runHistory (s : Store) (hist : List Write) : Store := hist.foldl Store.set s

/-- The variables a history writes. -/
def written (hist : List Write) : List String := hist.map (·.var)

/-- A variable that is re-initialised by every interpreter creation before it is read
(`arrayOp` in `InitInfixOps`): creation = a write of a constant. -/
def reinit (s : Store) (var : String) (c : Nat) : Store := s.set ⟨var, c⟩

end ZygoVerif.ProcState
