/-
Model of the macro call path (after the fixes; unchanged by them):

  zygo/generator.go  GenerateCallBySymbol: the special forms are tried first, then
                     `macro, found := gen.env.macros[sym.number]`; if found
                     `env := gen.env.Duplicate(); expr, err := env.Apply(macro, args);`
                     `return gen.Generate(expr)` — the expansion is compiled *in place*, by the
                     caller's generator (same scopes, same tail position)          → `generate`
  zygo/environment.go Duplicate: fresh data/scope/address/loop stacks, pc = 0, fresh main
                     function; the *global scope object*, the macro table, the symbol table and
                     the builtins are shared with the caller                        → `duplicate`
                     Apply (on the duplicate): push the argument forms unevaluated,
                     CallFunction, Run; the result is the expansion                 → `applyIn`

Scope of the model: *template macros* `(defmac m [p…] ^T)` whose unquoted expressions are
parameter names — the macro definitions quantified over by C15. For those the body is run
by the template machine of `Model/SQ.lean` with each parameter bound to its (unevaluated)
argument form. Everything else the generator does is the parameter `base` (open recursion:
`base` may compile sub-forms with the generator it is given). Expansion takes fuel: a macro
may expand forever. Core Lean only.
-/
import ZygoVerif.Model.SQ
namespace ZygoVerif.SQ

structure Macro where
  params : List String
  body : Sexp            -- the template T of the body `^T`

/-- Parameters bound to the argument forms (the function scope of the macro call in the
duplicate). Unquoting anything but a parameter is outside this model (`none`). -/
def paramHost (mk : String → List Sexp → Option Sexp) (params : List String) (args : List Sexp) : Host where
  genOK := fun _ => true
  eval := fun e => match e with
    | .atom (.sym p) => ((params.zip args).find? (fun q => q.1 = p)).map (·.2)
    | _ => none
  mkHash := mk

/-- The per-interpreter control state — what Duplicate does *not* share. -/
structure Ctl where
  data : Stack
  scopes : Nat        -- linear (scope) stack size
  addr : Nat
  loops : Nat
  pc : Int
  inMain : Bool       -- curfunc == mainfunc
  deriving DecidableEq

/-- An interpreter: its control state and what it shares with its duplicates. `G` is the
global scope object (shared by pointer in Go, so a duplicate's writes are the caller's). -/
structure Interp (G : Type) where
  ctl : Ctl
  global : G
  macros : String → Option Macro

def Ctl.fresh : Ctl := { data := [], scopes := 1, addr := 0, loops := 0, pc := 0, inMain := true }

/-- environment.go Duplicate -/
def duplicate {G} (e : Interp G) : Interp G := { e with ctl := Ctl.fresh }

/-- Apply of a template macro inside interpreter `d` (the duplicate): wrong arity is an error
(CallFunction); the body's template code runs on `d`'s data stack; `Run` pops the result.
A template body reads its parameters only, so the shared global scope is returned as it was. -/
def applyIn {G} (mk : String → List Sexp → Option Sexp) (d : Interp G) (m : Macro) (args : List Sexp) :
    Option (Sexp × Interp G) :=
  if args.length ≠ m.params.length then none
  else match evalOn (paramHost mk m.params args) (genTop (paramHost mk m.params args) m.body) d.ctl.data with
    | some (v, rest) => some (v, { d with ctl := { d.ctl with data := rest } })
    | none => none

/-- The macro branch of GenerateCallBySymbol, as far as interpreters are concerned: the
expansion is computed in a duplicate; of the duplicate only the shared parts survive. -/
def expandCall {G} (mk : String → List Sexp → Option Sexp) (e : Interp G) (m : Macro) (args : List Sexp) :
    Option (Sexp × Interp G) :=
  match applyIn mk (duplicate e) m args with
  | some (x, d') => some (x, { e with global := d'.global, macros := d'.macros })
  | none => none

/-- The expansion alone. -/
def expand (mk : String → List Sexp → Option Sexp) (m : Macro) (args : List Sexp) : Option Sexp :=
  if args.length ≠ m.params.length then none
  else (evalSQ (paramHost mk m.params args) m.body).map (·.1)

/-- `Generate(form)`: special forms first, then macros (expansion compiled in place by the same
generator), then everything else. `C` is the type of compiled code. -/
def generate {C : Type} (mk : String → List Sexp → Option Sexp) (macros : String → Option Macro)
    (special : String → Bool) (base : (Sexp → Option C) → Sexp → Option C) : Nat → Sexp → Option C
  | 0, _ => none
  | n + 1, form =>
    match form with
    | .cons (.atom (.sym f)) args =>
      if special f then base (generate mk macros special base n) form
      else match macros f with
        | some m =>
          match listToArray args with
          | some as => (expand mk m as).bind (generate mk macros special base n)
          | none => base (generate mk macros special base n) form
        | none => base (generate mk macros special base n) form
    | _ => base (generate mk macros special base n) form

/-! ## The call site: the generator context carried through expansion

`return gen.Generate(expr)` compiles the expansion with the generator `gen` that met the
call — not with a sub-generator — so the expansion sees what a hand-written form at that
place would see:

  gen.scopes     number of run-time scopes (let / letseq / newScope / for) open at this
                 point of the function being compiled; `(break)` / `(continue)` pop
                 `gen.scopes - (loop.scopeDepth+1)` scopes, a self tail call removes `gen.scopes+1`
  gen.Tail       tail position (a call of `gen.funcname` there becomes a jump)
  gen.funcname   the function being compiled
  env.loopstack  the for-loops being compiled around this point (pushed by GenerateForLoop,
                 popped when it returns); it belongs to the interpreter, not to the generator,
                 so it is also what a function body compiled inside a loop sees

`genC` follows generator.go arm by arm for the forms below and produces the
*context-sensitive* instructions only (`KI`) — exactly what the overlay accessor
`VerifCtxListing` reports for the real code. Sub-generators (`NewSubGenerator`, `Reset`)
start from scopes = 0, Tail = false and get the fields the Go code copies, no others.
Outside the model (`none`, like a compile error): mdef, assert, defmac, macexpand,
include, package, _ls, assignment lists (`=`, `:=`), builder calls, lazy formals. Follows
/repo 0d48297 (C04-02 … C04-09: `(begin)` pushes nil, quote takes one argument, cond tests keep the
scopes, Tail cleared in let initialisers, array literals, multi-value return and template parts,
self tail call only when the arity fits).
-/

/-- The context-sensitive instructions. A closure body is bracketed by `fnOpen … fnClose`. -/
inductive KI where
  | addScope                    -- AddScopeInstr
  | remScope                    -- RemoveScopeInstr
  | loopStart (id : Nat)        -- LoopStartInstr
  | brk (id pops : Nat)         -- BreakInstr{loop, scopesToPop}
  | cont (id pops : Nat)        -- ContinueInstr{loop, scopesToPop}
  | prepCall (n : Nat)          -- PrepareCallInstr (self tail call)
  | goto0                       -- GotoInstr{0}
  | callX (callee : String) (n : Nat)   -- CallExprInstr: arguments are compiled when it runs
  | fnOpen                      -- CreateClosureInstr{sfun}: sfun.fun follows
  | fnClose
  deriving DecidableEq, Repr

/-- generator.go `Loop` as far as the generator reads it -/
structure Loop where
  id : Nat
  label : Option String
  scopeDepth : Nat
  deriving DecidableEq, Repr

/-- The fields of `Generator` that decide what is emitted, and the gensym counter. -/
structure GenSt where
  scopes : Nat
  tail : Bool
  funcname : String
  next : Nat
  /-- formals of the function known as `funcname` (gen.knownFunctions, shared by all
  sub-generators): a self tail call is a jump only when the number of arguments fits -/
  nargs : Nat := 0
  varargs : Bool := false
  deriving DecidableEq, Repr

/-- What the interpreter knows while compiling: the macro table, how hashes are made (for
expansion), and which names may not be bound (`IsBuiltinSym`). -/
structure CEnv where
  mkHash : String → List Sexp → Option Sexp
  macros : String → Option Macro
  builtin : String → Bool
  /-- does `bindsName` look into the expansions of macro calls? (generator.go as of 70c349a:
  no; with fixes/C15-04: yes. The driver takes it from the regenerated table
  `Generated.SQCtx.rebindScansExpansions`.) -/
  scanExpansions : Bool := false

/-- the case labels of the switch in GenerateCallBySymbol, in order (T1: `emit_special_forms`) -/
def specialForms : List String :=
  ["and", "or", "cond", "quote", "def", "mdef", "fn", "defn", "begin", "let", "letseq", "assert",
   "defmac", "macexpand", "syntaxQuote", "include", "for", "set", "break", "continue", "newScope",
   "package", "return", "_ls"]

abbrev GenRes := Option (List KI × GenSt)
/-- a generator for one form, given the loop stack and the generator state -/
abbrev GenFn := List Loop → GenSt → Sexp → GenRes

/-- `NewSubGenerator()` followed by the assignments the Go code makes: everything else starts
from the zero value. The gensym counter is the interpreter's. -/
def subgen (s : GenSt) (scopes : Nat) (tail : Bool) (funcname : String) : GenSt :=
  { scopes := scopes, tail := tail, funcname := funcname, next := s.next, nargs := s.nargs, varargs := s.varargs }

/-- back in the parent generator after a sub-generator ran: only the counter moved -/
def GenSt.after (s sub : GenSt) : GenSt := { s with next := sub.next }

/-- a run of `gen.Generate` calls on the same generator (GenerateAll, let bindings, …) -/
def genSeq (rec : GenSt → Sexp → GenRes) : List Sexp → GenSt → GenRes
  | [], s => some ([], s)
  | x :: xs, s => do
    let (a, s1) ← rec s x
    let (b, s2) ← genSeq rec xs s1
    some (a ++ b, s2)

/-- GenerateBegin: all but the last form are not in tail position; `gen.Tail` is restored
before the last one (and stays false when there is none). -/
def genBegin (rec : GenSt → Sexp → GenRes) (xs : List Sexp) (s : GenSt) : GenRes :=
  let s0 := { s with tail := false }
  match xs.getLast? with
  | none => some ([], s0)
  | some last => do
    let (a, s1) ← genSeq rec xs.dropLast s0
    let (b, s2) ← rec { s1 with tail := s.tail } last
    some (a ++ b, s2)

/-- GenerateNewScope -/
def genNewScope (rec : GenSt → Sexp → GenRes) (xs : List Sexp) (s : GenSt) : GenRes :=
  let s0 := { s with tail := false }
  match xs.getLast? with
  | none => some ([], s0)
  | some last => do
    let (a, s1) ← genSeq rec xs.dropLast { s0 with scopes := s0.scopes + 1 }
    let (b, s2) ← rec { s1 with tail := s.tail } last
    some (.addScope :: a ++ b ++ [.remScope], { s2 with scopes := s2.scopes - 1 })

def symName? : Sexp → Option String
  | .atom (.sym n) => some n
  | _ => none

/-- generator.go getQuotedSymbol / the label argument of for, break, continue -/
def label? : Sexp → Option String
  | .atom (.sym n) => some n
  | .cons (.atom (.sym "quote")) (.cons (.atom (.sym n)) .nil) => some n
  | _ => none

/-- GenerateLet (`let` and `letseq` differ in where the bindings are stored, not in what is
compiled where) -/
def genLet (rec : GenSt → Sexp → GenRes) (args : List Sexp) (s : GenSt) : GenRes :=
  match args with
  | .arr bindings :: body@(_ :: _) =>
    match listToArray bindings with
    | none => none
    | some bs =>
      if bs.length % 2 ≠ 0 then none
      else
        let lhs := (List.range (bs.length / 2)).map (fun i => bs.getD (2 * i) .nil)
        let rhs := (List.range (bs.length / 2)).map (fun i => bs.getD (2 * i + 1) .nil)
        if lhs.any (fun x => (symName? x).isNone) then none
        else do
          -- the initialisers are compiled with Tail false; it is restored before the body
          let (a, s1) ← genSeq rec rhs { s with scopes := s.scopes + 1, tail := false }
          let (b, s2) ← genBegin rec body { s1 with tail := s.tail }
          some (.addScope :: a ++ b ++ [.remScope], { s2 with scopes := s2.scopes - 1 })
  | _ => none

/-- GenerateCond: the default and every branch body in a sub-generator with Tail, scopes and
funcname of the caller; every test after `Reset()` with the caller's scopes again — Tail false. -/
def genCond (rec : GenSt → Sexp → GenRes) (args : List Sexp) (s : GenSt) : GenRes :=
  if args.length % 2 = 0 then none
  else
    let rec go : List Sexp → GenSt → GenRes
      | [dflt], s' => do
        let (c, sd) ← rec (subgen s' s.scopes s.tail s.funcname) dflt
        some (c, s'.after sd)
      | p :: b :: more, s' => do
        let (cp, sp) ← rec (subgen s' s.scopes false s.funcname) p
        let (cb, sb) ← rec (subgen (s'.after sp) s.scopes s.tail s.funcname) b
        let (cr, sr) ← go more ((s'.after sp).after sb)
        some (cp ++ cb ++ cr, sr)
      | _, _ => none
    go args s

/-- GenerateShortCircuit: every operand in its own sub-generator with scopes and funcname;
only the last one inherits Tail. -/
def genShort (rec : GenSt → Sexp → GenRes) (args : List Sexp) (s : GenSt) : GenRes :=
  let rec go : List Sexp → GenSt → GenRes
    | [], s' => some ([], s')
    | [last], s' => do
      let (c, sl) ← rec (subgen s' s.scopes s.tail s.funcname) last
      some (c, s'.after sl)
    | x :: more, s' => do
      let (c, sx) ← rec (subgen s' s.scopes false s.funcname) x
      let (cr, sr) ← go more (s'.after sx)
      some (c ++ cr, sr)
  go args s

/-- GenerateBreak / GenerateContinue: the innermost loop, or the innermost one carrying the
label; `scopesToPop = gen.scopes - (loop.scopeDepth+1)`, not below 0. -/
def genBrk (isBreak : Bool) (loops : List Loop) (args : List Sexp) (s : GenSt) : GenRes :=
  let emit (l : Loop) : GenRes :=
    let pops := s.scopes - (l.scopeDepth + 1)
    some ([if isBreak then .brk l.id pops else .cont l.id pops], s)
  match args with
  | [] => match loops with
    | l :: _ => emit l
    | [] => none
  | [a] => match label? a with
    | none => none
    | some lab => match loops with
      | [] => none
      | _ => match loops.find? (fun l => l.label = some lab) with
        | some l => emit l
        | none => none
  | _ => none

/-- the name GenSymbol("__anon") gives an anonymous function: no symbol a program can write -/
def anonName : String := "__anon#"

/-! `rebindsOwnName` (generator.go, since /repo 70c349a): a function that binds or assigns its
own name — as a parameter or as the target of def / set / defmac / mdef / let / letseq / range /
fn / defn / func / method / `=` / `:=` anywhere in its body — is compiled with funcname = "":
calls through the name stay ordinary calls. The test is syntactic, on the body as written. -/

def isSymNamed (x : Sexp) (name : String) : Bool := x = .atom (.sym name)

/-- formalsBind: `f`, the lazy `#f`, the typed `f:` -/
def formalsBind (formals : List Sexp) (name : String) : Bool :=
  formals.any (fun f => match f with
    | .atom (.sym s) => s = name || s = "#" ++ name || s = name ++ ":"
    | _ => false)

/-- assignsIn: `name = v`, `name := v`, `a name = v w` among the elements (anything that is not
a symbol — commas aside, which these forms do not contain — ends the run of targets) -/
def assignsIn (elems : List Sexp) (name : String) : Bool :=
  (elems.foldl (fun (acc : Bool × Bool) x =>
    match x with
    | .atom (.sym s) =>
      if s = "=" || s = ":=" then (acc.1, acc.2 || acc.1)
      else if s = name then (true, acc.2)
      else acc
    | _ => (false, acc.2)) (false, false)).2

/-- the two switches over the head symbol in `bindsName` -/
def headBinds (f : String) (args : List Sexp) (name : String) : Bool :=
  (if f = "def" || f = "set" || f = "defmac" then
      (match args with | a :: _ => isSymNamed a name | [] => false)
    else if f = "mdef" then args.length > 1 && formalsBind args.dropLast name
    else if f = "let" || f = "letseq" then
      (match args with
        | .arr bs :: _ => (match listToArray bs with
          | some xs => (List.range (xs.length / 2)).any (fun i => isSymNamed (xs.getD (2 * i) .nil) name)
          | none => false)
        | _ => false)
    else if f = "range" then
      (match args with | a :: b :: _ => isSymNamed a name || isSymNamed b name | _ => false)
    else false)
  || (if f = "fn" then
      (match args with
        | .arr ps :: _ => (match listToArray ps with | some xs => formalsBind xs name | none => false)
        | _ => false)
    else if f = "defn" || f = "defmac" || f = "func" || f = "method" then
      (match args with | a :: _ => isSymNamed a name | [] => false)
      || (match args with
        | _ :: .arr ps :: _ => (match listToArray ps with | some xs => formalsBind xs name | none => false)
        | _ => false)
    else false)

/-- `bindsName`; with `E.scanExpansions` (fixes/C15-04) a macro call also binds what its
expansion binds. Fuel bounds the nesting (and a macro that expands for ever). -/
def bindsName (E : CEnv) (name : String) : Nat → Sexp → Bool
  | 0, _ => false
  | n + 1, expr =>
    match expr with
    | .arr elems =>
      match listToArray elems with
      | some xs => assignsIn xs name || xs.any (bindsName E name n)
      | none => false
    | .cons h t =>
      match listToArray t with
      | none => bindsName E name n h || bindsName E name n t
      | some args =>
        (match h with
          | .atom (.sym f) =>
            headBinds f args name
            || (E.scanExpansions && (match E.macros f with
                | some m => (match expand E.mkHash m args with
                  | some x => bindsName E name n x
                  | none => false)
                | none => false))
          | _ => false)
        || assignsIn (h :: args) name || (h :: args).any (bindsName E name n)
    | _ => false

def rebindsOwnName (E : CEnv) (name : String) (formals : List Sexp) (body : List Sexp) : Bool :=
  name ≠ "" && (formalsBind formals name || body.any (bindsName E name 100))

/-- buildSexpFun: a new generator — scopes 0, Tail true, the function's name (none when the
function rebinds its own name) — compiles the body with GenerateBegin; RemoveScope, Return
follow. The loop stack is the interpreter's and stays what it is. `name` = "" for `fn`:
its funcname is the gensym `anonName`. -/
def genFun (E : CEnv) (rec : GenSt → Sexp → GenRes) (name : String) (params : Sexp) (body : List Sexp) (s : GenSt) : GenRes :=
  match listToArray params with
  | none => none
  | some ps =>
    if ps.any (fun x => (symName? x).isNone) then none
    else
      let fname := if name = "" then anonName else if rebindsOwnName E name ps body then "" else name
      -- `[a b & rest]`: two fixed formals, the rest packed
      let va := ps.length ≥ 2 && ps.getD (ps.length - 2) .nil = .atom (.sym "&")
      let na := if va then ps.length - 2 else ps.length
      do
        let (c, sf) ← genBegin rec body { scopes := 0, tail := true, funcname := fname, next := s.next,
                                          nargs := na, varargs := va }
        some (.fnOpen :: c ++ [.remScope, .fnClose], s.after sf)

/-- GenerateForLoop: the loop is pushed on env.loopstack; body, init, test and increment are
compiled by four sub-generators with Tail false and the scope count inside the loop's scope. -/
def genFor (rec : List Loop → GenSt → Sexp → GenRes) (loops : List Loop) (args : List Sexp) (s : GenSt) : GenRes :=
  let build (label : Option String) (controls : Sexp) (body : List Sexp) : GenRes :=
    match listToArray controls with
    | some [init, test, incr] =>
      let loop : Loop := { id := s.next, label := label, scopeDepth := s.scopes }
      let inner := s.scopes + 1
      let loops' := loop :: loops
      let s0 : GenSt := { s with next := s.next + 1 }
      do
        let (cb, sb) ← genBegin (rec loops') body (subgen s0 inner false s.funcname)
        let (ci, si) ← rec loops' (subgen (s0.after sb) inner false s.funcname) init
        let (ct, st) ← rec loops' (subgen (s0.after si) inner false s.funcname) test
        let (cn, sn) ← rec loops' (subgen (s0.after st) inner false s.funcname) incr
        some (.loopStart loop.id :: .addScope :: ci ++ cn ++ ct ++ cb ++ [.remScope], s.after sn)
    | _ => none
  match args with
  | .arr controls :: body => build none controls body
  | lab :: .arr controls :: body =>
    match lab with
    | .arr _ => none
    | _ => match label? lab with
      | some l => build (some l) controls body
      | none => none
  | _ => none

/-- GenerateSyntaxQuote and friends as far as the context goes: the unquoted expressions are
compiled by `gen.Generate` on the same generator (the case "syntaxQuote" clears Tail around
the whole template); everything else is pushes, markers, squash … — nothing context-sensitive. -/
def genTmplC (rec : GenSt → Sexp → GenRes) : Nat → Sexp → GenSt → GenRes
  | 0, _, _ => none
  | k + 1, t, s =>
    match t with
    | .arr elems =>
      match listToArray elems with
      | some xs => genSeq (fun s x => genTmplC rec k x s) xs s
      | none => some ([], s)
    | .hash _ flat =>
      match listToArray flat with
      | some xs => genSeq (fun s x => genTmplC rec k x s) xs s
      | none => some ([], s)
    | .cons h tl =>
      if !isList tl then some ([], s)
      else match unqKind h tl with
        | some (_, e) => rec s e
        | none =>
          match listToArray (.cons h tl) with
          | some xs => genSeq (fun s x => genTmplC rec k x s) xs s
          | none => some ([], s)
    | _ => some ([], s)

/-- `Generate(form)` in context: the loop stack `loops` and the generator state `s`. -/
def genC (E : CEnv) : Nat → GenFn
  | 0, _, _, _ => none
  | n + 1, loops, s, form =>
    let rec' : GenSt → Sexp → GenRes := fun s x => genC E n loops s x
    match form with
    | .atom _ => some ([], s)                    -- EnvToStack / Push
    | .nil => some ([], s)
    | .hash _ _ => some ([], s)
    | .arr elems =>                              -- GenerateArray: GenerateAll with Tail false, then `array`
      match listToArray elems with
      | some xs => (genSeq rec' xs { s with tail := false }).map (fun (c, s1) => (c, { s1 with tail := s.tail }))
      | none => none
    | .cons h t =>
      match listToArray t with
      | none => some ([], s)                     -- not a list: pushed
      | some args =>
        if (h :: args).any (fun x => x = .atom (.sym "=") || x = .atom (.sym ":=")) then none
        else match h with
        | .atom (.sym f) =>
          if f ∈ specialForms then
            -- GenerateCallBySymbol: the switch
            if f = "and" || f = "or" then genShort rec' args s
            else if f = "cond" then genCond rec' args s
            else if f = "quote" then (if args.length = 1 then some ([], s) else none)
            else if f = "def" || f = "set" then
              match args with
              | [lhs, rhs] =>
                match symName? lhs with
                | some v =>
                  if E.builtin v || (E.macros v).isSome then none
                  else rec' { s with tail := false } rhs       -- `gen.Tail = false`, not restored
                | none => none
              | _ => none
            else if f = "fn" then
              match args with
              | .arr params :: body@(_ :: _) => genFun E rec' "" params body s
              | _ => none
            else if f = "defn" then
              match args with
              | .atom (.sym name) :: .arr params :: body@(_ :: _) =>
                if E.builtin name || (E.macros name).isSome then none
                else genFun E rec' name params body s
              | _ => none
            else if f = "begin" then (if args.isEmpty then some ([], s) else genBegin rec' args s)  -- (begin): push nil
            else if f = "let" || f = "letseq" then genLet rec' args s
            else if f = "for" then genFor (fun l s x => genC E n l s x) loops args s
            else if f = "break" then genBrk true loops args s
            else if f = "continue" then genBrk false loops args s
            else if f = "newScope" then genNewScope rec' args s
            else if f = "return" then
              -- several results are collected into one array: none of them in tail position
              if args.length > 1 then
                (genSeq rec' args { s with tail := false }).map (fun (c, s1) => (c, { s1 with tail := s.tail }))
              else genSeq rec' args s
            else if f = "syntaxQuote" then
              match args with
              | [t] =>
                if isUnquoteSplicing t then none
                else (genTmplC rec' n t { s with tail := false }).map (fun (c, s1) => (c, { s1 with tail := s.tail }))
              | _ => none
            else none
          else match E.macros f with
            | some m =>
              -- the macro branch: expansion in a duplicate, then `gen.Generate(expr)` — same
              -- generator, same loop stack
              (expand E.mkHash m args).bind (genC E n loops s)
            | none =>
              -- an ordinary call
              -- a jump only when the number of arguments fits the formals of the known function
              let fits := if s.varargs then decide (args.length ≥ s.nargs) else decide (args.length = s.nargs)
              if s.tail && f = s.funcname && fits then do
                let (a, s1) ← genSeq rec' args { s with tail := false }
                some (a ++ [KI.prepCall args.length] ++ List.replicate (s1.scopes + 1) KI.remScope ++ [KI.goto0, KI.callX f args.length],   -- fix C09-02: the ordinary call behind the jump (the guard itself is not context-sensitive)
                      { s1 with tail := s.tail })
              else some ([.callX f args.length], s)
        | _ => some ([.callX "?" args.length], s)   -- GenerateDispatch

/-- LoadExpressions: a new generator, GenerateBegin of the top-level forms. -/
def genProgram (E : CEnv) (fuel : Nat) (forms : List Sexp) : Option (List KI) :=
  (genBegin (fun s x => genC E fuel [] s x) forms { scopes := 0, tail := false, funcname := "", next := 0 }).map (·.1)

end ZygoVerif.SQ
