/-
Model of the macro call path (after the fixes; unchanged by them):

  zygo/generator.go  GenerateCallBySymbol: the special forms are tried first, then
                     `macro, found := gen.env.macros[sym.number]`; if found
                     `env := gen.env.Duplicate(); expr, err := env.Apply(macro, args);`
                     `return gen.Generate(expr)` — the expansion is compiled *in place*, by the
                     caller's generator (same scopes, same tail position)          → `generate`
  zygo/environment.go Duplicate: fresh data/scope/address/loop stacks, pc = 0, fresh main
                     function; the *global scope object*, the macro table, the symbol table and
                     the builtins are shared with the caller                        → `duplicate`
                     Apply (on the duplicate): push the argument forms unevaluated,
                     CallFunction, Run; the result is the expansion                 → `applyIn`

Scope of the model: *template macros* `(defmac m [p…] ^T)` whose unquoted expressions are
parameter names — the macro definitions quantified over by C15. For those the body is run
by the template machine of `Model/SQ.lean` with each parameter bound to its (unevaluated)
argument form. Everything else the generator does is the parameter `base` (open recursion:
`base` may compile sub-forms with the generator it is given). Expansion takes fuel: a macro
may expand forever. Core Lean only.
-/
import ZygoVerif.Model.SQ
namespace ZygoVerif.SQ

structure Macro where
  params : List String
  body : Sexp            -- the template T of the body `^T`

/-- Parameters bound to the argument forms (the function scope of the macro call in the
duplicate). Unquoting anything but a parameter is outside this model (`none`). -/
def paramHost (mk : String → List Sexp → Option Sexp) (params : List String) (args : List Sexp) : Host where
  genOK := fun _ => true
  eval := fun e => match e with
    | .atom (.sym p) => ((params.zip args).find? (fun q => q.1 = p)).map (·.2)
    | _ => none
  mkHash := mk

/-- The per-interpreter control state — what Duplicate does *not* share. -/
structure Ctl where
  data : Stack
  scopes : Nat        -- linear (scope) stack size
  addr : Nat
  loops : Nat
  pc : Int
  inMain : Bool       -- curfunc == mainfunc
  deriving DecidableEq

/-- An interpreter: its control state and what it shares with its duplicates. `G` is the
global scope object (shared by pointer in Go, so a duplicate's writes are the caller's). -/
structure Interp (G : Type) where
  ctl : Ctl
  global : G
  macros : String → Option Macro

def Ctl.fresh : Ctl := { data := [], scopes := 1, addr := 0, loops := 0, pc := 0, inMain := true }

/-- environment.go Duplicate -/
def duplicate {G} (e : Interp G) : Interp G := { e with ctl := Ctl.fresh }

/-- Apply of a template macro inside interpreter `d` (the duplicate): wrong arity is an error
(CallFunction); the body's template code runs on `d`'s data stack; `Run` pops the result.
A template body reads its parameters only, so the shared global scope is returned as it was. -/
def applyIn {G} (mk : String → List Sexp → Option Sexp) (d : Interp G) (m : Macro) (args : List Sexp) :
    Option (Sexp × Interp G) :=
  if args.length ≠ m.params.length then none
  else match evalOn (paramHost mk m.params args) (genTop (paramHost mk m.params args) m.body) d.ctl.data with
    | some (v, rest) => some (v, { d with ctl := { d.ctl with data := rest } })
    | none => none

/-- The macro branch of GenerateCallBySymbol, as far as interpreters are concerned: the
expansion is computed in a duplicate; of the duplicate only the shared parts survive. -/
def expandCall {G} (mk : String → List Sexp → Option Sexp) (e : Interp G) (m : Macro) (args : List Sexp) :
    Option (Sexp × Interp G) :=
  match applyIn mk (duplicate e) m args with
  | some (x, d') => some (x, { e with global := d'.global, macros := d'.macros })
  | none => none

/-- The expansion alone. -/
def expand (mk : String → List Sexp → Option Sexp) (m : Macro) (args : List Sexp) : Option Sexp :=
  if args.length ≠ m.params.length then none
  else (evalSQ (paramHost mk m.params args) m.body).map (·.1)

/-- `Generate(form)`: special forms first, then macros (expansion compiled in place by the same
generator), then everything else. `C` is the type of compiled code. -/
def generate {C : Type} (mk : String → List Sexp → Option Sexp) (macros : String → Option Macro)
    (special : String → Bool) (base : (Sexp → Option C) → Sexp → Option C) : Nat → Sexp → Option C
  | 0, _ => none
  | n + 1, form =>
    match form with
    | .cons (.atom (.sym f)) args =>
      if special f then base (generate mk macros special base n) form
      else match macros f with
        | some m =>
          match listToArray args with
          | some as => (expand mk m as).bind (generate mk macros special base n)
          | none => base (generate mk macros special base n) form
        | none => base (generate mk macros special base n) form
    | _ => base (generate mk macros special base n) form

end ZygoVerif.SQ
