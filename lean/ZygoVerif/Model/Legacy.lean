/-
Pre-repair definitions, kept only so that the `…_counterexample` theorems (the kernel-checked
witnesses that the pinned tree violated a property) keep something to talk about. The main
model always follows the current tree. One definition per repaired function.
-/
namespace ZygoVerif.Legacy

/-- `compareInt` before the fix: `signumInt(i.Val - e.Val)`. -/
def cmpIntBySub (a b : BitVec 64) : Int :=
  let d := a - b
  if d.toInt > 0 then 1 else if d.toInt < 0 then -1 else 0

/-- `compareUint64` before the fix: `signumUint64(i.Val - e.Val)`. -/
def cmpUintBySub (a b : BitVec 64) : Int :=
  let d := a - b
  if d.toNat > 0 then 1 else 0

end ZygoVerif.Legacy
