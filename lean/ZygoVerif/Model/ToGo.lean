/-
Model of the record → Go struct walk (`SexpToGoStructs`, `ToGoFunction`, zygo/jsonmsgp.go), of the
field table (`fillJsonMap`, zygo/hashutils.go) and of the way back (`FillHashFromShadow`,
`fillHashHelper`, the result arm of `CallGoMethodFunction`) — as the code is after the proposed
fixes C10-01 … C10-05. Go's `reflect` is abstracted by a type descriptor (`Ty`, `World`) that the
harness extracts from the live types for every op line. Core Lean only.

Go objects live in a heap (`St.heap`, object id = index), so "one shared Go object" is equality of
object ids. The dedup cache is keyed by record identity (`Sx.hash id …`). Recursion is by fuel with
the recursive call passed as a parameter (`convStep rec`), so that the theorems about one level of
the walk hold for every instantiation of the levels below.
-/
namespace ZygoVerif.ToGo

inductive IntK | i64 | int | i32 | i16 | i8 deriving DecidableEq, Repr
inductive UintK | u64 | uint | u32 | u16 | u8 deriving DecidableEq, Repr

def IntK.bits : IntK → Nat | .i64 => 64 | .int => 64 | .i32 => 32 | .i16 => 16 | .i8 => 8
def UintK.bits : UintK → Nat | .u64 => 64 | .uint => 64 | .u32 => 32 | .u16 => 16 | .u8 => 8

/-- Go type descriptor (what the walk asks `reflect` about). -/
inductive Ty
  | int (k : IntK) | uint (k : UintK) | f64 | f32 | str | bool | time | bytes | eface
  | slice (e : Ty) | ptr (s : String) | struct (s : String) | iface (i : String)
  | map (k v : Ty) | other
  deriving DecidableEq, Repr

structure Field where
  name : String
  tag : String      -- json tag, "" when absent
  anon : Bool
  ty : Ty
  deriving Repr

structure SDef where
  name : String     -- reflect name, e.g. "zygo.Snoopy"
  reg : String      -- registered record type name, "" when the struct is not registered
  fields : List Field
  deriving Repr

structure World where
  structs : List SDef
  ifaces : List (String × List String)   -- interface ↦ structs whose pointer type implements it
  deriving Repr

def World.find (w : World) (s : String) : Option SDef := w.structs.find? (·.name == s)

/-- `GoStructRegistry.Registry[tn]`: a registered type is listed under its registered name and
under its reflect name. -/
def World.lookupReg (w : World) (tn : String) : Option SDef :=
  w.structs.find? (fun d => d.reg != "" && (d.reg == tn || d.name == tn))

def World.implements (w : World) (i s : String) : Bool :=
  match w.ifaces.find? (·.1 == i) with
  | some (_, ss) => ss.contains s
  | none => false

/-- record keys -/
inductive Key | sym (b : List Nat) | str (b : List Nat) | int (v : Int)
  deriving DecidableEq, Repr

/-- script values (strings are byte lists) -/
inductive Sx
  | int (v : Int) | uint (v : Nat) | flt (bits : Nat) | str (b : List Nat) | sym (b : List Nat)
  | char (v : Int) | bool (b : Bool) | nil | raw (b : List Nat) | time (s : Int) | pair
  | arr (xs : List Sx)
  | hash (id : Nat) (tn : String) (kvs : List (Key × Sx))
  deriving Repr

/-- Go values. `ptr (some o)` points at heap object `o`. -/
inductive GV
  | int (k : IntK) (v : Int) | uint (k : UintK) (v : Nat) | flt (bits : Nat) | str (b : List Nat)
  | bool (b : Bool) | time (s : Int)
  | bytes (b : Option (List Nat))
  | slice (xs : Option (List GV))
  | ptr (o : Option Nat)
  | struct (name : String) (fs : List GV)
  | iface (d : Option GV)
  | map (es : Option (List (GV × GV)))
  | printed          -- a record's printed text stored into a string field (opaque)
  | bad
  deriving Repr

inductive Err | err | fuel deriving DecidableEq, Repr
abbrev M := Except Err

structure St where
  heap : List GV                      -- object id ↦ struct value
  cache : List (Nat × GV × Ty)        -- record id ↦ value found at the remembered target, its type
  deriving Repr

def St.empty : St := ⟨[], []⟩
def St.lookup (st : St) (id : Nat) : Option (GV × Ty) := (st.cache.find? (·.1 == id)).map (·.2)
def St.remember (st : St) (id : Nat) (v : GV) (t : Ty) : St :=
  { st with cache := (id, v, t) :: st.cache.filter (·.1 != id) }

/-- 0001-01-01T00:00:00Z as Unix seconds -/
def zeroTime : Int := -62135596800

/-- the zero value of a type -/
def zero (w : World) : Nat → Ty → GV
  | _, .int k => .int k 0
  | _, .uint k => .uint k 0
  | _, .f64 => .flt 0
  | _, .f32 => .flt 0
  | _, .str => .str []
  | _, .bool => .bool false
  | _, .time => .time zeroTime
  | _, .bytes => .bytes none
  | _, .eface => .iface none
  | _, .slice _ => .slice none
  | _, .ptr _ => .ptr none
  | _, .iface _ => .iface none
  | _, .map _ _ => .map none
  | _, .other => .bad
  | 0, .struct s => .struct s []
  | n+1, .struct s =>
    match w.find s with
    | some d => .struct s (d.fields.map (fun f => zero w n f.ty))
    | none => .struct s []

/-! ### the field table (`fillJsonMap`) -/

structure Entry where
  key : String        -- json tag, else the field name (`FieldJsonTag`)
  path : List Nat     -- `EmbedPath`
  ty : Ty
  anon : Bool
  deriving Repr

/-- fields in declaration order, descending into embedded structs right after the embedded
field itself (`DetOrder`). -/
def tableOf (w : World) (sub : List Field → List Nat → List Entry) :
    List Field → Nat → List Nat → List Entry
  | [], _, _ => []
  | f :: rest, i, pre =>
    let key := if f.tag != "" then f.tag else f.name
    let path := pre ++ [i]
    let inner : List Entry :=
      if f.anon then
        match f.ty with
        | .struct s =>
          match w.find s with
          | some d => sub d.fields path
          | none => []
        | _ => []
      else []
    ⟨key, path, f.ty, f.anon⟩ :: (inner ++ tableOf w sub rest (i+1) pre)

def fieldTable (w : World) : Nat → List Field → Nat → List Nat → List Entry
  | 0, fs, i, pre => tableOf w (fun _ _ => []) fs i pre
  | n+1, fs, i, pre => tableOf w (fun fs' p => fieldTable w n fs' 0 p) fs i pre

/-- `JsonTagMap[key]`: a Go map, so of two entries with the same key the later one wins. -/
def lookupKey (tbl : List Entry) (k : String) : Option Entry := tbl.reverse.find? (·.key == k)

def upperFirst (b : List Nat) : List Nat :=
  match b with
  | [] => []
  | c :: r => (if 97 ≤ c ∧ c ≤ 122 then c - 32 else c) :: r

def bytesToString (b : List Nat) : String := String.ofList (b.map Char.ofNat)

/-- field lookup order: the key as written, then with its first letter capitalised. -/
def resolve (tbl : List Entry) (b : List Nat) : Option Entry :=
  if b.isEmpty then none else
  match lookupKey tbl (bytesToString b) with
  | some e => some e
  | none => lookupKey tbl (bytesToString (upperFirst b))

def keyBytes : Key → Option (List Nat)
  | .sym b => some b
  | .str b => some b
  | .int _ => none

/-! ### paths into struct values -/

def getPath : GV → List Nat → Option GV
  | v, [] => some v
  | .struct _ fs, i :: p => match fs[i]? with
    | some f => getPath f p
    | none => none
  | _, _ :: _ => none

def setPath : GV → List Nat → GV → Option GV
  | _, [], v => some v
  | .struct s fs, i :: p, v => match fs[i]? with
    | some f => match setPath f p v with
      | some f' => some (.struct s (fs.set i f'))
      | none => none
    | none => none
  | _, _ :: _, _ => none

/-! ### numbers -/

def inIntRange (bits : Nat) (v : Int) : Bool := -(2 ^ (bits - 1) : Int) ≤ v ∧ v < (2 ^ (bits - 1) : Int)

/-- binary64 bits of an integer that is exactly representable; `none` otherwise. -/
def intToF64? (v : Int) : Option Nat :=
  let a := v.natAbs
  let sign := if v < 0 then 2 ^ 63 else 0
  if a == 0 then some 0 else
  let l := Nat.log2 a
  if l ≤ 52 then some (sign + (1023 + l) * 2 ^ 52 + (a * 2 ^ (52 - l) - 2 ^ 52))
  else if a % 2 ^ (l - 52) == 0 then some (sign + (1023 + l) * 2 ^ 52 + (a / 2 ^ (l - 52) - 2 ^ 52))
  else none

/-- the integer a binary64 denotes, when it is integral and fits an int64. -/
def f64ToInt? (bits : Nat) : Option Int :=
  let neg := bits / 2 ^ 63 % 2 == 1
  let e := bits / 2 ^ 52 % 2048
  let m := bits % 2 ^ 52
  if e == 2047 then none else
  if e == 0 then (if m == 0 then some 0 else none) else
  let mm := m + 2 ^ 52
  -- value = mm * 2^(e-1075)
  let mag? : Option Nat :=
    if e ≥ 1075 then some (mm * 2 ^ (e - 1075))
    else if mm % 2 ^ (1075 - e) == 0 then some (mm / 2 ^ (1075 - e)) else none
  match mag? with
  | none => none
  | some mag =>
    let v : Int := if neg then -(mag : Int) else mag
    if inIntRange 64 v then some v else none

/-! ### one level of the walk -/

/-- arms for values that are neither arrays nor hashes -/
def convAtom (w : World) (x : Sx) (T : Ty) : M GV :=
  match x, T with
  | .int v, .f64 => match intToF64? v with | some b => .ok (.flt b) | none => .error .err
  | .int v, .int k => if inIntRange k.bits v then .ok (.int k v) else .error .err
  | .uint v, .uint k => if v < 2 ^ k.bits then .ok (.uint k v) else .error .err
  | .flt b, .int .i64 => match f64ToInt? b with | some v => .ok (.int .i64 v) | none => .error .err
  | .flt b, .f64 => .ok (.flt b)
  | .str b, .str => .ok (.str b)
  | .sym b, .str => .ok (.str b)
  | .char v, .int .i32 => .ok (.int .i32 v)
  | .char v, .eface => .ok (.iface (some (.int .i32 v)))
  | .bool b, .bool => .ok (.bool b)
  | .bool b, .eface => .ok (.iface (some (.bool b)))
  | .nil, .other => .error .err
  | .nil, t => .ok (zero w 8 t)
  | .raw b, .bytes => .ok (.bytes (some b))
  | .raw b, .eface => .ok (.iface (some (.bytes (some b))))
  | .time s, .time => .ok (.time s)
  | .time s, .eface => .ok (.iface (some (.time s)))
  | _, _ => .error .err

abbrev Rec := St → Sx → Ty → GV → M (GV × St)

def convList (rec : Rec) (e : Ty) (z : GV) : St → List Sx → M (List GV × St)
  | st, [] => .ok ([], st)
  | st, x :: xs => do
    let (v, st1) ← rec st x e z
    let (vs, st2) ← convList rec e z st1 xs
    pure (v :: vs, st2)

def packBytes : List GV → Option (List Nat)
  | [] => some []
  | .uint .u8 v :: r => (packBytes r).map (v :: ·)
  | _ => none

/-- the field loop of a registered record -/
def fillFields (rec : Rec) (tbl : List Entry) : St → GV → List (Key × Sx) → M (GV × St)
  | st, sv, [] => .ok (sv, st)
  | st, sv, (k, x) :: rest =>
    match keyBytes k with
    | none => .error .err                  -- "unknown fields disallowed"
    | some b =>
      match resolve tbl b with
      | none => .error .err                -- "unknown field … not allowed"
      | some e =>
        match getPath sv e.path with
        | none => .error .err
        | some cur => do
          let (v, st1) ← rec st x e.ty cur
          match setPath sv e.path v with
          | none => .error .err
          | some sv1 => fillFields rec tbl st1 sv1 rest

def mapSet (es : List (GV × GV)) (k v : GV) (same : GV → GV → Bool) : List (GV × GV) :=
  if es.any (fun e => same e.1 k) then es.map (fun e => if same e.1 k then (e.1, v) else e)
  else es ++ [(k, v)]

def sameKey : GV → GV → Bool
  | .str a, .str b => a == b
  | .int _ a, .int _ b => a == b
  | _, _ => false

/-- `SexpToGo` of a key or scalar map value -/
def keyToGo : Key → GV
  | .sym b => .str b
  | .str b => .str b
  | .int v => .int .i64 v

/-- one pair of an anonymous hash going into a map-typed target: (key, value, state) -/
def mapEntry (rec : Rec) (kt vt : Ty) (w : World) (st : St) (k : Key) (x : Sx) : M (GV × GV × St) :=
  let kg := keyToGo k
  let keyOk : Bool := match kt, kg with
    | .str, .str _ => true
    | .int .i64, .int _ _ => true
    | _, _ => false
  if !keyOk then .error .err else
  match vt with
  | .str =>
    if kt != .str then .error .err else
    match x with
    | .str b => .ok (kg, .str b, st)
    | .sym b => .ok (kg, .str b, st)
    | _ => .error .err
  | .f64 =>
    match x with
    | .flt b => .ok (kg, .flt b, st)
    | .int v =>
      -- exactness is checked in the map arms too (fix C10-03)
      match intToF64? v with
      | some b => .ok (kg, .flt b, st)
      | none => .error .err
    | _ => .error .err
  | .iface _ =>
    if kt != .str then .error .err else
    match rec st x vt (zero w 1 vt) with
    | .ok (v, st1) => .ok (kg, v, st1)
    | .error e => .error e
  | .eface =>
    if kt != .str then .error .err else
    match rec st x vt (zero w 1 vt) with
    | .ok (v, st1) => .ok (kg, v, st1)
    | .error e => .error e
  | _ => .error .err

/-- an anonymous hash into a map-typed target -/
def fillMap (rec : Rec) (kt vt : Ty) (w : World) : St → List (GV × GV) → List (Key × Sx) → M (List (GV × GV) × St)
  | st, es, [] => .ok (es, st)
  | st, es, (k, x) :: rest =>
    match mapEntry rec kt vt w st k x with
    | .ok (kg, v, st1) => fillMap rec kt vt w st1 (mapSet es kg v sameKey) rest
    | .error e => .error e

/-- `reflect.Value.Set` of a remembered value into a target of type `T` (cache hit; an interface
at the remembered location was unwrapped before, fix C10-02). -/
def assign (w : World) (v : GV) (vt T : Ty) : M GV :=
  if vt == T then .ok v else
  match T, vt with
  | .eface, _ => .ok (.iface (some v))
  | .iface i, .ptr s => if w.implements i s then .ok (.iface (some v)) else .error .err
  | _, _ => .error .err

def heapSet (st : St) (o : Nat) (v : GV) : St := { st with heap := st.heap.set o v }

/-- One level of `SexpToGoStructs` at call depth > 0: convert `x` into a target of static type
`T` that currently holds `cur`; the result is the target's new content. -/
def convStep (w : World) (rec : Rec) : Rec := fun st x T cur =>
  match x with
  | .arr xs =>
    match T with
    | .slice e => do
      let (vs, st1) ← convList rec e (zero w 8 e) st xs
      pure (.slice (some vs), st1)
    | .bytes => do
      let (vs, st1) ← convList rec (.uint .u8) (.uint .u8 0) st xs
      match packBytes vs with
      | some b => pure (.bytes (some b), st1)
      | none => .error .err
    | _ => .error .err
  | .hash id tn kvs =>
    match st.lookup id with
    | some (v, vt) => do
      let r ← assign w v vt T
      pure (r, st)
    | none =>
      if tn == "hash" then
        match T with
        | .map kt vt => do
          let (es, st1) ← fillMap rec kt vt w st [] kvs
          let r := GV.map (some es)
          pure (r, st1.remember id r T)
        | _ => .error .err
      else
        match T with
        | .str =>
          .ok (.printed, st.remember id .printed .str)
        | _ =>
        let kindOk : Bool := match T with
          | .iface _ => true | .eface => true | .struct _ => true | .ptr _ => true | _ => false
        if !kindOk then .error .err else
        match w.lookupReg tn with
        | none => .error .err
        | some d =>
          let tbl := fieldTable w 8 d.fields 0 []
          -- the factory is called (a fresh object) even when the target is a struct held by value
          let o := st.heap.length
          let fresh := zero w 8 (.struct d.name)
          let st0 : St := { st with heap := st.heap ++ [fresh] }
          let viaPtr : Option (GV × Ty) :=
            match T with
            | .iface i => if w.implements i d.name then some (.iface (some (.ptr (some o))), .ptr d.name) else none
            | .eface => some (.iface (some (.ptr (some o))), .ptr d.name)
            | .ptr s => if s == d.name then some (.ptr (some o), .ptr d.name) else none
            | _ => none
          match viaPtr with
          | some (r, _) => do
            let (sv, st1) ← fillFields rec tbl st0 fresh kvs
            pure (r, (heapSet st1 o sv).remember id (.ptr (some o)) (.ptr d.name))
          | none =>
            if T == .struct d.name then do
              let (sv, st1) ← fillFields rec tbl st0 cur kvs
              pure (sv, st1.remember id sv T)
            else .error .err
  | _ => match convAtom w x T with
    | .ok v => .ok (v, st)
    | .error e => .error e

def conv (w : World) : Nat → Rec
  | 0 => fun _ _ _ _ => .error .fuel
  | n+1 => convStep w (conv w n)

/-- `(togo r)`: the record's own factory makes the top object, which is filled at depth 0.
`want`: the struct the caller expects (`none` for `togo`; the parameter type when the record is
passed to a Go method — the record's registered type must be that struct, fix C10-05). -/
def toGoTop (w : World) (fuel : Nat) (want : Option String) (x : Sx) : M (Nat × St) :=
  match x with
  | .hash id tn kvs =>
    match w.lookupReg tn with
    | none => .error .err
    | some d =>
      if want.any (· != d.name) then .error .err else
      let tbl := fieldTable w 8 d.fields 0 []
      let fresh := zero w 8 (.struct d.name)
      let st0 : St := ⟨[fresh], []⟩
      match fillFields (conv w fuel) tbl st0 fresh kvs with
      | .ok (sv, st1) => .ok (0, (heapSet st1 0 sv).remember id (.ptr (some 0)) (.ptr d.name))
      | .error e => .error e
  | _ => .error .err

/-! ### the way back: Go value → record (`FillHashFromShadow`, `fillHashHelper`, `fillHashByKind`) -/

def kvSet (kvs : List (Key × Sx)) (k : Key) (v : Sx) : List (Key × Sx) :=
  if kvs.any (fun e => e.1 == k) then kvs.map (fun e => if e.1 == k then (e.1, v) else e)
  else kvs ++ [(k, v)]

def strBytes (s : String) : List Nat := s.toList.map Char.toNat

def isNil : Sx → Bool | .nil => true | _ => false

def bytesLt : List Nat → List Nat → Bool
  | [], [] => false
  | [], _ :: _ => true
  | _ :: _, [] => false
  | a :: r, b :: t => if a < b then true else if b < a then false else bytesLt r t

/-- map keys come back sorted by their printed form (`fmt.Sprint`) -/
def sortKey : GV → List Nat
  | .str b => b
  | .int _ v => (toString v).toList.map Char.toNat
  | _ => []

def insertByKey (e : GV × GV) : List (GV × GV) → List (GV × GV)
  | [] => [e]
  | x :: r => if bytesLt (sortKey e.1) (sortKey x.1) then e :: x :: r else x :: insertByKey e r

def backStep (w : World) (heap : List GV) (rec : GV → Sx) : GV → Sx
  | .int _ v => .int v
  | .uint _ v => .uint v
  | .flt b => .flt b
  | .str b => .str b
  | .bool b => .bool b
  | .time _ => .nil                       -- known finding: a time.Time does not come back
  | .bytes none => .raw []
  | .bytes (some b) => .raw b
  | .slice none => .nil
  | .slice (some xs) => .arr (xs.map rec)
  | .ptr none => .nil
  | .ptr (some o) => match heap[o]? with
    | some sv => rec sv
    | none => .nil
  | .iface none => .nil
  | .iface (some d) => rec d
  | .map none => .nil
  | .map (some es) =>
    .hash 0 "hash" ((es.foldl (fun acc e => insertByKey e acc) []).map (fun e => (match e.1 with
      | .str b => Key.sym b
      | .int _ v => Key.int v
      | _ => Key.int 0, rec e.2)))
  | .struct s fs =>
    match w.find s with
    | none => .nil
    | some d =>
      if d.reg == "" then .nil else
      let tbl := fieldTable w 8 d.fields 0 []
      let kvs := tbl.foldl (fun acc e =>
        match getPath (.struct s fs) e.path with
        | none => acc
        | some fv =>
          let v := rec fv
          if e.anon && isNil v then acc else kvSet acc (.sym (strBytes e.key)) v) []
      .hash 0 d.reg kvs
  | .printed => .nil
  | .bad => .nil

def back (w : World) (heap : List GV) : Nat → GV → Sx
  | 0 => fun _ => .nil
  | n+1 => backStep w heap (back w heap n)

end ZygoVerif.ToGo
