/- COMMITTED LAST-GOOD TRANSLATION (DESIGN §5) — written by bin/numgo-accept, never by hand.
A verbatim copy of Generated/NumGo.lean as translated from /repo at 1a3d12c.
When the translator refuses a function on a later tree, Generated/NumGo.lean aliases the
definition of the same name here (provided the Go signature recorded in `goSigs` is
unchanged) and the `num` channel compares it with the Go original. -/
import ZygoVerif.Model.Num
import ZygoVerif.Model.GoSem
set_option linter.unusedVariables false
namespace ZygoVerif.NumGoGood
open ZygoVerif.Num ZygoVerif.GoSem

/-- `signumFloat` — zygo/comparisons.go:36, Go signature `func(f float64) int`. -/
def signumFloat (fs : FloatSem) (f : fs.F) : BitVec 64 :=
  if fs.lt fs.zero f then
    1#64
  else
    if fs.lt f fs.zero then
      (-1#64)
    else
      0#64

/-- `signumInt` — zygo/comparisons.go:46, Go signature `func(i int64) int`. -/
def signumInt (fs : FloatSem) (i : BitVec 64) : BitVec 64 :=
  if BitVec.slt 0#64 i then
    1#64
  else
    if BitVec.slt i 0#64 then
      (-1#64)
    else
      0#64

/-- `signumUint64` — zygo/comparisons.go:344, Go signature `func(i uint64) int`. -/
def signumUint64 (fs : FloatSem) (i : BitVec 64) : BitVec 64 :=
  if BitVec.ult 0#64 i then
    1#64
  else
    if BitVec.ult i 0#64 then
      (-1#64)
    else
      0#64

/-- `cmpInt64` — zygo/comparisons.go:57, Go signature `func(a int64, b int64) int`. -/
def cmpInt64 (fs : FloatSem) (a : BitVec 64) (b : BitVec 64) : BitVec 64 :=
  if BitVec.slt a b then
    (-1#64)
  else
    if BitVec.slt b a then
      1#64
    else
      0#64

/-- `compareInt` — zygo/comparisons.go:96, Go signature `func(i *SexpInt, expr Sexp) (int, error)`. -/
def compareInt (fs : FloatSem) (i : BitVec 64) (expr : Sx fs.F) : Res (BitVec 64) :=
  match expr with
  | .int e =>
    .ok (cmpInt64 fs i e)
  | .uint _ =>
    .err
  | .char e =>
    .ok (cmpInt64 fs i (BitVec.signExtend 64 e))
  | .flt e =>
    if fs.isNaN e then
      .ok 2#64
    else
      .ok (signumFloat fs (fs.sub (fs.ofInt (BitVec.toInt i)) e))
  | .bool _ =>
    .err

/-- `compareUint64` — zygo/comparisons.go:329, Go signature `func(i *SexpUint64, expr Sexp) (int, error)`. -/
def compareUint64 (fs : FloatSem) (i : BitVec 64) (expr : Sx fs.F) : Res (BitVec 64) :=
  match expr with
  | .int _ =>
    .err
  | .uint e =>
    if BitVec.ult i e then
      .ok (-1#64)
    else
      if BitVec.ult e i then
        .ok 1#64
      else
        .ok 0#64
  | .char _ =>
    .err
  | .flt _ =>
    .err
  | .bool _ =>
    .err

/-- `compareChar` — zygo/comparisons.go:124, Go signature `func(c *SexpChar, expr Sexp) (int, error)`. -/
def compareChar (fs : FloatSem) (c : BitVec 32) (expr : Sx fs.F) : Res (BitVec 64) :=
  match expr with
  | .int e =>
    .ok (cmpInt64 fs (BitVec.signExtend 64 c) e)
  | .uint _ =>
    .err
  | .char e =>
    .ok (cmpInt64 fs (BitVec.signExtend 64 c) (BitVec.signExtend 64 e))
  | .flt e =>
    if fs.isNaN e then
      .ok 2#64
    else
      .ok (signumFloat fs (fs.sub (fs.ofInt (BitVec.toInt c)) e))
  | .bool _ =>
    .err

/-- `compareFloat` — zygo/comparisons.go:67, Go signature `func(f *SexpFloat, expr Sexp) (int, error)`. -/
def compareFloat (fs : FloatSem) (f : fs.F) (expr : Sx fs.F) : Res (BitVec 64) :=
  match expr with
  | .int e =>
    if fs.isNaN f then
      .ok 2#64
    else
      .ok (signumFloat fs (fs.sub f (fs.ofInt (BitVec.toInt e))))
  | .uint _ =>
    .err
  | .char e =>
    if fs.isNaN f then
      .ok 2#64
    else
      .ok (signumFloat fs (fs.sub f (fs.ofInt (BitVec.toInt e))))
  | .flt e =>
    let nanCount : BitVec 64 := 0#64
    if fs.isNaN f then
      let nanCount : BitVec 64 := nanCount + 1#64
      if fs.isNaN e then
        let nanCount : BitVec 64 := nanCount + 1#64
        if BitVec.slt 0#64 nanCount then
          .ok (1#64 + nanCount)
        else
          .ok (signumFloat fs (fs.sub f e))
      else
        if BitVec.slt 0#64 nanCount then
          .ok (1#64 + nanCount)
        else
          .ok (signumFloat fs (fs.sub f e))
    else
      if fs.isNaN e then
        let nanCount : BitVec 64 := nanCount + 1#64
        if BitVec.slt 0#64 nanCount then
          .ok (1#64 + nanCount)
        else
          .ok (signumFloat fs (fs.sub f e))
      else
        if BitVec.slt 0#64 nanCount then
          .ok (1#64 + nanCount)
        else
          .ok (signumFloat fs (fs.sub f e))
  | .bool _ =>
    .err

/-- `compareBool` — zygo/comparisons.go:214, Go signature `func(a *SexpBool, b Sexp) (int, error)`. -/
def compareBool (fs : FloatSem) (a : Bool) (b : Sx fs.F) : Res (BitVec 64) :=
  match b with
  | .int bt =>
    .err
  | .uint bt =>
    .err
  | .char bt =>
    .err
  | .flt bt =>
    .err
  | .bool bt =>
    let bb : Bool := bt
    if (a && bb) then
      .ok 0#64
    else
      if a then
        .ok 1#64
      else
        if bb then
          .ok (-1#64)
        else
          .ok 0#64

/-- `Compare` — zygo/comparisons.go:252, Go signature `(*Zlisp) func(a Sexp, b Sexp) (int, error)`. -/
def Compare (fs : FloatSem) (a : Sx fs.F) (b : Sx fs.F) : Res (BitVec 64) :=
  match a with
  | .int at_ =>
    compareInt fs at_ b
  | .uint at_ =>
    compareUint64 fs at_ b
  | .char at_ =>
    compareChar fs at_ b
  | .flt at_ =>
    compareFloat fs at_ b
  | .bool at_ =>
    compareBool fs at_ b

/-- `NumericFloatDo` — zygo/numerictower.go:111, Go signature `func(op NumericOp, a *SexpFloat, b *SexpFloat) Sexp`. -/
def NumericFloatDo (fs : FloatSem) (op : NumericOp) (a : fs.F) (b : fs.F) : Sx fs.F :=
  match op with
  | .Add =>
    (Sx.flt (fs.add a b))
  | .Sub =>
    (Sx.flt (fs.sub a b))
  | .Mult =>
    (Sx.flt (fs.mul a b))
  | .Div =>
    (Sx.flt (fs.div a b))

/-- `NumericIntDo` — zygo/numerictower.go:127, Go signature `func(op NumericOp, a *SexpInt, b *SexpInt) Sexp`. -/
def NumericIntDo (fs : FloatSem) (op : NumericOp) (a : BitVec 64) (b : BitVec 64) : Res (Sx fs.F) :=
  match op with
  | .Add =>
    .ok (Sx.int (a + b))
  | .Sub =>
    .ok (Sx.int (a - b))
  | .Mult =>
    .ok (Sx.int (a * b))
  | .Div =>
    if b == 0#64 then .panic else
    if (BitVec.srem a b) == 0#64 then
      if b == 0#64 then .panic else
      .ok (Sx.int (BitVec.sdiv a b))
    else
      .ok (Sx.flt (fs.div (fs.ofInt (BitVec.toInt a)) (fs.ofInt (BitVec.toInt b))))

/-- `NumericUint64Do` — zygo/numerictower.go:147, Go signature `func(op NumericOp, a *SexpUint64, b *SexpUint64) Sexp`. -/
def NumericUint64Do (fs : FloatSem) (op : NumericOp) (a : BitVec 64) (b : BitVec 64) : Res (Sx fs.F) :=
  match op with
  | .Add =>
    .ok (Sx.uint (a + b))
  | .Sub =>
    .ok (Sx.uint (a - b))
  | .Mult =>
    .ok (Sx.uint (a * b))
  | .Div =>
    if b == 0#64 then .panic else
    if (BitVec.umod a b) == 0#64 then
      if b == 0#64 then .panic else
      .ok (Sx.uint (BitVec.udiv a b))
    else
      .ok (Sx.flt (fs.div (fs.ofInt (BitVec.toNat a : Int)) (fs.ofInt (BitVec.toNat b : Int))))

/-- `NumericMatchFloat` — zygo/numerictower.go:167, Go signature `func(op NumericOp, a *SexpFloat, b Sexp) (Sexp, error)`. -/
def NumericMatchFloat (fs : FloatSem) (op : NumericOp) (a : fs.F) (b : Sx fs.F) : Res (Sx fs.F) :=
  match b with
  | .int tb =>
    let fb : fs.F := fs.ofInt (BitVec.toInt tb)
    .ok (NumericFloatDo fs op a fb)
  | .uint tb =>
    let fb : fs.F := fs.ofInt (BitVec.toNat tb : Int)
    .ok (NumericFloatDo fs op a fb)
  | .char tb =>
    let fb : fs.F := fs.ofInt (BitVec.toInt tb)
    .ok (NumericFloatDo fs op a fb)
  | .flt tb =>
    let fb : fs.F := tb
    .ok (NumericFloatDo fs op a fb)
  | .bool tb =>
    .err

/-- `NumericMatchInt` — zygo/numerictower.go:184, Go signature `func(op NumericOp, a *SexpInt, b Sexp) (Sexp, error)`. -/
def NumericMatchInt (fs : FloatSem) (op : NumericOp) (a : BitVec 64) (b : Sx fs.F) : Res (Sx fs.F) :=
  match b with
  | .int tb =>
    bind (NumericIntDo fs op a tb) .ok
  | .uint tb =>
    bind (NumericUint64Do fs op a tb) .ok
  | .char tb =>
    bind (NumericIntDo fs op a (BitVec.signExtend 64 tb)) .ok
  | .flt tb =>
    .ok (NumericFloatDo fs op (fs.ofInt (BitVec.toInt a)) tb)
  | .bool _ =>
    .err

/-- `NumericMatchUint64` — zygo/numerictower.go:198, Go signature `func(op NumericOp, a *SexpUint64, b Sexp) (Sexp, error)`. -/
def NumericMatchUint64 (fs : FloatSem) (op : NumericOp) (a : BitVec 64) (b : Sx fs.F) : Res (Sx fs.F) :=
  match b with
  | .int tb =>
    bind (NumericUint64Do fs op a tb) .ok
  | .uint tb =>
    bind (NumericUint64Do fs op a tb) .ok
  | .char tb =>
    bind (NumericUint64Do fs op a (BitVec.signExtend 64 tb)) .ok
  | .flt tb =>
    .ok (NumericFloatDo fs op (fs.ofInt (BitVec.toNat a : Int)) tb)
  | .bool _ =>
    .err

/-- `NumericMatchChar` — zygo/numerictower.go:212, Go signature `func(op NumericOp, a *SexpChar, b Sexp) (Sexp, error)`. -/
def NumericMatchChar (fs : FloatSem) (op : NumericOp) (a : BitVec 32) (b : Sx fs.F) : Res (Sx fs.F) :=
  match b with
  | .int tb =>
    bind (NumericIntDo fs op (BitVec.signExtend 64 a) tb) (fun res =>
      match res with
      | .int tres =>
        .ok (Sx.char (BitVec.truncate 32 tres))
      | .uint _ =>
        .err
      | .char _ =>
        .err
      | .flt tres =>
        .ok (Sx.flt tres)
      | .bool _ =>
        .err)
  | .uint tb =>
    bind (NumericUint64Do fs op (BitVec.signExtend 64 a) tb) .ok
  | .char tb =>
    bind (NumericIntDo fs op (BitVec.signExtend 64 a) (BitVec.signExtend 64 tb)) (fun res =>
      match res with
      | .int tres =>
        .ok (Sx.char (BitVec.truncate 32 tres))
      | .uint _ =>
        .err
      | .char _ =>
        .err
      | .flt tres =>
        .ok (Sx.flt tres)
      | .bool _ =>
        .err)
  | .flt tb =>
    let res : Sx fs.F := (NumericFloatDo fs op (fs.ofInt (BitVec.toInt a)) tb)
    match res with
    | .int tres =>
      .ok (Sx.char (BitVec.truncate 32 tres))
    | .uint _ =>
      .err
    | .char _ =>
      .err
    | .flt tres =>
      .ok (Sx.flt tres)
    | .bool _ =>
      .err
  | .bool tb =>
    .err

/-- `NumericDo` — zygo/numerictower.go:274, Go signature `func(op NumericOp, a Sexp, b Sexp) (Sexp, error)`. -/
def NumericDo (fs : FloatSem) (op : NumericOp) (a : Sx fs.F) (b : Sx fs.F) : Res (Sx fs.F) :=
  match a with
  | .int ta =>
    NumericMatchInt fs op ta b
  | .uint ta =>
    NumericMatchUint64 fs op ta b
  | .char ta =>
    NumericMatchChar fs op ta b
  | .flt ta =>
    NumericMatchFloat fs op ta b
  | .bool _ =>
    .err

/-- `UintegerDo` — zygo/numerictower.go:68, Go signature `func(op IntegerOp, ia *SexpUint64, b Sexp) (Sexp, error)`. -/
def UintegerDo (fs : FloatSem) (op : IntegerOp) (ia : BitVec 64) (b : Sx fs.F) : Res (Sx fs.F) :=
  match b with
  | .int i =>
    let ib : BitVec 64 := i
    match op with
    | .ShiftLeft =>
      .ok (Sx.uint (shl ia ib))
    | .ShiftRightArith =>
      .ok (Sx.uint (shrU ia ib))
    | .ShiftRightLog =>
      .ok (Sx.uint (shrU ia ib))
    | .Modulo =>
      if ib == 0#64 then .panic else
      .ok (Sx.uint (BitVec.umod ia ib))
    | .BitAnd =>
      .ok (Sx.uint (ia &&& ib))
    | .BitOr =>
      .ok (Sx.uint (ia ||| ib))
    | .BitXor =>
      .ok (Sx.uint (ia ^^^ ib))
  | .uint i =>
    let ib : BitVec 64 := i
    match op with
    | .ShiftLeft =>
      .ok (Sx.uint (shl ia ib))
    | .ShiftRightArith =>
      .ok (Sx.uint (shrU ia ib))
    | .ShiftRightLog =>
      .ok (Sx.uint (shrU ia ib))
    | .Modulo =>
      if ib == 0#64 then .panic else
      .ok (Sx.uint (BitVec.umod ia ib))
    | .BitAnd =>
      .ok (Sx.uint (ia &&& ib))
    | .BitOr =>
      .ok (Sx.uint (ia ||| ib))
    | .BitXor =>
      .ok (Sx.uint (ia ^^^ ib))
  | .char i =>
    let ib : BitVec 64 := BitVec.signExtend 64 i
    match op with
    | .ShiftLeft =>
      .ok (Sx.uint (shl ia ib))
    | .ShiftRightArith =>
      .ok (Sx.uint (shrU ia ib))
    | .ShiftRightLog =>
      .ok (Sx.uint (shrU ia ib))
    | .Modulo =>
      if ib == 0#64 then .panic else
      .ok (Sx.uint (BitVec.umod ia ib))
    | .BitAnd =>
      .ok (Sx.uint (ia &&& ib))
    | .BitOr =>
      .ok (Sx.uint (ia ||| ib))
    | .BitXor =>
      .ok (Sx.uint (ia ^^^ ib))
  | .flt i =>
    .err
  | .bool i =>
    .err

/-- `IntegerDo` — zygo/numerictower.go:23, Go signature `func(op IntegerOp, a Sexp, b Sexp) (Sexp, error)`. -/
def IntegerDo (fs : FloatSem) (op : IntegerOp) (a : Sx fs.F) (b : Sx fs.F) : Res (Sx fs.F) :=
  match a with
  | .int i =>
    let ia : BitVec 64 := i
    match b with
    | .int i_ =>
      let ib : BitVec 64 := i_
      match op with
      | .ShiftLeft =>
        .ok (Sx.int (shl ia ib))
      | .ShiftRightArith =>
        .ok (Sx.int (shrS ia ib))
      | .ShiftRightLog =>
        .ok (Sx.int (shrU ia ib))
      | .Modulo =>
        if ib == 0#64 then .panic else
        .ok (Sx.int (BitVec.srem ia ib))
      | .BitAnd =>
        .ok (Sx.int (ia &&& ib))
      | .BitOr =>
        .ok (Sx.int (ia ||| ib))
      | .BitXor =>
        .ok (Sx.int (ia ^^^ ib))
    | .uint i_ =>
      UintegerDo fs op ia b
    | .char i_ =>
      let ib : BitVec 64 := BitVec.signExtend 64 i_
      match op with
      | .ShiftLeft =>
        .ok (Sx.int (shl ia ib))
      | .ShiftRightArith =>
        .ok (Sx.int (shrS ia ib))
      | .ShiftRightLog =>
        .ok (Sx.int (shrU ia ib))
      | .Modulo =>
        if ib == 0#64 then .panic else
        .ok (Sx.int (BitVec.srem ia ib))
      | .BitAnd =>
        .ok (Sx.int (ia &&& ib))
      | .BitOr =>
        .ok (Sx.int (ia ||| ib))
      | .BitXor =>
        .ok (Sx.int (ia ^^^ ib))
    | .flt i_ =>
      .err
    | .bool i_ =>
      .err
  | .uint i =>
    UintegerDo fs op i b
  | .char i =>
    let ia : BitVec 64 := BitVec.signExtend 64 i
    match b with
    | .int i_ =>
      let ib : BitVec 64 := i_
      match op with
      | .ShiftLeft =>
        .ok (Sx.int (shl ia ib))
      | .ShiftRightArith =>
        .ok (Sx.int (shrS ia ib))
      | .ShiftRightLog =>
        .ok (Sx.int (shrU ia ib))
      | .Modulo =>
        if ib == 0#64 then .panic else
        .ok (Sx.int (BitVec.srem ia ib))
      | .BitAnd =>
        .ok (Sx.int (ia &&& ib))
      | .BitOr =>
        .ok (Sx.int (ia ||| ib))
      | .BitXor =>
        .ok (Sx.int (ia ^^^ ib))
    | .uint i_ =>
      UintegerDo fs op ia b
    | .char i_ =>
      let ib : BitVec 64 := BitVec.signExtend 64 i_
      match op with
      | .ShiftLeft =>
        .ok (Sx.int (shl ia ib))
      | .ShiftRightArith =>
        .ok (Sx.int (shrS ia ib))
      | .ShiftRightLog =>
        .ok (Sx.int (shrU ia ib))
      | .Modulo =>
        if ib == 0#64 then .panic else
        .ok (Sx.int (BitVec.srem ia ib))
      | .BitAnd =>
        .ok (Sx.int (ia &&& ib))
      | .BitOr =>
        .ok (Sx.int (ia ||| ib))
      | .BitXor =>
        .ok (Sx.int (ia ^^^ ib))
    | .flt i_ =>
      .err
    | .bool i_ =>
      .err
  | .flt i =>
    .err
  | .bool i =>
    .err

/-- Go signature of every definition above and whether it lives in `Res` (read back by the
translator from the last-good copy to decide whether a refused function may fall back). -/
def goSigs : List (String × String × Bool) := [
  ("signumFloat", "func(f float64) int", false),
  ("signumInt", "func(i int64) int", false),
  ("signumUint64", "func(i uint64) int", false),
  ("cmpInt64", "func(a int64, b int64) int", false),
  ("compareInt", "func(i *SexpInt, expr Sexp) (int, error)", true),
  ("compareUint64", "func(i *SexpUint64, expr Sexp) (int, error)", true),
  ("compareChar", "func(c *SexpChar, expr Sexp) (int, error)", true),
  ("compareFloat", "func(f *SexpFloat, expr Sexp) (int, error)", true),
  ("compareBool", "func(a *SexpBool, b Sexp) (int, error)", true),
  ("Compare", "(*Zlisp) func(a Sexp, b Sexp) (int, error)", true),
  ("NumericFloatDo", "func(op NumericOp, a *SexpFloat, b *SexpFloat) Sexp", false),
  ("NumericIntDo", "func(op NumericOp, a *SexpInt, b *SexpInt) Sexp", true),
  ("NumericUint64Do", "func(op NumericOp, a *SexpUint64, b *SexpUint64) Sexp", true),
  ("NumericMatchFloat", "func(op NumericOp, a *SexpFloat, b Sexp) (Sexp, error)", true),
  ("NumericMatchInt", "func(op NumericOp, a *SexpInt, b Sexp) (Sexp, error)", true),
  ("NumericMatchUint64", "func(op NumericOp, a *SexpUint64, b Sexp) (Sexp, error)", true),
  ("NumericMatchChar", "func(op NumericOp, a *SexpChar, b Sexp) (Sexp, error)", true),
  ("NumericDo", "func(op NumericOp, a Sexp, b Sexp) (Sexp, error)", true),
  ("UintegerDo", "func(op IntegerOp, ia *SexpUint64, b Sexp) (Sexp, error)", true),
  ("IntegerDo", "func(op IntegerOp, a Sexp, b Sexp) (Sexp, error)", true)]

/-- functions the translator refused (name, construct, position); each is an alias of its
last-good translation above. Not an alarm by itself: the `num` channel compares them with the code. -/
def refused : List (String × String × String) := []

/-- arms skipped because no operand of the translated domain reaches them. -/
def skippedArms : List String := ["Compare: `a.(Selector)` is false for every operand kind", "Compare: `b.(Selector)` is false for every operand kind", "Compare: type switch on `a`: `case *RegisteredType` selects no operand kind", "Compare: type switch on `a`: `case *SexpArray` selects no operand kind", "Compare: type switch on `a`: `case *SexpHash` selects no operand kind", "Compare: type switch on `a`: `case *SexpPair` selects no operand kind", "Compare: type switch on `a`: `case *SexpPointer` selects no operand kind", "Compare: type switch on `a`: `case *SexpRaw` selects no operand kind", "Compare: type switch on `a`: `case *SexpReflect` selects no operand kind", "Compare: type switch on `a`: `case *SexpSentinel` selects no operand kind", "Compare: type switch on `a`: `case *SexpStr` selects no operand kind", "Compare: type switch on `a`: `case *SexpSymbol` selects no operand kind", "Compare: type switch on `a`: `case *SexpTime` selects no operand kind", "NumericDo: type switch on `a`: `case *SexpTime` selects no operand kind", "NumericFloatDo: switch on `op`: `case Pow` selects no NumericOp of the domain", "NumericIntDo: switch on `op`: `case Pow` selects no NumericOp of the domain", "NumericUint64Do: switch on `op`: `case Pow` selects no NumericOp of the domain", "compareInt: type switch on `expr`: `case *SexpReflect` selects no operand kind"]

/-- what the translator could neither translate nor fall back on. Props/C07 requires `[]`. -/
def problems : List String := []

end ZygoVerif.NumGoGood

/-- unfolds every translated definition (helpers included, whatever they are called today). -/
macro "numgogood_unfold" : tactic => `(tactic| (try simp only [ZygoVerif.NumGoGood.signumFloat, ZygoVerif.NumGoGood.signumInt, ZygoVerif.NumGoGood.signumUint64, ZygoVerif.NumGoGood.cmpInt64, ZygoVerif.NumGoGood.compareInt, ZygoVerif.NumGoGood.compareUint64, ZygoVerif.NumGoGood.compareChar, ZygoVerif.NumGoGood.compareFloat, ZygoVerif.NumGoGood.compareBool, ZygoVerif.NumGoGood.Compare, ZygoVerif.NumGoGood.NumericFloatDo, ZygoVerif.NumGoGood.NumericIntDo, ZygoVerif.NumGoGood.NumericUint64Do, ZygoVerif.NumGoGood.NumericMatchFloat, ZygoVerif.NumGoGood.NumericMatchInt, ZygoVerif.NumGoGood.NumericMatchUint64, ZygoVerif.NumGoGood.NumericMatchChar, ZygoVerif.NumGoGood.NumericDo, ZygoVerif.NumGoGood.UintegerDo, ZygoVerif.NumGoGood.IntegerDo, ZygoVerif.GoSem.bind_ok, ZygoVerif.GoSem.bind_err, ZygoVerif.GoSem.bind_panic, ZygoVerif.GoSem.bind_ok_right, ZygoVerif.GoSem.bind_ite]))
