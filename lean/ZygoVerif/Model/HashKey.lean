/-
The concrete key universe of channel `hash` (C14): symbols, strings, integers, characters.
`code` follows `hashHelper`, `keq` follows `Compare == 0 && err == nil` on these types
(zygo/comparisons.go): int and char compare numerically with each other, strings by bytes,
symbols by number, every other pairing is an error ("different"). Integers are unbounded
here; the channel only uses small ones (Go: int64 / int32).
-/
import ZygoVerif.Model.Hash
import ZygoVerif.Model.Json
namespace ZygoVerif.Hash

inductive Key where
  | sym (name : String) (num : Int)
  | str (s : String)
  | int (v : Int)
  | chr (v : Int)
  deriving DecidableEq, Repr

/-- `hash/fnv` New32 (FNV-1): multiply, then xor the byte. -/
def fnv32 (s : String) : Int :=
  (s.toUTF8.foldl (fun (h : UInt32) b => (h * 16777619) ^^^ b.toUInt32) 2166136261).toNat

def Key.code : Key → Int
  | .sym _ n => n
  | .str s => fnv32 s
  | .int v => v
  | .chr v => v

def Key.keq : Key → Key → Bool
  | .sym _ a, .sym _ b => a == b
  | .str a, .str b => a == b
  | .int a, .int b => a == b
  | .int a, .chr b => a == b
  | .chr a, .int b => a == b
  | .chr a, .chr b => a == b
  | _, _ => false

def keyOps : KeyOps Key := ⟨Key.code, Key.keq⟩

/-- `SexpString(nil)`: symbols by name, strings through `strconv.Quote`, ints in decimal, chars
through `strconv.QuoteRune` (the channel keeps to letters and digits, where quoting adds
only the delimiters). -/
def Key.sexp : Key → String
  | .sym n _ => n
  | .str s => "\"" ++ s ++ "\""
  | .int v => toString v
  | .chr v => "'" ++ String.singleton (Char.ofNat v.toNat) ++ "'"

/-- key text inside `SexpHash.SexpString`: `"` + s.S + `"` for strings, the name for symbols,
`SexpString` otherwise -/
def Key.inHash : Key → String
  | .sym n _ => n
  | .str s => "\"" ++ s ++ "\""
  | k => k.sexp

/-- `jsonQuote` (Model/Json.lean, the C11 model of zygo/jsonmsgp.go) on the UTF-8 bytes of a text;
the channel keeps to ASCII, where bytes and characters coincide. -/
def jsonQuoteStr (s : String) : String :=
  String.ofList ((ZygoVerif.Json.jsonQuote (s.toUTF8.toList.map (·.toNat))).map Char.ofNat)

/-- `jsonKey(key)`: the text of a string or symbol key, else the printed form, JSON-quoted -/
def Key.jsonKey : Key → String
  | .sym n _ => jsonQuoteStr n
  | .str s => jsonQuoteStr s
  | k => jsonQuoteStr k.sexp

def keyShow : Show Key Int := ⟨Key.sexp, Key.jsonKey, Key.inHash, fun v => toString v⟩

end ZygoVerif.Hash
