/-
Pre-repair definitions of the front end (pinned tree 477c7df), kept for the
`…_counterexample` theorems of Props/C13: `Lexer.Reset` used to clear only stream, tokens,
state, linenum, preBuiltinRune and the buffer.
-/
import ZygoVerif.Model.Lexer
namespace ZygoVerif.Legacy.Lexer
open ZygoVerif.Lexer

/-- `Lexer.Reset` before the repair: the look-back ring, `priori`, `prevrune`, the token
memory and the queued streams survive. -/
def reset (s : LexState) : LexState :=
  { s with stream := none, tokens := [], state := .normal, linenum := 1, preBuiltinRune := '\x00', buffer := [] }

def core (o : Outcome LexCore) : LexCore :=
  match o with
  | .ok s => s
  | .err _ s => s

end ZygoVerif.Legacy.Lexer
