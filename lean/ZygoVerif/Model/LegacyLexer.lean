/-
Pre-repair definitions of the front end (pinned tree 477c7df), kept for the
`…_counterexample` theorems of Props/C13: `Lexer.Reset` used to clear only stream, tokens,
state, linenum, preBuiltinRune and the buffer.
-/
import ZygoVerif.Model.Lexer
namespace ZygoVerif.Legacy.Lexer
open ZygoVerif.Lexer

/-- `Lexer.Reset` before the repair: the look-back ring, `priori`, `prevrune`, the token
memory and the queued streams survive. -/
def reset (s : LexState) : LexState :=
  { s with stream := none, tokens := [], state := .normal, linenum := 1, preBuiltinRune := '\x00', buffer := [] }

def core (o : Outcome LexCore) : LexCore :=
  match o with
  | .ok s => s
  | .err _ s => s

/-- `case LexerBuiltinOperator` before repo fix C12-05: `-.` was not the possible start of a
number; the `-` became a symbol and the dot started the next atom. -/
def stepBuiltin (s0 : LexCore) (r : Char) : Outcome LexCore :=
  let s := { s0 with state := .normal }
  let atom := [s.prevrune, r]
  if s.prevrune == '-' && canStartSignedNumberAfter s.preBuiltinRune && (floatRe atom || decimalRe atom) then
    .ok { s with buffer := s.buffer ++ atom }
  else if builtinOpRe atom then
    let a := if atom == "&&".toList then "and".toList else if atom == "||".toList then "or".toList else atom
    .ok (appendToken s ⟨.symbol, a⟩)
  else stepNormal (appendToken s ⟨.symbol, [s.prevrune]⟩) r

/-- `LexNextRune` before C12-05: only the `LexerBuiltinOperator` arm differs (the arm reached
through `LexerFirstFwdSlash` has `prevrune = '/'`, where old and new agree; the state
`LexerMinusDot` did not exist). -/
def step (s : LexCore) (r : Char) : Outcome LexCore :=
  let s1 := { s with priorRune := s.priorRune.set s.priori r, priori := (s.priori + 1) % 20 }
  if s1.state == .builtinOperator then stepBuiltin s1 r else stepMode s1 r

def feed (o : Outcome LexCore) (rs : List Char) : Outcome LexCore :=
  rs.foldl (fun o r => match o with
    | .ok s => step s r
    | .err e s => .err e s) o

end ZygoVerif.Legacy.Lexer
