/-
Numeric literal conversion used by the parser model: `strconv.ParseInt`, `ParseUint` and
`ParseFloat` restricted to the literal shapes the lexer lets through. `ParseFloat` is
modelled exactly (correct rounding to nearest-even computed over `Nat`), so the `parse`
channel can compare IEEE bit patterns. Core-only.
-/
namespace ZygoVerif.NumLit

def digitVal (c : Char) : Option Nat :=
  if '0' ≤ c ∧ c ≤ '9' then some (c.toNat - 48)
  else if 'a' ≤ c ∧ c ≤ 'f' then some (c.toNat - 87)
  else if 'A' ≤ c ∧ c ≤ 'F' then some (c.toNat - 55)
  else none

/-- one digit more (Horner); `none` = a rune that is no digit of the base -/
def hornerStep (base : Nat) (acc : Option Nat) (c : Char) : Option Nat :=
  match acc, digitVal c with
  | some a, some d => if d < base then some (a * base + d) else none
  | _, _ => none

/-- digits in `base`, no sign, no underscores; `none` = syntax error. -/
def natOfDigits (base : Nat) (ds : List Char) : Option Nat :=
  if ds.isEmpty then none else ds.foldl (hornerStep base) (some 0)

/-- `strconv.ParseInt(s, base, 64)` for `-?digits`. -/
def parseInt64 (base : Nat) (s : List Char) : Option Int :=
  match s with
  | '-' :: ds => match natOfDigits base ds with
    | some n => if n ≤ 2^63 then some (-(n : Int)) else none
    | none => none
  | '+' :: ds => match natOfDigits base ds with
    | some n => if n < 2^63 then some (n : Int) else none
    | none => none
  | ds => match natOfDigits base ds with
    | some n => if n < 2^63 then some (n : Int) else none
    | none => none

/-- `strconv.ParseUint(s, base, 64)`. -/
def parseUint64 (base : Nat) (s : List Char) : Option Nat :=
  match natOfDigits base s with
  | some n => if n < 2^64 then some n else none
  | none => none

/-- `strconv.underscoreOK` for a decimal literal (sign already removed): an underscore must
have a digit on both sides. -/
def underscoreOK (s : List Char) : Bool :=
  let rec go (saw : Char) : List Char → Bool
    | [] => saw != '_'
    | c :: r =>
      if '0' ≤ c && c ≤ '9' then go '0' r
      else if c == '_' then (if saw != '0' then false else go '_' r)
      else if saw == '_' then false
      else go '!' r
  go '^' s

def roundDiv (n d : Nat) : Nat :=
  let q := n / d
  let r := n % d
  if 2 * r > d ∨ (2 * r = d ∧ q % 2 = 1) then q + 1 else q

def scaled (num den : Nat) (e : Int) : Nat × Nat :=
  if e ≥ 0 then (num, den * 2 ^ e.toNat) else (num * 2 ^ (-e).toNat, den)

/-- nearest binary64 (ties to even) of the positive rational `num/den`; `none` = overflow. -/
def f64OfRat (num den : Nat) : Option Nat :=
  if num = 0 then some 0 else
  let e0 : Int := (num.log2 : Int) - (den.log2 : Int) - 52
  let pick : Int → Nat := fun e => let p := scaled num den e; p.1 / p.2
  let e := if pick (e0 + 1) ≥ 2 ^ 52 then e0 + 1 else if pick e0 ≥ 2 ^ 52 then e0 else e0 - 1
  let e := if e < -1074 then -1074 else e
  let p := scaled num den e
  let q := roundDiv p.1 p.2
  let qe : Nat × Int := if q ≥ 2 ^ 53 then (q / 2, e + 1) else (q, e)
  if qe.1 < 2 ^ 52 then some qe.1
  else
    let be := qe.2 + 1075
    if be ≥ 2047 then none else some (be.toNat * 2 ^ 52 + (qe.1 - 2 ^ 52))

/-- `strconv.ParseFloat(s, 64)` on a literal accepted by `FloatRegex` (or `Inf`, `inf`,
`+Inf`, `-Inf`): IEEE bits, `none` = error (syntax or range). -/
def parseFloat (s : List Char) : Option Nat :=
  let neg := s.head? == some '-'
  let body := match s with
    | '-' :: r => r
    | '+' :: r => r
    | _ => s
  let sign := if neg then 2 ^ 63 else 0
  if body == "Inf".toList || body == "inf".toList then some (sign + 0x7ff0000000000000) else
  if !underscoreOK body then none else
  let body := body.filter (· != '_')
  let mant := body.takeWhile (fun c => c != 'e' && c != 'E')
  let expS := (body.dropWhile (fun c => c != 'e' && c != 'E')).drop 1
  let intD := mant.takeWhile (· != '.')
  let fracD := (mant.dropWhile (· != '.')).drop 1
  let digits := intD ++ fracD
  if digits.isEmpty then none else
  match natOfDigits 10 digits with
  | none => none
  | some m =>
    if m = 0 then some sign else
    let expNeg := expS.head? == some '-'
    let expDigits := match expS with
      | '-' :: r => r
      | '+' :: r => r
      | _ => expS
    let expAbs : Nat := if expDigits.isEmpty then 0 else
      -- clamp like any implementation must: beyond this the answer is 0 or overflow anyway
      if expDigits.length > 6 then 1000000 else (natOfDigits 10 expDigits).getD 0
    let e10 : Int := (if expNeg then -(expAbs : Int) else (expAbs : Int)) - (fracD.length : Int)
    let mag : Int := ((digits.dropWhile (· == '0')).length : Int) + e10
    if mag > 400 then none
    else if mag < -400 then some sign
    else
      let r := if e10 ≥ 0 then f64OfRat (m * 10 ^ e10.toNat) 1 else f64OfRat m (10 ^ (-e10).toNat)
      match r with
      | some b => some (sign + b)
      | none => none

end ZygoVerif.NumLit
