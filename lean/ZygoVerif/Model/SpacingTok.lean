/-
The lexer token each token of `Spec/Spacing.lean` stands for (C06 `lex_spacing`): names are
SYMBOL tokens, dotted paths DOT-SYMBOL tokens, numerals DECIMAL or FLOAT tokens holding their
text, operators SYMBOL tokens (`&&`/`||` are rewritten to `and`/`or`, `:=` is the FRESH-ASSIGN
token), brackets, comma and semicolon their own token types. Core Lean only (the driver prints
these as the specification column of `expand ltoks`).
-/
import ZygoVerif.Model.Lexer
import ZygoVerif.Spec.Spacing
namespace ZygoVerif.Lexer
open ZygoVerif.Spacing (Tok)

/-- the lexer token a specification token stands for -/
def expTok : Tok → Token
  | .name lead segs => if !lead && segs.length == 1 then ⟨.symbol, Tok.text (.name lead segs)⟩ else ⟨.dotSymbol, Tok.text (.name lead segs)⟩
  | .num neg ip fp ex => if fp.isNone && ex.isNone then ⟨.decimal, Tok.text (.num neg ip fp ex)⟩ else ⟨.float, Tok.text (.num neg ip fp ex)⟩
  | .op o =>
    if o == ":=".toList then ⟨.freshAssign, o⟩
    else if o == "&&".toList then ⟨.symbol, "and".toList⟩
    else if o == "||".toList then ⟨.symbol, "or".toList⟩
    else ⟨.symbol, o⟩
  | .punct c =>
    if c == ',' then ⟨.comma, [',']⟩ else if c == ';' then ⟨.semicolon, [';']⟩ else braceTok c

end ZygoVerif.Lexer
