/-
The DEFINING go-style range loop `for k, v := range h { … }` on the key universe of channel
`hash` (C14), as the code is after repo fix C14-03.

zygo/pratt.go `lowerRangeFor`/`lowerRangeBinding` lower it to
  (letseq [src h len (__rangeLen src)]
    (for [(def i 0) (< i len) (set i (+ i 1))] (mdef k v (__rangePair src i)) body…))
so `k` and `v` are bound by ONE `mdef` per iteration, all in the scope of the loop. The first
iteration creates the bindings; every later one RE-binds the names in the same scope, which
`Stack.BindSymbol` (zygo/scopes.go) allows only when the new value has the type of the value
the name holds ("cannot assign string to int64" otherwise — the rule `def` enforces).
`BindlistInstr` (zygo/vm.go) returns that error since fix C14-03; the loop stops with it.
(The ASSIGNING form `k, v = range h` goes through `set`, which has no such rule: it is plain
`range` of Model/Hash.) Values on this channel are integers, so only the keys matter.
Core-only.
-/
import ZygoVerif.Model.HashKey
namespace ZygoVerif.Hash

/-- the dynamic type `BindSymbol` compares (`Sexp.Type()`): `int64`, `string`, `symbol`, `int32` -/
inductive Kind where
  | int | str | sym | chr
  deriving DecidableEq, Repr

def Key.kind : Key → Kind
  | .sym _ _ => .sym
  | .str _ => .str
  | .int _ => .int
  | .chr _ => .chr

/-- the iterations of the loop after the first: `cur` is the key that `k` holds. `none` = the
loop stopped with the error of the refused re-binding. -/
def definingRangeFrom (cur : Key) : List (Key × Int) → Option (List (Key × Int))
  | [] => some []
  | (k, v) :: rest =>
    if k.kind = cur.kind then (definingRangeFrom k rest).map ((k, v) :: ·) else none

/-- what the body of `for k, v := range h` sees, iteration by iteration, for the pairs that
`__rangePair` delivers; `none` = script-level error -/
def definingRange : List (Key × Int) → Option (List (Key × Int))
  | [] => some []
  | (k, v) :: rest => (definingRangeFrom k rest).map ((k, v) :: ·)

/-- the observation of the defining form, from the observation of `range` -/
def definingObs : Obs Key Int → Obs Key Int
  | .pairs ps => match definingRange ps with
    | some l => .pairs l
    | none => .err
  | ob => ob

end ZygoVerif.Hash
