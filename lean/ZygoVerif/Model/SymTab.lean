/-
Model of the symbol tables of zygo/environment.go (property C19), written arm by arm after
the Go code *as repaired by fixes/C19-01-gensym-fresh.patch*:

  Zlisp.symtable    map[string]int      shared by every interpreter of a family
  Zlisp.revsymtable map[int]string      shared
  Zlisp.nextsymbol  int                 one per interpreter, copied by Duplicate / Clone
  Zlisp.parser      *Parser             shared; `parser.env` stays the interpreter that
                                        created it, so symbols *read* in any member are
                                        interned through that member's counter

Go maps are association lists looked up first-match (an assignment conses; in `MakeSymbol`
an assignment only ever happens for an absent key). Names are byte lists (Go strings are
byte sequences). Counters are `Nat`: wrap-around of a 64-bit `int` is out of scope.

The two Go loops (`for { if !used break; nextsymbol++ }` in MakeSymbol, the candidate loop
in GenSymbol) have no bound in Go; here they are `findFree` with fuel = table size + 1,
and `Proofs/SymTab.lean` proves that this fuel is never exhausted (pigeonhole), so the
bounded loop *is* the unbounded one. Core Lean only — the driver links this file.
-/
namespace ZygoVerif.SymTab

abbrev Name := List Nat

/-- Go map lookup on an association list (first match). -/
def alookup {α β} [DecidableEq α] (k : α) : List (α × β) → Option β
  | [] => none
  | (a, b) :: r => if k = a then some b else alookup k r

/-- `symtable` and `revsymtable`. -/
structure Tables where
  sym : List (Name × Nat)
  rev : List (Nat × Name)
deriving Repr, DecidableEq

def Tables.empty : Tables := ⟨[], []⟩

/-- `_, ok := env.symtable[name]` -/
def Tables.hasName (t : Tables) (n : Name) : Bool := (alookup n t.sym).isSome
/-- `_, used := env.revsymtable[k]` -/
def Tables.used (t : Tables) (k : Nat) : Bool := (alookup k t.rev).isSome

/-- `for { if !p(n) { break }; n++ }`, bounded by fuel. -/
def findFree (p : Nat → Bool) : Nat → Nat → Nat
  | 0, n => n
  | fuel + 1, n => if p n then findFree p fuel (n + 1) else n

/-- `strconv.Itoa` for a non-negative int: decimal digits as ASCII bytes. -/
def digitsAux : Nat → Nat → List Nat → List Nat
  | 0, _, acc => acc
  | fuel + 1, n, acc =>
    if n < 10 then (48 + n) :: acc else digitsAux fuel (n / 10) ((48 + n % 10) :: acc)

def itoa (n : Nat) : List Nat := digitsAux (n + 1) n []

/-- `prefix + strconv.Itoa(env.nextsymbol)` -/
def genName (pre : Name) (c : Nat) : Name := pre ++ itoa c

/-- Result of an interning call: tables, the caller's counter afterwards, the symbol
(`number`, `name`). -/
structure Res where
  tab : Tables
  ctr : Nat
  num : Nat
  name : Name
deriving Repr, DecidableEq

/-- `func (env *Zlisp) MakeSymbol(name string) *SexpSymbol`, with `c = env.nextsymbol`. -/
def makeSymbol (t : Tables) (c : Nat) (name : Name) : Res :=
  match alookup name t.sym with
  | some k => ⟨t, c, k, name⟩                       -- found: counter untouched
  | none =>
    let k := findFree t.used (t.rev.length + 1) c   -- skip numbers already used
    ⟨⟨(name, k) :: t.sym, (k, name) :: t.rev⟩, k + 1, k, name⟩

/-- `func (env *Zlisp) GenSymbol(prefix string) *SexpSymbol` (repaired): advance the counter
until `prefix+itoa(counter)` is not a name of the table, then intern that. -/
def genSymbol (t : Tables) (c : Nat) (pre : Name) : Res :=
  let c' := findFree (fun n => t.hasName (genName pre n)) (t.sym.length + 1) c
  makeSymbol t c' (genName pre c')

/-! ### a family of interpreters sharing the tables -/

/-- One interpreter: its private counter and which member owns the parser it reads with. -/
structure Member where
  ctr : Nat
  parserOwner : Nat
deriving Repr, DecidableEq

structure Family where
  tab : Tables
  mem : List Member
deriving Repr, DecidableEq

inductive Op where
  | mk (i : Nat) (name : Name)      -- env_i.MakeSymbol(name)   (str2sym at script level)
  | gen (i : Nat) (pre : Name)      -- env_i.GenSymbol(prefix)  (gensym, anonymous fn names)
  | dup (i : Nat)                   -- env_i.Duplicate()        (also: every macro expansion)
  | clone (i : Nat)                 -- env_i.Clone()
  | read (i : Nat) (name : Name)    -- a symbol token parsed in env_i: env_i.parser.env.MakeSymbol
deriving Repr, DecidableEq

/-- What a caller of the public API observes. `existed` is not visible through the API; it
records whether the returned symbol's name or number was in the tables before the call
(the harness reads it off a snapshot of the real tables). -/
inductive Obs where
  | sym (num : Nat) (name : Name) (existed : Bool)
  | member (ctr : Nat)              -- a new member and the counter it starts with
  | bad                             -- no such member
deriving Repr, DecidableEq

def setCtr (ms : List Member) (i c : Nat) : List Member :=
  ms.set i { (ms.getD i ⟨0, 0⟩) with ctr := c }

def existedIn (t : Tables) (r : Res) : Bool := t.hasName r.name || t.used r.num

def applyRes (F : Family) (i : Nat) (r : Res) : Family × Obs :=
  (⟨r.tab, setCtr F.mem i r.ctr⟩, .sym r.num r.name (existedIn F.tab r))

def step (F : Family) : Op → Family × Obs
  | .mk i name =>
    match F.mem[i]? with
    | some m => applyRes F i (makeSymbol F.tab m.ctr name)
    | none => (F, .bad)
  | .gen i pre =>
    match F.mem[i]? with
    | some m => applyRes F i (genSymbol F.tab m.ctr pre)
    | none => (F, .bad)
  | .dup i | .clone i =>
    -- both copy `nextsymbol` and the `parser` pointer and share the two maps
    match F.mem[i]? with
    | some m => (⟨F.tab, F.mem ++ [m]⟩, .member m.ctr)
    | none => (F, .bad)
  | .read i name =>
    match F.mem[i]? with
    | some m =>
      match F.mem[m.parserOwner]? with
      | some o => applyRes F m.parserOwner (makeSymbol F.tab o.ctr name)
      | none => (F, .bad)
    | none => (F, .bad)

def run (F : Family) : List Op → Family × List Obs
  | [] => (F, [])
  | op :: rest =>
    let (F1, o) := step F op
    let (F2, os) := run F1 rest
    (F2, o :: os)

/-- A fresh interpreter whose tables hold `n` base entries numbered `1..n` (the builtins and
reserved words interned by `NewZlisp`), counter `n+1`. Base names start with a NUL byte
followed by the number: they stand for names that no history in the name pool can form. -/
def baseName (k : Nat) : Name := 0 :: itoa k

def baseTables : Nat → Tables
  | 0 => Tables.empty
  | n + 1 => let t := baseTables n
             ⟨(baseName (n + 1), n + 1) :: t.sym, (n + 1, baseName (n + 1)) :: t.rev⟩

def initFamily (n : Nat) : Family := ⟨baseTables n, [⟨n + 1, 0⟩]⟩

end ZygoVerif.SymTab
