/-
The s-expression subset shared by the model of the infix expander (Model/Pratt.lean) and
its specification (Spec/Stratified.lean): tokens of an infix block and expansion trees.
Core Lean only.
-/
namespace ZygoVerif.Pratt

/-- The s-expressions that occur as tokens of an infix block and in its expansion. -/
inductive Sx where
  | sym (name : String)      -- *SexpSymbol
  | dot (name : String)      -- *SexpSymbol with isDot (`.`, `.a`, `a.b`)
  | lab (name : String)      -- *SexpSymbol with colonTail (`name:`)
  | lit (text : String)      -- *SexpInt / *SexpFloat / *SexpBool / *SexpStr (left binding power 0)
  | other (isUint : Bool) (text : String)   -- *SexpUint64 (`5ULL`) or *SexpChar (`'c'`): no arm in LeftBindingPower before fix C06-01
  | arr (xs : List Sx)       -- *SexpArray
  | list (xs : List Sx)      -- a proper list (chain of *SexpPair); also a nested `(infix […])` block
  | comma                    -- *SexpComma
  | semi                     -- *SexpSemicolon
  | hash                     -- the empty *SexpHash that `{}` parses to
  | null                     -- SexpNull
deriving Repr, Inhabited

namespace Sx
/-- name of a symbol of any flavour (`x.(*SexpSymbol)` succeeds). -/
def symName? : Sx → Option String
  | sym n | dot n | lab n => some n
  | _ => none

def isNamed (s : Sx) (n : String) : Bool := s.symName? == some n

def isSemi : Sx → Bool | semi => true | _ => false
def isComma : Sx → Bool | comma => true | _ => false
end Sx

/-! Size of a token tree: an upper bound for the fuel any run needs. -/
mutual
def Sx.size : Sx → Nat
  | .arr xs => 1 + sizeList xs
  | .list xs => 1 + sizeList xs
  | _ => 1
def sizeList : List Sx → Nat
  | [] => 0
  | x :: xs => x.size + sizeList xs
end


end ZygoVerif.Pratt
