/-
Model of the data values of zygomys and of their printer `SexpString(nil)`
(zygo/expressions.go, zygo/hashutils.go) for scalars, lists, arrays and hashes, with the
interpreter's `Pretty` flag off and a nil `PrintState` (the way `SexpToJson`, `str` and
the REPL printer call it). Shared by C11 (JSON) and C12 (print/read).

Strings and names are byte lists. A float carries, next to its IEEE bits, the text that
`strconv.FormatFloat(v, 'f' or 'e', -1, 64)` produced for it: float formatting is a
parameter of the model (DESIGN §5), supplied per value; `FloatText.dec` is the shape law
(sign, integer digits, fraction digits, optional exponent) that every finite float's text
has, `FloatText.raw` holds `NaN`, `+Inf`, `-Inf` (or a text that broke the law).
A hash is its type name and its entries in `KeyOrder` (value = `HashGet` of the key).
Core Lean only.
-/
import ZygoVerif.Model.Quote
namespace ZygoVerif.Print
open ZygoVerif.Quote

inductive FloatText where
  /-- `[-]int[.frac][e(+|-)exp]`, digits as values 0–9 -/
  | dec (neg : Bool) (int : List Nat) (frac : List Nat) (exp : Option (Bool × List Nat))
  | raw (text : Bytes)
  deriving DecidableEq, Repr, Inhabited

structure FloatLit where
  bits : Nat
  /-- `strconv.FormatFloat(v, 'f' or 'e', -1, 64)`: the printed form -/
  text : FloatText
  /-- `strconv.FormatFloat(v, 'g', -1, 64)`: what `jsonFloat` starts from -/
  jtext : FloatText
  deriving DecidableEq, Repr, Inhabited

inductive V where
  | nil
  | bool (b : Bool)
  | int (n : Int)                       -- SexpInt (int64)
  | uint (n : Nat)                      -- SexpUint64
  | flt (f : FloatLit)                  -- SexpFloat
  | char (c : Int)                      -- SexpChar (rune = int32)
  | str (s : Bytes) (backtick : Bool)   -- SexpStr
  | sym (name : Bytes)                  -- SexpSymbol
  | list (l : List V)                   -- proper list of SexpPair (non-empty; `nil` is the empty list)
  | arr (l : List V)                    -- SexpArray
  | hash (typeName : Bytes) (entries : List (V × V))  -- SexpHash: TypeName, KeyOrder with values
  deriving Repr, Inhabited

def asciiBytes (s : String) : Bytes := s.toList.map Char.toNat

def digitChars (ds : List Nat) : Bytes := ds.map (· + 0x30)

/-- decimal digits of a natural number, most significant first (`strconv.FormatUint(n, 10)`) -/
def natDigitsFuel : Nat → Nat → List Nat
  | 0, n => [n % 10]
  | f + 1, n => if n < 10 then [n] else natDigitsFuel f (n / 10) ++ [n % 10]

def natDigits (n : Nat) : List Nat := natDigitsFuel n n

/-- `strconv.Itoa(int(n))` -/
def itoa (n : Int) : Bytes :=
  if n < 0 then 0x2D :: digitChars (natDigits n.natAbs) else digitChars (natDigits n.toNat)

def floatText : FloatText → Bytes
  | .raw t => t
  | .dec neg ip fp ex =>
    (if neg then [0x2D] else []) ++ digitChars ip
      ++ (if fp.isEmpty then [] else 0x2E :: digitChars fp)
      ++ (match ex with
          | none => []
          | some (eneg, ed) => 0x65 :: (if eneg then 0x2D else 0x2B) :: digitChars ed)

/-- `SexpFloat.SexpString` (repo fix C12-03): the text of `FormatFloat(v, 'f', -1, 64)` gets
`.0` appended when it holds none of `.`, `I`, `N` (a whole number); the `'e'` text (which always
has an exponent), `NaN`, `+Inf`, `-Inf` are written as they are. -/
def floatPrinted : FloatText → Bytes
  | .dec neg ip fp ex =>
    if fp.isEmpty && ex.isNone then floatText (.dec neg ip fp ex) ++ [0x2E, 0x30] else floatText (.dec neg ip fp ex)
  | .raw t =>
    if t.any (fun b => b == 0x2E || b == 0x49 || b == 0x4E || b == 0x65) then t else t ++ [0x2E, 0x30]

def intercalate (sep : Bytes) : List Bytes → Bytes
  | [] => []
  | [a] => a
  | a :: b :: r => a ++ sep ++ intercalate sep (b :: r)

mutual
/-- `SexpString(nil)` -/
def sexpString : V → Bytes
  | .nil => asciiBytes "nil"
  | .bool b => if b then asciiBytes "true" else asciiBytes "false"
  | .int n => itoa n
  | .uint n => digitChars (natDigits n) ++ asciiBytes "ULL"
  | .flt f => floatPrinted f.text
  | .char c => quoteRune c
  | .str s bt => if bt then 0x60 :: s ++ [0x60] else quote s
  | .sym n => n
  | .list l => 0x28 :: sexpStringSep l ++ [0x29]
  | .arr l => if l.isEmpty then [0x5B, 0x5D] else 0x5B :: sexpStringSep l ++ [0x5D]
  | .hash tn es =>
    if tn = asciiBytes "hash" then
      0x7B :: hashEntries es ++ [0x7D]
    else
      [0x20, 0x28] ++ tn ++ [0x20] ++ hashEntries es ++ [0x29]
/-- elements separated by one space -/
def sexpStringSep : List V → Bytes
  | [] => []
  | [a] => sexpString a
  | a :: b :: r => sexpString a ++ [0x20] ++ sexpStringSep (b :: r)
/-- `key:value` pairs separated by one space (string keys quoted, symbol keys bare) -/
def hashEntries : List (V × V) → Bytes
  | [] => []
  | [(k, v)] => hashKey k ++ [0x3A] ++ sexpString v
  | (k, v) :: e :: r => hashKey k ++ [0x3A] ++ sexpString v ++ [0x20] ++ hashEntries (e :: r)
def hashKey : V → Bytes
  | .str s _ => quote s            -- repo fix C12-04 (was the raw bytes between two quotes)
  | .sym n => n
  | k => sexpString k
end

end ZygoVerif.Print
