/-
Model of zygo/parser.go (as it is after the C13 repairs, including fix C13-02: the
look-ahead after a lone `+`/`-` no longer waits once `EndInput` has been called).

The Go parser is a recursive descent running inside an `iter.Pull` coroutine; when the
token stream runs dry it yields "more input needed" and is resumed by the next
`ParseTokens` call after `NewInput`. The model hands the parser the list of pieces that
will still be delivered (`PState.fut`): a yield is "deliver the next piece and go on", and
when no piece is left the parse ends with status `more`.

The recursive descent itself (`parseExpr`, `parseList`, …) is written once, as a program
over a small instruction set (`Prog`, a free monad): the only instructions that look at the
input are `waitPeek` (= `ParserPeekNextToken` and the identical inline loops of
`ParseList/ParseArray/ParseInfix/ParseBlockComment/ParseBacktickString`) and `topGet`
(= the `GetNextToken` of `ParseExpression(0)` inside the `ParsingIter` loop). Two
interpreters run such a program: `run` on the concrete state (streams, queued pieces:
this is what the `parse` channel compares with the real code) and `runA` on the abstract
view (lexer core + all runes not yet read). `Props/C13` proves that `run` followed by
`view` equals `runA` for EVERY program, hence for the parser; chunk independence follows.

Modelling notes (each covered by the `parse` correspondence at every cut position):
* A `GetNextToken` that follows a successful peek of a non-End token only pops the queue
  head; it is modelled as `waitPeek 0` + drop head (identical when the queue is non-empty,
  which it is at each of those sites).
* `Reset` with a suspended coroutine runs the coroutine to completion with every yield
  answering false; nothing it does survives the following `Lexer.Reset` (after the repair),
  so the model just drops the coroutine.
Core-only.
-/
import ZygoVerif.Model.Sexp
import ZygoVerif.Model.Lexer
import ZygoVerif.Model.NumLit
namespace ZygoVerif.Parser
open ZygoVerif.Lexer

inductive Status where
  | done | more | err
  deriving DecidableEq, Repr, Inhabited

def Status.letter : Status → String
  | .done => "d" | .more => "m" | .err => "e"

/-- Parser programs. `k` = the rest of the program. Every instruction that looks at the token
queue first waits until the tokens it looks at are queued (as the Go code does: each
`lexer.tokens[i]` follows a `ParserPeekNextToken(i)`, each `GetNextToken` lexes until a token is
there), so a program never observes how far ahead the lexer happens to have read. -/
inductive Prog (α : Type) where
  | pure (a : α)
  | fail                                             -- a parse error
  | waitPeek (extra : Nat) (k : Token → Prog α)      -- wait until `extra+1` tokens are queued; head token
  | signPeek (k : Token → Prog α)                    -- `peekAfterSign`: as `waitPeek 0`, but `EndTk` once the finished input is used up
  | peekAt (i : Nat) (k : Token → Prog α)            -- wait until `i+1` tokens are queued; `lexer.tokens[i]`
  | getTok (k : Token → Prog α)                      -- `GetNextToken` below the top level: wait for a token, take it
  | topGet (k : Option Token → Prog α)               -- top level: next token, `none` when the input is used up
  | pushTok (t : Token) (k : Prog α)                 -- prepend a token to the queue
  | pushExpr (e : Sexp) (k : Prog α)                 -- sendMe.Expr = append(sendMe.Expr, e)

def Prog.bind {α β : Type} : Prog α → (α → Prog β) → Prog β
  | .pure a, f => f a
  | .fail, _ => .fail
  | .waitPeek n k, f => .waitPeek n (fun t => (k t).bind f)
  | .signPeek k, f => .signPeek (fun t => (k t).bind f)
  | .peekAt n k, f => .peekAt n (fun t => (k t).bind f)
  | .getTok k, f => .getTok (fun t => (k t).bind f)
  | .topGet k, f => .topGet (fun t => (k t).bind f)
  | .pushTok t k, f => .pushTok t (k.bind f)
  | .pushExpr e k, f => .pushExpr e (k.bind f)

instance : Monad Prog where
  pure := .pure
  bind := Prog.bind

def waitPeek (extra : Nat) : Prog Token := .waitPeek extra .pure
def signPeek : Prog Token := .signPeek .pure
def topGet : Prog (Option Token) := .topGet .pure
def pushTok (t : Token) : Prog Unit := .pushTok t (.pure ())
def pushExpr (e : Sexp) : Prog Unit := .pushExpr e (.pure ())
def fail {α : Type} : Prog α := .fail

/-- drop the queue head (a `GetNextToken` directly after a successful peek) -/
def popTok : Prog Unit := .getTok (fun _ => .pure ())

/-- `lexer.tokens[i]` after a successful `ParserPeekNextToken(i)` -/
def tokAt (i : Nat) : Prog Token := .peekAt i .pure

def sym (s : String) : Sexp := Sexp.mkSym s

def hashTok : Token := ⟨.symbol, "hash".toList⟩

/-- first byte of the UTF-8 encoding of a code point (`rune(tok.str[0])`, what the parser took
before repo fix C12-01; kept for `Model/LegacyReadPrint`) -/
def firstByte (c : Char) : Nat :=
  let n := c.toNat
  if n < 0x80 then n
  else if n < 0x800 then 0xC0 + n / 64
  else if n < 0x10000 then 0xE0 + n / 4096
  else 0xF0 + n / 262144

/-- the atoms of `ParseExpression`'s switch that need no further input -/
def atomOfTok (tok : Token) : Option (Option Sexp) :=   -- none: not an atom case; some none: error
  match tok.typ with
  | .freshAssign | .colonOperator | .dollar => some (some (.sym tok.str false false))
  | .bool => some (some (.bool (tok.str == "true".toList)))
  | .uint64 =>
    let inp := tok.str.take (tok.str.length - 3)
    let r := if inp.length > 2 then
        (match inp with
         | '0' :: 'o' :: r => NumLit.parseUint64 8 r
         | '0' :: 'x' :: r => NumLit.parseUint64 16 r
         | _ => NumLit.parseUint64 10 inp)
      else NumLit.parseUint64 10 inp
    some (r.map .uint)
  | .decimal => some ((NumLit.parseInt64 10 (tok.str.filter (· != '_'))).map .int)
  | .hex => some ((NumLit.parseInt64 16 tok.str).map .int)
  | .oct => some ((NumLit.parseInt64 8 tok.str).map .int)
  | .binary => some ((NumLit.parseInt64 2 tok.str).map .int)
  | .char => some (some (.char (match tok.str with | c :: _ => c.toNat | [] => 0xFFFD)))   -- utf8.DecodeRuneInString (repo fix C12-01)
  | .string => some (some (.str tok.str false))
  | .backtickString => some (some (.str tok.str true))
  | .float =>
    if tok.str == "NaN".toList then some (some (.float 0x7ff8000000000001 false)) else
    some ((NumLit.parseFloat tok.str).map fun b => .float b (tok.str.contains 'e' || tok.str.contains 'E'))
  | .tEnd => some (some .endS)
  | .symbolColon => some (some (.sym tok.str true false))
  | .dot | .dotSymbol => some (some (.sym tok.str false true))
  | .comment => some (some (.comment tok.str false))
  | .comma => some (some .comma)
  | .semicolon => some (some .semicolon)
  | _ => none

mutual

/-- `ParseExpression` once its token is in hand (the `switch tok.typ`). -/
def parseExprTok : Nat → Token → Prog Sexp
  | 0, _ => fail
  | fuel + 1, tok =>
    match tok.typ with
    | .lparen => parseList fuel .rparen
    | .lsquare => parseArray fuel []
    | .lcurly => do
      let tok2 ← waitPeek 0
      let r ← skipComments fuel tok2 1
      let tok2 := r.1
      let extra := r.2
      let asHash : Prog Sexp := do
        pushTok hashTok
        parseList fuel .rcurly
      match tok2.typ with
      | .symbolColon => do
        let second ← tokAt extra
        if second.typ == .symbol && second.str == "for".toList then parseInfix fuel [] else asHash
      | .rcurly => do
        popTok
        pure .emptyHash
      | .string => do
        let second ← tokAt extra
        if second.typ == .colonOperator then asHash else parseInfix fuel []
      | .beginBacktickString => do
        let third ← tokAt (extra + 1)     -- ParserPeekNextToken(extra+1); tokens[extra], tokens[extra+1]
        let second ← tokAt extra
        if second.typ == .backtickString && third.typ == .colonOperator then asHash else parseInfix fuel []
      | _ => parseInfix fuel []
    | .quote => do let e ← parseExprNested fuel; pure (Sexp.mkList [sym "quote", e])
    | .caret => do let e ← parseExprNested fuel; pure (Sexp.mkList [sym "syntaxQuote", e])
    | .tilde => do let e ← parseExprNested fuel; pure (Sexp.mkList [sym "unquote", e])
    | .tildeAt => do let e ← parseExprNested fuel; pure (Sexp.mkList [sym "unquote-splicing", e])
    | .beginBacktickString => parseBacktick fuel
    | .beginBlockComment => parseBlockComment fuel tok.str
    | .symbol =>
      if tok.str == ['-'] || tok.str == ['+'] then do
        let tok2 ← signPeek
        if tok2.typ == .float && (tok2.str == "Inf".toList || tok2.str == "inf".toList) then do
          popTok
          match NumLit.parseFloat (tok.str ++ "Inf".toList) with
          | some b => pure (.float b false)
          | none => fail
        else pure (.sym tok.str false false)
      else pure (.sym tok.str false false)
    | _ =>
      match atomOfTok tok with
      | some (some e) => pure e
      | some none => fail
      | none => fail     -- "Invalid syntax, don't know what to do with …"

/-- the comment-skipping look-ahead after `{` -/
def skipComments : Nat → Token → Nat → Prog (Token × Nat)
  | 0, _, _ => fail
  | fuel + 1, tok2, extra =>
    if tok2.typ == .beginBlockComment || tok2.typ == .comment then do
      let r ← (if tok2.typ == .beginBlockComment then do
                  let t ← tokAt (extra + 2)
                  pure (t, extra + 3)
                else pure (tok2, extra) : Prog (Token × Nat))
      let r2 ← (if r.1.typ == .comment then do
                  let t ← tokAt r.2
                  pure (t, r.2 + 1)
                else pure r : Prog (Token × Nat))
      skipComments fuel r2.1 r2.2
    else pure (tok2, extra)

/-- `ParseExpression(depth > 0)`: waits for its token (repair), then takes it. -/
def parseExprNested : Nat → Prog Sexp
  | 0 => fail
  | fuel + 1 => do
    let tok ← waitPeek 0
    popTok
    parseExprTok fuel tok

/-- `ParseList` -/
def parseList : Nat → TokType → Prog Sexp
  | 0, _ => fail
  | fuel + 1, endTyp => do
    let tok ← waitPeek 0
    if tok.typ == endTyp then do
      popTok
      pure .null
    else do
      let head ← parseExprNested fuel
      let tok ← waitPeek 0
      if tok.typ == .backslash then do
        popTok
        let tail ← parseExprNested fuel
        let close ← waitPeek 0
        popTok
        if close.typ != .rparen then fail else pure (.pair head tail)
      else do
        let tail ← parseList fuel endTyp
        pure (.pair head tail)

/-- `ParseArray` (the accumulator is reversed) -/
def parseArray : Nat → List Sexp → Prog Sexp
  | 0, _ => fail
  | fuel + 1, acc => do
    let tok ← waitPeek 0
    if tok.typ == .comma then do
      popTok
      parseArray fuel acc
    else if tok.typ == .rsquare then do
      popTok
      pure (.array acc.reverse false)
    else do
      let e ← parseExprNested fuel
      parseArray fuel (e :: acc)

/-- `ParseInfix` -/
def parseInfix : Nat → List Sexp → Prog Sexp
  | 0, _ => fail
  | fuel + 1, acc => do
    let tok ← waitPeek 0
    if tok.typ == .rcurly then do
      popTok
      if acc.isEmpty then pure (.pair (sym "infix") .null)
      else pure (.pair (sym "infix") (.pair (.array acc.reverse true) .null))
    else do
      let e ← parseExprNested fuel
      parseInfix fuel (e :: acc)

/-- `ParseBlockComment` -/
def parseBlockComment : Nat → List Char → Prog Sexp
  | 0, _ => fail
  | fuel + 1, acc => do
    let tok ← waitPeek 0
    popTok
    if tok.typ == .endBlockComment then pure (.comment (acc ++ tok.str) true)
    else if tok.typ == .comment then parseBlockComment fuel (acc ++ tok.str)
    else fail   -- the Go code panics here; the lexer never produces another token in this state

/-- `ParseBacktickString` -/
def parseBacktick : Nat → Prog Sexp
  | 0 => fail
  | fuel + 1 => do
    let tok ← waitPeek 0
    popTok
    if tok.typ == .backtickString then pure (.str tok.str true) else fail

end

/-- The `ParsingIter` loop across all `ParseTokens` calls of one text. -/
def topLoop : Nat → Prog Unit
  | 0 => fail
  | fuel + 1 => do
    let t ← topGet
    match t with
    | none => pure ()
    | some tok => do
      let e ← parseExprTok fuel tok
      pushExpr e
      topLoop fuel

/-! ## Concrete interpreter -/

structure PState where
  lex : LexState := {}
  fut : List (List Char) := []     -- pieces that will still be delivered
  eof : Bool := false              -- the last piece of `fut` is the end of the input (delivered by `EndInput`)
  exprs : List Sexp := []          -- sendMe.Expr
  trace : List Status := []        -- answer of every ParseTokens call that ended at a piece boundary
  deriving Inhabited

inductive Fin (α : Type) where
  | ret (a : α)
  | stop (st : Status)

/-- runes still to come: held by the lexer or not yet delivered -/
def PState.runes (s : PState) : List Char := s.lex.pending ++ s.fut.flatten

/-- measure for the reading loops: runes plus the number of streams/pieces still to open -/
def PState.size (s : PState) : Nat :=
  s.runes.length + s.lex.next.length + s.fut.length

/-- The rune reader of `PeekNextToken`: next rune of the current stream, promoting queued
streams when the current one is used up. -/
def readRune (l : LexState) : Nat → Option (Char × LexState)
  | 0 => none
  | fuel + 1 =>
    match l.stream with
    | some (c :: rest) => some (c, { l with stream := some rest })
    | _ => match l.promote with
      | some l' => readRune l' fuel
      | none => none

/-- The caller of `ParseTokens` got the answer `st` and delivers the next piece `p` (`fut` is
what remains after it): `NewInput`, or `EndInput` when the piece is the end of the input —
`{ l.addNextStream eofPiece with finished := true }` is `l.endInput`. -/
def PState.deliver (s : PState) (p : List Char) (fut : List (List Char)) (st : Status) : PState :=
  { s with lex := { s.lex.addNextStream p with finished := s.eof && fut.isEmpty }, fut := fut,
           trace := s.trace ++ [st] }

inductive PeekOut where
  | tok (t : Token) (s : PState)
  | stop (st : Status) (s : PState)

/-- `ParserPeekNextToken(extra)`: lex until `extra+1` tokens are queued; at the end of the
delivered input yield `more` and go on with the next piece. `fuel` bounds the loop.
With `orEnd` it is `peekAfterSign`: the same loop, but once `EndInput` has been called the end
of the delivered input is final and `EndTk` is returned instead of yielding. -/
def peekWaitRun (orEnd : Bool) (extra : Nat) : Nat → PState → PeekOut
  | 0, s => .stop .err s
  | fuel + 1, s =>
    if s.lex.stream.isNone && s.lex.next.isEmpty then
      -- `if lexer.stream == nil && !PromoteNextStream() { return EndTk }`
      match s.fut with
      | [] => if orEnd && s.lex.finished then .tok Token.endTk s else .stop .more s
      | p :: fut => peekWaitRun orEnd extra fuel (s.deliver p fut .more)
    else
    match (if extra < s.lex.tokens.length then s.lex.tokens.head? else none) with
    | some t => .tok t s
    | none =>
      match readRune s.lex (s.lex.next.length + 1) with
      | some (c, l) =>
        (match l.step c with
         | .ok l' => peekWaitRun orEnd extra fuel { s with lex := l' }
         | .err _ l' => .stop .err { s with lex := l' })
      | none =>
        match s.fut with
        | [] => if orEnd && s.lex.finished then .tok Token.endTk s else .stop .more s
        | p :: fut => peekWaitRun orEnd extra fuel (s.deliver p fut .more)

inductive TopOut where
  | tok (t : Token) (s : PState)
  | finished (st : Status) (s : PState)

/-- `GetNextToken` at depth 0 inside the `ParsingIter` loop: at the end of the delivered
input the iterator answers `done` (or `more` inside a string/rune literal — repair) and
the next `ParseTokens` call goes on from the same place. -/
def topGetRun : Nat → PState → TopOut
  | 0, s => .finished .err s
  | fuel + 1, s =>
    let atEnd (s : PState) : TopOut :=
      let st : Status := if inLiteral s.lex.toLexCore then .more else .done
      match s.fut with
      | [] => .finished st s
      | p :: fut => topGetRun fuel (s.deliver p fut st)
    if s.lex.stream.isNone && s.lex.next.isEmpty then atEnd s else
    match s.lex.tokens with
    | t :: ts => .tok t { s with lex := { s.lex with tokens := ts } }
    | [] =>
      match readRune s.lex (s.lex.next.length + 1) with
      | some (c, l) =>
        (match l.step c with
         | .ok l' => topGetRun fuel { s with lex := l' }
         | .err _ l' => .finished .err { s with lex := l' })
      | none => atEnd s

def run {α : Type} : Prog α → PState → Fin α × PState
  | .pure a, s => (.ret a, s)
  | .fail, s => (.stop .err, s)
  | .waitPeek n k, s =>
    (match peekWaitRun false n (s.size + 1) s with
     | .tok t s' => run (k t) s'
     | .stop st s' => (.stop st, s'))
  | .signPeek k, s =>
    (match peekWaitRun true 0 (s.size + 1) s with
     | .tok t s' => run (k t) s'
     | .stop st s' => (.stop st, s'))
  | .topGet k, s =>
    (match topGetRun (s.size + 1) s with
     | .tok t s' => run (k (some t)) s'
     | .finished .done s' => run (k none) s'
     | .finished st s' => (.stop st, s'))
  | .peekAt i k, s =>
    (match peekWaitRun false i (s.size + 1) s with
     | .tok _ s' =>
       (match s'.lex.tokens[i]? with
        | some t => run (k t) s'
        | none => (.stop .err, s'))
     | .stop st s' => (.stop st, s'))
  | .getTok k, s =>
    (match peekWaitRun false 0 (s.size + 1) s with
     | .tok t s' => run (k t) { s' with lex := { s'.lex with tokens := s'.lex.tokens.tail } }
     | .stop st s' => (.stop st, s'))
  | .pushTok t k, s => run k { s with lex := { s.lex with tokens := t :: s.lex.tokens } }
  | .pushExpr e k, s => run k { s with exprs := s.exprs ++ [e] }

/-- `Parser.ResetAddNewInput(piece)` on any parser state: the coroutine and the reply are
dropped, the lexer is reset, the piece becomes the current stream. -/
def resetAddNewInput (l : LexState) (piece : List Char) : LexState :=
  (l.reset).addNextStream piece

/-- end of input = `Parser.EndInput` = one more piece holding a newline, delivered with the
mark that nothing follows (`PState.eof`, `PState.deliver`) -/
def eofPiece : List Char := ['\n']

def initState (l : LexState) (chunks : List (List Char)) : PState :=
  match chunks with
  | [] => { lex := resetAddNewInput l [], fut := [eofPiece], eof := true }
  | c :: rest => { lex := resetAddNewInput l c, fut := rest ++ [eofPiece], eof := true }

def fuelFor (chunks : List (List Char)) : Nat := 4 * chunks.flatten.length + 16

structure Result where
  status : Status
  exprs : List Sexp
  trace : List Status

/-- The delivery protocol on a parser whose lexer is in state `l`: pieces one by one,
`ParseTokens` after each, then end of input and `ParseTokens` once more. -/
def parseChunksFrom (l : LexState) (chunks : List (List Char)) : Result :=
  match run (topLoop (fuelFor chunks)) (initState l chunks) with
  | (.ret _, s) => ⟨.done, s.exprs, s.trace⟩
  | (.stop st, s) => ⟨st, s.exprs, s.trace⟩

def parseChunks (chunks : List (List Char)) : Result := parseChunksFrom LexState.init chunks

end ZygoVerif.Parser
