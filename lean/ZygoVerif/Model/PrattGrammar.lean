/-
The stratified grammar that a Pratt operator table induces (C06). `denseLevels T` has one
level per binding power 1 … maxBp (most of them empty); `grammarOf T` keeps the non-empty
ones. No number survives in the result: only the ORDER of the levels, their PARTITION of the
operators and their associativity. Core Lean only.
-/
import ZygoVerif.Model.Pratt
import ZygoVerif.Spec.Stratified
namespace ZygoVerif.Pratt
open ZygoVerif.Stratified (Member Level Grammar)
open ZygoVerif.Generated.InfixTable (Entry Ctor)

/-- The entries `env.infixOps` holds after InitInfixOps: one per name, the last one written. -/
def Table.effective (T : Table) : List Entry :=
  (T.entries.map (·.name)).eraseDups.filterMap T.find?

def maxBp (T : Table) : Nat :=
  (T.effective.map (·.bp)).foldl max (max T.lbpArr (max T.lbpDot T.lbpComma))

/-- The operators with left binding power `b`, and the prefix operators whose operand is parsed
with right binding power `b`. -/
def levelAt (T : Table) (b : Nat) : Level where
  members :=
    (T.effective.filterMap fun e =>
      if e.bp == b && e.name != "if" then
        match ledOfEntry e with
        | .bin out _ => some (Member.op e.name out)
        | .post n => some (.post n)
        | .drop => some (.drop e.name)
        | _ => none
      else none)
    ++ (if T.lbpComma == b then
          match (T.find? "comma").map ledOfEntry with
          | some (.bin out _) => [Member.commaTok out]
          | _ => []
        else [])
    ++ (if T.lbpArr == b then [Member.index] else [])
    ++ (if T.lbpDot == b then [Member.field] else [])
    ++ (T.effective.filterMap fun e =>
      match nudOfEntry T e with
      | .pre out r => if r == b then some (Member.pre e.name out) else none
      | _ => none)
  right := T.effective.any fun e => e.bp == b && (e.ctor == .infixr || e.ctor == .assignment)

def denseLevels (T : Table) : Grammar := (List.range (maxBp T)).map (fun i => levelAt T (i+1))

def grammarOf (T : Table) : Grammar := (denseLevels T).filter (fun lv => !lv.members.isEmpty)

/-- Same members (in any order) and same associativity, level by level. -/
def Level.same (a b : Level) : Bool :=
  a.right == b.right && a.members.all (b.members.contains ·) && b.members.all (a.members.contains ·)

def Grammar.same : Grammar → Grammar → Bool
  | [], [] => true
  | a :: as, b :: bs => Level.same a b && Grammar.same as bs
  | _, _ => false

end ZygoVerif.Pratt
