/-
`for k, v := range h` before repo fix C14-03 (see Model/RangeBind.lean): `BindlistInstr`
dropped the error of `LexicalBindSymbol`, so a refused re-binding left the name with the value
it had and the loop went on — the body saw a key of an EARLIER iteration.
-/
import ZygoVerif.Model.RangeBind
namespace ZygoVerif.Legacy.Hash
open ZygoVerif.Hash

/-- later iterations: `cur` is the key that `k` holds; a key of another type does not replace it -/
def definingRangeFrom (cur : Key) : List (Key × Int) → List (Key × Int)
  | [] => []
  | (k, v) :: rest =>
    let k' := if k.kind = cur.kind then k else cur
    (k', v) :: definingRangeFrom k' rest

def definingRange : List (Key × Int) → List (Key × Int)
  | [] => []
  | (k, v) :: rest => (k, v) :: definingRangeFrom k rest

end ZygoVerif.Legacy.Hash
