/-
Histories on shared records (C10): one record lives through a SEQUENCE of
  (togo r) · (hset r key val) · (_method o Echo: r) · (_method o Touch: r) · read r · (_method r Self:)
and every conversion has to reflect the record as it is NOW.

Model of the state the code keeps between those steps — as the code is, arm by arm:

* script side: records have identity and are updated in place by `hset` (`HashSet`, hashutils.go):
  `Store`. A record value held by another record is a REFERENCE (`.hash id _ []`), so an update is
  seen through every path that reaches the record (`expand`).
* Go side: every record carries `ShadowSet/GoShadowStruct/GoShadowStructVa` (expressions.go): the Go
  object attached to it. `HSt.shadow` maps a record id to the object id of that struct in the
  persistent heap `HSt.heap`.
  - `toGoHelper` (jsonmsgp.go): a record that has a shadow struct is filled AGAIN INTO THAT STRUCT
    (`newStruct = asHash.GoShadowStruct`; "we may have updates after changes from the sexp hashtable
    side"); otherwise the factory makes a fresh one. Afterwards the struct is attached to the record.
  - `SexpToGoStructs` at call depth > 0 attaches the freshly made object to every nested record that
    is converted at a pointer or interface typed target; it READS no shadow struct.
  - `CallGoMethodFunction` (callgo.go): the receiver is converted only when it has no shadow struct
    (then by `togo`), otherwise the attached object is the receiver; every ARGUMENT is converted
    into a brand-new `reflect.New(typ)` — whatever the record has attached — and the top record of
    that conversion does not get the new object attached. Results that are registered structs come
    back through `FillHashFromShadow` into a NEW record.

Object numbering is ours, not Go's: a conversion that starts from a fresh top object cannot reach any
older object, so it is run in a heap of its own (`toGoTop`) which is then appended to the persistent
heap (`reloc`). Refilling an attached struct runs directly in the persistent heap (it starts from the
struct's present content, which may point at older objects).

Core Lean only.
-/
import ZygoVerif.Model.ToGo
namespace ZygoVerif.ToGoHist
open ZygoVerif.ToGo

/-! ### script side -/

structure Ent where
  id : Nat
  tn : String
  kvs : List (Key × Sx)      -- nested records are references `.hash id _ []`
  deriving Repr

abbrev Store := List Ent

def Store.get (s : Store) (id : Nat) : Option Ent := s.find? (·.id == id)
def Store.put (s : Store) (e : Ent) : Store := e :: s.filter (·.id != e.id)

/-- the record as the script sees it now: every reference replaced by the record's current pairs -/
def expand (s : Store) : Nat → Sx → Sx
  | 0, x => x
  | n+1, .arr xs => .arr (xs.map (expand s n))
  | n+1, .hash id tn kvs =>
    match s.get id with
    | some e => .hash id e.tn (e.kvs.map (fun kv => (kv.1, expand s n kv.2)))
    | none => .hash id tn kvs
  | _+1, x => x

/-- `(hset r key val)`: `HashSet` — an existing key keeps its place, a new key goes to the end.
Records with a registered Go struct have no `UserStructDefn`, so `TypeCheckField` accepts
every key and value; wrong ones are found by the next conversion. -/
def hset (s : Store) (id : Nat) (k : Key) (v : Sx) : Option Store :=
  (s.get id).map (fun e => s.put { e with kvs := kvSet e.kvs k v })

/-! ### the harness method `Touch<T>` (harness/ch_togo_types.go `touchStruct`) -/

def wrapInt (bits : Nat) (v : Int) : Int := if inIntRange bits (v + 1) then v + 1 else -(2 ^ (bits - 1) : Int)

def touch : Nat → GV → GV
  | 0, v => v
  | _+1, .int k v => .int k (wrapInt k.bits v)
  | _+1, .uint k v => .uint k (if v + 1 < 2 ^ k.bits then v + 1 else 0)
  | _+1, .str b => .str (86 :: b)
  | _+1, .bool b => .bool (!b)
  | n+1, .struct s fs => .struct s (fs.map (touch n))
  | _+1, v => v

/-! ### Go side -/

/-- move a value from a conversion's own heap to its place in the persistent heap -/
def reloc (base : Nat) : Nat → GV → GV
  | 0, v => v
  | _+1, .ptr (some o) => .ptr (some (o + base))
  | n+1, .slice (some xs) => .slice (some (xs.map (reloc base n)))
  | n+1, .struct s fs => .struct s (fs.map (reloc base n))
  | n+1, .iface (some d) => .iface (some (reloc base n d))
  | n+1, .map (some es) => .map (some (es.map (fun e => (reloc base n e.1, reloc base n e.2))))
  | _+1, v => v

structure HSt where
  store : Store
  heap : List GV
  shadow : List (Nat × Nat)      -- record id ↦ object id of the attached Go struct
  deriving Repr

def HSt.shadowOf (h : HSt) (id : Nat) : Option Nat := (h.shadow.find? (·.1 == id)).map (·.2)

def setShadow (sh : List (Nat × Nat)) (id o : Nat) : List (Nat × Nat) := (id, o) :: sh.filter (·.1 != id)

/-- the records a conversion attached its objects to: the cache entries made at pointer and
interface typed targets (`src.ShadowSet = true; src.GoShadowStruct = checkPtrStruct`). `skip`: the
top record of an argument conversion (call depth 0 attaches nothing). -/
def attachAll (sh : List (Nat × Nat)) (cache : List (Nat × GV × Ty)) (base : Nat) (skip : Option Nat) : List (Nat × Nat) :=
  cache.foldr (fun e acc =>
    match e.2.1 with
    | .ptr (some o) => if skip == some e.1 then acc else setShadow acc e.1 (o + base)
    | _ => acc) sh

def relocFuel : Nat := 64

/-- result of a conversion that started from a fresh top object -/
structure Fresh where
  o : Nat            -- the top object, in the conversion's own heap
  heap : List GV     -- the conversion's own heap: everything the new struct can reach
  top : Nat          -- the same object in the persistent heap
  st : HSt

/-- a conversion that starts from a fresh top object: `toGoTop` in a heap of its own, appended to
the persistent heap. `attachTop`: `toGoHelper` attaches the top object to the record, an argument
conversion does not. -/
def convertFresh (w : World) (fuel : Nat) (h : HSt) (want : Option String) (x : Sx) (attachTop : Bool) : M Fresh :=
  match toGoTop w fuel want x with
  | .error e => .error e
  | .ok (o, st) =>
    let base := h.heap.length
    let topId : Option Nat := match x with | .hash id _ _ => some id | _ => none
    .ok ⟨o, st.heap, o + base,
         { h with heap := h.heap ++ st.heap.map (reloc base relocFuel),
                  shadow := attachAll h.shadow st.cache base (if attachTop then none else topId) }⟩

/-- `toGoHelper` on a record that already has its Go struct attached (object `o`): the struct is
filled again, starting from what it holds. -/
def convertRefill (w : World) (fuel : Nat) (h : HSt) (o : Nat) (x : Sx) : M HSt :=
  match x with
  | .hash _ tn kvs =>
    match w.lookupReg tn, h.heap[o]? with
    | some d, some cur =>
      match fillFields (conv w fuel) (fieldTable w 8 d.fields 0 []) ⟨h.heap, []⟩ cur kvs with
      | .ok (sv, st1) => .ok { h with heap := st1.heap.set o sv, shadow := attachAll h.shadow st1.cache 0 none }
      | .error e => .error e
    | _, _ => .error .err
  | _ => .error .err

inductive Step
  | togo (r : Nat)                     -- `(togo r)`
  | hset (r : Nat) (k : Key) (v : Sx)  -- `(hset r key val)`
  | echo (r : Nat)                     -- `(_method o Echo<T>: r)`: r is an ARGUMENT; the struct comes back
  | touch (r : Nat)                    -- `(_method o Touch<T>: r)`: the method mutates the struct it was handed
  | read (r : Nat)                     -- the record as the script sees it
  | self (r : Nat)                     -- `(_method r Self:)`: r is the RECEIVER
  deriving Repr

inductive Ans
  | go (heap : List GV) (o : Nat)      -- the Go struct attached to the record, to be dumped
  | sx (x : Sx)                        -- a script value, to be dumped
  | ok
  | err
  | fuel
  deriving Repr

def expandFuel : Nat := 64

def HSt.record (h : HSt) (r : Nat) : Sx := expand h.store expandFuel (.hash r "" [])

def wantOf (w : World) (x : Sx) : Option String :=
  match x with
  | .hash _ tn _ => (w.lookupReg tn).map (·.name)
  | _ => none

def ansOfErr : Err → Ans | .err => .err | .fuel => .fuel

/-- `(togo r)` -/
def stepTogo (w : World) (fuel : Nat) (h : HSt) (r : Nat) : Ans × HSt :=
  let x := h.record r
  match h.shadowOf r with
  | some o =>
    match convertRefill w fuel h o x with
    | .ok h1 => (.go h1.heap o, { h1 with shadow := setShadow h1.shadow r o })
    | .error e => (ansOfErr e, h)
  | none =>
    match convertFresh w fuel h none x true with
    | .ok f => (.go f.heap f.o, f.st)
    | .error e => (ansOfErr e, h)

/-- what the method hands back: its argument, after `Touch` did its work on it -/
def handedBack (mutate : Bool) (heap : List GV) (o : Nat) : List GV :=
  if mutate then heap.set o (touch relocFuel (heap.getD o .bad)) else heap

/-- `(_method o M: r)` with `M` returning its (possibly mutated) argument. The struct that comes
back is read from the conversion's own heap: the argument is a brand-new object graph. -/
def stepArg (w : World) (fuel : Nat) (h : HSt) (r : Nat) (mutate : Bool) : Ans × HSt :=
  let x := h.record r
  match convertFresh w fuel h (wantOf w x) x false with
  | .ok f =>
    (.sx (back w (handedBack mutate f.heap f.o) fuel (.ptr (some f.o))),
     { f.st with heap := handedBack mutate f.st.heap f.top })
  | .error e => (ansOfErr e, h)

/-- `(_method r Self:)` -/
def stepSelf (w : World) (fuel : Nat) (h : HSt) (r : Nat) : Ans × HSt :=
  match h.shadowOf r with
  | some o => (.sx (back w h.heap fuel (.ptr (some o))), h)
  | none =>
    match convertFresh w fuel h none (h.record r) true with
    | .ok f => (.sx (back w f.heap fuel (.ptr (some f.o))), f.st)
    | .error e => (ansOfErr e, h)

def step (w : World) (fuel : Nat) (h : HSt) : Step → Ans × HSt
  | .togo r => stepTogo w fuel h r
  | .hset r k v =>
    match hset h.store r k v with
    | some s => (.ok, { h with store := s })
    | none => (.err, h)
  | .echo r => stepArg w fuel h r false
  | .touch r => stepArg w fuel h r true
  | .read r => (.sx (h.record r), h)
  | .self r => stepSelf w fuel h r

def Ans.failed : Ans → Bool | .err => true | .fuel => true | _ => false

/-- a history; it ends at the first failing step (a failed conversion may have written part of the
record into the attached struct, in Go's map order) -/
def run (w : World) (fuel : Nat) : HSt → List Step → List Ans × HSt
  | h, [] => ([], h)
  | h, s :: rest =>
    let (a, h1) := step w fuel h s
    if a.failed then ([a], h1) else
    let (as, h2) := run w fuel h1 rest
    (a :: as, h2)

end ZygoVerif.ToGoHist
