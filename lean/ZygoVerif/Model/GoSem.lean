/-
Target vocabulary of the Go-subset → Lean translator `extract/ex_numtrans.go` (tie T1 of
C07). Hand-written, core-only, tiny: everything the generated file `Generated/NumGo.lean`
(and its committed last-good copy `Model/NumGoGood.lean`) refers to that is not a core
`BitVec`/`Bool` operation lives here or in `Model/Num.lean` (`FloatSem`, `Res`).

Operand domain. A Go value of interface type `Sexp` is translated as a value of `Sx F`:
the translation describes the Go functions RESTRICTED to operands whose dynamic type is one
of `*SexpInt`, `*SexpUint64`, `*SexpChar`, `*SexpFloat`, `*SexpBool`. A pointer to one of
these structs is represented by its `Val` field alone (the structs are never written
through in the translated subset; `Typ`/`Scientific` are not modelled). Arms of a type
switch for other dynamic types, and `case` arms for enum constants outside the enums below
(`Pow`), are unreachable under that restriction and are skipped by the translator, which
lists them in `NumGo.skippedArms`.
-/
import ZygoVerif.Model.Num
namespace ZygoVerif.GoSem
open ZygoVerif.Num

/-- The dynamic types of `Sexp` operands covered by the translation. -/
inductive Sx (F : Type) where
  | int (v : BitVec 64)      -- *SexpInt{Val int64}
  | uint (v : BitVec 64)     -- *SexpUint64{Val uint64}
  | char (v : BitVec 32)     -- *SexpChar{Val rune}
  | flt (f : F)              -- *SexpFloat{Val float64}
  | bool (b : Bool)          -- *SexpBool{Val bool}

/-- `zygo.NumericOp` without `Pow` (`**` is outside the property). -/
inductive NumericOp where
  | Add | Sub | Mult | Div
deriving DecidableEq, Repr

/-- `zygo.IntegerOp`. -/
inductive IntegerOp where
  | ShiftLeft | ShiftRightArith | ShiftRightLog | Modulo | BitAnd | BitOr | BitXor
deriving DecidableEq, Repr

/-- Go's `x << n`, `x >> n` (logical, for an unsigned `x`) and `x >> n` (arithmetic, for a signed
`x`) with an unsigned count `n`: once the count reaches the width the result is 0 (or the sign
fill). Written with that guard so that the compiled driver never builds a 2^63-bit
intermediate value; `shl_eq`/`shrU_eq`/`shrS_eq` show they are BitVec's own shifts. -/
def shl {w m : Nat} (x : BitVec w) (n : BitVec m) : BitVec w :=
  if n.toNat < w then x <<< n.toNat else 0#w
def shrU {w m : Nat} (x : BitVec w) (n : BitVec m) : BitVec w :=
  if n.toNat < w then x >>> n.toNat else 0#w
def shrS {w m : Nat} (x : BitVec w) (n : BitVec m) : BitVec w :=
  if n.toNat < w then x.sshiftRight n.toNat else (if x.msb then BitVec.allOnes w else 0#w)

theorem shl_eq {w m : Nat} (x : BitVec w) (n : BitVec m) : shl x n = x <<< n.toNat := by
  unfold shl; split
  · rfl
  · rw [BitVec.shiftLeft_eq_zero (by omega)]
theorem shrU_eq {w m : Nat} (x : BitVec w) (n : BitVec m) : shrU x n = x >>> n.toNat := by
  unfold shrU; split
  · rfl
  · rw [BitVec.ushiftRight_eq_zero (by omega)]
theorem shrS_eq {w m : Nat} (x : BitVec w) (n : BitVec m) : shrS x n = x.sshiftRight n.toNat := by
  unfold shrS; split
  · rfl
  · rename_i h
    cases hm : x.msb
    · rw [BitVec.sshiftRight_eq_of_msb_false hm, BitVec.ushiftRight_eq_zero (by omega)]; rfl
    · rw [BitVec.sshiftRight_eq_of_msb_true hm, BitVec.ushiftRight_eq_zero (by omega)]; simp

/-- Sequencing of Go calls that can fail: an `error` return or a run-time panic of the
callee ends the caller the same way. -/
def bind {α β : Type} : Res α → (α → Res β) → Res β
  | .ok a, f => f a
  | .err, _ => .err
  | .panic, _ => .panic

@[simp] theorem bind_ok {α β : Type} (a : α) (f : α → Res β) : bind (.ok a) f = f a := rfl
@[simp] theorem bind_err {α β : Type} (f : α → Res β) : bind .err f = .err := rfl
@[simp] theorem bind_panic {α β : Type} (f : α → Res β) : bind .panic f = .panic := rfl
@[simp] theorem bind_ok_right {α : Type} (r : Res α) : bind r .ok = r := by cases r <;> rfl
theorem bind_ite {α β : Type} (c : Prop) [Decidable c] (x y : Res α) (f : α → Res β) :
    bind (if c then x else y) f = if c then bind x f else bind y f := by
  split <;> rfl

/-- Applies `f` to a successful outcome (used to state that a generated function equals the
hand-written model up to the embedding of the model's values). -/
def mapRes {α β : Type} (f : α → β) : Res α → Res β
  | .ok a => .ok (f a)
  | .err => .err
  | .panic => .panic

end ZygoVerif.GoSem
