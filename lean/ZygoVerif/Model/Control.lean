/-
Model of the VM's control-state discipline (zygo/environment.go: `vmControlState`,
`captureControlState`, `restoreControlState`, `Stack.TruncateToSize`, the error branch of
`Run`, and the capture/restore bracket of `CallUserFunction`, `EvalCallExpression`, `Apply`,
`SexpLazyArg.Force`). Stacks are lists with the top at the END (Go: `elements[0..tos]`);
an element is `none` when Go's `TruncateToSize` had to *grow* the slice with nil entries.
Core-only.
-/
namespace ZygoVerif.Control

/-- `Stack.TruncateToSize(n)`: cut to `n` elements, or pad with nil when shorter. -/
def truncateToSize {α : Type} (n : Nat) (l : List (Option α)) : List (Option α) :=
  if n ≤ l.length then l.take n else l ++ List.replicate (n - l.length) none

/-- The control part of an interpreter. `scopeId` stands for the *pointer* `env.linearstack`
(a lazy-argument force temporarily replaces the whole scope stack by a clone). -/
structure Ctl (D S A F : Type) where
  data : List (Option D)
  scopeId : Nat
  scopes : Nat → List (Option S)     -- contents of every scope-stack object, by identity
  addr : List (Option A)
  curfunc : F
  pc : Int

/-- `vmControlState`. -/
structure Saved (F : Type) where
  curfunc : F
  pc : Int
  scopeId : Nat
  addrSize : Nat
  scopeSize : Nat
  dataSize : Nat

variable {D S A F : Type}

def capture (st : Ctl D S A F) : Saved F :=
  { curfunc := st.curfunc, pc := st.pc, scopeId := st.scopeId,
    addrSize := st.addr.length, scopeSize := (st.scopes st.scopeId).length,
    dataSize := st.data.length }

def restore (c : Saved F) (st : Ctl D S A F) : Ctl D S A F :=
  { data := truncateToSize c.dataSize st.data
    scopeId := c.scopeId
    scopes := fun i => if i = c.scopeId then truncateToSize c.scopeSize (st.scopes c.scopeId)
                       else st.scopes i
    addr := truncateToSize c.addrSize st.addr
    curfunc := c.curfunc
    pc := c.pc }

/-- The four depths a host can observe. -/
def depths (st : Ctl D S A F) : Nat × Nat × Nat :=
  (st.data.length, (st.scopes st.scopeId).length, st.addr.length)

/-- "Nothing below the captured depth was touched": every stack of `st'` still starts with
the corresponding stack of `st` (execution only pushes above, or pops back down to, the
depth at which the bracket was entered). -/
structure Extends (st st' : Ctl D S A F) : Prop where
  data : st.data <+: st'.data
  scopes : st.scopes st.scopeId <+: st'.scopes st.scopeId
  addr : st.addr <+: st'.addr
  others : ∀ i, i ≠ st.scopeId → st'.scopes i = st.scopes i

/-- The error branch of `Run`: `restoreControlState(runState); pc = functionSize(curfunc)`. -/
def runErrorExit (funSize : F → Int) (entry : Ctl D S A F) (st' : Ctl D S A F) : Ctl D S A F :=
  let r := restore (capture entry) st'
  { r with pc := funSize r.curfunc }

/-- "At rest" (what an idle interpreter looks like): no operands, only the global scope,
no call frames, `pc` at the end of the main function. -/
def AtRest (funSize : F → Int) (main : F) (st : Ctl D S A F) : Prop :=
  st.data = [] ∧ (st.scopes st.scopeId).length = 1 ∧ st.addr = [] ∧ st.curfunc = main ∧
    st.pc = funSize main

end ZygoVerif.Control
