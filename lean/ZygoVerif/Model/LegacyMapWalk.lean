/-
C20 — the map walks as they were BEFORE fixes/C20-01 and C20-02, kept only for the
`…_counterexample` theorems of Props/C20.lean (same role as Model/Legacy.lean; a separate
file so that concurrent work on Legacy.lean does not conflict). Core Lean only.
-/
import ZygoVerif.Model.MapWalk
namespace ZygoVerif.Legacy
open ZygoVerif.MapWalk

/-- `fillHashHelper` before fix 01: `for hashName, factory := range GoStructRegistry.Registry
{ if typeOf(factory.Factory()) == typeOf(r) { … MakeHash(…, hashName, …) … return } }` —
the walk IS the iteration order and the first match's *map key* names the record. -/
def fillHashTypeName (walk : List (String × RegType)) (goType : Nat) : Option String :=
  match walk with
  | [] => none
  | (name, rt) :: rest => if rt.goType = goType then some name else fillHashTypeName rest goType

/-- `CallGoMethodFunction` before fix 01: same walk, names the record `factory.RegisteredName`. -/
def callGoTypeName (walk : List (String × RegType)) (goType : Nat) : Option String :=
  match walk with
  | [] => none
  | (_, rt) :: rest => if rt.goType = goType then some rt.registeredName else callGoTypeName rest goType

/-- `NewZlispWithFuncs` before fix 02: `for key := range funcs { env.MakeSymbol(key) … }` —
symbols are numbered in iteration order. -/
def internBuiltins {V} (table : List String) (walk : List (String × V)) : List String :=
  (walk.map (·.1)).foldl intern table

/-- `symnum` (now in Model/MapWalk.lean). -/
abbrev symnum := MapWalk.symnum

end ZygoVerif.Legacy
