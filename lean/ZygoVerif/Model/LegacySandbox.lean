/-
C08 — the outside-world paths of the tree BEFORE fixes/C08-01 (include) and C08-02
(sys / import builders), frozen by hand from the reference graph that
extract/ex_callgraph.go produced for /repo a529e3c. Only the nodes on the three shortest
root → primitive paths are kept; node numbers are local to this file. Used by the
`…_counterexample` theorems of Props/C08.lean. Core Lean only.
-/
namespace ZygoVerif.LegacySandbox

def nodeNames : List String := [
  /- 0 -/ "zygo.(*Zlisp).LoadExpressions",
  /- 1 -/ "zygo.(*Generator).GenerateBegin",
  /- 2 -/ "zygo.(*Generator).Generate",
  /- 3 -/ "zygo.(*Generator).GenerateCall",
  /- 4 -/ "zygo.(*Generator).GenerateCallBySymbol",
  /- 5 -/ "zygo.(*Generator).GenerateInclude",
  /- 6 -/ "zygo.(*Generator).GenerateInclude$1",
  /- 7 -/ "zygo.(*Zlisp).ParseFile",
  /- 8 -/ "ext:os.Open",
  /- 9 -/ "zygo.(*Zlisp).StandardSetup",
  /- 10 -/ "zygo.(*Zlisp).ImportPackageBuilder",
  /- 11 -/ "zygo.SystemBuilder",
  /- 12 -/ "zygo.SystemFunction",
  /- 13 -/ "ext:os/exec.Command",
  /- 14 -/ "zygo.ImportPackageBuilder",
  /- 15 -/ "zygo.SourceFileFunction",
  /- 16 -/ "zygo.(*Zlisp).sourceItem",
  /- 17 -/ "zygo.FileExists",
  /- 18 -/ "ext:os.Stat" ]

/-- reference edges of the pre-fix code along those paths (none of them was guarded), in the
adjacency format of Generated/CallGraph.lean: (source, label, bit mask of targets) -/
def adj : List (Nat × Nat × Nat) := [
  (0,0,2), (1,0,4), (2,0,8), (3,0,16), (4,0,32), (5,0,64), (6,0,128), (7,0,256),   -- (include "file")
  (9,0,1024), (10,0,18432), (11,0,4096), (12,0,8192),     -- StandardSetup installs sys (10 → 11, 14)
  (14,0,163840), (15,0,65536), (16,0,256), (17,0,262144) ] -- … and import (14 → 15, 17; 16 → os.Open)

/-- script-facing entry point common to every configuration -/
def rootsBare : List Nat := [0]
/-- … plus StandardSetup -/
def rootsStd : List Nat := [0, 9]

def prims : List Nat := [8, 13, 18]

end ZygoVerif.LegacySandbox
