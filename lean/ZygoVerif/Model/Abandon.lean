/-
The suspended parser coroutine, what it does when it is ABANDONED, and the parser's public
protocol written call by call (C13, "what an interpreter … failed to parse earlier never changes
how a later text is read").

`Model/Parser.run` hands a parse the list of pieces that will still come; when none is left it
answers `more` and DROPS the rest of the program. The Go parser does not: the rest of the program
is a coroutine (`iter.Pull`) blocked inside a `yield`, kept in `Parser.next`/`Parser.stop`, and
`Parser.Reset`, `ResetAddNewInput` and `Stop` have to get rid of it. `iter.Pull`'s `stop()` does
not kill the coroutine: it makes the blocked `yield` return false and lets the parser functions
run to their end. What they do on the way out depends on WHERE the `yield` sits:

* in `ParserPeekNextToken` / `peekAfterSign` a false `yield` is the error `ParserHaltRequested`;
  every caller returns an error at once: nothing is read any more;
* in the inline wait loops of `ParseList`, `ParseArray`, `ParseInfix`, `ParseBlockComment`,
  `ParseBacktickString` it is `return SexpEnd, nil` — NO error: the caller one level up takes
  `SexpEnd` for the value of the sub-expression and CARRIES ON, and its next step is to peek at
  the lexer again;
* in `ParsingIter` (input ran out inside a string / rune literal) the iterator returns.

So a dying parse keeps reading whatever the lexer can still deliver. That is harmless exactly
when the lexer is not given the next text before the coroutine has been stopped: the protocol
rule `stop the coroutine BEFORE Lexer.Reset / AddNextStream` (tied to the order of the statements
in parser.go by `Generated.LexTables.parser…Order`, `Props/C13.reset_stops_coroutine_first`).

This file
* annotates parser programs with what a stopped `yield` does (`SProg`: `Prog` plus the
  instruction `waitLoop onStop k`), writes the recursive descent with the annotation
  (`S.parseList` …; `Proofs/Abandon.erase_topLoop` proves that forgetting the annotation gives
  exactly `Model/Parser.topLoop`, so this is the same parser, not a second one);
* defines the program a stopped parse is blocked in (`residual`), its unwinding (`stopNow`,
  `unwind`), and
* the parser as a state machine driven call by call (`PSt`: lexer, reply accumulator, suspended
  coroutine; `parseTokens`, `newInput`, `endInput`, `stop`, `reset`, `resetAddNewInput` in the
  statement order of parser.go), which the `parse h` correspondence runs against the real code,
* and the same with the order "lexer first, coroutine afterwards" (`…LexerFirst`), for the
  counterexample theorems.
Core-only.
-/
import ZygoVerif.Model.Parser
namespace ZygoVerif.Parser
open ZygoVerif.Lexer

/-- Parser programs with the reaction to a stopped `yield` made explicit. Every waiting
instruction but `waitLoop` sits in `ParserPeekNextToken`/`peekAfterSign` (a stopped yield is an
error that ends the parse) or at the top level (the iterator returns); `waitLoop onStop k` is one
of the five inline wait loops: when its yield is stopped the enclosing function returns, and the
program goes on with `onStop`. -/
inductive SProg (α : Type) where
  | pure (a : α)
  | fail
  | waitPeek (extra : Nat) (k : Token → SProg α)
  | waitLoop (onStop : SProg α) (k : Token → SProg α)
  | signPeek (k : Token → SProg α)
  | peekAt (i : Nat) (k : Token → SProg α)
  | getTok (k : Token → SProg α)
  | topGet (k : Option Token → SProg α)
  | pushTok (t : Token) (k : SProg α)
  | pushExpr (e : Sexp) (k : SProg α)

def SProg.bind {α β : Type} : SProg α → (α → SProg β) → SProg β
  | .pure a, f => f a
  | .fail, _ => .fail
  | .waitPeek n k, f => .waitPeek n (fun t => (k t).bind f)
  | .waitLoop on k, f => .waitLoop (on.bind f) (fun t => (k t).bind f)
  | .signPeek k, f => .signPeek (fun t => (k t).bind f)
  | .peekAt n k, f => .peekAt n (fun t => (k t).bind f)
  | .getTok k, f => .getTok (fun t => (k t).bind f)
  | .topGet k, f => .topGet (fun t => (k t).bind f)
  | .pushTok t k, f => .pushTok t (k.bind f)
  | .pushExpr e k, f => .pushExpr e (k.bind f)

instance : Monad SProg where
  pure := .pure
  bind := SProg.bind

/-- forget the annotation: an inline wait loop waits exactly like `ParserPeekNextToken(0)` -/
def SProg.erase {α : Type} : SProg α → Prog α
  | .pure a => .pure a
  | .fail => .fail
  | .waitPeek n k => .waitPeek n (fun t => (k t).erase)
  | .waitLoop _ k => .waitPeek 0 (fun t => (k t).erase)
  | .signPeek k => .signPeek (fun t => (k t).erase)
  | .peekAt n k => .peekAt n (fun t => (k t).erase)
  | .getTok k => .getTok (fun t => (k t).erase)
  | .topGet k => .topGet (fun t => (k t).erase)
  | .pushTok t k => .pushTok t k.erase
  | .pushExpr e k => .pushExpr e k.erase

namespace S

def waitPeek (extra : Nat) : SProg Token := .waitPeek extra .pure
def signPeek : SProg Token := .signPeek .pure
def topGet : SProg (Option Token) := .topGet .pure
def pushTok (t : Token) : SProg Unit := .pushTok t (.pure ())
def pushExpr (e : Sexp) : SProg Unit := .pushExpr e (.pure ())
def fail {α : Type} : SProg α := .fail
def popTok : SProg Unit := .getTok (fun _ => .pure ())
def tokAt (i : Nat) : SProg Token := .peekAt i .pure

/-- an inline wait loop (`for { tok = lexer.PeekNextToken(0); if tok.typ != TokenEnd {break};
ok := parser.yield(…); if !ok { return SexpEnd, nil } }`): the value the enclosing function
returns when the yield is stopped is `SexpEnd` at all five sites -/
def loopPeek (k : Token → SProg Sexp) : SProg Sexp := .waitLoop (.pure .endS) k

/-! The recursive descent of `Model/Parser`, statement by statement, with the five inline wait
loops marked (`loopPeek`); everything else is `ParserPeekNextToken` (`waitPeek`, `tokAt`,
`signPeek`). `Proofs/Abandon.erase_topLoop`: erasing the marks gives `Model/Parser.topLoop`. -/
mutual

def parseExprTok : Nat → Token → SProg Sexp
  | 0, _ => fail
  | fuel + 1, tok =>
    match tok.typ with
    | .lparen => parseList fuel .rparen
    | .lsquare => parseArray fuel []
    | .lcurly => do
      let tok2 ← waitPeek 0
      let r ← skipComments fuel tok2 1
      let tok2 := r.1
      let extra := r.2
      let asHash : SProg Sexp := do
        pushTok hashTok
        parseList fuel .rcurly
      match tok2.typ with
      | .symbolColon => do
        let second ← tokAt extra
        if second.typ == .symbol && second.str == "for".toList then parseInfix fuel [] else asHash
      | .rcurly => do
        popTok
        pure .emptyHash
      | .string => do
        let second ← tokAt extra
        if second.typ == .colonOperator then asHash else parseInfix fuel []
      | .beginBacktickString => do
        let third ← tokAt (extra + 1)
        let second ← tokAt extra
        if second.typ == .backtickString && third.typ == .colonOperator then asHash else parseInfix fuel []
      | _ => parseInfix fuel []
    | .quote => do let e ← parseExprNested fuel; pure (Sexp.mkList [sym "quote", e])
    | .caret => do let e ← parseExprNested fuel; pure (Sexp.mkList [sym "syntaxQuote", e])
    | .tilde => do let e ← parseExprNested fuel; pure (Sexp.mkList [sym "unquote", e])
    | .tildeAt => do let e ← parseExprNested fuel; pure (Sexp.mkList [sym "unquote-splicing", e])
    | .beginBacktickString => parseBacktick fuel
    | .beginBlockComment => parseBlockComment fuel tok.str
    | .symbol =>
      if tok.str == ['-'] || tok.str == ['+'] then do
        let tok2 ← signPeek
        if tok2.typ == .float && (tok2.str == "Inf".toList || tok2.str == "inf".toList) then do
          popTok
          match NumLit.parseFloat (tok.str ++ "Inf".toList) with
          | some b => pure (.float b false)
          | none => fail
        else pure (.sym tok.str false false)
      else pure (.sym tok.str false false)
    | _ =>
      match atomOfTok tok with
      | some (some e) => pure e
      | some none => fail
      | none => fail

def skipComments : Nat → Token → Nat → SProg (Token × Nat)
  | 0, _, _ => fail
  | fuel + 1, tok2, extra =>
    if tok2.typ == .beginBlockComment || tok2.typ == .comment then do
      let r ← (if tok2.typ == .beginBlockComment then do
                  let t ← tokAt (extra + 2)
                  pure (t, extra + 3)
                else pure (tok2, extra) : SProg (Token × Nat))
      let r2 ← (if r.1.typ == .comment then do
                  let t ← tokAt r.2
                  pure (t, r.2 + 1)
                else pure r : SProg (Token × Nat))
      skipComments fuel r2.1 r2.2
    else pure (tok2, extra)

def parseExprNested : Nat → SProg Sexp
  | 0 => fail
  | fuel + 1 => do
    let tok ← waitPeek 0
    popTok
    parseExprTok fuel tok

/-- `ParseList`: the `tokFilled` loop is inline, the look-aheads after the head are
`ParserPeekNextToken` -/
def parseList : Nat → TokType → SProg Sexp
  | 0, _ => fail
  | fuel + 1, endTyp => loopPeek fun tok =>
    if tok.typ == endTyp then do
      popTok
      pure .null
    else do
      let head ← parseExprNested fuel
      let tok ← waitPeek 0
      if tok.typ == .backslash then do
        popTok
        let tail ← parseExprNested fuel
        let close ← waitPeek 0
        popTok
        if close.typ != .rparen then fail else pure (.pair head tail)
      else do
        let tail ← parseList fuel endTyp
        pure (.pair head tail)

/-- `ParseArray`: the `getTok` loop is inline -/
def parseArray : Nat → List Sexp → SProg Sexp
  | 0, _ => fail
  | fuel + 1, acc => loopPeek fun tok =>
    if tok.typ == .comma then do
      popTok
      parseArray fuel acc
    else if tok.typ == .rsquare then do
      popTok
      pure (.array acc.reverse false)
    else do
      let e ← parseExprNested fuel
      parseArray fuel (e :: acc)

/-- `ParseInfix`: the `getTok` loop is inline -/
def parseInfix : Nat → List Sexp → SProg Sexp
  | 0, _ => fail
  | fuel + 1, acc => loopPeek fun tok =>
    if tok.typ == .rcurly then do
      popTok
      if acc.isEmpty then pure (.pair (sym "infix") .null)
      else pure (.pair (sym "infix") (.pair (.array acc.reverse true) .null))
    else do
      let e ← parseExprNested fuel
      parseInfix fuel (e :: acc)

/-- `ParseBlockComment`: inline loop -/
def parseBlockComment : Nat → List Char → SProg Sexp
  | 0, _ => fail
  | fuel + 1, acc => loopPeek fun tok => do
    popTok
    if tok.typ == .endBlockComment then pure (.comment (acc ++ tok.str) true)
    else if tok.typ == .comment then parseBlockComment fuel (acc ++ tok.str)
    else fail

/-- `ParseBacktickString`: inline loop -/
def parseBacktick : Nat → SProg Sexp
  | 0 => fail
  | fuel + 1 => loopPeek fun tok => do
    popTok
    if tok.typ == .backtickString then pure (.str tok.str true) else fail

end

/-- The `ParsingIter` loop. -/
def topLoop : Nat → SProg Unit
  | 0 => fail
  | fuel + 1 => do
    let t ← topGet
    match t with
    | none => pure ()
    | some tok => do
      let e ← parseExprTok fuel tok
      pushExpr e
      topLoop fuel

end S

/-! ## The suspended coroutine -/

/-- The rest of the program when `run p.erase s` stops with `more`: the coroutine is blocked in
the `yield` of the waiting instruction at the head of the result; resuming it re-executes that
instruction (the Go loops go back to `PeekNextToken` after a `yield` that returned true). `s`
has no further pieces (`s.fut = []`): the state at a `ParseTokens` call. -/
def residual {α : Type} : SProg α → PState → Option (SProg α)
  | .pure _, _ => none
  | .fail, _ => none
  | .waitPeek n k, s =>
    (match peekWaitRun false n (s.size + 1) s with
     | .tok t s' => residual (k t) s'
     | .stop .more _ => some (.waitPeek n k)
     | .stop _ _ => none)
  | .waitLoop on k, s =>
    (match peekWaitRun false 0 (s.size + 1) s with
     | .tok t s' => residual (k t) s'
     | .stop .more _ => some (.waitLoop on k)
     | .stop _ _ => none)
  | .signPeek k, s =>
    (match peekWaitRun true 0 (s.size + 1) s with
     | .tok t s' => residual (k t) s'
     | .stop .more _ => some (.signPeek k)
     | .stop _ _ => none)
  | .topGet k, s =>
    (match topGetRun (s.size + 1) s with
     | .tok t s' => residual (k (some t)) s'
     | .finished .done s' => residual (k none) s'
     | .finished .more _ => some (.topGet k)
     | .finished .err _ => none)
  | .peekAt i k, s =>
    (match peekWaitRun false i (s.size + 1) s with
     | .tok _ s' =>
       (match s'.lex.tokens[i]? with
        | some t => residual (k t) s'
        | none => none)
     | .stop .more _ => some (.peekAt i k)
     | .stop _ _ => none)
  | .getTok k, s =>
    (match peekWaitRun false 0 (s.size + 1) s with
     | .tok t s' => residual (k t) { s' with lex := { s'.lex with tokens := s'.lex.tokens.tail } }
     | .stop .more _ => some (.getTok k)
     | .stop _ _ => none)
  | .pushTok t k, s => residual k { s with lex := { s.lex with tokens := t :: s.lex.tokens } }
  | .pushExpr e k, s => residual k { s with exprs := s.exprs ++ [e] }

def _root_.ZygoVerif.Sexp.isEndS : Sexp → Bool
  | .endS => true
  | _ => false

/-- A program running while every `yield` answers false (the coroutine after `stop()`): it goes
on reading what the lexer can deliver; where it would have to wait it ends (`ParserPeekNextToken`,
`peekAfterSign`: error `ParserHaltRequested`; top level: the iterator returns) or — in an inline
wait loop — lets the enclosing function return and goes on with `onStop`. Result: the state it
leaves behind (lexer, reply accumulator). -/
def unwind {α : Type} : SProg α → PState → PState
  | .pure _, s => s
  | .fail, s => s
  | .waitPeek n k, s =>
    (match peekWaitRun false n (s.size + 1) s with
     | .tok t s' => unwind (k t) s'
     | .stop _ s' => s')
  | .waitLoop on k, s =>
    (match peekWaitRun false 0 (s.size + 1) s with
     | .tok t s' => unwind (k t) s'
     | .stop .more s' => unwind on s'
     | .stop _ s' => s')
  | .signPeek k, s =>
    (match peekWaitRun true 0 (s.size + 1) s with
     | .tok t s' => unwind (k t) s'
     | .stop _ s' => s')
  | .topGet k, s =>
    (match topGetRun (s.size + 1) s with
     | .tok t s' => unwind (k (some t)) s'
     | .finished _ s' => s')
  | .peekAt i k, s =>
    (match peekWaitRun false i (s.size + 1) s with
     | .tok _ s' =>
       (match s'.lex.tokens[i]? with
        | some t => unwind (k t) s'
        | none => s')
     | .stop _ s' => s')
  | .getTok k, s =>
    (match peekWaitRun false 0 (s.size + 1) s with
     | .tok t s' => unwind (k t) { s' with lex := { s'.lex with tokens := s'.lex.tokens.tail } }
     | .stop _ s' => s')
  | .pushTok t k, s => unwind k { s with lex := { s.lex with tokens := t :: s.lex.tokens } }
  | .pushExpr e k, s =>
    -- `pushExpr` is the `p.sendMe.Expr = append(p.sendMe.Expr, expr)` of `ParsingIter`; the line
    -- before it is `if err != nil || expr == SexpEnd { …; yield(p.sendMe); return }`. While a
    -- parse runs normally no expression is `SexpEnd` (`topGet` answers `none` at the end of the
    -- input); in a stopped parse it is what the outermost wait loop returned: the iterator ends.
    if e.isEndS then s else unwind k { s with exprs := s.exprs ++ [e] }

/-- `stop()` on a coroutine blocked in the `yield` of the instruction at the head of `κ`: that
yield returns false (no new look at the lexer), then the program unwinds. -/
def stopNow {α : Type} : SProg α → PState → PState
  | .waitLoop on _, s => unwind on s
  | _, s => s

/-! ## The parser, call by call -/

inductive Co where
  /-- blocked in the "more input needed" yield of the waiting instruction at the head of `κ` -/
  | waiting (κ : SProg Unit)
  /-- blocked in the last yield of `ParsingIter`, which reported an error: `ParseTokens` returns on
  a reply with an error without running the iterator to its end -/
  | finalYield

/-- `Parser`: the lexer, `sendMe.Expr`, and the coroutine held in `next`/`stop`. -/
structure PSt where
  lex : LexState := {}
  exprs : List Sexp := []
  co : Option Co := none

def PSt.fresh : PSt := {}

def PSt.pstate (p : PSt) : PState := { lex := p.lex, fut := [], exprs := p.exprs }

/-- `Parser.ParseTokens`. `F` is the fuel a new `ParsingIter` gets (the Go code has none; the
driver passes more than the text can use). Result: status, the returned expressions, new state. -/
def PSt.parseTokens (F : Nat) (p : PSt) : Status × List Sexp × PSt :=
  match p.co with
  | some .finalYield =>
    -- the iterator ends; `next()` answers (nil, false): no reply, no error, no expressions
    (.done, [], { p with co := none })
  | co =>
    let prog : SProg Unit := match co with
      | some (.waiting κ) => κ
      | _ => S.topLoop F
    match run prog.erase p.pstate with
    | (.ret _, s) => (.done, s.exprs, ⟨s.lex, s.exprs, none⟩)
    | (.stop .more, s) => (.more, s.exprs, ⟨s.lex, s.exprs, (residual prog p.pstate).map .waiting⟩)
    | (.stop st, s) => (st, s.exprs, ⟨s.lex, s.exprs, some .finalYield⟩)

/-- `Parser.NewInput` -/
def PSt.newInput (p : PSt) (piece : List Char) : PSt := { p with lex := p.lex.addNextStream piece }

/-- `Parser.EndInput` -/
def PSt.endInput (p : PSt) : PSt := { p with lex := p.lex.endInput }

/-- the `if p.stop != nil { p.stop(); p.stop = nil }` of `Stop`, `Reset`, `ResetAddNewInput`,
with `p.next = nil`: the suspended coroutine unwinds ON THE LEXER AS IT IS NOW -/
def PSt.stop (p : PSt) : PSt :=
  match p.co with
  | some (.waiting κ) =>
    let s := stopNow κ p.pstate
    ⟨s.lex, s.exprs, none⟩
  | _ => { p with co := none }

/-- `Parser.Reset`: `next = nil; stop(); sendMe = &ParserReply{}; yield = nil; lexer.Reset()` -/
def PSt.reset (p : PSt) : PSt :=
  let p1 := p.stop
  { lex := p1.lex.reset, exprs := [], co := none }

/-- `Parser.ResetAddNewInput(s)`: `next = nil; stop(); yield = nil; sendMe = &ParserReply{};
lexer.Reset(); lexer.AddNextStream(s)` -/
def PSt.resetAddNewInput (p : PSt) (piece : List Char) : PSt :=
  let p1 := p.stop
  { lex := (p1.lex.reset).addNextStream piece, exprs := [], co := none }

/-! ### the other order (a refactoring that resets the lexer first): for counterexamples -/

/-- `lexer.Reset(); lexer.AddNextStream(s); stop(); sendMe = &ParserReply{}` -/
def PSt.resetAddNewInputLexerFirst (p : PSt) (piece : List Char) : PSt :=
  let p1 : PSt := { p with lex := (p.lex.reset).addNextStream piece }
  let p2 := p1.stop
  { lex := p2.lex, exprs := [], co := none }

/-- `lexer.Reset(); stop(); sendMe = &ParserReply{}` -/
def PSt.resetLexerFirst (p : PSt) : PSt :=
  let p1 : PSt := { p with lex := p.lex.reset }
  let p2 := p1.stop
  { lex := p2.lex, exprs := [], co := none }

/-! ### the statements of `Reset` / `ResetAddNewInput` as a list of steps

The four things the two functions do that matter for the next text, in ANY order (the order of
the Go statements is regenerated into `Generated.ResetOrder`; `Props/C13` proves which orders
give the result of `PSt.reset` / `PSt.resetAddNewInput` and that the code's is one of them). -/

inductive Step where
  | stop          -- `if p.stop != nil { p.stop() }`: the suspended coroutine unwinds
  | clearReply    -- `p.sendMe = &ParserReply{}`
  | lexReset      -- `p.lexer.Reset()`
  | lexAdd        -- `p.lexer.AddNextStream(s)`
  deriving DecidableEq, Repr

/-- the name of a step in `Generated.ResetOrder` (other entries — `assign:next`, `assign:stop`,
`assign:yield` — do not touch what the next parse reads) -/
def stepOf : String → Option Step
  | "call:stop" => some .stop
  | "assign:sendMe" => some .clearReply
  | "call:lexer.Reset" => some .lexReset
  | "call:lexer.AddNextStream" => some .lexAdd
  | _ => none

def PSt.step (piece : List Char) (p : PSt) : Step → PSt
  | .stop => p.stop
  | .clearReply => { p with exprs := [] }
  | .lexReset => { p with lex := p.lex.reset }
  | .lexAdd => { p with lex := p.lex.addNextStream piece }

def PSt.exec (piece : List Char) (p : PSt) (l : List Step) : PSt := l.foldl (PSt.step piece) p

/-- the orders that respect the protocol: the coroutine is stopped before the lexer is touched and
before the reply accumulator is replaced (the unwinding coroutine reads the lexer and appends to
`sendMe.Expr`), and the lexer is reset before it gets the new stream -/
def resetOrders : List (List Step) :=
  [[.stop, .clearReply, .lexReset], [.stop, .lexReset, .clearReply]]

def resetAddOrders : List (List Step) :=
  [[.stop, .clearReply, .lexReset, .lexAdd], [.stop, .lexReset, .clearReply, .lexAdd],
   [.stop, .lexReset, .lexAdd, .clearReply]]

/-- the rule itself, on a list of steps -/
def Step.okOrder (l : List Step) : Bool :=
  let beforeStop := l.takeWhile (· != .stop)
  l.contains .stop && beforeStop.isEmpty &&
  !((l.takeWhile (· != .lexReset)).contains .lexAdd)

/-! ### routes and the delivery of a text -/

/-- the ways the public API offers to start a new text on a used parser -/
inductive Route where
  | resetAdd        -- ResetAddNewInput(text)
  | resetNew        -- Reset(); NewInput(text)
  | stopResetAdd    -- Stop(); ResetAddNewInput(text)
  | stopResetNew    -- Stop(); Reset(); NewInput(text)
  | stopNew         -- Stop(); NewInput(text): NOT a reset — the lexer keeps its state
  | resetAddLexerFirst   -- the other statement order (counterexamples only; the generator never emits it)
  | resetNewLexerFirst
  deriving DecidableEq, Repr

def PSt.start (p : PSt) : Route → List Char → PSt
  | .resetAdd, c => p.resetAddNewInput c
  | .resetNew, c => (p.reset).newInput c
  | .stopResetAdd, c => (p.stop).resetAddNewInput c
  | .stopResetNew, c => ((p.stop).reset).newInput c
  | .stopNew, c => (p.stop).newInput c
  | .resetAddLexerFirst, c => p.resetAddNewInputLexerFirst c
  | .resetNewLexerFirst, c => (p.resetLexerFirst).newInput c

def Route.isReset : Route → Bool
  | .stopNew => false
  | _ => true

/-- pieces 2… of a text: `NewInput`, `ParseTokens` after each (an error ends the delivery), then
`EndInput` and a last `ParseTokens`. `tr` = statuses so far (reversed). -/
def PSt.deliverRest (F : Nat) (p : PSt) (tr : List Status) : List (List Char) → Result × PSt
  | [] =>
    let (st, ex, p') := (p.endInput).parseTokens F
    (⟨st, ex, tr.reverse⟩, p')
  | c :: rest =>
    let (st, ex, p') := (p.newInput c).parseTokens F
    if st == .err then (⟨st, ex, tr.reverse⟩, p') else p'.deliverRest F (st :: tr) rest

/-- A whole text on a used parser: piece 1 by the route, `ParseTokens`, the other pieces, the end
of the input. Same observation as `parseChunksFrom`: final status, final expressions, statuses of
the calls before the last. -/
def PSt.parseBy (F : Nat) (p : PSt) (r : Route) (cs : List (List Char)) : Result × PSt :=
  let (c, rest) := match cs with
    | [] => ([], [])
    | c :: rest => (c, rest)
  let (st, ex, p') := (p.start r c).parseTokens F
  if st == .err then (⟨st, ex, []⟩, p') else p'.deliverRest F [st] rest

end ZygoVerif.Parser
