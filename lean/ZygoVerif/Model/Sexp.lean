/-
The expression AST produced by the parser (zygo/expressions.go, the subset the parser can
build). Core-only, shared by C01/C06/C12/C13.

Representation decisions (documented for reuse):
* `int`   : `Int` (the parser only builds values that fit int64; range is checked where parsed)
* `uint`  : `Nat` (< 2^64)
* `float` : the IEEE-754 binary64 bit pattern as a `Nat` (< 2^64) plus the `Scientific`
            flag the parser sets when the literal contained `e`/`E`. NaN is any NaN pattern.
* `str`   : list of Unicode code points (`List Char`). Strings built by the lexer go
            through `WriteRune`, so they are always valid UTF-8; a byte view, where a
            consumer needs one, is `String.toUTF8 (String.ofList cs)`. `raw` = back-tick literal.
* `char`  : the rune value as a `Nat` (before repo fix C12-01 the parser took the FIRST BYTE
            of the decoded character, so `'é'` was 195; see `Model/LegacyReadPrint`).
* `sym`   : name as code points, plus the two flags the parser sets (`colonTail`, `isDot`);
            symbol numbers and sigil flags are functions of the name and are not kept.
* `hash`  : the parser only ever builds the EMPTY anonymous hash `{}`.
-/
namespace ZygoVerif

inductive Sexp where
  | int (v : Int)
  | uint (v : Nat)
  | float (bits : Nat) (scientific : Bool)
  | char (v : Nat)
  | str (s : List Char) (raw : Bool)
  | sym (name : List Char) (colonTail isDot : Bool)
  | bool (b : Bool)
  | comment (text : List Char) (block : Bool)
  | comma
  | semicolon
  | null
  | endS
  | pair (head tail : Sexp)
  | array (elems : List Sexp) (isInfix : Bool)
  | emptyHash
  deriving Inhabited

namespace Sexp

def mkSym (s : String) : Sexp := .sym s.toList false false

/-- `MakeList`: a proper list ending in `null`. -/
def mkList : List Sexp → Sexp
  | [] => .null
  | x :: xs => .pair x (mkList xs)

end Sexp
end ZygoVerif
