/-
Pre-repair arms of the record → Go walk (zygo/jsonmsgp.go before fixes C10-01, C10-02, C10-03),
kept only for the `…_counterexample` theorems of Props/C10.lean. The main model
(`Model/ToGo.lean`) follows the repaired code.
-/
import ZygoVerif.Model.ToGo
namespace ZygoVerif.LegacyToGo
open ZygoVerif.ToGo

/-- before C10-01: a value without an arm fell into `default:` (a message on stdout, then
`return target, nil`): the target keeps what it held. -/
def convUintLegacy (_x : Nat) (_T : Ty) (cur : GV) : M GV := .ok cur

/-- before C10-03: `reflect.Value.SetInt` truncates to the field's width; a float was cut to its
integer part. -/
def wrapInt (bits : Nat) (v : Int) : Int :=
  let m := v % (2 ^ bits : Int)
  if m ≥ (2 ^ (bits - 1) : Int) then m - (2 ^ bits : Int) else m

def convIntLegacy (v : Int) (k : IntK) : M GV := .ok (.int k (wrapInt k.bits v))

/-- before C10-02: on a cache hit the value found at the remembered target was assigned as it
was — an interface value when the record was first met at an interface-typed field. -/
def assignLegacy (w : World) (v : GV) (vt T : Ty) (firstSeenThroughIface : Option String) : M GV :=
  match firstSeenThroughIface with
  | some i => if T == .iface i then .ok (.iface (some v)) else .error .err   -- Set(iface value) into *T panics
  | none => assign w v vt T

/-- before C10-06: `MakeHash` → `SetMethodList` → `fillJsonMap` called `NumField` on the type of
EVERY anonymous field: an embedded pointer (or any embedded non-struct) panicked, so no record of
such a type could be made at all. -/
def anonOkLegacy (w : World) : Nat → List Field → Bool
  | 0, _ => true
  | n+1, fs => fs.all (fun f =>
      if f.anon then
        match f.ty with
        | .struct s => match w.find s with
          | some d => anonOkLegacy w n d.fields
          | none => true
        | _ => false
      else true)

/-- could the pre-fix code build the record `(tn …)` at all? -/
def constructibleLegacy (w : World) (tn : String) : Bool :=
  match w.lookupReg tn with
  | some d => anonOkLegacy w 8 d.fields
  | none => true

end ZygoVerif.LegacyToGo
