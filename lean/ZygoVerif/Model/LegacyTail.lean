/-
Pre-fix behaviour of the self tail call (before /repo fc05fc7), kept for the
`_counterexample` theorems of Props/C09.lean. Core-only.

Before the fix `GenerateCallBySymbol` emitted, after the operands,
`RemoveScope × gen.scopes ; PrepareCall ; Goto 1`: the function scope was kept and the jump
went past `AddFuncScope`, so the prologue re-bound the parameters in the scope of the
previous iteration. Today it emits `PrepareCall ; RemoveScope × (gen.scopes+1) ; Goto 0`.
-/
import ZygoVerif.Model.VM
namespace ZygoVerif.LegacyTail
open ZygoVerif.Core ZygoVerif.VM

/-- the tail sequence as it was emitted before fc05fc7 -/
def legacyTailSeq (x : String) (nargs k : Nat) : List Instr :=
  List.replicate k Instr.removeScope ++ [Instr.prepareCall x nargs, Instr.goto 1]

/-- Straight-line execution of a list of instructions with the model's `exec` (stops at the
first fault). Used on the jump-free stretch "tail sequence, then the first prologue
instructions": the `goto` is executed (it sets `pc`), what follows is what stands at its target. -/
def straight (fuel : Nat) : List Instr → St → Except Fault Unit × St
  | [], s => (.ok (), s)
  | i :: is, s =>
    match (exec fuel i).run s with
    | (.ok _, s1) => straight fuel is s1
    | r => r

/-- no fault -/
def succeeded (r : Except Fault Unit × St) : Bool :=
  match r.1 with
  | .ok _ => true
  | .error _ => false

/-- A state in the body of `(defn f [n] … (f (- n 1)))` during the iteration with `n = 3`, at
the tail sequence, the operand `2` already pushed. Scope 1 is the function scope of this
iteration; function object 3 is a closure created in this iteration: it captured scope 1. -/
def atTailCall : St :=
  { fns := [ { name := "__main", closing := [some 0] },
             { name := "builtin", user := true },
             { name := "f", nargs := 1, params := ["n"], closing := [some 0],
               code := [.addFuncScope 2, .popStackPutEnv "n", .tailGuard "f" 5, .envToStack "n", .prepareCall "f" 1, .removeScope, .goto 0,
                        .callExpr (.sym "f") [.sym "n"], .removeScope, .ret] },
             { name := "__anon3", closing := [some 1, some 0], parent := some 2, code := [.addFuncScope 3, .envToStack "n", .removeScope, .ret] } ],
    scopes := [ { vars := [("f", .fn 2)] },
                { vars := [("n", intOfLit 3)], isFunction := true, myFunction := some 2 } ],
    linear := [some 1, some 0],
    data := [some (intOfLit 2)],
    addr := [some (0, 5)],
    curfunc := 2, pc := 4 }

/-- what the closure made in the iteration `n = 3` sees for `n` in state `s`: the binding in
the scope it captured (scope 1) -/
def capturedN (s : St) : Option Val := (scopeOf s 1).vars.lookup "n"

end ZygoVerif.LegacyTail
