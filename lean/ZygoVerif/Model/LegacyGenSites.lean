/-
Pre-repair prologues of the generator (C01), kept for `…_counterexample` theorems. Core-only.
-/
import ZygoVerif.Model.GenSites
namespace ZygoVerif.GenSites.Legacy
open ZygoVerif.GenSites

/-- `GenerateShortCircuit` before fix cc83369: `args[size-1]` without the `size == 0` guard. -/
def genShortCircuit (sub : Arg → P Unit) (args : List Arg) : P Unit := do
  let last ← idx args ((args.length : Int) - 1)
  sub last
  scArms sub args (args.length - 1)

/-- what `BindlistInstr` does with the targets `GenerateMultiDef` collected: a nil symbol
(the slot a non-quoted list target left empty) is dereferenced. -/
def bindTargets : List (Option String) → P Unit
  | [] => pure ()
  | none :: _ => throw .panic
  | some _ :: rest => bindTargets rest

/-- `GenerateMultiDef` before fix C01-04: a list target that is not `(quote sym)` is
accepted and leaves its slot nil. -/
def mdefTargets (args : List Arg) : Nat → Nat → P (List (Option String))
  | 0, _ => pure []
  | k + 1, i => do
    let a ← idx args (i : Int)
    let rest ← mdefTargets args k (i + 1)
    match a with
    | .sym x => pure (some x :: rest)
    | .pair true => pure (some "quoted" :: rest)
    | .pair false => pure (none :: rest)
    | _ => err

def genMultiDefAndRun (sub : Arg → P Unit) (args : List Arg) : P Unit := do
  failIf ((args.length : Int) < 2)
  let syms ← mdefTargets args (args.length - 1) 0
  let last ← idx args ((args.length : Int) - 1)
  sub last
  bindTargets syms

/-- A re-ordering of the `*SexpPair` case that tests for an assignment BEFORE testing for a
proper list (not a past state of the repository: the shape of a plausible refactoring, kept
to show what the guard order protects against). -/
def genPairAssignFirst (sub : Arg → P Unit) (p : PairShape) : P Unit :=
  match p.assignPos with
  | some pos =>
    if pos > 0 ∧ p.lhsOk then genAssignment sub p pos
    else if p.proper then sub .other else pure ()
  | none => if p.proper then sub .other else pure ()

end ZygoVerif.GenSites.Legacy
