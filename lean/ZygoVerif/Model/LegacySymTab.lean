/-
Pre-repair `GenSymbol` (property C19), kept only for the `…_counterexample` theorems of
Props/C19.lean. Same role as Model/Legacy.lean; a separate file so that engineers working
on other properties do not collide in one file.
-/
import ZygoVerif.Model.SymTab
namespace ZygoVerif.SymTab.Legacy
open ZygoVerif.SymTab

/-- `GenSymbol` before the fix (C19): `return env.MakeSymbol(prefix + strconv.Itoa(env.nextsymbol))`
— when that name is already in the table the existing symbol comes back and the counter
does not move. -/
def genSymbol (t : Tables) (c : Nat) (pre : Name) : Res :=
  makeSymbol t c (genName pre c)

/-- `step` with the pre-fix `GenSymbol`. -/
def step (F : Family) : Op → Family × Obs
  | .gen i pre =>
    match F.mem[i]? with
    | some m => applyRes F i (genSymbol F.tab m.ctr pre)
    | none => (F, .bad)
  | op => SymTab.step F op

def run (F : Family) : List Op → Family × List Obs
  | [] => (F, [])
  | op :: rest =>
    let (F1, o) := step F op
    let (F2, os) := run F1 rest
    (F2, o :: os)

end ZygoVerif.SymTab.Legacy

