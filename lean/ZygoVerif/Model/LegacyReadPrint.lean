/-
Pre-repair definitions of the reader and the printer (repo a529e3c, before fixes/C12-01…04),
kept for the `…_counterexample` theorems of Props/C12.
-/
import ZygoVerif.Model.Lexer
import ZygoVerif.Model.Parser
import ZygoVerif.Model.PrintData
namespace ZygoVerif.Legacy.ReadPrint
open ZygoVerif ZygoVerif.Lexer ZygoVerif.PrintData

/-- `EscapeChar` before C12-02: `n r a t \ " ' #` only; no `\b \f \v`, no hex escapes. -/
def escapeChar (c : Char) : Option Char :=
  if c == 'n' then some '\n'
  else if c == 'r' then some '\r'
  else if c == 'a' then some '\x07'
  else if c == 't' then some '\t'
  else if c == '\\' then some '\\'
  else if c == '"' then some '"'
  else if c == '\'' then some '\''
  else if c == '#' then some '#'
  else none

/-- the `TokenChar` case before C12-01: `rune(tok.str[0])`, the first BYTE of the character -/
def charOfTok (tok : Token) : Nat :=
  match tok.str with
  | c :: _ => Parser.firstByte c
  | [] => 0

/-- `SexpFloat.SexpString` before C12-03 -/
def printFloat (ff : FloatFmt) (bits : Nat) (sci : Bool) : List Char := ff bits sci

/-- a string key of a hash before C12-04: the raw bytes between two quotes -/
def printStrKey (s : List Char) : List Char := '"' :: s ++ ['"']

end ZygoVerif.Legacy.ReadPrint
