/-
C20 — model of the Go map walks whose result could depend on iteration order.

A Go map is modelled as an association list with pairwise distinct keys; **the order of
the list is the iteration order**, which Go randomises. Every modelled walk therefore
takes the map as a list and the theorems of Props/C20.lean say that the result is the same
for every permutation of that list. `m[k]` (a lookup, not a walk) is `lookup`.

Each function follows the Go code named in its doc comment (after the proposed fixes
fixes/C20-*.patch). The pre-fix walks live in Model/Legacy.lean. Core Lean only.
-/
namespace ZygoVerif.MapWalk

/-- `m[k]` on a Go map given as an association list (first hit; keys are distinct). -/
def lookup {K V} [DecidableEq K] (k : K) : List (K × V) → Option V
  | [] => none
  | (k', v) :: rest => if k' = k then some v else lookup k rest

/-! ### sort-after-collect: `makeSortedSlicesFromMap`, `sortedKeys` (fix 02), `Scope.Show`,
`liner.go init` -/

/-- Insertion into a list sorted by key (what `sort.Sort` on distinct keys amounts to). -/
def insertByKey {K V} (lt : K → K → Bool) (p : K × V) : List (K × V) → List (K × V)
  | [] => [p]
  | q :: rest => if lt p.1 q.1 then p :: q :: rest else q :: insertByKey lt p rest

/-- `so = append(so, {k, i})` for every entry in iteration order, then `sort.Sort(so)`. -/
def collectSort {K V} (lt : K → K → Bool) (walk : List (K × V)) : List (K × V) :=
  walk.foldr (insertByKey lt) []

/-- `makeSortedSlicesFromMap(m)`: the two parallel slices, keys increasing. -/
def makeSortedSlicesFromMap {V} (m : List (String × V)) : List String × List V :=
  let so := collectSort (fun a b => decide (a < b)) m
  (so.map (·.1), so.map (·.2))

/-- `sortedKeys(m)` (gotypereg.go, introduced by fix 02). -/
def sortedKeys {V} (m : List (String × V)) : List String :=
  (collectSort (fun a b => decide (a < b)) m).map (·.1)

/-- `Scope.Show`: one line per binding, sorted by symbol name. `name` is
`env.revsymtable[n]`, `render` is `val.SexpString(ps)` — both taken as pure functions of
the entry (that is the stated assumption for this walk: see notes/C20.md). -/
def scopeShow {V} (name : Nat → String) (render : V → String) (scope : List (Nat × V)) : String :=
  let lines := collectSort (fun a b => decide (a < b)) (scope.map fun (n, v) => (name n, render v))
  String.join (lines.map fun (k, v) => "     " ++ k ++ " -> " ++ v ++ "\n")

/-! ### map copy: `SexpHash.CopyMap`, `CloneFrom` (JsonTagMap, ZMethods), `Scope.CloneScope`,
`MergeFuncMap`, the `m[key] = val` walks of `SexpToGo`/`SexpToGoStructs` -/

/-- `dst[k] = v` for every entry in iteration order: the destination as a lookup function
(a Go map has no other observable content). Later writes win. -/
def copyInto {K V} [DecidableEq K] (dst : K → Option V) : List (K × V) → (K → Option V)
  | [] => dst
  | (k, v) :: rest => copyInto (fun k' => if k' = k then some v else dst k') rest

/-- `CopyMap` / `CloneScope`: copy into a fresh map. -/
def copyMap {K V} [DecidableEq K] (src : List (K × V)) : K → Option V :=
  copyInto (fun _ => none) src

/-! ### counting: `HashCountKeys`, `HashIsEmpty` -/

/-- `for _, arr := range hash.Map { num += len(arr) }`. -/
def hashCountKeys {P} (buckets : List (Nat × List P)) : Nat :=
  buckets.foldl (fun num b => num + b.2.length) 0

/-- `for _, arr := range hash.Map { if len(arr) > 0 { return false } }; return true`. -/
def hashIsEmpty {P} : List (Nat × List P) → Bool
  | [] => true
  | (_, arr) :: rest => if arr.length > 0 then false else hashIsEmpty rest

/-- `fillHashByKind`, arm `reflect.Struct` (a struct held by value, added by fix C10-04):
`for _, factory := range GoStructRegistry.Registry { if factory.hasShadowStruct &&
factory.TypeCache == p.Type() { return fillHashHelper(p.Interface(), …) } }; return SexpNull`.
The value returned on a hit (`onHit`) does not mention the loop variable: it is the same
whichever registration matched. `hasShadow`/`typeCache` abstract the two fields read. -/
def structByValueScan {R} (registry : List (String × (Bool × Nat))) (goType : Nat) (onHit miss : R) : R :=
  match registry with
  | [] => miss
  | (_, (hasShadow, typeCache)) :: rest =>
    if hasShadow && typeCache == goType then onHit else structByValueScan rest goType onHit miss

/-! ### the type-registry scan of `fillHashHelper` / `CallGoMethodFunction` (after fix 01) -/

/-- What the scan needs of a `*RegisteredType`: the Go type its factory produces and its
`RegisteredName`. -/
structure RegType where
  goType : Nat
  registeredName : String
  deriving DecidableEq, Repr

/-- fix 01: `for _, hashName := range ListRegisteredTypes { factory := Registry[hashName];
if factory == nil { continue }; if typeOf(factory.Factory()) == typeOf(r) { … hashName … } }`.
`order` is the registration-ordered slice `ListRegisteredTypes`; the registry map is only
*looked up*. Returns the `hashName` that names the record (fillHashHelper). -/
def fillHashTypeName (order : List String) (registry : List (String × RegType)) (goType : Nat) : Option String :=
  match order with
  | [] => none
  | name :: rest =>
    match lookup name registry with
    | some rt => if rt.goType = goType then some name else fillHashTypeName rest registry goType
    | none => fillHashTypeName rest registry goType

/-- The same scan in `CallGoMethodFunction`, which names the record `factory.RegisteredName`. -/
def callGoTypeName (order : List String) (registry : List (String × RegType)) (goType : Nat) : Option String :=
  match order with
  | [] => none
  | name :: rest =>
    match lookup name registry with
    | some rt => if rt.goType = goType then some rt.registeredName else callGoTypeName rest registry goType
    | none => callGoTypeName rest registry goType

/-! ### symbol interning at interpreter start (`NewZlispWithFuncs`, `ImportBaseTypes`, `EnvAvail`
after fix 02) -/

/-- `MakeSymbol` on a symbol table given as the list of names in numbering order
(number = position + 1): an existing name keeps its number. -/
def intern (table : List String) (name : String) : List String :=
  if name ∈ table then table else table ++ [name]

/-- fix 02: `for _, key := range sortedKeys(funcs) { env.MakeSymbol(key) … }`. The resulting
numbering is what `symnum`, symbol comparison and `gensym` names expose. -/
def internBuiltins {V} (table : List String) (funcs : List (String × V)) : List String :=
  (sortedKeys funcs).foldl intern table

/-! ### effect classes of a loop body (what `Generated.MapRanges.Effect` / `Shape` stand for)

A walk is `order.foldl step s`: the per-element effect `step` folded over the iteration
order. It is order-free exactly when the effects of any two elements commute
(`Props.C20.perm_invariant_of_commute`). The bodies below are the NON-commuting classes; each
has a `…_order_dependent` theorem in Props/C20.lean, which is why the inventory refuses them. -/

/-- The general shape of a range-over-map loop. -/
def walk {S E} (step : S → E → S) (s : S) (order : List E) : S := order.foldl step s

/-- Body interns the key: `for k := range m { env.MakeSymbol(k) }` — symbols are numbered in
iteration order. -/
def internWalk {V} (table : List String) (m : List (String × V)) : List String :=
  walk (fun t p => intern t p.1) table m

/-- `symnum`: the number of a symbol = position in the table + 1 (0 = not interned). -/
def symnum (table : List String) (name : String) : Nat :=
  match table.idxOf? name with
  | some i => i + 1
  | none => 0

/-- Body appends to a slice that nobody sorts afterwards (`ks = append(ks, k)`; also a
`KeyOrder` / registry list held in a struct field). -/
def collectUnsorted {K V} (m : List (K × V)) : List K :=
  walk (fun acc p => acc ++ [p.1]) [] m

/-- Body returns the loop variable on the first hit. -/
def firstKey {K V} (m : List (K × V)) : Option K :=
  match m with
  | [] => none
  | (k, _) :: _ => some k

/-- Body prints. -/
def emitWalk {V} (m : List (String × V)) : String :=
  walk (fun out p => out ++ p.1 ++ ";") "" m

/-! ### the JSON/msgpack decoder (`decodeGoToSexpHelper`, case `map[string]interface{}`)

`sortedMapKey, sortedMapVal := makeSortedSlicesFromMap(val)`, then one pass over the SORTED
slices: member `zKeyOrder` → its value is decoded with `preferSym = true` (every string in it
is interned, in array order); member `Atype` → nothing interned; any other member → the name is
interned, then its value is decoded (which interns whatever the nested value holds).
`namesIn v` / `symsIn v` abstract what decoding a member VALUE interns, in order (a function
of the value: the nested decode is this same function one level down). -/

/-- The symbol table after decoding one JSON object whose members arrive in `m`'s order. -/
def decodeIntern {V} (namesIn symsIn : V → List String) (table : List String) (m : List (String × V)) : List String :=
  (collectSort (fun a b => decide (a < b)) m).foldl (fun t p =>
    if p.1 = "zKeyOrder" then (symsIn p.2).foldl intern t
    else if p.1 = "Atype" then t
    else (namesIn p.2).foldl intern (intern t p.1)) table

end ZygoVerif.MapWalk
