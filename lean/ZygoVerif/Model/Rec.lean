/-
Executable model of declared struct types and every route that writes a record field
(C17). Follows zygo/builders.go (StructBuilder), zygo/hashutils.go (MakeHash, HashSet,
TypeCheckField, nestedPathGetSet, SexpHashSelector.AssignToSelection), zygo/gotypereg.go
(registry, TypeCheckRecord), zygo/functions.go (hset, dotGetSetHelper, derefSet) and
zygo/jsonmsgp.go (decodeGoToSexpHelper) as they are AFTER the three proposed fixes
(fixes/C17-0{1,2,3}-*.patch). `Fix` switches each repaired behaviour back to the pinned
tree's, which is what the `_counterexample` theorems and the pre-fix correspondence use.

Scope (see notes/C17.md): struct names are `S<n>`, field names `f<k>`; record values are
heap cells (shared by reference as in Go); arrays are immutable values typed by their first
element (`SexpArray.Type()`); an instance is created either by a constructor / decoder under a
registered struct name (it then carries that definition for life — `GoStructFactory`) or as
an untyped `(hash …)`. Creating a hash under a name that is declared only later (msgmap /
decode of an unknown Atype, which TypeCheckField later "adopts") is outside the model.
-/
import ZygoVerif.Model.RecTypes
namespace ZygoVerif.Rec

/-- Which of the proposed repairs are applied. -/
structure Fix where
  /-- C17-01: a non-symbol key on a declared struct is an undeclared field (HashSet used to
  ignore `KeyNotSymbol`). -/
  keyFix : Bool
  /-- C17-02: a record value is typed by the definition it carries, not by looking its type
  *name* up in the registry (TypeCheckField, derefSet). -/
  typeFix : Bool
  /-- C17-03: the decoder no longer overwrites MakeHash's error with SetHashKeyOrder's. -/
  decodeFix : Bool
  deriving Repr

def fixed : Fix := ⟨true, true, true⟩
def legacy : Fix := ⟨false, false, false⟩

inductive Val where
  | nil | int (n : Int) | uint | float | bool | char | str (k : Nat) | sym
  | list                                   -- a value whose Type() is nil (list, function)
  | recd (id : Nat)                        -- *SexpHash, by reference
  | ptr (target : Option Nat) (pointee : TyName)   -- *SexpPointer
  | arr0                                   -- []
  | arr (first : Val) (rest : Nat)         -- [first restTable[rest]…]
  deriving Repr, Inhabited

inductive VExpr where
  | nil | int (n : Int) | uint | float | bool | char | str (k : Nat) | sym | list
  | var (slot : Nat) | addr (slot : Nat) | addrInt | fieldOf (slot f : Nat)
  | arr0 | arr (first : VExpr) (rest : Nat)
  deriving Repr, Inhabited

structure Inst where
  tname : TyName
  /-- generation of the definition carried (`GoStructFactory.UserStructDefn`); `none` for a plain hash -/
  defn : Option Nat
  fields : List (Key × Val)
  deriving Repr, Inhabited

abbrev Fields := List (Nat × Ty)

structure St where
  /-- struct name ↦ generation currently registered (first match wins) -/
  reg : List (Nat × Nat) := []
  /-- generation ↦ declared fields -/
  defs : List (Nat × Fields) := []
  heap : List Inst := []
  /-- variable slot ↦ heap id (first match wins) -/
  slots : List (Nat × Nat) := []
  deriving Repr, Inhabited

/-- The type of a record as a *value* (`definedType` after fix C17-02; `Registry[TypeName]` before). -/
def instTy (fx : Fix) (reg : List (Nat × Nat)) (i : Inst) : Ty :=
  match i.tname with
  | .struct n => if fx.typeFix then ⟨.struct n, i.defn.getD 0⟩ else ⟨.struct n, (reg.lookup n).getD 0⟩
  | t => ⟨t, 0⟩

/-- derefSet's test `tt == pt` on two records. After fix C17-02 both sides are the definitions the
records carry (`definedType`): equal exactly when struct name and definition agree (an untyped
hash never equals a struct instance). Before: `Registry[TypeName]` on both sides. -/
def sameType (fx : Fix) (reg : List (Nat × Nat)) (a b : Inst) : Bool :=
  if fx.typeFix then decide (a.tname = b.tname ∧ a.defn = b.defn) else instTy fx reg a == instTy fx reg b

/-- The language's `Type()`; `none` = nil type. -/
def typeOf (fx : Fix) (s : St) : Val → Option Ty
  | .nil => none
  | .list => none
  | .int _ => some ⟨.int64, 0⟩
  | .uint => some ⟨.uint64, 0⟩
  | .float => some ⟨.float64, 0⟩
  | .bool => some ⟨.bool, 0⟩
  | .char => some ⟨.int32, 0⟩
  | .str _ => some ⟨.string, 0⟩
  | .sym => some ⟨.symbol, 0⟩
  | .recd id => (s.heap[id]?).map (instTy fx s.reg)
  | .ptr _ p => some ⟨.ptr p, 0⟩
  | .arr0 => some ⟨.emptyArr, 0⟩
  | .arr f _ =>
    match typeOf fx s f with
    | none => none
    | some t =>
      -- slice-of an untyped hash: GetOrCreateSliceType panics (nil TypeCache); observed as "no type",
      -- and TypeCheckField then fails the same way as for a nil-typed first element
      if t.name = .hash then none else some ⟨.slice t.name, 0⟩

def Val.isNil : Val → Bool
  | .nil => true
  | _ => false

def Key.isSym : Key → Bool
  | .sym _ => true
  | _ => false

inductive Chk where
  | ok | err | panic
  deriving DecidableEq, Repr

/-- `SexpHash.TypeCheckField`. `panic`: the nil-pointer dereference on a non-empty array whose
first element has no type (recovered into an error by the builtin-call wrapper, but — unlike an
error — not swallowed by the pinned decoder). -/
def checkField3 (fx : Fix) (s : St) (i : Inst) (k : Key) (v : Val) : Chk :=
  match i.defn with
  | none => .ok                           -- no definition attached: nothing is checked
  | some g =>
    match s.defs.lookup g with
    | none => .err
    | some fs =>
      match k with
      | .sym f =>
        match fs.lookup f with
        | none => .err                    -- "has no field"
        | some dt =>
          match typeOf fx s v with
          | none =>
            match v with
            | .nil => .ok                 -- nil is accepted
            | .arr _ _ => .panic
            | _ => .err                   -- "has nil Type"
          | some ot => if ot == dt || (ot.name == .emptyArr && dt.name.isSliceName) then .ok else .err
      | _ => if fx.keyFix then .err else .ok   -- pinned tree: KeyNotSymbol is ignored by HashSet

/-- `true` = the write is allowed. -/
def checkField (fx : Fix) (s : St) (i : Inst) (k : Key) (v : Val) : Bool :=
  checkField3 fx s i k v == .ok

def setField (fs : List (Key × Val)) (k : Key) (v : Val) : List (Key × Val) :=
  match fs with
  | [] => [(k, v)]
  | (k', v') :: rest => if k' = k then (k, v) :: rest else (k', v') :: setField rest k v

/-- `SexpHash.HashSet` -/
def hashSet (fx : Fix) (s : St) (i : Inst) (k : Key) (v : Val) : Option Inst :=
  if checkField fx s i k v then some { i with fields := setField i.fields k v } else none

/-- The HashSet loop of `MakeHash`; on failure returns the partial hash and whether the failure
was a panic (`Sum.inl`). -/
def fillHash (fx : Fix) (s : St) (i : Inst) : List (Key × Val) → Sum (Inst × Bool) Inst
  | [] => .inr i
  | (k, v) :: rest =>
    match hashSet fx s i k v with
    | none => .inl (i, checkField3 fx s i k v == .panic)
    | some i' => fillHash fx s i' rest

/-- `MakeHash` for a registered struct (HashSet loop, then TypeCheckRecord, which in the
pinned tree is where a non-symbol key is refused) or a plain hash. -/
def makeHash (fx : Fix) (s : St) (tname : TyName) (defn : Option Nat) (pairs : List (Key × Val)) : Option Inst :=
  match fillHash fx s ⟨tname, defn, []⟩ pairs with
  | .inl _ => none
  | .inr i => if defn.isSome && i.fields.any (fun kv => !kv.1.isSym) then none else some i

def evalV (s : St) : VExpr → Option Val
  | .nil => some .nil
  | .int n => some (.int n)
  | .uint => some .uint
  | .float => some .float
  | .bool => some .bool
  | .char => some .char
  | .str k => some (.str k)
  | .sym => some .sym
  | .list => some .list
  | .var slot => (s.slots.lookup slot).map .recd
  | .addr slot => (s.slots.lookup slot).bind fun id => (s.heap[id]?).bind fun i =>
      -- `(& h)` of an untyped hash panics inside reflect.PtrTo (nil TypeCache): an error
      if i.tname = .hash then none else some (.ptr (some id) i.tname)
  | .addrInt => some (.ptr none .int64)
  | .fieldOf slot f => (s.slots.lookup slot).bind fun id => (s.heap[id]?).bind fun i => i.fields.lookup (.sym f)
  | .arr0 => some .arr0
  | .arr f r => (evalV s f).map (fun v => .arr v r)

def evalPairs (s : St) : List (Key × VExpr) → Option (List (Key × Val))
  | [] => some []
  | (k, e) :: rest =>
    match evalV s e, evalPairs s rest with
    | some v, some r => some ((k, v) :: r)
    | _, _ => none

def resolve (reg : List (Nat × Nat)) : TExpr → Option Ty
  | .base b => some ⟨b, 0⟩
  | .ref n => (reg.lookup n).map (fun g => ⟨.struct n, g⟩)
  | .unbound => none
  | .slice e => (resolve reg e).map (fun t => ⟨.slice t.name, 0⟩)
  | .ptr e => (resolve reg e).map (fun t => ⟨.ptr t.name, 0⟩)

def resolveFields (reg : List (Nat × Nat)) : List (Nat × TExpr) → Option Fields
  | [] => some []
  | (f, e) :: rest =>
    match resolve reg e, resolveFields reg rest with
    | some t, some r => some ((f, t) :: r)
    | _, _ => none

inductive Op where
  | decl (n : Nat) (fields : List (Nat × TExpr))
  | mk (slot n : Nat) (pairs : List (Key × VExpr))
  | mkHash (slot : Nat) (pairs : List (Key × VExpr))
  /-- one-field write; `route` (hset, hset through a dereferenced pointer, selector assignment,
  infix dot path, `set` on a dot symbol) only selects the concrete syntax in the harness: all
  of them end in `HashSet`. -/
  | write (route : Nat) (slot : Nat) (k : Key) (v : VExpr)
  | path (route : Nat) (slot : Nat) (p : List Nat) (v : VExpr)
  | derefSet (slot n : Nat) (pairs : List (Key × VExpr))
  | decode (fmt : Nat) (slot n : Nat) (order : Option (List Nat)) (pairs : List (Nat × VExpr))
  deriving Repr, Inhabited

def alloc (s : St) (slot : Nat) (i : Inst) : St :=
  { s with heap := s.heap ++ [i], slots := (slot, s.heap.length) :: s.slots }

/-- Walks `x.f1.….fn`: returns the heap id of the record that the last component is set in. -/
def walk (s : St) (id : Nat) : List Nat → Option Nat
  | [] => some id
  | f :: rest =>
    match s.heap[id]? with
    | none => none
    | some i =>
      match i.fields.lookup (.sym f) with
      | some (.recd id') => walk s id' rest
      | _ => none

def writeAt (fx : Fix) (s : St) (id : Nat) (k : Key) (v : Val) : Option St :=
  match s.heap[id]? with
  | none => none
  | some i =>
    match hashSet fx s i k v with
    | none => none
    | some i' => some { s with heap := s.heap.set id i' }

def insertSorted (p : Nat × Val) : List (Nat × Val) → List (Nat × Val)
  | [] => [p]
  | q :: rest => if p.1 ≤ q.1 then p :: q :: rest else q :: insertSorted p rest

def sortPairs : List (Nat × Val) → List (Nat × Val)
  | [] => []
  | p :: rest => insertSorted p (sortPairs rest)

def reorder (fs : List (Key × Val)) (order : List Nat) : List (Key × Val) :=
  order.filterMap (fun f => (fs.lookup (.sym f)).map (fun v => (Key.sym f, v)))

def evalJPairs (s : St) : List (Nat × VExpr) → Option (List (Nat × Val))
  | [] => some []
  | (k, e) :: rest =>
    match evalV s e, evalJPairs s rest with
    | some v, some r => some ((k, v) :: r)
    | _, _ => none

/-- One step of a history. `k` is the 1-based index of the step (generation numbering).
Returns the new state and whether the operation reported success. -/
def step (fx : Fix) (k : Nat) (s : St) : Op → St × Bool
  | .decl n fields =>
    let s1 : St := { s with reg := (n, placeholderGen k) :: s.reg, defs := (placeholderGen k, []) :: s.defs }
    match resolveFields s1.reg fields with
    | none => (s1, false)
    | some fs => ({ s1 with reg := (n, finalGen k) :: s1.reg, defs := (finalGen k, fs) :: s1.defs }, true)
  | .mk slot n pairs =>
    match evalPairs s pairs, s.reg.lookup n with
    | some vs, some g =>
      match makeHash fx s (.struct n) (some g) vs with
      | some i => (alloc s slot i, true)
      | none => (s, false)
    | _, _ => (s, false)
  | .mkHash slot pairs =>
    match evalPairs s pairs with
    | some vs =>
      match makeHash fx s .hash none vs with
      | some i => (alloc s slot i, true)
      | none => (s, false)
    | none => (s, false)
  | .write route slot key e =>
    match s.slots.lookup slot, evalV s e with
    | some id, some v =>
      -- route 1 is `(hset (* (& x)) k v)`: taking the address of an untyped hash fails
      if route = 1 && ((s.heap[id]?).map (·.tname)) = some .hash then (s, false) else
      match writeAt fx s id key v with
      | some s' => (s', true)
      | none => (s, false)
    | _, _ => (s, false)
  | .path _ slot p e =>
    match s.slots.lookup slot, evalV s e, p.getLast? with
    | some id, some v, some last =>
      match walk s id p.dropLast with
      | some id' =>
        match writeAt fx s id' (.sym last) v with
        | some s' => (s', true)
        | none => (s, false)
      | none => (s, false)
    | _, _, _ => (s, false)
  | .derefSet slot n pairs =>
    match s.slots.lookup slot, evalPairs s pairs, s.reg.lookup n with
    | some id, some vs, some g =>
      match s.heap[id]?, makeHash fx s (.struct n) (some g) vs with
      | some tgt, some payload =>
        if sameType fx s.reg tgt payload then
          ({ s with heap := s.heap.set id payload }, true)      -- CloneFrom
        else (s, false)
      | _, _ => (s, false)
    | _, _, _ => (s, false)
  | .decode _ slot n order pairs =>
    match evalJPairs s pairs, s.reg.lookup n with
    | some vs, some g =>
      let kvs := (sortPairs vs).map (fun p => (Key.sym p.1, p.2))
      match fillHash fx s ⟨.struct n, some g, []⟩ kvs, order with
      | .inr i, none => (alloc s slot i, true)
      | .inr i, some o => (alloc s slot { i with fields := reorder i.fields o }, true)
      | .inl _, none => (s, false)
      | .inl (i, panicked), some o =>
        -- pinned tree: SetHashKeyOrder's nil error replaces MakeHash's; the partial record is returned
        if fx.decodeFix || panicked then (s, false) else (alloc s slot { i with fields := reorder i.fields o }, true)
    | _, _ => (s, false)

/-- Runs a history from step number `k`; collects the state and the status after every step. -/
def run (fx : Fix) : Nat → St → List Op → List (St × Bool)
  | _, _, [] => []
  | k, s, op :: rest =>
    let r := step fx k s op
    r :: run fx (k + 1) r.1 rest

/-- The state reached after a history (steps are numbered from 1). -/
def exec (fx : Fix) : Nat → St → List Op → St
  | _, s, [] => s
  | k, s, op :: rest => exec fx (k + 1) (step fx k s op).1 rest

end ZygoVerif.Rec
