/-
Model of the encode / decode entry points of zygo/jsonmsgp.go as a transition system
(`Spec.JsonHistory.Machine`), for the histories of channel `json` (`hist` ops):

  JsonFunction("json") / ("msgpack"), SexpToMsgpack, GoToMsgpack, GoToJson     (encode)
  JsonFunction("unjson") / ("unmsgpack"), JsonToSexp, MsgpackToSexp             (decode)

The code that exists builds every result in storage of its own: `SexpToJson` returns a Go
string (immutable) that `JsonFunction` converts to a fresh `[]byte`; `GoToMsgpack` and
`GoToJson` write into a `bytes.Buffer` that is a LOCAL variable of the call and return its
`Bytes()`; the decoders allocate a new decoder, a new `interface{}` target and new
Sexp nodes per call; there is no package-level variable that any of them writes
(`msgpHelper` is written by `init()` only — tie T1: Generated/Globals.lean, C20's
`globals_writes_allowed`). So the state that outlives a call is modelled as an append-only
STORE with one immutable cell per encode result (`machine`): a handle is the index of
the cell.

`sharedBufMachine` is NOT a model of /repo: it is the shape of a seeded mutation (one
package-level output buffer that is `Reset()` and reused, the returned slice aliasing it),
kept to show that the history law of Spec/JsonHistory.lean distinguishes implementations
(`Props.C11.encode_results_stable_sharedbuf_counterexample`). Core Lean only.
-/
import ZygoVerif.Model.Json
import ZygoVerif.Spec.JsonHistory
namespace ZygoVerif.JsonHistory
open ZygoVerif.Print ZygoVerif.Rfc8259 ZygoVerif.Json

/-- the two codec instances of `msgpHelper`: the msgpack handle and the JSON handle -/
structure Codecs where
  mp : MsgpackCodec
  gj : MsgpackCodec

/-- bytes of `(json v)`, `(msgpack v)` / `SexpToMsgpack(v)`, `GoToJson(JsonToGo(SexpToJson(v)))`;
`none` = error or panic -/
def encBytes (c : Codecs) : Fmt → V → Option Bytes
  | .json, v => some (sexpToJson v)
  | .msgpack, v => msgpack c.mp v
  | .gojson, v => msgpack c.gj v

/-- `(unjson b)`, `(unmsgpack b)` / `MsgpackToSexp`, `JsonToSexp` of codec-written JSON -/
def decBytes (c : Codecs) (fp : FloatParse) : Fmt → Bytes → Option V
  | .json, b => unjson fp b
  | .msgpack, b => unmsgpack c.mp fp b
  | .gojson, b => unmsgpack c.gj fp b

/-- one immutable cell per encode result (`none`: that encode failed) -/
abbrev Store := List (Option Bytes)

/-- **the model**: an encode result is an immutable value in a store -/
def machine (c : Codecs) (fp : FloatParse) : Machine Store Bytes where
  init := []
  encode f v s := (s ++ [encBytes c f v], s.length)
  read s h := (s[h]?).bind id
  decode f b s := (s, decBytes c fp f b)
  same a b := a == b

/-- the model's answers for a history -/
def modelRun (c : Codecs) (fp : FloatParse) (vals : List V) (steps : List Step) : Option (List Out) :=
  run (machine c fp) vals steps

/-! ### the shape of the seeded mutation (not /repo) -/

/-- One output buffer for all encodes: `Reset()`, write, return `buf.Bytes()`. The state is
the buffer's backing array and the length of every slice handed out so far (all of them
start at offset 0 of that array). Reallocation on growth is not modelled: this is the case
where the capacity suffices. -/
def sharedBufMachine (c : Codecs) (fp : FloatParse) : Machine (Bytes × List Nat) Bytes where
  init := ([], [])
  encode f v s :=
    let new := (encBytes c f v).getD []
    ((new ++ s.1.drop new.length, s.2 ++ [new.length]), s.2.length)
  read s h := (s.2[h]?).map (fun n => s.1.take n)
  decode f b s := (s, decBytes c fp f b)
  same a b := a == b

end ZygoVerif.JsonHistory
