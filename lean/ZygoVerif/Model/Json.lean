/-
Model of zygo/jsonmsgp.go as it is after the proposed fixes C11-01 (JSON string quoting
for strings, symbols, hash keys and the type name), C11-02 (nil is `null`) and C11-03
(a float is always written with a fraction or an exponent):

  SexpToJson / jsonHashHelper / jsonArrayHelper / jsonQuote / jsonKey        (encode)
  JsonToSexp = JsonToGo ; GoToSexp (decodeGoToSexpHelper, makeSortedSlicesFromMap,
               MakeHash, SetHashKeyOrder)                                     (decode)

The ugorji codec is not modelled: `JsonToGo` is the RFC 8259 parser of Spec/Rfc8259.lean
followed by the codec's observable choices for `interface{}` targets (an integer literal
that fits int64 becomes int64, every other number float64; an object becomes a
map[string]interface{}, later walked in sorted key order; repeated member names are not
modelled). `strconv.ParseFloat` is a
parameter (`FloatParse`). The pre-fix encoder is in Model/LegacyJson.lean. Core Lean only.
-/
import ZygoVerif.Model.Print
import ZygoVerif.Spec.Rfc8259
namespace ZygoVerif.Json
open ZygoVerif.Quote hiding Bytes
open ZygoVerif.Print ZygoVerif.Rfc8259

/-! ### encode -/

/-- what `jsonQuote` appends for one byte -/
def jsonQuoteByte (c : Nat) : Bytes :=
  if c = 0x22 ∨ c = 0x5C then [0x5C, c]
  else if c = 0x0A then [0x5C, 0x6E]
  else if c = 0x0D then [0x5C, 0x72]
  else if c = 0x09 then [0x5C, 0x74]
  else if c < 0x20 then [0x5C, 0x75, 0x30, 0x30, lowerhex (c / 16), lowerhex c]
  else [c]

def jsonQuoteBody : Bytes → Bytes
  | [] => []
  | c :: r => jsonQuoteByte c ++ jsonQuoteBody r

/-- `jsonQuote(s)` -/
def jsonQuote (s : Bytes) : Bytes := 0x22 :: jsonQuoteBody s ++ [0x22]

/-- the text of a key as `jsonKey` takes it (before quoting) -/
def keyText : V → Bytes
  | .str s _ => s
  | .sym n => n
  | k => sexpString k

/-- `jsonFloat`: the 'g' text, with `.0` appended when it contains none of `. e I N` -/
def floatJson : FloatText → Bytes
  | .raw t =>
    if t.any (fun c => c = 0x2E || c = 0x65 || c = 0x49 || c = 0x4E) then t else t ++ [0x2E, 0x30]
  | .dec neg ip fp ex =>
    if fp.isEmpty && ex.isNone then floatText (.dec neg ip fp ex) ++ [0x2E, 0x30]
    else floatText (.dec neg ip fp ex)

def atype : Bytes := asciiBytes "Atype"
def zKeyOrder : Bytes := asciiBytes "zKeyOrder"

def jsonKeyListTail : List (V × V) → Bytes
  | [] => []
  | (k, _) :: r => [0x2C, 0x20] ++ jsonQuote (keyText k) ++ jsonKeyListTail r

/-- `"k1", "k2"` -/
def jsonKeyList : List (V × V) → Bytes
  | [] => []
  | (k, _) :: r => jsonQuote (keyText k) ++ jsonKeyListTail r

mutual
/-- `SexpToJson` -/
def sexpToJson : V → Bytes
  | .nil => asciiBytes "null"
  | .hash tn es =>
    -- jsonHashHelper
    asciiBytes "{\"Atype\":" ++ jsonQuote tn ++
      (if es.isEmpty then [0x7D]
       else jsonMembers es ++ asciiBytes ", \"zKeyOrder\":[" ++ jsonKeyList es ++ [0x5D, 0x7D])
  | .arr l =>
    -- jsonArrayHelper
    0x5B :: jsonElems l ++ [0x5D]
  | .sym n => jsonQuote n
  | .str s _ => jsonQuote s
  | .bool b => sexpString (.bool b)
  | .int n => sexpString (.int n)
  | .uint n => sexpString (.uint n)
  | .flt f => floatJson f.jtext
  | .char c => sexpString (.char c)
  | .list l => sexpString (.list l)
/-- `a, b, c` -/
def jsonElems : List V → Bytes
  | [] => []
  | a :: r => sexpToJson a ++ jsonElemsTail r
def jsonElemsTail : List V → Bytes
  | [] => []
  | a :: r => [0x2C, 0x20] ++ sexpToJson a ++ jsonElemsTail r
/-- `, "k":v` for every entry -/
def jsonMembers : List (V × V) → Bytes
  | [] => []
  | (k, v) :: r => [0x2C, 0x20] ++ jsonQuote (keyText k) ++ [0x3A] ++ sexpToJson v ++ jsonMembers r
end

/-! ### decode -/

/-- `strconv.ParseFloat` on the literal of a JSON number (parameter). -/
abbrev FloatParse := JNumber → FloatLit

def numToV (fp : FloatParse) (n : JNumber) : V :=
  -- an integer literal has a non-negative normalised exponent
  let a : Nat := n.mant * 10 ^ n.exp.toNat
  let v : Int := if n.neg then - (a : Int) else a
  if n.integral ∧ -9223372036854775808 ≤ v ∧ v ≤ 9223372036854775807 then .int v
  else .flt (fp n)

def bytesLt : Bytes → Bytes → Bool
  | [], [] => false
  | [], _ :: _ => true
  | _ :: _, [] => false
  | a :: x, b :: y => a < b || (a == b && bytesLt x y)

/-- some member name occurs twice (what the codec does then is not modelled) -/
def hasDupKeys : List (Bytes × V) → Bool
  | [] => false
  | (k, _) :: r => r.any (fun x => x.1 == k) || hasDupKeys r

/-- `makeSortedSlicesFromMap` -/
def sortMembers (l : List (Bytes × V)) : List (Bytes × V) :=
  l.mergeSort (fun a b => !(bytesLt b.1 a.1))

def lookupB (k : Bytes) : List (Bytes × V) → Option V
  | [] => none
  | (k', v) :: r => if k' = k then some v else lookupB k r

/-- hash keys that the decoder can produce compare by their text -/
def keyEq : V → V → Bool
  | .sym a, .sym b => a == b
  | .str a _, .str b _ => a == b
  | .int a, .int b => a == b
  | _, _ => false

def lookupV (k : V) : List (V × V) → Option V
  | [] => none
  | (k', v) :: r => if keyEq k' k then some v else lookupV k r

/-- the `map[string]interface{}` arm of decodeGoToSexpHelper, given the members already
decoded (the value of `zKeyOrder` with preferSym = true): sorted walk, `MakeHash`, then
`SetHashKeyOrder`. `none` = the Go code panics, or a member name is repeated. -/
def buildHash (dec : List (Bytes × V)) : Option V :=
  if hasDupKeys dec then none else
  let m := sortMembers dec
  let tn := match lookupB atype m with
    | some (.str s _) => s
    | some (.sym s) => s
    | _ => asciiBytes "hash"
  let pairs := (m.filter (fun kv => kv.1 ≠ atype ∧ kv.1 ≠ zKeyOrder)).map (fun kv => (V.sym kv.1, kv.2))
  match lookupB zKeyOrder m with
  | none => some (.hash tn pairs)
  | some (.arr keys) => (keys.mapM (fun k => (lookupV k pairs).map (fun v => (k, v)))).map (.hash tn)
  | some _ => none

mutual
/-- `decodeGoToSexpHelper` after `JsonToGo`; the Bool is `preferSym` -/
def ofJson (fp : FloatParse) : Bool → JValue → Option V
  | _, .null => some .nil
  | _, .bool b => some (.bool b)
  | _, .num n => some (numToV fp n)
  | ps, .str s => some (if ps then .sym s else .str s false)
  | ps, .arr l => (ofJsonList fp ps l).map .arr
  | ps, .obj ms => (ofJsonMembers fp ps ms).bind buildHash
def ofJsonList (fp : FloatParse) : Bool → List JValue → Option (List V)
  | _, [] => some []
  | ps, a :: r =>
    match ofJson fp ps a, ofJsonList fp ps r with
    | some x, some xs => some (x :: xs)
    | _, _ => none
def ofJsonMembers (fp : FloatParse) : Bool → List (Bytes × JValue) → Option (List (Bytes × V))
  | _, [] => some []
  | ps, (k, v) :: r =>
    match ofJson fp (ps || k == zKeyOrder) v, ofJsonMembers fp ps r with
    | some x, some xs => some ((k, x) :: xs)
    | _, _ => none
end

/-- `(unjson (json v))`; `none` = error/panic -/
def unjson (fp : FloatParse) (text : Bytes) : Option V :=
  (Rfc8259.parse text).bind (ofJson fp false)

/-! ### msgpack: JSON text → Go value → msgpack (the codec itself is a parameter) -/

/-- A msgpack codec over decoded JSON data (what `GoToMsgpack` / `MsgpackToGo` do with the
Go value that `JsonToGo` produced). -/
structure MsgpackCodec where
  enc : JValue → Bytes
  dec : Bytes → Option JValue

/-- `SexpToMsgpack`: JSON text → Go value → msgpack -/
def msgpack (c : MsgpackCodec) (v : V) : Option Bytes := (Rfc8259.parse (sexpToJson v)).map c.enc
/-- `MsgpackToSexp` -/
def unmsgpack (c : MsgpackCodec) (fp : FloatParse) (b : Bytes) : Option V := (c.dec b).bind (ofJson fp false)

end ZygoVerif.Json
