/-
Plain data shared by the record model (`Model/Rec.lean`), the specification
(`Spec/WellTyped.lean`) and the `rec` driver channel: type names, types, hash keys and the
type expressions that may appear in a `(struct …)` declaration. No behaviour here.

Names follow the Go registry (`zygo/gotypereg.go`): a base type is registered once; a user
struct `S<n>` is registered anew by every `(struct S<n> …)` (so a *type* is a name plus the
generation of the declaration, `RegisteredType` pointer identity in Go); slice and pointer
types are created on demand and looked up **by name** (`"[]"+name`, `"*"+name`,
`GetOrCreateSliceType`, `GetOrCreatePointerType`), so they carry generation 0.
-/
namespace ZygoVerif.Rec

inductive TyName where
  | int64 | uint64 | float64 | bool | int32 | string | symbol
  | hash                      -- an untyped `(hash …)`
  | emptyArr                  -- the registered type "[]" of the empty array
  | struct (n : Nat)          -- user struct S<n>
  | slice (e : TyName)        -- "[]" ++ e
  | ptr (e : TyName)          -- "*" ++ e
  deriving DecidableEq, Repr, Inhabited

/-- A registered type: name + generation of the struct declaration (0 unless `name = struct _`). -/
structure Ty where
  name : TyName
  gen : Nat
  deriving DecidableEq, Repr, Inhabited

/-- Does the registered name start with "[]"? (`strings.HasPrefix(declaredTyp.RegisteredName, "[]")`) -/
def TyName.isSliceName : TyName → Bool
  | .emptyArr => true
  | .slice _ => true
  | _ => false

/-- Hash keys used by the channel: symbol `f<k>`, string `"f<k>"`, integer. -/
inductive Key where
  | sym (k : Nat) | str (k : Nat) | int (n : Int)
  deriving DecidableEq, Repr, Inhabited

/-- Type expressions of a field declaration. `unbound` is a name with no binding. -/
inductive TExpr where
  | base (b : TyName) | ref (n : Nat) | unbound
  | slice (e : TExpr) | ptr (e : TExpr)
  deriving Repr, Inhabited

/-- Generation numbers: the declaration executed as step `k` (1-based) of a history first
registers an empty placeholder (`2k`, what a self reference resolves to and what stays in
force when the declaration fails) and then the real definition (`2k+1`). -/
def placeholderGen (k : Nat) : Nat := 2 * k
def finalGen (k : Nat) : Nat := 2 * k + 1

end ZygoVerif.Rec
