/-
The source of a lazy argument as script data (property C16, builtin `substitute`).

A lazy argument keeps the *parsed* argument expression (`SexpLazyArg.Expr`, a tree of
`SexpPair`/`SexpSymbol`/`SexpInt`/`SexpStr`/`SexpBool`/`SexpArray`), and `substitute` hands
exactly that tree to the script. The model and the reference evaluator keep the elaborated
`Expr`; `quoteE` turns it back into the data the parser produced. It is the inverse of
`elabE` on every form the elaborator accepts except that a loop label loses nothing but the
optional trailing colon (written back with the colon, as the generators write it) and the
two rejected shapes (`assign`, `bad`) have no source here (a marker string; the generators
never ask for their source). Arrays are heap cells in the value world: the array literals
inside a source are allocated when the source is handed out (Go hands out the parser's own
array object; the difference is visible only to `aset` on the source, which no generator does).

Shared by `Model/VM.lean` and `Spec/RefEval.lean` like `Prim.pr`: it is a convention about how
source is shown as data, not part of either semantics. Core-only.
-/
import ZygoVerif.Model.CoreSexp
import ZygoVerif.Model.Prim
namespace ZygoVerif.Core

def symV (s : String) : Val := .sym s

def paramSyms (ps : List String) (rest : Option String) : List Val :=
  ps.map symV ++ (match rest with | some r => [symV "&", symV r] | none => [])

def labelSym (l : Option String) : List Val :=
  match l with | some x => [symV (x ++ ":")] | none => []

mutual
def quoteE : Expr → DataHeap → Val × DataHeap
  | .int v, h => (intOfLit v, h)
  | .bool b, h => (.bool b, h)
  | .str s, h => (.str s, h)
  | .nilLit, h => (.nil, h)
  | .sym x, h => (symV x, h)
  | .arr es, h => let (vs, h) := quoteL es h; h.alloc vs
  | .call f args, h =>
    let (fv, h) := quoteE f h
    let (vs, h) := quoteL args h
    (mkList (fv :: vs), h)
  | .begin_ es, h => let (vs, h) := quoteL es h; (mkList (symV "begin" :: vs), h)
  | .def_ x e, h => let (v, h) := quoteE e h; (mkList [symV "def", symV x, v], h)
  | .set_ x e, h => let (v, h) := quoteE e h; (mkList [symV "set", symV x, v], h)
  | .cond arms d, h =>
    let (vs, h) := quoteArms arms h
    let (dv, h) := quoteE d h
    (mkList (symV "cond" :: vs ++ [dv]), h)
  | .and_ es, h => let (vs, h) := quoteL es h; (mkList (symV "and" :: vs), h)
  | .or_ es, h => let (vs, h) := quoteL es h; (mkList (symV "or" :: vs), h)
  | .let_ seq bs body, h =>
    let (bvs, h) := quoteBinds bs h
    let (ba, h) := h.alloc bvs
    let (vs, h) := quoteL body h
    (mkList (symV (if seq then "letseq" else "let") :: ba :: vs), h)
  | .newScope es, h => let (vs, h) := quoteL es h; (mkList (symV "newScope" :: vs), h)
  | .for_ label i t s body, h =>
    let (iv, h) := quoteE i h
    let (tv, h) := quoteE t h
    let (sv, h) := quoteE s h
    let (ca, h) := h.alloc [iv, tv, sv]
    let (vs, h) := quoteL body h
    (mkList (symV "for" :: labelSym label ++ ca :: vs), h)
  | .break_ l, h => (mkList (symV "break" :: labelSym l), h)
  | .continue_ l, h => (mkList (symV "continue" :: labelSym l), h)
  | .fn ps rest body, h =>
    let (pa, h) := h.alloc (paramSyms ps rest)
    let (vs, h) := quoteL body h
    (mkList (symV "fn" :: pa :: vs), h)
  | .defn name ps rest body, h =>
    let (pa, h) := h.alloc (paramSyms ps rest)
    let (vs, h) := quoteL body h
    (mkList (symV "defn" :: symV name :: pa :: vs), h)
  | .assign _ _, h => (.str "?source", h)
  | .bad _, h => (.str "?source", h)
def quoteL : List Expr → DataHeap → List Val × DataHeap
  | [], h => ([], h)
  | e :: es, h =>
    let (v, h) := quoteE e h
    let (vs, h) := quoteL es h
    (v :: vs, h)
def quoteArms : List (Expr × Expr) → DataHeap → List Val × DataHeap
  | [], h => ([], h)
  | (c, b) :: r, h =>
    let (cv, h) := quoteE c h
    let (bv, h) := quoteE b h
    let (vs, h) := quoteArms r h
    (cv :: bv :: vs, h)
def quoteBinds : List (String × Expr) → DataHeap → List Val × DataHeap
  | [], h => ([], h)
  | (x, e) :: r, h =>
    let (v, h) := quoteE e h
    let (vs, h) := quoteBinds r h
    (symV x :: v :: vs, h)
end

end ZygoVerif.Core
