/-
Surface syntax of the core language (C02/C03/C09/C16 share it). Core-only.

* `Sx`      — generic s-expressions, as the zygomys parser delivers them for the subset of
              the lexical grammar the `eval` generator emits (decimal ints, `"…"` strings
              without escapes, symbols, `( … )` lists, `[ … ]` arrays, `name:` labels).
* `readAll` — a small reader for that subset. On the wire a program travels with `~` for a
              blank (so a program is one token of an op line); the reader treats `~` as
              white space.
* `Expr`    — typed abstract syntax of the core forms; `elabE` follows the *syntactic*
              dispatch and shape checks of `Generate`/`GenerateCallBySymbol` and its
              `Generate*` callees (generator.go): what is rejected there becomes a `bad`
              node (a compile-time error in the model, outside the property's domain in the
              spec).
-/
namespace ZygoVerif.Core

inductive Sx where
  | int (v : Int)
  | str (s : String)
  | sym (s : String)
  | list (xs : List Sx)
  | arr (xs : List Sx)
deriving Repr, Inhabited

/-! ## Reader -/

inductive Tok where
  | lp | rp | lb | rb
  | atom (s : String)
  | str (s : String)
deriving Repr, BEq

def isBlank (c : Char) : Bool := c == ' ' || c == '~' || c == '\n' || c == '\t'

def flushAtom (cur : List Char) (acc : List Tok) : List Tok :=
  if cur.isEmpty then acc else Tok.atom (String.ofList cur.reverse) :: acc

/-- Tokeniser (one character per step). `instr = some acc` while inside a string literal;
`none` result = unterminated string. Tokens are accumulated in reverse. -/
def tokenize : List Char → Option (List Char) → List Char → List Tok → Option (List Tok)
  | [], some _, _, _ => none
  | [], none, cur, acc => some (flushAtom cur acc).reverse
  | c :: cs, some sacc, cur, acc =>
    if c == '"' then tokenize cs none cur (Tok.str (String.ofList sacc.reverse) :: acc)
    else tokenize cs (some (c :: sacc)) cur acc
  | c :: cs, none, cur, acc =>
    if isBlank c then tokenize cs none [] (flushAtom cur acc)
    else if c == '(' then tokenize cs none [] (Tok.lp :: flushAtom cur acc)
    else if c == ')' then tokenize cs none [] (Tok.rp :: flushAtom cur acc)
    else if c == '[' then tokenize cs none [] (Tok.lb :: flushAtom cur acc)
    else if c == ']' then tokenize cs none [] (Tok.rb :: flushAtom cur acc)
    else if c == '"' then tokenize cs (some []) [] (flushAtom cur acc)
    else tokenize cs none (c :: cur) acc

def atomToSx (s : String) : Sx :=
  let cs := s.toList
  let digits (l : List Char) : Bool := !l.isEmpty && l.all Char.isDigit
  let toNat (l : List Char) : Nat := l.foldl (fun a c => a * 10 + (c.toNat - '0'.toNat)) 0
  match cs with
  | '-' :: r => if digits r then .int (- (toNat r : Int)) else .sym s
  | _ => if digits cs then .int (toNat cs) else .sym s

/-- Recursive-descent over the token list; the stack holds the partially built
enclosing sequences (`true` = round, `false` = square). -/
def parseToks : List Tok → List (Bool × List Sx) → List Sx → Option (List Sx)
  | [], [], cur => some cur.reverse
  | [], _ :: _, _ => none
  | t :: ts, stk, cur =>
    match t with
    | .lp => parseToks ts ((true, cur) :: stk) []
    | .lb => parseToks ts ((false, cur) :: stk) []
    | .rp => match stk with
      | (true, outer) :: stk' => parseToks ts stk' (Sx.list cur.reverse :: outer)
      | _ => none
    | .rb => match stk with
      | (false, outer) :: stk' => parseToks ts stk' (Sx.arr cur.reverse :: outer)
      | _ => none
    | .atom s => parseToks ts stk (atomToSx s :: cur)
    | .str s => parseToks ts stk (Sx.str s :: cur)

/-- All top-level expressions of a program text; `none` = the text is not in the subset
(unbalanced, unterminated string). -/
def readAll (text : String) : Option (List Sx) :=
  match tokenize text.toList none [] [] with
  | none => none
  | some toks => parseToks toks [] []

/-! ## Typed abstract syntax -/

inductive Expr where
  | int (v : Int)
  | bool (b : Bool)
  | str (s : String)
  | nilLit                                   -- `()`
  | sym (x : String)
  | arr (es : List Expr)
  | call (f : Expr) (args : List Expr)
  | begin_ (es : List Expr)
  | def_ (x : String) (e : Expr)
  | set_ (x : String) (e : Expr)
  | cond (arms : List (Expr × Expr)) (dflt : Expr)
  | and_ (es : List Expr)
  | or_ (es : List Expr)
  | let_ (seq : Bool) (bs : List (String × Expr)) (body : List Expr)
  | newScope (es : List Expr)
  | for_ (label : Option String) (init test incr : Expr) (body : List Expr)
  | break_ (label : Option String)
  | continue_ (label : Option String)
  | fn (ps : List String) (rest : Option String) (body : List Expr)
  | defn (name : String) (ps : List String) (rest : Option String) (body : List Expr)
  | assign (lhs rhs : Expr)                  -- `(def (…) e)` / `(set (…) e)`: AssignInstr, outside the core language
  | bad (why : String)
deriving Repr, Inhabited

/-- The builtin functions of the core language that the model knows (a sub-table of
`CoreFunctions()`; `trace` is registered by the harness with `AddFunction`, which makes it
a global but not an entry of `env.builtins`). -/
def coreBuiltins : List String :=
  ["+", "-", "*", "mod", "<", ">", "<=", ">=", "==", "!=", "not", "cons", "first", "rest",
   "second", "list", "array", "len", "append", "concat", "aget", "aset", "map", "apply",
   "force", "substitute", "hash", "hget", "hset"]

/-- `ReservedWords` (environment.go). -/
def reservedWords : List String :=
  ["byte", "defbuild", "builder", "field", "and", "or", "cond", "quote", "def", "mdef", "fn",
   "defn", "begin", "let", "letseq", "assert", "defmac", "macexpand", "syntaxQuote",
   "include", "for", "set", "break", "continue", "newScope", "_ls", "int8", "int16", "int32",
   "int64", "uint8", "uint16", "uint32", "uint64", "float32", "float64", "complex64",
   "complex128", "bool", "string", "any", "case", "chan", "const", "default", "else", "defer",
   "fallthrough", "func", "go", "goto", "if", "import", "interface", "map", "package", "range",
   "return", "select", "struct", "switch", "type", "var", "append", "cap", "close", "complex",
   "copy", "delete", "imag", "len", "make", "new", "panic", "print", "println", "real",
   "recover", "null", "nil", "-", "+", "--", "++", "-=", "+=", ":=", "=", ">", "<", ">=", "<=",
   "send", "NaN", "nan"]

/-- `IsBuiltinSym`: a name `def`/`set`/`defn` refuse to bind. -/
def isProtectedName (x : String) : Bool := coreBuiltins.contains x || reservedWords.contains x

/-- The heads `GenerateCallBySymbol` treats as special forms and that are *outside* the
core language: programs using them are not elaborated (`bad`), the generator never emits them. -/
def foreignForms : List String :=
  ["quote", "mdef", "assert", "defmac", "macexpand", "syntaxQuote", "include", "package",
   "return", "_ls"]

/-- A label operand of `for`/`break`/`continue`: a symbol, with or without the trailing colon. -/
def labelName (s : String) : String :=
  if s.endsWith ":" then (s.dropEnd 1).toString else s

/-- Formal parameters: `buildSexpFun` — all symbols; `&` in the second-to-last position
makes the last one the variadic rest. -/
def splitParams (ps : List Sx) : Option (List String × Option String) :=
  let names := ps.mapM (fun p => match p with | Sx.sym s => (if s == "true" || s == "false" then none else some s) | _ => none)
  match names with
  | none => none
  | some ns =>
    let n := ns.length
    if n ≥ 2 ∧ ns.getD (n - 2) "" = "&" then
      some (ns.take (n - 2), some (ns.getD (n - 1) ""))
    else some (ns, none)

def pairUp {α} : List α → List (α × α)
  | a :: b :: rest => (a, b) :: pairUp rest
  | _ => []

mutual
/-- `Generate` + `GenerateCall` + `GenerateCallBySymbol`: syntactic dispatch. -/
partial def elabE : Sx → Expr
  | .int v => .int v
  | .str s => .str s
  | .sym "true" => .bool true
  | .sym "false" => .bool false
  | .sym s => .sym s
  | .arr xs => .arr (elabList xs)
  | .list [] => .nilLit
  | .list (.sym h :: args) => elabForm h args
  | .list (h :: args) => .call (elabE h) (elabList args)

partial def elabList : List Sx → List Expr
  | [] => []
  | x :: xs => elabE x :: elabList xs

partial def elabBinds : List Sx → List (String × Expr)
  | .sym x :: e :: rest => (x, elabE e) :: elabBinds rest
  | _ => []

partial def elabArms : List Sx → List (Expr × Expr)
  | c :: b :: rest => (elabE c, elabE b) :: elabArms rest
  | _ => []

partial def elabForm (h : String) (args : List Sx) : Expr :=
  if h = "and" then .and_ (elabList args)
  else if h = "or" then .or_ (elabList args)
  else if h = "cond" then
    if args.length % 2 = 0 then .bad "cond: missing default case"
    else .cond (elabArms (args.take (args.length - 1))) (match args.getLast? with | some d => elabE d | none => .nilLit)
  else if h = "def" ∨ h = "set" then
    match args with
    | [.sym x, e] =>
      if isProtectedName x || x == "true" || x == "false" then .bad "def/set of a protected name or a bool literal"
      else if h = "def" then .def_ x (elabE e) else .set_ x (elabE e)
    | [.list (l :: ls), e] => .assign (elabE (.list (l :: ls))) (elabE e)
    | _ => .bad "def/set shape"
  else if h = "begin" then .begin_ (elabList args)
  else if h = "let" ∨ h = "letseq" then
    match args with
    | .arr bs :: b :: body =>
      if bs.length % 2 ≠ 0 then .bad "uneven let binding list"
      else if (elabBinds bs).length * 2 ≠ bs.length ∨ (elabBinds bs).any (fun p => p.1 == "true" || p.1 == "false") then .bad "cannot bind to non-symbol"
      else .let_ (h = "letseq") (elabBinds bs) (elabList (b :: body))
    | _ => .bad "malformed let"
  else if h = "newScope" then .newScope (elabList args)
  else if h = "for" then
    match args with
    | .arr [i, t, s] :: body => .for_ none (elabE i) (elabE t) (elabE s) (elabList body)
    | .sym l :: .arr [i, t, s] :: body => .for_ (some (labelName l)) (elabE i) (elabE t) (elabE s) (elabList body)
    | _ => .bad "malformed for"
  else if h = "break" then
    match args with
    | [] => .break_ none
    | [.sym l] => .break_ (some (labelName l))
    | _ => .bad "malformed break"
  else if h = "continue" then
    match args with
    | [] => .continue_ none
    | [.sym l] => .continue_ (some (labelName l))
    | _ => .bad "malformed continue"
  else if h = "fn" then
    match args with
    | .arr ps :: b :: body =>
      match splitParams ps with
      | some (ns, r) => .fn ns r (elabList (b :: body))
      | none => .bad "function argument must be symbol"
    | _ => .bad "malformed fn"
  else if h = "defn" then
    match args with
    | .sym name :: .arr ps :: b :: body =>
      if isProtectedName name || name == "true" || name == "false" then .bad "defn of a protected name"
      else match splitParams ps with
        | some (ns, r) => .defn name ns r (elabList (b :: body))
        | none => .bad "function argument must be symbol"
    | _ => .bad "malformed defn"
  else if foreignForms.contains h then .bad "form outside the core language"
  else if h = "true" then .call (.bool true) (elabList args)
  else if h = "false" then .call (.bool false) (elabList args)
  else .call (.sym h) (elabList args)
end

def elabProgram (xs : List Sx) : List Expr := elabList xs

end ZygoVerif.Core
