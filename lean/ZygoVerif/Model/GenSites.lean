/-
The argument prologues of the special-form generators of zygo/generator.go (C01), as
index traces. Core-only.

`Model/Gen.lean` compiles an already *elaborated* program (`Core.Expr`): the arity and shape
checks at the top of each `Generate*` have happened in `Core.elabForm`, so the Go operations
that can panic there — `args[i]`, `args[i:]`, `x.(T)` — do not show in it. This file models
exactly those prologues: every Go index / slice expression is the panic-capable primitive
`idx` / `sliceFrom` / `sliceTo` placed where the Go code has it, every `return err` is
`Fault.err`, Go `int` arithmetic is `Int` (so `args[size-1]` with `size = 0` is `args[-1]`,
a panic), and the recursive calls `gen.Generate(sub-expression)` are an arbitrary parameter
`sub` (it may fail with `err`; `Props/C01` assumes only that it does not panic — the
induction hypothesis of the compositional argument).

What an argument looks like to these prologues is its Go dynamic type (`Arg`): the type
switches distinguish `*SexpSymbol`, `*SexpPair`, `*SexpArray`, `*SexpStr` and anything else.
-/
namespace ZygoVerif.GenSites

inductive Fault where | err | panic
deriving DecidableEq, Repr

abbrev P := Except Fault

inductive Arg where
  | sym (name : String)
  | pair (quotedSym : Bool)        -- a list; `quotedSym`: it is `(quote <symbol>)` (getQuotedSymbol / isQuotedSymbol accept it)
  | arr (elems : List Arg)
  | str
  | other
deriving Repr, Inhabited

/-- Go `a[i]` on a slice -/
def idx {α} (l : List α) (i : Int) : P α :=
  if 0 ≤ i then
    match l[i.toNat]? with
    | some a => pure a
    | none => throw .panic
  else throw .panic

/-- Go `a[i:]` -/
def sliceFrom {α} (l : List α) (i : Int) : P (List α) :=
  if 0 ≤ i ∧ i ≤ l.length then pure (l.drop i.toNat) else throw .panic

/-- Go `a[:j]` (within the length; the sites modelled here never rely on spare capacity) -/
def sliceTo {α} (l : List α) (j : Int) : P (List α) :=
  if 0 ≤ j ∧ j ≤ l.length then pure (l.take j.toNat) else throw .panic

/-- Go `a[i:j]` -/
def slice {α} (l : List α) (i j : Int) : P (List α) :=
  if 0 ≤ i ∧ i ≤ j ∧ j ≤ l.length then pure ((l.take j.toNat).drop i.toNat) else throw .panic

def err {α} : P α := throw .err

/-- `if c { return err }` -/
def failIf (c : Prop) [Decidable c] : P PUnit := if c then throw .err else pure PUnit.unit

/-- `for _, e := range xs { if err := sub(e) … }` -/
def each (sub : Arg → P Unit) : List Arg → P Unit
  | [] => pure ()
  | a :: as => do sub a; each sub as

/-! ## GenerateBegin / GenerateNewScope -/

/-- `GenerateBegin`: `expressions[:size-1]`, `expressions[size-1]` behind `size == 0`. -/
def genBegin (sub : Arg → P Unit) (args : List Arg) : P Unit :=
  let size : Int := args.length
  if size = 0 then pure () else do
    let front ← sliceTo args (size - 1)
    each sub front
    let last ← idx args (size - 1)
    sub last

/-- `GenerateNewScope` has the same shape. -/
def genNewScope (sub : Arg → P Unit) (args : List Arg) : P Unit := genBegin sub args

/-! ## GenerateShortCircuit (after fix cc83369) -/

/-- `for i := size-2; i >= 0; i--`: `k` iterations remain, the next index is `k-1`. -/
def scArms (sub : Arg → P Unit) (args : List Arg) : Nat → P Unit
  | 0 => pure ()
  | k + 1 => do
    let a ← idx args (k : Int)
    sub a
    scArms sub args k

def genShortCircuit (sub : Arg → P Unit) (args : List Arg) : P Unit :=
  let size : Int := args.length
  if size = 0 then pure () else do
    let last ← idx args (size - 1)
    sub last
    scArms sub args (args.length - 1)

/-! ## GenerateCond -/

/-- `for i := len(args)/2 - 1; i >= 0; i--`: `args[2*i]`, `args[2*i+1]`. -/
def condArms (sub : Arg → P Unit) (args : List Arg) : Nat → P Unit
  | 0 => pure ()
  | k + 1 => do
    let p ← idx args (2 * (k : Int))
    sub p
    let b ← idx args (2 * (k : Int) + 1)
    sub b
    condArms sub args k

def genCond (sub : Arg → P Unit) (args : List Arg) : P Unit :=
  if args.length % 2 = 0 then err else do
    let d ← idx args ((args.length : Int) - 1)
    sub d
    condArms sub args (args.length / 2)

/-! ## buildSexpFun / GenerateFn / GenerateDefn / GenerateDefmac -/

def isSym : Arg → Bool
  | .sym _ => true
  | _ => false

/-- `buildSexpFun`: every formal must be a symbol; `argsyms[len-2]`, `argsyms[len-1]`,
`argsyms[0:len-1]` behind `len(argsyms) >= 2`; the body is a `GenerateBegin`. -/
def buildSexpFun (sub : Arg → P Unit) (formals : List Arg) (body : List Arg) : P Unit := do
  failIf (formals.all isSym = false)
  let _ ← (if (formals.length : Int) ≥ 2 then do
      let amp ← idx formals ((formals.length : Int) - 2)
      match amp with
      | .sym "&" => do
        let _ ← idx formals ((formals.length : Int) - 1)
        let _ ← slice formals 0 ((formals.length : Int) - 1)
        pure ()
      | _ => pure ()
    else pure () : P Unit)
  genBegin sub body

def genFn (sub : Arg → P Unit) (args : List Arg) : P Unit := do
  failIf ((args.length : Int) < 2)
  let a0 ← idx args 0
  match a0 with
  | .arr formals => do
    let body ← sliceFrom args 1
    buildSexpFun sub formals body
  | _ => err

/-- `GenerateDefn` and `GenerateDefmac` share the prologue (`args[1]` first, then `args[0]`,
then `args[2:]`); the name checks between them can only fail with an error. -/
def genDefn (sub : Arg → P Unit) (nameOk : String → Bool) (args : List Arg) : P Unit := do
  failIf ((args.length : Int) < 3)
  let a1 ← idx args 1
  match a1 with
  | .arr formals => do
    let a0 ← idx args 0
    match a0 with
    | .sym name => do
      failIf (nameOk name = false)
      let body ← sliceFrom args 2
      buildSexpFun sub formals body
    | _ => err
  | _ => err

/-! ## GenerateDef (def / set) and GenerateMultiDef (after fix C01-04) -/

def genDef (sub : Arg → P Unit) (lhsOk : String → Bool) (args : List Arg) : P Unit := do
  failIf ((args.length : Int) ≠ 2)
  let a0 ← idx args 0
  let _ ← (match a0 with
    | .pair _ => do
      let a0' ← idx args 0
      sub a0'
    | _ => do
      let a ← idx args 0        -- GetLHS(args[0])
      match a with
      | .sym x => if lhsOk x then pure () else err
      | _ => err : P Unit)
  let a1 ← idx args 1
  sub a1

/-- `for i := 0; i < nsym; i++ { switch args[i] … }` -/
def mdefTargets (args : List Arg) : Nat → Nat → P Unit
  | 0, _ => pure ()
  | k + 1, i => do
    let a ← idx args (i : Int)
    match a with
    | .sym _ => mdefTargets args k (i + 1)
    | .pair true => mdefTargets args k (i + 1)
    | _ => err               -- a pair that is not a quoted symbol is refused (fix C01-04)

def genMultiDef (sub : Arg → P Unit) (args : List Arg) : P Unit := do
  failIf ((args.length : Int) < 2)
  mdefTargets args (args.length - 1) 0
  let last ← idx args ((args.length : Int) - 1)
  sub last

/-! ## GenerateLet -/

/-- `for i := 0; i < len(bindings)/2; i++`: `bindings[2*i]`, `bindings[2*i+1]`. -/
def letBinds (bs : List Arg) : Nat → Nat → P (List Arg)
  | 0, _ => pure []
  | k + 1, i => do
    let l ← idx bs (2 * (i : Int))
    failIf (isSym l = false)
    let r ← idx bs (2 * (i : Int) + 1)
    let rest ← letBinds bs k (i + 1)
    pure (r :: rest)

/-- `lstatements[i]` while ranging over `rstatements` (both have one entry per binding). -/
def genLet (sub : Arg → P Unit) (args : List Arg) : P Unit := do
  failIf ((args.length : Int) < 2)
  let a0 ← idx args 0
  match a0 with
  | .arr bs => do
    failIf (bs.length % 2 ≠ 0)
    let rs ← letBinds bs (bs.length / 2) 0
    each sub rs
    let body ← sliceFrom args 1
    genBegin sub body
  | _ => err

/-! ## Single-argument forms -/

def genAssert (sub : Arg → P Unit) (args : List Arg) : P Unit := do
  failIf ((args.length : Int) ≠ 1)
  let a ← idx args 0
  sub a
  let _ ← idx args 0           -- args[0].SexpString(nil) for the message
  pure ()

def genMacexpand (args : List Arg) : P Unit := do
  failIf ((args.length : Int) ≠ 1)
  let _ ← idx args 0
  pure ()

def genSyntaxQuote (args : List Arg) : P Arg := do
  failIf ((args.length : Int) ≠ 1)
  idx args 0

/-- `GenerateBreak` / `GenerateContinue` -/
def genBreak (args : List Arg) : P Unit := do
  failIf ((args.length : Int) > 1)
  if (args.length : Int) = 1 then do
    let a ← idx args 0
    match a with
    | .sym _ => pure ()
    | .pair true => pure ()
    | _ => err
  else pure ()

/-! ## GenerateForLoop -/

def genFor (sub : Arg → P Unit) (args : List Arg) : P Unit := do
  failIf ((args.length : Int) < 1)
  let a0 ← idx args 0
  let labelled ← (match a0 with
    | .sym _ => pure true
    | .pair true => pure true
    | .pair false => err
    | .arr _ => pure false
    | _ => err : P Bool)
  let control ← (if labelled then do
      failIf ((args.length : Int) < 2)
      let a1 ← idx args 1
      match a1 with
      | .arr c => pure c
      | _ => err
    else match a0 with
      | .arr c => pure c
      | _ => err : P (List Arg))
  failIf (control.length ≠ 3)
  let body ← sliceFrom args (if labelled then 2 else 1)
  genBegin sub body
  let i ← idx control 0
  sub i
  let t ← idx control 1
  sub t
  let s ← idx control 2
  sub s

/-! ## GeneratePackage / GenerateReturn / GenerateInclude (after fix C01-06) -/

def genPackage (sub : Arg → P Unit) (args : List Arg) : P Unit := do
  failIf ((args.length : Int) < 1)
  let name ← idx args 0
  let _ ← (match name with
    | .sym _ => pure ()
    | .str => pure ()
    | _ => err : P Unit)
  let _ ← (if (args.length : Int) > 1 then do
      let mid ← slice args 1 ((args.length : Int) - 1)
      each sub mid
    else pure () : P Unit)
  let last ← idx args ((args.length : Int) - 1)
  sub last

def genReturn (sub : Arg → P Unit) (args : List Arg) : P Unit := each sub args

/-- `GenerateCallBySymbol`: the dispatch on the head name, for the forms modelled here. -/
def genForm (sub : Arg → P Unit) (nameOk : String → Bool) (head : String) (args : List Arg) : P Unit :=
  if head = "and" ∨ head = "or" then genShortCircuit sub args
  else if head = "cond" then genCond sub args
  else if head = "def" ∨ head = "set" then genDef sub nameOk args
  else if head = "mdef" then genMultiDef sub args
  else if head = "fn" then genFn sub args
  else if head = "defn" ∨ head = "defmac" then genDefn sub nameOk args
  else if head = "begin" then genBegin sub args
  else if head = "let" ∨ head = "letseq" then genLet sub args
  else if head = "assert" then genAssert sub args
  else if head = "macexpand" then genMacexpand args
  else if head = "syntaxQuote" then (do let _ ← genSyntaxQuote args; pure ())
  else if head = "for" then genFor sub args
  else if head = "break" ∨ head = "continue" then genBreak args
  else if head = "newScope" then genNewScope sub args
  else if head = "package" then genPackage sub args
  else if head = "return" then genReturn sub args
  else pure ()

/-! ## Generator.Generate, the `*SexpPair` case, and GenerateAssignment

A pair in code position is a proper list (a call, or an infix-style assignment when `=`/`:=`
stands at a position ≥ 1 and the head is a legal left-hand side) or a dotted pair (data).
`GenerateAssignment` converts the pair with `ListToArray` and turns a failure into a panic
(`panicOn(err)`: "should never happen since we prevalidate that we have a list"). -/

/-- what the dispatch looks at -/
structure PairShape where
  proper : Bool                 -- `IsList(e)`: the chain of pairs ends in nil
  assignPos : Option Nat        -- `IsAssignmentList(e, 0)`: position of the first `=` / `:=` element
  lhsOk : Bool                  -- `GetLHS(e.Head)` succeeds and is not a dot-symbol
  len : Nat                     -- number of elements (of the proper prefix)

/-- `ListToArray` followed by `panicOn(err)` -/
def listToArrayOrPanic (p : PairShape) : P Unit := if p.proper then pure () else throw .panic

/-- `GenerateAssignment(expr, assignPos)` -/
def genAssignment (sub : Arg → P Unit) (p : PairShape) (pos : Nat) : P Unit := do
  listToArrayOrPanic p
  failIf (p.len ≤ 1 ∨ pos = p.len - 1)
  failIf (pos ≠ p.len - (pos + 1))            -- len(lhs) != len(rhs)
  sub .other

/-- the `*SexpPair` case of `Generate` (after fixes: the list test comes first) -/
def genPair (sub : Arg → P Unit) (p : PairShape) : P Unit :=
  if p.proper then
    match p.assignPos with
    | some pos => if pos > 0 ∧ p.lhsOk then genAssignment sub p pos else sub .other   -- GenerateCall
    | none => sub .other                                                              -- GenerateCall
  else pure ()                                                                        -- PushInstr{expr}: data

def formNames : List String :=
  ["and", "or", "cond", "def", "set", "mdef", "fn", "defn", "defmac", "begin", "let", "letseq",
   "assert", "macexpand", "syntaxQuote", "for", "break", "continue", "newScope", "package", "return"]

end ZygoVerif.GenSites
