/-
Pre-repair definitions for C14 (see Model/Legacy.lean for the convention): `HashDelete`
and the un-normalised `[k]` keys of `hdel` / 3-argument `hget` as they were in the pinned
tree. Everything else (HashSet, HashGet, HashPairi, HashCountKeys, keys, printing,
encoding) is unchanged code and is shared with Model/Hash.lean.
-/
import ZygoVerif.Model.Hash
namespace ZygoVerif.Legacy.Hash
open ZygoVerif.Hash

section
variable {K V : Type} (o : KeyOps K) (sh : Show K V)

/-- HashDelete before the fix: `NumKeys--` as soon as the bucket exists, the bucket entry is
kept in the map even when it becomes empty, KeyOrder is never touched. -/
def del (h : Hash K V) (k : K) : Hash K V :=
  let c := o.code k
  match mget h.map c with
  | none => h
  | some b =>
    match bremove o b k with
    | none => { h with numKeys := h.numKeys - 1 }
    | some b' => { h with map := mput h.map c b', numKeys := h.numKeys - 1 }

/-- `(hdel h [k])` before the fix: the array itself is hashed (`codeArr`, Blake2b of its
printed form); no stored key is an array, so `Compare` errs on every pair and nothing is
removed — but the counter still drops when that bucket happens to exist. -/
def delArr (codeArr : K → Int) (h : Hash K V) (k : K) : Hash K V :=
  match mget h.map (codeArr k) with
  | none => h
  | some _ => { h with numKeys := h.numKeys - 1 }

/-- One builtin call on the pinned tree. -/
def step (codeArr : K → Int) (h : Hash K V) : Op K V → Hash K V × Obs K V
  | .hdel (.plain k) => (del o h k, .ok)
  | .hdel (.arr1 k) => (delArr codeArr h k, .ok)
  | .hgetd (.arr1 _) => (h, .dflt)      -- HashGetDefault did not unwrap `[k]`: never found
  | op => ZygoVerif.Hash.step o sh h op

def run (codeArr : K → Int) (h : Hash K V) : List (Op K V) → List (Obs K V)
  | [] => []
  | op :: rest => let (h', ob) := step o sh codeArr h op; ob :: run codeArr h' rest

end
end ZygoVerif.Legacy.Hash
