/-
Index traces of the lexer's atom decoding (zygo/lexer.go: dumpBuffer, DecodeAtom,
DecodeChar) for C01, in the style of `Model/GenSites.lean`: every Go `s[i]`, `s[i:]`,
`s[:j]` is the panic-capable primitive placed where the code has it; the conditions are the
recognisers of `Model/Lexer.lean` (the hand-written equivalents of the lexer's regular
expressions, tied to the source strings by `Props/C13` and to their behaviour by the `lex`
channel). Strings are rune lists here and byte strings in Go; every index below is relative
to the length (`n-1`, `2`, `1`, `0`), and the guards are about ASCII prefixes, so the
in-range conditions are the same. Core-only.
-/
import ZygoVerif.Model.Lexer
import ZygoVerif.Model.GenSites
namespace ZygoVerif.FrontSites
open ZygoVerif.Lexer ZygoVerif.GenSites

/-- `DecodeChar(atom)`: `runes[:n-1]`, `runes[1:]`, then `runes[1]` / `runes[0]`. -/
def decodeCharSites (atom : List Char) : P Unit := do
  let n : Int := atom.length
  let r1 ← sliceTo atom (n - 1)
  let r2 ← sliceFrom r1 1
  if r2.length = 2 then do
    let _ ← idx r2 1
    pure ()
  else if r2.length = 1 then do
    let _ ← idx r2 0
    pure ()
  else err

/-- `DecodeAtom(atom)`: `atom[n-1]`, `atom[:n-1]`, `atom[2:]` (hex/oct/binary),
`atom[:n-1]` again for `name:` (the atom is already one shorter there), `DecodeChar`. -/
def decodeAtomSites (atom0 : List Char) : P Unit := do
  let n : Int := atom0.length
  let last ← idx atom0 (n - 1)
  let endColon := last == ':'
  let atom ← (if endColon then sliceTo atom0 (n - 1) else pure atom0 : P (List Char))
  if atom == ['&'] || atom == ['\\'] || boolRe atom || uint64Re atom || decimalRe atom then pure ()
  else if hexRe atom || octRe atom || binaryRe atom then do
    let _ ← sliceFrom atom 2
    pure ()
  else if floatRe atom || atom == "NaN".toList || atom == "nan".toList || infRe atom
      || dotSymbolRe atom || builtinOpRe atom || atom == [':'] then pure ()
  else if symbolRe atom then
    (if endColon then do
      let _ ← sliceTo atom (n - 1)
      pure ()
    else pure ())
  else if charRe atom then decodeCharSites atom
  else if endColon then pure ()
  else err

/-- `dumpBuffer`: `if n <= 0 { return nil }` in front of `DecodeAtom`. -/
def dumpBufferSites (buffer : List Char) : P Unit :=
  if (buffer.length : Int) ≤ 0 then pure () else decodeAtomSites buffer

end ZygoVerif.FrontSites
