/-
The front end of an infix block (C06): text → lexer model → parser model → the token array
that `InfixExpandArray` consumes, as the `Sx` trees of Model/Pratt.lean.

`Sexp.toSx` is the abstraction from the parser's AST (Model/Sexp.lean) to the token type of
the Pratt model: what `LeftBindingPower` and the munchers distinguish (symbol flavours, arrays,
lists, comma, semicolon, the empty hash) is kept, every other atom is an opaque literal whose
text identifies it (`i<decimal>` for integers, `f<bits>` for floats, …: the Pratt model never looks
inside a literal). `blockOf` is the composition the `expand ltree` correspondence runs against
the real lexer + parser + expander. Core Lean only.
-/
import ZygoVerif.Model.Parser
import ZygoVerif.Model.Sx
import ZygoVerif.Model.PrintData
namespace ZygoVerif
open ZygoVerif.Pratt (Sx)

namespace Sexp

def natStr (n : Nat) : String := String.ofList (PrintData.natDec n)

/-- `ListToArray` succeeds: the chain of pairs ends in `SexpNull` -/
def isProper : Sexp → Bool
  | .pair _ t => isProper t
  | .null => true
  | _ => false

def isComment : Sexp → Bool
  | .comment _ _ => true
  | _ => false

mutual
/-- the token of the Pratt model that the parser's expression stands for. Comments are dropped
from arrays and proper lists at every depth, as `LoadExpressions` does before it generates code
(`FilterArray(expressions, RemoveCommentsFilter)`, zygo/comment.go). -/
def toSx : Sexp → Sx
  | .int v => .lit (String.ofList (PrintData.itoa v))
  | .uint v => .other true (natStr v ++ "ULL")
  | .float b _ => .lit ("f" ++ natStr b)
  | .char v => .other false ("c" ++ natStr v)
  | .str s _ => .lit ("\"" ++ String.ofList s ++ "\"")
  | .sym n ct dot => if dot then .dot (String.ofList n) else if ct then .lab (String.ofList n) else .sym (String.ofList n)
  | .bool b => .lit (if b then "true" else "false")
  | .comment _ _ => .null
  | .comma => .comma
  | .semicolon => .semi
  | .null => .null
  | .endS => .null
  | .pair h t => .list (if isProper t && isComment h then tailSx true t else h.toSx :: tailSx (isProper t) t)
  | .array es _ => .arr (listSx es)
  | .emptyHash => .hash
/-- the elements of a list; `flt`: the list is proper and its comments are dropped (an improper
list is not filtered by the code, its tail is kept as a last element) -/
def tailSx (flt : Bool) : Sexp → List Sx
  | .pair h t => if flt && isComment h then tailSx flt t else h.toSx :: tailSx flt t
  | .null => []
  | x => [x.toSx]
def listSx : List Sexp → List Sx
  | [] => []
  | e :: r => if isComment e then listSx r else e.toSx :: listSx r
end

end Sexp

namespace InfixFront
open ZygoVerif.Parser

/-- The token array of the infix block written as `text` (`{ … }`, braces included): lex and
parse the text as one top-level expression; `none` when it is not a single non-empty infix block. -/
def blockOf (text : List Char) : Option (List Sx) :=
  let r := parseChunks [text]
  match r.status, r.exprs with
  | .done, [.pair (.sym n false false) (.pair (.array es _) .null)] =>
    if n == "infix".toList then some (Sexp.listSx es) else none
  | _, _ => none

end InfixFront
end ZygoVerif
