/-
Model of the code generator (zygo/generator.go), one Lean function per `Generate*`.
Core-only.

The Go generator appends to `gen.instructions` and keeps mutable flags (`Tail`, `scopes`,
`funcname`); sub-generators are separate objects. Here a compile function takes the flags
(`Ctx`) and returns the instructions it appended together with the value of `gen.Tail`
afterwards (several `Generate*` leave it changed: `GenerateDef` clears it for good).
The generator also reads and writes interpreter state (`GS`): function templates
(`MakeFunction` snapshots the live scope stack), loop records, the compile-time loop stack
`env.loopstack`. Gensym names are replaced by indices into those tables.

The jump arithmetic of `cond`, `and`/`or`, `begin` and `for` is isolated in the pure
assembly functions `asmCond`, `asmSC`, `asmBegin`, `asmFor`; the theorems of
`Props/C02.lean` about jump targets are statements about these functions.
-/
import ZygoVerif.Model.CoreSexp
import ZygoVerif.Model.Prim
namespace ZygoVerif.VM
open ZygoVerif.Core

inductive Instr where
  | push (v : Val)                       -- PushInstr (literals only in the core language)
  | pop
  | dup
  | envToStack (x : String)
  | popStackPutEnv (x : String)
  | update (x : String)
  | callArr (n : Nat)                    -- CallInstr{array, n}
  | callExpr (callee : Expr) (args : List Expr)
  | jump (off : Int)
  | goto (loc : Nat)
  | branch (dir : Bool) (off : Int)
  | ret
  | addScope
  | addFuncScope (tmpl : Nat)
  | removeScope
  | createClosure (tmpl : Nat)
  | prepareCall (x : String) (nargs : Nat)
  | tailGuard (x : String) (skip : Nat)  -- TailGuardInstr (fix C09-02): opens a self tail call
  | pushLazy (e : Expr)
  | loopStart (loop : Nat)
  | label
  | pushMark (loop : Nat)
  | popUntilMark (loop : Nat)
  | clearMark (loop : Nat)
  | brk (loop : Nat) (scopesToPop : Nat)
  | cont (loop : Nat) (scopesToPop : Nat)
  | assign                               -- AssignInstr
deriving Repr, Inhabited

/-- `SexpFunction` (compiled) — templates, per-closure copies and nested-evaluation helpers. -/
structure FnObj where
  name : String := ""
  user : Bool := false                   -- a Go builtin (no code)
  code : List Instr := []
  nargs : Nat := 0
  varargs : Bool := false
  params : List String := []             -- argSyms (the rest parameter last)
  closing : List (Option Nat) := []      -- closingOverScopes, top of stack first
  parent : Option Nat := none
deriving Repr, Inhabited

def FnObj.isLazyCallArg (f : FnObj) (i : Nat) : Bool :=
  if f.varargs && i ≥ f.nargs then false
  else match f.params[i]? with
    | some p => p.startsWith "#"
    | none => false

def FnObj.hasLazyFormals (f : FnObj) : Bool := f.params.any (·.startsWith "#")

/-- `Loop`: offsets relative to the position of the loop's `LoopStartInstr`. -/
structure LoopRec where
  label : Option String := none
  scopeDepth : Nat := 0
  breakOff : Int := 0
  contOff : Int := 0
deriving Repr, Inhabited

/-- Interpreter state the generator touches. -/
structure GS where
  fns : List FnObj
  loops : List LoopRec := []
  loopstack : List Nat := []             -- env.loopstack, top first
  live : List (Option Nat) := []         -- env.linearstack (read: NewClosing at MakeFunction)
deriving Repr, Inhabited

structure Ctx where
  tail : Bool := false
  scopes : Nat := 0
  funcname : String := ""
  known : List (String × Nat) := []      -- knownFunctions: name ↦ template

/-! ## Pure assembly (the jump arithmetic) -/

/-- `GenerateBegin`: a `pop` after every non-final statement that produced code. -/
def asmBegin : List (List Instr) → List Instr
  | [] => []
  | [c] => c
  | c :: cs => c ++ (if c.isEmpty then [] else [Instr.pop]) ++ asmBegin cs

/-- `GenerateCond`, built bottom-up in Go; the same list top-down. -/
def asmCond : List (List Instr × List Instr) → List Instr → List Instr
  | [], dflt => dflt
  | (pred, body) :: arms, dflt =>
    let rest := asmCond arms dflt
    pred ++ [Instr.branch false (body.length + 2)] ++ body ++ [Instr.jump (rest.length + 1)] ++ rest

/-- `GenerateShortCircuit`: every arm but the last is followed by `dup; br(or) →end; pop`. -/
def asmSC (isOr : Bool) : List (List Instr) → List Instr
  | [] => [Instr.push (.bool (!isOr))]
  | [c] => c
  | c :: cs =>
    let rest := asmSC isOr cs
    c ++ [Instr.dup, Instr.branch isOr (rest.length + 2), Instr.pop] ++ rest

/-- `GenerateForLoop`: layout and the four offsets. Returns the code and
`(breakOffset, continueOffset)`. `body`, `init`, `incr` already end with their
`popUntilMark`; `test` leaves its value for the branch. -/
def asmFor (loop : Nat) (init test incr body : List Instr) : List Instr × Int × Int :=
  let pre := [Instr.loopStart loop, .addScope, .pushMark loop, .label] ++ init ++ [Instr.jump (incr.length + 2)]
  let continuePos : Int := pre.length
  let mid := [Instr.label] ++ incr ++ [Instr.label] ++ test ++ [Instr.branch false (body.length + 3)]
  let upto := pre ++ mid ++ [Instr.label] ++ body
  let code := upto ++ [Instr.jump (continuePos - upto.length), .label]
  let bottomPos : Int := code.length
  (code ++ [Instr.clearMark loop, .removeScope, .push .nil], bottomPos, continuePos)

/-! ## The generator -/

/-- `NewClosing`: the live stack from its top down to and including the innermost
function scope — unless that scope sits at index 0 or there is none (then the whole
stack). `isFn` tells whether a scope is a function scope. -/
def newClosing (isFn : Nat → Bool) (live : List (Option Nat)) : List (Option Nat) :=
  let rec go : List (Option Nat) → List (Option Nat) → Option (List (Option Nat))
    | [], _ => none
    | x :: rest, acc =>
      if (match x with | some id => isFn id | none => false) then
        (if rest.isEmpty then none else some (acc ++ [x]))
      else go rest (acc ++ [x])
  (go live []).getD live

abbrev G := StateT GS (Except Unit)

def findLoop (gs : GS) (label : Option String) : Option Nat :=
  match label with
  | none => gs.loopstack.head?
  | some l => gs.loopstack.find? (fun id => (gs.loops.getD id {}).label == some l)

/-- `formalsBind` (generator.go, fix C03-01): `f`, the lazy `#f`, the typed `f:`. -/
def formalsBind (x : String) (ps : List String) : Bool :=
  ps.any (fun p => p == x || p == "#" ++ x || p == x ++ ":")

/-- `assignsIn`: `x = v` / `x := v` among the elements of a list or array (only symbols
between the name and the operator). -/
def assignsIn (x : String) : Bool → List Expr → Bool
  | _, [] => false
  | seen, .sym y :: rest =>
    if y == "=" || y == ":=" then (seen || assignsIn x seen rest)
    else assignsIn x (seen || y == x) rest
  | _, _ :: rest => assignsIn x false rest

mutual
/-- `bindsName` (generator.go, fix C03-01): does the form bind or assign the symbol `x` —
as the target of `let`/`letseq`/`def`/`defn`/`set`/`=`/`:=` or as a parameter of a nested
function? A use of `x` as a value does not count. (Go walks the raw s-expression; these
are the same positions on the elaborated form. `mdef`, `defmac`, `range`, `func` are
outside the core language.) -/
def binds (x : String) : Expr → Bool
  | .int _ | .bool _ | .str _ | .nilLit | .bad _ | .sym _ | .break_ _ | .continue_ _ => false
  | .arr es => assignsIn x false es || bindsList x es
  | .call f args => assignsIn x false (f :: args) || binds x f || bindsList x args
  | .begin_ es => bindsList x es
  | .def_ y e => y == x || binds x e
  | .set_ y e => y == x || binds x e
  | .cond arms d => bindsArms x arms || binds x d
  | .and_ es => bindsList x es
  | .or_ es => bindsList x es
  | .let_ _ bs body => bindsBinds x bs || bindsList x body
  | .newScope es => bindsList x es
  | .for_ _ i t s body => binds x i || binds x t || binds x s || bindsList x body
  | .fn ps rest body => formalsBind x (ps ++ rest.toList) || bindsList x body
  | .defn n ps rest body => n == x || formalsBind x (ps ++ rest.toList) || bindsList x body
  | .assign l r => binds x l || binds x r
def bindsList (x : String) : List Expr → Bool
  | [] => false
  | e :: es => binds x e || bindsList x es
def bindsArms (x : String) : List (Expr × Expr) → Bool
  | [] => false
  | (p, b) :: r => binds x p || binds x b || bindsArms x r
def bindsBinds (x : String) : List (String × Expr) → Bool
  | [] => false
  | (y, e) :: r => y == x || binds x e || bindsBinds x r
end

/-- `rebindsOwnName` (fix C03-01): the function binds or assigns its own name — as a
parameter, or somewhere in its body; `buildSexpFun` then clears `gen.funcname`, so no call in
the body is compiled as a self tail call. Using the name as a value keeps the jump. -/
def rebindsOwnName (name : String) (ps : List String) (rest : Option String) (body : List Expr) : Bool :=
  !name.isEmpty && (formalsBind name (ps ++ rest.toList) || bindsList name body)

/-- `buildSexpFun`, first half: the template is registered (for `knownFunctions`) before
the body is compiled. Returns the template index and the context for the body.
`selfTail = false`: `gen.funcname` is cleared (see `rebindsOwnName`). -/
def allocTemplate (isFn : Nat → Bool) (c : Ctx) (name : String) (ps : List String) (rest : Option String)
    (selfTail : Bool := true) : G (Nat × Ctx) := do
  let gs ← get
  let t := gs.fns.length
  let params := ps ++ rest.toList
  let fname := if name.isEmpty then s!"__anon{t}" else name
  set { gs with fns := gs.fns ++ [({ name := fname, nargs := ps.length, varargs := rest.isSome, params,
                                      closing := newClosing isFn gs.live } : FnObj)] }
  let known := if name.isEmpty then c.known else (name, t) :: c.known
  pure (t, ({ tail := true, scopes := 0, funcname := if selfTail then fname else "", known } : Ctx))

/-- `buildSexpFun`, second half: prologue, body, epilogue. -/
def finishTemplate (t : Nat) (b : List Instr) : G Unit :=
  modify (fun gs =>
    let f : FnObj := gs.fns.getD t {}
    let code := [Instr.addFuncScope t] ++ (f.params.map Instr.popStackPutEnv).reverse ++ b ++ [.removeScope, .ret]
    { gs with fns := gs.fns.set t { f with code } })

mutual

/-- `Generate`. Returns the appended instructions and `gen.Tail` afterwards. -/
def compile (isFn : Nat → Bool) (c : Ctx) : Expr → G (List Instr × Bool)
  | .int v => pure ([.push (intOfLit v)], c.tail)
  | .bool b => pure ([.push (.bool b)], c.tail)
  | .str s => pure ([.push (.str s)], c.tail)
  | .nilLit => pure ([.push .nil], c.tail)
  | .sym x => pure ([.envToStack x], c.tail)
  | .arr es => do
    -- the elements are operands of the constructor call, never tail positions (fix C04-08)
    let (code, _) ← compileAll isFn { c with tail := false } es
    pure (code ++ [.callArr es.length], c.tail)
  | .call (.sym h) args =>
    if c.tail && h == c.funcname then do
      let tmpl := c.known.lookup h
      let gs ← get
      let f : Option FnObj := tmpl.bind (fun t => gs.fns[t]?)
      -- a self tail call with the wrong number of arguments is an ordinary call (fix C04-04)
      let arityOk := match f with
        | some fo => if fo.varargs then decide (fo.nargs ≤ args.length) else args.length == fo.nargs
        | none => true
      if arityOk then do
        -- self tail call (fix C09-02): a guard that looks the name up first, the arguments inline,
        -- re-entry at instruction 0; behind the jump the ordinary call the guard skips to when the
        -- name no longer denotes the running function (`skip` = guard + operands + PrepareCall +
        -- RemoveScope × (scopes+1) + Goto)
        let code ← compileCallArgs isFn { c with tail := false } f 0 args
        pure ([.tailGuard h (code.length + c.scopes + 4)] ++ code ++ [.prepareCall h args.length] ++
              List.replicate (c.scopes + 1) .removeScope ++ [.goto 0, .callExpr (.sym h) args], c.tail)
      else pure ([.callExpr (.sym h) args], c.tail)
    else pure ([.callExpr (.sym h) args], c.tail)
  | .call f args => pure ([.callExpr f args], c.tail)
  | .begin_ [] => pure ([.push .nil], c.tail)          -- (begin) yields nil (fix C04-02)
  | .begin_ es => compileBegin isFn c es
  | .def_ x e => do
    let (code, _) ← compile isFn { c with tail := false } e
    pure (code ++ [.dup, .popStackPutEnv x], false)
  | .set_ x e => do
    let (code, _) ← compile isFn { c with tail := false } e
    pure (code ++ [.dup, .update x], false)
  | .cond arms dflt => do
    let (d, _) ← compile isFn c dflt
    let as ← compileArms isFn c arms
    pure (asmCond as d, c.tail)
  | .and_ es => do
    let cs ← compileSC isFn c es
    pure (asmSC false cs, c.tail)
  | .or_ es => do
    let cs ← compileSC isFn c es
    pure (asmSC true cs, c.tail)
  | .let_ seq bs body => do
    let c1 := { c with scopes := c.scopes + 1 }
    -- the initialisers are not tail positions; `gen.Tail` is restored for the body (fix C04-08)
    let (rhs, _) ← compileBinds isFn { c1 with tail := false } seq bs
    let (b, t) ← compileBegin isFn c1 body
    let binds := if seq then [] else (bs.map (fun p => Instr.popStackPutEnv p.1)).reverse
    pure ([.addScope] ++ rhs ++ binds ++ b ++ [.removeScope], t)
  | .newScope es =>
    match es with
    | [] => pure ([.push .nil], false)                 -- (newScope) yields nil (fix C04-02)
    | _ => do
      let c1 := { c with scopes := c.scopes + 1 }
      let (code, t) ← compileNewScope isFn c1 c.tail es
      pure ([.addScope] ++ code ++ [.removeScope], t)
  | .for_ label init test incr body => do
    let gs ← get
    let loop := gs.loops.length
    set { gs with loops := gs.loops ++ [({ label, scopeDepth := c.scopes } : LoopRec)], loopstack := loop :: gs.loopstack }
    let sub : Ctx := { c with tail := false, scopes := c.scopes + 1 }
    let r : Except Unit ((List Instr × List Instr × List Instr × List Instr) × GS) :=
      (do
        let (b, _) ← compileBegin isFn sub body
        let (i, _) ← compile isFn sub init
        let (t, _) ← compile isFn sub test
        let (s, _) ← compile isFn sub incr
        pure (b, i, t, s) : G _).run (← get)
    -- `defer gen.env.loopstack.Pop()`
    match r with
    | .error _ =>
      modify (fun gs => { gs with loopstack := gs.loopstack.drop 1 })
      throw ()
    | .ok ((b, i, t, s), gs') =>
      let (code, brkOff, contOff) :=
        asmFor loop (i ++ [.popUntilMark loop]) t (s ++ [.popUntilMark loop]) (b ++ [.popUntilMark loop])
      set { gs' with loopstack := gs'.loopstack.drop 1,
                     loops := gs'.loops.set loop ({ (gs'.loops.getD loop {}) with breakOff := brkOff, contOff := contOff } : LoopRec) }
      pure (code, c.tail)
  | .break_ l => do
    let gs ← get
    match findLoop gs l with
    | none => throw ()
    | some id => pure ([.brk id (c.scopes - ((gs.loops.getD id {}).scopeDepth + 1))], c.tail)
  | .continue_ l => do
    let gs ← get
    match findLoop gs l with
    | none => throw ()
    | some id => pure ([.cont id (c.scopes - ((gs.loops.getD id {}).scopeDepth + 1))], c.tail)
  | .fn ps rest body => do
    let (t, cb) ← allocTemplate isFn c "" ps rest
    let (b, _) ← compileBegin isFn cb body
    finishTemplate t b
    pure ([.createClosure t], c.tail)
  | .defn name ps rest body => do
    let (t, cb) ← allocTemplate isFn c name ps rest (!rebindsOwnName name ps rest body)
    let (b, _) ← compileBegin isFn cb body
    finishTemplate t b
    pure ([.createClosure t, .popStackPutEnv name, .push .nil], c.tail)
  | .assign l r => do
    let (a, _) ← compile isFn { c with tail := false } l     -- fix C09-01: the target is not a tail position
    let (b, _) ← compile isFn { c with tail := false } r
    pure (a ++ b ++ [.assign], false)
  | .bad _ => throw ()

/-- `GenerateAll` (array literals): `gen.Tail` threads through. -/
def compileAll (isFn : Nat → Bool) (c : Ctx) : List Expr → G (List Instr × Bool)
  | [] => pure ([], c.tail)
  | e :: es => do
    let (a, t) ← compile isFn c e
    let (b, t) ← compileAll isFn { c with tail := t } es
    pure (a ++ b, t)

/-- `GenerateCallArgsForFunction`. -/
def compileCallArgs (isFn : Nat → Bool) (c : Ctx) (f : Option FnObj) (i : Nat) : List Expr → G (List Instr)
  | [] => pure []
  | e :: es => do
    let a ← (if (match f with | some f => f.isLazyCallArg i | none => false) then pure [Instr.pushLazy e]
             else do let (a, _) ← compile isFn c e; pure a)
    let b ← compileCallArgs isFn c f (i + 1) es
    pure (a ++ b)

/-- `GenerateBegin`. -/
def compileBegin (isFn : Nat → Bool) (c : Ctx) : List Expr → G (List Instr × Bool)
  | [] => pure ([], false)
  | [e] => compile isFn c e
  | e :: es => do
    let (a, _) ← compile isFn { c with tail := false } e
    let (b, t) ← compileBegin isFn c es
    pure (a ++ (if a.isEmpty then [] else [.pop]) ++ b, t)

/-- the arms of `GenerateCond`: the test with `Tail` false (and, after fix C04-06, the
parent's scope count), the body with the parent's flags. -/
def compileArms (isFn : Nat → Bool) (c : Ctx) : List (Expr × Expr) → G (List (List Instr × List Instr))
  | [] => pure []
  | (p, b) :: arms => do
    let rest ← compileArms isFn c arms
    let (pc, _) ← compile isFn { c with tail := false } p
    let (bc, _) ← compile isFn c b
    pure ((pc, bc) :: rest)

/-- the arms of `GenerateShortCircuit` (after fix cc83369/477c7df): only the last arm
inherits `Tail`. -/
def compileSC (isFn : Nat → Bool) (c : Ctx) : List Expr → G (List (List Instr))
  | [] => pure []
  | [e] => do let (a, _) ← compile isFn c e; pure [a]
  | e :: es => do
    let rest ← compileSC isFn c es
    let (a, _) ← compile isFn { c with tail := false } e
    pure (a :: rest)

/-- bindings of `GenerateLet`: `gen.Tail` threads through the initialisers. -/
def compileBinds (isFn : Nat → Bool) (c : Ctx) (seq : Bool) : List (String × Expr) → G (List Instr × Bool)
  | [] => pure ([], c.tail)
  | (x, e) :: bs => do
    let (a, t) ← compile isFn c e
    let (b, t) ← compileBinds isFn { c with tail := t } seq bs
    pure (a ++ (if seq then [.popStackPutEnv x] else []) ++ b, t)

/-- body of `GenerateNewScope`: an unconditional `pop` after every non-final statement. -/
def compileNewScope (isFn : Nat → Bool) (c : Ctx) (oldtail : Bool) : List Expr → G (List Instr × Bool)
  | [] => pure ([], false)
  | [e] => compile isFn { c with tail := oldtail } e
  | e :: es => do
    let (a, _) ← compile isFn { c with tail := false } e
    let (b, t) ← compileNewScope isFn c oldtail es
    pure (a ++ [.pop] ++ b, t)

end

end ZygoVerif.VM
