/-
Model of zygomys hashes (zygo/hashutils.go, the hash builtins of zygo/functions.go,
jsonHashHelper of zygo/jsonmsgp.go) AFTER the proposed fixes fixes/C14-01, C14-02.
Core Lean only. The model keeps exactly the three pieces of bookkeeping of `SexpHash`:

  Map      map[int][]*SexpPair   ↦  `GoMap`  (association list code ↦ bucket; a Go map has
                                    no order, every observer of it is order-independent)
  KeyOrder []Sexp                ↦  `keyOrder`
  NumKeys  int                   ↦  `numKeys : Int`   (the legacy code can drive it negative)

and is generic in the key type: `KeyOps.code` is `HashExpression` (any function),
`KeyOps.keq a b` is `Compare(a,b)` returning `0` with a nil error. Keys are the
*normalised* keys; `RKey.arr1 k` is the script-level one-element array `[k]` which
HashSet / HashGet / (after the fix) HashGetDefault / HashDelete replace by its element.
-/
namespace ZygoVerif.Hash

structure KeyOps (K : Type) where
  /-- `HashExpression(nil, key)` -/
  code : K → Int
  /-- `res, err := Compare(a, b); err == nil && res == 0` -/
  keq : K → K → Bool

abbrev Bucket (K V : Type) := List (K × V)
abbrev GoMap (K V : Type) := List (Int × Bucket K V)

section gomap
variable {K V : Type}

/-- `arr, ok := m[c]` -/
def mget : GoMap K V → Int → Option (Bucket K V)
  | [], _ => none
  | (c', b) :: r, c => if c' = c then some b else mget r c

/-- `delete(m, c)` -/
def mdel : GoMap K V → Int → GoMap K V
  | [], _ => []
  | (c', b) :: r, c => if c' = c then mdel r c else (c', b) :: mdel r c

/-- `m[c] = b` -/
def mput (m : GoMap K V) (c : Int) (b : Bucket K V) : GoMap K V := (c, b) :: mdel m c

/-- the loop of `HashCountKeys`: `for _, arr := range hash.Map { num += len(arr) }` -/
def msum : GoMap K V → Int
  | [] => 0
  | (_, b) :: r => (b.length : Int) + msum r

end gomap

structure Hash (K V : Type) where
  map : GoMap K V
  keyOrder : List K
  numKeys : Int

/-- `MakeHash(nil, "hash", env)` -/
def Hash.empty {K V : Type} : Hash K V := ⟨[], [], 0⟩

section ops
variable {K V : Type} (o : KeyOps K)

/-- loop of HashGetDefault over one bucket: first pair with `Compare(pair.Head, key) == 0` -/
def bfind : Bucket K V → K → Option V
  | [], _ => none
  | (k', v) :: r, k => if o.keq k' k then some v else bfind r k

/-- `HashGetDefault(env, key, SexpEnd)`; `none` = the default came back -/
def get? (h : Hash K V) (k : K) : Option V :=
  match mget h.map (o.code k) with
  | none => none
  | some b => bfind o b k

/-- HashSet (after key normalisation). The replace loop has no `break`: every pair whose head
compares equal is overwritten by `Cons(key, val)` (so the bucket takes the NEW spelling of
the key while KeyOrder keeps the first one). -/
def set (h : Hash K V) (k : K) (v : V) : Hash K V :=
  let c := o.code k
  match mget h.map c with
  | none => { map := mput h.map c [(k, v)], keyOrder := h.keyOrder ++ [k], numKeys := h.numKeys + 1 }
  | some b =>
    if b.any (fun e => o.keq e.1 k) then
      { h with map := mput h.map c (b.map (fun e => if o.keq e.1 k then (k, v) else e)) }
    else
      { map := mput h.map c (b ++ [(k, v)]), keyOrder := h.keyOrder ++ [k], numKeys := h.numKeys + 1 }

/-- bucket part of HashDelete: remove the first pair that compares equal; `none` = no such pair -/
def bremove : Bucket K V → K → Option (Bucket K V)
  | [], _ => none
  | (k', v') :: r, k => if o.keq k' k then some r else (bremove r k).map ((k', v') :: ·)

/-- KeyOrder part of the repaired HashDelete: drop the first entry that compares equal -/
def koRemove : List K → K → List K
  | [], _ => []
  | k' :: r, k => if o.keq k' k then r else k' :: koRemove r k

/-- HashDelete after fixes/C14-01: bookkeeping changes only when a pair was really removed;
an emptied bucket is deleted from the map. -/
def del (h : Hash K V) (k : K) : Hash K V :=
  let c := o.code k
  match mget h.map c with
  | none => h
  | some b =>
    match bremove o b k with
    | none => h
    | some b' =>
      { map := if b'.isEmpty then mdel h.map c else mput h.map c b'
        keyOrder := koRemove o h.keyOrder k
        numKeys := h.numKeys - 1 }

/-- HashCountKeys: `none` = the cross-check panic -/
def countKeys (h : Hash K V) : Option Int :=
  if msum h.map = h.numKeys then some (msum h.map) else none

/-- loop of HashPairi from `pos`: the first entry of KeyOrder that still resolves -/
def firstLive (h : Hash K V) : List K → Option (K × V)
  | [] => none
  | k :: r => match get? o h k with
    | some v => some (k, v)
    | none => firstLive h r

end ops

/-! ### observations -/

/-- What a script (or a Go caller of the builtins) can see of one operation. -/
inductive Obs (K V : Type) where
  | ok                                  -- hset / hdel returned nil
  | val (v : V)                         -- hget found
  | dflt                                -- 3-argument hget returned the default
  | err                                 -- script-level error
  | panic                               -- Go panic (a script sees an error naming the panic)
  | keys (ks : List K)
  | num (n : Int)
  | pair (k : K) (v : V)
  | pairs (l : List (K × V))            -- two-variable range, complete
  | text (rope : List String)           -- str / json: pieces to be concatenated
  deriving DecidableEq, Repr

/-- A script-level key: a normalised key, or the one-element array holding one. -/
inductive RKey (K : Type) where
  | plain (k : K)
  | arr1 (k : K)
  deriving DecidableEq, Repr

/-- "let single number keys work: h[6]=10" -/
def RKey.norm {K : Type} : RKey K → K
  | .plain k => k
  | .arr1 k => k

inductive Op (K V : Type) where
  | hset (k : RKey K) (v : V)
  | hdel (k : RKey K)
  | hget (k : RKey K)
  | hgetd (k : RKey K)
  | keys
  | len
  | hpair (pos : Nat)
  | range
  | str
  | json
  deriving DecidableEq, Repr

/-- How keys and values print. `sexp` = `SexpString(nil)`; `inHash` = the key text chosen by
the type switch in `SexpHash.SexpString` (strings in bare quotes, symbols by name). -/
structure Show (K V : Type) where
  sexp : K → String
  /-- `jsonKey(key)`: the complete JSON member name, quotes included (`jsonQuote` of the text of a
  string or symbol key, else of the printed form) -/
  jsonKey : K → String
  inHash : K → String
  val : V → String

section observers
variable {K V : Type} (o : KeyOps K) (sh : Show K V)

/-- HashPairi -/
def pairi (h : Hash K V) (pos : Nat) : Obs K V :=
  if (pos : Int) > h.numKeys then .err
  else match firstLive o h (h.keyOrder.drop pos) with
    | some (k, v) => .pair k v
    | none => .panic

/-- GenericHpairFunction on a hash -/
def hpair (h : Hash K V) (pos : Nat) : Obs K V :=
  if pos < h.keyOrder.length then pairi o h pos else .err

/-- RangePairFunction on a hash -/
def rangePair (h : Hash K V) (i : Nat) : Obs K V :=
  match countKeys h with
  | none => .panic
  | some n => if (i : Int) ≥ n then .err else pairi o h i

/-- the loop body binds `k, v` to each pair in turn; the first call that does not deliver a
pair ends the loop with that error -/
def collect : List (Obs K V) → List (K × V) → Obs K V
  | [], acc => .pairs acc
  | .pair k v :: r, acc => collect r (acc ++ [(k, v)])
  | other :: _, _ => other

/-- `for k, v = range h { … }`: `__rangeLen` once, then `__rangePair` for 0 ≤ i < len -/
def range (h : Hash K V) : Obs K V :=
  match countKeys h with
  | none => .panic
  | some n => collect ((List.range n.toNat).map (rangePair o h)) []

/-- `SexpHash.SexpString(nil)` for TypeName "hash", not pretty, not JSON. The string is
returned as pieces; the trailing `str[:len(str)-1]` removes the last piece, which is always
one byte long (`" "` or `"{"`). -/
def strRope (h : Hash K V) : List String :=
  let body := h.keyOrder.flatMap (fun k =>
    match get? o h k with
    | some v => [sh.inHash k ++ ":" ++ sh.val v, " "]
    | none => [])
  let s := "{" :: body
  if h.map.length > 0 then s.dropLast ++ ["}"] else s ++ ["}"]

/-- the first loop of jsonHashHelper; `none` = `panic(err)` on a key that does not resolve -/
def jsonFields (h : Hash K V) : List K → Option (List String)
  | [] => some []
  | k :: r => match get? o h k with
    | none => none
    | some v => (jsonFields h r).map ([sh.jsonKey k ++ ":" ++ sh.val v, ", "] ++ ·)

/-- jsonHashHelper -/
def jsonRope (h : Hash K V) : Option (List String) :=
  let head := ["{\"Atype\":\"hash\"", ", "]
  if h.keyOrder.length = 0 then some (head.dropLast ++ ["}"])
  else match jsonFields o sh h h.keyOrder with
    | none => none
    | some fs =>
      let ko := h.keyOrder.flatMap (fun k => [sh.jsonKey k, ", "])
      some ((head ++ fs ++ ["\"zKeyOrder\":["] ++ ko).dropLast ++ ["]", "}"])

/-- One builtin call: new state and what came back. -/
def step (h : Hash K V) : Op K V → Hash K V × Obs K V
  | .hset k v => (set o h k.norm v, .ok)
  | .hdel k => (del o h k.norm, .ok)
  | .hget k => (h, match get? o h k.norm with | some v => .val v | none => .err)
  | .hgetd k => (h, match get? o h k.norm with | some v => .val v | none => .dflt)
  | .keys => (h, .keys h.keyOrder)
  | .len => (h, match countKeys h with | some n => .num n | none => .panic)
  | .hpair pos => (h, hpair o h pos)
  | .range => (h, range o h)
  | .str => (h, .text (strRope o sh h))
  | .json => (h, match jsonRope o sh h with | some r => .text r | none => .panic)

/-- A whole history on one hash: the observation of every step. -/
def run (h : Hash K V) : List (Op K V) → List (Obs K V)
  | [] => []
  | op :: rest => let (h', ob) := step o sh h op; ob :: run h' rest

/-- The state after a history. -/
def exec (h : Hash K V) : List (Op K V) → Hash K V
  | [] => h
  | op :: rest => exec (step o sh h op).1 rest

end observers

end ZygoVerif.Hash
