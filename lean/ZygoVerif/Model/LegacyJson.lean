/-
The JSON encoder of zygo/jsonmsgp.go as it was BEFORE the fixes C11-01 / C11-02 (pinned
tree): scalars are their printed form (strings through strconv.Quote or back-ticks, nil
as `nil`), hash keys and the type name are the printed form pasted between quotes.
Kept for the `…_counterexample` theorems of Props/C11.lean. Core Lean only.
-/
import ZygoVerif.Model.Print
namespace ZygoVerif.LegacyJson
open ZygoVerif.Quote ZygoVerif.Print

def keyListTail : List (V × V) → Bytes
  | [] => []
  | (k, _) :: r => [0x2C, 0x20, 0x22] ++ sexpString k ++ [0x22] ++ keyListTail r

def keyList : List (V × V) → Bytes
  | [] => []
  | (k, _) :: r => [0x22] ++ sexpString k ++ [0x22] ++ keyListTail r

mutual
def sexpToJson : V → Bytes
  | .hash tn es =>
    asciiBytes "{\"Atype\":\"" ++ tn ++ [0x22] ++
      (if es.isEmpty then [0x7D]
       else members es ++ asciiBytes ", \"zKeyOrder\":[" ++ keyList es ++ [0x5D, 0x7D])
  | .arr l => 0x5B :: elems l ++ [0x5D]
  | .sym n => 0x22 :: n ++ [0x22]
  | .nil => sexpString .nil
  | .str s b => sexpString (.str s b)
  | .bool b => sexpString (.bool b)
  | .int n => sexpString (.int n)
  | .uint n => sexpString (.uint n)
  | .flt f => sexpString (.flt f)
  | .char c => sexpString (.char c)
  | .list l => sexpString (.list l)
def elems : List V → Bytes
  | [] => []
  | a :: r => sexpToJson a ++ elemsTail r
def elemsTail : List V → Bytes
  | [] => []
  | a :: r => [0x2C, 0x20] ++ sexpToJson a ++ elemsTail r
def members : List (V × V) → Bytes
  | [] => []
  | (k, v) :: r => [0x2C, 0x20, 0x22] ++ sexpString k ++ [0x22, 0x3A] ++ sexpToJson v ++ members r
end

end ZygoVerif.LegacyJson
