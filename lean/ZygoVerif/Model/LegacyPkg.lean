/-
The two path walkers as they are in the pinned tree, BEFORE fixes C18-01 / C18-02
(kept for the `…_counterexample` theorems of Props/C18.lean). Core Lean only.

Differences from `Model/Pkg.lean`:
* both hand-overs pass `dotpaths[1:]` of the CURRENT INVOCATION instead of the remaining
  path `dotpaths[i+1:]` (right only when the hand-over happens at i = 0);
* the hash walker never calls `errIfPrivate`.
A Go invocation is (`orig` = its `dotpaths`, `rest` = `dotpaths[i:]`). A hand-over starts a
new invocation on `orig.tail`, which is shorter than `orig`, so the walk terminates; the
model takes fuel (`orig.length * orig.length + 1` always suffices for one entry call).
-/
import ZygoVerif.Model.Pkg
namespace ZygoVerif.Pkg.Legacy
open ZygoVerif.Pkg

inductive LCur where
  | stack (name : Name) (scopes : List Nat)
  | hash (id : Nat)
  deriving DecidableEq, Repr

def walk (h : Heap) (sv : Option Val) : Nat → LCur → (orig rest : List Name) → Res
  | 0, _, _, _ => .error .other
  | _, _, _, [] => .error .other
  | fuel + 1, .stack _ scopes, orig, nm :: rest =>
    match lookupStack h nm scopes with
    | none => .error .notfound
    | some (v, sid) =>
      match rest with
      | [] =>
        match sv with
        | some x =>
          match errIfPrivate nm with
          | .error e => .error e
          | .ok _ => .ok (x, h.setScope sid nm x)
        | none =>
          match v with
          | .pkg _ _ => .ok (v, h)
          | _ =>
            match errIfPrivate nm with
            | .error e => .error e
            | .ok _ => .ok (v, h)
      | nxt :: more =>
        match v with
        | .hash hid =>
          match errIfPrivate nm with
          | .error e => .error e
          | .ok _ => walk h sv fuel (.hash hid) orig.tail orig.tail       -- x.nestedPathGetSet(env, dotpaths[1:], setVal)
        | .pkg pn sc => walk h sv fuel (.stack pn sc) orig (nxt :: more)  -- curStack = x
        | _ => .error .notrecord
  | fuel + 1, .hash hid, orig, nm :: rest =>
    match rest with
    | [] =>
      match sv with
      | some x => .ok (x, h.setHash hid nm x)
      | none =>
        match assocGet nm (h.hashObj hid) with
        | none => .error .notfound
        | some v => .ok (v, h)
    | nxt :: more =>
      match assocGet nm (h.hashObj hid) with
      | none => .error .notfound
      | some v =>
        match v with
        | .hash hid' => walk h sv fuel (.hash hid') orig (nxt :: more)            -- askh = x
        | .pkg pn sc => walk h sv fuel (.stack pn sc) orig.tail orig.tail         -- x.nestedPathGetSet(env, dotpaths[1:], setVal)
        | _ => .error .notrecord

def dotGetSet (h : Heap) (lex : List Nat) (sv : Option Val) : List Name → Res
  | [] => .error .other
  | root :: rest =>
    match lookupStack h root lex with
    | none => .error .notfound
    | some (v, _) =>
      match rest with
      | [] =>
        match sv with
        | none => .ok (v, h)
        | some _ => .error .other
      | _ :: _ =>
        let fuel := rest.length * rest.length + 1
        match v with
        | .pkg pn sc => walk h sv fuel (.stack pn sc) rest rest
        | .hash hid => walk h sv fuel (.hash hid) rest rest
        | _ => .error .notrecord

end ZygoVerif.Pkg.Legacy
