/-
Pre-fix variants of the C06 model, kept for the `…_counterexample` theorems.
-/
import ZygoVerif.Model.Pratt
namespace ZygoVerif.Pratt

/-- The table before fix C06-01: LeftBindingPower had no arm for *SexpChar / *SexpUint64. -/
def Table.legacy01 : Table := { Table.generated with lbpChar := none, lbpUint := none }

/-- The table before fix C06-02: LeftBindingPower had no arm for nil (*SexpSentinel). -/
def Table.legacy02 : Table := { Table.generated with lbpNull := none }

end ZygoVerif.Pratt
