/-
Pre-repair definitions of the VM model (C01), kept for `…_counterexample` theorems.
Core-only.
-/
import ZygoVerif.Model.VM
namespace ZygoVerif.VM.Legacy

/-- `Stack.TruncateToSize` before fix C01-01: a stack shorter than `n` was padded with nil
elements on top. -/
def truncate {α} (l : List (Option α)) (n : Nat) : List (Option α) :=
  if l.length ≥ n then l.drop (l.length - n) else List.replicate (n - l.length) none ++ l

/-- `restoreControlState` over the legacy truncation (data stack only: the component the
typed pop of `Run` touches next). -/
def restoreData (c : CtlState) : M Unit :=
  modify (fun s => { s with data := truncate s.data c.dataSize })

end ZygoVerif.VM.Legacy
