/-
Channel `lex`: `lex H=<codes> R=<codes>` — model of feeding H, `Lexer.Reset`, feeding R;
prints the state after every rune exactly as harness/overlay/parse.go does.
-/
import ZygoVerif.Model.Lexer
import ZygoVerif.Driver.Proto
namespace ZygoVerif.Driver.Lex
open ZygoVerif.Lexer ZygoVerif.Proto

def toChars? (s : String) : Option (List Char) :=
  (parseCodes? s).map (·.map Char.ofNat)

def showChars (l : List Char) : String := showCodes (l.map Char.toNat)

def showTok (t : Token) : String := s!"{t.typ.toNat}:{showChars t.str}"

def showShort (s : LexCore) : String :=
  s!"{s.state.toNat}.{s.prevrune.toNat}.{s.preBuiltinRune.toNat}.{s.priori}.{s.linenum}.{s.tokens.length}.{s.escDigits}.{s.escValue}.{if s.escByte then 1 else 0};{showChars s.buffer}"

def showFull (s : LexState) : String :=
  let toks := if s.tokens.isEmpty then "-" else ",".intercalate (s.tokens.map showTok)
  let ring := ".".intercalate (s.priorRune.map (toString ·.toNat))
  let cur := if s.stream.isSome then 1 else 0
  s!"{showShort s.toLexCore} ring={ring} toks={toks} prev={showTok s.prevToken} pprev={showTok s.prevPrevToken} cur={cur} next={s.next.length}"

def feedQuiet (s : LexState) : List Char → LexState
  | [] => s
  | c :: r => match s.step c with
    | .ok s' => feedQuiet s' r
    | .err _ s' => s'

def feedShow (s : LexState) (acc : List String) : List Char → LexState × List String
  | [] => (s, acc.reverse)
  | c :: r => match s.step c with
    | .ok s' => feedShow s' (showShort s'.toLexCore :: acc) r
    | .err e s' => (s', (s!"!{e.name} {showShort s'.toLexCore}" :: acc).reverse)

def handle (toks : List String) : String :=
  match toks with
  | [h, r] =>
    if h.startsWith "H=" && r.startsWith "R=" then
      match toChars? (h.drop 2).toString, toChars? (r.drop 2).toString with
      | some hs, some rs =>
        let s0 := (feedQuiet LexState.init hs).reset
        let (s1, out) := feedShow s0 [] rs
        " ".intercalate (out ++ ["| " ++ showFull s1]) ++ "\t-"
      | _, _ => "bad-op\t-"
    else "bad-op\t-"
  | _ => "bad-op\t-"

end ZygoVerif.Driver.Lex
