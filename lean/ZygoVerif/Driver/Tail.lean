/-
Channel `tail` (C09): the `eval` protocol with a second host function `probe` and
instructions for the driver in `+` tokens:

  tail [+m<k>] [+r<k>] [+f<steps>] [+e<i>=<value>] [+w<sec>] <text0> <text1> ...

  model column : the VM model on the first `k` texts (`+m<k>`, default all), `-` for the
                 others; per text `<class> <value> T[<trace>] D[<data>,<scope>,<addr>,<loop>]`,
                 the trace run-length encoded as in harness/ch_tail.go. `(probe s)` records
                 `P<s>:<data>/<scope>/<addr>`.
  spec column  : the reference evaluator on the first `k` texts (`+r<k>`, default all):
                 `<class> <value> T[<trace>]`, probes as `P<s>` (the reference has no
                 stacks). For a later text `i` with `+e<i>=<value>` (a closed form computed
                 by the generator): `ok <value> T[*]`; otherwise `-`. The reference keeps
                 its state only as long as it ran every text so far.
-/
import ZygoVerif.Driver.Eval
namespace ZygoVerif.Driver.Tail
open ZygoVerif.Core

def refFuel : Nat := 6000
def vmFuel : Nat := 1000000

/-- run-length encoding of a trace: `<entry>*<count>` for a run of equal entries. -/
def rleGo : Option (String × Nat) → List String → List String
  | none, [] => []
  | some (x, n), [] => [if n > 1 then s!"{x}*{n}" else x]
  | none, y :: ys => rleGo (some (y, 1)) ys
  | some (x, n), y :: ys =>
    if x == y then rleGo (some (x, n + 1)) ys
    else (if n > 1 then s!"{x}*{n}" else x) :: rleGo (some (y, 1)) ys

def rle (t : List String) : List String := rleGo none t

def showTrace (t : List String) : String := "T[" ++ ",".intercalate (rle t) ++ "]"

def vmInit : VM.St :=
  let s := VM.initSt
  match s.scopes with
  | g :: rest => { s with scopes := { g with vars := g.vars ++ [("probe", Val.builtin "probe")] } :: rest }
  | [] => s

def refInit : Ref.St :=
  let s := Ref.initSt
  match s.frames with
  | g :: rest => { s with frames := { g with vars := g.vars ++ [("probe", Val.builtin "probe")] } :: rest }
  | [] => s

structure Flags where
  m : Option Nat := none
  r : Option Nat := none
  expect : List (Nat × String) := []
  fuel : Nat := vmFuel

def parseFlag (f : Flags) (t : String) : Flags :=
  let body := (t.drop 1).toString
  if body.startsWith "m" then { f with m := (body.drop 1).toString.toNat? }
  else if body.startsWith "f" then { f with fuel := ((body.drop 1).toString.toNat?).getD vmFuel }
  else if body.startsWith "r" then { f with r := (body.drop 1).toString.toNat? }
  else if body.startsWith "e" then
    match ((body.drop 1).toString.splitOn "=") with
    | [i, v] => match i.toNat? with
      | some i => { f with expect := (i, v.replace "~" " ") :: f.expect }
      | none => f
    | _ => f
  else f

def specRecord : Ref.Outcome → String
  | .ok v t => s!"ok {v} {showTrace t}"
  | .err t => s!"err - {showTrace t}"
  | .timeout => "-"

def closedForm (f : Flags) (i : Nat) : String :=
  match f.expect.lookup i with
  | some v => s!"ok {v} T[*]"
  | none => "-"

def specHistory (f : Flags) : Nat → List String → Ref.St → Bool → List String
  | _, [], _, _ => []
  | i, t :: ts, s, alive =>
    let limit := f.r.getD (i + 1)
    if !alive || i ≥ limit then closedForm f i :: specHistory f (i + 1) ts s false else
    match readAll t with
    | none => closedForm f i :: specHistory f (i + 1) ts s false
    | some sxs =>
      let es := elabProgram sxs
      if !Ref.wfList {} es then closedForm f i :: specHistory f (i + 1) ts s false
      else
        let (o, s') := Ref.runProgram refFuel es s
        match o with
        | .timeout => closedForm f i :: specHistory f (i + 1) ts s false
        | _ => specRecord o :: specHistory f (i + 1) ts s' true

def modelRecord (o : VM.Outcome) : String :=
  match o with
  | .done cls v t d => s!"{cls} {v} {showTrace t} D[{d}]"
  | .dead => "dead"

def modelHistory (f : Flags) : Nat → List String → VM.St → Bool → List String
  | _, [], _, _ => []
  | i, t :: ts, s, alive =>
    if i ≥ f.m.getD (i + 1) then "-" :: modelHistory f (i + 1) ts s alive else
    if !alive then "dead" :: modelHistory f (i + 1) ts s false else
    match readAll t with
    | none => "cerr - T[] D[0,1,0,0]" :: modelHistory f (i + 1) ts s true
    | some sxs =>
      let (o, s', alive') := VM.runText f.fuel (elabProgram sxs) s
      modelRecord o :: modelHistory f (i + 1) ts s' alive'

def handle (toks : List String) : String :=
  let flags := (toks.filter (·.startsWith "+")).foldl parseFlag {}
  let texts := toks.filter (fun t => !t.startsWith "+")
  let m := " ;; ".intercalate (modelHistory flags 0 texts vmInit true)
  let s := " ;; ".intercalate (specHistory flags 0 texts refInit true)
  s!"{m}\t{s}"

end ZygoVerif.Driver.Tail
