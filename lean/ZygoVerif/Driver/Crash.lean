/-
Channel `crash` (C01): the model side answers what the front-end model predicts for the
chunk API of the parser — the status of every `ParseTokens` call and the number of
expressions — for single texts (`s`) and, as a running hash, for every string of an
enumeration range (`e`). Everything else the harness observes (outcome classes of the
entry points) has no model column: the property there is "not a panic", judged by the check
script on the implementation's answer alone.
-/
import ZygoVerif.Model.Parser
import ZygoVerif.Model.CoreSexp
import ZygoVerif.Model.GenSites
import ZygoVerif.Driver.Proto
import ZygoVerif.Driver.Lex
import ZygoVerif.Driver.Parse
namespace ZygoVerif.Driver.Crash
open ZygoVerif ZygoVerif.Lexer ZygoVerif.Parser ZygoVerif.Proto
open ZygoVerif.Driver.Lex (toChars?)

/-- `P:` record of the harness: statuses of `ParseTokens` after the text and after the end
of input, `/`, number of expressions returned by the last call. -/
def parseRecord (txt : List Char) : String :=
  let r := parseChunks [txt]
  Driver.Parse.showStatuses (r.trace ++ [r.status]) ++ "/" ++ toString r.exprs.length

/-- an enumeration alphabet: tokens, how they are joined, and what surrounds the sequence
(the same tables as `crashAlphabets` in harness/ch_crash.go) -/
structure Alphabet where
  pre : List Char := []
  sep : List Char := []
  suf : List Char := []
  toks : Array (List Char)

def charAlphabet (s : String) : Alphabet := { toks := (s.toList.map fun c => [c]).toArray }

def alphaA : String := "()[]{}%^~@:;,.-+1a\"'`/#\\ \n"

def seqToks : Array (List Char) :=
  #["a", "b", "1", "=", ":=", "\\", "(", ")", "[", "]", "'", ":", "&", "*"].map String.toList

def alphabet (name : String) : Option Alphabet :=
  if name == "A" then some (charAlphabet alphaA)
  else if name == "B" then some (charAlphabet "(){}[]:\"a1 \\.-")
  else if name == "C" then some (charAlphabet (alphaA ++ "=&$?!*<>|"))
  else if name == "T" then some { pre := ['('], sep := [' '], suf := [')'], toks := seqToks }
  else if name == "U" then some { pre := ['['], sep := [' '], suf := [']'], toks := seqToks }
  else if name == "V" then some { pre := ['{'], sep := [' '], suf := ['}'], toks := seqToks }
  else none

/-- string number `idx` of length `len` (base-|alpha| digits, most significant first) -/
def enumString (alpha : Alphabet) (len : Nat) (idx : Nat) : List Char :=
  let rec go : Nat → Nat → List (List Char) → List (List Char)
    | 0, _, acc => acc
    | k + 1, i, acc => go k (i / alpha.toks.size) (alpha.toks[i % alpha.toks.size]! :: acc)
  alpha.pre ++ (alpha.sep.intercalate (go len idx [])) ++ alpha.suf

def hashMod : Nat := 1000000007

def hashStep (h : Nat) (rec : String) : Nat :=
  let h := rec.toList.foldl (fun h c => (h * 131 + c.toNat) % hashMod) h
  (h * 131 + 10) % hashMod

def enumHash (alpha : Alphabet) (len : Nat) : Nat → Nat → Nat → Nat
  | 0, _, h => h
  | n + 1, i, h => enumHash alpha len n (i + 1) (hashStep h (parseRecord (enumString alpha len i)))

/-! ### The arity prologues of the special-form generators (`Model/GenSites.lean`)

For a text that is ONE list with a special-form head and whose atoms are all plain (decimal
ints, lower-case identifiers, strings: what the small reader of `Model/CoreSexp.lean` classifies
the way the real parser does), the model says whether the prologue of that `Generate*`
refuses the argument list (`G:err`) — then `LoadString` must fail in the implementation. -/

open ZygoVerif.Core in
def plainAtom (s : String) : Bool :=
  !s.isEmpty && s.toList.all (fun c => 'a' ≤ c && c ≤ 'z') && s != "true" && s != "false" && s != "nil"

open ZygoVerif.Core in
partial def plainSx : Sx → Bool
  | .int v => 0 ≤ v
  | .str _ => true
  | .sym s => plainAtom s
  | .list xs => xs.all plainSx
  | .arr xs => xs.all plainSx

open ZygoVerif.Core in
partial def argOf : Sx → GenSites.Arg
  | .sym s => .sym s
  | .str _ => .str
  | .int _ => .other
  | .arr xs => .arr (xs.map argOf)
  | .list [Sx.sym "quote", Sx.sym _] => .pair true
  | .list [] => .other          -- `()` is SexpNull, not a pair
  | .list _ => .pair false

open ZygoVerif.Core in
def prologueRecord (txt : List Char) : String :=
  match readAll (String.ofList txt) with
  | some [Sx.list (Sx.sym h :: args)] =>
    -- `mdef` recognises quoted targets with the laxer isQuotedSymbol: only symbol targets here
    let mdefOk := h != "mdef" || args.dropLast.all (fun a => match a with | Sx.list _ => false | _ => true)
    if GenSites.formNames.contains h && args.all plainSx && mdefOk && !(String.ofList txt).contains '~' then
      match GenSites.genForm (fun _ => pure ()) (fun _ => true) h (args.map argOf) with
      | .ok _ => "G:ok"
      | .error .err => "G:err"
      | .error .panic => "G:panic"
    else "G:*"
  | _ => "G:*"

def handle (toks : List String) : String :=
  match toks with
  | ["s", _, c] =>
    match toChars? c with
    | some txt =>
      -- the parser model re-measures its pending input at every token wait: quadratic in the
      -- text length; long texts (mutated corpus scripts) are compared by the `parse` channel of
      -- C13 instead, here only texts up to 300 runes
      if txt.length > 300 then "P:* G:*\t-" else s!"P:{parseRecord txt} {prologueRecord txt}\t-"
    | none => "bad-op\t-"
  | ["e", a, l, f, t] =>
    match alphabet a, l.toNat?, f.toNat?, t.toNat? with
    | some al, some len, some from_, some to =>
      s!"n={to - from_} h={enumHash al len (to - from_) from_ 0}\t-"
    | _, _, _, _ => "bad-op\t-"
  | _ => "-\t-"

end ZygoVerif.Driver.Crash
