/-
Channel `det` (C20): `det <nproc> <nrun> <program bytes>`. The model of the interpreter is a
function of the program text (every modelled map walk is permutation-invariant:
Props/C20.lean), so for every program the model's answer is "all runs agree"; the spec
(Spec.OrderFree.allRunsAgree over the outcomes) says the same. The implementation side
actually runs the program nproc*nrun times and answers `det` or `nondet …`.
-/
import ZygoVerif.Spec.OrderFree
import ZygoVerif.Driver.Proto
namespace ZygoVerif.Driver.Det
open ZygoVerif.Proto

def handle (toks : List String) : String :=
  match toks with
  | [np, nr, codes] =>
    let okCount (s : String) := s == "-" || s.toNat?.isSome
    if okCount np && okCount nr && (parseCodes? codes).isSome then "det\tdet" else "bad-op\t-"
  | _ => "bad-op\t-"

end ZygoVerif.Driver.Det
