/-
Channel `bal` (C04, translation validation): op = the structured listing of every function
the REAL generator compiled for one history (produced by harness/overlay/listing.go), one
token per function `kind/nformals/varargs/nfixed/name/instr;instr;…`. The driver runs the
verified checker `Bal.check` (Spec/Balanced.lean) on each function.

  model column : `ok <number of functions>` or `bad <name>@<reason>` for every refused function
  spec column  : `-`
-/
import ZygoVerif.Spec.Balanced
import ZygoVerif.Driver.Proto
namespace ZygoVerif.Driver.Bal
open ZygoVerif.Bal

def parseInt? (s : String) : Option Int :=
  if s.startsWith "-" then (s.drop 1).toNat?.map (fun n => - (n : Int)) else s.toNat?.map (fun n => (n : Int))

def parseInstr (s : String) : Option BInstr :=
  match s.splitOn ":" with
  | ["jump", a] => (parseInt? a).map .jump
  | ["goto", a] => (parseInt? a).map .goto
  | ["branch", d, a] => (parseInt? a).map (.branch (d == "1"))
  | ["push"] => some .push
  | ["pushmarker"] => some .pushMarker
  | ["pushlazy"] => some .pushLazy
  | ["pop"] => some .pop
  | ["dup"] => some .dup
  | ["envtostack"] => some .envToStack
  | ["popstackputenv"] => some .popStackPutEnv
  | ["update"] => some .update
  | ["call", n] => n.toNat?.map .call
  | ["callexpr", n] => n.toNat?.map .callExpr
  | ["dispatch", n] => n.toNat?.map .dispatch
  | ["ret", e] => some (.ret (e == "1"))
  | ["addscope"] => some .addScope
  | ["addfuncscope"] => some .addFuncScope
  | ["removescope"] => some .removeScope
  | ["explode"] => some .explode
  | ["squash"] => some .squash
  | ["bindlist", n] => n.toNat?.map .bindlist
  | ["vectorize"] => some .vectorize
  | ["hashize", n] => n.toNat?.map .hashize
  | ["label"] => some .label
  | ["break", l, off, p] => do some (.brk (← l.toNat?) (← parseInt? off) (← p.toNat?))
  | ["continue", l, off, p] => do some (.cont (← l.toNat?) (← parseInt? off) (← p.toNat?))
  | ["loopstart", l] => l.toNat?.map .loopStart
  | ["pushstackmark", s] => s.toNat?.map .pushMark
  | ["popuntilstackmark", s] => s.toNat?.map .popUntilMark
  | ["clearstackmark", s] => s.toNat?.map .clearMark
  | ["debug"] => some .debug
  | ["createclosure"] => some .createClosure
  | ["assign"] => some .assign
  | ["popscopetransfer"] => some .popScopeXfer
  | ["preparecall", n] => n.toNat?.map .prepareCall
  | ["tailguard", off] => (parseInt? off).map .tailGuard
  | _ => none

def parseKind : String → Option FnKind
  | "top" => some .top
  | "fn" => some .fn
  | "thunk" => some .thunk
  | _ => none

/-- `(name, function)`; `Except` carries the reason a token could not be read (an unknown
instruction type is a reason: the checker's enumeration no longer covers the code). -/
def parseFn (tok : String) : Except String (String × Fn) :=
  match tok.splitOn "/" with
  | [k, nf, va, nx, name, body] =>
    match parseKind k, nf.toNat?, nx.toNat? with
    | some kind, some nformals, some nfixed =>
      let recs := if body.isEmpty then [] else body.splitOn ";"
      match recs.mapM (fun r => (parseInstr r).elim (Except.error r) Except.ok) with
      | .ok code => .ok (name, { kind, nformals, varargs := va == "1", nfixed, code })
      | .error r => .error s!"{name}@unreadable-instruction-{r}"
    | _, _, _ => .error s!"{name}@unreadable-header"
  | _ => .error "?@unreadable-function-token"

def clean (s : String) : String := s.map (fun c => if c == ' ' || c == '\t' then '_' else c)

def verdict (tok : String) : Option String :=
  match parseFn tok with
  | .error e => some (clean e)
  | .ok (name, f) =>
    match check f with
    | .ok _ => none
    | .error e => some (clean s!"{name}@{e}")

def handle (toks : List String) : String :=
  match toks with
  | ["none"] => "ok 0\t-"
  | _ =>
    let bad := toks.filterMap verdict
    if bad.isEmpty then s!"ok {toks.length}\t-" else "bad " ++ " ".intercalate bad ++ "\t-"

end ZygoVerif.Driver.Bal
