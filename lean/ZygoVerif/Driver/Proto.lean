/-
Line-protocol helpers shared by all channels of `zydrv`. One op per input line, tokens
separated by single spaces; the driver answers one line per op: `<model>\t<spec>`
(`-` when the channel has no separate spec-side answer for that op).
-/
namespace ZygoVerif.Proto

def hexDigit? (c : Char) : Option Nat :=
  if '0' ≤ c ∧ c ≤ '9' then some (c.toNat - '0'.toNat)
  else if 'a' ≤ c ∧ c ≤ 'f' then some (c.toNat - 'a'.toNat + 10)
  else if 'A' ≤ c ∧ c ≤ 'F' then some (c.toNat - 'A'.toNat + 10)
  else none

def parseHex? (s : String) : Option Nat :=
  if s.isEmpty then none else
  s.foldl (fun acc c => match acc, hexDigit? c with
    | some a, some d => some (a * 16 + d)
    | _, _ => none) (some 0)

def toHex (n : Nat) : String :=
  String.ofList (Nat.toDigits 16 n)

/-- Decode a string sent as dot-separated decimal code points (`-` = empty). -/
def parseCodes? (s : String) : Option (List Nat) :=
  if s == "-" then some [] else
  (s.splitOn ".").mapM (fun t => t.toNat?)

def showCodes (l : List Nat) : String :=
  if l.isEmpty then "-" else ".".intercalate (l.map toString)

def splitLine (line : String) : List String :=
  (line.trimAsciiEnd.toString.splitOn " ").filter (· ≠ "")

end ZygoVerif.Proto
