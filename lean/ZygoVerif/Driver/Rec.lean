/-
Channel `rec` (C17). Line formats are documented in harness/ch_rec.go.
  rec <history>                      → `<model dump>\t-`   (model of the repaired code)
  rec legacy <history>               → the same with the model of the pinned tree
  rec judge <history> ## <dump>      → `<verdict>\t-` : the Lean *specification* judges a dump
                                       observed on the real code (`good`, or `bad step=<k> <why>`)
-/
import ZygoVerif.Model.Rec
import ZygoVerif.Spec.WellTyped
import ZygoVerif.Driver.Proto
namespace ZygoVerif.Driver.Rec
open ZygoVerif.Rec ZygoVerif.Proto

/-! ## parsing -/

def splitOnTok (sep : String) (toks : List String) : List (List String) :=
  let rec go (cur : List String) (acc : List (List String)) : List String → List (List String)
    | [] => (cur.reverse :: acc).reverse
    | t :: rest => if t == sep then go [] (cur.reverse :: acc) rest else go (t :: cur) acc rest
  go [] [] toks

def dropFirst (s : String) : String := String.ofList (s.toList.drop 1)

partial def parseTExpr (s : String) : Option TExpr :=
  match s.toList with
  | 's' :: rest => (parseTExpr (String.ofList rest)).map .slice
  | 'p' :: rest => (parseTExpr (String.ofList rest)).map .ptr
  | ['i'] => some (.base .int64)
  | ['t'] => some (.base .string)
  | ['f'] => some (.base .float64)
  | ['b'] => some (.base .bool)
  | ['?'] => some .unbound
  | 'S' :: rest => (String.ofList rest).toNat?.map .ref
  | _ => none

def parseKey (s : String) : Option Key :=
  match s.toList with
  | ':' :: rest => (String.ofList rest).toNat?.map .sym
  | '"' :: rest => (String.ofList rest).toNat?.map .str
  | '#' :: rest => (String.ofList rest).toInt?.map .int
  | _ => none

def lastIndexOf (l : List Char) (c : Char) : Option Nat :=
  let rec go (i : Nat) (best : Option Nat) : List Char → Option Nat
    | [] => best
    | x :: rest => go (i + 1) (if x == c then some i else best) rest
  go 0 none l

partial def parseVExpr (s : String) : Option VExpr :=
  if s == "n" then some .nil
  else if s == "u" then some .uint
  else if s == "d" then some .float
  else if s == "b" then some .bool
  else if s == "c" then some .char
  else if s == "y" then some .sym
  else if s == "l" then some .list
  else if s == "[]" then some .arr0
  else if s == "&i" then some .addrInt
  else match s.toList with
    | 'i' :: rest => (String.ofList rest).toInt?.map .int
    | 't' :: rest => (String.ofList rest).toNat?.map .str
    | 'v' :: rest => (String.ofList rest).toNat?.map .var
    | '&' :: rest => (String.ofList rest).toNat?.map .addr
    | 'g' :: rest =>
      match (String.ofList rest).splitOn "." with
      | [a, b] => match a.toNat?, b.toNat? with
        | some x, some f => some (.fieldOf x f)
        | _, _ => none
      | _ => none
    | '[' :: rest =>
      match lastIndexOf rest '|' with
      | none => none
      | some i =>
        match (String.ofList (rest.drop (i + 1))).toNat?, parseVExpr (String.ofList (rest.take i)) with
        | some r, some f => if r < 4 then some (.arr f r) else none
        | _, _ => none
    | _ => none

/-- the decoder only sees JSON-expressible values -/
def isJVal : VExpr → Bool
  | .nil | .int _ | .float | .bool | .str _ | .arr0 => true
  | .arr f _ => isJVal f
  | _ => false

def parsePairs : List String → Option (List (Key × VExpr))
  | [] => some []
  | k :: v :: rest =>
    match parseKey k, parseVExpr v, parsePairs rest with
    | some k, some v, some r => some ((k, v) :: r)
    | _, _, _ => none
  | _ => none

def parseFieldDecls : List String → Option (List (Nat × TExpr))
  | [] => some []
  | f :: t :: rest =>
    match f.toNat?, parseTExpr t, parseFieldDecls rest with
    | some f, some t, some r => some ((f, t) :: r)
    | _, _, _ => none
  | _ => none

def parseJPairs : List String → Option (List (Nat × VExpr))
  | [] => some []
  | f :: v :: rest =>
    match f.toNat?, parseVExpr v, parseJPairs rest with
    | some f, some v, some r => if isJVal v then some ((f, v) :: r) else none
    | _, _, _ => none
  | _ => none

def routeCode : String → Option Nat
  | "h" => some 0 | "d" => some 1 | "x" => some 2 | "." => some 3 | "s" => some 4
  | "q" => some 5 | "a" => some 6 | _ => none

def parseOrder (s : String) : Option (Option (List Nat)) :=
  if s == "-" then some none
  else if s.toList.all Char.isDigit then some (some (s.toList.map (fun c => c.toNat - '0'.toNat)))
  else none

def parseStep : List String → Option Op
  | "D" :: n :: nf :: rest =>
    match n.toNat?, nf.toNat?, parseFieldDecls rest with
    | some n, some nf, some fs => if fs.length = nf then some (.decl n fs) else none
    | _, _, _ => none
  | "M" :: slot :: n :: np :: rest =>
    match slot.toNat?, n.toNat?, np.toNat?, parsePairs rest with
    | some slot, some n, some np, some ps => if ps.length = np then some (.mk slot n ps) else none
    | _, _, _, _ => none
  | "H" :: slot :: np :: rest =>
    match slot.toNat?, np.toNat?, parsePairs rest with
    | some slot, some np, some ps => if ps.length = np then some (.mkHash slot ps) else none
    | _, _, _ => none
  | ["W", route, slot, key, v] =>
    match routeCode route, slot.toNat?, parseKey key, parseVExpr v with
    | some r, some slot, some k, some v =>
      -- the selector route takes non-symbol keys, the dot routes symbol keys only
      -- (5 = selector with a quoted field symbol, 6 = hset with the key in a one-element array)
      if (r == 2 && k.isSym) || ((r == 3 || r == 4 || r == 5) && !k.isSym) then none else some (.write r slot k v)
    | _, _, _, _ => none
  | "P" :: route :: slot :: np :: rest =>
    match routeCode route, slot.toNat?, np.toNat? with
    | some r, some slot, some np =>
      if (r == 3 || r == 4) && np ≥ 2 && rest.length = np + 1 then
        match (rest.take np).mapM (·.toNat?), parseVExpr (rest.getD np "") with
        | some p, some v => some (.path r slot p v)
        | _, _ => none
      else none
    | _, _, _ => none
  | "R" :: slot :: n :: np :: rest =>
    match slot.toNat?, n.toNat?, np.toNat?, parsePairs rest with
    | some slot, some n, some np, some ps => if ps.length = np then some (.derefSet slot n ps) else none
    | _, _, _, _ => none
  | "J" :: fmt :: slot :: n :: ko :: np :: rest =>
    match slot.toNat?, n.toNat?, parseOrder ko, np.toNat?, parseJPairs rest with
    | some slot, some n, some o, some np, some ps =>
      if ps.length = np && (fmt == "j" || fmt == "m") then some (.decode (if fmt == "j" then 0 else 1) slot n o ps) else none
    | _, _, _, _, _ => none
  | _ => none

def parseHistory (toks : List String) : Option (List Op) :=
  ((splitOnTok ";" toks).filter (· ≠ [])).mapM parseStep

/-! ## canonical dump of a model state (must print exactly what harness/ch_rec.go prints) -/

def tyNameStr : TyName → String
  | .int64 => "int64" | .uint64 => "uint64" | .float64 => "float64" | .bool => "bool"
  | .int32 => "rune" | .string => "string" | .symbol => "symbol" | .hash => "hash"
  | .emptyArr => "[]"
  | .struct n => s!"S{n}"
  | .slice e => "[]" ++ tyNameStr e
  | .ptr e => "*" ++ tyNameStr e

/-- slots in ascending order with their current binding -/
def boundSlots (slots : List (Nat × Nat)) : List (Nat × Nat) :=
  let names := (slots.map (·.1)).eraseDups
  let sorted := names.toArray.qsort (· < ·) |>.toList
  sorted.filterMap (fun n => (slots.lookup n).map (fun id => (n, id)))

def slotOf (s : St) (id : Nat) : String :=
  match (boundSlots s.slots).find? (fun p => p.2 == id) with
  | some (n, _) => s!"@{n}"
  | none => "^anon"

def codes (str : String) : String := showCodes (str.toUTF8.toList.map (·.toNat))

def restDigests : Nat → List String
  | 1 => ["2"] | 2 => ["97"] | 3 => ["_", "1"] | _ => []

def digest (s : St) : Val → String
  | .int n => toString n
  | .str k => codes s!"s{k}"
  | .recd id => slotOf s id
  | .ptr (some id) _ => "&" ++ slotOf s id
  | .ptr none _ => "&_"
  | .arr0 => "[]"
  | .arr f r => "[" ++ ",".intercalate (digest s f :: restDigests r) ++ "]"
  | _ => "_"

def typeTok (s : St) (v : Val) : String :=
  match v with
  | .nil => "nil"
  | .recd id =>
    match s.heap[id]? with
    | some i => tyNameStr i.tname ++ "#" ++ toString (i.defn.getD 0)
    | none => "nt"
  | _ =>
    match typeOf fixed s v with     -- for non-record values `typeOf` does not depend on the fix
    | none => "nt"
    | some t => tyNameStr t.name ++ "#" ++ toString t.gen

def keyTok : Key → String
  | .sym k => s!":f{k}"
  | .str k => "\"" ++ codes s!"f{k}"
  | .int n => s!"#{n}"

def dumpInst (s : St) (slot id : Nat) : String :=
  match s.heap[id]? with
  | none => ""
  | some i =>
    let g := match i.defn with | some g => toString g | none => "-"
    let fs := i.fields.map (fun kv => " " ++ keyTok kv.1 ++ " " ++ typeTok s kv.2 ++ "=" ++ digest s kv.2)
    s!" I @{slot} {tyNameStr i.tname} {g} {i.fields.length}" ++ String.join fs

def dumpState (s : St) : String := String.join ((boundSlots s.slots).map (fun p => dumpInst s p.1 p.2))

def showRun (rs : List (St × Bool)) : String :=
  " ; ".intercalate (rs.map (fun r => (if r.2 then "ok" else "err") ++ dumpState r.1))

/-! ## the specification judging an observed dump -/

open ZygoVerif.Rec.Spec in
def parseTyTok (s : String) : Option (Bool × Option Ty) :=
  -- returns (isNil, type)
  if s == "nil" then some (true, none)
  else if s == "nt" then some (false, none)
  else
    match s.splitOn "#" with
    | [name, g] =>
      let rec nm (l : List Char) (fuel : Nat) : Option TyName :=
        match fuel with
        | 0 => none
        | fuel + 1 =>
          match l with
          | '[' :: ']' :: [] => some .emptyArr
          | '[' :: ']' :: rest => (nm rest fuel).map .slice
          | '*' :: rest => (nm rest fuel).map .ptr
          | 'S' :: rest => (String.ofList rest).toNat?.map .struct
          | _ =>
            match String.ofList l with
            | "int64" => some .int64 | "uint64" => some .uint64 | "float64" => some .float64
            | "bool" => some .bool | "rune" => some .int32 | "string" => some .string
            | "symbol" => some .symbol | "hash" => some .hash | _ => none
      match nm name.toList (name.length + 1), g.toNat? with
      | some n, some g => some (false, some ⟨n, g⟩)
      | _, _ => none
    | _ => none

open ZygoVerif.Rec.Spec in
def parseObsKey (s : String) : Option Key :=
  match s.toList with
  | ':' :: 'f' :: rest => (String.ofList rest).toNat?.map .sym
  | '"' :: _ => some (.str 0)       -- any string key: not a declared field
  | '#' :: rest => (String.ofList rest).toInt?.map .int
  | _ => none

open ZygoVerif.Rec.Spec in
/-- parses the `I …` records of one step -/
partial def parseInsts : List String → Option (List InstView)
  | [] => some []
  | "I" :: id :: tname :: gen :: nf :: rest =>
    match nf.toNat?, parseTyTok (tname ++ "#0") with
    | some nf, some (_, some t) =>
      let ftoks := rest.take (2 * nf)
      let rec fields : List String → Option (List (Key × ValView))
        | [] => some []
        | k :: v :: more =>
          match v.splitOn "=" with
          | ty :: dg =>
            match parseObsKey k, parseTyTok ty, fields more with
            | some k, some (isNil, t), some r => some ((k, ⟨isNil, t, "=".intercalate dg⟩) :: r)
            | _, _, _ => none
          | _ => none
        | _ => none
      if ftoks.length ≠ 2 * nf then none else
      match fields ftoks, parseInsts (rest.drop (2 * nf)) with
      | some fs, some r => some (⟨id, t.name, if gen == "-" then none else gen.toNat?, fs⟩ :: r)
      | _, _ => none
    | _, _ => none
  | _ => none

open ZygoVerif.Rec.Spec in
def declOf : Op → Option (Nat × List (Nat × TExpr))
  | .decl n fs => some (n, fs)
  | _ => none

open ZygoVerif.Rec.Spec in
/-- What the property requires of the observed history:
 (1) after every step all observed instances are well typed w.r.t. the declarations as written;
 (2) a step that reported an error left every observed instance unchanged;
 (3) a construction / decoding that reported success produced an instance with exactly the
     fields that were given (nothing silently dropped). -/
def judge (ops : List Op) (steps : List (Bool × List InstView)) : String :=
  let decls := declTable 1 [] (ops.map declOf)
  let rec go (k : Nat) (prev : List InstView) : List Op → List (Bool × List InstView) → String
    | op :: ops, (ok, snap) :: rest =>
      if !wellTypedB decls snap then
        let badI := (snap.filter (fun i => !wellTypedInstB decls i)).map (·.id)
        s!"bad step={k} ill-typed-instance {badI}"
      else if !ok && decide (snap ≠ prev) then s!"bad step={k} rejected-update-changed-an-instance"
      else
        let created : Option (Nat × Nat) := match op with
          | .mk slot _ ps => some (slot, (ps.map (·.1)).eraseDups.length)
          | .decode _ slot _ _ ps => some (slot, (ps.map (·.1)).eraseDups.length)
          | _ => none
        match ok, created with
        | true, some (slot, n) =>
          match snap.find? (fun i => i.id == s!"@{slot}") with
          | some i => if i.fields.length = n then go (k + 1) snap ops rest else s!"bad step={k} success-but-fields-missing"
          | none => s!"bad step={k} success-but-no-instance"
        | _, _ => go (k + 1) snap ops rest
    | [], [] => "good"
    | _, _ => "bad step-count"
  go 1 [] ops steps

open ZygoVerif.Rec.Spec in
def parseDump (toks : List String) : Option (List (Bool × List InstView)) :=
  (splitOnTok ";" toks).mapM fun st =>
    match st with
    | "ok" :: rest => (parseInsts rest).map (fun is => (true, is))
    | "err" :: rest => (parseInsts rest).map (fun is => (false, is))
    | _ => none

def handle (toks : List String) : String :=
  match toks with
  | "judge" :: rest =>
    match splitOnTok "##" rest with
    | [h, d] =>
      match parseHistory h, parseDump d with
      | some ops, some steps => judge ops steps ++ "\t-"
      | none, _ => "bad-op\t-"
      | _, none => "bad-dump\t-"
    | _ => "bad-op\t-"
  | "legacy" :: rest =>
    match parseHistory rest with
    | some ops => if ops.isEmpty then "bad-op\t-" else showRun (run legacy 1 {} ops) ++ "\t-"
    | none => "bad-op\t-"
  | _ =>
    match parseHistory toks with
    | some ops => if ops.isEmpty then "bad-op\t-" else showRun (run fixed 1 {} ops) ++ "\t-"
    | none => "bad-op\t-"

end ZygoVerif.Driver.Rec
