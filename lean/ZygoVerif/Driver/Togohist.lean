/-
Channel `togohist` (C10): a HISTORY on shared records in one op line.
  togohist <root> W <world…> E <term…> Q <step…> X -
<world>, <term>: as in channel `togo` (every record `H<id>:…` of the term can be addressed by its id).
<step>:  T<id>               (togo r)
         S<id> <key> <term>  (hset r key val)   — the value may hold new records and `R<id>` references
         E<id>               (_method o Echo<T>: r)     r is an argument, the struct comes back
         U<id>               (_method o Touch<T>: r)    the method mutates the struct it was handed
         G<id>               the record as the script sees it
         V<id>               (_method r Self:)          r is the receiver
Answer: the step answers joined by `;` — a canonical Go tree (T), a canonical record (E U G V), `ok`
(S), `err` (the history ends there). Spec column per step: `<tree>`, `<tree>|err`, `err`, `?`
(unspecified, any outcome accepted); `-` for the whole line when the spec has no answer.
-/
import ZygoVerif.Model.ToGoHist
import ZygoVerif.Spec.RecordGoHist
import ZygoVerif.Driver.Togo
namespace ZygoVerif.Driver.Togohist
open ZygoVerif.ToGo ZygoVerif.ToGoHist ZygoVerif.Proto ZygoVerif ZygoVerif.Driver.Togo

/- parse result: value with references, records defined on the way, ids known so far, rest -/

mutual
partial def parseTermH (known : List Nat) : List String → Option (Sx × List Ent × List Nat × List String)
  | [] => none
  | t :: r =>
    let rest := dropS t 1
    match t.toList.headD ' ' with
    | 'A' => do
      let k ← rest.toNat?
      let (xs, es, kn, r') ← parseTermsH k known r
      pure (.arr xs, es, kn, r')
    | 'R' => do
      let id ← rest.toNat?
      if known.contains id then pure (.hash id "" [], [], known, r) else none
    | 'H' =>
      match rest.splitOn ":" with
      | [ids, ks, tn] => do
        let id ← ids.toNat?
        let k ← ks.toNat?
        let (kvs, es, kn, r') ← parseKVsH k known r
        pure (.hash id tn [], es ++ [⟨id, tn, kvs⟩], id :: kn, r')
      | _ => none
    | _ =>
      -- atoms: the parser of channel `togo`
      match parseTerm [] [t] with
      | some (x, _, []) => some (x, [], known, r)
      | _ => none
partial def parseTermsH : Nat → List Nat → List String → Option (List Sx × List Ent × List Nat × List String)
  | 0, known, r => some ([], [], known, r)
  | n+1, known, r => do
    let (x, e1, k1, r1) ← parseTermH known r
    let (xs, e2, k2, r2) ← parseTermsH n k1 r1
    pure (x :: xs, e1 ++ e2, k2, r2)
partial def parseKVsH : Nat → List Nat → List String → Option (List (Key × Sx) × List Ent × List Nat × List String)
  | 0, known, r => some ([], [], known, r)
  | _, _, [] => none
  | n+1, known, kt :: r => do
    let key ← parseKey kt
    let (x, e1, k1, r1) ← parseTermH known r
    let (kvs, e2, k2, r2) ← parseKVsH n k1 r1
    pure ((key, x) :: kvs, e1 ++ e2, k2, r2)
end

partial def parseSteps (known : List Nat) : List String → Option (List Step × List Ent)
  | [] => some ([], [])
  | t :: r =>
    match (dropS t 1).toNat? with
    | none => none
    | some id =>
      if !known.contains id then none else
      match t.toList.headD ' ' with
      | 'S' =>
        match r with
        | kt :: r1 => do
          let key ← parseKey kt
          let (v, es, kn, r2) ← parseTermH known r1
          let (ss, es2) ← parseSteps kn r2
          pure (.hset id key v :: ss, es ++ es2)
        | [] => none
      | c => do
        let s ← (match c with
          | 'T' => some (Step.togo id) | 'E' => some (Step.echo id) | 'U' => some (Step.touch id)
          | 'G' => some (Step.read id) | 'V' => some (Step.self id) | _ => none)
        let (ss, es) ← parseSteps known r
        pure (s :: ss, es)

def showAns (w : World) : Ans → String
  | .go heap o => (canonGo w (fun i => heap[i]?) [] (.ptr (some o))).1
  | .sx x => canonSx x
  | .ok => "ok"
  | .err => "err"
  | .fuel => "model-out-of-scope"

def showSAns (w : World) : SpecToGoHist.SAns → String
  | .go objs v strict =>
    let tree := (canonGo w (fun i => (objs.find? (·.1 == i)).map (·.2)) [] v).1
    if strict then tree else tree ++ "|err"
  | .back objs v strict =>
    let tree := canonSx (backSpec w (fun i => (objs.find? (·.1 == i)).map (·.2)) v)
    if strict then tree else tree ++ "|err"
  | .record x => canonSx x
  | .ok => "ok"
  | .err => "err"
  | .unspecified => "?"
  | .noanswer => "-"

def isNoAnswer : SpecToGoHist.SAns → Bool | .noanswer => true | _ => false

def handle (toks : List String) : String :=
  match toks with
  | _root :: "W" :: rest =>
    match splitAt "E" rest with
    | none => "bad-op\t-"
    | some (wtoks, rest2) =>
      match splitAt "Q" rest2 with
      | none => "bad-op\t-"
      | some (ttoks, rest3) =>
        if rest3.length < 2 then "bad-op\t-" else
        let stoks := rest3.take (rest3.length - 2)
        match parseWorld wtoks, parseTermH [] ttoks with
        | some w, some (_, ents, known, []) =>
          match parseSteps known stoks with
          | none => "bad-op\t-"
          | some (steps, ents2) =>
            -- records defined inside later `hset` values are unreachable until that step links them
            let store : Store := (ents ++ ents2).foldl (fun s e => s.put e) []
            let m : String :=
              ";".intercalate ((run w fuel ⟨store, [], []⟩ steps).1.map (showAns w))
            let sa := SpecToGoHist.run w fuel ⟨store, []⟩ steps
            let s : String := if sa.any isNoAnswer then "-" else ";".intercalate (sa.map (showSAns w))
            s!"{m}\t{s}"
        | _, _ => "bad-op\t-"
  | _ => "bad-op\t-"

end ZygoVerif.Driver.Togohist
