/-
Channel `contain` (C05). The judgement "the failure was contained" is relational (the
interpreter after the failure vs a twin that only ran the prefix) and is computed by the
harness on the real code; the Lean side contributes what the control model predicts: the
depths after the failure are those captured on entry. Op: `contain <kind> <site> <count>
<depth-before d,s,a> <hex program…>`; answer `contained d,s,a`.
-/
import ZygoVerif.Model.Control
import ZygoVerif.Driver.Proto
namespace ZygoVerif.Driver.Contain
open ZygoVerif.Control

def mkCtl (d s a : Nat) : Ctl Unit Unit Unit Unit :=
  { data := List.replicate d (some ()), scopeId := 0, scopes := fun _ => List.replicate s (some ()),
    addr := List.replicate a (some ()), curfunc := (), pc := 0 }

def handle (toks : List String) : String :=
  match toks with
  | _kind :: _site :: _count :: before :: _ =>
    match (before.splitOn ",").map String.toNat? with
    | [some d, some s, some a] =>
      let entry := mkCtl d s a
      -- an arbitrary disturbed intermediate state: the model's answer does not depend on it
      let mid : Ctl Unit Unit Unit Unit := { mkCtl (d + 3) (s + 2) (a + 1) with pc := 17 }
      let (d', s', a') := depths (runErrorExit (fun _ => 0) entry mid)
      let ans := s!"contained {d'},{s'},{a'}"
      s!"{ans}\t{ans}"
    | _ => "bad-op\t-"
  | _ => "bad-op\t-"

end ZygoVerif.Driver.Contain
