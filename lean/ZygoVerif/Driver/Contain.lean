/-
Channel `contain` (C05). The judgement "the failure was contained" is relational (the
interpreter after the failure vs a twin that only ran the prefix) and is computed by the
harness on the real code; the Lean side contributes what the control model predicts: the
depths after the failure are those captured on entry. Op: `contain <kind> <site> <count>
<depth-before d,s,a> <hex program…>`; answer `contained d,s,a`.
-/
import ZygoVerif.Model.Control
import ZygoVerif.Model.VM
import ZygoVerif.Spec.RefEval
import ZygoVerif.Driver.Eval
import ZygoVerif.Driver.Proto
namespace ZygoVerif.Driver.Contain
open ZygoVerif.Control

/-! ## ops of kind `core`: the failing history on the executable VM model, the twin history on
the reference evaluator

`contain core <site> <count> 0,1,0 <history A> <history B> <sub-kind>`; a history is a list of
texts joined by `|` (blank = `~`). Model column: history A (setup | failing program | battery)
run on `VM.runText` from the fresh interpreter, one record per text
`<class> <value> T[…] D[d,s,a,l] E[end|not] B[global|nil|other|empty]` — class, value, the four
depths, "curfunc = mainfunc and pc at/behind its end", and what stands at the bottom of the
scope stack: exactly what `vm_text_error_at_rest` / `VmErrorAtRestExact` speak about.
Spec column, written from the property text: the setup answers as the reference evaluator
says; the failing program answers `err` (an error is never swallowed) and leaves the
interpreter at rest; every later text answers what the reference evaluator answers on the
TWIN history B (setup | prefix | battery) — and leaves the interpreter at rest. `-` when the
reference evaluator does not decide (text outside its domain, fuel). -/

def atRestSuffix : String := "D[0,1,0,0] E[end] B[global]"

def vmEnd (s : VM.St) : String :=
  if s.curfunc == VM.mainFn && decide (VM.curSize s ≤ s.pc) then "end" else "not"

def vmBottom (s : VM.St) : String :=
  match s.linear.getLast? with
  | none => "empty"
  | some none => "nil"
  | some (some 0) => "global"
  | some (some _) => "other"

def vmRecord (o : VM.Outcome) (s : VM.St) : String :=
  match o with
  | .done cls v t d =>
    if cls == "panic" || cls == "timeout" then s!"{cls} {v} {Eval.showTrace t} D[{d}]"
    else s!"{cls} {v} {Eval.showTrace t} D[{d}] E[{vmEnd s}] B[{vmBottom s}]"
  | .dead => "dead"

def vmHistory : List String → VM.St → Bool → List String
  | [], _, _ => []
  | t :: ts, s, alive =>
    if !alive then "dead" :: vmHistory ts s false else
    match Core.readAll t with
    | none => s!"cerr - T[] D[{VM.depths s}] E[{vmEnd s}] B[{vmBottom s}]" :: vmHistory ts s true
    | some sxs =>
      let (o, s', alive') := VM.runText Eval.vmFuel (Core.elabProgram sxs) s
      vmRecord o s' :: vmHistory ts s' alive'

/-- the reference evaluator on a history; `none` = undecided -/
def refHistory : List String → Ref.St → Option (List Ref.Outcome)
  | [], _ => some []
  | t :: ts, s =>
    match Core.readAll t with
    | none => none
    | some sxs =>
      let es := Core.elabProgram sxs
      if !Ref.wfList {} es then none
      else
        let (o, s') := Ref.runProgram Eval.refFuel es s
        match o with
        | .timeout => none
        | _ => (refHistory ts s').map (o :: ·)

def refRecord : Ref.Outcome → String
  | .ok v t => s!"ok {v} {Eval.showTrace t} {atRestSuffix}"
  | .err t => s!"err - {Eval.showTrace t} {atRestSuffix}"
  | .timeout => "-"

def coreSpec (site : String) (histB : List String) : String :=
  match refHistory histB Ref.initSt with
  | none => "-"
  | some (setup :: prefixO :: rest) =>
    let okPrefix := match prefixO with | .ok _ _ => true | _ => false
    if !okPrefix then "-" else
    -- the failing program: an error, at rest (control op `site = 0`: the program itself, a value)
    let progRec := if site == "0" then refRecord prefixO else s!"err - T[] {atRestSuffix}"
    "contained " ++ " ;; ".intercalate (refRecord setup :: progRec :: rest.map refRecord)
  | some _ => "-"

def handleCore (toks : List String) : String :=
  match toks with
  | site :: _count :: _before :: ha :: hb :: _ =>
    let histA := ha.splitOn "|"
    let histB := hb.splitOn "|"
    let m := "contained " ++ " ;; ".intercalate (vmHistory histA VM.initSt true)
    s!"{m}\t{coreSpec site histB}"
  | _ => "bad-op\t-"

def mkCtl (d s a : Nat) : Ctl Unit Unit Unit Unit :=
  { data := List.replicate d (some ()), scopeId := 0, scopes := fun _ => List.replicate s (some ()),
    addr := List.replicate a (some ()), curfunc := (), pc := 0 }

def handle (toks : List String) : String :=
  match toks with
  | "core" :: rest => handleCore rest
  | _kind :: _site :: _count :: before :: _ =>
    match (before.splitOn ",").map String.toNat? with
    | [some d, some s, some a] =>
      let entry := mkCtl d s a
      -- an arbitrary disturbed intermediate state: the model's answer does not depend on it
      let mid : Ctl Unit Unit Unit Unit := { mkCtl (d + 3) (s + 2) (a + 1) with pc := 17 }
      let (d', s', a') := depths (runErrorExit (fun _ => 0) entry mid)
      let ans := s!"contained {d'},{s'},{a'}"
      s!"{ans}\t{ans}"
    | _ => "bad-op\t-"
  | _ => "bad-op\t-"

end ZygoVerif.Driver.Contain
