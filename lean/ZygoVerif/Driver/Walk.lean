/-
Channel `walk` (C20): ties Model/MapWalk.lean to the real functions.
  walk sorted <k1> <k2> …      keys (dot-coded strings) in the order the harness inserted
                               them; answer = the sorted key slice, `,`-joined codes
  walk api <entry> <program>   an exported conversion entry point called directly on the value of
                               the program, in 8 fresh interpreters: every modelled walk is
                               permutation-invariant, so model and spec answer `stable`
  walk intern <k1> <k2> … [| <z1> <z2> …]
                               a JSON object with these member names (values are numbers;
                               a member `Atype` holds a string) and, after `|`, a member
                               `zKeyOrder` listing those strings, decoded by the real
                               GoToSexp in a fresh interpreter; answer = the names the decode
                               interned, in symbol-NUMBER order
The model is run on the given order AND on its reverse (two iteration orders); both must
agree (they do, by the theorems) — the answer carries the first. Spec = order-free spec.
-/
import ZygoVerif.Model.MapWalk
import ZygoVerif.Spec.OrderFree
import ZygoVerif.Driver.Proto
namespace ZygoVerif.Driver.Walk
open ZygoVerif.Proto ZygoVerif.MapWalk

def decodeStr (s : String) : Option String := do
  let cs ← parseCodes? s
  some (String.ofList (cs.map Char.ofNat))

def encodeStr (s : String) : String := showCodes (s.toList.map Char.toNat)

def handle (toks : List String) : String :=
  match toks with
  | "sorted" :: ks =>
    match ks.mapM decodeStr with
    | some keys =>
      let m := keys.zipIdx
      let a := (makeSortedSlicesFromMap m).1
      let b := (makeSortedSlicesFromMap m.reverse).1
      let s := (Spec.OrderFree.sortedListing m).map (·.1)
      let sh (l : List String) := ",".intercalate (l.map encodeStr)
      if a == b then s!"{sh a}\t{sh s}" else s!"MODEL-ORDER-DEPENDENT\t{sh s}"
    | none => "bad-op\t-"
  | ["api", _entry, prog] =>
    if (parseCodes? prog).isSome then "stable\tstable" else "bad-op\t-"
  | "intern" :: rest =>
    let (ks, zs) := rest.span (· ≠ "|")
    match ks.mapM decodeStr, (zs.drop 1).mapM decodeStr with
    | some keys, some znames =>
      let members : List (String × List String) :=
        keys.map (fun k => (k, [])) ++ (if zs.isEmpty then [] else [("zKeyOrder", znames)])
      let run (m : List (String × List String)) := decodeIntern (fun _ => []) id [] m
      let a := run members
      let b := run members.reverse
      let s := Spec.OrderFree.decodedSymbolOrder [] members
      let sh (l : List String) := if l.isEmpty then "-" else ",".intercalate (l.map encodeStr)
      if a == b then s!"{sh a}\t{sh s}" else s!"MODEL-ORDER-DEPENDENT\t{sh s}"
    | _, _ => "bad-op\t-"
  | _ => "bad-op\t-"

end ZygoVerif.Driver.Walk
