/-
Channel `walk` (C20): ties Model/MapWalk.lean to the real functions.
  walk sorted <k1> <k2> …      keys (dot-coded strings) in the order the harness inserted
                               them; answer = the sorted key slice, `,`-joined codes
  walk typename <goType> <order…> | <name:goType:registeredName …>
The model is run on the given order AND on its reverse (two iteration orders); both must
agree (they do, by the theorems) — the answer carries the first. Spec = order-free spec.
-/
import ZygoVerif.Model.MapWalk
import ZygoVerif.Spec.OrderFree
import ZygoVerif.Driver.Proto
namespace ZygoVerif.Driver.Walk
open ZygoVerif.Proto ZygoVerif.MapWalk

def decodeStr (s : String) : Option String := do
  let cs ← parseCodes? s
  some (String.ofList (cs.map Char.ofNat))

def encodeStr (s : String) : String := showCodes (s.toList.map Char.toNat)

def handle (toks : List String) : String :=
  match toks with
  | "sorted" :: ks =>
    match ks.mapM decodeStr with
    | some keys =>
      let m := keys.zipIdx
      let a := (makeSortedSlicesFromMap m).1
      let b := (makeSortedSlicesFromMap m.reverse).1
      let s := (Spec.OrderFree.sortedListing m).map (·.1)
      let sh (l : List String) := ",".intercalate (l.map encodeStr)
      if a == b then s!"{sh a}\t{sh s}" else s!"MODEL-ORDER-DEPENDENT\t{sh s}"
    | none => "bad-op\t-"
  | _ => "bad-op\t-"

end ZygoVerif.Driver.Walk
